/-
  C03 round 3b — lemmas: `emplace` with an aliasing argument, `push` with a throwing
  copy constructor, `unbounded_array::fill / clear / operator=`.
-/
import IgrisModel.C03.More4
namespace Igris.C03
open Igris.Proto

namespace VRing
variable {α : Type}

theorem head_in_buf {v : VRing α} (g : Good v) : v.t.r.head.toNat < v.t.buf.length := by
  have := g.wf.1; have := g.cover; omega

/-- what `emplace(head_place())` does to a ring whose slots all live -/
theorem emplaceSelf_good {v : VRing α} (g : Good v) :
    ∃ v', v.emplaceSelf = some v' ∧ v'.t = v.pushSelf.t ∧
      v'.live = List.replicate v'.t.buf.length true ∧
      v'.overLive = 0 ∧ v'.deadDtor = 0 ∧ v'.deadRead = 1 ∧
      v'.ctor = v.ctor + 1 ∧ v'.dtor = v.dtor + 1 := by
  have hlen := head_in_buf g
  simp only [emplaceSelf, hlen, if_true]
  refine ⟨_, rfl, rfl, ?_, ?_, ?_, ?_, rfl, rfl⟩
  · simp only [construct, destruct, g.live]; exact recycle_live _ _
  · simp only [construct, destruct, g.live, g.over, getD_set_false hlen]; rfl
  · simp only [construct, destruct, g.live, g.dead, getD_replicate_true hlen]; rfl
  · simp only [construct, destruct, g.live, g.read, getD_set_false hlen]; rfl

theorem deadCount_set_false {n i : Nat} (hi : i < n) :
    LRing.deadCount ((List.replicate n true).set i false) = 1 := by
  induction n generalizing i with
  | zero => omega
  | succ n ih =>
    cases i with
    | zero => simp [LRing.deadCount, List.replicate_succ]
    | succ i =>
      have := ih (i := i) (by omega)
      simp only [LRing.deadCount, List.replicate_succ, List.set_cons_succ] at this ⊢
      simpa using this

/-- what a `push` whose copy constructor throws leaves behind -/
theorem pushThrowOrig_spec {v : VRing α} (g : Good v) :
    ∃ v', v.pushThrowOrig = some v' ∧ v'.t = v.t ∧
      v'.live = (List.replicate v.t.buf.length true).set v.t.r.head.toNat false ∧
      v'.overLive = 0 ∧ v'.deadDtor = 0 ∧ v'.deadRead = 0 ∧
      v'.ctor = v.ctor ∧ v'.dtor = v.dtor + 1 := by
  have hlen := head_in_buf g
  simp only [pushThrowOrig, hlen, if_true]
  refine ⟨_, rfl, rfl, ?_, g.over, ?_, g.read, rfl, rfl⟩
  · simp only [destruct, g.live]
  · simp only [destruct, g.live, g.dead, getD_replicate_true hlen]; rfl

/-- … and what happens to the dead slot afterwards: at scope exit, or at the next push -/
theorem pushThrowOrig_after {v v' : VRing α} (g : Good v) (e : v.pushThrowOrig = some v') (x : α) :
    v'.destroy.deadDtor = 1 ∧ v'.destroy.dtor = v'.destroy.ctor + 1 ∧
    ∃ v'', v'.push x = some v'' ∧ v''.deadDtor = 1 ∧ v''.overLive = 0 ∧
      v''.live = List.replicate v''.t.buf.length true ∧ v.t.push x = some v''.t := by
  have hlen := head_in_buf g
  have e' : v' = v.destruct v.t.r.head.toNat := by
    simp only [pushThrowOrig, hlen, if_true, Option.some.injEq] at e; exact e.symm
  subst e'
  refine ⟨?_, ?_, ?_⟩
  · simp only [destroy, invalidate, destruct, g.live, g.dead, getD_replicate_true hlen,
      deadCount_set_false hlen]; rfl
  · simp only [destroy, invalidate, destruct, g.live, List.length_set, List.length_replicate]
    have := g.bal; omega
  · have ht : v.t.push x = some ⟨ringMoveHeadOne v.t.r, v.t.buf.set v.t.r.head.toNat x⟩ := by
      simp [TRing.push, poke, hlen]
    simp only [push, destruct, ht]
    refine ⟨_, rfl, ?_, ?_, ?_, rfl⟩
    · simp only [construct, destruct, g.live, g.dead, getD_replicate_true hlen, getD_set_false hlen]; rfl
    · simp only [construct, destruct, g.live, g.over, List.set_set, getD_set_false hlen]; rfl
    · simp only [construct, destruct, g.live, List.set_set, List.length_set]
      exact LRing.set_replicate_self _ _ true

end VRing

/-! ### `ring_write` ignores data beyond what fits, `ring_read` a request beyond what is stored -/

theorem writeAux_take {α : Type} : ∀ (d : List α) {r : RingHead} {buf q : List α} (ret n : Nat),
    Abs r buf q → r.size.toNat - 1 - q.length < n →
    ringWriteAux (d.take n) r buf ret = ringWriteAux d r buf ret
  | [], r, buf, q, ret, n, _, _ => by simp
  | c :: rest, r, buf, q, ret, n, h, hn => by
      obtain ⟨m, rfl⟩ : ∃ m, n = m + 1 := ⟨n - 1, by omega⟩
      rw [List.take_succ_cons]
      by_cases hroom : q.length < r.size.toNat - 1
      · obtain ⟨e, ha⟩ := abs_putc c h hroom
        have ih := writeAux_take rest (ret + 1) m ha (by
          simp only [moveHeadOne_size, List.length_append, List.length_cons, List.length_nil]; omega)
        simp only [ringWriteAux, e]
        simpa using ih
      · have hl := h.2.2.1
        have := cnt_lt r h.1
        have hfull : q.length = r.size.toNat - 1 := by omega
        simp [ringWriteAux, abs_putc_full c h hfull]

theorem readWith_past_end : ∀ (q : List Byte) {r : RingHead} {buf : List Byte} (acc : List Byte) (n m : Nat),
    Abs r buf q → q.length < n → q.length < m →
    ringReadWith ringGetc buf n r acc = ringReadWith ringGetc buf m r acc
  | [], r, buf, acc, n, m, h, hn, hm => by
      obtain ⟨n', rfl⟩ : ∃ k, n = k + 1 := ⟨n - 1, by simp at hn; omega⟩
      obtain ⟨m', rfl⟩ : ∃ k, m = k + 1 := ⟨m - 1, by simp at hm; omega⟩
      simp [ringReadWith, abs_getc_empty h]
  | x :: q, r, buf, acc, n, m, h, hn, hm => by
      obtain ⟨n', rfl⟩ : ∃ k, n = k + 1 := ⟨n - 1, by simp at hn; omega⟩
      obtain ⟨m', rfl⟩ : ∃ k, m = k + 1 := ⟨m - 1, by simp at hm; omega⟩
      obtain ⟨e, ha⟩ := abs_getc h
      have hne : ((x.toNat : Int) == -1) = false := by
        have : (0 : Int) ≤ (x.toNat : Int) := Int.natCast_nonneg _
        simp only [beq_eq_false_iff_ne, ne_eq]; omega
      simp only [ringReadWith, e, hne]
      exact readWith_past_end q _ n' m' ha (by simp at hn; omega) (by simp at hm; omega)

namespace UArr
variable {α : Type}

/-- every slot holds a living object, no forbidden event so far, the ledger balances -/
structure Good (a : UArr α) : Prop where
  live : a.live = List.replicate a.data.length true
  dead : a.deadDtor = 0
  asg : a.deadAssign = 0
  bal : a.ctor = a.dtor + a.data.length

theorem mk'_good (dflt : α) (sz : Nat) : Good (mk' dflt sz) :=
  ⟨by simp [mk'], rfl, rfl, by simp [mk']⟩

/-- the loop of `fill`, started `it` elements into the array with enough fuel -/
theorem fillLoop_spec (val : α) : ∀ (fuel it : Nat) (a : UArr α), Good a → it ≤ a.data.length →
    a.data.length - it ≤ fuel →
    ∃ a', fillLoop val fuel it a = some a' ∧ Good a' ∧
      a'.data = a.data.take it ++ List.replicate (a.data.length - it) val ∧
      a'.ctor = a.ctor ∧ a'.dtor = a.dtor
  | 0, it, a, g, h1, h2 => by
      have : it = a.data.length := by omega
      refine ⟨a, by simp [fillLoop, iterEnd, this], g, ?_, rfl, rfl⟩
      simp [this]
  | fuel + 1, it, a, g, h1, h2 => by
      unfold fillLoop
      by_cases h : it = a.iterEnd
      · have h' : it = a.data.length := h
        refine ⟨a, by simp [h], g, ?_, rfl, rfl⟩
        simp [h']
      · have hlt : it < a.data.length := by simp only [iterEnd] at h; omega
        simp only [h, if_false, poke, hlt, if_true]
        have g' : Good (⟨a.data.set it val, a.live, a.ctor, a.dtor, a.deadDtor,
            a.deadAssign + (if a.live.getD it false then 0 else 1)⟩ : UArr α) := by
          refine ⟨by simpa using g.live, g.dead, ?_, by simpa using g.bal⟩
          simp only [g.live, g.asg, VRing.getD_replicate_true hlt]; rfl
        obtain ⟨a', e, ga, hd, hc, hdt⟩ := fillLoop_spec val fuel (it + 1) _ g'
          (by simp only [List.length_set]; omega) (by simp only [List.length_set]; omega)
        refine ⟨a', e, ga, ?_, hc, hdt⟩
        rw [hd]
        simp only [List.length_set]
        have hsplit : a.data.length - it = (a.data.length - (it + 1)) + 1 := by omega
        rw [hsplit, List.replicate_succ, List.take_succ, List.take_set_of_le (Nat.le_refl _)]
        simp [hlt, List.append_assoc]

theorem invalidate_good {a : UArr α} (g : Good a) :
    a.invalidate.data = [] ∧ a.invalidate.deadDtor = 0 ∧ a.invalidate.ctor = a.invalidate.dtor ∧
    Good a.invalidate := by
  have hd : a.invalidate.deadDtor = 0 := by
    simp only [invalidate, g.live, g.dead, VRing.deadCount_replicate]
  have hb : a.invalidate.ctor = a.invalidate.dtor := by
    simp only [invalidate, g.live, List.length_replicate]; exact g.bal
  exact ⟨rfl, hd, hb, ⟨rfl, hd, g.asg, by simpa [invalidate] using hb⟩⟩

end UArr
end Igris.C03
