import IgrisModel.C03.Model
open Igris.Proto Igris.C03

/-- the four kinds of object a case can be about -/
inductive St where
  | none
  | ring (r : RingHead) (buf : List Byte)
  | typed (t : TRing Int) (isChar : Bool)
  | cyc (c : Cyclic Int)
  | rc (c : RingCounter)
  | bring (b : ByteRing) (mem : List Byte)

def b01 (b : Bool) : String := if b then "1" else "0"

def ringState (r : RingHead) : String :=
  s!"{r.head.toNat} {r.tail.toNat} {(ringAvail r).toNat} {(ringRoom r).toNat} {b01 (ringEmpty r)} {b01 (ringFull r)}"

def typedState (t : TRing Int) : String :=
  s!"{t.r.head.toNat} {t.r.tail.toNat} {(ringAvail t.r).toNat} {(ringRoom t.r).toNat} {t.r.size.toNat} {b01 (ringEmpty t.r)} {t.buf.length}"

def initPattern (n : Nat) : List Byte := (List.range n).map fun i => BitVec.ofNat 8 (i * 7 + 3)

def i32 (s : String) : Option (BitVec 32) := s.toInt?.map (BitVec.ofInt 32)
def u32 (s : String) : Option U32 := s.toNat?.map (BitVec.ofNat 32)

def ints (l : List Int) : String :=
  if l.isEmpty then "-" else ",".intercalate (l.map toString)

def parseOp (w : List String) : Option Op :=
  match w with
  | ["putc", c] => do let c ← parseBytes? c; let c ← c.head?; pure (.putc c)
  | ["getc"] => pure .getc
  | ["write", d] => do let d ← parseBytes? d; pure (.write d)
  | ["read", n] => do let n ← n.toNat?; pure (.read n)
  | ["prod", d] => do let d ← parseBytes? d; pure (.produce d)
  | ["prod1", c] => do let c ← parseBytes? c; let c ← c.head?; pure (.produce1 c)
  | ["cons", n] => do let n ← n.toNat?; pure (.consume n)
  | ["cons1"] => pure .consume1
  | ["mh", n] => do let n ← u32 n; pure (.moveHead n)
  | ["mh1"] => pure .moveHeadOne
  | ["mt", n] => do let n ← u32 n; pure (.moveTail n)
  | ["mt1"] => pure .moveTailOne
  | ["clean"] => pure .clean
  | _ => none

def showOut : Out → String
  | .int v => toString v
  | .count n => toString n
  | .bytes d => s!"{d.length} {bytesHex d}"
  | .unit => "-"

def stepRingLine (r : RingHead) (buf : List Byte) (w : List String) : Option (RingHead × List Byte × String) :=
  match parseOp w with
  | some op => (stepRing r buf op).map fun (r', b', o) => (r', b', showOut o)
  | none =>
    match w with
    | ["set", h, t] => do
        let h ← u32 h; let t ← u32 t
        pure ({ r with head := h, tail := t }, buf, "-")
    | ["fix", i] => do
        let i ← i32 i
        pure (r, buf, toString (ringFixupIndex r i).toInt)
    | ["each"] =>
        let l := ringForEach r r.size.toNat r.tail
        pure (r, buf, ints (l.map fun x => (x.toNat : Int)))
    | ["eachv"] => do
        let l ← ringForEachFold r buf (fun (acc : List Byte) _ x => acc ++ [x]) (r.size.toNat + 1) r.tail []
        pure (r, buf, bytesHex l)
    | ["dump"] => pure (r, buf, bytesHex buf)
    | _ => pure (r, buf, "bad-op")

def charOfInt (v : Int) : Byte := BitVec.ofInt 8 v
/-- `char` element printed as the harness prints it: `(int)(signed char)` -/
def showElem (isChar : Bool) (v : Int) : String :=
  if isChar then toString (BitVec.ofInt 8 v).toInt else toString v

def stepTyped (t : TRing Int) (isChar : Bool) (w : List String) : Option (TRing Int × String) :=
  let norm (v : Int) : Int := if isChar then (BitVec.ofInt 8 v).toInt else (BitVec.ofInt 32 v).toInt
  match w with
  | ["push", v] | ["emplace", v] => do
      let v ← v.toInt?
      let t' ← t.push (norm v)
      pure (t', "-")
  | ["pushfull", v] => do   -- finding probe: push on a full ring (same code path as push)
      let v ← v.toInt?
      let t' ← t.push (norm v)
      pure (t', "-")
  | ["pushalias"] => do   -- x.push(x.head_place()): the argument is the head slot itself
      let v ← t.headPlace
      let t' ← t.push v
      pure (t', "-")
  | ["pop"] | ["popempty"] => do let t' ← t.pop 0; pure (t', "-")
  | ["clear"] => do let t' ← TRing.clear 0 (t.r.size.toNat + 1) t; pure (t', "-")
  | ["mh1"] => pure ({ t with r := ringMoveHeadOne t.r }, "-")
  | ["mt1"] => pure ({ t with r := ringMoveTailOne t.r }, "-")
  | ["rst"] => pure (t.reset, "-")
  | ["resize", n] => do let n ← n.toNat?; pure (TRing.resize 0 t n, "-")
  | ["tail"] => do let v ← t.tail; pure (t, s!"{showElem isChar v}@{t.r.tail.toNat}")
  | ["last"] => do let v ← t.last; pure (t, s!"{showElem isChar v}@{t.lastIndex.toInt}")
  | ["headplace"] => do let v ← t.headPlace; pure (t, showElem isChar v)
  | ["get", i] => do let i ← i.toNat?; let v ← t.get i; pure (t, showElem isChar v)
  | ["getlast", o, c, e] => do
      let o ← i32 o; let c ← c.toNat?
      let l ← t.getLast o c (e == "1")
      pure (t, if l.isEmpty then "-" else ",".intercalate (l.map (showElem isChar)))
  | ["fixup", i] => do let i ← i32 i; pure (t, toString (t.fixupIndex i).toInt)
  | ["distance", a, b] => do
      let a ← i32 a; let b ← i32 b
      pure (t, toString (t.distance a b).toInt)
  | ["setlast", i] => do let i ← i32 i; pure (t.setLastIndex i, "-")
  | ["settail", i] => do let i ← u32 i; pure ({ t with r := { t.r with tail := i } }, "-")
  | ["fillbuf"] => pure ({ t with buf := (List.range t.buf.length).map fun (i : Nat) => norm ((i : Int) + 1) }, "-")
  | ["copy"] => pure (TRing.copy 0 t, "-")
  | ["assign"] => pure (TRing.assign (TRing.mk' 0 3) t, "-")
  | ["move"] =>
      let (n, old) := t.move
      pure (n, s!"{old.buf.length} {old.r.size.toNat}")
  | ["moveback", n] => do   -- move-construct another ring from x, then x.resize(n) and carry on with x
      let n ← n.toNat?
      pure (TRing.resize 0 t.move.2 n, "-")
  | ["writebig", k, d] => do   -- write(buf, 2^32 + k); `d` = what the source buffer holds (size + 1 elements)
      let k ← k.toNat?
      let d ← parseBytes? d
      if d.length < t.r.size.toNat + 1 then none
      let (t', n) ← t.writeC (d.map fun b => b.toInt) (2 ^ 32 + k)
      pure (t', toString n)
  | ["readbig", k] => do       -- read(buf, 2^32 + k)
      let k ← k.toNat?
      let (r', out) ← TRing.readC ⟨t.r, t.buf.map charOfInt⟩ (2 ^ 32 + k)
      pure ({ t with r := r' }, s!"{out.length} {bytesHex out}")
  | ["write", d] => do
      let d ← parseBytes? d
      let (r', buf', n) ← ringWrite t.r t.buf (d.map fun b => b.toInt)
      pure ({ r := r', buf := buf' }, toString n)
  | ["read", n] => do
      let n ← n.toNat?
      let (r', out) ← ringRead t.r (t.buf.map charOfInt) n
      pure ({ t with r := r' }, s!"{out.length} {bytesHex out}")
  | _ => pure (t, "bad-op")

def stepCyc (c : Cyclic Int) (w : List String) : Option (Cyclic Int × String) :=
  match w with
  | ["push", v] => do
      let v ← v.toInt?
      let (c', old) ← c.push v
      pure (c', toString old)
  | ["at", i] => do
      let i ← i.toInt?
      let v ← c.nth i
      pure (c, toString v)
  | ["resize", n] => do let n ← n.toNat?; pure (Cyclic.resize 0 c n, "-")
  | _ => pure (c, "bad-op")

def showOI (o : Option Int) : String := match o with | some v => toString v | none => "fault"

/-- the `int`-checked functions (`fault` = signed overflow) -/
def stepRc (c : RingCounter) (w : List String) : RingCounter × String :=
  match w with
  | ["inc", a] => match a.toInt? with
      | some a => match rcIncrementC c a with
          | some c' => (c', "-")
          | none => (c, "fault")
      | none => (c, "bad-op")
  | ["set", a] => match a.toInt? with
      | some a => match rcSetC c a with
          | some c' => (c', "-")
          | none => (c, "fault")
      | none => (c, "bad-op")
  | ["prev", a] => (c, (a.toInt?.map fun a => showOI (rcPrevC c a)).getD "bad-op")
  | ["last", a] => (c, (a.toInt?.map fun a => showOI (rcLastC c a)).getD "bad-op")
  | ["fixpos", a] => (c, (a.toInt?.map fun a => showOI (rcFixupPosC c a)).getD "bad-op")
  | ["get"] => (c, toString (rcGet c))
  | _ => (c, "bad-op")

def bringState (b : ByteRing) : String :=
  s!"{b.head - b.start} {b.tail - b.start} {b01 (brEmpty b)} {b01 (brFull b)}"

def stepBring (b : ByteRing) (mem : List Byte) (w : List String) : Option (ByteRing × List Byte × String) :=
  match w with
  | ["push", c] => do
      let c ← parseBytes? c; let c ← c.head?
      let (b', m', rc) ← brPush b mem c
      pure (b', m', toString rc)
  | ["pushn", c] => do
      let c ← parseBytes? c; let c ← c.head?
      let (b', m') ← brPushNocheck b mem c
      pure (b', m', "-")
  | ["pop"] => do let (b', v) ← brPop b mem; pure (b', mem, toString v)
  | ["popn"] => do let (b', v) ← brPopNocheck b mem; pure (b', mem, toString v)
  | ["dump"] => pure (b, mem, bytesHex mem)
  | _ => pure (b, mem, "bad-op")

/-- `lifecount <n> <script>`: a ring<Tracked>(n) runs the script (u push, o pop,
c clear, z resize(n), y copy-construct and continue with the copy, m move-construct
and continue with the new object; U push although full, O pop although empty) and is
destroyed; the three forbidden-event counters and the constructor / destructor
calls on slots of the ring's arrays -/
def lifeScript (l : VRing Int) (n : Nat) : List Char → Nat → Option (VRing Int)
  | [], _ => some l.destroy
  | ch :: rest, k =>
    match ch with
    | 'u' | 'U' => (l.push (k : Int)).bind fun l' => lifeScript l' n rest (k + 1)
    | 'o' | 'O' => (l.pop 0).bind fun l' => lifeScript l' n rest k
    | 'a' => lifeScript l.pushSelf n rest k
    | 'e' => l.emplaceSelf.bind fun l' => lifeScript l' n rest k   -- emplace(head_place())
    | 'x' | 'X' => (l.pushThrow 0).bind fun l' => lifeScript l' n rest k -- push whose copy constructor throws (caught by the caller)
    | 'c' => (VRing.clear 0 (l.t.r.size.toNat + 1) l).bind fun l' => lifeScript l' n rest k
    | 'z' | 'M' => lifeScript (VRing.resize 0 l n) n rest k   -- M: the elements die with the moved-to object
    | 'y' => lifeScript (VRing.copyAndDrop 0 l) n rest k
    | 'm' => lifeScript l.moveAndDrop n rest k
    | 'g' => lifeScript (VRing.assignAndDrop 0 l 3) n rest k
    | _ => none

def lifeCount (n : Nat) (script : String) : String :=
  match lifeScript (VRing.mk' 0 n) n (if script == "-" then [] else script.toList) 0 with
  | some l => s!"{l.overLive} {l.deadDtor} {l.deadRead} {(l.ctor : Int) - l.dtor}"
  | none => "fault"

/-- `arr <n> <script>`: `unbounded_array<T>(n)` under fill / clear / self-assignment / assignment from an
array `{1..M}` / resize / begin-end; "<size>:<elements>" after every token, then the ledger after destruction -/
def arrState (a : UArr Int) : String :=
  s!"{a.data.length}:" ++ (if a.data.isEmpty then "-" else ",".intercalate (a.data.map toString))

def arrScript (n : Nat) (toks : List String) : String :=
  let rec go (a : UArr Int) (acc : List String) : List String → String
    | [] =>
      let f := a.invalidate
      ";".intercalate acc.reverse ++ s!" | {(f.ctor : Int) - f.dtor} {f.deadDtor} {f.deadAssign}"
    | tk :: rest =>
      let k := ((tk.drop 1).toNat?).getD 0
      let a' : Option (UArr Int) :=
        if tk.startsWith "f" then a.fill (k : Int)
        else if tk == "c" then some a.clear
        else if tk == "s" then some (a.assign none)
        else if tk.startsWith "g" then
          -- the source array y(k) of the harness: k elements constructed, k destroyed at the end of the step
          let r := a.assign (some ((List.range k).map fun i => ((i + 1 : Nat) : Int)))
          some { r with ctor := r.ctor + k, dtor := r.dtor + k }
        else if tk.startsWith "z" then some (a.resize 0 k)
        else if tk == "b" then some a
        else none
      match a' with
      | none => "fault"
      | some a' => go a' (arrState a' :: acc) rest
  go (UArr.mk' 0 n) [] toks

/-- widths and signedness of the index / size / counter types the model embeds:
`ring_head` fields `unsigned int` (BitVec 32), `ring_counter` fields `int`
(checked 32-bit), `cyclic_buffer::_size` and `unbounded_array::m_size` `size_t`
(64), return types of ring_read/ring_write (`int`), igris::ring::read/write
(`size_t`), avail/room/size (`unsigned`), index_of/tail_index/distance/fixup_index (`int`) -/
def widthsLine : String :=
  "head u4 tail u4 size u4 rc.counter i4 rc.size i4 cyc._size u8 arr.m_size u8 " ++
  "ring_read i4 ring_write i4 ring_avail u4 ring_room u4 ring_fixup_index i4 putc i4 getc i4 " ++
  "t.read u8 t.write u8 t.avail u4 t.room u4 t.size u4 t.index_of i4 t.tail_index i4 t.distance i4 " ++
  "t.fixup_index i4 int_max 2147483647 uint_max 4294967295"

/-- byte `j` of the deterministic data sequence of the `hist` ops -/
def histByte (j : Nat) : Byte := ([0xff, 0x80, 0x00, 0x7f, 0x01, 0xfe, 0x81] : List Byte).getD (j % 7) 0

def histBytes (j n : Nat) : List Byte := (List.range n).map fun i => histByte (j + i)

def tokNum (s : String) : Nat := (s.drop 1).toNat?.getD 0

/-- `hist <size> <script>`: ONE ring_head of `size` slots runs the whole script
(`p` putc, `g` getc, `wN` ring_write of N bytes, `rN` ring_read of N); result =
the per-operation result lines joined by `;` -/
def histRing (size : Nat) (toks : List String) : String :=
  let rec go (r : RingHead) (buf : List Byte) (j : Nat) (acc : List String) : List String → List String
    | [] => acc.reverse
    | tk :: rest =>
      let (op, j') : Option Op × Nat :=
        if tk == "p" then (some (.putc (histByte j)), j + 1)
        else if tk == "g" then (some .getc, j)
        else if tk.startsWith "w" then (some (.write (histBytes j (tokNum tk))), j + tokNum tk)
        else if tk.startsWith "r" then (some (.read (tokNum tk)), j)
        else (none, j)
      match op with
      | none => (("bad-op") :: acc).reverse
      | some op =>
        match stepRing r buf op with
        | none => (("fault") :: acc).reverse
        | some (r', b', o) => go r' b' j' ((showOut o ++ " " ++ ringState r') :: acc) rest
  ";".intercalate (go (ringInit (BitVec.ofNat 32 size)) (initPattern size) 0 [] toks)

/-- `histt <n> <script>`: ONE igris::ring<char>(n) runs the script (`u` push,
`o` tail() then pop(), `wN` write, `rN` read) -/
def histTyped (n : Nat) (toks : List String) : String :=
  let rec go (t : TRing Int) (j : Nat) (acc : List String) : List String → List String
    | [] => acc.reverse
    | tk :: rest =>
      let (lines, j') : List (List String) × Nat :=
        if tk == "u" then ([["push", toString (histByte j).toInt]], j + 1)
        else if tk == "o" then ([["tail"], ["pop"]], j)
        else if tk.startsWith "w" then ([["write", bytesHex (histBytes j (tokNum tk))]], j + tokNum tk)
        else if tk.startsWith "r" then ([["read", toString (tokNum tk)]], j)
        else ([["bad"]], j)
      let rec sub (t : TRing Int) (acc : List String) : List (List String) → Option (TRing Int × List String)
        | [] => some (t, acc)
        | w :: ws =>
          match stepTyped t true w with
          | none => none
          | some (t', out) => sub t' ((out ++ " " ++ typedState t') :: acc) ws
      match sub t acc lines with
      | none => (("fault") :: acc).reverse
      | some (t', acc') => go t' j' acc' rest
  ";".intercalate (go (TRing.mk' 0 n) 0 [] toks)

/-- what a harness object with `init_priority(101)` computes BEFORE main() with
local objects only (no igris code depends on static initialisation order): a C
ring of 5 slots, an igris::ring<int>(3), a cyclic_buffer<int>(3), a ring_counter -/
def premainLine : String :=
  let r0 := ringInit 5
  let b0 := initPattern 5
  let out : Option String := do
    let (r1, b1, rc1) ← ringPutc r0 b0 0xff
    let (r2, b2, rc2) ← ringPutc r1 b1 0x80
    let (r3, g1) ← ringGetc r2 b2
    let (r4, b4, w) ← ringWrite r3 b2 [1, 2, 3, 4, 5]
    let (r5, rd) ← ringRead r4 b4 9
    let t0 : TRing Int := TRing.mk' 0 3
    let t1 ← t0.push 1
    let t2 ← t1.push 2
    let t3 ← t2.push 3
    let la ← t3.last
    let t4 ← t3.pop 0
    let tl ← t4.tail
    let gl ← t4.getLast 0 2 true
    let c0 : Cyclic Int := Cyclic.mk' 0 3
    let (c1, _) ← c0.push 10
    let (c2, _) ← c1.push 11
    let (c3, _) ← c2.push 12
    let (c4, old) ← c3.push 13
    let a0 ← c4.nth 0
    let a2 ← c4.nth 2
    let k ← rcIncrementC (rcInit 7) 9
    let pv ← rcPrevC k 5
    pure s!"{rc1} {rc2} {g1} {w} {bytesHex rd} {ringState r5} {(ringFixupIndex r5 (-1)).toInt} {la} {tl} {ints gl} {(ringAvail t4.r).toNat} {old} {a0} {a2} {c4.counter.counter} {k.counter} {pv}"
  out.getD "fault"

def stepLine (s : St) (line : String) : St × String :=
  match words line with
  | ["reset", "ring", size, blen] =>
      match u32 size, blen.toNat? with
      | some sz, some bl => let r := ringInit sz; (.ring r (initPattern bl), "- " ++ ringState r)
      | _, _ => (s, "bad-op")
  | ["reset", "typed", n] | ["reset", "tchar", n] =>
      match n.toNat? with
      | some k =>
          let t : TRing Int := TRing.mk' 0 k
          (.typed t ((words line).getD 1 "" == "tchar"), "- " ++ typedState t)
      | none => (s, "bad-op")
  | ["reset", "tempty"] =>
      let t : TRing Int := TRing.empty
      (.typed t false, "- " ++ typedState t)
  | ["reset", "cyc", n] =>
      match n.toNat? with
      | some k => let c : Cyclic Int := Cyclic.mk' 0 k; (.cyc c, s!"- {c.counter.counter} {c.fill}")
      | none => (s, "bad-op")
  | ["reset", "bring", n] =>
      match n.toNat? with
      | some k => let b := brInit 4096 k; (.bring b (initPattern k), "- " ++ bringState b)
      | none => (s, "bad-op")
  | ["reset", "rc", n] =>
      match n.toInt? with
      | some k => let c := rcInit k; (.rc c, s!"- {c.counter}")
      | none => (s, "bad-op")
  | ["lifecount", n, script] =>
      match n.toNat? with
      | some k => (s, lifeCount k script)
      | none => (s, "bad-op")
  | ["lifeviol", n, script] =>
      match n.toNat? with
      | some k => (s, lifeCount k script)
      | none => (s, "bad-op")
  | ["arr", n, script] =>
      match n.toNat? with
      | some k => (s, arrScript k (script.splitOn ","))
      | none => (s, "bad-op")
  | "lifeprobe" :: _ => (s, "-")   -- oracle-only operation: object lifetime is not modelled
  | "reset" :: "longrun" :: _ => (.none, "-")     -- oracle-only operation: 300 KiB through one ring
  | ["reset", "widths"] => (.none, widthsLine)
  | ["reset", "premain"] => (.none, premainLine)
  | ["reset", "hist", size, script] =>
      match size.toNat? with
      | some k => (.none, histRing k (script.splitOn ","))
      | none => (s, "bad-op")
  | ["reset", "histt", n, script] =>
      match n.toNat? with
      | some k => (.none, histTyped k (script.splitOn ","))
      | none => (s, "bad-op")
  | ["reset", "sizezero", "mh"] => (.none, "hang")     -- ring_fixup_terminates_iff: never returns
  | ["reset", "sizezero", _] => (.none, "fault")       -- division by zero / store through nullptr
  | ["reset", "movedpush", _] => (.none, "fault")      -- ring_copy_move: push on a ring without storage
  | w =>
    match s with
    | .none => (s, "bad-op")
    | .ring r buf =>
        match stepRingLine r buf w with
        | some (r', buf', out) => (.ring r' buf', out ++ " " ++ ringState r')
        | none => (s, "fault")
    | .typed t isChar =>
        match stepTyped t isChar w with
        | some (t', out) => (.typed t' isChar, out ++ " " ++ typedState t')
        | none => (s, "fault")
    | .cyc c =>
        match stepCyc c w with
        | some (c', out) => (.cyc c', s!"{out} {c'.counter.counter} {c'.fill}")
        | none => (s, "fault")
    | .bring b mem =>
        match stepBring b mem w with
        | some (b', mem', out) => (.bring b' mem', out ++ " " ++ bringState b')
        | none => (s, "fault")
    | .rc c =>
        let (c', out) := stepRc c w
        (.rc c', s!"{out} {c'.counter}")

def main : IO Unit := run St.none stepLine
