/-
  C03 round 3 — lemmas: the repaired slot-lifetime model (`VRing`), rejections of
  the bulk calls, the C widths of the constructors, termination of the fix-up loop.
-/
import IgrisModel.C03.More3
namespace Igris.C03
open Igris.Proto

namespace VRing
variable {α : Type}

/-- the value component of the lifetime model IS the typed-ring model -/
theorem push_t (v : VRing α) (x : α) : (v.push x).map (·.t) = v.t.push x := by
  unfold push; cases v.t.push x <;> rfl

theorem pop_t (v : VRing α) (d : α) : (v.pop d).map (·.t) = v.t.pop d := by
  unfold pop; cases v.t.pop d <;> rfl

/-- the invariant of the repaired ring: every slot of the array holds a living
object, none of the forbidden events has happened, and the objects constructed
so far are the ones destroyed so far plus the ones living in the slots -/
structure Good (v : VRing α) : Prop where
  live : v.live = List.replicate v.t.buf.length true
  over : v.overLive = 0
  dead : v.deadDtor = 0
  read : v.deadRead = 0
  bal : v.ctor = v.dtor + v.t.buf.length
  wf : v.t.r.WF
  cover : v.t.r.size.toNat ≤ v.t.buf.length

theorem getD_replicate_true {n i : Nat} (hi : i < n) : (List.replicate n true).getD i false = true := by
  simp [List.getD_eq_getElem?_getD, List.getElem?_replicate, hi]

theorem getD_set_false {n i : Nat} (hi : i < n) :
    ((List.replicate n true).set i false).getD i false = false := by
  simp [List.getD_eq_getElem?_getD, hi]

theorem recycle_live (n i : Nat) : ((List.replicate n true).set i false).set i true = List.replicate n true := by
  rw [List.set_set]; exact LRing.set_replicate_self n i true

theorem deadCount_replicate (n : Nat) : LRing.deadCount (List.replicate n true) = 0 := by
  simp [LRing.deadCount]

/-- destroy-then-construct on a slot of a ring whose slots all live -/
theorem recycle_good {v : VRing α} (g : Good v) {i : Nat} (hi : i < v.t.buf.length) (t' : TRing α)
    (hlen : t'.buf.length = v.t.buf.length) (wf : t'.r.WF) (hc : t'.r.size.toNat ≤ t'.buf.length) :
    Good { (v.destruct i).construct i with t := t' } ∧
      ({ (v.destruct i).construct i with t := t' } : VRing α).ctor = v.ctor + 1 ∧
      ({ (v.destruct i).construct i with t := t' } : VRing α).dtor = v.dtor + 1 := by
  refine ⟨⟨?_, ?_, ?_, ?_, ?_, wf, hc⟩, rfl, rfl⟩
  · simp only [construct, destruct, g.live, hlen]; exact recycle_live _ _
  · simp only [construct, destruct, g.live, g.over, getD_set_false hi]; rfl
  · simp only [construct, destruct, g.live, g.dead, getD_replicate_true hi]; rfl
  · exact g.read
  · simp only [construct, destruct, hlen]; have := g.bal; omega

theorem mk'_good (dflt : α) (n : Nat) (hn : n + 1 < 2 ^ 32) : Good (mk' dflt n) := by
  obtain ⟨hs, hl, ha⟩ := TRing.mk'_abs dflt n hn
  refine ⟨?_, rfl, rfl, rfl, ?_, ha.1, ?_⟩
  · simp [mk', TRing.mk']
  · simp [mk', TRing.mk']
  · show (TRing.mk' dflt n).r.size.toNat ≤ (TRing.mk' dflt n).buf.length
    rw [hs, hl]; exact Nat.le_refl _

theorem push_good {v : VRing α} (x : α) (g : Good v) :
    ∃ v', v.push x = some v' ∧ Good v' ∧ v'.ctor = v.ctor + 1 ∧ v'.dtor = v.dtor + 1 := by
  have hlen : v.t.r.head.toNat < v.t.buf.length := by have := g.wf.1; have := g.cover; omega
  have ht : v.t.push x = some ⟨ringMoveHeadOne v.t.r, v.t.buf.set v.t.r.head.toNat x⟩ := by
    simp [TRing.push, poke, hlen]
  obtain ⟨h1, h2, h3⟩ := recycle_good g hlen ⟨ringMoveHeadOne v.t.r, v.t.buf.set v.t.r.head.toNat x⟩
    (by simp) (wf_moveHeadOne g.wf) (by simpa using g.cover)
  exact ⟨_, by simp only [push, ht], h1, h2, h3⟩

/-- the repaired throwing push: destroy, value-construct in the same slot, nothing else -/
theorem pushThrow_good {v : VRing α} (d : α) (g : Good v) :
    ∃ v', v.pushThrow d = some v' ∧ Good v' ∧ v'.t.r = v.t.r ∧
      v'.t.buf = v.t.buf.set v.t.r.head.toNat d ∧ v'.ctor = v.ctor + 1 ∧ v'.dtor = v.dtor + 1 := by
  have hlen : v.t.r.head.toNat < v.t.buf.length := by have := g.wf.1; have := g.cover; omega
  obtain ⟨h1, h2, h3⟩ := recycle_good g hlen ⟨v.t.r, v.t.buf.set v.t.r.head.toNat d⟩
    (by simp) g.wf (by simpa using g.cover)
  exact ⟨_, by simp only [pushThrow, poke, hlen, if_true], h1, rfl, rfl, h2, h3⟩

theorem pop_good {v : VRing α} (d : α) (g : Good v) :
    ∃ v', v.pop d = some v' ∧ Good v' ∧ v'.ctor = v.ctor + 1 ∧ v'.dtor = v.dtor + 1 := by
  have hlen : v.t.r.tail.toNat < v.t.buf.length := by have := g.wf.2; have := g.cover; omega
  have ht : v.t.pop d = some ⟨ringMoveTailOne v.t.r, v.t.buf.set v.t.r.tail.toNat d⟩ := by
    simp [TRing.pop, hlen]
  obtain ⟨h1, h2, h3⟩ := recycle_good g hlen ⟨ringMoveTailOne v.t.r, v.t.buf.set v.t.r.tail.toNat d⟩
    (by simp) (wf_moveTailOne g.wf) (by simpa using g.cover)
  exact ⟨_, by simp only [pop, ht], h1, h2, h3⟩

theorem clear_good (d : α) : ∀ (fuel : Nat) {v : VRing α}, Good v →
    ∃ v', clear d fuel v = some v' ∧ Good v'
  | 0, v, g => ⟨v, rfl, g⟩
  | fuel + 1, v, g => by
      unfold clear
      split
      · exact ⟨v, rfl, g⟩
      · obtain ⟨v1, e1, g1, -, -⟩ := pop_good d g
        obtain ⟨v2, e2, g2⟩ := clear_good d fuel g1
        exact ⟨v2, by simp only [e1, e2], g2⟩

/-- `invalidate()` on a ring whose slots all live: every object is destroyed, once -/
theorem invalidate_good {v : VRing α} (g : Good v) :
    v.invalidate.overLive = 0 ∧ v.invalidate.deadDtor = 0 ∧ v.invalidate.deadRead = 0 ∧
    v.invalidate.ctor = v.invalidate.dtor ∧ (∀ b ∈ v.invalidate.live, b = false) := by
  refine ⟨g.over, ?_, g.read, ?_, ?_⟩
  · simp only [invalidate, g.live, g.dead, deadCount_replicate]
  · simp only [invalidate, g.live, List.length_replicate]; exact g.bal
  · intro b hb
    simp only [invalidate, List.mem_map] at hb
    obtain ⟨_, _, rfl⟩ := hb
    rfl

theorem resize_good (dflt : α) {v : VRing α} (g : Good v) (sz : Nat) (hn : sz + 1 < 2 ^ 32) :
    Good (v.resize dflt sz) := by
  obtain ⟨hs, hl, ha⟩ := TRing.resize_abs dflt v.t sz hn
  obtain ⟨_, hd, _, hb, _⟩ := invalidate_good g
  refine ⟨?_, g.over, hd, g.read, ?_, ha.1, ?_⟩
  · simp only [resize]; rw [hl]
  · simp only [resize]; rw [hl]; omega
  · simp only [resize]; rw [hs, hl]; exact Nat.le_refl _

theorem copy_good (dflt : α) {v : VRing α} (g : Good v) : Good (v.copyAndDrop dflt) := by
  obtain ⟨_, hd, _, hb, _⟩ := invalidate_good g
  have hc : (TRing.copy dflt v.t).buf.length = v.t.buf.length := by simp [TRing.copy, arrCopy_eq]
  refine ⟨?_, g.over, hd, ?_, ?_, g.wf, ?_⟩
  · simp only [copyAndDrop]; rw [hc]
  · simp only [copyAndDrop, g.read, g.live, deadCount_replicate]
  · simp only [copyAndDrop]; rw [hc]; omega
  · simp only [copyAndDrop]; rw [hc]; exact g.cover

theorem pushSelf_good {v : VRing α} (g : Good v) : Good v.pushSelf :=
  ⟨g.live, g.over, g.dead, g.read, g.bal, wf_moveHeadOne g.wf, g.cover⟩

theorem assign_good (dflt : α) {v : VRing α} (g : Good v) (m : Nat) : Good (v.assignAndDrop dflt m) := by
  obtain ⟨_, hd, _, hb, _⟩ := invalidate_good g
  have hc : (TRing.assign (TRing.mk' dflt m) v.t).buf.length = v.t.buf.length := by simp [TRing.assign]
  refine ⟨?_, g.over, hd, ?_, ?_, g.wf, ?_⟩
  · simp only [assignAndDrop]; rw [hc]
  · simp only [assignAndDrop, g.read, g.live, deadCount_replicate]
  · simp only [assignAndDrop]; rw [hc]; omega
  · simp only [assignAndDrop]; rw [hc]; exact g.cover

theorem move_good {v : VRing α} (g : Good v) : Good v.moveAndDrop :=
  ⟨g.live, g.over, g.dead, g.read, g.bal, g.wf, g.cover⟩

end VRing

/-- admissible scripts: `resize(sz)` with `sz + 1` representable in `unsigned` -/
def VOp.ok {α : Type} : VOp α → Prop
  | .resize sz => sz + 1 < 2 ^ 32
  | _ => True

theorem VRing.step_good {α : Type} (dflt : α) {v : VRing α} (g : VRing.Good v) (op : VOp α) (hok : op.ok) :
    ∃ v', VRing.step dflt v op = some v' ∧ VRing.Good v' := by
  cases op with
  | push x => obtain ⟨v', e, g', -, -⟩ := VRing.push_good x g; exact ⟨v', e, g'⟩
  | pushSelf => exact ⟨_, rfl, VRing.pushSelf_good g⟩
  | pop => obtain ⟨v', e, g', -, -⟩ := VRing.pop_good dflt g; exact ⟨v', e, g'⟩
  | clear => exact VRing.clear_good dflt _ g
  | resize sz => exact ⟨_, rfl, VRing.resize_good dflt g sz hok⟩
  | copy => exact ⟨_, rfl, VRing.copy_good dflt g⟩
  | move => exact ⟨_, rfl, VRing.move_good g⟩
  | assign m => exact ⟨_, rfl, VRing.assign_good dflt g m⟩
  | pushThrow => obtain ⟨v', e, g', -⟩ := VRing.pushThrow_good dflt g; exact ⟨v', e, g'⟩

theorem VRing.run_good {α : Type} (dflt : α) : ∀ (ops : List (VOp α)) {v : VRing α}, VRing.Good v →
    (∀ op ∈ ops, op.ok) → ∃ v', VRing.run dflt v ops = some v' ∧ VRing.Good v'
  | [], v, g, _ => ⟨v, rfl, g⟩
  | op :: ops, v, g, hok => by
      obtain ⟨v1, e1, g1⟩ := VRing.step_good dflt g op (hok op (by simp))
      obtain ⟨v2, e2, g2⟩ := VRing.run_good dflt ops g1 (fun o ho => hok o (by simp [ho]))
      exact ⟨v2, by simp [VRing.run, e1, e2], g2⟩

/-! ### a full ring rejects `ring_write`, an empty ring rejects `ring_read`: state unchanged -/

theorem write_full_unchanged {α : Type} (r : RingHead) (buf d : List α) (hf : ringFull r = true) :
    ringWrite r buf d = some (r, buf, 0) := by
  cases d with
  | nil => rfl
  | cons c d => simp [ringWrite, ringWriteAux, ringPutc, hf]

theorem read_empty_unchanged (r : RingHead) (buf : List Byte) (n : Nat) (he : ringEmpty r = true) :
    ringRead r buf n = some (r, []) := by
  cases n with
  | zero => rfl
  | succ n => simp [ringRead, ringReadWith, ringGetc, ringGetcWith, he]

/-! ### termination of `ring_fixup_head` / `ring_fixup_tail` -/

theorem fixupLoopT_zero (fuel : Nat) (x : U32) : fixupLoopT 0#32 fuel x = none := by
  induction fuel generalizing x with
  | zero =>
    have h : x ≥ 0#32 := by bv_omega
    unfold fixupLoopT; rw [if_pos h]
  | succ n ih =>
    have h : x ≥ 0#32 := by bv_omega
    have e : x - 0#32 = x := by simp
    unfold fixupLoopT; rw [if_pos h, e]; exact ih x

theorem fixupLoopT_pos (size : U32) (hs : 0 < size.toNat) :
    ∀ (fuel : Nat) (x : U32), x.toNat ≤ fuel → fixupLoopT size fuel x = some (fixupLoop size fuel x)
  | 0, x, h => by
      have h0 : x.toNat = 0 := by omega
      have : ¬ x ≥ size := by bv_omega
      simp [fixupLoopT, fixupLoop, this]
  | fuel + 1, x, h => by
      unfold fixupLoopT fixupLoop
      split
      · have hle : size.toNat ≤ x.toNat := by bv_omega
        have e : (x - size).toNat = x.toNat - size.toNat := by bv_omega
        exact fixupLoopT_pos size hs fuel (x - size) (by omega)
      · rfl

/-! ### igris::ring<char>: bulk `write`/`read` interleaved with `push` / `tail(); pop()` on ONE object -/

/-- operations of `igris::ring<char>` -/
inductive COp where
  | push (x : Byte)
  | pop
  | write (d : List Byte)
  | read (n : Nat)

inductive COut where
  | unit
  | elem (x : Byte)
  | count (n : Nat)
  | bytes (d : List Byte)
  deriving DecidableEq

/-- `push(x)`; `tail()` then `pop()`; `write(buf, |d|)` = `ring_write(&r, buffer.data(), …)`;
`read(buf, n)` = `ring_read(&r, buffer.data(), …)` -/
def stepC (t : TRing Byte) : COp → Option (TRing Byte × COut)
  | .push x => (t.push x).map fun t' => (t', .unit)
  | .pop =>
    match t.tail with
    | none => none
    | some v => (t.pop 0#8).map fun t' => (t', .elem v)
  | .write d => (ringWrite t.r t.buf d).map fun (r', b', k) => (⟨r', b'⟩, .count k)
  | .read n => (ringRead t.r t.buf n).map fun (r', out) => ({ t with r := r' }, .bytes out)

def runC : TRing Byte → List COp → Option (TRing Byte × List COut)
  | t, [] => some (t, [])
  | t, op :: ops =>
    match stepC t op with
    | none => none
    | some (t', o) =>
      match runC t' ops with
      | none => none
      | some (t'', os) => some (t'', o :: os)

/-- reference: a `List Byte` queue of capacity `cap`; `none` = outside the contract of
the typed ring (push needs room, pop needs an element); write / read of any length
are always inside it -/
def specC (cap : Nat) (q : List Byte) : COp → Option (List Byte × COut)
  | .push x => if q.length < cap then some (q ++ [x], .unit) else none
  | .pop =>
    match q with
    | [] => none
    | y :: q' => some (q', .elem y)
  | .write d => some (q ++ d.take (cap - q.length), .count (min d.length (cap - q.length)))
  | .read n => some (q.drop n, .bytes (q.take n))

def runSpecC (cap : Nat) : List Byte → List COp → Option (List Byte × List COut)
  | q, [] => some (q, [])
  | q, op :: ops =>
    match specC cap q op with
    | none => none
    | some (q', o) =>
      match runSpecC cap q' ops with
      | none => none
      | some (q'', os) => some (q'', o :: os)

theorem stepC_refines {t : TRing Byte} {q q1 : List Byte} {o : COut} (h : Abs t.r t.buf q) (op : COp)
    (e : specC (t.r.size.toNat - 1) q op = some (q1, o)) :
    ∃ t1, stepC t op = some (t1, o) ∧ t1.r.size = t.r.size ∧ Abs t1.r t1.buf q1 := by
  cases op with
  | push x =>
    simp only [specC] at e
    split at e
    · rename_i hr
      obtain ⟨rfl, rfl⟩ : q ++ [x] = q1 ∧ COut.unit = o := by simpa using e
      obtain ⟨t1, e1, hs1, h1⟩ := TRing.push_abs x h hr
      exact ⟨t1, by simp [stepC, e1], hs1, h1⟩
    · cases e
  | pop =>
    cases q with
    | nil => simp [specC] at e
    | cons y q0 =>
      obtain ⟨rfl, rfl⟩ : q0 = q1 ∧ COut.elem y = o := by simpa [specC] using e
      obtain ⟨t1, e1, hs1, h1⟩ := TRing.pop_abs (0#8 : Byte) h
      exact ⟨t1, by simp [stepC, TRing.tail_abs h, e1], hs1, h1⟩
  | write d =>
    obtain ⟨rfl, rfl⟩ : q ++ d.take (t.r.size.toNat - 1 - q.length) = q1 ∧
        COut.count (min d.length (t.r.size.toNat - 1 - q.length)) = o := by simpa [specC] using e
    obtain ⟨r', b', e1, hs1, ha⟩ := abs_write d h
    exact ⟨⟨r', b'⟩, by simp [stepC, e1], hs1, ha⟩
  | read n =>
    obtain ⟨rfl, rfl⟩ : q.drop n = q1 ∧ COut.bytes (q.take n) = o := by simpa [specC] using e
    obtain ⟨r', e1, hs1, ha⟩ := abs_read n h
    exact ⟨{ t with r := r' }, by simp [stepC, e1], hs1, ha⟩

theorem runC_refines : ∀ (ops : List COp) {t : TRing Byte} {q q' : List Byte} {outs : List COut},
    Abs t.r t.buf q → runSpecC (t.r.size.toNat - 1) q ops = some (q', outs) →
    ∃ t', runC t ops = some (t', outs) ∧ t'.r.size = t.r.size ∧ Abs t'.r t'.buf q'
  | [], t, q, q', outs, h, hs => by
      obtain ⟨rfl, rfl⟩ : q = q' ∧ [] = outs := by simpa [runSpecC] using hs
      exact ⟨t, rfl, rfl, h⟩
  | op :: ops, t, q, q', outs, h, hs => by
      simp only [runSpecC] at hs
      split at hs
      · cases hs
      · rename_i q1 o e
        split at hs
        · cases hs
        · rename_i q2 os e2
          obtain ⟨rfl, rfl⟩ : q2 = q' ∧ o :: os = outs := by simpa using hs
          obtain ⟨t1, e1, hs1, h1⟩ := stepC_refines h op e
          rw [← hs1] at e2
          obtain ⟨t2, e3, hs2, h2⟩ := runC_refines ops h1 e2
          exact ⟨t2, by simp [runC, e1, e3], hs2.trans hs1, h2⟩

/-- bytes the ring accepted / delivered in one step -/
def acceptedC : COp → COut → List Byte
  | .push x, _ => [x]
  | .write d, .count k => d.take k
  | _, _ => []

def deliveredC : COut → List Byte
  | .elem y => [y]
  | .bytes d => d
  | _ => []

def acceptedAllC : List COp → List COut → List Byte
  | op :: ops, o :: os => acceptedC op o ++ acceptedAllC ops os
  | _, _ => []

def deliveredAllC : List COut → List Byte
  | [] => []
  | o :: os => deliveredC o ++ deliveredAllC os

theorem take_min_length (d : List Byte) (m : Nat) : d.take (min d.length m) = d.take m := by
  rcases Nat.le_total d.length m with hle | hle
  · rw [Nat.min_eq_left hle, List.take_of_length_le (Nat.le_refl _), List.take_of_length_le hle]
  · rw [Nat.min_eq_right hle]

theorem specC_conserves (cap : Nat) : ∀ (ops : List COp) {q q' : List Byte} {outs : List COut},
    runSpecC cap q ops = some (q', outs) → q ++ acceptedAllC ops outs = deliveredAllC outs ++ q'
  | [], q, q', outs, hs => by
      obtain ⟨rfl, rfl⟩ : q = q' ∧ [] = outs := by simpa [runSpecC] using hs
      simp [acceptedAllC, deliveredAllC]
  | op :: ops, q, q', outs, hs => by
      simp only [runSpecC] at hs
      split at hs
      · cases hs
      · rename_i q1 o e
        split at hs
        · cases hs
        · rename_i q2 os e2
          obtain ⟨rfl, rfl⟩ : q2 = q' ∧ o :: os = outs := by simpa using hs
          have ih := specC_conserves cap ops e2
          simp only [acceptedAllC, deliveredAllC]
          cases op with
          | push x =>
            simp only [specC] at e
            split at e
            · obtain ⟨rfl, rfl⟩ : q ++ [x] = q1 ∧ COut.unit = o := by simpa using e
              simp only [acceptedC, deliveredC, List.nil_append]
              rw [← ih]; simp
            · cases e
          | pop =>
            cases q with
            | nil => simp [specC] at e
            | cons y q0 =>
              obtain ⟨rfl, rfl⟩ : q0 = q1 ∧ COut.elem y = o := by simpa [specC] using e
              simp only [acceptedC, deliveredC, List.nil_append, List.cons_append]
              rw [ih]
          | write d =>
            obtain ⟨rfl, rfl⟩ : q ++ d.take (cap - q.length) = q1 ∧
                COut.count (min d.length (cap - q.length)) = o := by simpa [specC] using e
            simp only [acceptedC, deliveredC, List.nil_append]
            rw [take_min_length, ← List.append_assoc, ih]
          | read n =>
            obtain ⟨rfl, rfl⟩ : q.drop n = q1 ∧ COut.bytes (q.take n) = o := by simpa [specC] using e
            simp only [acceptedC, deliveredC, List.nil_append]
            rw [List.append_assoc, ← ih, ← List.append_assoc, List.take_append_drop]

end Igris.C03
