/-
  C03 — PROPERTY THEOREMS.

  "Ring buffers are FIFO, lossless and byte-transparent for every fill pattern."

  Vocabulary (definitions in Model.lean / Lemmas.lean):
    RingHead.WF r        head < size ∧ tail < size              (index invariant)
    Abs r buf q          ring `r` over buffer `buf` stores exactly the queue `q`
                         (|q| = (head − tail) mod size, q[i] in slot (tail+i) mod size)
    stepRing / runRing   the ring.h operations / whole histories of them (what the
                         driver executes); `none` = access outside the buffer
    specStep / runSpec   reference: bounded FIFO `List Byte` of capacity size−1
    prevSlot S H k       (H − 1 − k) mod S,  cprev n c k = (c − k) mod n  (written
                         without `%`; `prevSlot_eq_mod`, `cprev_eq_mod` give the `%` form)

  Sizes: the index invariant and the single-step FIFO theorems hold for EVERY
  32-bit size ≥ 1; theorems that involve a bulk move or an `int` index assume
  size ≤ 2^31 (resp. < 2^31 = INT_MAX+1); `ring_move_head_size_witness` shows
  that the bound is necessary for the code as written (recorded finding).
-/
import IgrisModel.C03.Lemmas
namespace Igris.C03
open Igris.Proto

/-! ## 1. "no index ever leaves [0,size)" -/

/-- ring_inv (single step): from any state with `head, tail < size` over a buffer
of at least `size` slots, EVERY operation of ring.h with ANY argument (putc,
getc, read, write, single and bulk head/tail moves with arbitrary bias,
produce/consume with arbitrary lengths, clean) touches only slots inside the
buffer (`≠ none`) and leaves `head, tail < size`, `size` and the buffer length
unchanged.  With `buf.length = size` this says every index used is `< size`. -/
theorem ring_inv_step (r : RingHead) (buf : List Byte) (op : Op) (h : r.WF)
    (hb : r.size.toNat ≤ buf.length) :
    ∃ r' buf' o, stepRing r buf op = some (r', buf', o) ∧
      r'.WF ∧ r'.size = r.size ∧ buf'.length = buf.length :=
  step_keeps h hb op

/-- ring_inv (histories): after `ring_init(size)` with any `size ≥ 1`, every
operation sequence whatsoever runs without a fault and ends (hence also passes
only) in states with `head, tail < size`. -/
theorem ring_inv_history (size : U32) (hs : 0 < size.toNat) (buf : List Byte)
    (hb : size.toNat ≤ buf.length) (ops : List Op) :
    ∃ r' buf' outs, runRing (ringInit size) buf ops = some (r', buf', outs) ∧
      r'.WF ∧ r'.size = size ∧ buf'.length = buf.length ∧ outs.length = ops.length := by
  have wf : (ringInit size).WF := ⟨by simpa [ringInit] using hs, by simpa [ringInit] using hs⟩
  obtain ⟨r', b', outs, e, k, hl⟩ := run_keeps ops wf (by simpa [ringInit] using hb)
  exact ⟨r', b', outs, e, k.1, k.2.1, k.2.2, hl⟩

example : (ringInit 7).WF := by decide

/-! ## 2. "fill and free counts equal those of a reference queue and sum to capacity" -/

/-- ring_counts: whenever the ring stores the queue `q`,
`ring_avail = |q|`, `ring_room = size − 1 − |q|`, `ring_empty ⇔ q = []`,
`ring_full ⇔ |q| = size − 1`. -/
theorem ring_counts {α : Type} (r : RingHead) (buf q : List α) (h : Abs r buf q) :
    (ringAvail r).toNat = q.length ∧
    (ringRoom r).toNat = r.size.toNat - 1 - q.length ∧
    (ringEmpty r = true ↔ q = []) ∧
    (ringFull r = true ↔ q.length = r.size.toNat - 1) := by
  obtain ⟨wf, -, hl, -⟩ := h
  refine ⟨by rw [avail_toNat r wf, hl], by rw [room_toNat r wf, hl], ?_, ?_⟩
  · rw [empty_iff_cnt r wf, ← hl]; exact List.length_eq_zero_iff
  · rw [full_iff_cnt r wf, hl]

/-- avail + room = size − 1 in every state satisfying the index invariant (no
reference queue needed), including the wrap-around of the `unsigned`
intermediate results. -/
theorem ring_counts_sum (r : RingHead) (h : r.WF) :
    (ringAvail r).toNat + (ringRoom r).toNat = r.size.toNat - 1 := by
  have := cnt_lt r h
  rw [avail_toNat r h, room_toNat r h]; omega

/-! ## 3. FIFO, single operations -/

/-- putc on a non-full ring stores the byte at the end of the queue, returns 1 -/
theorem ring_putc_appends (r : RingHead) (buf q : List Byte) (c : Byte) (h : Abs r buf q)
    (hroom : q.length < r.size.toNat - 1) :
    ∃ r' buf', ringPutc r buf c = some (r', buf', 1) ∧ Abs r' buf' (q ++ [c]) :=
  ⟨_, _, (abs_putc c h hroom).1, (abs_putc c h hroom).2⟩

/-- a full ring rejects the write (returns 0) without changing head, tail or buffer -/
theorem ring_putc_full_rejects (r : RingHead) (buf q : List Byte) (c : Byte) (h : Abs r buf q)
    (hfull : q.length = r.size.toNat - 1) : ringPutc r buf c = some (r, buf, 0) :=
  abs_putc_full c h hfull

/-- getc on a non-empty ring returns the OLDEST byte as a value in 0..255 (so it
can never be mistaken for the "empty" code −1, whatever the byte), and removes
exactly that byte. -/
theorem ring_getc_returns_oldest (r : RingHead) (buf : List Byte) (x : Byte) (q : List Byte)
    (h : Abs r buf (x :: q)) :
    ∃ r' v, ringGetc r buf = some (r', v) ∧ v = (x.toNat : Int) ∧ 0 ≤ v ∧ v ≤ 255 ∧ v ≠ -1 ∧
      BitVec.ofInt 8 v = x ∧ Abs r' buf q := by
  obtain ⟨e, ha⟩ := abs_getc h
  exact ⟨_, _, e, rfl, by omega, by omega, by omega, ofInt8_toNat x, ha⟩

/-- an empty ring rejects the read (returns −1) without changing the state -/
theorem ring_getc_empty_rejects (r : RingHead) (buf : List Byte) (h : Abs r buf []) :
    ringGetc r buf = some (r, -1) :=
  abs_getc_empty h

/-- ring_write stores the longest prefix that fits, in order, and returns its length -/
theorem ring_write_appends (r : RingHead) (buf q d : List Byte) (h : Abs r buf q) :
    ∃ r' buf', ringWrite r buf d = some (r', buf', min d.length (r.size.toNat - 1 - q.length)) ∧
      Abs r' buf' (q ++ d.take (r.size.toNat - 1 - q.length)) := by
  obtain ⟨r', b', e, -, ha⟩ := abs_write d h
  exact ⟨r', b', e, ha⟩

/-- ring_read delivers exactly the `min n |q|` oldest bytes, unaltered and in
order, for every byte value -/
theorem ring_read_delivers (r : RingHead) (buf q : List Byte) (n : Nat) (h : Abs r buf q) :
    ∃ r', ringRead r buf n = some (r', q.take n) ∧ Abs r' buf (q.drop n) := by
  obtain ⟨r', e, -, ha⟩ := abs_read n h
  exact ⟨r', e, ha⟩

/- FULL STATEMENT (false for the code as written, see
`ring_move_head_size_witness` and finding C03-bulk-move-size-above-2^31):
  "for every size ≥ 1, ring_move_head(n) with n ≤ room publishes exactly the n
   slots after head, ring_move_tail(n) with n ≤ avail releases exactly the n
   oldest bytes".
Proved below for every size ≤ 2^31 (all rings whose indices fit an `int`). -/

/-- bulk head move by `n ≤ room` on a ring of at most 2^31 slots: exactly the `n`
slots after `head` are published, in order -/
theorem ring_move_head_publishes_partial (r : RingHead) (buf q d : List Byte) (h : Abs r buf q)
    (hS : r.size.toNat ≤ 2 ^ 31) (hn : d.length ≤ r.size.toNat - 1 - q.length)
    (hd : ∀ j (hj : j < d.length), buf[(r.head.toNat + j) % r.size.toNat]? = some d[j]) :
    Abs (ringMoveHead r (BitVec.ofNat 32 d.length)) buf (q ++ d) :=
  abs_moveHead d h hS hn hd

/-- bulk tail move by `n ≤ avail` on a ring of at most 2^31 slots: exactly the `n`
oldest bytes are released -/
theorem ring_move_tail_releases_partial (r : RingHead) (buf q : List Byte) (n : Nat)
    (h : Abs r buf q) (hS : r.size.toNat ≤ 2 ^ 31) (hn : n ≤ q.length) :
    Abs (ringMoveTail r (BitVec.ofNat 32 n)) buf (q.drop n) :=
  abs_moveTail n h hS hn

/-- the excluded class is not empty of counterexamples: `head += bias` wraps
modulo 2^32 before the fix-up loop, so on an (empty) ring of size 2^32 − 1 at
head 2^32 − 3 a move by 5 ≤ room lands on slot 2 instead of
(head + 5) mod size = 3.  (The index invariant still holds: `ring_inv_step`.) -/
theorem ring_move_head_size_witness :
    (ringMoveHead ⟨0xFFFFFFFD, 0xFFFFFFFD, 0xFFFFFFFF⟩ 5).head.toNat = 2 ∧
    (0xFFFFFFFD + 5) % 0xFFFFFFFF = 3 := by
  decide

/-- single-step moves -/
theorem ring_move_one (r : RingHead) (buf : List Byte) (x c : Byte) (q : List Byte) :
    (Abs r buf q → q.length < r.size.toNat - 1 → buf[r.head.toNat]? = some c →
      Abs (ringMoveHeadOne r) buf (q ++ [c])) ∧
    (Abs r buf (x :: q) → Abs (ringMoveTailOne r) buf q) :=
  ⟨fun h hr hc => abs_moveHeadOne h hr hc, fun h => (abs_moveTailOne h).2⟩

-- the hypotheses are satisfiable: a wrapped ring of size 4 holding [0xFF, 0x80]
example : Abs ⟨1, 3, 4⟩ ([0x80, 0, 0, 0xFF] : List Byte) [0xFF, 0x80] := by
  refine ⟨by decide, by decide, by decide, ?_⟩
  intro i hi
  match i, hi with
  | 0, _ => rfl
  | 1, _ => rfl

/-- `ring_for_each(n, r)` visits exactly the occupied slots `(tail + i) mod size`,
`i < avail`, oldest first, and terminates within `size` iterations -/
theorem ring_for_each_visits (r : RingHead) (h : r.WF) :
    (ringForEach r r.size.toNat r.tail).map BitVec.toNat =
      (List.range r.cnt).map (fun i => (r.tail.toNat + i) % r.size.toNat) :=
  forEach_spec r h.1 r.size.toNat r.tail h.2 (Nat.le_of_lt (cntN_lt h.1 h.2))

/-! ## 4. FIFO over arbitrary histories -/

/- FULL STATEMENT: "for every size ≥ 1 and every contract-respecting history the
ring behaves as the reference FIFO".  False for the code as written when a
bulk move is applied to a ring of more than 2^31 slots
(`ring_move_head_size_witness`); proved for EVERY size when the history uses no
bulk move, and for every size ≤ 2^31 with arbitrary bulk moves. -/

/-- ring_fifo (refinement): start from `ring_init(size)` over any buffer of at
least `size` bytes, with `size ≤ 2^31` or a history without bulk moves (then
any 32-bit size ≥ 1), and apply ANY interleaving of putc, getc, write, read,
single/bulk produce (fill + head move), single/bulk consume (peek + tail move),
tail moves and clean whose moves respect the producer / consumer contract
(`runSpec ≠ none`: never publish more than `room`, never release more than
`avail`).  Then the ring never faults and EVERY return value and EVERY
delivered byte equals that of the reference FIFO queue of capacity `size − 1`;
a full ring rejects writes and an empty ring rejects reads exactly where the
reference does; and the final ring stores the final reference queue. -/
theorem ring_refines_fifo_partial (size : U32) (hs : 0 < size.toNat) (buf : List Byte)
    (hb : size.toNat ≤ buf.length) (ops : List Op)
    (hS : size.toNat ≤ 2 ^ 31 ∨ ∀ op ∈ ops, op.isBulk = false)
    (q' : List Byte) (outs : List Out)
    (hspec : runSpec (size.toNat - 1) [] ops = some (q', outs)) :
    ∃ r' buf', runRing (ringInit size) buf ops = some (r', buf', outs) ∧ Abs r' buf' q' := by
  have h0 : Abs (ringInit size) buf ([] : List Byte) := abs_init size buf hs hb
  obtain ⟨r', b', e, -, ha⟩ := run_refines ops h0 (by simpa [ringInit] using hS)
    (by simpa [ringInit] using hspec)
  exact ⟨r', b', e, ha⟩

/-- ring_lossless: in such a history without deliberate discards (bare tail moves,
clean), the bytes accepted by the ring (putc returning 1, the accepted prefix of
each write, produced blocks), concatenated in order, are EXACTLY the bytes
delivered (getc, read, consume), in order, followed by what is still stored:
nothing lost, nothing duplicated, nothing altered, for every byte value. -/
theorem ring_lossless_partial (size : U32) (hs : 0 < size.toNat) (buf : List Byte)
    (hb : size.toNat ≤ buf.length) (ops : List Op)
    (hS : size.toNat ≤ 2 ^ 31 ∨ ∀ op ∈ ops, op.isBulk = false)
    (q' : List Byte) (outs : List Out)
    (hspec : runSpec (size.toNat - 1) [] ops = some (q', outs))
    (hnd : ∀ op ∈ ops, op.discards = false) :
    ∃ r' buf', runRing (ringInit size) buf ops = some (r', buf', outs) ∧ Abs r' buf' q' ∧
      acceptedAll ops outs = deliveredAll ops outs ++ q' := by
  obtain ⟨r', b', e, ha⟩ := ring_refines_fifo_partial size hs buf hb ops hS q' outs hspec
  have := spec_run_conserves ops hspec hnd
  exact ⟨r', b', e, ha, by simpa using this⟩

-- both alternatives of `hS` are satisfiable
example : (4 : U32).toNat ≤ 2 ^ 31 := by decide
example : ∀ op ∈ [Op.putc 0xFF, Op.getc, Op.write [1, 2], Op.read 2, Op.produce1 7, Op.consume1],
    op.isBulk = false := by decide
example : ∀ op ∈ [Op.putc 0xFF, Op.getc, Op.produce [1, 2], Op.consume 2], op.discards = false := by
  decide
-- a contract-respecting history exists (and exercises 0xFF, wrap-around, rejects)
example : (runSpec 2 [] [.putc 0xFF, .write [0x80, 0x00], .getc, .produce [0x01], .read 5, .getc]).isSome := by
  decide

/-! ## 5. index fix-up -/

/-- fixup_index_correct: `ring_fixup_index(i) = i mod size` (mathematical modulo,
result in `[0, size)`) for EVERY `int i` — in particular every `i ≥ −size` —
and every `1 ≤ size ≤ INT_MAX`; no power-of-two assumption. -/
theorem fixup_index_correct (r : RingHead) (hs : 0 < r.size.toNat) (hS : r.size.toNat < 2 ^ 31)
    (i : BitVec 32) :
    (ringFixupIndex r i).toInt = i.toInt % (r.size.toNat : Int) ∧
    0 ≤ (ringFixupIndex r i).toInt ∧ (ringFixupIndex r i).toInt < r.size.toNat := by
  rw [fixupIndex_toInt r hs hS i]
  exact ⟨rfl, Int.emod_nonneg _ (by omega), Int.emod_lt_of_pos _ (by omega)⟩

/-- what was repaired: `index % r->size` (int converted to unsigned) maps −1 to 3
on a ring of size 11; the repaired function maps it to 10. -/
theorem fixup_index_orig_witness :
    (ringFixupIndexOrig ⟨0, 0, 11⟩ (-1)).toInt = 3 ∧ (ringFixupIndex ⟨0, 0, 11⟩ (-1)).toInt = 10 := by
  decide

/-! ## 6. typed ring `igris::ring<T>` -/

/-- constructor, (repaired) resize and reset leave an empty ring whose size equals
the number of slots of its buffer, so §1–§4 apply to the typed ring. -/
theorem ring_ctor_resize_reset_bounds {α : Type} (dflt : α) (t : TRing α) (n : Nat)
    (hn : n + 1 < 2 ^ 32) :
    ((TRing.mk' dflt n).r.size.toNat = n + 1 ∧ (TRing.mk' dflt n).buf.length = n + 1 ∧
      Abs (TRing.mk' dflt n).r (TRing.mk' dflt n).buf []) ∧
    ((TRing.resize dflt t n).r.size.toNat = n + 1 ∧ (TRing.resize dflt t n).buf.length = n + 1 ∧
      Abs (TRing.resize dflt t n).r (TRing.resize dflt t n).buf []) ∧
    (0 < t.buf.length → t.buf.length < 2 ^ 32 →
      t.reset.r.size.toNat = t.buf.length ∧ Abs t.reset.r t.reset.buf []) :=
  ⟨TRing.mk'_abs dflt n hn, TRing.resize_abs dflt t n hn, fun h0 h1 => TRing.reset_abs t h0 h1⟩

/-- what was repaired: after the pre-repair `resize(2)` (buffer of 2 elements,
ring of size 3) the sequence push, push, pop, push — never more than 2 stored —
writes slot 2, outside the buffer. -/
theorem ring_resize_orig_witness :
    (((TRing.resizeOrig (0 : Int) TRing.empty 2).push 1).bind fun t =>
      (t.push 2).bind fun t => t.pop.bind fun t => t.push 3).isNone = true ∧
    (((TRing.resize (0 : Int) TRing.empty 2).push 1).bind fun t =>
      (t.push 2).bind fun t => t.pop.bind fun t => t.push 3).isSome = true := by
  decide

/-- index invariant of the typed ring: push/emplace and pop from ANY state with
`head, tail < size ≤ |buffer|` (full or not, empty or not) stay inside the buffer
and keep `head, tail < size`; every index produced by fixup_index — hence used by
last() and get_last() with any offset/count — lies in `[0, size)`. -/
theorem ring_typed_inv {α : Type} (t : TRing α) (x : α) (i : BitVec 32) (h : t.r.WF)
    (hb : t.r.size.toNat ≤ t.buf.length) (hS : t.r.size.toNat < 2 ^ 31) :
    (∃ t', t.push x = some t' ∧ t'.r.WF ∧ t'.r.size = t.r.size ∧ t'.buf.length = t.buf.length) ∧
    (∃ t', t.pop = some t' ∧ t'.r.WF ∧ t'.r.size = t.r.size ∧ t'.buf.length = t.buf.length) ∧
    (0 ≤ (t.fixupIndex i).toInt ∧ (t.fixupIndex i).toInt < t.r.size.toNat) := by
  have h1 : t.r.head.toNat < t.buf.length := by have := h.1; omega
  have h2 : t.r.tail.toNat < t.buf.length := by have := h.2; omega
  refine ⟨⟨⟨ringMoveHeadOne t.r, t.buf.set t.r.head.toNat x⟩, by simp [TRing.push, poke, h1],
      wf_moveHeadOne h, rfl, by simp⟩,
    ⟨⟨ringMoveTailOne t.r, t.buf⟩, by simp [TRing.pop, h2], wf_moveTailOne h, rfl, rfl⟩, ?_⟩
  exact (fixup_index_correct t.r (by have := h.1; omega) hS i).2

/-- push appends (when not full), pop removes the oldest, tail() is the oldest -/
theorem ring_push_pop_tail {α : Type} (t : TRing α) (q : List α) (x y : α) :
    (Abs t.r t.buf q → q.length < t.r.size.toNat - 1 →
      ∃ t', t.push x = some t' ∧ t'.r.size = t.r.size ∧ Abs t'.r t'.buf (q ++ [x])) ∧
    (Abs t.r t.buf (y :: q) →
      t.tail = some y ∧ ∃ t', t.pop = some t' ∧ t'.r.size = t.r.size ∧ Abs t'.r t'.buf q) :=
  ⟨fun h hr => TRing.push_abs x h hr, fun h => ⟨TRing.tail_abs h, TRing.pop_abs h⟩⟩

/-- clear() (`while (!empty()) pop();`) terminates within `|q|` pops and leaves an empty ring -/
theorem ring_clear_empties {α : Type} (t : TRing α) (q : List α) (h : Abs t.r t.buf q) :
    ∃ t', TRing.clear (t.r.size.toNat + 1) t = some t' ∧ t'.r.size = t.r.size ∧ Abs t'.r t'.buf [] :=
  TRing.clear_abs _ h (by have := abs_len_le h; omega)

/-- last() addresses slot `(head − 1) mod size` for EVERY head position
(including head = 0) and every size `< 2^31`, power of two or not … -/
theorem ring_last_index {α : Type} (t : TRing α) (h : t.r.WF) (hS : t.r.size.toNat < 2 ^ 31) :
    t.lastIndex.toInt = ((t.r.head.toNat + t.r.size.toNat - 1) % t.r.size.toNat : Nat) := by
  rw [TRing.lastIndex_toInt t h hS, prevSlot_eq_mod h.1 (by have := h.1; omega)]
  simp

/-- … and therefore returns the newest element of the reference queue. -/
theorem ring_last_is_newest {α : Type} (t : TRing α) (q : List α) (h : Abs t.r t.buf q)
    (hq : q ≠ []) (hS : t.r.size.toNat < 2 ^ 31) : t.last = some (q.getLast hq) :=
  TRing.last_abs h hq hS

/-- what was repaired: `igris::ring<int>(10).last()` at head 0 used slot 3, not 10 -/
theorem ring_last_orig_witness :
    (TRing.mk' (0 : Int) 10).lastIndexOrig.toInt = 3 ∧ (TRing.mk' (0 : Int) 10).lastIndex.toInt = 10 := by
  decide

/-- get_last(offset, count, true) = the `count` elements starting `offset` back
from the newest, newest first; get_last(offset, count, false) = the same
elements, oldest first — for every head position and wrap-around, whenever the
requested elements exist (`offset + count ≤ |q|`). -/
theorem ring_get_last {α : Type} (t : TRing α) (q : List α) (h : Abs t.r t.buf q)
    (hS : t.r.size.toNat < 2 ^ 31) (offset count : Nat) (hle : offset + count ≤ q.length) :
    t.getLast (BitVec.ofNat 32 offset) count true = some ((q.reverse.drop offset).take count) ∧
    t.getLast (BitVec.ofNat 32 offset) count false =
      some ((q.drop (q.length - count - offset)).take count) :=
  ⟨TRing.getLast_fromEnd h hS offset count hle, TRing.getLast_fromStart h hS offset count hle⟩

/-- distance(a, b) = number of steps from slot `b` forward to slot `a`, `(a − b) mod size` -/
theorem ring_distance_correct {α : Type} (t : TRing α) (a b : BitVec 32)
    (hS : t.r.size.toNat ≤ 2 ^ 31) (ha : a.toNat < t.r.size.toNat) (hb : b.toNat < t.r.size.toNat) :
    (t.distance a b).toNat = (a.toNat + t.r.size.toNat - b.toNat) % t.r.size.toNat :=
  TRing.distance_toNat t a b hS ha hb

/-- set_last_index(idx) makes `idx` the slot last() addresses: head = (idx + 1) mod size -/
theorem ring_set_last_index {α : Type} (t : TRing α) (idx : BitVec 32)
    (h : idx.toNat < t.r.size.toNat) :
    (t.setLastIndex idx).r.head.toNat = (idx.toNat + 1) % t.r.size.toNat ∧
    (t.setLastIndex idx).r.tail = t.r.tail ∧ (t.setLastIndex idx).r.size = t.r.size := by
  obtain ⟨e, h2, h3⟩ := TRing.setLastIndex_head t idx h
  exact ⟨by rw [e, nextIdx_eq_mod h], h2, h3⟩

/-! ## 7. ring_counter and cyclic_buffer -/

/-- ring_counter: for every size ≥ 1, `fixup_pos(p) = p mod size` and
`last(no) = (counter − no) mod size` for EVERY int; `prev(i) = (counter − i) mod
size` for every `i` with `counter − i < size` (all `i ≥ 0` when the counter is
in range); `increment(a)` / `set(v)` leave `(counter + a) mod size` / `v mod size`
for non-negative results. -/
theorem ring_counter_correct (rc : RingCounter) (hs : 0 < rc.size) (x : Int) :
    rcFixupPos rc x = x % rc.size ∧
    rcLast rc x = (rc.counter - x) % rc.size ∧
    (rc.counter - x < rc.size → rcPrev rc x = (rc.counter - x) % rc.size) ∧
    (0 ≤ rc.counter + x → (rcIncrement rc x).counter = (rc.counter + x) % rc.size) ∧
    (0 ≤ x → (rcSet rc x).counter = x % rc.size) :=
  ⟨rcFixupPos_eq rc hs x, rcLast_eq rc hs x, fun h => rcPrev_eq rc hs x h,
   fun h => (rcIncrement_eq rc hs x h).1, fun h => (rcSet_eq rc hs x h).1⟩

/-- cyclic_buffer_nth: construct a cyclic buffer of ANY size `n ≥ 1` (power of
two or not) and push ANY sequence `xs` of samples (any length, wrapping any
number of times).  Then no access leaves the storage, the counter is in
`[0, n)`, `size() = min |xs| n`, and for every `i < min |xs| n`, `cb[i]` is the
`i`-th previous sample `xs[|xs| − 1 − i]`. -/
theorem cyclic_buffer_nth {α : Type} (dflt : α) (n : Nat) (hn : 0 < n) (xs : List α) :
    ∃ c, pushAll (Cyclic.mk' dflt n) xs = some c ∧
      c.fill = min xs.length n ∧ 0 ≤ c.counter.counter ∧ c.counter.counter < n ∧
      ∀ i (hi : i < xs.length), i < n → c.nth (i : Int) = some xs[xs.length - 1 - i] := by
  obtain ⟨c, e, inv⟩ := cinv_pushAll xs (cinv_mk' dflt n hn)
  simp only [List.nil_append] at inv
  obtain ⟨k, hk, hkn⟩ := inv.cnt
  exact ⟨c, e, inv.fill, by omega, by omega, fun i hi hin => cinv_nth inv i hi hin⟩

/-- the same after a (repaired) resize: the log restarts, `size()` restarts at 0 -/
theorem cyclic_buffer_resize_nth {α : Type} (dflt : α) (c0 : Cyclic α) (n : Nat) (hn : 0 < n)
    (xs : List α) :
    (Cyclic.resize dflt c0 n).fill = 0 ∧
    ∃ c, pushAll (Cyclic.resize dflt c0 n) xs = some c ∧ c.fill = min xs.length n ∧
      ∀ i (hi : i < xs.length), i < n → c.nth (i : Int) = some xs[xs.length - 1 - i] := by
  obtain ⟨c, e, inv⟩ := cinv_pushAll xs (cinv_resize dflt c0 n hn)
  simp only [List.nil_append] at inv
  exact ⟨rfl, c, e, inv.fill, fun i hi hin => cinv_nth inv i hi hin⟩

/-- push returns the sample it overwrites: the one pushed `n` pushes earlier -/
theorem cyclic_buffer_push_returns_overwritten {α : Type} (c : Cyclic α) (n : Nat) (log : List α)
    (h : CInv c n log) (v : α) (hfull : n ≤ log.length) :
    ∃ c' old, c.push v = some (c', old) ∧ CInv c' n (log ++ [v]) ∧
      old = log[log.length - n]'(by have := h.pos; omega) := by
  obtain ⟨c', old, e, inv, ho⟩ := cinv_push h v
  exact ⟨c', old, e, inv, ho hfull⟩

example : CInv (Cyclic.mk' (0 : Int) 3) 3 [] := cinv_mk' 0 3 (by decide)

/-! ## 8. what was repaired, and why the size bounds are there -/

/-- pre-repair `ring_getc` (`char c`): a stored 0xFF is returned as −1, the code
for "empty" — `ring_read` then stops although the byte was already consumed (it
is lost) — and 0x80 comes back as −128.  The repaired functions return 255 /
128 and deliver all three bytes. -/
theorem ring_getc_orig_ff_witness :
    (ringGetcOrig ⟨1, 0, 4⟩ [0xFF, 0, 0, 0]).map (·.2) = some (-1) ∧
    (ringGetcOrig ⟨1, 0, 4⟩ [0x80, 0, 0, 0]).map (·.2) = some (-128) ∧
    (ringReadOrig ⟨3, 0, 4⟩ [0x01, 0xFF, 0x02, 0] 3).map (·.2) = some [0x01] ∧
    (ringGetc ⟨1, 0, 4⟩ [0xFF, 0, 0, 0]).map (·.2) = some 255 ∧
    (ringGetc ⟨1, 0, 4⟩ [0x80, 0, 0, 0]).map (·.2) = some 128 ∧
    (ringRead ⟨3, 0, 4⟩ [0x01, 0xFF, 0x02, 0] 3).map (·.2) = some [0x01, 0xFF, 0x02] := by
  decide

end Igris.C03
