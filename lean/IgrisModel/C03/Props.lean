/-
  C03 — PROPERTY THEOREMS.

  "Ring buffers are FIFO, lossless and byte-transparent for every fill pattern."

  Vocabulary (definitions in Model.lean / Lemmas.lean):
    RingHead.WF r        head < size ∧ tail < size              (index invariant)
    Abs r buf q          ring `r` over buffer `buf` stores exactly the queue `q`
                         (|q| = (head − tail) mod size, q[i] in slot (tail+i) mod size)
    stepRing / runRing   the ring.h operations / whole histories of them (what the
                         driver executes); `none` = access outside the buffer
    specStep / runSpec   reference: bounded FIFO `List Byte` of capacity size−1
    prevSlot S H k       (H − 1 − k) mod S,  cprev n c k = (c − k) mod n  (written
                         without `%`; `prevSlot_eq_mod`, `cprev_eq_mod` give the `%` form)

  Sizes: the index invariant and the single-step FIFO theorems hold for EVERY
  32-bit size ≥ 1; theorems that involve a bulk move or an `int` index assume
  size ≤ 2^31 (resp. < 2^31 = INT_MAX+1); `ring_move_head_size_witness` shows
  that the bound is necessary for the code as written (recorded finding).
-/
import IgrisModel.C03.More5
namespace Igris.C03
open Igris.Proto

/-! ## 1. "no index ever leaves [0,size)" -/

/-- ring_inv (single step): from any state with `head, tail < size` over a buffer
of at least `size` slots, EVERY operation of ring.h with ANY argument (putc,
getc, read, write, single and bulk head/tail moves with arbitrary bias,
produce/consume with arbitrary lengths, clean) touches only slots inside the
buffer (`≠ none`) and leaves `head, tail < size`, `size` and the buffer length
unchanged.  With `buf.length = size` this says every index used is `< size`. -/
theorem ring_inv_step (r : RingHead) (buf : List Byte) (op : Op) (h : r.WF)
    (hb : r.size.toNat ≤ buf.length) :
    ∃ r' buf' o, stepRing r buf op = some (r', buf', o) ∧
      r'.WF ∧ r'.size = r.size ∧ buf'.length = buf.length :=
  step_keeps h hb op

/-- ring_inv (histories): after `ring_init(size)` with any `size ≥ 1`, every
operation sequence whatsoever runs without a fault and ends (hence also passes
only) in states with `head, tail < size`. -/
theorem ring_inv_history (size : U32) (hs : 0 < size.toNat) (buf : List Byte)
    (hb : size.toNat ≤ buf.length) (ops : List Op) :
    ∃ r' buf' outs, runRing (ringInit size) buf ops = some (r', buf', outs) ∧
      r'.WF ∧ r'.size = size ∧ buf'.length = buf.length ∧ outs.length = ops.length := by
  have wf : (ringInit size).WF := ⟨by simpa [ringInit] using hs, by simpa [ringInit] using hs⟩
  obtain ⟨r', b', outs, e, k, hl⟩ := run_keeps ops wf (by simpa [ringInit] using hb)
  exact ⟨r', b', outs, e, k.1, k.2.1, k.2.2, hl⟩

example : (ringInit 7).WF := by decide

/-! ## 2. "fill and free counts equal those of a reference queue and sum to capacity" -/

/-- ring_counts: whenever the ring stores the queue `q`,
`ring_avail = |q|`, `ring_room = size − 1 − |q|`, `ring_empty ⇔ q = []`,
`ring_full ⇔ |q| = size − 1`. -/
theorem ring_counts {α : Type} (r : RingHead) (buf q : List α) (h : Abs r buf q) :
    (ringAvail r).toNat = q.length ∧
    (ringRoom r).toNat = r.size.toNat - 1 - q.length ∧
    (ringEmpty r = true ↔ q = []) ∧
    (ringFull r = true ↔ q.length = r.size.toNat - 1) := by
  obtain ⟨wf, -, hl, -⟩ := h
  refine ⟨by rw [avail_toNat r wf, hl], by rw [room_toNat r wf, hl], ?_, ?_⟩
  · rw [empty_iff_cnt r wf, ← hl]; exact List.length_eq_zero_iff
  · rw [full_iff_cnt r wf, hl]

/-- avail + room = size − 1 in every state satisfying the index invariant (no
reference queue needed), including the wrap-around of the `unsigned`
intermediate results. -/
theorem ring_counts_sum (r : RingHead) (h : r.WF) :
    (ringAvail r).toNat + (ringRoom r).toNat = r.size.toNat - 1 := by
  have := cnt_lt r h
  rw [avail_toNat r h, room_toNat r h]; omega

/-! ## 3. FIFO, single operations -/

/-- putc on a non-full ring stores the byte at the end of the queue, returns 1 -/
theorem ring_putc_appends (r : RingHead) (buf q : List Byte) (c : Byte) (h : Abs r buf q)
    (hroom : q.length < r.size.toNat - 1) :
    ∃ r' buf', ringPutc r buf c = some (r', buf', 1) ∧ Abs r' buf' (q ++ [c]) :=
  ⟨_, _, (abs_putc c h hroom).1, (abs_putc c h hroom).2⟩

/-- a full ring rejects the write (returns 0) without changing head, tail or buffer -/
theorem ring_putc_full_rejects (r : RingHead) (buf q : List Byte) (c : Byte) (h : Abs r buf q)
    (hfull : q.length = r.size.toNat - 1) : ringPutc r buf c = some (r, buf, 0) :=
  abs_putc_full c h hfull

/-- getc on a non-empty ring returns the OLDEST byte as a value in 0..255 (so it
can never be mistaken for the "empty" code −1, whatever the byte), and removes
exactly that byte. -/
theorem ring_getc_returns_oldest (r : RingHead) (buf : List Byte) (x : Byte) (q : List Byte)
    (h : Abs r buf (x :: q)) :
    ∃ r' v, ringGetc r buf = some (r', v) ∧ v = (x.toNat : Int) ∧ 0 ≤ v ∧ v ≤ 255 ∧ v ≠ -1 ∧
      BitVec.ofInt 8 v = x ∧ Abs r' buf q := by
  obtain ⟨e, ha⟩ := abs_getc h
  exact ⟨_, _, e, rfl, by omega, by omega, by omega, ofInt8_toNat x, ha⟩

/-- an empty ring rejects the read (returns −1) without changing the state -/
theorem ring_getc_empty_rejects (r : RingHead) (buf : List Byte) (h : Abs r buf []) :
    ringGetc r buf = some (r, -1) :=
  abs_getc_empty h

/-- ring_write stores the longest prefix that fits, in order, and returns its length -/
theorem ring_write_appends (r : RingHead) (buf q d : List Byte) (h : Abs r buf q) :
    ∃ r' buf', ringWrite r buf d = some (r', buf', min d.length (r.size.toNat - 1 - q.length)) ∧
      Abs r' buf' (q ++ d.take (r.size.toNat - 1 - q.length)) := by
  obtain ⟨r', b', e, -, ha⟩ := abs_write d h
  exact ⟨r', b', e, ha⟩

/-- ring_read delivers exactly the `min n |q|` oldest bytes, unaltered and in
order, for every byte value -/
theorem ring_read_delivers (r : RingHead) (buf q : List Byte) (n : Nat) (h : Abs r buf q) :
    ∃ r', ringRead r buf n = some (r', q.take n) ∧ Abs r' buf (q.drop n) := by
  obtain ⟨r', e, -, ha⟩ := abs_read n h
  exact ⟨r', e, ha⟩

/- FULL STATEMENT (false for the code as written, see
`ring_move_head_size_witness` and finding C03-bulk-move-size-above-2^31):
  "for every size ≥ 1, ring_move_head(n) with n ≤ room publishes exactly the n
   slots after head, ring_move_tail(n) with n ≤ avail releases exactly the n
   oldest bytes".
Proved below for every size ≤ 2^31 (all rings whose indices fit an `int`). -/

/-- bulk head move by `n ≤ room` on a ring of at most 2^31 slots: exactly the `n`
slots after `head` are published, in order -/
theorem ring_move_head_publishes_partial (r : RingHead) (buf q d : List Byte) (h : Abs r buf q)
    (hS : r.size.toNat ≤ 2 ^ 31) (hn : d.length ≤ r.size.toNat - 1 - q.length)
    (hd : ∀ j (hj : j < d.length), buf[(r.head.toNat + j) % r.size.toNat]? = some d[j]) :
    Abs (ringMoveHead r (BitVec.ofNat 32 d.length)) buf (q ++ d) :=
  abs_moveHead d h hS hn hd

/-- bulk tail move by `n ≤ avail` on a ring of at most 2^31 slots: exactly the `n`
oldest bytes are released -/
theorem ring_move_tail_releases_partial (r : RingHead) (buf q : List Byte) (n : Nat)
    (h : Abs r buf q) (hS : r.size.toNat ≤ 2 ^ 31) (hn : n ≤ q.length) :
    Abs (ringMoveTail r (BitVec.ofNat 32 n)) buf (q.drop n) :=
  abs_moveTail n h hS hn

/-- the excluded class is not empty of counterexamples: `head += bias` wraps
modulo 2^32 before the fix-up loop, so on an (empty) ring of size 2^32 − 1 at
head 2^32 − 3 a move by 5 ≤ room lands on slot 2 instead of
(head + 5) mod size = 3.  (The index invariant still holds: `ring_inv_step`.) -/
theorem ring_move_head_size_witness :
    (ringMoveHead ⟨0xFFFFFFFD, 0xFFFFFFFD, 0xFFFFFFFF⟩ 5).head.toNat = 2 ∧
    (0xFFFFFFFD + 5) % 0xFFFFFFFF = 3 := by
  decide

/-- single-step moves -/
theorem ring_move_one (r : RingHead) (buf : List Byte) (x c : Byte) (q : List Byte) :
    (Abs r buf q → q.length < r.size.toNat - 1 → buf[r.head.toNat]? = some c →
      Abs (ringMoveHeadOne r) buf (q ++ [c])) ∧
    (Abs r buf (x :: q) → Abs (ringMoveTailOne r) buf q) :=
  ⟨fun h hr hc => abs_moveHeadOne h hr hc, fun h => (abs_moveTailOne h).2⟩

-- the hypotheses are satisfiable: a wrapped ring of size 4 holding [0xFF, 0x80]
example : Abs ⟨1, 3, 4⟩ ([0x80, 0, 0, 0xFF] : List Byte) [0xFF, 0x80] := by
  refine ⟨by decide, by decide, by decide, ?_⟩
  intro i hi
  match i, hi with
  | 0, _ => rfl
  | 1, _ => rfl

/-- `ring_for_each(n, r)` visits exactly the occupied slots `(tail + i) mod size`,
`i < avail`, oldest first, and terminates within `size` iterations -/
theorem ring_for_each_visits (r : RingHead) (h : r.WF) :
    (ringForEach r r.size.toNat r.tail).map BitVec.toNat =
      (List.range r.cnt).map (fun i => (r.tail.toNat + i) % r.size.toNat) :=
  forEach_spec r h.1 r.size.toNat r.tail h.2 (Nat.le_of_lt (cntN_lt h.1 h.2))

/-! ## 4. FIFO over arbitrary histories -/

/- FULL STATEMENT: "for every size ≥ 1 and every contract-respecting history the
ring behaves as the reference FIFO".  False for the code as written when a
bulk move is applied to a ring of more than 2^31 slots
(`ring_move_head_size_witness`); proved for EVERY size when the history uses no
bulk move, and for every size ≤ 2^31 with arbitrary bulk moves. -/

/-- ring_fifo (refinement): start from `ring_init(size)` over any buffer of at
least `size` bytes, with `size ≤ 2^31` or a history without bulk moves (then
any 32-bit size ≥ 1), and apply ANY interleaving of putc, getc, write, read,
single/bulk produce (fill + head move), single/bulk consume (peek + tail move),
tail moves and clean whose moves respect the producer / consumer contract
(`runSpec ≠ none`: never publish more than `room`, never release more than
`avail`).  Then the ring never faults and EVERY return value and EVERY
delivered byte equals that of the reference FIFO queue of capacity `size − 1`;
a full ring rejects writes and an empty ring rejects reads exactly where the
reference does; and the final ring stores the final reference queue. -/
theorem ring_refines_fifo_partial (size : U32) (hs : 0 < size.toNat) (buf : List Byte)
    (hb : size.toNat ≤ buf.length) (ops : List Op)
    (hS : size.toNat ≤ 2 ^ 31 ∨ ∀ op ∈ ops, op.isBulk = false)
    (q' : List Byte) (outs : List Out)
    (hspec : runSpec (size.toNat - 1) [] ops = some (q', outs)) :
    ∃ r' buf', runRing (ringInit size) buf ops = some (r', buf', outs) ∧ Abs r' buf' q' := by
  have h0 : Abs (ringInit size) buf ([] : List Byte) := abs_init size buf hs hb
  obtain ⟨r', b', e, -, ha⟩ := run_refines ops h0 (by simpa [ringInit] using hS)
    (by simpa [ringInit] using hspec)
  exact ⟨r', b', e, ha⟩

/-- ring_lossless: in such a history without deliberate discards (bare tail moves,
clean), the bytes accepted by the ring (putc returning 1, the accepted prefix of
each write, produced blocks), concatenated in order, are EXACTLY the bytes
delivered (getc, read, consume), in order, followed by what is still stored:
nothing lost, nothing duplicated, nothing altered, for every byte value. -/
theorem ring_lossless_partial (size : U32) (hs : 0 < size.toNat) (buf : List Byte)
    (hb : size.toNat ≤ buf.length) (ops : List Op)
    (hS : size.toNat ≤ 2 ^ 31 ∨ ∀ op ∈ ops, op.isBulk = false)
    (q' : List Byte) (outs : List Out)
    (hspec : runSpec (size.toNat - 1) [] ops = some (q', outs))
    (hnd : ∀ op ∈ ops, op.discards = false) :
    ∃ r' buf', runRing (ringInit size) buf ops = some (r', buf', outs) ∧ Abs r' buf' q' ∧
      acceptedAll ops outs = deliveredAll ops outs ++ q' := by
  obtain ⟨r', b', e, ha⟩ := ring_refines_fifo_partial size hs buf hb ops hS q' outs hspec
  have := spec_run_conserves ops hspec hnd
  exact ⟨r', b', e, ha, by simpa using this⟩

-- both alternatives of `hS` are satisfiable
example : (4 : U32).toNat ≤ 2 ^ 31 := by decide
example : ∀ op ∈ [Op.putc 0xFF, Op.getc, Op.write [1, 2], Op.read 2, Op.produce1 7, Op.consume1],
    op.isBulk = false := by decide
example : ∀ op ∈ [Op.putc 0xFF, Op.getc, Op.produce [1, 2], Op.consume 2], op.discards = false := by
  decide
-- a contract-respecting history exists (and exercises 0xFF, wrap-around, rejects)
example : (runSpec 2 [] [.putc 0xFF, .write [0x80, 0x00], .getc, .produce [0x01], .read 5, .getc]).isSome := by
  decide

/-! ## 5. index fix-up -/

/-- fixup_index_correct: `ring_fixup_index(i) = i mod size` (mathematical modulo,
result in `[0, size)`) for EVERY `int i` — in particular every `i ≥ −size` —
and every `1 ≤ size ≤ INT_MAX`; no power-of-two assumption. -/
theorem fixup_index_correct (r : RingHead) (hs : 0 < r.size.toNat) (hS : r.size.toNat < 2 ^ 31)
    (i : BitVec 32) :
    (ringFixupIndex r i).toInt = i.toInt % (r.size.toNat : Int) ∧
    0 ≤ (ringFixupIndex r i).toInt ∧ (ringFixupIndex r i).toInt < r.size.toNat := by
  rw [fixupIndex_toInt r hs hS i]
  exact ⟨rfl, Int.emod_nonneg _ (by omega), Int.emod_lt_of_pos _ (by omega)⟩

/-- what was repaired: `index % r->size` (int converted to unsigned) maps −1 to 3
on a ring of size 11; the repaired function maps it to 10. -/
theorem fixup_index_orig_witness :
    (ringFixupIndexOrig ⟨0, 0, 11⟩ (-1)).toInt = 3 ∧ (ringFixupIndex ⟨0, 0, 11⟩ (-1)).toInt = 10 := by
  decide

/-! ## 6. typed ring `igris::ring<T>` -/

/-- constructor, (repaired) resize and reset leave an empty ring whose size equals
the number of slots of its buffer, so §1–§4 apply to the typed ring. -/
theorem ring_ctor_resize_reset_bounds {α : Type} (dflt : α) (t : TRing α) (n : Nat)
    (hn : n + 1 < 2 ^ 32) :
    ((TRing.mk' dflt n).r.size.toNat = n + 1 ∧ (TRing.mk' dflt n).buf.length = n + 1 ∧
      Abs (TRing.mk' dflt n).r (TRing.mk' dflt n).buf []) ∧
    ((TRing.resize dflt t n).r.size.toNat = n + 1 ∧ (TRing.resize dflt t n).buf.length = n + 1 ∧
      Abs (TRing.resize dflt t n).r (TRing.resize dflt t n).buf []) ∧
    (0 < t.buf.length → t.buf.length < 2 ^ 32 →
      t.reset.r.size.toNat = t.buf.length ∧ Abs t.reset.r t.reset.buf []) :=
  ⟨TRing.mk'_abs dflt n hn, TRing.resize_abs dflt t n hn, fun h0 h1 => TRing.reset_abs t h0 h1⟩

/-- what was repaired: after the pre-repair `resize(2)` (buffer of 2 elements,
ring of size 3) the sequence push, push, pop, push — never more than 2 stored —
writes slot 2, outside the buffer. -/
theorem ring_resize_orig_witness :
    (((TRing.resizeOrig (0 : Int) TRing.empty 2).push 1).bind fun t =>
      (t.push 2).bind fun t => (t.pop 0).bind fun t => t.push 3).isNone = true ∧
    (((TRing.resize (0 : Int) TRing.empty 2).push 1).bind fun t =>
      (t.push 2).bind fun t => (t.pop 0).bind fun t => t.push 3).isSome = true := by
  decide

/-- index invariant of the typed ring: push/emplace and pop from ANY state with
`head, tail < size ≤ |buffer|` (full or not, empty or not) stay inside the buffer
and keep `head, tail < size`; every index produced by fixup_index — hence used by
last() and get_last() with any offset/count — lies in `[0, size)`. -/
theorem ring_typed_inv {α : Type} (t : TRing α) (x d : α) (i : BitVec 32) (h : t.r.WF)
    (hb : t.r.size.toNat ≤ t.buf.length) (hS : t.r.size.toNat < 2 ^ 31) :
    (∃ t', t.push x = some t' ∧ t'.r.WF ∧ t'.r.size = t.r.size ∧ t'.buf.length = t.buf.length) ∧
    (∃ t', t.pop d = some t' ∧ t'.r.WF ∧ t'.r.size = t.r.size ∧ t'.buf.length = t.buf.length) ∧
    (0 ≤ (t.fixupIndex i).toInt ∧ (t.fixupIndex i).toInt < t.r.size.toNat) := by
  have h1 : t.r.head.toNat < t.buf.length := by have := h.1; omega
  have h2 : t.r.tail.toNat < t.buf.length := by have := h.2; omega
  refine ⟨⟨⟨ringMoveHeadOne t.r, t.buf.set t.r.head.toNat x⟩, by simp [TRing.push, poke, h1],
      wf_moveHeadOne h, rfl, by simp⟩,
    ⟨⟨ringMoveTailOne t.r, t.buf.set t.r.tail.toNat d⟩, by simp [TRing.pop, h2], wf_moveTailOne h, rfl,
      by simp⟩, ?_⟩
  exact (fixup_index_correct t.r (by have := h.1; omega) hS i).2

/-- push appends (when not full), pop removes the oldest, tail() is the oldest -/
theorem ring_push_pop_tail {α : Type} (t : TRing α) (q : List α) (x y d : α) :
    (Abs t.r t.buf q → q.length < t.r.size.toNat - 1 →
      ∃ t', t.push x = some t' ∧ t'.r.size = t.r.size ∧ Abs t'.r t'.buf (q ++ [x])) ∧
    (Abs t.r t.buf (y :: q) →
      t.tail = some y ∧ ∃ t', t.pop d = some t' ∧ t'.r.size = t.r.size ∧ Abs t'.r t'.buf q) :=
  ⟨fun h hr => TRing.push_abs x h hr, fun h => ⟨TRing.tail_abs h, TRing.pop_abs d h⟩⟩

/-- clear() (`while (!empty()) pop();`) terminates within `|q|` pops and leaves an empty ring -/
theorem ring_clear_empties {α : Type} (d : α) (t : TRing α) (q : List α) (h : Abs t.r t.buf q) :
    ∃ t', TRing.clear d (t.r.size.toNat + 1) t = some t' ∧ t'.r.size = t.r.size ∧ Abs t'.r t'.buf [] :=
  TRing.clear_abs d _ h (by have := abs_len_le h; omega)

/-- last() addresses slot `(head − 1) mod size` for EVERY head position
(including head = 0) and every size `< 2^31`, power of two or not … -/
theorem ring_last_index {α : Type} (t : TRing α) (h : t.r.WF) (hS : t.r.size.toNat < 2 ^ 31) :
    t.lastIndex.toInt = ((t.r.head.toNat + t.r.size.toNat - 1) % t.r.size.toNat : Nat) := by
  rw [TRing.lastIndex_toInt t h hS, prevSlot_eq_mod h.1 (by have := h.1; omega)]
  simp

/-- … and therefore returns the newest element of the reference queue. -/
theorem ring_last_is_newest {α : Type} (t : TRing α) (q : List α) (h : Abs t.r t.buf q)
    (hq : q ≠ []) (hS : t.r.size.toNat < 2 ^ 31) : t.last = some (q.getLast hq) :=
  TRing.last_abs h hq hS

/-- what was repaired: `igris::ring<int>(10).last()` at head 0 used slot 3, not 10 -/
theorem ring_last_orig_witness :
    (TRing.mk' (0 : Int) 10).lastIndexOrig.toInt = 3 ∧ (TRing.mk' (0 : Int) 10).lastIndex.toInt = 10 := by
  decide

/-- get_last(offset, count, true) = the `count` elements starting `offset` back
from the newest, newest first; get_last(offset, count, false) = the same
elements, oldest first — for every head position and wrap-around, whenever the
requested elements exist (`offset + count ≤ |q|`). -/
theorem ring_get_last {α : Type} (t : TRing α) (q : List α) (h : Abs t.r t.buf q)
    (hS : t.r.size.toNat < 2 ^ 31) (offset count : Nat) (hle : offset + count ≤ q.length) :
    t.getLast (BitVec.ofNat 32 offset) count true = some ((q.reverse.drop offset).take count) ∧
    t.getLast (BitVec.ofNat 32 offset) count false =
      some ((q.drop (q.length - count - offset)).take count) :=
  ⟨TRing.getLast_fromEnd h hS offset count hle, TRing.getLast_fromStart h hS offset count hle⟩

/-- distance(a, b) = number of steps from slot `b` forward to slot `a`, `(a − b) mod size` -/
theorem ring_distance_correct {α : Type} (t : TRing α) (a b : BitVec 32)
    (hS : t.r.size.toNat ≤ 2 ^ 31) (ha : a.toNat < t.r.size.toNat) (hb : b.toNat < t.r.size.toNat) :
    (t.distance a b).toNat = (a.toNat + t.r.size.toNat - b.toNat) % t.r.size.toNat :=
  TRing.distance_toNat t a b hS ha hb

/-- set_last_index(idx) makes `idx` the slot last() addresses: head = (idx + 1) mod size -/
theorem ring_set_last_index {α : Type} (t : TRing α) (idx : BitVec 32)
    (h : idx.toNat < t.r.size.toNat) :
    (t.setLastIndex idx).r.head.toNat = (idx.toNat + 1) % t.r.size.toNat ∧
    (t.setLastIndex idx).r.tail = t.r.tail ∧ (t.setLastIndex idx).r.size = t.r.size := by
  obtain ⟨e, h2, h3⟩ := TRing.setLastIndex_head t idx h
  exact ⟨by rw [e, nextIdx_eq_mod h], h2, h3⟩

/-! ## 7. ring_counter and cyclic_buffer -/

/-- ring_counter: for every size ≥ 1, `fixup_pos(p) = p mod size` and
`last(no) = (counter − no) mod size` for EVERY int; `prev(i) = (counter − i) mod
size` for every `i` with `counter − i < size` (all `i ≥ 0` when the counter is
in range); `increment(a)` / `set(v)` leave `(counter + a) mod size` / `v mod size`
for non-negative results. -/
theorem ring_counter_correct (rc : RingCounter) (hs : 0 < rc.size) (x : Int) :
    rcFixupPos rc x = x % rc.size ∧
    rcLast rc x = (rc.counter - x) % rc.size ∧
    (rc.counter - x < rc.size → rcPrev rc x = (rc.counter - x) % rc.size) ∧
    (0 ≤ rc.counter + x → (rcIncrement rc x).counter = (rc.counter + x) % rc.size) ∧
    (0 ≤ x → (rcSet rc x).counter = x % rc.size) :=
  ⟨rcFixupPos_eq rc hs x, rcLast_eq rc hs x, fun h => rcPrev_eq rc hs x h,
   fun h => (rcIncrement_eq rc hs x h).1, fun h => (rcSet_eq rc hs x h).1⟩

/-- cyclic_buffer_nth: construct a cyclic buffer of ANY size `n ≥ 1` (power of
two or not) and push ANY sequence `xs` of samples (any length, wrapping any
number of times).  Then no access leaves the storage, the counter is in
`[0, n)`, `size() = min |xs| n`, and for every `i < min |xs| n`, `cb[i]` is the
`i`-th previous sample `xs[|xs| − 1 − i]`. -/
theorem cyclic_buffer_nth {α : Type} (dflt : α) (n : Nat) (hn : 0 < n) (xs : List α) :
    ∃ c, pushAll (Cyclic.mk' dflt n) xs = some c ∧
      c.fill = min xs.length n ∧ 0 ≤ c.counter.counter ∧ c.counter.counter < n ∧
      ∀ i (hi : i < xs.length), i < n → c.nth (i : Int) = some xs[xs.length - 1 - i] := by
  obtain ⟨c, e, inv⟩ := cinv_pushAll xs (cinv_mk' dflt n hn)
  simp only [List.nil_append] at inv
  obtain ⟨k, hk, hkn⟩ := inv.cnt
  exact ⟨c, e, inv.fill, by omega, by omega, fun i hi hin => cinv_nth inv i hi hin⟩

/-- the same after a (repaired) resize: the log restarts, `size()` restarts at 0 -/
theorem cyclic_buffer_resize_nth {α : Type} (dflt : α) (c0 : Cyclic α) (n : Nat) (hn : 0 < n)
    (xs : List α) :
    (Cyclic.resize dflt c0 n).fill = 0 ∧
    ∃ c, pushAll (Cyclic.resize dflt c0 n) xs = some c ∧ c.fill = min xs.length n ∧
      ∀ i (hi : i < xs.length), i < n → c.nth (i : Int) = some xs[xs.length - 1 - i] := by
  obtain ⟨c, e, inv⟩ := cinv_pushAll xs (cinv_resize dflt c0 n hn)
  simp only [List.nil_append] at inv
  exact ⟨rfl, c, e, inv.fill, fun i hi hin => cinv_nth inv i hi hin⟩

/-- push returns the sample it overwrites: the one pushed `n` pushes earlier -/
theorem cyclic_buffer_push_returns_overwritten {α : Type} (c : Cyclic α) (n : Nat) (log : List α)
    (h : CInv c n log) (v : α) (hfull : n ≤ log.length) :
    ∃ c' old, c.push v = some (c', old) ∧ CInv c' n (log ++ [v]) ∧
      old = log[log.length - n]'(by have := h.pos; omega) := by
  obtain ⟨c', old, e, inv, ho⟩ := cinv_push h v
  exact ⟨c', old, e, inv, ho hfull⟩

example : CInv (Cyclic.mk' (0 : Int) 3) 3 [] := cinv_mk' 0 3 (by decide)

/-! ## 8. what was repaired, and why the size bounds are there -/

/-- pre-repair `ring_getc` (`char c`): a stored 0xFF is returned as −1, the code
for "empty" — `ring_read` then stops although the byte was already consumed (it
is lost) — and 0x80 comes back as −128.  The repaired functions return 255 /
128 and deliver all three bytes. -/
theorem ring_getc_orig_ff_witness :
    (ringGetcOrig ⟨1, 0, 4⟩ [0xFF, 0, 0, 0]).map (·.2) = some (-1) ∧
    (ringGetcOrig ⟨1, 0, 4⟩ [0x80, 0, 0, 0]).map (·.2) = some (-128) ∧
    (ringReadOrig ⟨3, 0, 4⟩ [0x01, 0xFF, 0x02, 0] 3).map (·.2) = some [0x01] ∧
    (ringGetc ⟨1, 0, 4⟩ [0xFF, 0, 0, 0]).map (·.2) = some 255 ∧
    (ringGetc ⟨1, 0, 4⟩ [0x80, 0, 0, 0]).map (·.2) = some 128 ∧
    (ringRead ⟨3, 0, 4⟩ [0x01, 0xFF, 0x02, 0] 3).map (·.2) = some [0x01, 0xFF, 0x02] := by
  decide

/-! ## 9. extension: bulk operations = iterated single operations -/

/-- `ring_write(d)` IS `ring_putc` applied to the bytes of `d` in order: same final
head/tail, same buffer, return value = number of putc that answered 1; faults
coincide.  No hypothesis: every state, every buffer, every data (there is no
`memcpy` and no split into two chunks in ring.h — a write that wraps, fills
exactly, or has length 0 is this same loop). -/
theorem ring_write_is_iterated_putc (r : RingHead) (buf d : List Byte) :
    ringWrite r buf d =
      (runRing r buf (d.map Op.putc)).map fun (r', buf', outs) => (r', buf', countOnes outs) := by
  have := writeAux_iterated d r buf 0
  simpa [ringWrite] using this

/-- `ring_read(n)` IS `n` times `ring_getc`: same final state, the bytes stored
through `data` are the answers that were not −1, in order. -/
theorem ring_read_is_iterated_getc (r : RingHead) (buf : List Byte) (n : Nat) :
    ringRead r buf n =
      (runRing r buf (List.replicate n Op.getc)).map fun (r', _, outs) => (r', getcBytes outs) := by
  have := readWith_iterated buf n r []
  simpa [ringRead] using this

/-! ## 10. extension: `ring_for_each(n, r) BODY` -/

/-- the loop the macro expands to, with ANY body `s = f(s, n, buffer[n])`,
terminates (the loop test is evaluated `|q| + 1 ≤ size` times), never reads
outside the buffer, and has applied the body to exactly the stored elements,
oldest → newest, each once, `n` being the element's slot (`ring_for_each_visits`
says which slots these are). -/
theorem ring_for_each_body {α σ : Type} (r : RingHead) (buf q : List α) (f : σ → U32 → α → σ) (s : σ)
    (h : Abs r buf q) :
    ringForEachFold r buf f r.size.toNat r.tail s =
      some (((ringForEach r r.size.toNat r.tail).zip q).foldl (fun s p => f s p.1 p.2) s) ∧
    (ringForEach r r.size.toNat r.tail).length = q.length := by
  have hlt : q.length < r.size.toNat := by have := cnt_lt r h.1; have := h.2.2.1; omega
  refine ⟨forEachFold_spec f buf q r s _ h hlt, ?_⟩
  have := congrArg List.length (ring_for_each_visits r h.1)
  simpa [h.2.2.1] using this

/-- in particular a body that collects `buffer[n]` collects the stored queue -/
theorem ring_for_each_collects {α : Type} (r : RingHead) (buf q : List α) (h : Abs r buf q) :
    ringForEachFold r buf (fun (acc : List α) _ x => acc ++ [x]) r.size.toNat r.tail [] = some q := by
  obtain ⟨e, hl⟩ := ring_for_each_body r buf q (fun (acc : List α) _ x => acc ++ [x]) [] h
  rw [e]
  congr 1
  generalize ringForEach r r.size.toNat r.tail = ns at hl
  suffices H : ∀ (q : List α) (ns : List U32) (acc : List α), ns.length = q.length →
      (ns.zip q).foldl (fun s p => s ++ [p.2]) acc = acc ++ q by simpa using H q ns [] hl
  intro q
  induction q with
  | nil => intro ns acc _; simp
  | cons x q ih =>
    intro ns acc hn
    cases ns with
    | nil => simp at hn
    | cons n ns =>
      simp only [List.zip_cons_cons, List.foldl_cons]
      rw [ih ns _ (by simpa using hn)]; simp

example : Abs ⟨1, 3, 4⟩ ([0x80, 0, 0, 0xFF] : List Byte) [0xFF, 0x80] := by
  refine ⟨by decide, by decide, by decide, ?_⟩
  intro i hi
  match i, hi with
  | 0, _ => rfl
  | 1, _ => rfl

/-! ## 11. extension: bytering.h -/

/-- bytering, single operations: `push` on a non-full ring stores the byte at the
end of the queue and answers 0 (the unchecked variant does the same); on a full
ring (`size − 1` bytes) it answers −1 and changes nothing; `pop` answers the
OLDEST byte as 0..255 — never −1 — and removes it; on an empty ring it answers −1
and changes nothing.  `start`/`end` never move. -/
theorem bytering_push_pop (b : ByteRing) (mem q : List Byte) (c x : Byte) :
    (BAbs b mem q → q.length < b.end_ - b.start - 1 →
      ∃ b' mem', brPush b mem c = some (b', mem', 0) ∧ brPushNocheck b mem c = some (b', mem') ∧
        b'.start = b.start ∧ b'.end_ = b.end_ ∧ BAbs b' mem' (q ++ [c])) ∧
    (BAbs b mem q → q.length = b.end_ - b.start - 1 → brPush b mem c = some (b, mem, -1)) ∧
    (BAbs b mem (x :: q) →
      ∃ b' v, brPop b mem = some (b', v) ∧ brPopNocheck b mem = some (b', v) ∧ v = (x.toNat : Int) ∧
        0 ≤ v ∧ v ≤ 255 ∧ v ≠ -1 ∧ BitVec.ofInt 8 v = x ∧ BAbs b' mem q) ∧
    (BAbs b mem [] → brPop b mem = some (b, -1)) := by
  refine ⟨fun h hr => babs_push c h hr, fun h hf => babs_push_full c h hf, fun h => ?_,
    fun h => babs_pop_empty h⟩
  obtain ⟨b', e, enc, -, -, ha⟩ := babs_pop h
  exact ⟨b', _, e, enc, rfl, by omega, by omega, by omega, ofInt8_toNat x, ha⟩

/-- bytering, counts and pointers: in every state that stores `q`,
`bytering_empty ⇔ q = []`, `bytering_full ⇔ |q| = size − 1`, and head, tail lie in
`[start, end)`. -/
theorem bytering_counts (b : ByteRing) (mem q : List Byte) (h : BAbs b mem q) :
    (brEmpty b = true ↔ q = []) ∧ (brFull b = true ↔ q.length = b.end_ - b.start - 1) ∧
    b.start ≤ b.head ∧ b.head < b.end_ ∧ b.start ≤ b.tail ∧ b.tail < b.end_ := by
  obtain ⟨wf, ha⟩ := h
  obtain ⟨-, -, he, hf⟩ := ring_counts _ _ _ ha
  rw [toRing_size wf] at hf
  exact ⟨by rw [brEmpty_eq wf]; exact he, by rw [brFull_eq wf]; exact hf, wf.h1, wf.h2, wf.t1, wf.t2⟩

/-- bytering_fifo: after `bytering_init(buf, size)` with ANY `1 ≤ size < 2^32` over
a block of at least `size` bytes, EVERY sequence of push / pop (any length, any
byte values, wrapping any number of times; sizes 1 and 2 included) runs without
touching memory outside the block, EVERY answer equals that of the reference
FIFO of capacity `size − 1` (so full rejects and empty rejects happen exactly
where the reference's do), the final ring stores the final reference queue, and
accepted bytes = delivered bytes ++ stored bytes: nothing lost, duplicated or
altered. -/
theorem bytering_refines_fifo_lossless (buf size : Nat) (mem : List Byte) (hs : 0 < size)
    (hS : size < 2 ^ 32) (hm : size ≤ mem.length) (ops : List BOp) :
    ∃ b' mem', runB (brInit buf size) mem ops = some (b', mem', (runSpecB (size - 1) [] ops).2) ∧
      BAbs b' mem' (runSpecB (size - 1) [] ops).1 ∧ b'.start = buf ∧ b'.end_ = buf + size ∧
      mem'.length = mem.length ∧
      acceptedAllB ops (runSpecB (size - 1) [] ops).2 =
        deliveredAllB ops (runSpecB (size - 1) [] ops).2 ++ (runSpecB (size - 1) [] ops).1 := by
  obtain ⟨b', mem', e, h1, h2, h3, ha⟩ := runB_refines ops (babs_init buf size mem hs hS hm)
  have hc : (brInit buf size).end_ - (brInit buf size).start - 1 = size - 1 := by
    simp [brInit]
  rw [hc] at e ha
  refine ⟨b', mem', e, ha, h1, h2, h3, ?_⟩
  have := specB_conserves (size - 1) ops []
  simpa using this

example : BAbs (brInit 4096 4) [0, 0, 0, 0] [] := babs_init 4096 4 _ (by decide) (by decide) (by decide)

/-- what was repaired in bytering.h (the third defect, a missing `return` in a
function declared `int`, has no model counterpart).  Pre-repair: a pushed byte is
accepted (answer 0) and the following pop answers −1 — lost, because
`__bytering_fixup` reset the pointer on every step.  With only that corrected,
`bytering_full` (ring.h's formula with the roles of head and tail reversed)
rejects the second byte of a ring of capacity 3.  Repaired: both bytes are
accepted and come out in order, 0xFF as 255. -/
theorem bytering_orig_witness :
    ((brPushOrig (brInit 16 4) [0, 0, 0, 0] 0x41).map fun (_, _, rc) => rc) = some 0 ∧
    ((brPushOrig (brInit 16 4) [0, 0, 0, 0] 0x41).bind fun (b, m, _) =>
      (brPopOrig b m).map (·.2)) = some (-1) ∧
    ((brPushOrig2 (brInit 16 4) [0, 0, 0, 0] 0x41).bind fun (b, m, _) =>
      (brPushOrig2 b m 0xFF).map fun (_, _, rc) => rc) = some (-1) ∧
    (runB (brInit 16 4) [0, 0, 0, 0] [.push 0x41, .push 0xFF, .pop, .pop, .pop]).map (·.2.2) =
      some [0, 0, 0x41, 255, -1] := by
  decide

/-! ## 12. extension: igris::ring<T> — push when full, pop when empty, resize,
copy, move, index_of -/

/-- `push`/`emplace` have no fullness test.  On a FULL ring the head steps onto the
tail: the ring reads as EMPTY, i.e. all `size − 1` stored elements and the new one
are lost.  `pop` has no emptiness test: on an EMPTY ring the tail steps past the
head and the ring reports `size − 1` (stale) elements.  Both stay inside the
buffer.  Hence the exact contract of the typed ring, under which
`ring_push_pop_tail` gives FIFO behaviour: push only if `room() > 0`, pop only if
`!empty()`. -/
theorem ring_push_full_pop_empty {α : Type} (t : TRing α) (q : List α) (x d : α) :
    (Abs t.r t.buf q → q.length = t.r.size.toNat - 1 →
      ∃ t', t.push x = some t' ∧ t'.r.size = t.r.size ∧ Abs t'.r t'.buf []) ∧
    (Abs t.r t.buf [] →
      ∃ t', t.pop d = some t' ∧ t'.r.size = t.r.size ∧ t'.r.WF ∧
        (ringAvail t'.r).toNat = t.r.size.toNat - 1 ∧ ringFull t'.r = true) :=
  ⟨fun h hf => TRing.push_full x h hf, fun h => TRing.pop_empty d h⟩

example : Abs (TRing.mk' (0 : Int) 0).r (TRing.mk' (0 : Int) 0).buf [] :=
  (ring_ctor_resize_reset_bounds (0 : Int) TRing.empty 0 (by decide)).1.2.2

/-- `resize(sz)` does NOT preserve the content: whatever the ring stored, the
result is exactly the freshly constructed `ring(sz)` — empty, `sz` free slots,
every element value-initialised. -/
theorem ring_resize_discards {α : Type} (dflt : α) (t : TRing α) (sz : Nat) (hn : sz + 1 < 2 ^ 32) :
    TRing.resize dflt t sz = TRing.mk' dflt sz ∧
    Abs (TRing.resize dflt t sz).r (TRing.resize dflt t sz).buf [] ∧
    (ringRoom (TRing.resize dflt t sz).r).toNat = sz := by
  have ha := (ring_ctor_resize_reset_bounds dflt t sz hn).2.1
  refine ⟨rfl, ha.2.2, ?_⟩
  have := (ring_counts _ _ _ ha.2.2).2.1
  rw [this, ha.1]; simp

/-- the implicitly generated copy constructor and copy assignment produce a ring
with the same indices over an equal, separate array: it stores the same queue.
The move constructor hands the array over; the moved-from object keeps
`r.size` but owns no storage, so any push on it writes outside (fault). -/
theorem ring_copy_move {α : Type} (dflt : α) (t u : TRing α) (q : List α) (x : α)
    (h : Abs t.r t.buf q) :
    Abs (TRing.copy dflt t).r (TRing.copy dflt t).buf q ∧
    Abs (TRing.assign u t).r (TRing.assign u t).buf q ∧
    Abs t.move.1.r t.move.1.buf q ∧
    t.move.2.r = t.r ∧ t.move.2.buf = [] ∧ t.move.2.push x = none := by
  refine ⟨?_, ?_, h, rfl, rfl, ?_⟩
  · simpa [TRing.copy, arrCopy_eq] using h
  · simpa [TRing.assign] using h
  · simp [TRing.move, TRing.push, poke]

/-- `index_of(&buffer[i]) = i` (pointer difference in elements) -/
theorem ring_index_of (base elem i : Nat) (he : 0 < elem) :
    indexOf base elem (slotAddr base elem i) = i := by
  simp [indexOf, slotAddr, Nat.mul_div_cancel _ he]

/-! ## 13. extension: element lifetime of igris::ring<T> BEFORE the repairs of
round 3 (`LRing` with `pushOrig` / `popOrig`: the code as it was; the finding
C03-ring-element-lifetime is now `fixed`, the full statement is proved for the
repaired code in §16), and for which `T` sections 6 and 12 were the whole truth

FULL STATEMENT one would want: "every object constructed in the ring is destroyed
exactly once".  False for the code as written (`ring_element_lifetime_witness`,
`ring_lifetime_fresh_pushes_leak`, `ring_lifetime_pop_then_destroy`).  What holds:
* the VALUE behaviour does not depend on the lifetime bookkeeping
  (`ring_lifetime_values`): all FIFO / accessor theorems hold for every `T` as
  statements about the stored values;
* they are the complete description of the ring exactly for `T` whose
  construction over a living object and whose repeated destruction have no
  effect: trivially destructible `T` (and trivially copyable, for `read`/`write`,
  which only exist for `T = char`).  For any other `T` the events counted by
  `overLive` / `deadDtor` / `deadRead` are leaks resp. undefined behaviour;
* stored elements are always living objects (`ring_lifetime_stored_live`). -/

/-- the value component of the lifetime model is the typed-ring model -/
theorem ring_lifetime_values {α : Type} (l : LRing α) (x : α) :
    (l.pushOrig x).map (·.t) = l.t.push x ∧ l.popOrig.map (·.t) = l.t.popOrig :=
  ⟨LRing.push_t l x, LRing.pop_t l⟩

/-- after `ring(n)` (every slot already holds a living `T`), EVERY push of ANY
sequence constructs over a living object whose destructor never runs: `k` pushes,
`k` orphaned objects. -/
theorem ring_lifetime_fresh_pushes_leak {α : Type} (dflt : α) (n : Nat) (hn : n + 1 < 2 ^ 32)
    (xs : List α) :
    ∃ l, LRing.pushAllOrig (LRing.mk' dflt n) xs = some l ∧ l.overLive = xs.length ∧ l.deadDtor = 0 := by
  have ha := (ring_ctor_resize_reset_bounds dflt TRing.empty n hn).1
  obtain ⟨l, e, -, ho, hd⟩ := LRing.pushAll_allLive xs (LRing.mk' dflt n) (LRing.mk'_allLive dflt n)
    ha.2.2.1 (by rw [show (LRing.mk' dflt n).t = TRing.mk' dflt n from rfl, ha.1, ha.2.1]; exact Nat.le_refl _)
  exact ⟨l, e, by simpa [LRing.mk'] using ho, by simpa [LRing.mk'] using hd⟩

/-- in ANY state, the slot a `pop` has destroyed is destroyed a second time when the
ring goes out of scope right after (`~unbounded_array` runs `~T()` on every slot). -/
theorem ring_lifetime_pop_then_destroy {α : Type} (l l' : LRing α) (e : l.popOrig = some l')
    (hlen : l.live.length = l.t.buf.length) : l.deadDtor + 1 ≤ l'.destroy.deadDtor :=
  LRing.pop_destroy e hlen

/-- stored elements are living objects: the invariant holds after construction and
is kept by every contract-respecting push and pop; a contract-respecting pop
always destroys a LIVING object (no double destruction at that moment), and
`tail()` of a non-empty ring refers to a living object. -/
theorem ring_lifetime_stored_live {α : Type} (dflt : α) (n : Nat) (l l' : LRing α) (q : List α) (x y : α) :
    LRing.StoredLive (LRing.mk' dflt n) ∧
    (Abs l.t.r l.t.buf q → q.length < l.t.r.size.toNat - 1 → LRing.StoredLive l →
      l.pushOrig x = some l' → LRing.StoredLive l') ∧
    (Abs l.t.r l.t.buf (y :: q) → LRing.StoredLive l → l.popOrig = some l' →
      LRing.StoredLive l' ∧ l.tailLive = true ∧ l'.deadDtor = l.deadDtor) :=
  ⟨LRing.mk'_storedLive dflt n, fun ha hr hs e => LRing.push_storedLive ha hr hs e,
   fun ha hs e => LRing.pop_storedLive ha hs e⟩

/-- the finding on the model: `ring<T> r(1); r.push(a); r.pop();` and scope exit —
one object constructed over a living one (orphaned), one object destroyed twice. -/
theorem ring_element_lifetime_witness :
    (((LRing.mk' (0 : Int) 1).pushOrig 7).bind fun l => l.popOrig.map fun l =>
      (l.destroy.overLive, l.destroy.deadDtor)) = some (1, 1) := by
  decide

/-! ## 14. extension: ring_counter in `int` arithmetic, negative `i` -/

/-- the exact precondition under which `ring_counter_correct` describes the C
code: for a counter object with `0 < size ≤ INT_MAX`,
`increment(a)` is free of signed overflow IFF `counter + a` fits an `int`,
`prev(i)` / `last(i)` IFF `counter − i` fits; `set`, `fixup_pos` always; the
fix-up loops themselves never overflow.  Inside the precondition the C functions
are the unbounded-integer functions of `ring_counter_correct`. -/
theorem ring_counter_int_exact (rc : RingCounter) (hs : 0 < rc.size) (hsI : inInt rc.size)
    (x : Int) (hx : inInt x) :
    rcIncrementC rc x = (if inInt (rc.counter + x) then some (rcIncrement rc x) else none) ∧
    rcPrevC rc x = (if inInt (rc.counter - x) then some (rcPrev rc x) else none) ∧
    rcLastC rc x = (if inInt (rc.counter - x) then some (rcLast rc x) else none) ∧
    rcSetC rc x = some (rcSet rc x) ∧
    rcFixupPosC rc x = some (rcFixupPos rc x) := by
  have hfix : ∀ p, inInt p → rcFixupPosC rc p = some (rcFixupPos rc p) := fun p hp => by
    simp only [rcFixupPosC, rcFixupPos, rcDownC_eq rc.size hs _ p hp, Option.bind_some]
    exact rcUpC_eq rc.size hs hsI _ _ (rcDown_inInt rc.size hs _ p hp)
  refine ⟨?_, ?_, ?_, ?_, hfix x hx⟩
  · unfold rcIncrementC ckInt
    split
    · rename_i h
      simp [rcDownC_eq rc.size hs _ _ h, rcIncrement, rcFixup]
    · rfl
  · unfold rcPrevC ckInt
    split
    · rename_i h
      simp [rcUpC_eq rc.size hs hsI _ _ h, rcPrev]
    · rfl
  · unfold rcLastC ckInt
    split
    · rename_i h
      simp [hfix _ h, rcLast]
    · rfl
  · simp [rcSetC, rcDownC_eq rc.size hs _ x hx, rcSet, rcFixup]

example : inInt (5 : Int) ∧ inInt (2147483647 : Int) := by decide

/-- beyond the preconditions.  (a) `counter + arg` = INT_MAX + 1: signed overflow
(one less is fine).  (b) negative `i`: `ring_counter_prev(i)` is `(counter − i) mod
size` only while `counter − i < size`; at `counter = 0, size = 3`, `prev(−2) = 2`
but `prev(−3) = 3 = size`, and `cyclic_buffer<T>(3)[−3]` reads `data[3]`, outside
the array (`none`), while `[−2]` is inside.  (c) a negative increment below 0
leaves the counter negative (the fix-up loop only subtracts). -/
theorem ring_counter_beyond_witness :
    rcIncrementC ⟨5, 2147483647⟩ 2147483643 = none ∧
    (rcIncrementC ⟨5, 2147483647⟩ 2147483642).map (·.counter) = some 0 ∧
    rcPrev ⟨0, 3⟩ (-2) = 2 ∧ rcPrev ⟨0, 3⟩ (-3) = 3 ∧
    (Cyclic.mk' (0 : Int) 3).nth (-3) = none ∧ ((Cyclic.mk' (0 : Int) 3).nth (-2)).isSome = true ∧
    (rcIncrement ⟨0, 3⟩ (-1)).counter = -1 := by
  decide

/-! ## 15. extension: igris::ring<T> over arbitrary histories -/

/-- ring_typed_fifo_lossless: construct `igris::ring<T>(n)` for ANY `n` with
`n + 1 < 2^32` (n = 0, 1, 2 included) and apply ANY interleaving of `push` /
`emplace` and `tail(); pop()` that respects the contract of the typed ring
(`runSpecT ≠ none`: push only with room, pop only when non-empty — the code does
not test, `ring_push_full_pop_empty`), wrapping any number of times.  Then no
access leaves the buffer, every `tail()` returns what the reference queue of
capacity `n` delivers, the final ring stores the final reference queue, and
pushed = delivered ++ stored, for every element type `T` (as values; see §13
for object lifetime).  `ring<char>::read/write` are `ring_read`/`ring_write` on
`(r, buffer)`: `ring_refines_fifo_partial` applies to them verbatim. -/
theorem ring_typed_fifo_lossless {α : Type} (dflt : α) (n : Nat) (hn : n + 1 < 2 ^ 32)
    (ops : List (TOp α)) (q' : List α) (outs : List (Option α))
    (hspec : runSpecT n [] ops = some (q', outs)) :
    ∃ t', runT dflt (TRing.mk' dflt n) ops = some (t', outs) ∧ Abs t'.r t'.buf q' ∧
      t'.r.size.toNat = n + 1 ∧ pushedT ops = deliveredT outs ++ q' := by
  have ha := (ring_ctor_resize_reset_bounds dflt TRing.empty n hn).1
  obtain ⟨t', e, hs, h'⟩ := runT_refines dflt ops ha.2.2 (by rw [ha.1]; simpa using hspec)
  have := specT_conserves n ops hspec
  exact ⟨t', e, h', by rw [hs, ha.1], by simpa using this⟩

example : (runSpecT 1 ([] : List Int) [.push 7, .pop, .push 8, .pop]).isSome := by decide

/-! ## 16. round 3: element lifetime of igris::ring<T> AFTER the repairs 5bfd4f6
(`pop`) and fcfbb44 (`push`/`emplace`) — "every object constructed in the ring is
destroyed exactly once", at full strength -/

/-- the value component of the repaired lifetime model is the typed-ring model:
§6, §12, §15 hold for every `T` as statements about values -/
theorem ring_lifetime_values_repaired {α : Type} (v : VRing α) (x d : α) :
    (v.push x).map (·.t) = v.t.push x ∧ (v.pop d).map (·.t) = v.t.pop d :=
  ⟨VRing.push_t v x, VRing.pop_t v d⟩

/-- ring_lifetime_exactly_once: construct `igris::ring<T>(n)` for ANY `n` with
`n + 1 < 2^32` and run ANY script of `push`/`emplace` (also `push(head_place())`,
the argument aliasing the slot), `pop`, `clear`, `resize`,
copy construction, move construction and copy assignment to another ring
(`unbounded_array::operator=`), carrying on with the new object, and (round 3b, repair
6d59c1e) pushes whose element constructor THROWS and is caught by the caller —
contract-respecting or not: push on a full ring, pop on an empty one included —
and let the last object go out of scope.  Then no operation faults, and
* no object was ever constructed over a living object (`overLive = 0`),
* no destructor ever ran on a slot without a living object (`deadDtor = 0`),
* no copy ever read a slot without a living object (`deadRead = 0`),
* at the end no object is alive and #constructor calls = #destructor calls.
Each destructor call therefore ended the life of a distinct constructed object
and every constructed object was reached by one: destroyed exactly once.
While the ring is in use every slot of its array holds a living object. -/
theorem ring_lifetime_exactly_once {α : Type} (dflt : α) (n : Nat) (hn : n + 1 < 2 ^ 32)
    (ops : List (VOp α)) (hok : ∀ op ∈ ops, op.ok) :
    ∃ v, VRing.run dflt (VRing.mk' dflt n) ops = some v ∧
      v.live = List.replicate v.t.buf.length true ∧
      v.destroy.overLive = 0 ∧ v.destroy.deadDtor = 0 ∧ v.destroy.deadRead = 0 ∧
      v.destroy.ctor = v.destroy.dtor ∧ (∀ b ∈ v.destroy.live, b = false) := by
  obtain ⟨v, e, g⟩ := VRing.run_good dflt ops (VRing.mk'_good dflt n hn) hok
  obtain ⟨h1, h2, h3, h4, h5⟩ := VRing.invalidate_good g
  exact ⟨v, e, g.live, h1, h2, h3, h4, h5⟩

example : ∀ op ∈ [VOp.push (1 : Int), .pushSelf, .pop, .pop, .clear, .resize 5, .copy, .move, .assign 3, .pushThrow], op.ok := by
  intro op h
  simp only [List.mem_cons, List.not_mem_nil, or_false] at h
  rcases h with rfl | rfl | rfl | rfl | rfl | rfl | rfl | rfl | rfl | rfl <;> simp [VOp.ok]

/-- what one `push` / `pop` does to the objects: in a ring whose slots all live,
exactly one object is destroyed and exactly one is constructed (in the same slot),
whatever the fill state -/
theorem ring_lifetime_step_counts {α : Type} (v : VRing α) (x d : α) (g : VRing.Good v) :
    (∃ v', v.push x = some v' ∧ VRing.Good v' ∧ v'.ctor = v.ctor + 1 ∧ v'.dtor = v.dtor + 1) ∧
    (∃ v', v.pop d = some v' ∧ VRing.Good v' ∧ v'.ctor = v.ctor + 1 ∧ v'.dtor = v.dtor + 1) :=
  ⟨VRing.push_good x g, VRing.pop_good d g⟩

example : VRing.Good (VRing.mk' (0 : Int) 1) := VRing.mk'_good 0 1 (by decide)

/-- the script of `ring_element_lifetime_witness` on the repaired code: nothing
orphaned, nothing destroyed twice, 4 objects constructed (2 by the array, 1 by
push, 1 by pop) and 4 destroyed -/
theorem ring_lifetime_repaired_witness :
    (((VRing.mk' (0 : Int) 1).push 7).bind fun v => (v.pop 0).map fun v =>
      (v.destroy.overLive, v.destroy.deadDtor, v.destroy.ctor, v.destroy.dtor)) = some (0, 0, 4, 4) := by
  decide

/-! ## 17. round 3: the bulk calls on a full / empty ring leave the state unchanged -/

/-- "a full ring rejects writes and an empty ring rejects reads without changing
state" for `ring_write` / `ring_read` (and `igris::ring<char>::write/read`, which
are these functions on `(r, buffer)`): the answer is 0 bytes and head, tail and
the whole buffer are what they were, for every data / length. -/
theorem ring_write_full_read_empty_unchanged (r : RingHead) (buf q d : List Byte) (n : Nat) :
    (Abs r buf q → q.length = r.size.toNat - 1 → ringWrite r buf d = some (r, buf, 0)) ∧
    (Abs r buf [] → ringRead r buf n = some (r, [])) :=
  ⟨fun h hf => write_full_unchanged r buf d (abs_full h hf),
   fun h => read_empty_unchanged r buf n (abs_empty h)⟩

/-! ## 18. round 3: igris::ring<T> — exactly when `push` / `pop` behave as a queue

FULL STATEMENT of the property text for the typed ring: "a full ring rejects
`push`, an empty ring rejects `pop`, without changing state".  False for the
code: `push`/`emplace`/`pop` return `void` and do not test
(`ring_typed_no_reject_witness`, finding C03-typed-ring-no-reject).  What holds
is the exact characterisation below (`ring_push_full_pop_empty` says what
happens outside it). -/

/-- `push` appends to the stored queue IFF the ring is not full; `pop` removes
exactly one element IFF the ring is not empty. -/
theorem ring_typed_push_pop_exact {α : Type} (t : TRing α) (q : List α) (x d : α) (h : Abs t.r t.buf q) :
    ((∃ t', t.push x = some t' ∧ Abs t'.r t'.buf (q ++ [x])) ↔ q.length < t.r.size.toNat - 1) ∧
    ((∃ t' q', t.pop d = some t' ∧ Abs t'.r t'.buf q' ∧ q'.length + 1 = q.length) ↔ q ≠ []) := by
  constructor
  · constructor
    · rintro ⟨t', e, ha⟩
      by_cases hf : q.length < t.r.size.toNat - 1
      · exact hf
      · have hle := abs_len_le h
        obtain ⟨t2, e2, -, ha2⟩ := TRing.push_full x h (by omega)
        rw [e] at e2
        cases e2
        have h1 := ha.2.2.1
        have h2 := ha2.2.2.1
        rw [← h2] at h1
        simp at h1
    · intro hr
      obtain ⟨t', e, -, ha⟩ := TRing.push_abs x h hr
      exact ⟨t', e, ha⟩
  · constructor
    · rintro ⟨t', q', e, ha, hl⟩ hq
      subst hq
      simp at hl
    · intro hq
      cases q with
      | nil => exact absurd rfl hq
      | cons y q0 =>
        obtain ⟨t', e, -, ha⟩ := TRing.pop_abs d h
        exact ⟨t', q0, e, ha, rfl⟩

/-- `igris::ring<int>(3)`: three pushes fill it (avail 3); the fourth push is
not rejected, the ring then reads as empty (avail 0: four elements lost); a
`pop` on the fresh (empty) ring is not rejected either, the ring then reports 3
stored elements. -/
theorem ring_typed_no_reject_witness :
    ((((TRing.mk' (0 : Int) 3).push 1).bind fun t => (t.push 2).bind fun t => t.push 3).map
      fun t => (ringAvail t.r).toNat) = some 3 ∧
    ((((TRing.mk' (0 : Int) 3).push 1).bind fun t => (t.push 2).bind fun t => (t.push 3).bind fun t =>
      t.push 4).map fun t => ((ringAvail t.r).toNat, ringEmpty t.r)) = some (0, true) ∧
    (((TRing.mk' (0 : Int) 3).pop 0).map fun t => ((ringAvail t.r).toNat, ringFull t.r)) = some (3, true) := by
  decide

/-! ## 19. round 3: the C widths — for exactly which arguments the list-level
theorems about `ring(n)`, `resize(n)`, `cyclic_buffer(n)` describe the C++ objects -/

/-- `ring(int bufsize)`: the object is the model's `TRing.mk' _ bufsize` (ring size =
array size = bufsize + 1 ≥ 1) IFF `0 ≤ bufsize < INT_MAX`.  (`bufsize = INT_MAX`:
signed overflow; `bufsize = −1`: a ring of size 0 over an empty array;
`bufsize ≤ −2`: a request for 2^64 − |bufsize+1| elements.) -/
theorem ring_ctor_width_exact (b : BitVec 32) :
    (∃ r len, ringCtorC b = some (r, len) ∧ r.size.toNat = len ∧ 0 < len ∧ (len : Int) = b.toInt + 1) ↔
      (0 ≤ b.toInt ∧ b.toInt < 2147483647) := by
  have hlo : -2147483648 ≤ b.toInt := by have := BitVec.le_toInt b; simpa using this
  have hhi : b.toInt < 2147483648 := by have := BitVec.toInt_lt (x := b); simpa using this
  unfold ringCtorC
  constructor
  · rintro ⟨r, len, e, h1, h2, h3⟩
    split at e
    · cases e
    · rename_i hne
      simp only [Option.some.injEq, Prod.mk.injEq] at e
      obtain ⟨rfl, rfl⟩ := e
      simp only [ringInit, BitVec.toNat_ofInt] at h1 h2 h3
      omega
  · rintro ⟨h0, h1⟩
    rw [if_neg (by omega)]
    refine ⟨_, _, rfl, ?_, ?_, ?_⟩ <;> simp only [ringInit, BitVec.toNat_ofInt] <;> omega

/-- witnesses just outside: `ring<T>(-1)` is a ring of size 0 over 0 elements,
`ring<T>(INT_MAX)` overflows, `ring<T>(INT_MAX - 1)` is fine -/
theorem ring_ctor_width_witness :
    ringCtorC (-1) = some (⟨0, 0, 0⟩, 0) ∧ ringCtorC 2147483647 = none ∧
    ringCtorC 2147483646 = some (⟨0, 0, 2147483647⟩, 2147483647) := by
  decide

/-- `resize(size_t sz)`: ring size = array size (= sz + 1) IFF `sz + 1 < 2^32`;
beyond it `ring_init` receives the truncated value. -/
theorem ring_resize_width_exact (sz : BitVec 64) :
    ((ringResizeC sz).1.size.toNat = (ringResizeC sz).2 ∧ 0 < (ringResizeC sz).2) ↔
      sz.toNat + 1 < 2 ^ 32 := by
  have := sz.isLt
  have h1 : (1 : BitVec 64).toNat = 1 := rfl
  simp only [ringResizeC, ringInit, BitVec.toNat_setWidth, BitVec.toNat_add, h1]
  omega

/-- just outside: `resize(2^32 − 1)` gives a ring of size 0 over 2^32 elements
(the fix-up loops of such a ring do not terminate, `ring_fixup_terminates_iff`),
`resize(2^32)` a ring of size 1 (capacity 0) over 2^32 + 1 elements;
`resize(2^32 − 2)` is the largest faithful one. -/
theorem ring_resize_width_witness :
    ringResizeC 0xFFFFFFFF = (⟨0, 0, 0⟩, 4294967296) ∧
    ringResizeC 0x100000000 = (⟨0, 0, 1⟩, 4294967297) ∧
    ringResizeC 0xFFFFFFFE = (⟨0, 0, 0xFFFFFFFF⟩, 4294967295) := by
  decide

/-- `cyclic_buffer(size_t size)`: `counter.size` (an `int`) equals the number of
elements IFF `size < 2^31`, i.e. `cyclic_buffer_nth` (stated for `Cyclic.mk' _ n`,
any `n ≥ 1`) describes the C++ object exactly for `1 ≤ n ≤ INT_MAX`. -/
theorem cyclic_ctor_width_exact (size : BitVec 64) :
    ((cyclicCtorC size).1.size = ((cyclicCtorC size).2 : Int)) ↔ size.toNat < 2 ^ 31 := by
  have := size.isLt
  simp only [cyclicCtorC, rcInit, BitVec.toInt_eq_toNat_cond, BitVec.toNat_setWidth]
  split <;> omega

/-- just outside: `cyclic_buffer<T>(2^31)` has `counter.size = INT_MIN`, and its
first `push` overflows `int` in the fix-up loop (`counter −= size` with
counter = 1) -/
theorem cyclic_ctor_width_witness :
    (cyclicCtorC 0x80000000).1 = ⟨0, -2147483648⟩ ∧
    rcIncrementC (cyclicCtorC 0x80000000).1 1 = none ∧
    (cyclicCtorC 0x7FFFFFFF).1 = ⟨0, 2147483647⟩ := by
  decide

/-- the bulk-move bound `size ≤ 2^31` of `ring_move_head_publishes_partial` is
tight: on the ring of 2^31 + 1 slots, empty at head = tail = 2^31, a move by
2^31 (= room) makes `head + bias` = 2^32 wrap to 0; (head + bias) mod size is
2^31 − 1. -/
theorem ring_move_head_size_witness_tight :
    (ringMoveHead ⟨0x80000000, 0x80000000, 0x80000001⟩ 0x80000000).head.toNat = 0 ∧
    (ringRoom ⟨0x80000000, 0x80000000, 0x80000001⟩).toNat = 0x80000000 ∧
    (0x80000000 + 0x80000000) % 0x80000001 = 0x7FFFFFFF := by
  decide

/-! ## 20. round 3: `size == 0` -/

/-- `ring_fixup_head` / `ring_fixup_tail` (`while (x >= size) x -= size;`)
terminate IFF `size ≠ 0` (then within `x` iterations, and the result is
`fixupLoop`'s, i.e. `x mod size`).  On a ring of size 0 — `ring_init(r, 0)`, a
default-constructed `igris::ring<T>`, `resize(2^32 − 1)` — every
`ring_move_head` / `ring_move_tail` hangs (outside the property's quantifier
"all ring sizes ≥ 2"; finding C03-ring-size-zero). -/
theorem ring_fixup_terminates_iff (size x : U32) :
    (∃ fuel, (fixupLoopT size fuel x).isSome = true) ↔ size ≠ 0 := by
  constructor
  · rintro ⟨fuel, h⟩ rfl
    rw [show fixupLoopT 0 fuel x = none from fixupLoopT_zero fuel x] at h
    cases h
  · intro hs
    have hpos : 0 < size.toNat := by
      rcases Nat.eq_zero_or_pos size.toNat with h0 | h0
      · exact absurd (BitVec.eq_of_toNat_eq (by simpa using h0)) hs
      · exact h0
    exact ⟨x.toNat, by rw [fixupLoopT_pos size hpos _ x (Nat.le_refl _)]; rfl⟩

example : (fixupLoopT 7 20 20).isSome = true := by decide

/-! ## 21. round 3: the bulk moves for every size; `int` results -/

/-- what `ring_move_head` / `ring_move_tail` compute for EVERY size ≥ 1 and EVERY
bias, inside and outside the region of the `_partial` theorems: the 32-bit sum,
then reduced modulo `size`. -/
theorem ring_move_exact_all_sizes (r : RingHead) (hs : 0 < r.size.toNat) (b : U32) :
    (ringMoveHead r b).head.toNat = ((r.head.toNat + b.toNat) % 2 ^ 32) % r.size.toNat ∧
    (ringMoveTail r b).tail.toNat = ((r.tail.toNat + b.toNat) % 2 ^ 32) % r.size.toNat :=
  ⟨moveHead_head r hs b, moveTail_tail r hs b⟩

/-- the region excluded by `ring_move_head_publishes_partial` is exactly
`size > 2^31`: "every head move within `room` lands on `(head + bias) mod size`"
holds for a size IFF `size ≤ 2^31` (for every larger size the empty ring at
head = tail = size − 1 moved by `room = size − 1` is a counterexample). -/
theorem ring_move_head_exact_iff (size : U32) (hs : 0 < size.toNat) :
    (∀ head tail bias : U32, head.toNat < size.toNat → tail.toNat < size.toNat →
        bias.toNat ≤ (ringRoom ⟨head, tail, size⟩).toNat →
        (ringMoveHead ⟨head, tail, size⟩ bias).head.toNat = (head.toNat + bias.toNat) % size.toNat) ↔
      size.toNat ≤ 2 ^ 31 := by
  have hlt := size.isLt
  constructor
  · intro h
    by_cases hS : size.toNat ≤ 2 ^ 31
    · exact hS
    · exfalso
      have e1 : (size - 1).toNat = size.toNat - 1 := by bv_omega
      have wf : (⟨size - 1, size - 1, size⟩ : RingHead).WF := by
        constructor <;> (show (size - 1).toNat < size.toNat) <;> omega
      have hroom : (ringRoom ⟨size - 1, size - 1, size⟩).toNat = size.toNat - 1 := by
        rw [room_toNat _ wf]
        show size.toNat - 1 - cntN size.toNat (size - 1).toNat (size - 1).toNat = size.toNat - 1
        unfold cntN; simp
      have := h (size - 1) (size - 1) (size - 1) (by omega) (by omega) (by rw [hroom, e1]; exact Nat.le_refl _)
      rw [moveHead_head ⟨size - 1, size - 1, size⟩ hs (size - 1)] at this
      simp only [e1] at this
      have a : (size.toNat - 1 + (size.toNat - 1)) % 2 ^ 32 = 2 * size.toNat - 2 - 2 ^ 32 := by omega
      have b : (size.toNat - 1 + (size.toNat - 1)) % size.toNat = size.toNat - 2 := by
        rw [mod_wrap (by omega)]; split <;> omega
      have c : (2 * size.toNat - 2 - 2 ^ 32) % size.toNat = 2 * size.toNat - 2 - 2 ^ 32 :=
        Nat.mod_eq_of_lt (by omega)
      rw [a, c, b] at this
      omega
  · intro hS head tail bias hh ht hb
    have wf : (⟨head, tail, size⟩ : RingHead).WF := ⟨hh, ht⟩
    rw [room_toNat _ wf] at hb
    have hb' : bias.toNat ≤ size.toNat - 1 := by
      have : (⟨head, tail, size⟩ : RingHead).size.toNat = size.toNat := rfl
      omega
    rw [moveHead_head ⟨head, tail, size⟩ hs bias]
    show ((head.toNat + bias.toNat) % 2 ^ 32) % size.toNat = _
    rw [Nat.mod_eq_of_lt (a := head.toNat + bias.toNat) (by omega)]

example : (4 : U32).toNat ≤ 2 ^ 31 := by decide

/-- `ring_write` / `ring_read` count in an `int` (`int ret`): on every ring of at
most 2^31 slots the count fits (no signed overflow), whatever the data / length. -/
theorem ring_bulk_return_fits_int (r : RingHead) (buf q d : List Byte) (n : Nat) (h : Abs r buf q)
    (hS : r.size.toNat ≤ 2 ^ 31) :
    (∃ r' buf' k, ringWrite r buf d = some (r', buf', k) ∧ k ≤ 2147483647) ∧
    (∃ r' out, ringRead r buf n = some (r', out) ∧ out.length ≤ 2147483647) := by
  have hq := abs_len_le h
  have hp := abs_size_pos h
  obtain ⟨r1, b1, e1, -⟩ := ring_write_appends r buf q d h
  obtain ⟨r2, e2, -⟩ := ring_read_delivers r buf q n h
  refine ⟨⟨r1, b1, _, e1, by omega⟩, ⟨r2, _, e2, ?_⟩⟩
  have : (q.take n).length ≤ q.length := by simp; omega
  omega

/-- `tail_index()` / `head_index()` / `int idx = r.tail` (in `pop`) convert the
`unsigned` index to `int`: the value is kept IFF it is below 2^31, which the
index invariant gives on every ring of at most 2^31 slots; witness just outside. -/
theorem ring_index_fits_int (r : RingHead) (h : r.WF) (hS : r.size.toNat ≤ 2 ^ 31) :
    r.head.toInt = (r.head.toNat : Int) ∧ r.tail.toInt = (r.tail.toNat : Int) ∧
    (0x80000000 : BitVec 32).toInt = -2147483648 := by
  have h1 := h.1
  have h2 := h.2
  refine ⟨?_, ?_, by decide⟩ <;> rw [BitVec.toInt_eq_toNat_cond] <;> split <;> omega

/-! ## 22. round 3: igris::ring<char> — bulk and single operations interleaved on one object -/

/-- ring_char_mixed_history: construct `igris::ring<char>(n)`, ANY `n` with
`n + 1 < 2^32`, and apply ANY interleaving of `write(buf, len)` / `read(buf, len)`
of ANY length (0, up to the wrap point, across it, the whole ring, more than
room / more than stored) with `push` and `tail(); pop()` inside the typed ring's
contract (`runSpecC ≠ none`).  Then no access leaves the buffer, EVERY return value,
every `tail()` and every byte read equal those of the reference `List Byte` queue
of capacity `n`, the final ring stores the final reference queue, and
accepted bytes = delivered bytes ++ stored bytes.  (The C API counterpart with
putc/getc is `ring_refines_fifo_partial`, which has no size restriction for
histories without bulk MOVES.) -/
theorem ring_char_mixed_history (n : Nat) (hn : n + 1 < 2 ^ 32) (ops : List COp) (q' : List Byte)
    (outs : List COut) (hspec : runSpecC n [] ops = some (q', outs)) :
    ∃ t', runC (TRing.mk' 0 n) ops = some (t', outs) ∧ Abs t'.r t'.buf q' ∧
      t'.r.size.toNat = n + 1 ∧ acceptedAllC ops outs = deliveredAllC outs ++ q' := by
  have ha := (ring_ctor_resize_reset_bounds (0 : Byte) TRing.empty n hn).1
  obtain ⟨t', e, hs, h'⟩ := runC_refines ops ha.2.2 (by rw [ha.1]; simpa using hspec)
  have := specC_conserves n ops hspec
  exact ⟨t', e, h', by rw [hs, ha.1], by simpa using this⟩

example : (runSpecC 2 [] [.write [0xFF, 0x80, 0x00], .pop, .push 7, .read 5, .write [], .read 0]).isSome := by
  decide

/-! ## 23. round 3: `cyclic_buffer[i]` for every `int i` -/

/-- in a cyclic buffer of `n` samples (any state reached from the constructor /
`resize` by pushes: `CInv`), `cb[i]` stays inside the array IFF
`counter − i < n` — every `i ≥ 0`, and the negative `i > counter − n` — and for
those `i` it addresses the slot of `i mod n`: `cb[i] = cb[i mod n]`, so with
`cyclic_buffer_nth` the `(i mod n)`-th previous sample.  At `i = counter − n` the
access is `data[n]` (finding C03-cyclic-index-below-range; model witness
`ring_counter_beyond_witness`). -/
theorem cyclic_buffer_index_exact {α : Type} (c : Cyclic α) (n : Nat) (log : List α) (h : CInv c n log)
    (i : Int) :
    ((c.nth i).isSome = true ↔ c.counter.counter - i < n) ∧
    (c.counter.counter - i < n → c.nth i = c.nth (i % (n : Int))) := by
  obtain ⟨k, hk, hkn⟩ := h.cnt
  have hpos := h.pos
  have hs : 0 < c.counter.size := by rw [h.sz]; omega
  have hnn : (0 : Int) ≤ i % (n : Int) := Int.emod_nonneg _ (by omega)
  have hprev : ∀ j : Int, c.counter.counter - j < n →
      rcPrev c.counter j = (c.counter.counter - j) % (n : Int) := by
    intro j hlt
    have := rcPrev_eq c.counter hs j (by rw [h.sz]; exact hlt)
    rw [h.sz] at this; exact this
  constructor
  · constructor
    · intro hsome
      by_cases hlt : c.counter.counter - i < n
      · exact hlt
      · exfalso
        have e : rcPrev c.counter i = c.counter.counter - i := by
          unfold rcPrev
          have : (-(c.counter.counter - i)).toNat = 0 := by omega
          simp only [this, rcUp]
        unfold Cyclic.nth Cyclic.at? at hsome
        rw [e, if_neg (by omega)] at hsome
        rw [List.getElem?_eq_none (by rw [h.len]; omega)] at hsome
        simp at hsome
    · intro hlt
      unfold Cyclic.nth Cyclic.at?
      rw [hprev i hlt]
      have h1 := Int.emod_nonneg (c.counter.counter - i) (show (n : Int) ≠ 0 by omega)
      have h2 := Int.emod_lt_of_pos (c.counter.counter - i) (show (0 : Int) < n by omega)
      rw [if_neg (by omega)]
      have hl : ((c.counter.counter - i) % (n : Int)).toNat < c.data.length := by rw [h.len]; omega
      rw [List.getElem?_eq_getElem hl]; rfl
  · intro hlt
    have hlt2 : c.counter.counter - i % (n : Int) < n := by omega
    have key : (c.counter.counter - i) % (n : Int) = (c.counter.counter - i % (n : Int)) % (n : Int) := by
      rw [Int.sub_emod, Int.sub_emod c.counter.counter (i % (n : Int)) n,
        Int.emod_emod_of_dvd _ (Int.dvd_refl _)]
    unfold Cyclic.nth
    rw [hprev i hlt, hprev _ hlt2, key]

example : CInv (Cyclic.mk' (0 : Int) 3) 3 [] := cinv_mk' 0 3 (by decide)

/-! ## 24. round 3: cyclic_buffer in `int` arithmetic; `size_t` lengths of igris::ring::write -/

/-- in every state of a cyclic buffer of `n ≤ INT_MAX` samples the `int` arithmetic
of `push` (`ring_counter_increment(&counter, 1)`) never overflows and `operator[](i)`
never does for `0 ≤ i`: there the unbounded-integer model `Cyclic.push` / `Cyclic.nth`
(of `cyclic_buffer_nth`) IS the C arithmetic. -/
theorem cyclic_buffer_int_safe {α : Type} (c : Cyclic α) (n : Nat) (log : List α) (h : CInv c n log)
    (hn : n ≤ 2147483647) (i : Int) (hi : inInt i) :
    rcIncrementC c.counter 1 = some (rcIncrement c.counter 1) ∧
    (0 ≤ i → rcPrevC c.counter i = some (rcPrev c.counter i)) := by
  obtain ⟨k, hk, hkn⟩ := h.cnt
  have hpos := h.pos
  have hs : 0 < c.counter.size := by rw [h.sz]; omega
  have hsI : inInt c.counter.size := by rw [h.sz]; unfold inInt; omega
  obtain ⟨e1, -, -, -, -⟩ := ring_counter_int_exact c.counter hs hsI 1 (by decide)
  obtain ⟨-, e2, -, -, -⟩ := ring_counter_int_exact c.counter hs hsI i hi
  refine ⟨?_, fun h0 => ?_⟩
  · rw [e1, if_pos]; rw [hk]; unfold inInt; omega
  · rw [e2, if_pos]; rw [hk]; unfold inInt at hi ⊢; omega

/-- BEFORE the repair ab63e64 (round 3b; statement unchanged from round 3, now about
`writeCOrig`): `igris::ring<T>::write(buf, sz)` handed the `size_t sz` to an `unsigned int`
parameter: it was `ring_write` of the whole data for `sz < 2^32`; a request of
`2^32 + k` elements was served as a request of `k`. -/
theorem ring_typed_write_width_orig {α : Type} (t : TRing α) (d : List α) (k : Nat) :
    (d.length < 2 ^ 32 →
      t.writeCOrig d = (ringWrite t.r t.buf d).map fun (r', b', n) => (⟨r', b'⟩, n)) ∧
    (k < 2 ^ 32 → d.length = 2 ^ 32 + k →
      t.writeCOrig d = (ringWrite t.r t.buf (d.take k)).map fun (r', b', n) => (⟨r', b'⟩, n)) := by
  constructor
  · intro h
    unfold TRing.writeCOrig
    rw [Nat.mod_eq_of_lt h, List.take_of_length_le (Nat.le_refl _)]
  · intro hk hl
    unfold TRing.writeCOrig
    have : d.length % 2 ^ 32 = k := by omega
    rw [this]

/-- ring_typed_write_width (the code AFTER the repair ab63e64: `if (sz > r.size) sz = r.size;`):
`igris::ring<T>::write(buf, sz)` / `read(buf, sz)` for EVERY `size_t` request `sz`, also
`sz ≥ 2^32`: on a ring that stores `q`, a `write` whose source holds the elements `d`
(`|d| ≤ sz`: the request may be larger than what the loop ever looks at) is `ring_write`
of `d` — it accepts `min |d| room` elements and appends exactly them; a `read` of `sz`
is `ring_read` of `sz` — it delivers the `min sz |q|` oldest elements.  Generated with
requests of `2^32 + k` (`writebig` / `readbig`). -/
theorem ring_typed_write_width {α : Type} (t : TRing α) (q d : List α) (sz : Nat)
    (h : Abs t.r t.buf q) (hd : d.length ≤ sz) :
    t.writeC d sz = (ringWrite t.r t.buf d).map (fun (r', b', n) => (⟨r', b'⟩, n)) ∧
    ∃ t', t.writeC d sz = some (t', min d.length (t.r.size.toNat - 1 - q.length)) ∧
      Abs t'.r t'.buf (q ++ d.take (t.r.size.toNat - 1 - q.length)) := by
  have hl := h.2.2.1
  have hc := cnt_lt t.r h.1
  have e : ringWrite t.r t.buf (d.take (min sz t.r.size.toNat)) = ringWrite t.r t.buf d := by
    by_cases hs : d.length ≤ t.r.size.toNat
    · rw [List.take_of_length_le (by omega)]
    · exact writeAux_take d 0 _ h (by omega)
  have e' : t.writeC d sz = (ringWrite t.r t.buf d).map (fun (r', b', n) => (⟨r', b'⟩, n)) := by
    unfold TRing.writeC; rw [e]
  refine ⟨e', ?_⟩
  obtain ⟨r', b', ew, ha⟩ := abs_write d h
  exact ⟨⟨r', b'⟩, by rw [e', ew]; rfl, ha.2⟩

theorem ring_typed_read_width (t : TRing Byte) (q : List Byte) (sz : Nat) (h : Abs t.r t.buf q) :
    t.readC sz = ringRead t.r t.buf sz ∧
    ∃ r', t.readC sz = some (r', q.take sz) ∧ Abs r' t.buf (q.drop sz) := by
  have hl := h.2.2.1
  have hc := cnt_lt t.r h.1
  have e : t.readC sz = ringRead t.r t.buf sz := by
    unfold TRing.readC ringRead
    by_cases hs : sz ≤ t.r.size.toNat
    · rw [Nat.min_eq_left hs]
    · rw [Nat.min_eq_right (by omega)]
      exact readWith_past_end q [] _ _ h (by omega) (by omega)
  refine ⟨e, ?_⟩
  obtain ⟨r', er, ha⟩ := ring_read_delivers t.r t.buf q sz h
  exact ⟨r', by rw [e, er], ha⟩

example : Abs (TRing.mk' (0 : Byte) 3).r (TRing.mk' (0 : Byte) 3).buf [] := (TRing.mk'_abs 0 3 (by decide)).2.2

/-- the request `2^32 + 1` on `ring<char>(3)` holding 3 bytes: served as 1 before the
repair, completely now -/
theorem ring_typed_read_width_orig_witness :
    let t : TRing Byte := ⟨⟨3, 0, 4⟩, [1, 2, 3, 0]⟩
    (t.readCOrig (2 ^ 32 + 1)).map (·.2) = some [1] ∧ (t.readC (2 ^ 32 + 1)).map (·.2) = some [1, 2, 3] := by
  decide

example : inInt (0 : Int) := by decide

/-! ## 25. round 3: `get`, `head_place`, a moved-from ring brought back by `resize` -/

/-- `get(index)` / `head_place()` are plain subscripts of the array: element `i` of
the stored queue is `get((tail + i) mod size)`, `head_place()` is `get(head)`; and a
moved-from ring (no storage) becomes the freshly constructed `ring(n)` again by
`resize(n)`. -/
theorem ring_get_head_place_moved {α : Type} (dflt : α) (t : TRing α) (q : List α) (n : Nat)
    (h : Abs t.r t.buf q) :
    (∀ i (hi : i < q.length), t.get ((t.r.tail.toNat + i) % t.r.size.toNat) = some q[i]) ∧
    t.headPlace = t.get t.r.head.toNat ∧
    TRing.resize dflt t.move.2 n = TRing.mk' dflt n :=
  ⟨fun i hi => h.2.2.2 i hi, rfl, rfl⟩

/-! ## 26. round 3b: `emplace` with an aliasing argument (still reads a dead object: finding),
a throwing element constructor (repaired 6d59c1e) -/

/-- ring_emplace_alias_exact: `r.emplace(r.head_place())` (the argument aliases the
head slot; `emplace` has no aliasing test, `push` has one) on a ring whose slots
all hold living objects, in ANY fill state: indices and values end up exactly as
after `r.push(r.head_place())` (the slot keeps its value, the head moves on), every
slot holds a living object again, nothing is constructed over a living object and
no destructor runs on a dead slot — but the copy constructor has read the object
that `place->~T()` had just destroyed: EXACTLY ONE copy from a dead object.
Harmless for trivially destructible `T`, undefined behaviour otherwise (finding
`C03-emplace-alias-head-slot`). -/
theorem ring_emplace_alias_exact {α : Type} (v : VRing α) (g : VRing.Good v) :
    ∃ v', v.emplaceSelf = some v' ∧ v'.t.buf = v.t.buf ∧ v'.t.r = ringMoveHeadOne v.t.r ∧
      v'.live = List.replicate v'.t.buf.length true ∧
      v'.overLive = 0 ∧ v'.deadDtor = 0 ∧ v'.deadRead = 1 ∧
      v'.ctor = v.ctor + 1 ∧ v'.dtor = v.dtor + 1 := by
  obtain ⟨v', e, ht, h⟩ := VRing.emplaceSelf_good g
  exact ⟨v', e, by rw [ht]; rfl, by rw [ht]; rfl, h⟩

/-- `ring<T>(1); emplace(head_place()); ~ring`: 1 copy from a dead object; the same
script with `push(head_place())`: none -/
theorem ring_emplace_alias_witness :
    ((VRing.mk' (0 : Int) 1).emplaceSelf.map fun v => (v.destroy.overLive, v.destroy.deadDtor, v.destroy.deadRead)) =
      some (0, 0, 1) ∧
    ((VRing.mk' (0 : Int) 1).pushSelf.destroy.deadRead = 0) := by
  decide

/-- ring_push_throwing_copy_exact (the code AFTER the repair 6d59c1e: `try { new (place)
T(obj); } catch (...) { new (place) T(); throw; }`): exception safety of `push(obj)` /
`emplace(args)` when the element's constructor throws, on a ring whose slots all hold
living objects, in ANY fill state.
* STRONG guarantee for everything C03 speaks about: head, tail and size are what
  they were, and whatever queue the ring stored it still stores (`Abs` for the same
  `q`: avail, room, tail(), last(), get_last … all answer as before the call); the only
  slot written is the free head slot, which now holds `T()`.
* BASIC guarantee for the objects: every slot holds a living object again, no
  forbidden event, exactly one destructor and one constructor call.
`ring_lifetime_exactly_once` (§16) now quantifies over scripts that contain such
throwing pushes (`VOp.pushThrow`). -/
theorem ring_push_throwing_copy_exact {α : Type} (v : VRing α) (g : VRing.Good v) (d : α) :
    ∃ v', v.pushThrow d = some v' ∧ v'.t.r = v.t.r ∧
      (∀ i, i ≠ v.t.r.head.toNat → v'.t.buf[i]? = v.t.buf[i]?) ∧
      (∀ q, Abs v.t.r v.t.buf q → Abs v'.t.r v'.t.buf q) ∧
      v'.live = List.replicate v'.t.buf.length true ∧
      v'.overLive = 0 ∧ v'.deadDtor = 0 ∧ v'.deadRead = 0 ∧
      v'.ctor = v.ctor + 1 ∧ v'.dtor = v.dtor + 1 := by
  obtain ⟨v', e, g', hr, hb, hc, hd⟩ := VRing.pushThrow_good d g
  refine ⟨v', e, hr, ?_, ?_, g'.live, g'.over, g'.dead, g'.read, hc, hd⟩
  · intro i hi
    rw [hb, List.getElem?_set_ne (Ne.symm hi)]
  · intro q hq
    rw [hr, hb]
    exact abs_set_head d hq

example : VRing.Good (VRing.mk' (0 : Int) 2) := VRing.mk'_good 0 2 (by decide)

/-- what was wrong BEFORE 6d59c1e (`place->~T(); new (place) T(obj);` without a handler):
values and indices untouched (`v'.t = v.t`), but the head slot — and only it — was left
without a living object; scope exit then ran exactly one destructor on the dead slot
(one destructor call more than constructor calls), a retried `push(x)` ran that one
destructor on the dead slot before it stored `x`. -/
theorem ring_push_throwing_copy_orig {α : Type} (v : VRing α) (g : VRing.Good v) (x : α) :
    ∃ v', v.pushThrowOrig = some v' ∧ v'.t = v.t ∧
      (∀ i, v'.live.getD i false = (decide (i < v.t.buf.length) && decide (i ≠ v.t.r.head.toNat))) ∧
      v'.overLive = 0 ∧ v'.deadDtor = 0 ∧ v'.deadRead = 0 ∧
      v'.destroy.deadDtor = 1 ∧ v'.destroy.dtor = v'.destroy.ctor + 1 ∧
      ∃ v'', v'.push x = some v'' ∧ v.t.push x = some v''.t ∧ v''.deadDtor = 1 ∧ v''.overLive = 0 ∧
        v''.live = List.replicate v''.t.buf.length true := by
  obtain ⟨v', e, ht, hl, h1, h2, h3, -, -⟩ := VRing.pushThrowOrig_spec g
  obtain ⟨a1, a2, v'', e2, b1, b2, b3, b4⟩ := VRing.pushThrowOrig_after g e x
  refine ⟨v', e, ht, ?_, h1, h2, h3, a1, a2, v'', e2, b4, b1, b2, b3⟩
  intro i
  rw [hl, List.getD_eq_getElem?_getD, List.getElem?_set]
  by_cases hi : i < v.t.buf.length <;> by_cases hh : v.t.r.head.toNat = i <;>
    simp [hi, hh, List.getElem?_replicate, Ne.symm, eq_comm]

/-- `ring<T>(1); push(x) with a throwing T(x); ~ring`: (constructed over a living
object, destructor on a dead slot, constructor calls, destructor calls) was (0, 1, 2, 3),
is (0, 0, 3, 3) -/
theorem ring_push_throwing_copy_orig_witness :
    ((VRing.mk' (0 : Int) 1).pushThrowOrig.map fun v =>
      (v.destroy.overLive, v.destroy.deadDtor, v.destroy.ctor, v.destroy.dtor)) = some (0, 1, 2, 3) ∧
    (((VRing.mk' (0 : Int) 1).pushThrow 0).map fun v =>
      (v.destroy.overLive, v.destroy.deadDtor, v.destroy.ctor, v.destroy.dtor)) = some (0, 0, 3, 3) := by
  decide

/-! ## 27. round 3b: `unbounded_array::fill / clear / begin / end / operator=` -/

/-- unbounded_array_fill: on an array of ANY size whose slots all hold living objects,
`fill(val)` — the range-for from `begin()` to `end()` — terminates within `size()`
steps, never stores outside the array, assigns to living objects only, constructs
and destroys nothing, and leaves exactly `size()` copies of `val`;
`end() − begin() = size()`. -/
theorem unbounded_array_fill {α : Type} (a : UArr α) (g : UArr.Good a) (val : α) :
    ∃ a', a.fill val = some a' ∧ a'.data = List.replicate a.data.length val ∧
      a'.live = List.replicate a.data.length true ∧ a'.deadAssign = 0 ∧ a'.deadDtor = 0 ∧
      a'.ctor = a.ctor ∧ a'.dtor = a.dtor ∧ a.iterEnd - a.iterBegin = a.data.length := by
  obtain ⟨a', e, ga, hd, hc, hdt⟩ := UArr.fillLoop_spec val a.data.length 0 a g (Nat.zero_le _) (Nat.le_refl _)
  have hd' : a'.data = List.replicate a.data.length val := by simpa using hd
  refine ⟨a', e, hd', ?_, ga.asg, ga.dead, hc, hdt, rfl⟩
  rw [ga.live, hd', List.length_replicate]

example : UArr.Good (UArr.mk' (0 : Int) 3) := UArr.mk'_good 0 3

/-- unbounded_array_clear_assign: `clear()` destroys every element exactly once and
leaves an empty array whose destructor has nothing left to destroy; `x = x`
(self-assignment) is the identity — no element touched; `x = y` leaves exactly the
elements of `y`, every old element destroyed once, every new one constructed once,
the ledger balanced again; `resize(n)` likewise with `n` value-initialised elements. -/
theorem unbounded_array_clear_assign {α : Type} (dflt : α) (a : UArr α) (g : UArr.Good a) (s : List α) (n : Nat) :
    (a.clear.data = [] ∧ a.clear.dtor = a.dtor + a.data.length ∧ a.clear.deadDtor = 0 ∧
      a.clear.ctor = a.clear.dtor ∧ a.clear.invalidate = a.clear) ∧
    a.assign none = a ∧
    ((a.assign (some s)).data = s ∧ UArr.Good (a.assign (some s)) ∧
      (a.assign (some s)).dtor = a.dtor + a.data.length ∧ (a.assign (some s)).ctor = a.ctor + s.length) ∧
    ((a.resize dflt n).data = List.replicate n dflt ∧ UArr.Good (a.resize dflt n)) := by
  obtain ⟨h1, h2, h3, g'⟩ := UArr.invalidate_good g
  have hl : a.live.length = a.data.length := by rw [g.live, List.length_replicate]
  refine ⟨⟨rfl, ?_, h2, h3, ?_⟩, rfl, ⟨rfl, ?_, ?_, rfl⟩, rfl, ?_⟩
  · simp only [UArr.clear, UArr.invalidate, hl]
  · simp [UArr.clear, UArr.invalidate, LRing.deadCount]
  · refine ⟨rfl, h2, g.asg, ?_⟩
    simp only [UArr.assign, UArr.invalidate, hl]; have := g.bal; omega
  · simp only [UArr.assign, UArr.invalidate, hl]
  · refine ⟨by simp [UArr.resize], h2, g.asg, ?_⟩
    simp only [UArr.resize, UArr.invalidate, hl, List.length_replicate]; have := g.bal; omega

end Igris.C03
