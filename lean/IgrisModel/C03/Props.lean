import IgrisModel.C03.Lemmas
namespace Igris.C03
theorem placeholder : True := trivial
end Igris.C03
