/-
  C03 — helper definitions and lemmas.

  Layer 1: the `BitVec 32` functions of ring.h characterised in `Nat` under the
           index invariant `WF`.
  Layer 2: the abstraction relation `Abs r buf q` ("the ring `r` over buffer
           `buf` stores exactly the queue `q`") and its preservation by every
           operation.
-/
import IgrisModel.C03.Model
namespace Igris.C03
open Igris.Proto

/-! ### invariant, element count -/

/-- the index invariant of the property: `head, tail ∈ [0, size)` -/
def RingHead.WF (r : RingHead) : Prop :=
  r.head.toNat < r.size.toNat ∧ r.tail.toNat < r.size.toNat

instance (r : RingHead) : Decidable r.WF := by unfold RingHead.WF; exact inferInstance

/-- `(H − T) mod S` for `H, T < S`, written without `%` -/
def cntN (S H T : Nat) : Nat := if T ≤ H then H - T else S + H - T

/-- number of stored elements, in `Nat`: `(head − tail) mod size` -/
def RingHead.cnt (r : RingHead) : Nat := cntN r.size.toNat r.head.toNat r.tail.toNat

/-- successor of a slot index -/
def nextIdx (S x : Nat) : Nat := if x + 1 = S then 0 else x + 1

theorem mod_wrap {S x : Nat} (h : x < 2 * S) : x % S = if x < S then x else x - S := by
  split
  · exact Nat.mod_eq_of_lt ‹_›
  · rw [Nat.mod_eq_sub_mod (by omega), Nat.mod_eq_of_lt (by omega)]

theorem nextIdx_eq_mod {S x : Nat} (h : x < S) : nextIdx S x = (x + 1) % S := by
  rw [mod_wrap (by omega)]; unfold nextIdx; split <;> split <;> omega

theorem cnt_eq_mod (r : RingHead) (h : r.WF) :
    r.cnt = (r.head.toNat + r.size.toNat - r.tail.toNat) % r.size.toNat := by
  obtain ⟨h1, h2⟩ := h
  rw [mod_wrap (by omega)]; unfold RingHead.cnt cntN; split <;> split <;> omega

/-! ### layer 1 -/

@[simp] theorem moveHeadOne_tail (r : RingHead) : (ringMoveHeadOne r).tail = r.tail := rfl
@[simp] theorem moveHeadOne_size (r : RingHead) : (ringMoveHeadOne r).size = r.size := rfl
@[simp] theorem moveTailOne_head (r : RingHead) : (ringMoveTailOne r).head = r.head := rfl
@[simp] theorem moveTailOne_size (r : RingHead) : (ringMoveTailOne r).size = r.size := rfl
@[simp] theorem moveHead_tail (r : RingHead) (b : U32) : (ringMoveHead r b).tail = r.tail := rfl
@[simp] theorem moveHead_size (r : RingHead) (b : U32) : (ringMoveHead r b).size = r.size := rfl
@[simp] theorem moveTail_head (r : RingHead) (b : U32) : (ringMoveTail r b).head = r.head := rfl
@[simp] theorem moveTail_size (r : RingHead) (b : U32) : (ringMoveTail r b).size = r.size := rfl

theorem moveHeadOne_head (r : RingHead) (h : r.head.toNat < r.size.toNat) :
    (ringMoveHeadOne r).head.toNat = nextIdx r.size.toNat r.head.toNat := by
  unfold ringMoveHeadOne nextIdx
  simp only [beq_iff_eq]
  split <;> split <;> bv_omega

theorem moveTailOne_tail (r : RingHead) (h : r.tail.toNat < r.size.toNat) :
    (ringMoveTailOne r).tail.toNat = nextIdx r.size.toNat r.tail.toNat := by
  unfold ringMoveTailOne nextIdx
  simp only [beq_iff_eq]
  split <;> split <;> bv_omega

theorem empty_iff (r : RingHead) : ringEmpty r = true ↔ r.head.toNat = r.tail.toNat := by
  unfold ringEmpty
  simp only [beq_iff_eq]
  constructor <;> intro h <;> bv_omega

theorem full_iff (r : RingHead) (h : r.WF) :
    ringFull r = true ↔ nextIdx r.size.toNat r.head.toNat = r.tail.toNat := by
  obtain ⟨h1, h2⟩ := h
  unfold ringFull nextIdx
  simp only [beq_iff_eq]
  split <;> split <;> constructor <;> intro h <;> bv_omega

theorem avail_toNat (r : RingHead) (h : r.WF) : (ringAvail r).toNat = r.cnt := by
  obtain ⟨h1, h2⟩ := h
  unfold ringAvail RingHead.cnt cntN
  split <;> split <;> bv_omega

theorem room_toNat (r : RingHead) (h : r.WF) :
    (ringRoom r).toNat = r.size.toNat - 1 - r.cnt := by
  obtain ⟨h1, h2⟩ := h
  unfold ringRoom RingHead.cnt cntN
  split <;> split <;> bv_omega

theorem empty_iff_cnt (r : RingHead) (h : r.WF) : ringEmpty r = true ↔ r.cnt = 0 := by
  rw [empty_iff]; obtain ⟨h1, h2⟩ := h; unfold RingHead.cnt cntN; split <;> omega

theorem full_iff_cnt (r : RingHead) (h : r.WF) :
    ringFull r = true ↔ r.cnt = r.size.toNat - 1 := by
  rw [full_iff r h]; obtain ⟨h1, h2⟩ := h; unfold RingHead.cnt cntN nextIdx; split <;> split <;> omega

theorem cnt_lt (r : RingHead) (h : r.WF) : r.cnt < r.size.toNat := by
  obtain ⟨h1, h2⟩ := h; unfold RingHead.cnt cntN; split <;> omega

/-- the `while (x >= size) x -= size;` loop computes `x mod size` (fuel `x` suffices) -/
theorem fixupLoop_toNat (size : U32) (hs : 0 < size.toNat) :
    ∀ (fuel : Nat) (x : U32), x.toNat ≤ fuel →
      (fixupLoop size fuel x).toNat = x.toNat % size.toNat
  | 0, x, h => by
      have h0 : x.toNat = 0 := by omega
      simp [fixupLoop, h0]
  | fuel + 1, x, h => by
      unfold fixupLoop
      split
      · have hle : size.toNat ≤ x.toNat := by bv_omega
        have e : (x - size).toNat = x.toNat - size.toNat := by bv_omega
        rw [fixupLoop_toNat size hs fuel (x - size) (by omega), e, ← Nat.mod_eq_sub_mod hle]
      · have hlt : x.toNat < size.toNat := by bv_omega
        rw [Nat.mod_eq_of_lt hlt]

theorem moveHead_head (r : RingHead) (hs : 0 < r.size.toNat) (b : U32) :
    (ringMoveHead r b).head.toNat = ((r.head.toNat + b.toNat) % 2 ^ 32) % r.size.toNat := by
  unfold ringMoveHead ringFixupHead
  simp only
  rw [fixupLoop_toNat r.size hs _ _ (Nat.le_refl _), BitVec.toNat_add]

theorem moveTail_tail (r : RingHead) (hs : 0 < r.size.toNat) (b : U32) :
    (ringMoveTail r b).tail.toNat = ((r.tail.toNat + b.toNat) % 2 ^ 32) % r.size.toNat := by
  unfold ringMoveTail ringFixupTail
  simp only
  rw [fixupLoop_toNat r.size hs _ _ (Nat.le_refl _), BitVec.toNat_add]


/-! ### slot arithmetic in `Nat` -/

theorem cntN_lt {S H T : Nat} (h1 : H < S) (h2 : T < S) : cntN S H T < S := by
  unfold cntN; grind

theorem cntN_next_head {S H T : Nat} (h1 : H < S) (h2 : T < S) (hr : cntN S H T < S - 1) :
    cntN S (nextIdx S H) T = cntN S H T + 1 := by
  unfold cntN nextIdx at *; grind

theorem cntN_next_tail {S H T : Nat} (_h1 : H < S) (h2 : T < S) (hr : 0 < cntN S H T) :
    cntN S H (nextIdx S T) = cntN S H T - 1 := by
  unfold cntN nextIdx at *; grind

theorem nextIdx_lt {S x : Nat} (h : x < S) : nextIdx S x < S := by
  unfold nextIdx; grind

theorem slot_ne_head {S H T i : Nat} (h1 : H < S) (h2 : T < S) (hi : i < cntN S H T) :
    (T + i) % S ≠ H := by
  have : i < S := by unfold cntN at hi; grind
  rw [mod_wrap (by omega)]; unfold cntN at hi; grind

theorem slot_cnt_head {S H T : Nat} (h1 : H < S) (h2 : T < S) :
    (T + cntN S H T) % S = H := by
  have : cntN S H T < S := cntN_lt h1 h2
  rw [mod_wrap (by omega)]; unfold cntN at *; grind

theorem slot_next_tail {S T i : Nat} (h2 : T < S) (hi : i + 1 < S) :
    (nextIdx S T + i) % S = (T + (i + 1)) % S := by
  rw [mod_wrap (by unfold nextIdx; grind), mod_wrap (by omega)]; unfold nextIdx; grind

/-- bulk move of the head by `n ≤ room` -/
theorem cntN_add_head {S H T n : Nat} (h1 : H < S) (h2 : T < S) (hn : n ≤ S - 1 - cntN S H T) :
    cntN S ((H + n) % S) T = cntN S H T + n := by
  rw [mod_wrap (by omega)]; unfold cntN at *; grind

theorem cntN_add_tail {S H T n : Nat} (h1 : H < S) (h2 : T < S) (hn : n ≤ cntN S H T) :
    cntN S H ((T + n) % S) = cntN S H T - n := by
  have : cntN S H T < S := cntN_lt h1 h2
  rw [mod_wrap (by omega)]; unfold cntN at *; grind

theorem slot_free {S H T i j : Nat} (h1 : H < S) (h2 : T < S) (hi : i < cntN S H T)
    (hj : j < S - 1 - cntN S H T) : (T + i) % S ≠ (H + j) % S := by
  have : cntN S H T < S := cntN_lt h1 h2
  rw [mod_wrap (by omega), mod_wrap (by omega)]; unfold cntN at *; grind

theorem slot_cnt_add {S H T j : Nat} (h1 : H < S) (h2 : T < S) (hj : j < S - cntN S H T) :
    (T + (cntN S H T + j)) % S = (H + j) % S := by
  have : cntN S H T < S := cntN_lt h1 h2
  rw [mod_wrap (by omega), mod_wrap (by omega)]; unfold cntN at *; grind

theorem slot_add_tail {S T n i : Nat} (h2 : T < S) (hn : n < S) (hi : n + i < S) :
    ((T + n) % S + i) % S = (T + (n + i)) % S := by
  rw [mod_wrap (x := T + n) (by omega)]
  split
  · rw [show T + n + i = T + (n + i) by omega]
  · rw [mod_wrap (by omega), mod_wrap (by omega)]; grind

theorem slot_inj {S p i j : Nat} (hS : 0 < S) (hi : i < S) (hj : j < S) (hne : i ≠ j) :
    (p + i) % S ≠ (p + j) % S := by
  have hp : p % S < S := Nat.mod_lt _ hS
  rw [Nat.add_mod p i, Nat.add_mod p j, Nat.mod_eq_of_lt hi, Nat.mod_eq_of_lt hj]
  generalize p % S = a at hp ⊢
  rw [mod_wrap (by omega), mod_wrap (by omega)]
  grind

/-! ### layer 2: abstraction relation -/

/-- `Abs r buf q`: the ring described by `r` over the buffer `buf` stores exactly
the queue `q` (oldest first): the index invariant holds, the buffer covers
`size` slots, `q` has `(head − tail) mod size` elements and element `i` sits
in slot `(tail + i) mod size`. -/
def Abs {α : Type} (r : RingHead) (buf : List α) (q : List α) : Prop :=
  r.WF ∧ r.size.toNat ≤ buf.length ∧ q.length = r.cnt ∧
  ∀ i (h : i < q.length), buf[(r.tail.toNat + i) % r.size.toNat]? = some q[i]

section
variable {α : Type}

theorem abs_init (size : U32) (buf : List α) (hs : 0 < size.toNat) (hb : size.toNat ≤ buf.length) :
    Abs (ringInit size) buf [] := by
  refine ⟨⟨?_, ?_⟩, hb, ?_, ?_⟩ <;> simp [ringInit, RingHead.cnt, cntN, hs]

theorem abs_clean {r : RingHead} {buf q : List α} (h : Abs r buf q) : Abs (ringClean r) buf [] := by
  obtain ⟨⟨h1, h2⟩, hb, -, -⟩ := h
  refine ⟨⟨?_, ?_⟩, hb, ?_, ?_⟩ <;> simp [ringClean, RingHead.cnt, cntN] <;> omega

theorem abs_not_full {r : RingHead} {buf q : List α} (h : Abs r buf q)
    (hroom : q.length < r.size.toNat - 1) : ringFull r = false := by
  obtain ⟨wf, -, hl, -⟩ := h
  cases e : ringFull r
  · rfl
  · rw [full_iff_cnt r wf] at e; omega

theorem abs_full {r : RingHead} {buf q : List α} (h : Abs r buf q)
    (hfull : q.length = r.size.toNat - 1) : ringFull r = true := by
  obtain ⟨wf, -, hl, -⟩ := h
  rw [full_iff_cnt r wf]; omega

/-- publishing one slot: whatever value sits in slot `head` joins the queue -/
theorem abs_moveHeadOne {r : RingHead} {buf q : List α} {c : α} (h : Abs r buf q)
    (hroom : q.length < r.size.toNat - 1) (hc : buf[r.head.toNat]? = some c) :
    Abs (ringMoveHeadOne r) buf (q ++ [c]) := by
  obtain ⟨⟨h1, h2⟩, hb, hl, hq⟩ := h
  have hH := moveHeadOne_head r h1
  unfold RingHead.cnt at hl
  refine ⟨⟨?_, by simpa using h2⟩, by simpa using hb, ?_, ?_⟩
  · rw [hH]; exact nextIdx_lt h1
  · simp only [List.length_append, List.length_singleton, hl, RingHead.cnt, hH,
      moveHeadOne_tail, moveHeadOne_size]
    rw [cntN_next_head h1 h2 (by omega)]
  · intro i hi
    simp only [moveHeadOne_tail, moveHeadOne_size]
    simp only [List.length_append, List.length_singleton] at hi
    by_cases hlt : i < q.length
    · rw [hq i hlt, List.getElem_append_left hlt]
    · have hie : i = q.length := by omega
      have e : (r.tail.toNat + i) % r.size.toNat = r.head.toNat := by
        rw [hie, hl]; exact slot_cnt_head h1 h2
      rw [e, hc, List.getElem_append_right (by omega)]
      simp

theorem abs_set_head {r : RingHead} {buf q : List α} (c : α) (h : Abs r buf q) :
    Abs r (buf.set r.head.toNat c) q := by
  obtain ⟨⟨h1, h2⟩, hb, hl, hq⟩ := h
  refine ⟨⟨h1, h2⟩, by simpa using hb, hl, ?_⟩
  intro i hi
  have hne : r.head.toNat ≠ (r.tail.toNat + i) % r.size.toNat :=
    fun e => slot_ne_head h1 h2 (by unfold RingHead.cnt at hl; omega) e.symm
  rw [List.getElem?_set_ne hne, hq i hi]

theorem abs_putc {r : RingHead} {buf q : List α} (c : α) (h : Abs r buf q)
    (hroom : q.length < r.size.toNat - 1) :
    ringPutc r buf c = some (ringMoveHeadOne r, buf.set r.head.toNat c, 1) ∧
    Abs (ringMoveHeadOne r) (buf.set r.head.toNat c) (q ++ [c]) := by
  have hnf := abs_not_full h hroom
  have hlen : r.head.toNat < buf.length := by
    obtain ⟨⟨h1, h2⟩, hb, -, -⟩ := h; omega
  constructor
  · simp [ringPutc, hnf, poke, hlen]
  · exact abs_moveHeadOne (abs_set_head c h) hroom (List.getElem?_set_self hlen)

theorem abs_putc_full {r : RingHead} {buf q : List α} (c : α) (h : Abs r buf q)
    (hfull : q.length = r.size.toNat - 1) : ringPutc r buf c = some (r, buf, 0) := by
  simp [ringPutc, abs_full h hfull]

/-- releasing one slot -/
theorem abs_moveTailOne {r : RingHead} {buf : List α} {x : α} {q : List α} (h : Abs r buf (x :: q)) :
    buf[r.tail.toNat]? = some x ∧ Abs (ringMoveTailOne r) buf q := by
  obtain ⟨⟨h1, h2⟩, hb, hl, hq⟩ := h
  have hT := moveTailOne_tail r h2
  unfold RingHead.cnt at hl
  simp only [List.length_cons] at hl
  have hlt := cntN_lt h1 h2
  constructor
  · have := hq 0 (by simp)
    simpa [Nat.mod_eq_of_lt h2] using this
  · refine ⟨⟨by simpa using h1, ?_⟩, by simpa using hb, ?_, ?_⟩
    · rw [hT]; exact nextIdx_lt h2
    · simp only [RingHead.cnt, hT, moveTailOne_head, moveTailOne_size]
      rw [cntN_next_tail h1 h2 (by omega)]; omega
    · intro i hi
      simp only [hT, moveTailOne_size]
      rw [slot_next_tail h2 (by omega)]
      have := hq (i + 1) (by simp; omega)
      simpa using this

/-- releasing one slot and storing a fresh value in it (repaired `igris::ring::pop`):
the released slot is none of the slots that still hold the queue -/
theorem abs_pop_set {r : RingHead} {buf : List α} {x : α} {q : List α} (d : α)
    (h : Abs r buf (x :: q)) : Abs (ringMoveTailOne r) (buf.set r.tail.toNat d) q := by
  obtain ⟨-, wf', hb', hl', hq'⟩ := abs_moveTailOne h
  obtain ⟨⟨h1, h2⟩, hb, hl, hq⟩ := h
  refine ⟨wf', by simpa using hb', hl', ?_⟩
  intro i hi
  have hT := moveTailOne_tail r h2
  unfold RingHead.cnt at hl
  simp only [List.length_cons] at hl
  have hlt := cntN_lt h1 h2
  have key : r.tail.toNat ≠ ((ringMoveTailOne r).tail.toNat + i) % (ringMoveTailOne r).size.toNat := by
    simp only [hT, moveTailOne_size]
    rw [slot_next_tail h2 (by omega)]
    have := slot_inj (p := r.tail.toNat) (S := r.size.toNat) (i := 0) (j := i + 1)
      (by omega) (by omega) (by omega) (by omega)
    rw [Nat.add_zero, Nat.mod_eq_of_lt h2] at this
    exact this
  rw [List.getElem?_set_ne key]
  exact hq' i hi

theorem abs_nonempty {r : RingHead} {buf q : List α} (h : Abs r buf q) (hq : q ≠ []) :
    ringEmpty r = false := by
  obtain ⟨wf, -, hl, -⟩ := h
  cases e : ringEmpty r
  · rfl
  · rw [empty_iff_cnt r wf] at e
    have : q.length ≠ 0 := by simpa using hq
    omega

theorem abs_empty {r : RingHead} {buf : List α} (h : Abs r buf []) : ringEmpty r = true := by
  obtain ⟨wf, -, hl, -⟩ := h
  rw [empty_iff_cnt r wf]; simpa using hl.symm

end

theorem abs_getc {r : RingHead} {buf : List Byte} {x : Byte} {q : List Byte} (h : Abs r buf (x :: q)) :
    ringGetc r buf = some (ringMoveTailOne r, (x.toNat : Int)) ∧ Abs (ringMoveTailOne r) buf q := by
  obtain ⟨hx, ha⟩ := abs_moveTailOne h
  refine ⟨?_, ha⟩
  simp [ringGetc, ringGetcWith, abs_nonempty h (by simp), hx]

theorem abs_getc_empty {r : RingHead} {buf : List Byte} (h : Abs r buf []) :
    ringGetc r buf = some (r, -1) := by
  simp [ringGetc, ringGetcWith, abs_empty h]


/-! ### the loops `ring_write` / `ring_read` -/

theorem abs_writeAux {α : Type} : ∀ (d : List α) {r : RingHead} {buf q : List α} (ret : Nat),
    Abs r buf q →
    ∃ r' buf', ringWriteAux d r buf ret =
        some (r', buf', ret + min d.length (r.size.toNat - 1 - q.length)) ∧
      r'.size = r.size ∧
      Abs r' buf' (q ++ d.take (r.size.toNat - 1 - q.length))
  | [], r, buf, q, ret, h => ⟨r, buf, by simp [ringWriteAux], rfl, by simpa using h⟩
  | c :: rest, r, buf, q, ret, h => by
      by_cases hroom : q.length < r.size.toNat - 1
      · obtain ⟨e, ha⟩ := abs_putc c h hroom
        obtain ⟨r', buf', e', hs, ha'⟩ := abs_writeAux rest (ret + 1) ha
        have hstep : ringWriteAux (c :: rest) r buf ret =
            ringWriteAux rest (ringMoveHeadOne r) (buf.set r.head.toNat c) (ret + 1) := by
          simp [ringWriteAux, e]
        refine ⟨r', buf', ?_, by simpa using hs, ?_⟩
        · rw [hstep, e']
          have : ret + 1 + min rest.length ((ringMoveHeadOne r).size.toNat - 1 - (q ++ [c]).length) =
              ret + min (c :: rest).length (r.size.toNat - 1 - q.length) := by
            simp only [moveHeadOne_size, List.length_append, List.length_cons, List.length_nil]
            omega
          rw [this]
        · have hk : r.size.toNat - 1 - q.length =
              ((ringMoveHeadOne r).size.toNat - 1 - (q ++ [c]).length) + 1 := by
            simp only [moveHeadOne_size, List.length_append, List.length_cons, List.length_nil]
            omega
          rw [hk, List.take_succ_cons]
          simpa using ha'
      · have hl := h.2.2.1
        have := cnt_lt r h.1
        have hfull : q.length = r.size.toNat - 1 := by omega
        refine ⟨r, buf, ?_, rfl, ?_⟩
        · simp [ringWriteAux, abs_putc_full c h hfull, hfull]
        · simpa [hfull] using h

theorem abs_write {α : Type} {r : RingHead} {buf q : List α} (d : List α) (h : Abs r buf q) :
    ∃ r' buf', ringWrite r buf d = some (r', buf', min d.length (r.size.toNat - 1 - q.length)) ∧
      r'.size = r.size ∧ Abs r' buf' (q ++ d.take (r.size.toNat - 1 - q.length)) := by
  simpa [ringWrite] using abs_writeAux d 0 h

theorem ofInt8_toNat (x : Byte) : BitVec.ofInt 8 (x.toNat : Int) = x := by
  apply BitVec.eq_of_toNat_eq
  simp

theorem abs_readWith : ∀ (n : Nat) {r : RingHead} {buf q : List Byte} (acc : List Byte),
    Abs r buf q →
    ∃ r', ringReadWith ringGetc buf n r acc = some (r', acc ++ q.take n) ∧
      r'.size = r.size ∧ Abs r' buf (q.drop n)
  | 0, r, buf, q, acc, h => ⟨r, by simp [ringReadWith], rfl, by simpa using h⟩
  | n + 1, r, buf, q, acc, h => by
      cases q with
      | nil => exact ⟨r, by simp [ringReadWith, abs_getc_empty h], rfl, by simpa using h⟩
      | cons x q =>
        obtain ⟨e, ha⟩ := abs_getc h
        obtain ⟨r', e', hs, ha'⟩ := abs_readWith n (acc ++ [x]) ha
        refine ⟨r', ?_, by simpa using hs, by simpa using ha'⟩
        have hne : ((x.toNat : Int) == -1) = false := by
          have : (x.toNat : Int) ≠ -1 := by omega
          simpa using this
        simp only [ringReadWith, e, hne, ofInt8_toNat, e']
        simp

theorem abs_read {r : RingHead} {buf q : List Byte} (n : Nat) (h : Abs r buf q) :
    ∃ r', ringRead r buf n = some (r', q.take n) ∧ r'.size = r.size ∧ Abs r' buf (q.drop n) := by
  simpa [ringRead] using abs_readWith n [] h


/-! ### bulk moves -/

section
variable {α : Type}

theorem ofNat32_toNat {n S : Nat} (hn : n < S) (hS : S ≤ 2 ^ 31) : (BitVec.ofNat 32 n).toNat = n := by
  simp only [BitVec.toNat_ofNat]; omega

/-- `ring_move_head(n)` with `n ≤ room`: the `n` slots after `head` join the queue -/
theorem abs_moveHead {r : RingHead} {buf q : List α} (d : List α) (h : Abs r buf q)
    (hS : r.size.toNat ≤ 2 ^ 31) (hn : d.length ≤ r.size.toNat - 1 - q.length)
    (hd : ∀ j (hj : j < d.length), buf[(r.head.toNat + j) % r.size.toNat]? = some d[j]) :
    Abs (ringMoveHead r (BitVec.ofNat 32 d.length)) buf (q ++ d) := by
  obtain ⟨⟨h1, h2⟩, hb, hl, hq⟩ := h
  unfold RingHead.cnt at hl
  have hN : (BitVec.ofNat 32 d.length).toNat = d.length := ofNat32_toNat (S := r.size.toNat) (by omega) hS
  have hH : (ringMoveHead r (BitVec.ofNat 32 d.length)).head.toNat =
      (r.head.toNat + d.length) % r.size.toNat := by
    rw [moveHead_head r (by omega), hN, Nat.mod_eq_of_lt (a := r.head.toNat + d.length) (by omega)]
  refine ⟨⟨?_, by simpa using h2⟩, by simpa using hb, ?_, ?_⟩
  · rw [hH]; exact Nat.mod_lt _ (by omega)
  · simp only [List.length_append, RingHead.cnt, hH, moveHead_tail, moveHead_size]
    rw [cntN_add_head h1 h2 (by omega)]; omega
  · intro i hi
    simp only [moveHead_tail, moveHead_size]
    simp only [List.length_append] at hi
    by_cases hlt : i < q.length
    · rw [hq i hlt, List.getElem_append_left hlt]
    · have hj : i - q.length < d.length := by omega
      have e : (r.tail.toNat + i) % r.size.toNat = (r.head.toNat + (i - q.length)) % r.size.toNat := by
        have : i = cntN r.size.toNat r.head.toNat r.tail.toNat + (i - q.length) := by omega
        rw [this, slot_cnt_add h1 h2 (by omega)]
        congr 2; omega
      rw [e, hd _ hj, List.getElem_append_right (by omega)]

/-- `ring_move_tail(n)` with `n ≤ avail`: the `n` oldest elements leave the queue -/
theorem abs_moveTail {r : RingHead} {buf q : List α} (n : Nat) (h : Abs r buf q)
    (hS : r.size.toNat ≤ 2 ^ 31) (hn : n ≤ q.length) :
    Abs (ringMoveTail r (BitVec.ofNat 32 n)) buf (q.drop n) := by
  obtain ⟨⟨h1, h2⟩, hb, hl, hq⟩ := h
  unfold RingHead.cnt at hl
  have hlt := cntN_lt h1 h2
  have hN : (BitVec.ofNat 32 n).toNat = n := ofNat32_toNat (S := r.size.toNat) (by omega) hS
  have hT : (ringMoveTail r (BitVec.ofNat 32 n)).tail.toNat = (r.tail.toNat + n) % r.size.toNat := by
    rw [moveTail_tail r (by omega), hN, Nat.mod_eq_of_lt (a := r.tail.toNat + n) (by omega)]
  refine ⟨⟨by simpa using h1, ?_⟩, by simpa using hb, ?_, ?_⟩
  · rw [hT]; exact Nat.mod_lt _ (by omega)
  · simp only [List.length_drop, RingHead.cnt, hT, moveTail_head, moveTail_size]
    rw [cntN_add_tail h1 h2 (by omega)]; omega
  · intro i hi
    simp only [List.length_drop] at hi
    simp only [hT, moveTail_size]
    rw [slot_add_tail h2 (by omega) (by omega), hq (n + i) (by omega)]
    simp

/-- user-side fill of `d.length ≤ size` consecutive slots starting at `p` -/
theorem directFill_spec : ∀ (d : List α) (buf : List α) (S p : Nat), 0 < S → S ≤ buf.length →
    d.length ≤ S →
    ∃ buf', directFill buf S p d = some buf' ∧ buf'.length = buf.length ∧
      (∀ j (hj : j < d.length), buf'[(p + j) % S]? = some d[j]) ∧
      (∀ k, (∀ j, j < d.length → k ≠ (p + j) % S) → buf'[k]? = buf[k]?)
  | [], buf, S, p, _, _, _ => ⟨buf, rfl, rfl, by simp, by simp⟩
  | c :: rest, buf, S, p, hS, hb, hd => by
      have hp : p % S < buf.length := Nat.lt_of_lt_of_le (Nat.mod_lt _ hS) hb
      simp only [List.length_cons] at hd
      obtain ⟨buf', e, hlen, hw, hf⟩ :=
        directFill_spec rest (buf.set (p % S) c) S (p + 1) hS (by simpa using hb) (by omega)
      refine ⟨buf', by simp [directFill, poke, hp, e], by simpa using hlen, ?_, ?_⟩
      · intro j hj
        cases j with
        | zero =>
          have := hf (p % S) (fun j hj' => by
            have := slot_inj (p := p) hS (i := 0) (j := j + 1) (by omega) (by omega) (by omega)
            rw [show p + 1 + j = p + (j + 1) by omega]
            simpa using this)
          simp only [Nat.add_zero, this, List.getElem_cons_zero]
          exact List.getElem?_set_self hp
        | succ j =>
          have := hw j (by simpa using hj)
          rw [show p + 1 + j = p + (j + 1) by omega] at this
          simpa using this
      · intro k hk
        rw [hf k (fun j hj => by
          have := hk (j + 1) (by simp; omega)
          rwa [show p + (j + 1) = p + 1 + j by omega] at this)]
        exact List.getElem?_set_ne (by have := hk 0 (by simp); simpa using this.symm)

theorem directPeek_spec : ∀ (n : Nat) (buf : List α) (S p : Nat) (l : List α), l.length = n →
    (∀ j (hj : j < l.length), buf[(p + j) % S]? = some l[j]) → directPeek buf S p n = some l
  | 0, buf, S, p, l, hl, _ => by
      have : l = [] := List.eq_nil_of_length_eq_zero hl
      simp [directPeek, this]
  | n + 1, buf, S, p, l, hl, h => by
      cases l with
      | nil => simp at hl
      | cons x l =>
        have h0 := h 0 (by simp)
        simp only [Nat.add_zero, List.getElem_cons_zero] at h0
        have ih := directPeek_spec n buf S (p + 1) l (by simpa using hl) (fun j hj => by
          have := h (j + 1) (by simpa using hj)
          rw [show p + (j + 1) = p + 1 + j by omega] at this
          simpa using this)
        simp [directPeek, h0, ih]

end

/-! ### reference FIFO and refinement of every operation -/

/-- The reference: a bounded FIFO queue of bytes with capacity `cap`.  `none`
means that the operation is outside the producer/consumer contract of the bulk
moves (publishing more slots than are free, releasing more than are stored, or
a bare head move, which publishes slots the reference never saw). -/
def specStep (cap : Nat) (q : List Byte) : Op → Option (List Byte × Out)
  | .putc c => if q.length < cap then some (q ++ [c], .int 1) else some (q, .int 0)
  | .getc =>
    match q with
    | [] => some ([], .int (-1))
    | x :: t => some (t, .int x.toNat)
  | .write d => some (q ++ d.take (cap - q.length), .count (min d.length (cap - q.length)))
  | .read n => some (q.drop n, .bytes (q.take n))
  | .produce d => if d.length ≤ cap - q.length then some (q ++ d, .unit) else none
  | .produce1 c => if q.length < cap then some (q ++ [c], .unit) else none
  | .consume n => if n ≤ q.length then some (q.drop n, .bytes (q.take n)) else none
  | .consume1 =>
    match q with
    | [] => none
    | x :: t => some (t, .bytes [x])
  | .moveTail n => if n.toNat ≤ q.length then some (q.drop n.toNat, .unit) else none
  | .moveTailOne =>
    match q with
    | [] => none
    | _ :: t => some (t, .unit)
  | .moveHead _ => none
  | .moveHeadOne => none
  | .clean => some ([], .unit)

def runSpec (cap : Nat) : List Byte → List Op → Option (List Byte × List Out)
  | q, [] => some (q, [])
  | q, op :: ops =>
    match specStep cap q op with
    | none => none
    | some (q', o) =>
      match runSpec cap q' ops with
      | none => none
      | some (q'', os) => some (q'', o :: os)


theorem abs_size_pos {α : Type} {r : RingHead} {buf q : List α} (h : Abs r buf q) : 0 < r.size.toNat := by
  obtain ⟨⟨h1, _⟩, _⟩ := h; omega

theorem abs_len_le {α : Type} {r : RingHead} {buf q : List α} (h : Abs r buf q) :
    q.length ≤ r.size.toNat - 1 := by
  have := cnt_lt r h.1
  have := h.2.2.1
  omega

/-- operations that move an index by a `bias` (`ring_move_head` / `ring_move_tail`) -/
def Op.isBulk : Op → Bool
  | .produce _ => true
  | .consume _ => true
  | .moveHead _ => true
  | .moveTail _ => true
  | _ => false

/-- every operation of the ring does what the reference FIFO does (bulk moves:
on rings of at most 2^31 slots) -/
theorem step_refines {r : RingHead} {buf q : List Byte} (h : Abs r buf q) (op : Op)
    (hS : op.isBulk = true → r.size.toNat ≤ 2 ^ 31) {q' : List Byte} {o : Out}
    (hs : specStep (r.size.toNat - 1) q op = some (q', o)) :
    ∃ r' buf', stepRing r buf op = some (r', buf', o) ∧ r'.size = r.size ∧ Abs r' buf' q' := by
  have hle := abs_len_le h
  have hpos := abs_size_pos h
  cases op with
  | putc c =>
    simp only [specStep] at hs
    split at hs
    · obtain ⟨rfl, rfl⟩ : q ++ [c] = q' ∧ Out.int 1 = o := by simpa using hs
      obtain ⟨e, ha⟩ := abs_putc c h (by assumption)
      exact ⟨ringMoveHeadOne r, buf.set r.head.toNat c, by simp [stepRing, e], by simp, ha⟩
    · obtain ⟨rfl, rfl⟩ : q = q' ∧ Out.int 0 = o := by simpa using hs
      exact ⟨r, buf, by simp [stepRing, abs_putc_full c h (by omega)], rfl, h⟩
  | getc =>
    cases q with
    | nil =>
      obtain ⟨rfl, rfl⟩ : [] = q' ∧ Out.int (-1) = o := by simpa [specStep] using hs
      exact ⟨r, buf, by simp [stepRing, abs_getc_empty h], rfl, h⟩
    | cons x t =>
      obtain ⟨rfl, rfl⟩ : t = q' ∧ Out.int x.toNat = o := by simpa [specStep] using hs
      obtain ⟨e, ha⟩ := abs_getc h
      exact ⟨ringMoveTailOne r, buf, by simp [stepRing, e], by simp, ha⟩
  | write d =>
    obtain ⟨rfl, rfl⟩ : q ++ d.take (r.size.toNat - 1 - q.length) = q' ∧
        Out.count (min d.length (r.size.toNat - 1 - q.length)) = o := by simpa [specStep] using hs
    obtain ⟨r', buf', e, hsz, ha⟩ := abs_write d h
    exact ⟨r', buf', by simp [stepRing, e], hsz, ha⟩
  | read n =>
    obtain ⟨rfl, rfl⟩ : q.drop n = q' ∧ Out.bytes (q.take n) = o := by simpa [specStep] using hs
    obtain ⟨r', e, hsz, ha⟩ := abs_read n h
    exact ⟨r', buf, by simp [stepRing, e], hsz, ha⟩
  | produce d =>
    simp only [specStep] at hs
    split at hs
    · rename_i hd
      obtain ⟨rfl, rfl⟩ : q ++ d = q' ∧ Out.unit = o := by simpa using hs
      obtain ⟨wf, hb, hl, hq⟩ := h
      obtain ⟨buf', e, hlen, hw, hf⟩ := directFill_spec d buf r.size.toNat r.head.toNat hpos hb (by omega)
      have ha : Abs r buf' q := by
        refine ⟨wf, by omega, hl, fun i hi => ?_⟩
        rw [hf _ (fun j hj => slot_free wf.1 wf.2 (by unfold RingHead.cnt at hl; omega)
          (by unfold RingHead.cnt at hl; omega)), hq i hi]
      exact ⟨ringMoveHead r (BitVec.ofNat 32 d.length), buf', by simp [stepRing, e], by simp,
        abs_moveHead d ha (hS rfl) hd hw⟩
    · simp at hs
  | produce1 c =>
    simp only [specStep] at hs
    split at hs
    · rename_i hd
      obtain ⟨rfl, rfl⟩ : q ++ [c] = q' ∧ Out.unit = o := by simpa using hs
      have hlen : r.head.toNat < buf.length := by
        obtain ⟨⟨h1, h2⟩, hb, -, -⟩ := h; omega
      exact ⟨ringMoveHeadOne r, buf.set r.head.toNat c, by simp [stepRing, poke, hlen], by simp,
        abs_moveHeadOne (abs_set_head c h) hd (List.getElem?_set_self hlen)⟩
    · simp at hs
  | consume n =>
    simp only [specStep] at hs
    split at hs
    · rename_i hn
      obtain ⟨rfl, rfl⟩ : q.drop n = q' ∧ Out.bytes (q.take n) = o := by simpa using hs
      have e := directPeek_spec n buf r.size.toNat r.tail.toNat (q.take n)
        (by simp; omega) (fun j hj => by
          have hj' : j < q.length := by simp at hj; omega
          rw [h.2.2.2 j hj']; simp)
      exact ⟨ringMoveTail r (BitVec.ofNat 32 n), buf, by simp [stepRing, e], by simp,
        abs_moveTail n h (hS rfl) hn⟩
    · simp at hs
  | consume1 =>
    cases q with
    | nil => simp [specStep] at hs
    | cons x t =>
      obtain ⟨rfl, rfl⟩ : t = q' ∧ Out.bytes [x] = o := by simpa [specStep] using hs
      obtain ⟨hx, ha⟩ := abs_moveTailOne h
      exact ⟨ringMoveTailOne r, buf, by simp [stepRing, hx], by simp, ha⟩
  | moveHead n => simp [specStep] at hs
  | moveHeadOne => simp [specStep] at hs
  | moveTail n =>
    simp only [specStep] at hs
    split at hs
    · rename_i hn
      obtain ⟨rfl, rfl⟩ : q.drop n.toNat = q' ∧ Out.unit = o := by simpa using hs
      have := abs_moveTail n.toNat h (hS rfl) hn
      rw [BitVec.ofNat_toNat, BitVec.setWidth_eq] at this
      exact ⟨ringMoveTail r n, buf, by simp [stepRing], by simp, this⟩
    · simp at hs
  | moveTailOne =>
    cases q with
    | nil => simp [specStep] at hs
    | cons x t =>
      obtain ⟨rfl, rfl⟩ : t = q' ∧ Out.unit = o := by simpa [specStep] using hs
      exact ⟨ringMoveTailOne r, buf, by simp [stepRing], by simp, (abs_moveTailOne h).2⟩
  | clean =>
    obtain ⟨rfl, rfl⟩ : [] = q' ∧ Out.unit = o := by simpa [specStep] using hs
    exact ⟨ringClean r, buf, by simp [stepRing], by simp [ringClean], abs_clean h⟩


/-! ### `ring_fixup_index` -/

theorem emod_of_tmod {a b : Int} (hb : 0 < b) :
    a % b = if a.tmod b < 0 then a.tmod b + b else a.tmod b := by
  have h1 := Int.lt_tmod_of_pos a hb
  have h2 := Int.tmod_lt_of_pos a hb
  have e : a = a.tmod b + b * (a.tdiv b) := by have := Int.tmod_def a b; omega
  have e2 : a % b = (a.tmod b) % b := by
    conv => lhs; rw [e]
    exact Int.add_mul_emod_self_left ..
  rw [e2]
  split
  · rw [← Int.add_emod_right, Int.emod_eq_of_lt (by omega) (by omega)]
  · rw [Int.emod_eq_of_lt (by omega) (by omega)]

/-- the repaired `ring_fixup_index` is the mathematical `index mod size` for
EVERY `int` index and every size `1 ≤ size ≤ INT_MAX` -/
theorem fixupIndex_toInt (r : RingHead) (hs : 0 < r.size.toNat) (hS : r.size.toNat < 2 ^ 31)
    (i : BitVec 32) : (ringFixupIndex r i).toInt = i.toInt % (r.size.toNat : Int) := by
  have hsz : r.size.toInt = (r.size.toNat : Int) := BitVec.toInt_eq_toNat_of_lt (by omega)
  have hb : (0 : Int) < (r.size.toNat : Int) := by omega
  have hrem : (i.srem r.size).toInt = i.toInt.tmod (r.size.toNat : Int) := by
    rw [BitVec.toInt_srem, hsz]
  have h1 := Int.lt_tmod_of_pos i.toInt hb
  have h2 := Int.tmod_lt_of_pos i.toInt hb
  rw [emod_of_tmod hb]
  unfold ringFixupIndex
  have h0 : (0 : BitVec 32).toInt = 0 := by decide
  simp only [BitVec.slt_eq_decide, h0, hrem, decide_eq_true_eq]
  by_cases hneg : i.toInt.tmod (r.size.toNat : Int) < 0
  · simp only [hneg, if_true]
    rw [BitVec.toInt_add, hrem, hsz]
    apply Int.bmod_eq_of_le <;> omega
  · simp only [hneg, if_false]
    exact hrem

theorem toNat_of_toInt_nonneg {x : BitVec 32} {n : Nat} (h : x.toInt = (n : Int)) :
    x.slt 0 = false ∧ x.toNat = n := by
  have h0 : (0 : BitVec 32).toInt = 0 := by decide
  constructor
  · simp only [BitVec.slt_eq_decide, h0, h]; simp
  · rw [BitVec.toInt_eq_toNat_cond] at h; split at h <;> omega

/-! ### relative accessors: the `k`-th previous element -/

/-- slot of the `k`-th previous element (`k = 0`: newest) = `(head − 1 − k) mod size`, without `%` -/
def prevSlot (S H k : Nat) : Nat := if k + 1 ≤ H then H - 1 - k else H + S - 1 - k

theorem prevSlot_lt {S H k : Nat} (h1 : H < S) (hk : k < S) : prevSlot S H k < S := by
  unfold prevSlot; grind

theorem slot_prev {S H T k : Nat} (h1 : H < S) (h2 : T < S) (hk : k < cntN S H T) :
    (T + (cntN S H T - 1 - k)) % S = prevSlot S H k := by
  have : cntN S H T < S := cntN_lt h1 h2
  rw [mod_wrap (by omega)]; unfold cntN prevSlot at *; grind

theorem emod_prev {S H k : Nat} (h1 : H < S) (hk : k < S) :
    ((H : Int) - 1 - (k : Int)) % (S : Int) = (prevSlot S H k : Int) := by
  unfold prevSlot
  split
  · rw [Int.emod_eq_of_lt (by omega) (by omega)]; omega
  · rw [← Int.add_emod_right, Int.emod_eq_of_lt (by omega) (by omega)]; omega

theorem prevSlot_eq_mod {S H k : Nat} (h1 : H < S) (hk : k < S) :
    prevSlot S H k = (H + S - 1 - k) % S := by
  rw [mod_wrap (by omega)]; unfold prevSlot; grind

theorem abs_prev {α : Type} {r : RingHead} {buf q : List α} (h : Abs r buf q) {k : Nat}
    (hk : k < q.length) :
    buf[prevSlot r.size.toNat r.head.toNat k]? = some (q[q.length - 1 - k]'(by omega)) := by
  obtain ⟨⟨h1, h2⟩, -, hl, hq⟩ := h
  unfold RingHead.cnt at hl
  have := hq (q.length - 1 - k) (by omega)
  rw [← this]
  congr 2
  rw [hl, slot_prev h1 h2 (by omega)]

theorem toInt_head_sub (h o i : BitVec 32) (O I : Nat) (ho : o.toNat = O)
    (hi : i.toNat = I) (hH : h.toNat < 2 ^ 31) (hO : O + I < 2 ^ 31) :
    (h - o - i - 1).toInt = (h.toNat : Int) - 1 - ((O + I : Nat) : Int) := by
  rw [BitVec.toInt_eq_toNat_cond]
  split <;> bv_omega

theorem toInt_head_sub_add (h c o i : BitVec 32) (C O I : Nat) (hc : c.toNat = C) (ho : o.toNat = O)
    (hi : i.toNat = I) (hH : h.toNat < 2 ^ 31) (hO : C + O < 2 ^ 31) (hI : I < C) :
    (h - c - o + i).toInt = (h.toNat : Int) - 1 - ((C + O - 1 - I : Nat) : Int) := by
  rw [BitVec.toInt_eq_toNat_cond]
  split <;> bv_omega

namespace TRing
variable {α : Type}

theorem ofNat32_small {n : Nat} (h : n < 2 ^ 31) : (BitVec.ofNat 32 n).toNat = n := by
  simp only [BitVec.toNat_ofNat]; omega

/-- `last()` uses slot `(head − 1) mod size` for every head position -/
theorem lastIndex_toInt (t : TRing α) (hwf : t.r.WF) (hS : t.r.size.toNat < 2 ^ 31) :
    t.lastIndex.toInt = (prevSlot t.r.size.toNat t.r.head.toNat 0 : Int) := by
  obtain ⟨h1, h2⟩ := hwf
  unfold lastIndex
  rw [fixupIndex_toInt t.r (by omega) hS]
  have : (t.r.head - 1).toInt = (t.r.head.toNat : Int) - 1 - ((0 : Nat) : Int) := by
    rw [BitVec.toInt_eq_toNat_cond]; split <;> bv_omega
  rw [this, emod_prev h1 (by omega)]

theorem getLastIndex_fromEnd (t : TRing α) (hwf : t.r.WF) (hS : t.r.size.toNat < 2 ^ 31)
    (off i : Nat) (count : BitVec 32) (hk : off + i < t.r.size.toNat) :
    (t.getLastIndex (BitVec.ofNat 32 off) count true i).toInt =
      (prevSlot t.r.size.toNat t.r.head.toNat (off + i) : Int) := by
  obtain ⟨h1, h2⟩ := hwf
  unfold getLastIndex
  simp only [if_true]
  rw [fixupIndex_toInt t.r (by omega) hS,
    toInt_head_sub t.r.head _ _ off i (ofNat32_small (by omega)) (ofNat32_small (by omega))
      (by omega) (by omega), emod_prev h1 hk]

theorem getLastIndex_fromStart (t : TRing α) (hwf : t.r.WF) (hS : t.r.size.toNat < 2 ^ 31)
    (off count i : Nat) (hi : i < count) (hk : count + off ≤ t.r.size.toNat) :
    (t.getLastIndex (BitVec.ofNat 32 off) (BitVec.ofNat 32 count) false i).toInt =
      (prevSlot t.r.size.toNat t.r.head.toNat (count + off - 1 - i) : Int) := by
  obtain ⟨h1, h2⟩ := hwf
  unfold getLastIndex
  simp only [Bool.false_eq_true, if_false]
  rw [fixupIndex_toInt t.r (by omega) hS,
    toInt_head_sub_add t.r.head _ _ _ count off i (ofNat32_small (by omega))
      (ofNat32_small (by omega)) (ofNat32_small (by omega)) (by omega) (by omega) hi,
    emod_prev h1 (by omega)]


theorem last_abs {t : TRing α} {q : List α} (h : Abs t.r t.buf q) (hq : q ≠ [])
    (hS : t.r.size.toNat < 2 ^ 31) : t.last = some (q.getLast hq) := by
  have hlen : 0 < q.length := List.length_pos_iff.mpr hq
  obtain ⟨hs, hn⟩ := toNat_of_toInt_nonneg (lastIndex_toInt t h.1 hS)
  unfold last
  simp only [hs, Bool.false_eq_true, if_false, hn]
  rw [abs_prev h hlen, List.getLast_eq_getElem]
  rfl

/-- elements `i, i+1, …` of `get_last(off, count, true)` -/
theorem getLastAux_fromEnd {t : TRing α} {q : List α} (h : Abs t.r t.buf q)
    (hS : t.r.size.toNat < 2 ^ 31) (off : Nat) (cnt32 : BitVec 32) :
    ∀ (n i : Nat), off + i + n ≤ q.length →
      t.getLastAux (BitVec.ofNat 32 off) cnt32 true n i = some (((q.reverse.drop off).drop i).take n)
  | 0, i, _ => by simp [getLastAux]
  | n + 1, i, hle => by
      have hlt := cnt_lt t.r h.1
      have hl := h.2.2.1
      obtain ⟨hs, hn⟩ := toNat_of_toInt_nonneg
        (getLastIndex_fromEnd t h.1 hS off i cnt32 (by omega))
      have ih := getLastAux_fromEnd h hS off cnt32 n (i + 1) (by omega)
      have hidx : off + i < q.reverse.length := by simp; omega
      simp only [getLastAux, hs, Bool.false_eq_true, if_false, hn, abs_prev h (k := off + i) (by omega), ih]
      rw [List.drop_drop, List.drop_drop, Option.map_some]
      congr 1
      rw [show off + (i + 1) = (off + i) + 1 by omega]
      rw [← List.getElem_cons_drop (h := hidx), List.take_succ_cons]
      congr 1
      rw [List.getElem_reverse]

theorem getLast_fromEnd {t : TRing α} {q : List α} (h : Abs t.r t.buf q)
    (hS : t.r.size.toNat < 2 ^ 31) (off count : Nat) (hle : off + count ≤ q.length) :
    t.getLast (BitVec.ofNat 32 off) count true = some ((q.reverse.drop off).take count) := by
  unfold getLast
  rw [getLastAux_fromEnd h hS off _ count 0 (by omega)]
  simp

theorem getLastAux_fromStart {t : TRing α} {q : List α} (h : Abs t.r t.buf q)
    (hS : t.r.size.toNat < 2 ^ 31) (off count : Nat) (hle : off + count ≤ q.length) :
    ∀ (n i : Nat), i + n = count →
      t.getLastAux (BitVec.ofNat 32 off) (BitVec.ofNat 32 count) false n i =
        some (((q.drop (q.length - count - off)).drop i).take n)
  | 0, i, _ => by simp [getLastAux]
  | n + 1, i, hin => by
      have hlt := cnt_lt t.r h.1
      have hl := h.2.2.1
      obtain ⟨hs, hn⟩ := toNat_of_toInt_nonneg
        (getLastIndex_fromStart t h.1 hS off count i (by omega) (by omega))
      have ih := getLastAux_fromStart h hS off count hle n (i + 1) (by omega)
      have hidx : q.length - count - off + i < q.length := by omega
      simp only [getLastAux, hs, Bool.false_eq_true, if_false, hn,
        abs_prev h (k := count + off - 1 - i) (by omega), ih]
      rw [List.drop_drop, List.drop_drop, Option.map_some]
      congr 1
      rw [show q.length - count - off + (i + 1) = (q.length - count - off + i) + 1 by omega]
      rw [← List.getElem_cons_drop (h := hidx), List.take_succ_cons]
      congr 2
      omega

theorem getLast_fromStart {t : TRing α} {q : List α} (h : Abs t.r t.buf q)
    (hS : t.r.size.toNat < 2 ^ 31) (off count : Nat) (hle : off + count ≤ q.length) :
    t.getLast (BitVec.ofNat 32 off) count false =
      some ((q.drop (q.length - count - off)).take count) := by
  unfold getLast
  rw [getLastAux_fromStart h hS off count hle count 0 (by omega)]
  simp

theorem tail_abs {t : TRing α} {x : α} {q : List α} (h : Abs t.r t.buf (x :: q)) :
    t.tail = some x := (abs_moveTailOne h).1

theorem push_abs {t : TRing α} {q : List α} (x : α) (h : Abs t.r t.buf q)
    (hroom : q.length < t.r.size.toNat - 1) :
    ∃ t', t.push x = some t' ∧ t'.r.size = t.r.size ∧ Abs t'.r t'.buf (q ++ [x]) := by
  have hlen : t.r.head.toNat < t.buf.length := by
    obtain ⟨⟨h1, h2⟩, hb, -, -⟩ := h; omega
  exact ⟨⟨ringMoveHeadOne t.r, t.buf.set t.r.head.toNat x⟩, by simp [push, poke, hlen], by simp,
    abs_moveHeadOne (abs_set_head x h) hroom (List.getElem?_set_self hlen)⟩

theorem pop_abs {t : TRing α} {x : α} {q : List α} (d : α) (h : Abs t.r t.buf (x :: q)) :
    ∃ t', t.pop d = some t' ∧ t'.r.size = t.r.size ∧ Abs t'.r t'.buf q := by
  have hlen : t.r.tail.toNat < t.buf.length := by
    obtain ⟨⟨h1, h2⟩, hb, -, -⟩ := h; omega
  exact ⟨⟨ringMoveTailOne t.r, t.buf.set t.r.tail.toNat d⟩, by simp [pop, hlen], by simp,
    abs_pop_set d h⟩

/-- constructor: ring size = buffer size = `bufsize + 1`, empty -/
theorem mk'_abs (dflt : α) (n : Nat) (hn : n + 1 < 2 ^ 32) :
    (mk' dflt n).r.size.toNat = n + 1 ∧ (mk' dflt n).buf.length = n + 1 ∧
    Abs (mk' dflt n).r (mk' dflt n).buf [] := by
  have e : (BitVec.ofNat 32 (n + 1)).toNat = n + 1 := by simp only [BitVec.toNat_ofNat]; omega
  refine ⟨by simp [mk', ringInit, e], by simp [mk'], ?_⟩
  exact abs_init _ _ (by omega) (by simp [e, mk'])

theorem resize_abs (dflt : α) (t : TRing α) (n : Nat) (hn : n + 1 < 2 ^ 32) :
    (resize dflt t n).r.size.toNat = n + 1 ∧ (resize dflt t n).buf.length = n + 1 ∧
    Abs (resize dflt t n).r (resize dflt t n).buf [] := mk'_abs dflt n hn

theorem reset_abs (t : TRing α) (h0 : 0 < t.buf.length) (hn : t.buf.length < 2 ^ 32) :
    t.reset.r.size.toNat = t.buf.length ∧ Abs t.reset.r t.reset.buf [] := by
  have e : (BitVec.ofNat 32 t.buf.length).toNat = t.buf.length := by
    simp only [BitVec.toNat_ofNat]; omega
  refine ⟨by simp [reset, ringInit, e], ?_⟩
  exact abs_init _ _ (by omega) (by simp [e, reset])

/-- `distance(a, b)` = number of steps from slot `b` forward to slot `a` -/
theorem distance_toNat (t : TRing α) (a b : BitVec 32) (hS : t.r.size.toNat ≤ 2 ^ 31)
    (ha : a.toNat < t.r.size.toNat) (hb : b.toNat < t.r.size.toNat) :
    (t.distance a b).toNat = (a.toNat + t.r.size.toNat - b.toNat) % t.r.size.toNat := by
  unfold distance
  rw [BitVec.toNat_umod]
  congr 1
  bv_omega

theorem setLastIndex_head (t : TRing α) (idx : BitVec 32) (h : idx.toNat < t.r.size.toNat) :
    (t.setLastIndex idx).r.head.toNat = nextIdx t.r.size.toNat idx.toNat ∧
    (t.setLastIndex idx).r.tail = t.r.tail ∧ (t.setLastIndex idx).r.size = t.r.size := by
  refine ⟨?_, rfl, rfl⟩
  exact moveHeadOne_head { t.r with head := idx } h

end TRing


/-! ### the index invariant is preserved by EVERY operation (no contract needed) -/

theorem wf_moveHeadOne {r : RingHead} (h : r.WF) : (ringMoveHeadOne r).WF :=
  ⟨by rw [moveHeadOne_head r h.1]; exact nextIdx_lt h.1, h.2⟩

theorem wf_moveTailOne {r : RingHead} (h : r.WF) : (ringMoveTailOne r).WF :=
  ⟨h.1, by rw [moveTailOne_tail r h.2]; exact nextIdx_lt h.2⟩

theorem wf_moveHead {r : RingHead} (h : r.WF) (b : U32) : (ringMoveHead r b).WF :=
  ⟨by rw [moveHead_head r (by have := h.1; omega)]; exact Nat.mod_lt _ (by have := h.1; omega), h.2⟩

theorem wf_moveTail {r : RingHead} (h : r.WF) (b : U32) : (ringMoveTail r b).WF :=
  ⟨h.1, by rw [moveTail_tail r (by have := h.1; omega)]; exact Nat.mod_lt _ (by have := h.1; omega)⟩

theorem wf_clean {r : RingHead} (h : r.WF) : (ringClean r).WF := by
  obtain ⟨h1, h2⟩ := h
  constructor <;> simp [ringClean] <;> omega

/-- what every operation guarantees about the state it leaves -/
def Keeps (r : RingHead) (buf : List α) (r' : RingHead) (buf' : List α) : Prop :=
  r'.WF ∧ r'.size = r.size ∧ buf'.length = buf.length

section
variable {α : Type}

theorem Keeps.refl {r : RingHead} {buf : List α} (h : r.WF) : Keeps r buf r buf := ⟨h, rfl, rfl⟩

theorem Keeps.trans {r r' r'' : RingHead} {b b' b'' : List α} (h1 : Keeps r b r' b')
    (h2 : Keeps r' b' r'' b'') : Keeps r b r'' b'' :=
  ⟨h2.1, h2.2.1.trans h1.2.1, h2.2.2.trans h1.2.2⟩

theorem putc_keeps {r : RingHead} {buf : List α} (c : α) (h : r.WF) (hb : r.size.toNat ≤ buf.length) :
    ∃ r' buf' rc, ringPutc r buf c = some (r', buf', rc) ∧ Keeps r buf r' buf' := by
  unfold ringPutc
  cases ringFull r
  · have hlen : r.head.toNat < buf.length := by have := h.1; omega
    exact ⟨ringMoveHeadOne r, buf.set r.head.toNat c, 1, by simp [poke, hlen],
      wf_moveHeadOne h, rfl, by simp⟩
  · exact ⟨r, buf, 0, by simp, Keeps.refl h⟩

theorem writeAux_keeps : ∀ (d : List α) {r : RingHead} {buf : List α} (ret : Nat), r.WF →
    r.size.toNat ≤ buf.length →
    ∃ r' buf' n, ringWriteAux d r buf ret = some (r', buf', n) ∧ Keeps r buf r' buf'
  | [], r, buf, ret, h, _ => ⟨r, buf, ret, rfl, Keeps.refl h⟩
  | c :: rest, r, buf, ret, h, hb => by
      obtain ⟨r1, b1, rc, e, k⟩ := putc_keeps c h hb
      by_cases hrc : rc = 0
      · exact ⟨r1, b1, ret, by simp [ringWriteAux, e, hrc], k⟩
      · obtain ⟨r2, b2, n, e2, k2⟩ := writeAux_keeps rest (ret + 1) k.1
          (by rw [k.2.1, k.2.2]; exact hb)
        exact ⟨r2, b2, n, by simp [ringWriteAux, e, hrc, e2], k.trans k2⟩

theorem directFill_keeps : ∀ (d : List α) (buf : List α) (S p : Nat), 0 < S → S ≤ buf.length →
    ∃ buf', directFill buf S p d = some buf' ∧ buf'.length = buf.length
  | [], buf, _, _, _, _ => ⟨buf, rfl, rfl⟩
  | c :: rest, buf, S, p, hS, hb => by
      have hp : p % S < buf.length := Nat.lt_of_lt_of_le (Nat.mod_lt _ hS) hb
      obtain ⟨b', e, hl⟩ := directFill_keeps rest (buf.set (p % S) c) S (p + 1) hS (by simpa using hb)
      exact ⟨b', by simp [directFill, poke, hp, e], by simpa using hl⟩

theorem directPeek_total : ∀ (n : Nat) (buf : List α) (S p : Nat), 0 < S → S ≤ buf.length →
    ∃ l, directPeek buf S p n = some l
  | 0, _, _, _, _, _ => ⟨[], rfl⟩
  | n + 1, buf, S, p, hS, hb => by
      have hp : p % S < buf.length := Nat.lt_of_lt_of_le (Nat.mod_lt _ hS) hb
      obtain ⟨l, e⟩ := directPeek_total n buf S (p + 1) hS hb
      exact ⟨buf[p % S] :: l, by simp [directPeek, hp, e]⟩

end

theorem getc_keeps {r : RingHead} {buf : List Byte} (h : r.WF) (hb : r.size.toNat ≤ buf.length) :
    ∃ r' v, ringGetc r buf = some (r', v) ∧ Keeps r buf r' buf ∧ -1 ≤ v ∧ v ≤ 255 := by
  unfold ringGetc ringGetcWith
  cases ringEmpty r
  · have hlen : r.tail.toNat < buf.length := by have := h.2; omega
    refine ⟨ringMoveTailOne r, (buf[r.tail.toNat].toNat : Int), by simp [hlen],
      ⟨wf_moveTailOne h, rfl, rfl⟩, by omega, by omega⟩
  · exact ⟨r, -1, by simp, Keeps.refl h, by omega, by omega⟩

theorem readWith_keeps : ∀ (n : Nat) {r : RingHead} {buf : List Byte} (acc : List Byte), r.WF →
    r.size.toNat ≤ buf.length →
    ∃ r' out, ringReadWith ringGetc buf n r acc = some (r', out) ∧ Keeps r buf r' buf
  | 0, r, buf, acc, h, _ => ⟨r, acc, rfl, Keeps.refl h⟩
  | n + 1, r, buf, acc, h, hb => by
      obtain ⟨r1, v, e, k, -, -⟩ := getc_keeps h hb
      by_cases hv : v = -1
      · exact ⟨r1, acc, by simp [ringReadWith, e, hv], k⟩
      · obtain ⟨r2, out, e2, k2⟩ := readWith_keeps n (acc ++ [BitVec.ofInt 8 v]) k.1
          (by rw [k.2.1]; exact hb)
        exact ⟨r2, out, by simp [ringReadWith, e, hv, e2], k.trans k2⟩

/-- EVERY operation, with ANY argument, from ANY state that satisfies the index
invariant: no access outside the buffer, and the invariant holds afterwards. -/
theorem step_keeps {r : RingHead} {buf : List Byte} (h : r.WF) (hb : r.size.toNat ≤ buf.length)
    (op : Op) : ∃ r' buf' o, stepRing r buf op = some (r', buf', o) ∧ Keeps r buf r' buf' := by
  have hpos : 0 < r.size.toNat := by have := h.1; omega
  cases op with
  | putc c =>
    obtain ⟨r', b', rc, e, k⟩ := putc_keeps c h hb
    exact ⟨r', b', .int rc, by simp [stepRing, e], k⟩
  | getc =>
    obtain ⟨r', v, e, k, -, -⟩ := getc_keeps h hb
    exact ⟨r', buf, .int v, by simp [stepRing, e], k⟩
  | write d =>
    obtain ⟨r', b', n, e, k⟩ := writeAux_keeps d 0 h hb
    exact ⟨r', b', .count n, by simp [stepRing, ringWrite, e], k⟩
  | read n =>
    obtain ⟨r', out, e, k⟩ := readWith_keeps n [] h hb
    exact ⟨r', buf, .bytes out, by simp [stepRing, ringRead, e], k⟩
  | produce d =>
    obtain ⟨b', e, hl⟩ := directFill_keeps d buf r.size.toNat r.head.toNat hpos hb
    exact ⟨ringMoveHead r (BitVec.ofNat 32 d.length), b', .unit, by simp [stepRing, e],
      wf_moveHead h _, rfl, hl⟩
  | produce1 c =>
    have hlen : r.head.toNat < buf.length := by have := h.1; omega
    exact ⟨ringMoveHeadOne r, buf.set r.head.toNat c, .unit, by simp [stepRing, poke, hlen],
      wf_moveHeadOne h, rfl, by simp⟩
  | consume n =>
    obtain ⟨l, e⟩ := directPeek_total n buf r.size.toNat r.tail.toNat hpos hb
    exact ⟨ringMoveTail r (BitVec.ofNat 32 n), buf, .bytes l, by simp [stepRing, e],
      wf_moveTail h _, rfl, rfl⟩
  | consume1 =>
    have hlen : r.tail.toNat < buf.length := by have := h.2; omega
    exact ⟨ringMoveTailOne r, buf, .bytes [buf[r.tail.toNat]], by simp [stepRing, hlen],
      wf_moveTailOne h, rfl, rfl⟩
  | moveHead n => exact ⟨_, buf, .unit, rfl, wf_moveHead h n, rfl, rfl⟩
  | moveHeadOne => exact ⟨_, buf, .unit, rfl, wf_moveHeadOne h, rfl, rfl⟩
  | moveTail n => exact ⟨_, buf, .unit, rfl, wf_moveTail h n, rfl, rfl⟩
  | moveTailOne => exact ⟨_, buf, .unit, rfl, wf_moveTailOne h, rfl, rfl⟩
  | clean => exact ⟨_, buf, .unit, rfl, wf_clean h, rfl, rfl⟩


/-! ### ring_counter -/

theorem sub_emod_self (x s : Int) : (x - s) % s = x % s := by
  have := Int.add_emod_right (x - s) s
  rw [Int.sub_add_cancel] at this
  exact this.symm

theorem rcDown_spec (size : Int) (hs : 0 < size) : ∀ (fuel : Nat) (x : Int), x.toNat ≤ fuel →
    0 ≤ x → rcDown size fuel x = x % size
  | 0, x, h, h0 => by
      have : x = 0 := by omega
      simp [rcDown, this]
  | fuel + 1, x, h, h0 => by
      unfold rcDown
      split
      · rw [rcDown_spec size hs fuel (x - size) (by omega) (by omega), sub_emod_self]
      · rw [Int.emod_eq_of_lt h0 (by omega)]

theorem rcDown_of_lt (size : Int) : ∀ (fuel : Nat) (x : Int), x < size → rcDown size fuel x = x
  | 0, _, _ => rfl
  | fuel + 1, x, h => by unfold rcDown; rw [if_neg (by omega)]

theorem rcUp_spec (size : Int) (hs : 0 < size) : ∀ (fuel : Nat) (x : Int), (-x).toNat ≤ fuel →
    x < size → rcUp size fuel x = x % size
  | 0, x, h, h1 => by
      have : 0 ≤ x := by omega
      simp only [rcUp]; rw [Int.emod_eq_of_lt this h1]
  | fuel + 1, x, h, h1 => by
      unfold rcUp
      split
      · rw [rcUp_spec size hs fuel (x + size) (by omega) (by omega), Int.add_emod_right]
      · rw [Int.emod_eq_of_lt (by omega) h1]

/-- `ring_counter_fixup_pos(pos) = pos mod size` for every `int pos` -/
theorem rcFixupPos_eq (rc : RingCounter) (hs : 0 < rc.size) (pos : Int) :
    rcFixupPos rc pos = pos % rc.size := by
  unfold rcFixupPos
  by_cases h0 : 0 ≤ pos
  · have e := rcDown_spec rc.size hs pos.toNat pos (Nat.le_refl _) h0
    have h1 := Int.emod_nonneg pos (Int.ne_of_gt hs)
    have h2 := Int.emod_lt_of_pos pos hs
    simp only [e]
    rw [rcUp_spec rc.size hs _ _ (Nat.le_refl _) h2, Int.emod_emod_of_dvd _ (Int.dvd_refl _)]
  · have e := rcDown_of_lt rc.size pos.toNat pos (by omega)
    simp only [e]
    exact rcUp_spec rc.size hs _ _ (Nat.le_refl _) (by omega)

/-- `ring_counter_prev(i) = (counter − i) mod size` whenever `counter − i < size`
(in particular for every `i ≥ 0` when `counter < size`) -/
theorem rcPrev_eq (rc : RingCounter) (hs : 0 < rc.size) (i : Int) (h : rc.counter - i < rc.size) :
    rcPrev rc i = (rc.counter - i) % rc.size := by
  unfold rcPrev
  exact rcUp_spec rc.size hs _ _ (Nat.le_refl _) h

theorem rcLast_eq (rc : RingCounter) (hs : 0 < rc.size) (no : Int) :
    rcLast rc no = (rc.counter - no) % rc.size := rcFixupPos_eq rc hs _

theorem rcIncrement_eq (rc : RingCounter) (hs : 0 < rc.size) (a : Int) (h : 0 ≤ rc.counter + a) :
    (rcIncrement rc a).counter = (rc.counter + a) % rc.size ∧ (rcIncrement rc a).size = rc.size := by
  unfold rcIncrement rcFixup
  exact ⟨rcDown_spec rc.size hs _ _ (Nat.le_refl _) h, rfl⟩

theorem rcSet_eq (rc : RingCounter) (hs : 0 < rc.size) (v : Int) (h : 0 ≤ v) :
    (rcSet rc v).counter = v % rc.size ∧ (rcSet rc v).size = rc.size := by
  unfold rcSet rcFixup
  exact ⟨rcDown_spec rc.size hs _ _ (Nat.le_refl _) h, rfl⟩


/-! ### cyclic_buffer -/

/-- slot of the `k`-th previous sample of a cyclic buffer whose newest sample is in
slot `c`: `(c − k) mod n`, without `%` -/
def cprev (n c k : Nat) : Nat := if k ≤ c then c - k else c + n - k

theorem cprev_lt {n c k : Nat} (hc : c < n) (hk : k < n) : cprev n c k < n := by
  unfold cprev; grind

theorem emod_cprev {n c k : Nat} (hc : c < n) (hk : k < n) :
    ((c : Int) - (k : Int)) % (n : Int) = (cprev n c k : Nat) := by
  unfold cprev
  split
  · rw [Int.emod_eq_of_lt (by omega) (by omega)]; omega
  · rw [← Int.add_emod_right, Int.emod_eq_of_lt (by omega) (by omega)]; omega

theorem cprev_eq_mod {n c k : Nat} (hc : c < n) (hk : k < n) : cprev n c k = (c + n - k) % n := by
  rw [mod_wrap (by omega)]; unfold cprev; grind

theorem cprev_next {n c k : Nat} (_hc : c < n) (hk : k + 1 < n) :
    cprev n (nextIdx n c) (k + 1) = cprev n c k := by
  unfold cprev nextIdx; grind

theorem cprev_next_ne {n c k : Nat} (_hc : c < n) (hk : k + 1 < n) :
    cprev n c k ≠ nextIdx n c := by
  unfold cprev nextIdx; grind

theorem cprev_last {n c : Nat} (hc : c < n) : cprev n c (n - 1) = nextIdx n c := by
  unfold cprev nextIdx; grind

structure CInv {α : Type} (c : Cyclic α) (n : Nat) (log : List α) : Prop where
  pos : 0 < n
  len : c.data.length = n
  sz : c.counter.size = (n : Int)
  cnt : ∃ k : Nat, c.counter.counter = (k : Int) ∧ k < n
  fill : c.fill = min log.length n
  content : ∀ k (hk : k < log.length), k < n →
    c.data[cprev n c.counter.counter.toNat k]? = some log[log.length - 1 - k]

variable {α : Type}

theorem cinv_mk' (dflt : α) (n : Nat) (hn : 0 < n) : CInv (Cyclic.mk' dflt n) n [] := by
  refine ⟨hn, by simp [Cyclic.mk'], by simp [Cyclic.mk', rcInit], ⟨0, by simp [Cyclic.mk', rcInit], hn⟩,
    by simp [Cyclic.mk'], ?_⟩
  intro k hk; simp at hk

theorem cinv_resize (dflt : α) (c : Cyclic α) (n : Nat) (hn : 0 < n) :
    CInv (Cyclic.resize dflt c n) n [] := cinv_mk' dflt n hn

theorem at?_natCast (d : List α) (k : Nat) : Cyclic.at? d (k : Int) = d[k]? := by
  unfold Cyclic.at?
  rw [if_neg (by omega)]; simp

theorem cinv_nth {c : Cyclic α} {n : Nat} {log : List α} (h : CInv c n log) (i : Nat)
    (hi : i < log.length) (hin : i < n) :
    c.nth (i : Int) = some log[log.length - 1 - i] := by
  obtain ⟨k, hk, hkn⟩ := h.cnt
  unfold Cyclic.nth
  rw [rcPrev_eq c.counter (by rw [h.sz]; omega) _ (by rw [h.sz, hk]; omega), h.sz, hk,
    emod_cprev hkn hin, at?_natCast]
  have := h.content i hi hin
  rw [hk] at this
  simpa using this

theorem cinv_push {c : Cyclic α} {n : Nat} {log : List α} (h : CInv c n log) (v : α) :
    ∃ c' old, c.push v = some (c', old) ∧ CInv c' n (log ++ [v]) ∧
      (∀ (hfull : n ≤ log.length), old = log[log.length - n]'(by have := h.pos; omega)) := by
  obtain ⟨k, hk, hkn⟩ := h.cnt
  have hpos := h.pos
  have hinc := rcIncrement_eq c.counter (by rw [h.sz]; omega) 1 (by rw [hk]; omega)
  have hnext : (rcIncrement c.counter 1).counter = ((nextIdx n k : Nat) : Int) := by
    rw [hinc.1, h.sz, hk, nextIdx_eq_mod hkn]; simp
  have hlt : nextIdx n k < c.data.length := by rw [h.len]; exact nextIdx_lt hkn
  refine ⟨{ data := c.data.set (nextIdx n k) v, counter := rcIncrement c.counter 1,
            fill := if (c.fill : Int) < c.counter.size then c.fill + 1 else c.fill },
    c.data[nextIdx n k], ?_, ?_, ?_⟩
  · simp [Cyclic.push, rcGet, hnext, at?_natCast, List.getElem?_eq_getElem hlt]
  · refine ⟨hpos, by simp [h.len], by simp [hinc.2, h.sz], ⟨nextIdx n k, hnext, nextIdx_lt hkn⟩, ?_, ?_⟩
    · simp only [h.fill, h.sz, List.length_append, List.length_singleton]
      split <;> omega
    · intro j hj hjn
      simp only [hnext, Int.toNat_natCast]
      simp only [List.length_append, List.length_singleton] at hj
      cases j with
      | zero =>
        have : cprev n (nextIdx n k) 0 = nextIdx n k := by unfold cprev; simp
        rw [this, List.getElem?_set_self hlt]
        simp
      | succ j =>
        rw [cprev_next hkn hjn, List.getElem?_set_ne (cprev_next_ne hkn hjn).symm]
        have := h.content j (by omega) (by omega)
        rw [hk] at this
        simp only [Int.toNat_natCast] at this
        rw [this, List.getElem_append_left
          (by simp only [List.length_append, List.length_singleton]; omega)]
        congr 2
        simp only [List.length_append, List.length_singleton]
        omega
  · intro hfull
    have := h.content (n - 1) (by omega) (by omega)
    rw [hk] at this
    simp only [Int.toNat_natCast, cprev_last hkn] at this
    rw [List.getElem?_eq_getElem hlt] at this
    have e := Option.some.inj this
    rw [e]
    congr 1
    omega

/-- push a whole list of samples -/
def pushAll : Cyclic α → List α → Option (Cyclic α)
  | c, [] => some c
  | c, v :: vs => match c.push v with
    | none => none
    | some (c', _) => pushAll c' vs

theorem cinv_pushAll : ∀ (vs : List α) {c : Cyclic α} {n : Nat} {log : List α}, CInv c n log →
    ∃ c', pushAll c vs = some c' ∧ CInv c' n (log ++ vs)
  | [], c, n, log, h => ⟨c, rfl, by simpa using h⟩
  | v :: vs, c, n, log, h => by
      obtain ⟨c1, old, e, h1, -⟩ := cinv_push h v
      obtain ⟨c2, e2, h2⟩ := cinv_pushAll vs h1
      exact ⟨c2, by simp [pushAll, e, e2], by simpa using h2⟩


/-! ### ghost accounting for "nothing lost, nothing duplicated" -/

/-- bytes a history step handed TO the ring (accepted by it) -/
def accepted : Op → Out → List Byte
  | .putc c, .int v => if v = 1 then [c] else []
  | .write d, .count n => d.take n
  | .produce d, _ => d
  | .produce1 c, _ => [c]
  | _, _ => []

/-- bytes a history step got OUT of the ring -/
def delivered : Op → Out → List Byte
  | .getc, .int v => if v = -1 then [] else [BitVec.ofInt 8 v]
  | .read _, .bytes d => d
  | .consume _, .bytes d => d
  | .consume1, .bytes d => d
  | _, _ => []

/-- operations that throw stored data away on purpose -/
def Op.discards : Op → Bool
  | .moveTail _ => true
  | .moveTailOne => true
  | .clean => true
  | _ => false

def acceptedAll : List Op → List Out → List Byte
  | op :: ops, o :: os => accepted op o ++ acceptedAll ops os
  | _, _ => []

def deliveredAll : List Op → List Out → List Byte
  | op :: ops, o :: os => delivered op o ++ deliveredAll ops os
  | _, _ => []

theorem spec_step_conserves {cap : Nat} {q q' : List Byte} {op : Op} {o : Out}
    (hs : specStep cap q op = some (q', o)) (hd : op.discards = false) :
    q ++ accepted op o = delivered op o ++ q' := by
  cases op with
  | putc c =>
    simp only [specStep] at hs
    split at hs
    · obtain ⟨rfl, rfl⟩ : q ++ [c] = q' ∧ Out.int 1 = o := by simpa using hs
      simp [accepted, delivered]
    · obtain ⟨rfl, rfl⟩ : q = q' ∧ Out.int 0 = o := by simpa using hs
      simp [accepted, delivered]
  | getc =>
    cases q with
    | nil =>
      obtain ⟨rfl, rfl⟩ : [] = q' ∧ Out.int (-1) = o := by simpa [specStep] using hs
      simp [accepted, delivered]
    | cons x t =>
      obtain ⟨rfl, rfl⟩ : t = q' ∧ Out.int x.toNat = o := by simpa [specStep] using hs
      have : (x.toNat : Int) ≠ -1 := by omega
      simp [accepted, delivered, this, ofInt8_toNat]
  | write d =>
    obtain ⟨rfl, rfl⟩ : q ++ d.take (cap - q.length) = q' ∧
        Out.count (min d.length (cap - q.length)) = o := by simpa [specStep] using hs
    simp only [accepted, delivered, List.nil_append, List.append_cancel_left_eq]
    rw [List.take_eq_take_iff]; omega
  | read n =>
    obtain ⟨rfl, rfl⟩ : q.drop n = q' ∧ Out.bytes (q.take n) = o := by simpa [specStep] using hs
    simp [accepted, delivered]
  | produce d =>
    simp only [specStep] at hs
    split at hs
    · obtain ⟨rfl, rfl⟩ : q ++ d = q' ∧ Out.unit = o := by simpa using hs
      simp [accepted, delivered]
    · simp at hs
  | produce1 c =>
    simp only [specStep] at hs
    split at hs
    · obtain ⟨rfl, rfl⟩ : q ++ [c] = q' ∧ Out.unit = o := by simpa using hs
      simp [accepted, delivered]
    · simp at hs
  | consume n =>
    simp only [specStep] at hs
    split at hs
    · obtain ⟨rfl, rfl⟩ : q.drop n = q' ∧ Out.bytes (q.take n) = o := by simpa using hs
      simp [accepted, delivered]
    · simp at hs
  | consume1 =>
    cases q with
    | nil => simp [specStep] at hs
    | cons x t =>
      obtain ⟨rfl, rfl⟩ : t = q' ∧ Out.bytes [x] = o := by simpa [specStep] using hs
      simp [accepted, delivered]
  | moveHead n => simp [specStep] at hs
  | moveHeadOne => simp [specStep] at hs
  | moveTail n => simp [Op.discards] at hd
  | moveTailOne => simp [Op.discards] at hd
  | clean => simp [Op.discards] at hd

theorem spec_run_conserves {cap : Nat} : ∀ (ops : List Op) {q q' : List Byte} {outs : List Out},
    runSpec cap q ops = some (q', outs) → (∀ op ∈ ops, op.discards = false) →
    q ++ acceptedAll ops outs = deliveredAll ops outs ++ q'
  | [], q, q', outs, h, _ => by
      obtain ⟨rfl, rfl⟩ : q = q' ∧ [] = outs := by simpa [runSpec] using h
      simp [acceptedAll, deliveredAll]
  | op :: ops, q, q', outs, h, hd => by
      simp only [runSpec] at h
      split at h
      · simp at h
      · rename_i q1 o e
        split at h
        · simp at h
        · rename_i q2 os e2
          obtain ⟨rfl, rfl⟩ : q2 = q' ∧ o :: os = outs := by simpa using h
          have h1 := spec_step_conserves e (hd op (by simp))
          have h2 := spec_run_conserves ops e2 (fun op' hop => hd op' (by simp [hop]))
          simp only [acceptedAll, deliveredAll]
          rw [← List.append_assoc, h1, List.append_assoc, h2, List.append_assoc]

/-- a whole history refines the reference FIFO: on every ring if no bulk move is
used, on rings of at most 2^31 slots otherwise -/
theorem run_refines : ∀ (ops : List Op) {r : RingHead} {buf q q' : List Byte} {outs : List Out},
    Abs r buf q → (r.size.toNat ≤ 2 ^ 31 ∨ ∀ op ∈ ops, op.isBulk = false) →
    runSpec (r.size.toNat - 1) q ops = some (q', outs) →
    ∃ r' buf', runRing r buf ops = some (r', buf', outs) ∧ r'.size = r.size ∧ Abs r' buf' q'
  | [], r, buf, q, q', outs, h, _, hs => by
      obtain ⟨rfl, rfl⟩ : q = q' ∧ [] = outs := by simpa [runSpec] using hs
      exact ⟨r, buf, rfl, rfl, h⟩
  | op :: ops, r, buf, q, q', outs, h, hS, hs => by
      simp only [runSpec] at hs
      split at hs
      · simp at hs
      · rename_i q1 o e
        split at hs
        · simp at hs
        · rename_i q2 os e2
          obtain ⟨rfl, rfl⟩ : q2 = q' ∧ o :: os = outs := by simpa using hs
          have hop : op.isBulk = true → r.size.toNat ≤ 2 ^ 31 := fun hb =>
            hS.elim id (fun hn => by have := hn op (by simp); simp [this] at hb)
          obtain ⟨r1, b1, e1, hsz, h1⟩ := step_refines h op hop e
          have hS' : r1.size.toNat ≤ 2 ^ 31 ∨ ∀ op ∈ ops, op.isBulk = false := by
            rw [hsz]; exact hS.imp id (fun hn op' hop' => hn op' (by simp [hop']))
          rw [← hsz] at e2
          obtain ⟨r2, b2, e3, hsz2, h2⟩ := run_refines ops h1 hS' e2
          exact ⟨r2, b2, by simp [runRing, e1, e3], hsz2.trans hsz, h2⟩

/-- a whole history, ANY operations with ANY arguments: no fault, invariant kept -/
theorem run_keeps : ∀ (ops : List Op) {r : RingHead} {buf : List Byte}, r.WF →
    r.size.toNat ≤ buf.length →
    ∃ r' buf' outs, runRing r buf ops = some (r', buf', outs) ∧ Keeps r buf r' buf' ∧
      outs.length = ops.length
  | [], r, buf, h, _ => ⟨r, buf, [], rfl, Keeps.refl h, rfl⟩
  | op :: ops, r, buf, h, hb => by
      obtain ⟨r1, b1, o, e1, k1⟩ := step_keeps h hb op
      obtain ⟨r2, b2, os, e2, k2, hl⟩ := run_keeps ops k1.1 (by rw [k1.2.1, k1.2.2]; exact hb)
      exact ⟨r2, b2, o :: os, by simp [runRing, e1, e2], k1.trans k2, by simp [hl]⟩

/-! ### `ring_for_each` -/

theorem forEach_spec (r : RingHead) (hH : r.head.toNat < r.size.toNat) :
    ∀ (fuel : Nat) (n : U32), n.toNat < r.size.toNat →
      cntN r.size.toNat r.head.toNat n.toNat ≤ fuel →
      (ringForEach r fuel n).map BitVec.toNat =
        (List.range (cntN r.size.toNat r.head.toNat n.toNat)).map (fun i => (n.toNat + i) % r.size.toNat)
  | 0, n, hn, hf => by
      have : cntN r.size.toNat r.head.toNat n.toNat = 0 := by omega
      simp [ringForEach, this]
  | fuel + 1, n, hn, hf => by
      unfold ringForEach
      by_cases e : n = r.head
      · have : cntN r.size.toNat r.head.toNat r.head.toNat = 0 := by unfold cntN; simp
        simp [e, this]
      · have hne : n.toNat ≠ r.head.toNat := fun h => e (BitVec.eq_of_toNat_eq h)
        have hd : 0 < cntN r.size.toNat r.head.toNat n.toNat := by unfold cntN; split <;> omega
        have hnext : ((n + 1) % r.size).toNat = nextIdx r.size.toNat n.toNat := by
          rw [nextIdx_eq_mod hn, BitVec.toNat_umod]
          congr 1
          bv_omega
        have hc := cntN_next_tail hH hn hd
        have hf' : cntN r.size.toNat r.head.toNat ((n + 1) % r.size).toNat ≤ fuel := by
          rw [hnext, hc]; omega
        have ih := forEach_spec r hH fuel ((n + 1) % r.size) (by rw [hnext]; exact nextIdx_lt hn) hf'
        simp only [bne_iff_ne, ne_eq, e, not_false_eq_true, if_true, List.map_cons, ih, hnext, hc]
        obtain ⟨d, hd'⟩ : ∃ d, cntN r.size.toNat r.head.toNat n.toNat = d + 1 := ⟨cntN r.size.toNat r.head.toNat n.toNat - 1, by omega⟩
        have hlt := cntN_lt hH hn
        rw [hd', List.range_succ_eq_map, List.map_cons, List.map_map]
        simp only [Nat.add_zero, Nat.mod_eq_of_lt hn, Nat.add_sub_cancel]
        congr 1
        apply List.map_congr_left
        intro i hi
        simp only [List.mem_range] at hi
        simp only [Function.comp]
        exact slot_next_tail hn (by omega)

/-! ### `igris::ring::clear` -/

namespace TRing
variable {α : Type}
theorem clear_abs (d : α) : ∀ (fuel : Nat) {t : TRing α} {q : List α}, Abs t.r t.buf q → q.length ≤ fuel →
    ∃ t', clear d fuel t = some t' ∧ t'.r.size = t.r.size ∧ Abs t'.r t'.buf []
  | 0, t, q, h, hf => by
      have : q = [] := List.eq_nil_of_length_eq_zero (by omega)
      subst this
      exact ⟨t, rfl, rfl, h⟩
  | fuel + 1, t, q, h, hf => by
      cases q with
      | nil => exact ⟨t, by simp [clear, abs_empty h], rfl, h⟩
      | cons x q =>
        obtain ⟨t1, e1, hs1, h1⟩ := pop_abs d h
        obtain ⟨t2, e2, hs2, h2⟩ := clear_abs d fuel h1 (by simpa using hf)
        exact ⟨t2, by simp [clear, abs_nonempty h (by simp), e1, e2], hs2.trans hs1, h2⟩
end TRing

end Igris.C03
