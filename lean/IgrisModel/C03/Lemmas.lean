import IgrisModel.C03.Model
namespace Igris.C03
end Igris.C03
