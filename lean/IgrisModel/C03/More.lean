/-
  C03 extension — lemmas for bytering.h, the `ring_for_each` loop with a body,
  bulk = iterated single operations, push-when-full / pop-when-empty, copy / move,
  the slot-lifetime model and the `int`-checked ring_counter.
-/
import IgrisModel.C03.Lemmas
namespace Igris.C03
open Igris.Proto

/-! ### bytering.h: simulation by the index ring of ring.h -/

/-- the index ring a pointer ring corresponds to: offsets from `start`; the
write side of bytering is `tail`, the read side `head` -/
def ByteRing.toRing (b : ByteRing) : RingHead :=
  { head := BitVec.ofNat 32 (b.tail - b.start), tail := BitVec.ofNat 32 (b.head - b.start),
    size := BitVec.ofNat 32 (b.end_ - b.start) }

/-- pointer invariant: `head, tail ∈ [start, end)`, block of fewer than 2^32 bytes
(`bytering_init` takes an `unsigned int` size) -/
structure ByteRing.WF (b : ByteRing) : Prop where
  h1 : b.start ≤ b.head
  h2 : b.head < b.end_
  t1 : b.start ≤ b.tail
  t2 : b.tail < b.end_
  sz : b.end_ - b.start < 2 ^ 32

theorem RingHead.ext' {a b : RingHead} (h1 : a.head.toNat = b.head.toNat)
    (h2 : a.tail.toNat = b.tail.toNat) (h3 : a.size.toNat = b.size.toNat) : a = b := by
  cases a; cases b
  simp only [RingHead.mk.injEq]
  exact ⟨BitVec.eq_of_toNat_eq h1, BitVec.eq_of_toNat_eq h2, BitVec.eq_of_toNat_eq h3⟩

section
variable {b : ByteRing}

theorem toRing_head (h : b.WF) : b.toRing.head.toNat = b.tail - b.start := by
  have := h.sz; have := h.t2
  simp only [ByteRing.toRing, BitVec.toNat_ofNat]; omega

theorem toRing_tail (h : b.WF) : b.toRing.tail.toNat = b.head - b.start := by
  have := h.sz; have := h.h2
  simp only [ByteRing.toRing, BitVec.toNat_ofNat]; omega

theorem toRing_size (h : b.WF) : b.toRing.size.toNat = b.end_ - b.start := by
  have := h.sz
  simp only [ByteRing.toRing, BitVec.toNat_ofNat]; omega

theorem toRing_wf (h : b.WF) : b.toRing.WF := by
  unfold RingHead.WF
  rw [toRing_head h, toRing_tail h, toRing_size h]
  have := h.h1; have := h.h2; have := h.t1; have := h.t2
  omega

theorem brEmpty_eq (h : b.WF) : brEmpty b = ringEmpty b.toRing := by
  have e := empty_iff b.toRing
  rw [toRing_head h, toRing_tail h] at e
  have := h.h1; have := h.t1
  cases hb : ringEmpty b.toRing
  · have : ¬ (b.tail - b.start = b.head - b.start) := fun x => by rw [e.2 x] at hb; cases hb
    simp only [brEmpty, beq_eq_false_iff_ne, ne_eq]; omega
  · have := e.1 hb
    simp only [brEmpty, beq_iff_eq]; omega

theorem brFull_eq (h : b.WF) : brFull b = ringFull b.toRing := by
  have e := full_iff b.toRing (toRing_wf h)
  rw [toRing_head h, toRing_tail h, toRing_size h] at e
  have := h.h1; have := h.t1; have := h.h2; have := h.t2
  cases hb : ringFull b.toRing
  · have hn : ¬ (nextIdx (b.end_ - b.start) (b.tail - b.start) = b.head - b.start) :=
      fun x => by rw [e.2 x] at hb; cases hb
    unfold nextIdx at hn
    simp only [brFull, beq_eq_false_iff_ne, ne_eq, beq_iff_eq]
    split <;> split at hn <;> omega
  · have hn := e.1 hb
    unfold nextIdx at hn
    simp only [brFull, beq_iff_eq]
    split <;> split at hn <;> omega

theorem brFixup_sub (h : b.WF) {p : Nat} (hp1 : b.start ≤ p) (hp2 : p < b.end_) :
    brFixup b (p + 1) - b.start = nextIdx (b.end_ - b.start) (p - b.start) ∧
    b.start ≤ brFixup b (p + 1) ∧ brFixup b (p + 1) < b.end_ := by
  unfold brFixup nextIdx
  split <;> split <;> omega

/-- advancing `tail` (push) is `ring_move_head_one` on the index ring -/
theorem toRing_pushAdvance (h : b.WF) :
    ({ b with tail := brFixup b (b.tail + 1) } : ByteRing).WF ∧
    ({ b with tail := brFixup b (b.tail + 1) } : ByteRing).toRing = ringMoveHeadOne b.toRing := by
  obtain ⟨e1, e2, e3⟩ := brFixup_sub h h.t1 h.t2
  have wf' : ({ b with tail := brFixup b (b.tail + 1) } : ByteRing).WF :=
    ⟨h.h1, h.h2, e2, e3, h.sz⟩
  refine ⟨wf', RingHead.ext' ?_ ?_ ?_⟩
  · rw [toRing_head wf', moveHeadOne_head _ (toRing_wf h).1, toRing_head h, toRing_size h]; exact e1
  · rw [toRing_tail wf', moveHeadOne_tail, toRing_tail h]
  · rw [toRing_size wf', moveHeadOne_size, toRing_size h]

/-- advancing `head` (pop) is `ring_move_tail_one` on the index ring -/
theorem toRing_popAdvance (h : b.WF) :
    ({ b with head := brFixup b (b.head + 1) } : ByteRing).WF ∧
    ({ b with head := brFixup b (b.head + 1) } : ByteRing).toRing = ringMoveTailOne b.toRing := by
  obtain ⟨e1, e2, e3⟩ := brFixup_sub h h.h1 h.h2
  have wf' : ({ b with head := brFixup b (b.head + 1) } : ByteRing).WF :=
    ⟨e2, e3, h.t1, h.t2, h.sz⟩
  refine ⟨wf', RingHead.ext' ?_ ?_ ?_⟩
  · rw [toRing_head wf', moveTailOne_head, toRing_head h]
  · rw [toRing_tail wf', moveTailOne_tail _ (toRing_wf h).2, toRing_tail h, toRing_size h]; exact e1
  · rw [toRing_size wf', moveTailOne_size, toRing_size h]

end

/-- `BAbs b mem q`: the pointer ring `b` over the block `mem` stores exactly the
queue `q` (oldest first): pointers inside the block, `|q| = (tail − head) mod
size`, `q[i]` at `start + (head − start + i) mod size`. -/
def BAbs (b : ByteRing) (mem : List Byte) (q : List Byte) : Prop :=
  b.WF ∧ Abs b.toRing mem q

theorem babs_init (buf size : Nat) (mem : List Byte) (hs : 0 < size) (hS : size < 2 ^ 32)
    (hm : size ≤ mem.length) : BAbs (brInit buf size) mem [] := by
  have wf : (brInit buf size).WF := by
    refine ⟨?_, ?_, ?_, ?_, ?_⟩ <;> simp only [brInit] <;> omega
  have e1 : (brInit buf size).toRing.head.toNat = 0 := by rw [toRing_head wf]; simp [brInit]
  have e2 : (brInit buf size).toRing.tail.toNat = 0 := by rw [toRing_tail wf]; simp [brInit]
  have e3 : (brInit buf size).toRing.size.toNat = size := by rw [toRing_size wf]; simp [brInit]
  refine ⟨wf, toRing_wf wf, ?_, ?_, ?_⟩
  · rw [e3]; exact hm
  · simp only [RingHead.cnt, e1, e2, e3, List.length_nil]; unfold cntN; simp
  · intro i hi; simp at hi

theorem babs_cap {b : ByteRing} {mem q : List Byte} (h : BAbs b mem q) :
    q.length ≤ b.end_ - b.start - 1 := by
  have := abs_len_le h.2
  rw [toRing_size h.1] at this; exact this

theorem babs_push {b : ByteRing} {mem q : List Byte} (c : Byte) (h : BAbs b mem q)
    (hroom : q.length < b.end_ - b.start - 1) :
    ∃ b' mem', brPush b mem c = some (b', mem', 0) ∧ brPushNocheck b mem c = some (b', mem') ∧
      b'.start = b.start ∧ b'.end_ = b.end_ ∧ BAbs b' mem' (q ++ [c]) := by
  obtain ⟨wf, ha⟩ := h
  have hroom' : q.length < b.toRing.size.toNat - 1 := by rw [toRing_size wf]; exact hroom
  obtain ⟨-, ha'⟩ := abs_putc c ha hroom'
  have hnf : brFull b = false := by rw [brFull_eq wf]; exact abs_not_full ha hroom'
  obtain ⟨wf', e'⟩ := toRing_pushAdvance wf
  have hlen : b.tail - b.start < mem.length := by
    have := ha.2.1; rw [toRing_size wf] at this; have := wf.t2; omega
  have hst : brStore b mem b.tail c = some (mem.set (b.tail - b.start) c) := by
    have := wf.t1
    simp only [brStore, poke, hlen, if_true]
    rw [if_neg (by omega)]
  have hnc : brPushNocheck b mem c =
      some ({ b with tail := brFixup b (b.tail + 1) }, mem.set (b.tail - b.start) c) := by
    simp only [brPushNocheck, brPushNocheckWith, hst]
  refine ⟨_, _, ?_, hnc, rfl, rfl, wf', ?_⟩
  · have hnc' : brPushNocheckWith brFixup b mem c =
        some ({ b with tail := brFixup b (b.tail + 1) }, mem.set (b.tail - b.start) c) := hnc
    simp only [brPush, brPushWith, hnf, hnc', Option.map_some, Bool.false_eq_true, if_false]
  · rw [e', ← toRing_head wf]; exact ha'

theorem babs_push_full {b : ByteRing} {mem q : List Byte} (c : Byte) (h : BAbs b mem q)
    (hfull : q.length = b.end_ - b.start - 1) : brPush b mem c = some (b, mem, -1) := by
  obtain ⟨wf, ha⟩ := h
  have : brFull b = true := by
    rw [brFull_eq wf]; exact abs_full ha (by rw [toRing_size wf]; exact hfull)
  simp [brPush, brPushWith, this]

theorem babs_pop {b : ByteRing} {mem : List Byte} {x : Byte} {q : List Byte} (h : BAbs b mem (x :: q)) :
    ∃ b', brPop b mem = some (b', (x.toNat : Int)) ∧ brPopNocheck b mem = some (b', (x.toNat : Int)) ∧
      b'.start = b.start ∧ b'.end_ = b.end_ ∧ BAbs b' mem q := by
  obtain ⟨wf, ha⟩ := h
  obtain ⟨hx, ha'⟩ := abs_moveTailOne ha
  have hne : brEmpty b = false := by rw [brEmpty_eq wf]; exact abs_nonempty ha (by simp)
  obtain ⟨wf', e'⟩ := toRing_popAdvance wf
  rw [toRing_tail wf] at hx
  have hld : brLoad b mem b.head = some x := by
    have := wf.h1
    simp only [brLoad]
    rw [if_neg (by omega)]; exact hx
  have hnc : brPopNocheckWith brFixup b mem =
      some ({ b with head := brFixup b (b.head + 1) }, (x.toNat : Int)) := by
    simp only [brPopNocheckWith, hld]
  refine ⟨_, ?_, hnc, rfl, rfl, wf', by rw [e']; exact ha'⟩
  simp only [brPop, brPopWith, hne, hnc, Bool.false_eq_true, if_false]

theorem babs_pop_empty {b : ByteRing} {mem : List Byte} (h : BAbs b mem []) :
    brPop b mem = some (b, -1) := by
  obtain ⟨wf, ha⟩ := h
  have : brEmpty b = true := by rw [brEmpty_eq wf]; exact abs_empty ha
  simp [brPop, brPopWith, this]

/-- reference: bounded FIFO of capacity `cap`; push answers 0 / −1, pop the byte / −1 -/
def specB (cap : Nat) (q : List Byte) : BOp → List Byte × Int
  | .push c => if q.length < cap then (q ++ [c], 0) else (q, -1)
  | .pop =>
    match q with
    | [] => ([], -1)
    | x :: t => (t, (x.toNat : Int))

def runSpecB (cap : Nat) : List Byte → List BOp → List Byte × List Int
  | q, [] => (q, [])
  | q, op :: ops =>
    let (q', o) := specB cap q op
    let (q'', os) := runSpecB cap q' ops
    (q'', o :: os)

theorem stepB_refines {b : ByteRing} {mem q : List Byte} (h : BAbs b mem q) (op : BOp) :
    ∃ b' mem', stepB b mem op = some (b', mem', (specB (b.end_ - b.start - 1) q op).2) ∧
      b'.start = b.start ∧ b'.end_ = b.end_ ∧ mem'.length = mem.length ∧
      BAbs b' mem' (specB (b.end_ - b.start - 1) q op).1 := by
  cases op with
  | push c =>
    by_cases hr : q.length < b.end_ - b.start - 1
    · obtain ⟨b', mem', e, enc, hs, he, ha⟩ := babs_push c h hr
      have hl : mem'.length = mem.length := by
        simp only [brPushNocheck, brPushNocheckWith, brStore, poke] at enc
        split at enc
        · cases enc
        · rename_i m' em
          split at em
          · cases em
          · split at em
            · cases em; cases enc; simp
            · cases em
      exact ⟨b', mem', by simp [stepB, specB, hr, e], hs, he, hl, by simpa [specB, hr] using ha⟩
    · have hf : q.length = b.end_ - b.start - 1 := by have := babs_cap h; omega
      exact ⟨b, mem, by simp [stepB, specB, hr, babs_push_full c h hf], rfl, rfl, rfl,
        by simpa [specB, hr] using h⟩
  | pop =>
    cases q with
    | nil => exact ⟨b, mem, by simp [stepB, specB, babs_pop_empty h], rfl, rfl, rfl, by simpa [specB] using h⟩
    | cons x q =>
      obtain ⟨b', e, -, hs, he, ha⟩ := babs_pop h
      exact ⟨b', mem, by simp [stepB, specB, e], hs, he, rfl, by simpa [specB] using ha⟩

theorem runB_refines : ∀ (ops : List BOp) {b : ByteRing} {mem q : List Byte}, BAbs b mem q →
    ∃ b' mem', runB b mem ops = some (b', mem', (runSpecB (b.end_ - b.start - 1) q ops).2) ∧
      b'.start = b.start ∧ b'.end_ = b.end_ ∧ mem'.length = mem.length ∧
      BAbs b' mem' (runSpecB (b.end_ - b.start - 1) q ops).1
  | [], b, mem, q, h => ⟨b, mem, rfl, rfl, rfl, rfl, h⟩
  | op :: ops, b, mem, q, h => by
      obtain ⟨b1, m1, e1, hs1, he1, hl1, h1⟩ := stepB_refines h op
      obtain ⟨b2, m2, e2, hs2, he2, hl2, h2⟩ := runB_refines ops h1
      rw [hs1, he1] at e2 h2
      refine ⟨b2, m2, ?_, hs2.trans hs1, he2.trans he1, hl2.trans hl1, ?_⟩
      · simp only [runB, e1, e2, runSpecB]
      · simpa only [runSpecB] using h2

/-- bytes accepted by a push (answer 0) / delivered by a pop (answer ≠ −1) -/
def acceptedB : BOp → Int → List Byte
  | .push c, o => if o == 0 then [c] else []
  | .pop, _ => []

def deliveredB : BOp → Int → List Byte
  | .pop, o => if o == -1 then [] else [BitVec.ofInt 8 o]
  | .push _, _ => []

def acceptedAllB : List BOp → List Int → List Byte
  | op :: ops, o :: os => acceptedB op o ++ acceptedAllB ops os
  | _, _ => []

def deliveredAllB : List BOp → List Int → List Byte
  | op :: ops, o :: os => deliveredB op o ++ deliveredAllB ops os
  | _, _ => []

theorem specB_conserves (cap : Nat) : ∀ (ops : List BOp) (q : List Byte),
    q ++ acceptedAllB ops (runSpecB cap q ops).2 =
      deliveredAllB ops (runSpecB cap q ops).2 ++ (runSpecB cap q ops).1
  | [], q => by simp [runSpecB, acceptedAllB, deliveredAllB]
  | .push c :: ops, q => by
      simp only [runSpecB, specB]
      split
      · have ih := specB_conserves cap ops (q ++ [c])
        simp only [acceptedAllB, deliveredAllB, acceptedB, deliveredB, beq_self_eq_true, if_true,
          List.nil_append]
        rw [← ih]; simp
      · have ih := specB_conserves cap ops q
        simp only [acceptedAllB, deliveredAllB, acceptedB, deliveredB, List.nil_append]
        rw [← ih]; simp
  | .pop :: ops, q => by
      cases q with
      | nil =>
        have ih := specB_conserves cap ops []
        simp only [runSpecB, specB, acceptedAllB, deliveredAllB, acceptedB, deliveredB,
          beq_self_eq_true, if_true, List.nil_append] at ih ⊢
        exact ih
      | cons x q =>
        have ih := specB_conserves cap ops q
        have hx : ((x.toNat : Int) == -1) = false := by
          simp only [beq_eq_false_iff_ne, ne_eq]; omega
        simp only [runSpecB, specB, acceptedAllB, deliveredAllB, acceptedB, deliveredB, hx,
          Bool.false_eq_true, if_false, List.nil_append, ofInt8_toNat]
        rw [List.cons_append, List.cons_append, List.nil_append, ih]; simp

/-- pointers of the pre-repair functions, for the witness -/
def brPopOrig := brPopWith brFixupOrig
def brPushOrig := brPushWith brFullOrig brFixupOrig
/-- after the first repair only (`__bytering_fixup` corrected, `bytering_full` not yet) -/
def brPushOrig2 := brPushWith brFullOrig brFixup

end Igris.C03
