/-
  C03 extension, part 3 — the slot-lifetime model of igris::ring<T> and the
  `int`-checked ring_counter.
-/
import IgrisModel.C03.More2
namespace Igris.C03
open Igris.Proto

namespace LRing
variable {α : Type}

/-- the value component of the lifetime model IS the typed-ring model -/
theorem push_t (l : LRing α) (x : α) : (l.pushOrig x).map (·.t) = l.t.push x := by
  unfold pushOrig; cases l.t.push x <;> rfl

theorem pop_t (l : LRing α) : l.popOrig.map (·.t) = l.t.popOrig := by
  unfold popOrig; cases l.t.popOrig <;> rfl

/-- every slot holds a living object (state after construction / resize / copy) -/
def AllLive (l : LRing α) : Prop := l.live = List.replicate l.t.buf.length true

theorem set_replicate_self {β : Type} (n i : Nat) (a : β) :
    (List.replicate n a).set i a = List.replicate n a := by
  apply List.ext_getElem?
  intro j
  by_cases hij : i = j
  · subst hij
    by_cases hi : i < n
    · rw [List.getElem?_set_self (by simpa using hi)]; simp [hi]
    · rw [List.getElem?_eq_none (by simp; omega), List.getElem?_eq_none (by simp; omega)]
  · rw [List.getElem?_set_ne hij]

theorem mk'_allLive (dflt : α) (n : Nat) : AllLive (mk' dflt n) := by
  simp [AllLive, mk', TRing.mk']

theorem push_allLive {l l' : LRing α} {x : α} (h : AllLive l) (e : l.pushOrig x = some l') :
    AllLive l' ∧ l'.overLive = l.overLive + 1 ∧ l'.deadDtor = l.deadDtor ∧
      l.t.push x = some l'.t := by
  unfold pushOrig at e
  cases ht : l.t.push x with
  | none => rw [ht] at e; cases e
  | some t' =>
    rw [ht] at e
    simp only [Option.some.injEq] at e
    subst e
    have hp := ht
    unfold TRing.push poke at hp
    split at hp
    · cases hp
    · rename_i b hb
      split at hb
      · rename_i hlt
        cases hb; cases hp
        unfold AllLive at h ⊢
        refine ⟨?_, ?_, rfl, rfl⟩
        · simp only [List.length_set]
          rw [h]; exact set_replicate_self _ _ _
        · simp only [h, List.getD_eq_getElem?_getD, List.getElem?_replicate, hlt, if_true,
            Option.getD_some]
      · cases hb

/-- a run of pushes -/
def pushAllOrig : LRing α → List α → Option (LRing α)
  | l, [] => some l
  | l, x :: xs => (l.pushOrig x).bind fun l' => pushAllOrig l' xs

theorem pushAll_allLive : ∀ (xs : List α) (l : LRing α), AllLive l → l.t.r.WF →
    l.t.r.size.toNat ≤ l.t.buf.length →
    ∃ l', pushAllOrig l xs = some l' ∧ AllLive l' ∧ l'.overLive = l.overLive + xs.length ∧
      l'.deadDtor = l.deadDtor
  | [], l, h, _, _ => ⟨l, rfl, h, rfl, rfl⟩
  | x :: xs, l, h, wf, hb => by
      have hlen : l.t.r.head.toNat < l.t.buf.length := by have := wf.1; omega
      have ht : l.t.push x = some ⟨ringMoveHeadOne l.t.r, l.t.buf.set l.t.r.head.toNat x⟩ := by
        simp [TRing.push, poke, hlen]
      obtain ⟨l1, e1⟩ : ∃ l1, l.pushOrig x = some l1 := by
        unfold pushOrig; rw [ht]; exact ⟨_, rfl⟩
      obtain ⟨h1, ho, hd, ht1⟩ := push_allLive h e1
      rw [ht] at ht1
      have et : l1.t = ⟨ringMoveHeadOne l.t.r, l.t.buf.set l.t.r.head.toNat x⟩ :=
        (Option.some.inj ht1).symm
      obtain ⟨l2, e2, h2, ho2, hd2⟩ := pushAll_allLive xs l1 h1
        (by rw [et]; exact wf_moveHeadOne wf) (by rw [et]; simpa using hb)
      exact ⟨l2, by simp [pushAllOrig, e1, e2], h2, by rw [ho2, ho, List.length_cons]; omega,
        by rw [hd2, hd]⟩

theorem deadCount_pos {l : List Bool} (h : false ∈ l) : 0 < deadCount l :=
  List.length_pos_of_mem (List.mem_filter.2 ⟨h, by simp⟩)

/-- whatever the state: the slot a `pop` has destroyed is destroyed once more by
`~unbounded_array` unless a push re-constructs it first -/
theorem pop_destroy {l l' : LRing α} (e : l.popOrig = some l') (hlen : l.live.length = l.t.buf.length) :
    l.deadDtor + 1 ≤ l'.destroy.deadDtor := by
  unfold popOrig at e
  cases ht : l.t.popOrig with
  | none => rw [ht] at e; cases e
  | some t' =>
    rw [ht] at e
    simp only [Option.some.injEq] at e
    subst e
    have hlt : l.t.r.tail.toNat < l.t.buf.length := by
      unfold TRing.popOrig at ht
      split at ht
      · assumption
      · cases ht
    have hmem : false ∈ l.live.set l.t.r.tail.toNat false := by
      have hi : l.t.r.tail.toNat < (l.live.set l.t.r.tail.toNat false).length := by
        simpa [hlen] using hlt
      have := List.getElem_mem hi
      simpa using this
    have := deadCount_pos hmem
    simp only [destroy]
    split <;> omega

/-- the stored elements (slots `tail … head`) hold living objects -/
def StoredLive (l : LRing α) : Prop :=
  l.live.length = l.t.buf.length ∧
  ∀ i, i < l.t.r.cnt → l.live[(l.t.r.tail.toNat + i) % l.t.r.size.toNat]? = some true

theorem mk'_storedLive (dflt : α) (n : Nat) : StoredLive (mk' dflt n) := by
  refine ⟨by simp [mk', TRing.mk'], ?_⟩
  intro i hi
  simp [mk', TRing.mk', ringInit, RingHead.cnt, cntN] at hi

theorem push_storedLive {l l' : LRing α} {q : List α} {x : α} (ha : Abs l.t.r l.t.buf q)
    (hroom : q.length < l.t.r.size.toNat - 1) (hs : StoredLive l) (e : l.pushOrig x = some l') :
    StoredLive l' := by
  obtain ⟨⟨h1, h2⟩, hb, hl, -⟩ := ha
  have hlen : l.t.r.head.toNat < l.t.buf.length := by omega
  have ht : l.t.push x = some ⟨ringMoveHeadOne l.t.r, l.t.buf.set l.t.r.head.toNat x⟩ := by
    simp [TRing.push, poke, hlen]
  unfold pushOrig at e
  rw [ht] at e
  simp only [Option.some.injEq] at e
  subst e
  obtain ⟨hs1, hs2⟩ := hs
  have hH := moveHeadOne_head l.t.r h1
  unfold RingHead.cnt at hl hs2
  refine ⟨by simp [hs1], ?_⟩
  intro i hi
  simp only [RingHead.cnt, hH, moveHeadOne_tail, moveHeadOne_size] at hi ⊢
  rw [cntN_next_head h1 h2 (by omega)] at hi
  by_cases hlt : i < cntN l.t.r.size.toNat l.t.r.head.toNat l.t.r.tail.toNat
  · have hne := slot_ne_head h1 h2 hlt
    rw [List.getElem?_set_ne (fun e => hne e.symm)]
    exact hs2 i hlt
  · have hie : i = cntN l.t.r.size.toNat l.t.r.head.toNat l.t.r.tail.toNat := by omega
    rw [hie, slot_cnt_head h1 h2, List.getElem?_set_self (by omega)]

theorem pop_storedLive {l l' : LRing α} {x : α} {q : List α} (ha : Abs l.t.r l.t.buf (x :: q))
    (hs : StoredLive l) (e : l.popOrig = some l') :
    StoredLive l' ∧ l.tailLive = true ∧ l'.deadDtor = l.deadDtor := by
  obtain ⟨⟨h1, h2⟩, hb, hl, -⟩ := ha
  have hlen : l.t.r.tail.toNat < l.t.buf.length := by omega
  have ht : l.t.popOrig = some ⟨ringMoveTailOne l.t.r, l.t.buf⟩ := by simp [TRing.popOrig, hlen]
  unfold popOrig at e
  rw [ht] at e
  simp only [Option.some.injEq] at e
  subst e
  obtain ⟨hs1, hs2⟩ := hs
  have hT := moveTailOne_tail l.t.r h2
  unfold RingHead.cnt at hl hs2
  simp only [List.length_cons] at hl
  have hlt := cntN_lt h1 h2
  have h0 := hs2 0 (by omega)
  rw [Nat.add_zero, Nat.mod_eq_of_lt h2] at h0
  have hlive : l.live.getD l.t.r.tail.toNat false = true := by
    rw [List.getD_eq_getElem?_getD, h0]; rfl
  refine ⟨⟨by simp [hs1], ?_⟩, hlive, by simp [h0]⟩
  intro i hi
  simp only [RingHead.cnt, hT, moveTailOne_head, moveTailOne_size] at hi ⊢
  rw [cntN_next_tail h1 h2 (by omega)] at hi
  rw [slot_next_tail h2 (by omega)]
  have hne : (l.t.r.tail.toNat + (i + 1)) % l.t.r.size.toNat ≠ l.t.r.tail.toNat := by
    have := slot_inj (p := l.t.r.tail.toNat) (S := l.t.r.size.toNat) (i := i + 1) (j := 0)
      (by omega) (by omega) (by omega) (by omega)
    rw [Nat.add_zero (BitVec.toNat l.t.r.tail), Nat.mod_eq_of_lt h2] at this
    exact this
  rw [List.getElem?_set_ne (fun e => hne e.symm)]
  exact hs2 (i + 1) (by omega)

end LRing

/-! ### ring_counter: the `int`-checked functions -/

theorem rcDown_inInt (size : Int) (hs : 0 < size) : ∀ (fuel : Nat) (x : Int), inInt x →
    inInt (rcDown size fuel x)
  | 0, x, h => h
  | fuel + 1, x, h => by
      unfold rcDown
      split
      · exact rcDown_inInt size hs fuel _ (by unfold inInt at *; omega)
      · exact h

theorem rcDownC_eq (size : Int) (hs : 0 < size) : ∀ (fuel : Nat) (x : Int), inInt x →
    rcDownC size fuel x = some (rcDown size fuel x)
  | 0, x, _ => rfl
  | fuel + 1, x, h => by
      unfold rcDownC rcDown
      split
      · have h' : inInt (x - size) := by unfold inInt at *; omega
        simp only [ckInt, h', if_true, Option.bind_some]
        exact rcDownC_eq size hs fuel _ h'
      · rfl

theorem rcUpC_eq (size : Int) (hs : 0 < size) (hsI : inInt size) : ∀ (fuel : Nat) (x : Int), inInt x →
    rcUpC size fuel x = some (rcUp size fuel x)
  | 0, x, _ => rfl
  | fuel + 1, x, h => by
      unfold rcUpC rcUp
      split
      · have h' : inInt (x + size) := by unfold inInt at *; omega
        simp only [ckInt, h', if_true, Option.bind_some]
        exact rcUpC_eq size hs hsI fuel _ h'
      · rfl

/-! ### histories of the typed ring: push / (tail(); pop()) -/

/-- the producer pushes, the consumer reads `tail()` and then calls `pop()` -/
inductive TOp (α : Type) where
  | push (x : α)
  | pop

def stepT {α : Type} (d : α) (t : TRing α) : TOp α → Option (TRing α × Option α)
  | .push x => (t.push x).map fun t' => (t', none)
  | .pop =>
    match t.tail with
    | none => none
    | some v => (t.pop d).map fun t' => (t', some v)

def runT {α : Type} (d : α) : TRing α → List (TOp α) → Option (TRing α × List (Option α))
  | t, [] => some (t, [])
  | t, op :: ops =>
    match stepT d t op with
    | none => none
    | some (t', o) =>
      match runT d t' ops with
      | none => none
      | some (t'', os) => some (t'', o :: os)

/-- reference queue; `none` = outside the contract of the typed ring (push needs
room, pop needs an element: the code does not test, see `ring_push_full_pop_empty`) -/
def specT {α : Type} (cap : Nat) (q : List α) : TOp α → Option (List α × Option α)
  | .push x => if q.length < cap then some (q ++ [x], none) else none
  | .pop =>
    match q with
    | [] => none
    | y :: q' => some (q', some y)

def runSpecT {α : Type} (cap : Nat) : List α → List (TOp α) → Option (List α × List (Option α))
  | q, [] => some (q, [])
  | q, op :: ops =>
    match specT cap q op with
    | none => none
    | some (q', o) =>
      match runSpecT cap q' ops with
      | none => none
      | some (q'', os) => some (q'', o :: os)

def pushedT {α : Type} : List (TOp α) → List α
  | [] => []
  | .push x :: ops => x :: pushedT ops
  | .pop :: ops => pushedT ops

def deliveredT {α : Type} : List (Option α) → List α
  | [] => []
  | some v :: os => v :: deliveredT os
  | none :: os => deliveredT os

theorem runT_refines {α : Type} (d : α) : ∀ (ops : List (TOp α)) {t : TRing α} {q q' : List α}
    {outs : List (Option α)}, Abs t.r t.buf q →
    runSpecT (t.r.size.toNat - 1) q ops = some (q', outs) →
    ∃ t', runT d t ops = some (t', outs) ∧ t'.r.size = t.r.size ∧ Abs t'.r t'.buf q'
  | [], t, q, q', outs, h, hs => by
      obtain ⟨rfl, rfl⟩ : q = q' ∧ [] = outs := by simpa [runSpecT] using hs
      exact ⟨t, rfl, rfl, h⟩
  | op :: ops, t, q, q', outs, h, hs => by
      simp only [runSpecT] at hs
      split at hs
      · cases hs
      · rename_i q1 o e
        split at hs
        · cases hs
        · rename_i q2 os e2
          obtain ⟨rfl, rfl⟩ : q2 = q' ∧ o :: os = outs := by simpa using hs
          have step : ∃ t1, stepT d t op = some (t1, o) ∧ t1.r.size = t.r.size ∧ Abs t1.r t1.buf q1 := by
            cases op with
            | push x =>
              simp only [specT] at e
              split at e
              · rename_i hr
                obtain ⟨rfl, rfl⟩ : q ++ [x] = q1 ∧ none = o := by simpa using e
                obtain ⟨t1, e1, hs1, h1⟩ := TRing.push_abs x h hr
                exact ⟨t1, by simp [stepT, e1], hs1, h1⟩
              · cases e
            | pop =>
              cases q with
              | nil => simp [specT] at e
              | cons y q0 =>
                obtain ⟨rfl, rfl⟩ : q0 = q1 ∧ some y = o := by simpa [specT] using e
                obtain ⟨t1, e1, hs1, h1⟩ := TRing.pop_abs d h
                exact ⟨t1, by simp [stepT, TRing.tail_abs h, e1], hs1, h1⟩
          obtain ⟨t1, e1, hs1, h1⟩ := step
          rw [← hs1] at e2
          obtain ⟨t2, e3, hs2, h2⟩ := runT_refines d ops h1 e2
          exact ⟨t2, by simp [runT, e1, e3], hs2.trans hs1, h2⟩

theorem specT_conserves {α : Type} (cap : Nat) : ∀ (ops : List (TOp α)) {q q' : List α}
    {outs : List (Option α)}, runSpecT cap q ops = some (q', outs) →
    q ++ pushedT ops = deliveredT outs ++ q'
  | [], q, q', outs, hs => by
      obtain ⟨rfl, rfl⟩ : q = q' ∧ [] = outs := by simpa [runSpecT] using hs
      simp [pushedT, deliveredT]
  | op :: ops, q, q', outs, hs => by
      simp only [runSpecT] at hs
      split at hs
      · cases hs
      · rename_i q1 o e
        split at hs
        · cases hs
        · rename_i q2 os e2
          obtain ⟨rfl, rfl⟩ : q2 = q' ∧ o :: os = outs := by simpa using hs
          have ih := specT_conserves cap ops e2
          cases op with
          | push x =>
            simp only [specT] at e
            split at e
            · obtain ⟨rfl, rfl⟩ : q ++ [x] = q1 ∧ none = o := by simpa using e
              simp only [pushedT, deliveredT]
              rw [← ih]; simp
            · cases e
          | pop =>
            cases q with
            | nil => simp [specT] at e
            | cons y q0 =>
              obtain ⟨rfl, rfl⟩ : q0 = q1 ∧ some y = o := by simpa [specT] using e
              simp only [pushedT, deliveredT, List.cons_append]
              rw [ih]

end Igris.C03
