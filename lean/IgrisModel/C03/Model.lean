/-
  C03 — model of
     igris/datastruct/ring.h          (struct ring_head + ring_* functions, C)
     igris/container/ring.h           (igris::ring<T>)
     igris/datastruct/ring_counter.h  (struct ring_counter, C)
     igris/container/cyclic_buffer.h  (igris::cyclic_buffer<T>)
     igris/container/unbounded_array.h (only what the two containers use: a
                                        heap array of `m_size` value-initialised
                                        elements, replaced as a whole by resize)

  Conventions.
  * `unsigned int` is `BitVec 32` (`U32`); every `+`/`-` below is the C
    wrap-around operation, comparisons are unsigned.  `int` parameters that are
    mixed with `unsigned` (ring_fixup_index, distance, get_last) are `BitVec 32`
    read as two's complement where the code reads them as `int`.
  * A backing buffer is a `List α` of a length that is INDEPENDENT of
    `ring_head.size`; every element access goes through a bounds test and the
    function returns `none` (= "fault": the real code touches memory outside
    the allocation, which ASan reports on the exactly sized heap buffers of the
    harness) when the index is outside the list.
  * `while` loops are structural recursions on an explicit fuel argument; the
    fuel supplied is always enough when `size ≥ 1` (proved in Lemmas.lean).
  * The functions are the code AFTER the `fix:` commits of branch fix-C03.  The
    pre-repair bodies that matter are kept as `…Orig` (used only by the
    `…_witness` theorems that document what was repaired).
-/
import IgrisModel.Common.Proto
namespace Igris.C03
open Igris.Proto

abbrev U32 := BitVec 32

/-- `struct ring_head { unsigned int head; unsigned int tail; unsigned int size; }` -/
structure RingHead where
  head : U32
  tail : U32
  size : U32
  deriving DecidableEq, Repr

/-! ## igris/datastruct/ring.h -/

/-- `r->size = r_size; r->head = 0; r->tail = 0;` -/
def ringInit (rsize : U32) : RingHead := { size := rsize, head := 0, tail := 0 }

/-- `r->head = 0; r->tail = 0;` -/
def ringClean (r : RingHead) : RingHead := { r with head := 0, tail := 0 }

/-- `while (x >= size) x -= size;` with `fuel` iterations allowed -/
def fixupLoop (size : U32) : Nat → U32 → U32
  | 0, x => x
  | fuel + 1, x => if x ≥ size then fixupLoop size fuel (x - size) else x

def ringFixupHead (r : RingHead) : RingHead :=
  { r with head := fixupLoop r.size r.head.toNat r.head }

def ringFixupTail (r : RingHead) : RingHead :=
  { r with tail := fixupLoop r.size r.tail.toNat r.tail }

/-- pre-repair `ring_fixup_index`: `return index % r->size;` — `int % unsigned`
converts `index` to `unsigned` first. -/
def ringFixupIndexOrig (r : RingHead) (index : BitVec 32) : BitVec 32 :=
  index % r.size

/-- `int size = (int)r->size; int rem = index % size; return rem < 0 ? rem + size : rem;`
(signed C `%` truncates towards zero = `BitVec.srem`). -/
def ringFixupIndex (r : RingHead) (index : BitVec 32) : BitVec 32 :=
  let size := r.size
  let rem := index.srem size
  if rem.slt 0 then rem + size else rem

/-- `return r->head == r->tail;` -/
def ringEmpty (r : RingHead) : Bool := r.head == r.tail

/-- `return r->head == (r->tail ? r->tail : r->size) - 1;` -/
def ringFull (r : RingHead) : Bool :=
  r.head == (if r.tail ≠ 0 then r.tail else r.size) - 1

/-- `(r->head >= r->tail) ? r->head - r->tail : r->size + r->head - r->tail` -/
def ringAvail (r : RingHead) : U32 :=
  if r.head ≥ r.tail then r.head - r.tail else r.size + r.head - r.tail

/-- `(r->head >= r->tail) ? r->size - 1 + (r->tail - r->head) : (r->tail - r->head) - 1` -/
def ringRoom (r : RingHead) : U32 :=
  if r.head ≥ r.tail then r.size - 1 + (r.tail - r.head) else (r.tail - r.head) - 1

/-- `++r->head; if (r->head == r->size) r->head = 0;` -/
def ringMoveHeadOne (r : RingHead) : RingHead :=
  let h := r.head + 1
  { r with head := if h == r.size then 0 else h }

def ringMoveTailOne (r : RingHead) : RingHead :=
  let t := r.tail + 1
  { r with tail := if t == r.size then 0 else t }

/-- `r->head += bias; ring_fixup_head(r);` -/
def ringMoveHead (r : RingHead) (bias : U32) : RingHead :=
  ringFixupHead { r with head := r.head + bias }

def ringMoveTail (r : RingHead) (bias : U32) : RingHead :=
  ringFixupTail { r with tail := r.tail + bias }

/-- `buffer[i] = c` with the bounds test (none = write outside the allocation) -/
def poke {α : Type} (buf : List α) (i : Nat) (c : α) : Option (List α) :=
  if i < buf.length then some (buf.set i c) else none

/-- `if (ring_full(r)) return 0; *(buffer + r->head) = c; ring_move_head_one(r); return 1;` -/
def ringPutc {α : Type} (r : RingHead) (buf : List α) (c : α) : Option (RingHead × List α × Int) :=
  if ringFull r then some (r, buf, 0)
  else match poke buf r.head.toNat c with
    | none => none
    | some buf' => some (ringMoveHeadOne r, buf', 1)

/-- `if (ring_empty(r)) return -1; unsigned char c = *(buffer + r->tail); ring_move_tail_one(r); return c;`
`conv` is the conversion of the local `c` to the returned `int`. -/
def ringGetcWith (conv : Byte → Int) (r : RingHead) (buf : List Byte) : Option (RingHead × Int) :=
  if ringEmpty r then some (r, -1)
  else match buf[r.tail.toNat]? with
    | none => none
    | some c => some (ringMoveTailOne r, conv c)

/-- repaired: `unsigned char c` → value 0..255 -/
def ringGetc : RingHead → List Byte → Option (RingHead × Int) :=
  ringGetcWith (fun c => (c.toNat : Int))

/-- pre-repair: `char c` (signed on this platform) → value −128..127 -/
def ringGetcOrig : RingHead → List Byte → Option (RingHead × Int) :=
  ringGetcWith (fun c => c.toInt)

/-- `while (size--) { c = ring_getc(r, buffer); if (c == -1) return ret; *data++ = c; ret++; } return ret;`
The bytes stored through `data` are returned in order (`ret` = their number). -/
def ringReadWith (getc : RingHead → List Byte → Option (RingHead × Int)) (buf : List Byte) :
    Nat → RingHead → List Byte → Option (RingHead × List Byte)
  | 0, r, acc => some (r, acc)
  | n + 1, r, acc =>
    match getc r buf with
    | none => none
    | some (r', c) =>
      if c == -1 then some (r', acc)
      else ringReadWith getc buf n r' (acc ++ [BitVec.ofInt 8 c])

def ringRead (r : RingHead) (buf : List Byte) (size : Nat) : Option (RingHead × List Byte) :=
  ringReadWith ringGetc buf size r []

def ringReadOrig (r : RingHead) (buf : List Byte) (size : Nat) : Option (RingHead × List Byte) :=
  ringReadWith ringGetcOrig buf size r []

/-- `while (size--) { if (ring_putc(r, buffer, *data++) == 0) return ret; ret++; } return ret;` -/
def ringWriteAux {α : Type} : List α → RingHead → List α → Nat → Option (RingHead × List α × Nat)
  | [], r, buf, ret => some (r, buf, ret)
  | c :: rest, r, buf, ret =>
    match ringPutc r buf c with
    | none => none
    | some (r', buf', rc) =>
      if rc == 0 then some (r', buf', ret) else ringWriteAux rest r' buf' (ret + 1)

def ringWrite {α : Type} (r : RingHead) (buf : List α) (data : List α) : Option (RingHead × List α × Nat) :=
  ringWriteAux data r buf 0

/-- `ring_for_each(n, r)`: `for (n = tail; n != head; n = (n + 1) % size)` — the
indices visited (fuel = maximal number of iterations). -/
def ringForEach (r : RingHead) : Nat → U32 → List U32
  | 0, _ => []
  | fuel + 1, n => if n != r.head then n :: ringForEach r fuel ((n + 1) % r.size) else []

/-! ## Operation language of the C ring.

The driver executes exactly `stepRing`; the refinement theorems of Props.lean
quantify over arbitrary `List Op`.  `produce`/`consume` are the two usage
patterns of the bulk moves: the user code touches the slots itself
(`buffer[(head + i) % size] = d[i]`, DMA style) and then publishes / releases
them with `ring_move_head` / `ring_move_tail`; the slot arithmetic of the user
side (`directFill`, `directPeek`) is the harness' code, not igris'. -/

/-- user side: `for (i…) buffer[(p + i) % size] = d[i];` -/
def directFill {α : Type} (buf : List α) (size : Nat) : Nat → List α → Option (List α)
  | _, [] => some buf
  | p, b :: bs =>
    match poke buf (p % size) b with
    | none => none
    | some buf' => directFill buf' size (p + 1) bs

/-- user side: `for (i…) out[i] = buffer[(p + i) % size];` -/
def directPeek {α : Type} (buf : List α) (size : Nat) : Nat → Nat → Option (List α)
  | _, 0 => some []
  | p, n + 1 =>
    match buf[p % size]? with
    | none => none
    | some x => (directPeek buf size (p + 1) n).map (x :: ·)

inductive Op where
  | putc (c : Byte)
  | getc
  | write (d : List Byte)
  | read (n : Nat)
  | produce (d : List Byte)   -- fill the free slots after head, then `ring_move_head(|d|)`
  | produce1 (c : Byte)       -- fill slot head, then `ring_move_head_one`
  | consume (n : Nat)         -- read n slots from tail, then `ring_move_tail(n)`
  | consume1                  -- read slot tail, then `ring_move_tail_one`
  | moveHead (n : U32)        -- bare `ring_move_head`
  | moveHeadOne
  | moveTail (n : U32)        -- bare `ring_move_tail`
  | moveTailOne
  | clean
  deriving Repr

inductive Out where
  | int (v : Int)             -- return value of putc / getc
  | count (n : Nat)           -- return value of write
  | bytes (d : List Byte)     -- bytes delivered by read / consume (return value = their number)
  | unit
  deriving DecidableEq, Repr

def stepRing (r : RingHead) (buf : List Byte) : Op → Option (RingHead × List Byte × Out)
  | .putc c => (ringPutc r buf c).map fun (r', b', rc) => (r', b', .int rc)
  | .getc => (ringGetc r buf).map fun (r', c) => (r', buf, .int c)
  | .write d => (ringWrite r buf d).map fun (r', b', n) => (r', b', .count n)
  | .read n => (ringRead r buf n).map fun (r', out) => (r', buf, .bytes out)
  | .produce d =>
      (directFill buf r.size.toNat r.head.toNat d).map fun b' =>
        (ringMoveHead r (BitVec.ofNat 32 d.length), b', .unit)
  | .produce1 c => (poke buf r.head.toNat c).map fun b' => (ringMoveHeadOne r, b', .unit)
  | .consume n =>
      (directPeek buf r.size.toNat r.tail.toNat n).map fun out =>
        (ringMoveTail r (BitVec.ofNat 32 n), buf, .bytes out)
  | .consume1 => (buf[r.tail.toNat]?).map fun x => (ringMoveTailOne r, buf, .bytes [x])
  | .moveHead n => some (ringMoveHead r n, buf, .unit)
  | .moveHeadOne => some (ringMoveHeadOne r, buf, .unit)
  | .moveTail n => some (ringMoveTail r n, buf, .unit)
  | .moveTailOne => some (ringMoveTailOne r, buf, .unit)
  | .clean => some (ringClean r, buf, .unit)

/-- a whole history; `none` = some operation faulted -/
def runRing : RingHead → List Byte → List Op → Option (RingHead × List Byte × List Out)
  | r, buf, [] => some (r, buf, [])
  | r, buf, op :: ops =>
    match stepRing r buf op with
    | none => none
    | some (r', buf', o) =>
      match runRing r' buf' ops with
      | none => none
      | some (r'', buf'', os) => some (r'', buf'', o :: os)

/-! ## igris/container/ring.h — `igris::ring<T>` (`r` + `unbounded_array<T> buffer`) -/

structure TRing (α : Type) where
  r : RingHead
  buf : List α

namespace TRing
variable {α : Type}

/-- `ring(int bufsize) : buffer(bufsize + 1) { ring_init(&r, bufsize + 1); }` -/
def mk' (dflt : α) (bufsize : Nat) : TRing α :=
  { r := ringInit (BitVec.ofNat 32 (bufsize + 1)), buf := List.replicate (bufsize + 1) dflt }

/-- `ring() = default;` -/
def empty : TRing α := { r := ⟨0, 0, 0⟩, buf := [] }

/-- repaired `resize(sz)`: `buffer.resize(sz + 1); ring_init(&r, sz + 1);`
(`unbounded_array::resize` releases the old array and creates `sz+1`
value-initialised elements). -/
def resize (dflt : α) (_ : TRing α) (sz : Nat) : TRing α :=
  { r := ringInit (BitVec.ofNat 32 (sz + 1)), buf := List.replicate (sz + 1) dflt }

/-- pre-repair `resize(sz)`: `buffer.resize(sz); ring_init(&r, sz + 1);` -/
def resizeOrig (dflt : α) (_ : TRing α) (sz : Nat) : TRing α :=
  { r := ringInit (BitVec.ofNat 32 (sz + 1)), buf := List.replicate sz dflt }

/-- `reset()`: `ring_init(&r, buffer.size());` -/
def reset (t : TRing α) : TRing α := { t with r := ringInit (BitVec.ofNat 32 t.buf.length) }

/-- `push(obj)` / `emplace(args)` (repaired: `place->~T();` first):
`T *place = buffer.data() + r.head; place->~T(); new (place) T(obj); ring_move_head_one(&r);`
(no fullness test in the code; the VALUE behaviour is that of the pre-repair body) -/
def push (t : TRing α) (x : α) : Option (TRing α) :=
  match poke t.buf t.r.head.toNat x with
  | none => none
  | some b => some { r := ringMoveHeadOne t.r, buf := b }

/-- pre-repair `pop()`: `int idx = r.tail; buffer[idx].~T(); ring_move_tail_one(&r);`
(the slot keeps its bytes; no object lives there any more) -/
def popOrig (t : TRing α) : Option (TRing α) :=
  if t.r.tail.toNat < t.buf.length then some { t with r := ringMoveTailOne t.r } else none

/-- repaired `pop()`: `int idx = r.tail; buffer[idx].~T(); new (buffer.data() + idx) T();
ring_move_tail_one(&r);` — the released slot holds a value-initialised object
(`d` = `T()`) again, as every slot does after construction. -/
def pop (t : TRing α) (d : α) : Option (TRing α) :=
  if t.r.tail.toNat < t.buf.length then
    some { r := ringMoveTailOne t.r, buf := t.buf.set t.r.tail.toNat d }
  else none

/-- `clear()`: `while (!empty()) pop();` -/
def clear (d : α) : Nat → TRing α → Option (TRing α)
  | 0, t => some t
  | fuel + 1, t => if ringEmpty t.r then some t else
      match pop t d with
      | none => none
      | some t' => clear d fuel t'

/-- `T &get(int index) { return buffer[index]; }` -/
def get (t : TRing α) (index : Nat) : Option α := t.buf[index]?

/-- `tail()`: `buffer[r.tail]` -/
def tail (t : TRing α) : Option α := t.buf[t.r.tail.toNat]?

/-- `head_place()`: `buffer[r.head]` -/
def headPlace (t : TRing α) : Option α := t.buf[t.r.head.toNat]?

/-- `fixup_index(index)`: `ring_fixup_index(&r, index)` -/
def fixupIndex (t : TRing α) (index : BitVec 32) : BitVec 32 := ringFixupIndex t.r index

/-- index used by `last()`: `int idx = fixup_index(r.head - 1);` (`r.head - 1`
is computed in `unsigned` and handed over as `int`: same 32 bits) -/
def lastIndex (t : TRing α) : BitVec 32 := ringFixupIndex t.r (t.r.head - 1)

def lastIndexOrig (t : TRing α) : BitVec 32 := ringFixupIndexOrig t.r (t.r.head - 1)

/-- `last()`: `buffer[idx]` (`int` → `size_t`: sign extension) -/
def last (t : TRing α) : Option α :=
  let i := t.lastIndex
  if i.slt 0 then none else t.buf[i.toNat]?

/-- index used by `get_last` for element `i`:
`fixup_index(r.head - offset - i - 1)` resp. `fixup_index(r.head - count - offset + i)` -/
def getLastIndex (t : TRing α) (offset count : BitVec 32) (fromEnd : Bool) (i : Nat) : BitVec 32 :=
  let i32 := BitVec.ofNat 32 i
  if fromEnd then ringFixupIndex t.r (t.r.head - offset - i32 - 1)
  else ringFixupIndex t.r (t.r.head - count - offset + i32)

def getLastAux (t : TRing α) (offset count : BitVec 32) (fromEnd : Bool) : Nat → Nat → Option (List α)
  | 0, _ => some []
  | n + 1, i =>
    let k := t.getLastIndex offset count fromEnd i
    if k.slt 0 then none else
    match t.buf[k.toNat]? with
    | none => none
    | some x => (getLastAux t offset count fromEnd n (i + 1)).map (x :: ·)

/-- `get_last(offset, count, order_from_end)` for `count ≥ 0` -/
def getLast (t : TRing α) (offset : BitVec 32) (count : Nat) (fromEnd : Bool) : Option (List α) :=
  getLastAux t offset (BitVec.ofNat 32 count) fromEnd count 0

/-- `set_last_index(idx)`: `r.head = idx; move_head_one();` -/
def setLastIndex (t : TRing α) (idx : BitVec 32) : TRing α :=
  { t with r := ringMoveHeadOne { t.r with head := idx } }

/-- `distance(a, b)`: `(a - b + r.size) % r.size` (`int - int`, then `unsigned`) -/
def distance (t : TRing α) (a b : BitVec 32) : BitVec 32 := (a - b + t.r.size) % t.r.size

end TRing

/-! ## igris/datastruct/ring_counter.h (`int` arithmetic; overflow of `int` is
not modelled: `Int`) -/

structure RingCounter where
  counter : Int
  size : Int
  deriving DecidableEq, Repr

/-- `while (x >= size) x -= size;` -/
def rcDown (size : Int) : Nat → Int → Int
  | 0, x => x
  | fuel + 1, x => if x ≥ size then rcDown size fuel (x - size) else x

/-- `while (x < 0) x += size;` -/
def rcUp (size : Int) : Nat → Int → Int
  | 0, x => x
  | fuel + 1, x => if x < 0 then rcUp size fuel (x + size) else x

def rcInit (size : Int) : RingCounter := { counter := 0, size := size }

def rcFixup (rc : RingCounter) : RingCounter :=
  { rc with counter := rcDown rc.size rc.counter.toNat rc.counter }

/-- `while (pos >= size) pos -= size; while (pos < 0) pos += size; return pos;` -/
def rcFixupPos (rc : RingCounter) (pos : Int) : Int :=
  let p := rcDown rc.size pos.toNat pos
  rcUp rc.size (-p).toNat p

def rcSet (rc : RingCounter) (v : Int) : RingCounter := rcFixup { rc with counter := v }

def rcIncrement (rc : RingCounter) (arg : Int) : RingCounter :=
  rcFixup { rc with counter := rc.counter + arg }

def rcGet (rc : RingCounter) : Int := rc.counter

/-- `int c = rc->counter - i; while (c < 0) c += rc->size; return c;` -/
def rcPrev (rc : RingCounter) (i : Int) : Int :=
  let c := rc.counter - i
  rcUp rc.size (-c).toNat c

def rcLast (rc : RingCounter) (no : Int) : Int := rcFixupPos rc (rc.counter - no)

/-! ## igris/container/cyclic_buffer.h -/

structure Cyclic (α : Type) where
  data : List α
  counter : RingCounter
  fill : Nat            -- `_size`

namespace Cyclic
variable {α : Type}

/-- `cyclic_buffer(size) : data(size) { ring_counter_init(&counter, size); }` -/
def mk' (dflt : α) (size : Nat) : Cyclic α :=
  { data := List.replicate size dflt, counter := rcInit size, fill := 0 }

/-- `int` index → `size_t` subscript of `unbounded_array` -/
def at? (d : List α) (i : Int) : Option α := if i < 0 then none else d[i.toNat]?

/-- `push(val)`: returns the overwritten element -/
def push (c : Cyclic α) (v : α) : Option (Cyclic α × α) :=
  let fill := if (c.fill : Int) < c.counter.size then c.fill + 1 else c.fill
  let cnt := rcIncrement c.counter 1
  let k := rcGet cnt
  match at? c.data k with
  | none => none
  | some old => some ({ data := c.data.set k.toNat v, counter := cnt, fill := fill }, old)

/-- `operator[](i)`: `data[ring_counter_prev(&counter, i)]` -/
def nth (c : Cyclic α) (i : Int) : Option α := at? c.data (rcPrev c.counter i)

/-- repaired `resize(size)`: `data.resize(size); ring_counter_init(&counter, size); _size = 0;` -/
def resize (dflt : α) (_ : Cyclic α) (size : Nat) : Cyclic α :=
  { data := List.replicate size dflt, counter := rcInit size, fill := 0 }

end Cyclic

/-! ## igris/datastruct/bytering.h — the pointer version of the byte ring

`struct bytering_head { unsigned char *start, *head, *tail, *end; }`.  Pointers
are addresses (`Nat`); the memory block handed to `bytering_init` is a
`List Byte` living at address `start`, every dereference is bounds-tested
against it (`none` = access outside the block).  Queue convention of this file:
`push` stores at `tail`, `pop` loads from `head`.  The functions are the code
after the `fix:` commits; `…Orig` are the pre-repair bodies (witnesses only). -/

structure ByteRing where
  start : Nat
  head : Nat
  tail : Nat
  end_ : Nat
  deriving DecidableEq, Repr

/-- `r->start = r->head = r->tail = buf; r->end = buf + size;` -/
def brInit (buf size : Nat) : ByteRing := { start := buf, head := buf, tail := buf, end_ := buf + size }

/-- repaired `__bytering_fixup(r, &p)`: `if (*fixed >= r->end) *fixed = r->start;` -/
def brFixup (b : ByteRing) (p : Nat) : Nat := if p ≥ b.end_ then b.start else p

/-- pre-repair: `if (r->end >= *fixed) *fixed = r->start;` (true for every
pointer inside the block: the pointer is reset on every step) -/
def brFixupOrig (b : ByteRing) (p : Nat) : Nat := if b.end_ ≥ p then b.start else p

/-- `return r->head == r->tail;` -/
def brEmpty (b : ByteRing) : Bool := b.head == b.tail

/-- repaired `bytering_full`: `return r->tail == (r->head == r->start ? r->end : r->head) - 1;` -/
def brFull (b : ByteRing) : Bool := b.tail == (if b.head == b.start then b.end_ else b.head) - 1

/-- pre-repair: `return r->head == (r->tail == r->start ? r->end : r->tail) - 1;`
(the formula of ring.h, where `head` is the write side — here `tail` is) -/
def brFullOrig (b : ByteRing) : Bool := b.head == (if b.tail == b.start then b.end_ else b.tail) - 1

/-- `*p` (load) for a pointer into the block at `start` -/
def brLoad (b : ByteRing) (mem : List Byte) (p : Nat) : Option Byte :=
  if p < b.start then none else mem[p - b.start]?

/-- `*p = c` (store) -/
def brStore (b : ByteRing) (mem : List Byte) (p : Nat) (c : Byte) : Option (List Byte) :=
  if p < b.start then none else poke mem (p - b.start) c

/-- `unsigned char ret = *r->head++; __bytering_fixup(r, &r->head); return ret;` -/
def brPopNocheckWith (fix : ByteRing → Nat → Nat) (b : ByteRing) (mem : List Byte) :
    Option (ByteRing × Int) :=
  match brLoad b mem b.head with
  | none => none
  | some c => some ({ b with head := fix b (b.head + 1) }, (c.toNat : Int))

/-- `*r->tail++ = c; __bytering_fixup(r, &r->tail); return 0;` -/
def brPushNocheckWith (fix : ByteRing → Nat → Nat) (b : ByteRing) (mem : List Byte) (c : Byte) :
    Option (ByteRing × List Byte) :=
  match brStore b mem b.tail c with
  | none => none
  | some mem' => some ({ b with tail := fix b (b.tail + 1) }, mem')

def brPopNocheck := brPopNocheckWith brFixup
def brPushNocheck := brPushNocheckWith brFixup

/-- `if (bytering_empty(r)) return -1; return bytering_pop_nocheck(r);` -/
def brPopWith (fix : ByteRing → Nat → Nat) (b : ByteRing) (mem : List Byte) : Option (ByteRing × Int) :=
  if brEmpty b then some (b, -1) else brPopNocheckWith fix b mem

/-- `if (bytering_full(r)) return -1; bytering_push_nocheck(r, c); return 0;` -/
def brPushWith (full : ByteRing → Bool) (fix : ByteRing → Nat → Nat) (b : ByteRing) (mem : List Byte)
    (c : Byte) : Option (ByteRing × List Byte × Int) :=
  if full b then some (b, mem, -1)
  else (brPushNocheckWith fix b mem c).map fun (b', m') => (b', m', 0)

def brPop := brPopWith brFixup
def brPush := brPushWith brFull brFixup

/-- operation language of bytering.h (what the driver executes, what the
history theorems quantify over) -/
inductive BOp where
  | push (c : Byte)
  | pop
  deriving Repr

def stepB (b : ByteRing) (mem : List Byte) : BOp → Option (ByteRing × List Byte × Int)
  | .push c => brPush b mem c
  | .pop => (brPop b mem).map fun (b', v) => (b', mem, v)

def runB : ByteRing → List Byte → List BOp → Option (ByteRing × List Byte × List Int)
  | b, mem, [] => some (b, mem, [])
  | b, mem, op :: ops =>
    match stepB b mem op with
    | none => none
    | some (b', mem', o) =>
      match runB b' mem' ops with
      | none => none
      | some (b'', mem'', os) => some (b'', mem'', o :: os)

/-! ## `ring_for_each(n, r) BODY` as the loop the macro expands to

`for (unsigned int n = (r)->tail; n != (r)->head; n = (n + 1) % (r)->size) BODY`
with a body that reads `buffer[n]` and updates a loop-carried state `s`.
`none` = the body read outside the buffer, or the loop was still running after
`fuel` evaluations of the loop test (non-termination within `fuel`). -/
def ringForEachFold {α σ : Type} (r : RingHead) (buf : List α) (f : σ → U32 → α → σ) :
    Nat → U32 → σ → Option σ
  | 0, _, _ => none
  | fuel + 1, n, s =>
    if n != r.head then
      match buf[n.toNat]? with
      | none => none
      | some x => ringForEachFold r buf f fuel ((n + 1) % r.size) (f s n x)
    else some s

/-! ## igris::ring<T>: copy / move / assignment (implicitly generated members)
and `index_of` -/

/-- `std::copy(first, last, dst)` over already constructed destination elements -/
def stdCopy {α : Type} : List α → List α → List α
  | s :: ss, _ :: ds => s :: stdCopy ss ds
  | _, ds => ds

/-- `unbounded_array(const unbounded_array &oth) : unbounded_array(oth.data(), oth.size())`:
`sz` value-initialised elements, then `std::copy(data, data + sz, m_data)`. -/
def arrCopy {α : Type} (dflt : α) (src : List α) : List α :=
  stdCopy src (List.replicate src.length dflt)

namespace TRing
variable {α : Type}

/-- implicit copy constructor `ring(const ring &)`: `r(oth.r), buffer(oth.buffer)` -/
def copy (dflt : α) (t : TRing α) : TRing α := { r := t.r, buf := arrCopy dflt t.buf }

/-- implicit copy assignment: `r = oth.r; buffer = oth.buffer;` (repaired
`unbounded_array::operator=`: release the old array, allocate `oth.size()`,
copy-construct each element) -/
def assign (_ : TRing α) (oth : TRing α) : TRing α := { r := oth.r, buf := oth.buf.map fun x => x }

/-- implicit move constructor `ring(ring &&)`: `r` is copied (a POD),
`unbounded_array(unbounded_array &&)` steals the storage.  Returns
(new object, moved-from object): the moved-from ring keeps `r.size` but owns
no storage. -/
def move (t : TRing α) : TRing α × TRing α := ({ r := t.r, buf := t.buf }, { r := t.r, buf := [] })

end TRing

/-- address of `buffer.data() + i` for elements of `elem` bytes at address `base` -/
def slotAddr (base elem i : Nat) : Nat := base + i * elem

/-- `index_of(element)`: `return element - buffer.data();` (pointer difference in
elements, converted to `int`) -/
def indexOf (base elem p : Nat) : Int := (((p - base) / elem : Nat) : Int)

/-! ## Slot lifetime of igris::ring<T> over unbounded_array<T>, as the code WAS
before the two lifetime repairs (`pushOrig`/`popOrig`/`clearOrig`; kept for the
witness theorems; `VRing` below is the code as it is now)

Every slot of the `unbounded_array` holds bytes (`t.buf`, they persist whatever
happens to the object) and either a living `T` object or none (`live`).  The
three counters record the events that are harmless for a trivially destructible
`T` and defects for a `T` that owns something:
`overLive` — placement-new over a living object (the old object's destructor
never runs), `deadDtor` — `~T()` on a slot without a living object (double
destruction), `deadRead` — copy from a slot without a living object. -/
structure LRing (α : Type) where
  t : TRing α
  live : List Bool
  overLive : Nat
  deadDtor : Nat
  deadRead : Nat

namespace LRing
variable {α : Type}

def deadCount (l : List Bool) : Nat := (l.filter fun b => !b).length

/-- `ring(int bufsize)`: `unbounded_array(bufsize + 1)` constructs every element -/
def mk' (dflt : α) (bufsize : Nat) : LRing α :=
  { t := TRing.mk' dflt bufsize, live := List.replicate (bufsize + 1) true,
    overLive := 0, deadDtor := 0, deadRead := 0 }

/-- pre-repair `push` / `emplace`: `new (buffer.data() + r.head) T(obj); ring_move_head_one(&r);` -/
def pushOrig (l : LRing α) (x : α) : Option (LRing α) :=
  match l.t.push x with
  | none => none
  | some t' =>
    let h := l.t.r.head.toNat
    some { l with t := t', live := l.live.set h true,
                  overLive := l.overLive + (if l.live.getD h false then 1 else 0) }

/-- pre-repair `pop`: `buffer[r.tail].~T(); ring_move_tail_one(&r);` -/
def popOrig (l : LRing α) : Option (LRing α) :=
  match l.t.popOrig with
  | none => none
  | some t' =>
    let i := l.t.r.tail.toNat
    some { l with t := t', live := l.live.set i false,
                  deadDtor := l.deadDtor + (if l.live.getD i false then 0 else 1) }

/-- `clear()`: `while (!empty()) pop();` -/
def clearOrig : Nat → LRing α → Option (LRing α)
  | 0, l => some l
  | fuel + 1, l => if ringEmpty l.t.r then some l else
      match popOrig l with
      | none => none
      | some l' => clearOrig fuel l'

/-- `~ring()` = `~unbounded_array()` = `invalidate()`: `~T()` on EVERY slot -/
def destroy (l : LRing α) : LRing α :=
  { l with deadDtor := l.deadDtor + deadCount l.live, live := l.live.map fun _ => false }

/-- `resize(sz)`: `buffer.resize(sz + 1)` = `invalidate(); create_buffer(sz + 1)`, `ring_init` -/
def resize (dflt : α) (l : LRing α) (sz : Nat) : LRing α :=
  { l with t := TRing.resize dflt l.t sz, live := List.replicate (sz + 1) true,
           deadDtor := l.deadDtor + deadCount l.live }

/-- copy construction from `l` (then `l` itself is destroyed): `std::copy` reads
every slot of the source, living or not; every slot of the copy lives -/
def copyAndDrop (dflt : α) (l : LRing α) : LRing α :=
  { t := TRing.copy dflt l.t, live := List.replicate l.t.buf.length true,
    overLive := l.overLive, deadDtor := l.deadDtor + deadCount l.live,
    deadRead := l.deadRead + deadCount l.live }

/-- move construction from `l` (the moved-from object owns nothing and destroys nothing) -/
def moveAndDrop (l : LRing α) : LRing α := { l with t := (TRing.move l.t).1 }

/-- `tail()` read by the user: is there an object? -/
def tailLive (l : LRing α) : Bool := l.live.getD l.t.r.tail.toNat false

end LRing

/-! ## ring_counter.h in `int` arithmetic with the overflow made explicit

`none` = a signed addition/subtraction left `[INT_MIN, INT_MAX]` (undefined
behaviour in C; UBSan aborts).  The unchecked functions above are these with
the test removed. -/

def inInt (x : Int) : Prop := -2147483648 ≤ x ∧ x ≤ 2147483647
instance (x : Int) : Decidable (inInt x) := by unfold inInt; exact inferInstance

/-- an `int` result: `none` when it does not fit -/
def ckInt (x : Int) : Option Int := if inInt x then some x else none

/-- `while (x >= size) x -= size;` -/
def rcDownC (size : Int) : Nat → Int → Option Int
  | 0, x => some x
  | fuel + 1, x => if x ≥ size then (ckInt (x - size)).bind (rcDownC size fuel) else some x

/-- `while (x < 0) x += size;` -/
def rcUpC (size : Int) : Nat → Int → Option Int
  | 0, x => some x
  | fuel + 1, x => if x < 0 then (ckInt (x + size)).bind (rcUpC size fuel) else some x

/-- `rc->counter += arg; ring_counter_fixup(rc);` -/
def rcIncrementC (rc : RingCounter) (arg : Int) : Option RingCounter :=
  (ckInt (rc.counter + arg)).bind fun c =>
    (rcDownC rc.size c.toNat c).map fun c' => { rc with counter := c' }

/-- `rc->counter = val; ring_counter_fixup(rc);` -/
def rcSetC (rc : RingCounter) (v : Int) : Option RingCounter :=
  (rcDownC rc.size v.toNat v).map fun c' => { rc with counter := c' }

/-- `int c = rc->counter - i; while (c < 0) c += rc->size; return c;` -/
def rcPrevC (rc : RingCounter) (i : Int) : Option Int :=
  (ckInt (rc.counter - i)).bind fun c => rcUpC rc.size (-c).toNat c

/-- `ring_counter_fixup_pos(rc, pos)` -/
def rcFixupPosC (rc : RingCounter) (pos : Int) : Option Int :=
  (rcDownC rc.size pos.toNat pos).bind fun p => rcUpC rc.size (-p).toNat p

/-- `ring_counter_last(rc, no)`: `ring_counter_fixup_pos(rc, rc->counter - no)` -/
def rcLastC (rc : RingCounter) (no : Int) : Option Int :=
  (ckInt (rc.counter - no)).bind (rcFixupPosC rc)

/-! ## Slot lifetime of igris::ring<T> over unbounded_array<T>, as the code IS
(after the repairs 5bfd4f6 `pop` and fcfbb44 `push`/`emplace`)

Every constructor call and every destructor call on a slot of the ring's array
is an event: `ctor` / `dtor` count them, `live` says which slots hold a living
object, `overLive` / `deadDtor` / `deadRead` count the events that must not
happen (construction over a living object, destruction of / copy from a slot
without one). -/
structure VRing (α : Type) where
  t : TRing α
  live : List Bool
  ctor : Nat
  dtor : Nat
  overLive : Nat
  deadDtor : Nat
  deadRead : Nat

namespace VRing
variable {α : Type}

/-- `new (buffer.data() + i) T(…)` -/
def construct (v : VRing α) (i : Nat) : VRing α :=
  { v with live := v.live.set i true, ctor := v.ctor + 1,
           overLive := v.overLive + (if v.live.getD i false then 1 else 0) }

/-- `buffer[i].~T()` -/
def destruct (v : VRing α) (i : Nat) : VRing α :=
  { v with live := v.live.set i false, dtor := v.dtor + 1,
           deadDtor := v.deadDtor + (if v.live.getD i false then 0 else 1) }

/-- `ring(int bufsize)`: `unbounded_array(bufsize + 1)` constructs every element -/
def mk' (dflt : α) (bufsize : Nat) : VRing α :=
  { t := TRing.mk' dflt bufsize, live := List.replicate (bufsize + 1) true,
    ctor := bufsize + 1, dtor := 0, overLive := 0, deadDtor := 0, deadRead := 0 }

/-- `push` / `emplace`: `place->~T(); new (place) T(obj); ring_move_head_one(&r);` -/
def push (v : VRing α) (x : α) : Option (VRing α) :=
  match v.t.push x with
  | none => none
  | some t' =>
    let h := v.t.r.head.toNat
    some { (v.destruct h).construct h with t := t' }

/-- `push(obj)` with `obj` being the head slot itself (`place == &obj`, e.g.
`r.push(r.head_place())`): nothing is destroyed or constructed, the head moves on -/
def pushSelf (v : VRing α) : VRing α := { v with t := { v.t with r := ringMoveHeadOne v.t.r } }

/-- `push(obj)` / `emplace(args)` whose constructor THROWS (round 3b, after the repair
`try { new (place) T(obj); } catch (...) { new (place) T(); throw; }`): `place->~T();` has run,
the failed construction has produced no object, the handler value-constructs a `T` (`d` = `T()`)
in the slot and rethrows; `ring_move_head_one` is not reached. -/
def pushThrow (v : VRing α) (d : α) : Option (VRing α) :=
  let h := v.t.r.head.toNat
  match poke v.t.buf h d with
  | none => none
  | some b => some { (v.destruct h).construct h with t := { v.t with buf := b } }

/-- `pop`: `buffer[idx].~T(); new (buffer.data() + idx) T(); ring_move_tail_one(&r);` -/
def pop (v : VRing α) (d : α) : Option (VRing α) :=
  match v.t.pop d with
  | none => none
  | some t' =>
    let i := v.t.r.tail.toNat
    some { (v.destruct i).construct i with t := t' }

/-- `clear()`: `while (!empty()) pop();` -/
def clear (d : α) : Nat → VRing α → Option (VRing α)
  | 0, v => some v
  | fuel + 1, v => if ringEmpty v.t.r then some v else
      match pop v d with
      | none => none
      | some v' => clear d fuel v'

/-- `unbounded_array::invalidate()`: `~T()` on EVERY slot, storage released -/
def invalidate (v : VRing α) : VRing α :=
  { v with dtor := v.dtor + v.live.length, deadDtor := v.deadDtor + LRing.deadCount v.live,
           live := v.live.map fun _ => false }

/-- `~ring()` = `~unbounded_array()` = `invalidate()` -/
def destroy (v : VRing α) : VRing α := v.invalidate

/-- `resize(sz)`: `buffer.resize(sz + 1)` = `invalidate(); create_buffer(sz + 1)`, `ring_init` -/
def resize (dflt : α) (v : VRing α) (sz : Nat) : VRing α :=
  let w := v.invalidate
  { w with t := TRing.resize dflt v.t sz, live := List.replicate (sz + 1) true, ctor := w.ctor + (sz + 1) }

/-- copy construction from `v`, then `v` itself is destroyed: the new array
value-constructs `size` elements, `std::copy` reads every slot of the source -/
def copyAndDrop (dflt : α) (v : VRing α) : VRing α :=
  let w := v.invalidate
  { w with t := TRing.copy dflt v.t, live := List.replicate v.t.buf.length true,
           ctor := w.ctor + v.t.buf.length, deadRead := v.deadRead + LRing.deadCount v.live }

/-- move construction from `v` (the moved-from object owns nothing and destroys nothing) -/
def moveAndDrop (v : VRing α) : VRing α := { v with t := (TRing.move v.t).1 }

/-- copy ASSIGNMENT of `v` to a freshly constructed `ring<T>(m)`, then `v` itself is
destroyed: `unbounded_array::operator=` destroys the `m + 1` elements of the target,
allocates `size` elements and copy-constructs each from the source slot -/
def assignAndDrop (dflt : α) (v : VRing α) (m : Nat) : VRing α :=
  let w := v.invalidate
  { w with t := TRing.assign (TRing.mk' dflt m) v.t, live := List.replicate v.t.buf.length true,
           ctor := w.ctor + (m + 1) + v.t.buf.length, dtor := w.dtor + (m + 1),
           deadRead := v.deadRead + LRing.deadCount v.live }

end VRing

/-- scripts over one `igris::ring<T>` object and its successors by copy / move -/
inductive VOp (α : Type) where
  | push (x : α)
  | pushSelf
  | pop
  | clear
  | resize (sz : Nat)
  | copy
  | move
  | assign (m : Nat)
  | pushThrow      -- round 3b: a push / emplace whose constructor throws (the caller catches)

def VRing.step {α : Type} (dflt : α) (v : VRing α) : VOp α → Option (VRing α)
  | .push x => v.push x
  | .pushSelf => some v.pushSelf
  | .pop => v.pop dflt
  | .clear => VRing.clear dflt (v.t.r.size.toNat + 1) v
  | .resize sz => some (v.resize dflt sz)
  | .copy => some (v.copyAndDrop dflt)
  | .move => some v.moveAndDrop
  | .assign m => some (v.assignAndDrop dflt m)
  | .pushThrow => v.pushThrow dflt

def VRing.run {α : Type} (dflt : α) : VRing α → List (VOp α) → Option (VRing α)
  | v, [] => some v
  | v, op :: ops => (VRing.step dflt v op).bind fun v' => VRing.run dflt v' ops

/-! ## The C widths of the constructors (round 3)

The list-level models `TRing.mk'`, `TRing.resize`, `Cyclic.mk'` take a `Nat`;
the C++ constructors take `int` / `size_t` and convert.  These are the
conversions, on the header fields only (the arrays can have 2^32 and more
elements: only their element count is modelled). -/

/-- `ring(int bufsize) : buffer(bufsize + 1) { ring_init(&r, bufsize + 1); }`:
`bufsize + 1` is an `int` addition (`none` = signed overflow at INT_MAX), converted
to `size_t` for the array (sign extension) and to `unsigned` for `ring_init`.
Result: the ring head and the element count requested from the allocator. -/
def ringCtorC (bufsize : BitVec 32) : Option (RingHead × Nat) :=
  if bufsize.toInt = 2147483647 then none
  else
    let n : Int := bufsize.toInt + 1
    some (ringInit (BitVec.ofInt 32 n), (BitVec.ofInt 64 n).toNat)

/-- `resize(size_t sz)`: `buffer.resize(sz + 1); ring_init(&r, sz + 1);` — `sz + 1` in
`size_t` (wraps at 2^64), truncated to `unsigned` for `ring_init`. -/
def ringResizeC (sz : BitVec 64) : RingHead × Nat :=
  (ringInit ((sz + 1).setWidth 32), (sz + 1).toNat)

/-- `cyclic_buffer(size_t size) : data(size) { ring_counter_init(&counter, size); }`:
`size_t → int` for the counter.  Result: the counter and the element count. -/
def cyclicCtorC (size : BitVec 64) : RingCounter × Nat :=
  (rcInit (size.setWidth 32).toInt, size.toNat)

/-- `ring_fixup_head` / `ring_fixup_tail` with non-termination visible:
`none` = the loop is still running after `fuel` iterations. -/
def fixupLoopT (size : U32) : Nat → U32 → Option U32
  | 0, x => if x ≥ size then none else some x
  | fuel + 1, x => if x ≥ size then fixupLoopT size fuel (x - size) else some x

/-- BEFORE the round-3b repair: `size_t write(const T *buf, size_t sz) { return ring_write(&r,
buffer.data(), buf, sz); }` (and `read` alike): `sz` is converted to the `unsigned int size`
parameter of `ring_write` — only `sz mod 2^32` elements are offered to the ring. -/
def TRing.writeCOrig {α : Type} (t : TRing α) (d : List α) : Option (TRing α × Nat) :=
  (ringWrite t.r t.buf (d.take (d.length % 2 ^ 32))).map fun (r', b', k) => (⟨r', b'⟩, k)

/-- repaired (ab63e64, round 3b) `size_t write(const T *buf, size_t sz) { if (sz > r.size) sz = r.size;
return ring_write(&r, buffer.data(), buf, sz); }`.  `sz` = the request (any `size_t`), `d` = the
elements the source really holds (`|d| ≤ sz`; the loop reads `*data++` only while it runs):
after the clamp `sz ≤ r.size < 2^32`, so the conversion to `unsigned int` changes nothing. -/
def TRing.writeC {α : Type} (t : TRing α) (d : List α) (sz : Nat) : Option (TRing α × Nat) :=
  (ringWrite t.r t.buf (d.take (min sz t.r.size.toNat))).map fun (r', b', k) => (⟨r', b'⟩, k)

/-- repaired `size_t read(T *buf, size_t sz) { if (sz > r.size) sz = r.size; return ring_read(&r,
buffer.data(), buf, sz); }`; before: `ring_read(…, sz mod 2^32)` -/
def TRing.readC (t : TRing Byte) (sz : Nat) : Option (RingHead × List Byte) :=
  ringRead t.r t.buf (min sz t.r.size.toNat)

def TRing.readCOrig (t : TRing Byte) (sz : Nat) : Option (RingHead × List Byte) :=
  ringRead t.r t.buf (sz % 2 ^ 32)

/-! ## round 3b: the two ways the repaired `push` / `emplace` can still leave the
head slot without a living object -/

namespace VRing
variable {α : Type}

/-- `emplace(args)` whose argument IS the head slot (`r.emplace(r.head_place())`):
`place->~T(); new (place) T(*place); ring_move_head_one(&r);` — `emplace` has no
aliasing test (`push` has): the copy constructor reads the object that has just
been destroyed.  The bytes are still there: the value of the slot is kept. -/
def emplaceSelf (v : VRing α) : Option (VRing α) :=
  let h := v.t.r.head.toNat
  if h < v.t.buf.length then
    let w := v.destruct h
    let w := { w with deadRead := w.deadRead + (if w.live.getD h false then 0 else 1) }
    some { w.construct h with t := { v.t with r := ringMoveHeadOne v.t.r } }
  else none

/-- BEFORE the round-3b repair: `push(obj)` whose copy constructor `T(obj)` throws:
`place->~T();` has run, `new (place) T(obj)` has constructed nothing, the exception leaves
`push`; `ring_move_head_one` is not reached. -/
def pushThrowOrig (v : VRing α) : Option (VRing α) :=
  let h := v.t.r.head.toNat
  if h < v.t.buf.length then some (v.destruct h) else none

end VRing

/-! ## round 3b: igris/container/unbounded_array.h — the members the containers do
not use (`fill`, `clear`, `begin`/`end`, `operator=` incl. self-assignment), with
the same ledger as `VRing` -/

/-- `unbounded_array<T>`: `m_data[0 .. m_size)` as a list (`m_size` = its length),
`live` = which slots hold a living object, constructor / destructor calls, and the
forbidden events: destructor on a dead slot, assignment to a dead slot -/
structure UArr (α : Type) where
  data : List α
  live : List Bool
  ctor : Nat
  dtor : Nat
  deadDtor : Nat
  deadAssign : Nat

namespace UArr
variable {α : Type}

/-- `unbounded_array(size_t sz)`: `sz` value-initialised elements -/
def mk' (dflt : α) (sz : Nat) : UArr α :=
  { data := List.replicate sz dflt, live := List.replicate sz true, ctor := sz, dtor := 0,
    deadDtor := 0, deadAssign := 0 }

/-- `begin()` / `end()` as element offsets from `m_data`: `m_data`, `m_data + m_size` -/
def iterBegin (_ : UArr α) : Nat := 0
def iterEnd (a : UArr α) : Nat := a.data.length

/-- `fill(val)`: `for (auto &ref : *this) ref = val;` — the range-for: an iterator
runs from `begin()` until it EQUALS `end()`; each step assigns through it (`none` =
the store is outside the array, or the loop is still running when the fuel is used up) -/
def fillLoop (val : α) : Nat → Nat → UArr α → Option (UArr α)
  | 0, it, a => if it = a.iterEnd then some a else none
  | fuel + 1, it, a =>
    if it = a.iterEnd then some a
    else match poke a.data it val with
      | none => none
      | some d => fillLoop val fuel (it + 1)
          { a with data := d, deadAssign := a.deadAssign + (if a.live.getD it false then 0 else 1) }

def fill (a : UArr α) (val : α) : Option (UArr α) := fillLoop val a.data.length a.iterBegin a

/-- `invalidate()`: `~T()` on every slot, `deallocate`, `m_data = nullptr; m_size = 0;` -/
def invalidate (a : UArr α) : UArr α :=
  { a with data := [], live := [], dtor := a.dtor + a.live.length,
           deadDtor := a.deadDtor + LRing.deadCount a.live }

/-- `clear()`: `invalidate();` -/
def clear (a : UArr α) : UArr α := a.invalidate

/-- `resize(size)`: `invalidate(); create_buffer(size);` -/
def resize (dflt : α) (a : UArr α) (sz : Nat) : UArr α :=
  let w := a.invalidate
  { w with data := List.replicate sz dflt, live := List.replicate sz true, ctor := w.ctor + sz }

/-- `operator=(const unbounded_array &oth)`: `if (this == &oth) return *this; invalidate();
m_data = alloc.allocate(oth.size()); m_size = oth.size(); copy-construct every element`.
`src = none`: the argument is `*this`. -/
def assign (a : UArr α) (src : Option (List α)) : UArr α :=
  match src with
  | none => a
  | some s =>
    let w := a.invalidate
    { w with data := s, live := List.replicate s.length true, ctor := w.ctor + s.length }

end UArr

end Igris.C03
