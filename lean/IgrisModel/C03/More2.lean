/-
  C03 extension, part 2 — the `ring_for_each` loop with a body, bulk = iterated
  single operations, push-when-full / pop-when-empty, copy / move / index_of.
-/
import IgrisModel.C03.More
namespace Igris.C03
open Igris.Proto

/-! ### `ring_for_each` with a body -/

/-- the loop looks only at `head` and `size` of the ring -/
theorem forEachFold_congr {α σ : Type} (r r' : RingHead) (buf : List α) (f : σ → U32 → α → σ)
    (hh : r'.head = r.head) (hs : r'.size = r.size) :
    ∀ (fuel : Nat) (n : U32) (s : σ),
      ringForEachFold r' buf f fuel n s = ringForEachFold r buf f fuel n s
  | 0, _, _ => rfl
  | fuel + 1, n, s => by
      unfold ringForEachFold
      rw [hh, hs]
      split
      · split
        · rfl
        · exact forEachFold_congr r r' buf f hh hs fuel _ _
      · rfl

theorem forEach_congr (r r' : RingHead) (hh : r'.head = r.head) (hs : r'.size = r.size) :
    ∀ (fuel : Nat) (n : U32), ringForEach r' fuel n = ringForEach r fuel n
  | 0, _ => rfl
  | fuel + 1, n => by
      unfold ringForEach
      rw [hh, hs, forEach_congr r r' hh hs fuel]

theorem next_umod_eq (r : RingHead) (h : r.tail.toNat < r.size.toNat) :
    (r.tail + 1) % r.size = (ringMoveTailOne r).tail := by
  apply BitVec.eq_of_toNat_eq
  rw [moveTailOne_tail r h, nextIdx_eq_mod h, BitVec.toNat_umod]
  congr 1
  bv_omega

/-- the loop of `ring_for_each` with a body `s = f(s, n, buffer[n])` terminates
(within `|q| + 1` evaluations of the loop test) and has folded `f` over exactly
the stored elements, oldest first, each once, paired with its slot index. -/
theorem forEachFold_spec {α σ : Type} (f : σ → U32 → α → σ) (buf : List α) :
    ∀ (q : List α) (r : RingHead) (s : σ) (fuel : Nat), Abs r buf q → q.length < fuel →
      ringForEachFold r buf f fuel r.tail s =
        some (((ringForEach r fuel r.tail).zip q).foldl (fun s p => f s p.1 p.2) s)
  | [], r, s, fuel, h, hf => by
      obtain ⟨k, rfl⟩ : ∃ k, fuel = k + 1 := ⟨fuel - 1, by omega⟩
      have he := abs_empty h
      simp only [ringEmpty, beq_iff_eq] at he
      unfold ringForEachFold ringForEach
      simp [he]
  | x :: q, r, s, fuel, h, hf => by
      obtain ⟨k, rfl⟩ : ∃ k, fuel = k + 1 := ⟨fuel - 1, by omega⟩
      have hne := abs_nonempty h (by simp)
      have hne' : (r.tail != r.head) = true := by
        simp only [ringEmpty, beq_eq_false_iff_ne, ne_eq] at hne
        simp only [bne_iff_ne, ne_eq]
        exact fun e => hne e.symm
      obtain ⟨hx, h'⟩ := abs_moveTailOne h
      have hn := next_umod_eq r h.1.2
      have ih := forEachFold_spec f buf q (ringMoveTailOne r) (f s r.tail x) k h'
        (by simp only [List.length_cons] at hf; omega)
      rw [forEachFold_congr r (ringMoveTailOne r) buf f rfl rfl,
        forEach_congr r (ringMoveTailOne r) rfl rfl] at ih
      unfold ringForEachFold ringForEach
      simp only [hne', if_true, hx, hn, List.zip_cons_cons, List.foldl_cons]
      exact ih

/-! ### bulk operations are the iterated single operations -/

theorem putc_cases {α : Type} (r : RingHead) (buf : List α) (c : α) :
    ringPutc r buf c = none ∨
    (ringFull r = true ∧ ringPutc r buf c = some (r, buf, 0)) ∨
    (∃ r' buf', ringFull r = false ∧ ringPutc r buf c = some (r', buf', 1)) := by
  unfold ringPutc
  cases hf : ringFull r
  · simp only [Bool.false_eq_true, if_false]
    cases poke buf r.head.toNat c with
    | none => exact Or.inl rfl
    | some b' => exact Or.inr (Or.inr ⟨_, _, by simp, rfl⟩)
  · exact Or.inr (Or.inl ⟨rfl, by simp⟩)

/-- a full ring answers 0 to every further putc and does not change -/
theorem run_putc_full (r : RingHead) (buf : List Byte) (hf : ringFull r = true) :
    ∀ (d : List Byte), runRing r buf (d.map Op.putc) = some (r, buf, d.map fun _ => Out.int 0)
  | [] => rfl
  | c :: d => by
      have : ringPutc r buf c = some (r, buf, 0) := by simp [ringPutc, hf]
      simp [runRing, stepRing, this, run_putc_full r buf hf d]

def countOnes (outs : List Out) : Nat := (outs.filter fun o => o == Out.int 1).length

theorem countOnes_zero (d : List Byte) : countOnes (d.map fun _ => Out.int 0) = 0 := by
  induction d with
  | nil => rfl
  | cons c d ih => simpa [countOnes] using ih

theorem writeAux_iterated : ∀ (d : List Byte) (r : RingHead) (buf : List Byte) (ret : Nat),
    ringWriteAux d r buf ret =
      (runRing r buf (d.map Op.putc)).map fun (r2, b2, outs) => (r2, b2, ret + countOnes outs)
  | [], r, buf, ret => by simp [ringWriteAux, runRing, countOnes]
  | c :: d, r, buf, ret => by
      rcases putc_cases r buf c with e | ⟨hf, e⟩ | ⟨r', b', -, e⟩
      · simp [ringWriteAux, runRing, stepRing, e]
      · simp [ringWriteAux, runRing, stepRing, e, run_putc_full r buf hf d, countOnes_zero]
        simp [countOnes]
      · have ih := writeAux_iterated d r' b' (ret + 1)
        simp only [ringWriteAux, e, List.map_cons, runRing, stepRing, Option.map_some]
        rw [show ((1 : Int) == 0) = false by decide]
        simp only [Bool.false_eq_true, if_false, ih]
        cases runRing r' b' (d.map Op.putc) with
        | none => rfl
        | some v =>
          obtain ⟨r2, b2, outs⟩ := v
          simp only [Option.map_some, countOnes, List.filter_cons, beq_self_eq_true, if_true,
            List.length_cons, Option.some.injEq, Prod.mk.injEq, true_and]
          omega

/-- bytes delivered by a sequence of getc answers (−1 = nothing) -/
def getcBytes : List Out → List Byte
  | [] => []
  | .int v :: os => (if v == -1 then [] else [BitVec.ofInt 8 v]) ++ getcBytes os
  | _ :: os => getcBytes os

theorem run_getc_empty (r : RingHead) (buf : List Byte) (he : ringEmpty r = true) :
    ∀ (n : Nat), runRing r buf (List.replicate n Op.getc) = some (r, buf, List.replicate n (Out.int (-1)))
  | 0 => rfl
  | n + 1 => by
      have : ringGetc r buf = some (r, -1) := by simp [ringGetc, ringGetcWith, he]
      simp [List.replicate_succ, runRing, stepRing, this, run_getc_empty r buf he n]

theorem getcBytes_neg (n : Nat) : getcBytes (List.replicate n (Out.int (-1))) = [] := by
  induction n with
  | zero => rfl
  | succ n ih => simp [List.replicate_succ, getcBytes, ih]

theorem getc_cases (r : RingHead) (buf : List Byte) :
    ringGetc r buf = none ∨
    (ringEmpty r = true ∧ ringGetc r buf = some (r, -1)) ∨
    (∃ r' x, ringGetc r buf = some (r', ((x : Byte).toNat : Int))) := by
  unfold ringGetc ringGetcWith
  cases he : ringEmpty r
  · simp only [Bool.false_eq_true, if_false]
    cases buf[r.tail.toNat]? with
    | none => exact Or.inl rfl
    | some x => exact Or.inr (Or.inr ⟨_, x, rfl⟩)
  · exact Or.inr (Or.inl ⟨rfl, by simp⟩)

theorem readWith_iterated (buf : List Byte) : ∀ (n : Nat) (r : RingHead) (acc : List Byte),
    ringReadWith ringGetc buf n r acc =
      (runRing r buf (List.replicate n Op.getc)).map fun (r2, _, outs) => (r2, acc ++ getcBytes outs)
  | 0, r, acc => by simp [ringReadWith, runRing, getcBytes]
  | n + 1, r, acc => by
      rcases getc_cases r buf with e | ⟨he, e⟩ | ⟨r', x, e⟩
      · simp [ringReadWith, List.replicate_succ, runRing, stepRing, e]
      · simp [ringReadWith, List.replicate_succ, runRing, stepRing, e, run_getc_empty r buf he n,
          getcBytes, getcBytes_neg]
      · have ih := readWith_iterated buf n r' (acc ++ [x])
        have hx : (((x.toNat : Int)) == -1) = false := by
          simp only [beq_eq_false_iff_ne, ne_eq]; omega
        simp only [ringReadWith, e, hx, Bool.false_eq_true, if_false, ofInt8_toNat, ih,
          List.replicate_succ, runRing, stepRing, Option.map_some]
        cases runRing r' buf (List.replicate n Op.getc) with
        | none => rfl
        | some v =>
          obtain ⟨r2, b2, outs⟩ := v
          simp [getcBytes, hx, ofInt8_toNat]

/-! ### igris::ring<T>: push when full, pop when empty, copy, move, index_of -/

namespace TRing
variable {α : Type}

/-- `push` on a FULL ring (the code has no test): the head steps onto the tail,
the ring reads as empty — all `size − 1` stored elements and the new one are lost. -/
theorem push_full {t : TRing α} {q : List α} (x : α) (h : Abs t.r t.buf q)
    (hfull : q.length = t.r.size.toNat - 1) :
    ∃ t', t.push x = some t' ∧ t'.r.size = t.r.size ∧ Abs t'.r t'.buf [] := by
  obtain ⟨⟨h1, h2⟩, hb, hl, -⟩ := h
  have hlen : t.r.head.toNat < t.buf.length := by omega
  have hf : ringFull t.r = true := by rw [full_iff_cnt t.r ⟨h1, h2⟩]; omega
  have hH := moveHeadOne_head t.r h1
  rw [(full_iff t.r ⟨h1, h2⟩).1 hf] at hH
  refine ⟨⟨ringMoveHeadOne t.r, t.buf.set t.r.head.toNat x⟩, by simp [push, poke, hlen], rfl, ?_⟩
  refine ⟨⟨by rw [hH]; exact h2, h2⟩, by simpa using hb, ?_, ?_⟩
  · simp only [RingHead.cnt, hH, moveHeadOne_tail, moveHeadOne_size, List.length_nil]
    unfold cntN; simp
  · intro i hi; simp at hi

/-- `pop` on an EMPTY ring (no test either): the tail steps past the head, the
ring now reports `size − 1` stored elements (stale slots) and is full. -/
theorem pop_empty {t : TRing α} (d : α) (h : Abs t.r t.buf []) :
    ∃ t', t.pop d = some t' ∧ t'.r.size = t.r.size ∧ t'.r.WF ∧
      (ringAvail t'.r).toNat = t.r.size.toNat - 1 ∧ ringFull t'.r = true := by
  obtain ⟨⟨h1, h2⟩, hb, hl, -⟩ := h
  have hlen : t.r.tail.toNat < t.buf.length := by omega
  have hT := moveTailOne_tail t.r h2
  have he : t.r.head.toNat = t.r.tail.toNat := by
    simp only [List.length_nil, RingHead.cnt] at hl
    unfold cntN at hl; split at hl <;> omega
  have wf' : (ringMoveTailOne t.r).WF := ⟨h1, by rw [hT]; exact nextIdx_lt h2⟩
  have hc : (ringMoveTailOne t.r).cnt = t.r.size.toNat - 1 := by
    simp only [RingHead.cnt, hT, moveTailOne_head, moveTailOne_size, he]
    unfold cntN nextIdx; split <;> split <;> omega
  refine ⟨⟨ringMoveTailOne t.r, t.buf.set t.r.tail.toNat d⟩, by simp [pop, hlen], rfl, wf', ?_, ?_⟩
  · rw [avail_toNat _ wf']; exact hc
  · rw [full_iff_cnt _ wf']; exact hc

end TRing

theorem stdCopy_replicate {α : Type} (dflt : α) : ∀ (src : List α),
    stdCopy src (List.replicate src.length dflt) = src
  | [] => rfl
  | s :: ss => by simp [stdCopy, List.replicate_succ, stdCopy_replicate dflt ss]

theorem arrCopy_eq {α : Type} (dflt : α) (src : List α) : arrCopy dflt src = src :=
  stdCopy_replicate dflt src

end Igris.C03
