/-
  C15 — helper lemmas, part 9 (extension): `sline_newdata` with the `int`
  length as given, and the raw accessors of igris::sline
  (`clear`, `set_size_and_cursor`).
-/
import IgrisModel.C15.Lemmas8
namespace Igris.C15
open Igris.Proto

/-- copying `k` bytes from a buffer or from a prefix of it that is long enough is the same -/
theorem mcpy_prefix (b : List Byte) (dst : Nat) (d : List Byte) (m k : Nat) (hk : k ≤ m) (hm : m ≤ d.length) :
    mcpy b dst (d.take m) 0 k = mcpy b dst d 0 k := by
  unfold mcpy
  have hl : (d.take m).length = m := by rw [List.length_take]; omega
  simp only [Nat.zero_add, List.drop_zero, hl]
  rw [List.take_take, Nat.min_eq_left hk]
  have c2 : k ≤ d.length := by omega
  simp only [hk, c2, true_and]

/-- `sline_newdata(sl, data, n)` for ANY `int n` not larger than the caller's data
is the bulk insert of the first `max n 0` bytes: a negative or zero length
inserts nothing -/
theorem newdataI_eq (s : Sline) (h : SlineOK s) (d : List Byte) (n : Int) (hn : n ≤ (d.length : Int)) :
    s.newdataI d n = ((s.apply (.newdata (d.take n.toNat))).1, (((s.apply (.newdata (d.take n.toNat))).2 : Nat) : Int)) := by
  obtain ⟨hb, hc, hr, hf⟩ := h
  have hm : n.toNat ≤ d.length := by omega
  have hl : (d.take n.toNat).length = n.toNat := by rw [List.length_take]; omega
  unfold Sline.apply Sline.newdataI Sline.newdata
  simp only [hl]
  -- the clamped count, in Nat
  generalize hk : (if n.toNat > s.cap - s.len - 1 then s.cap - s.len - 1 else n.toNat) = k
  have hkm : k ≤ n.toNat := by rw [← hk]; split <;> omega
  have hI : (if (if n > (s.cap : Int) - (s.len : Int) - 1 then (s.cap : Int) - (s.len : Int) - 1 else n) < 0 then 0
      else (if n > (s.cap : Int) - (s.len : Int) - 1 then (s.cap : Int) - (s.len : Int) - 1 else n)) = (k : Int) := by
    rw [← hk]
    split <;> split <;> split <;> omega
  simp only [hI, Int.toNat_natCast]
  rw [mcpy_prefix _ _ d n.toNat k hkm hm]

/-! ### histories that also use the raw accessors -/

/-- an API call of the extended set -/
inductive SOpX
  | base (o : SOp)
  | newdataI (d : List Byte) (n : Int)   -- sline_newdata(data, n), n as given
  | clear                                -- igris::sline::clear
  | setsc (len cursor : Nat)             -- igris::sline::set_size_and_cursor
deriving DecidableEq, Repr

def Sline.applyX (s : Sline) : SOpX → Sline
  | .base o => (s.apply o).1
  | .newdataI d n => (s.newdataI d n).1
  | .clear => s.clear
  | .setsc l c => s.setSizeCursor l c

/-- the contract of a call: the data really has `n` bytes; the raw setter is
given a cursor inside a line that fits -/
def SOpX.valid (cap : Nat) : SOpX → Prop
  | .newdataI d n => n ≤ (d.length : Int)
  | .setsc l c => c ≤ l ∧ l + 1 ≤ cap
  | _ => True

instance (cap : Nat) (o : SOpX) : Decidable (o.valid cap) := by
  cases o <;> unfold SOpX.valid <;> infer_instance

def Sline.runOpsX (s : Sline) (ops : List SOpX) : Sline := ops.foldl Sline.applyX s

theorem clear_ok (s : Sline) (h : SlineOK s) :
    SlineOK s.clear ∧ s.clear.cap = s.cap ∧ s.clear.text = List.replicate s.len 0 := by
  obtain ⟨hb, hc, hr, hf⟩ := h
  refine ⟨⟨by simp [Sline.clear, hb], hc, hr, hf⟩, rfl, ?_⟩
  unfold Sline.clear Sline.text
  simp only [List.take_replicate]
  congr 1
  omega

theorem setSizeCursor_ok (s : Sline) (h : SlineOK s) (l c : Nat) (h1 : c ≤ l) (h2 : l + 1 ≤ s.cap) :
    SlineOK (s.setSizeCursor l c) ∧ (s.setSizeCursor l c).cap = s.cap ∧
    (s.setSizeCursor l c).text = s.buf.take l :=
  ⟨⟨h.blen, h1, h2, h.nofault⟩, rfl, rfl⟩

theorem applyX_ok (s : Sline) (h : SlineOK s) (o : SOpX) (hv : o.valid s.cap) :
    SlineOK (s.applyX o) ∧ (s.applyX o).cap = s.cap := by
  cases o with
  | base o =>
    obtain ⟨a, b, _, _⟩ := apply_ok s h o
    exact ⟨a, b⟩
  | newdataI d n =>
    have e := newdataI_eq s h d n hv
    obtain ⟨a, b, _, _⟩ := apply_ok s h (.newdata (d.take n.toNat))
    show SlineOK (s.newdataI d n).1 ∧ (s.newdataI d n).1.cap = s.cap
    rw [e]
    exact ⟨a, b⟩
  | clear => exact ⟨(clear_ok s h).1, rfl⟩
  | setsc l c => exact ⟨(setSizeCursor_ok s h l c hv.1 hv.2).1, rfl⟩

theorem runOpsX_ok (s : Sline) (h : SlineOK s) (ops : List SOpX) (hv : ∀ o ∈ ops, o.valid s.cap) :
    SlineOK (s.runOpsX ops) ∧ (s.runOpsX ops).cap = s.cap := by
  induction ops generalizing s with
  | nil => exact ⟨h, rfl⟩
  | cons o os ih =>
    obtain ⟨a, b⟩ := applyX_ok s h o (hv o (by simp))
    have := ih (s.applyX o) a (fun x hx => by rw [b]; exact hv x (by simp [hx]))
    rw [b] at this
    exact this

end Igris.C15
