/-
  C15, round 3 — the highest column the terminal's output reaches on the
  one-row screen (`Screen.hw`): per piece of echo, per key, per session.
  With `wfeed_eq` (Lemmas11) this transports the screen theorems to a real
  W-column terminal with auto-wrap for `W ≥ |prompt| + cap + 3`.
-/
import IgrisModel.C15.Lemmas11
namespace Igris.C15
open Igris.Proto

namespace Screen

theorem hw_nil (s : Screen) : s.hw [] = s.col := rfl
theorem hw_cons (s : Screen) (b : Byte) (bs : List Byte) : s.hw (b :: bs) = max s.col ((s.put b).hw bs) := rfl

theorem hw_append (s : Screen) (a b : List Byte) : s.hw (a ++ b) = max (s.hw a) ((s.feed a).hw b) := by
  induction a generalizing s with
  | nil =>
    simp only [List.nil_append, hw_nil, feed_nil]
    have := hw_ge s b
    omega
  | cons x xs ih =>
    simp only [List.cons_append, hw_cons, feed_cons, ih]
    omega

theorem hw_print (A B l : List Byte) (h : ∀ b ∈ l, isPrintable b = true) :
    (Screen.mk (A ++ B) A.length .ground).hw l = A.length + l.length := by
  induction l generalizing A B with
  | nil => simp [hw_nil]
  | cons b bs ih =>
    rw [hw_cons, put_printable A B b (h b (by simp))]
    have := ih (A ++ [b]) (B.drop 1) (fun x hx => h x (by simp [hx]))
    simp only [List.length_append, List.length_cons, List.length_nil, Nat.zero_add] at this
    rw [this]
    simp only [List.length_cons]
    omega

theorem hw_LEFT (s : Screen) (h : s.ps = .ground) : s.hw VT100_LEFT = s.col := by
  obtain ⟨cells, col, ps⟩ := s
  simp only at h; subst h
  simp only [hw, VT100_LEFT, put, ESC, isDigit]
  simp
  try omega

theorem hw_RIGHT (s : Screen) (h : s.ps = .ground) : s.hw VT100_RIGHT = s.col + 1 := by
  obtain ⟨cells, col, ps⟩ := s
  simp only at h; subst h
  simp only [hw, VT100_RIGHT, put, ESC, isDigit]
  simp
  try omega

theorem hw_ERASE (s : Screen) (h : s.ps = .ground) : s.hw VT100_ERASE = s.col := by
  obtain ⟨cells, col, ps⟩ := s
  simp only at h; subst h
  simp only [hw, VT100_ERASE, put, ESC, isDigit]
  simp

theorem hw_CRLF (s : Screen) (h : s.ps = .ground) : s.hw [CR, LF] = s.col := by
  obtain ⟨cells, col, ps⟩ := s
  simp only at h; subst h
  simp only [hw, put, ESC, CR, LF]
  simp

theorem hw_digits (cells : List Byte) (col : Nat) (ds : List Byte) (o : Option Nat)
    (h : ∀ b ∈ ds, isDigit b = true) : (Screen.mk cells col (.csi o)).hw ds = col := by
  induction ds generalizing o with
  | nil => rfl
  | cons b bs ih =>
    have hb := h b (by simp)
    have hput : (Screen.mk cells col (.csi o)).put b = ⟨cells, col, .csi (some (o.getD 0 * 10 + (b.toNat - 48)))⟩ := by
      simp [put, hb]
    rw [hw_cons, hput, ih _ (fun x hx => h x (by simp [hx]))]
    simp

theorem hw_left (s : Screen) (h : s.ps = .ground) (n : Nat) (hn : 1 ≤ n) : s.hw (vt100Left n) = s.col := by
  obtain ⟨cells, col, ps⟩ := s
  simp only at h; subst h
  obtain ⟨d1, d2, d3⟩ := decDigits_spec n
  unfold vt100Left
  rw [hw_append, hw_append, feed_append]
  have e1 : (Screen.mk cells col .ground).feed [ESC, 0x5b] = ⟨cells, col, .csi none⟩ := by
    simp [feed, put, ESC]
  have e0 : (Screen.mk cells col .ground).hw [ESC, 0x5b] = col := by
    simp [hw, put, ESC]
  rw [e1, e0, feed_digits cells col _ none d2 d3, hw_digits cells col _ none d2]
  have hd : isDigit (68#8) = false := by decide
  simp [hw, put, hd]
  try omega

/-- printing the right part and moving back -/
theorem hw_rightEcho (A B L R : List Byte) (hR : AllP R) :
    (Screen.mk (A ++ B) A.length .ground).hw (zRightEcho ⟨L, R⟩) = A.length + R.length := by
  unfold zRightEcho
  by_cases h : R = []
  · subst h; simp [hw_nil]
  · simp only [h, if_false]
    rw [hw_append, hw_print A B R hR, feed_print A B R hR, hw_left _ rfl _ (by
      cases R with
      | nil => exact absurd rfl h
      | cons a as => simp)]
    simp

/-- ONE KEY'S ECHO NEVER MOVES THE CURSOR BEYOND THE END OF THE LONGER OF THE OLD
AND THE NEW LINE -/
theorem echo_hw (P : List Byte) (z z' : Zip) (c : Byte) (ret : Int) (lastsize : Nat)
    (hrel : EchoRel c ret lastsize z z') (hnn : ret ≠ RL_NEWLINE)
    (hc : ret = RL_ECHOCHAR → isPrintable c = true)
    (hzr : AllP z.right) (hzl' : AllP z'.left) :
    (showing P z).hw (zEchoFor c ret lastsize z') ≤ P.length + max z.len z'.len := by
  obtain ⟨L, R⟩ := z
  obtain ⟨L', R'⟩ := z'
  simp only at hzr hzl'
  unfold showing zEchoFor Zip.len
  simp only
  rcases hrel with ⟨e, hz⟩ | ⟨e, hne, hz⟩ | ⟨e, hne, hz⟩ | ⟨e, hne, hz⟩ | ⟨e, hne, hz⟩ | ⟨e, hr, hls⟩ | ⟨e, hz⟩
  · -- a character was typed
    simp only [Zip.mk.injEq] at hz
    obtain ⟨h1, h2⟩ := hz
    have hcp : ∀ b ∈ [c], isPrintable b = true := by intro b hb; simp at hb; rw [hb]; exact hc e
    rw [h1, h2, if_pos e, hw_append, hw_print (P ++ L) R [c] hcp, feed_print (P ++ L) R [c] hcp]
    have := hw_rightEcho (P ++ L ++ [c]) (R.drop 1) (L ++ [c]) R hzr
    simp only [List.length_append, List.length_cons, List.length_nil, Nat.zero_add] at this ⊢
    rw [this]
    omega
  · -- backspace
    simp only [Zip.mk.injEq] at hz
    obtain ⟨h1, h2⟩ := hz
    simp only at hne
    rw [h1, h2, e, if_neg (by decide), if_pos rfl, hw_append, hw_append, hw_LEFT _ rfl, feed_append, feed_LEFT _ rfl,
      hw_ERASE _ rfl, feed_ERASE _ rfl]
    simp only
    have hLs : L = L.take (L.length - 1) ++ L.drop (L.length - 1) := (List.take_append_drop _ _).symm
    have hcol : (P ++ L).length - 1 = (P ++ L.take (L.length - 1)).length := by
      cases L with
      | nil => exact absurd rfl hne
      | cons a as => simp <;> omega
    rw [hcol]
    have htake : ((P ++ L) ++ R).take (P ++ L.take (L.length - 1)).length = P ++ L.take (L.length - 1) := by
      conv => lhs; arg 2; rw [hLs]
      rw [← List.append_assoc P, List.append_assoc _ _ R, List.take_left']
      rfl
    rw [htake]
    have := hw_rightEcho (P ++ L.take (L.length - 1)) [] (L.take (L.length - 1)) R hzr
    simp only [List.append_nil] at this
    rw [this]
    simp only [List.length_append, List.length_take]
    omega
  · -- delete
    simp only [Zip.mk.injEq] at hz
    obtain ⟨h1, h2⟩ := hz
    rw [h1, h2, e, if_neg (by decide), if_neg (by decide), if_neg (by decide), if_neg (by decide), if_neg (by decide),
      if_pos rfl, hw_append, hw_ERASE _ rfl, feed_ERASE _ rfl]
    simp only
    rw [List.take_left' rfl]
    have := hw_rightEcho (P ++ L) [] L (R.drop 1) (AllP_drop 1 hzr)
    simp only [List.append_nil] at this
    rw [this]
    simp only [List.length_append, List.length_drop]
    omega
  · -- left
    rw [e, if_neg (by decide), if_neg (by decide), if_neg (by decide), if_pos rfl, hw_LEFT _ rfl]
    simp only [List.length_append]
    omega
  · -- right
    simp only at hne
    rw [e, if_neg (by decide), if_neg (by decide), if_pos rfl, hw_RIGHT _ rfl]
    have : 1 ≤ R.length := by
      cases R with
      | nil => exact absurd rfl hne
      | cons a as => simp
    simp only [List.length_append]
    omega
  · -- another history line
    simp only at hr hls
    rw [hr, hls, e, if_neg (by decide), if_neg (by decide), if_neg (by decide), if_neg (by decide), if_pos rfl,
      hw_append, hw_append, feed_append]
    have h1 : (Screen.mk ((P ++ L) ++ R) (P ++ L).length .ground).feed
        (if L.length ≠ 0 then vt100Left L.length else []) = ⟨(P ++ L) ++ R, P.length, .ground⟩ := by
      by_cases h0 : L.length = 0
      · have : L = [] := List.eq_nil_of_length_eq_zero h0
        subst this; simp [feed_nil]
      · simp only [ne_eq, h0, not_false_eq_true, if_true]
        rw [feed_left _ rfl _ (by omega)]
        simp
    have h1w : (Screen.mk ((P ++ L) ++ R) (P ++ L).length .ground).hw
        (if L.length ≠ 0 then vt100Left L.length else []) = (P ++ L).length := by
      by_cases h0 : L.length = 0
      · simp [h0, hw_nil]
      · simp only [ne_eq, h0, not_false_eq_true, if_true]
        rw [hw_left _ rfl _ (by omega)]
    rw [h1, h1w, hw_ERASE _ rfl, feed_ERASE _ rfl]
    simp only
    rw [List.append_assoc, List.take_left' rfl]
    have hline : (Zip.mk L' []).line = L' := by simp [Zip.line]
    rw [hline]
    by_cases hl : L' = []
    · subst hl; simp [hw_nil]
    · simp only [ne_eq, hl, not_false_eq_true, if_true]
      have := hw_print P [] L' hzl'
      simp only [List.append_nil] at this
      rw [this]
      simp only [List.length_append, List.length_nil]
      omega
  · -- nothing to redraw
    simp only [Zip.mk.injEq] at hz
    obtain ⟨h1, h2⟩ := hz
    rw [h1, h2]
    rcases e with e | e | e
    · rw [e, if_neg (by decide), if_neg (by decide), if_neg (by decide), if_neg (by decide), if_neg (by decide),
        if_neg (by decide), hw_nil]
      simp only [List.length_append]; omega
    · rw [e, if_neg (by decide), if_neg (by decide), if_neg (by decide), if_neg (by decide), if_neg (by decide),
        if_neg (by decide), hw_nil]
      simp only [List.length_append]; omega
    · exact absurd e hnn

end Screen

theorem zlen_lt (cap depth : Nat) (rl : Readline) (r : Ref) (h : RSim cap depth rl r) : r.z.len + 1 ≤ cap := by
  have h1 := toZip_len _ h.lineOK
  rw [h.zip] at h1
  have h2 := h.lineOK.room
  have h3 := h.lcap
  omega

theorem showing_col (P : List Byte) (z : Zip) : (Screen.showing P z).col ≤ P.length + z.len := by
  simp only [Screen.showing, Zip.len, List.length_append]; omega

/-- one key: the cursor of the one-row screen never goes beyond column
`|prompt| + cap + 1` while the echoed bytes are fed (`+ 1`: the `^C` printed
after a full line) -/
theorem sstep_hw (cap depth : Nat) (hd : 1 ≤ depth) (v : Vterm) (r : Ref) (c : Byte) (scr : Screen)
    (h : VSim cap depth v r) (hp : RefP r) (he : v.echo = true) (hP : AllP v.prompt) (hc : screenKey c = true)
    (hs : SInv v.prompt v scr r) :
    scr.hw (v.key c).2.1 ≤ v.prompt.length + cap + 1 := by
  obtain ⟨hst, hsig, hsim, _, _⟩ := h
  have hzl := zlen_lt cap depth _ _ hsim
  have hblank : (Screen.mk [] 0 .ground).hw v.prompt = v.prompt.length := by
    have := Screen.hw_print [] [] v.prompt hP
    simpa using this
  have hscr1 : scr.feed (if v.state = 2 then [] else v.prompt) = Screen.showing v.prompt r.z := by
    unfold SInv at hs
    by_cases h2 : v.state = 2
    · rw [if_pos h2] at hs ⊢; rw [Screen.feed_nil]; exact hs
    · rw [if_neg h2] at hs ⊢
      have hz : r.z = Zip.empty := by
        rw [← hsim.zip, nrl_reset _ h2]
        simp [Readline.newlineReset, Sline.reset, Sline.toZip, Zip.empty]
      rw [hs, hz]; exact showing_empty _ hP
  have hw1 : scr.hw (if v.state = 2 then [] else v.prompt) ≤ v.prompt.length + r.z.len := by
    unfold SInv at hs
    by_cases h2 : v.state = 2
    · rw [if_pos h2] at hs ⊢; rw [hs, Screen.hw_nil]; exact showing_col _ _
    · rw [if_neg h2] at hs ⊢; rw [hs, hblank]; omega
  have hcol := showing_col v.prompt r.z
  unfold Vterm.key
  rw [if_neg (fun hq => hq (by omega))]
  generalize hv1 : (if v.state = 2 then (v, ([] : List Byte)) else v.prologue) = p
  have p_rl : p.1.rl = v.nrl := by rw [← hv1]; exact pre_rl v
  have p_echo : p.1.echo = true := by rw [← hv1, pre_echo v]; exact he
  have p_prompt : p.1.prompt = v.prompt := by rw [← hv1, pre_prompt v]
  have p_out : p.2 = if v.state = 2 then [] else v.prompt := by rw [← hv1]; exact pre_out v he
  simp only
  have hcrlf : (Screen.showing v.prompt r.z).feed [CR, LF] = ⟨[], 0, .ground⟩ := Screen.feed_CRLF _ rfl
  have hcrlfw : (Screen.showing v.prompt r.z).hw [CR, LF] = (Screen.showing v.prompt r.z).col := Screen.hw_CRLF _ rfl
  by_cases hcx : c = ETX
  · rw [if_pos hcx]
    simp only [Vterm.prologue, p_echo, if_true, p_prompt]
    rw [Screen.hw_append, Screen.hw_append, Screen.feed_append, p_out, hscr1]
    have e : ([0x5e, 0x43, CR, LF] : List Byte) = [0x5e, 0x43] ++ [CR, LF] := rfl
    have hpr : ∀ b ∈ ([0x5e, 0x43] : List Byte), Screen.isPrintable b = true := by
      intro b hb; simp at hb; rcases hb with q | q <;> (rw [q]; decide)
    have hcf : (Screen.showing v.prompt r.z).feed [0x5e, 0x43, CR, LF] = ⟨[], 0, .ground⟩ := by
      rw [e, Screen.feed_append]
      unfold Screen.showing
      rw [Screen.feed_print _ _ [0x5e, 0x43] hpr]
      exact Screen.feed_CRLF _ rfl
    have hcw : (Screen.showing v.prompt r.z).hw [0x5e, 0x43, CR, LF] = (Screen.showing v.prompt r.z).col + 2 := by
      rw [e, Screen.hw_append]
      unfold Screen.showing
      rw [Screen.hw_print _ _ [0x5e, 0x43] hpr, Screen.feed_print _ _ [0x5e, 0x43] hpr, Screen.hw_CRLF _ rfl]
      try simp only [List.length_cons, List.length_nil]
      omega
    rw [hcf, hcw, hblank]
    omega
  · rw [if_neg hcx]
    obtain ⟨s1, s2, s3, s4⟩ := rstep cap depth hd v.nrl r c hsim
    have hzl' := zlen_lt cap depth _ _ s1
    rw [p_rl]
    by_cases hn : (v.nrl.putchar c).2 = RL_NEWLINE
    · rw [if_pos hn]
      try simp only
      by_cases hx : p.1.cxx = true
      · rw [if_pos hx]
        simp only [p_echo, if_true]
        rw [Screen.hw_append, p_out, hscr1, hcrlfw]
        omega
      · rw [if_neg hx]
        simp only [Vterm.prologue, p_echo, if_true, p_prompt]
        rw [Screen.hw_append, Screen.hw_append, Screen.feed_append, p_out, hscr1, hcrlfw, hcrlf, hblank]
        omega
    · rw [if_neg hn]
      simp only [p_echo, if_true]
      have hp' := refP_rlKey cap r c hc hcx hp
      rw [Screen.hw_append, p_out, hscr1, echoFor_eq _ _ _ s1.lineOK, s1.zip]
      have hb := Screen.echo_hw v.prompt r.z (r.rlKey cap c).1.z c (v.nrl.putchar c).2 (v.nrl.putchar c).1.lastsize
        s2 hn (by
          intro hret
          rcases s2 with ⟨_, hz⟩ | ⟨e, _⟩ | ⟨e, _⟩ | ⟨e, _⟩ | ⟨e, _⟩ | ⟨e, _⟩ | ⟨e, _⟩
          · have hl := hp'.left
            rw [hz] at hl
            exact hl c (by simp)
          all_goals (rw [hret] at e; first | exact absurd e (by decide) | (rcases e with e | e | e <;> exact absurd e (by decide))))
        hp.right hp'.left
      omega

/-- whole key sequences: the high-water mark of the whole output -/
theorem run_hw (cap depth : Nat) (hd : 1 ≤ depth) (v : Vterm) (r : Ref) (scr : Screen)
    (ks : List Byte) (h : VSim cap depth v r) (hp : RefP r) (he : v.echo = true) (hP : AllP v.prompt)
    (hk : ∀ k ∈ ks, screenKey k = true) (hs : SInv v.prompt v scr r) (hc0 : scr.col ≤ v.prompt.length + cap + 1) :
    scr.hw (v.echoed ks) ≤ v.prompt.length + cap + 1 := by
  induction ks generalizing v r scr with
  | nil => simpa [Vterm.echoed, Screen.hw_nil] using hc0
  | cons c cs ih =>
    obtain ⟨s1, s2, s3⟩ := sstep cap depth hd v r c scr h hp he hP (hk c (by simp)) hs
    have hw := sstep_hw cap depth hd v r c scr h hp he hP (hk c (by simp)) hs
    have hv := (vstep cap depth hd v r c h).1
    have hfc : (scr.feed (v.key c).2.1).col ≤ v.prompt.length + cap + 1 := by
      unfold SInv at s1
      have hz := zlen_lt cap depth _ _ hv.sim
      split at s1
      · rw [s1]
        have := showing_col v.prompt (r.key cap c).1.z
        omega
      · rw [s1]; simp
    have := ih (v.key c).1 (r.key cap c).1 (scr.feed (v.key c).2.1) hv (refP_key cap r c (hk c (by simp)) hp) s2
      (by rw [s3]; exact hP) (fun k hk' => hk k (by simp [hk'])) (by rw [s3]; exact s1) (by rw [s3]; exact hfc)
    rw [s3] at this
    simp only [Vterm.echoed, Screen.hw_append]
    omega

end Igris.C15
