/-
  C15 — helper lemmas, part 7 (extension): enumerated automaton states, echo
  off, the C / C++ twins as one simulation.
  None of these needs a hypothesis on capacity or history depth: they are
  about the control structure of `Vterm.key` only.
-/
import IgrisModel.C15.Lemmas6
namespace Igris.C15
open Igris.Proto

/-! ### the terminal automaton never leaves {0, 1, 2} between calls -/

theorem key_st012 (v : Vterm) (c : Byte) (hst : v.state = 0 ∨ v.state = 1 ∨ v.state = 2) :
    (v.key c).1.state = 1 ∨ (v.key c).1.state = 2 := by
  unfold Vterm.key
  rw [if_neg (fun hq => hq (by omega))]
  generalize (if v.state = 2 then (v, ([] : List Byte)) else v.prologue) = p
  simp only
  by_cases hc3 : c = ETX
  · rw [if_pos hc3]; exact Or.inr rfl
  · rw [if_neg hc3]
    by_cases hn : (p.1.rl.putchar c).2 = RL_NEWLINE
    · rw [if_pos hn]
      by_cases hx : p.1.cxx = true
      · rw [if_pos hx]; exact Or.inl rfl
      · rw [if_neg hx]; exact Or.inr rfl
    · rw [if_neg hn]; exact Or.inr rfl

theorem run_st012 (v : Vterm) (ks : List Byte) (hst : v.state = 0 ∨ v.state = 1 ∨ v.state = 2) :
    (v.run ks).state = 0 ∨ (v.run ks).state = 1 ∨ (v.run ks).state = 2 := by
  induction ks generalizing v with
  | nil => exact hst
  | cons c cs ih =>
    have := key_st012 v c hst
    exact ih (v.key c).1 (by omega)

/-- the `default:` branch of the outer switch (`state = 0; return`) is what
`Vterm.key` does in a state outside {0, 1, 2}: it is never taken -/
theorem key_default_branch (v : Vterm) (c : Byte) (h : ¬ (v.state = 0 ∨ v.state = 1 ∨ v.state = 2)) :
    v.key c = ({ v with state := 0 }, [], []) := by
  unfold Vterm.key
  rw [if_pos h]

/-! ### what one call of `Vterm.key` depends on

Two terminals that agree on `nrl` (the readline object the call starts from),
on whether a prompt is owed, and on the flags, do the same thing.  This one
lemma carries both the echo-off theorem and the C / C++ simulation. -/

/-- bytes the next call writes before it looks at the character -/
def Vterm.owed (v : Vterm) : List Byte := if v.state = 2 then [] else if v.echo then v.prompt else []

/-- the body of `key` after the pending prompt: a function of `nrl` and the flags -/
def keyBody (rl : Readline) (echo : Bool) (prompt : List Byte) (cxx sig : Bool) (c : Byte) :
    Readline × Nat × List Byte × List Ev :=
  if c = ETX then
    (rl.newlineReset, 2, (if echo then [0x5e, 0x43, CR, LF] else []) ++ (if echo then prompt else []),
      if sig then [Ev.sigint] else [])
  else
    let r := rl.putchar c
    if r.2 = RL_NEWLINE then
      let ln := r.1.line.getline
      let rl2 : Readline := { r.1 with line := ln }
      if cxx then (rl2, 1, if echo then [CR, LF] else [], [Ev.exec ln.text])
      else (rl2.newlineReset, 2, (if echo then [CR, LF] else []) ++ (if echo then prompt else []), [Ev.exec ln.text])
    else (r.1, 2, if echo then Vterm.echoFor c r.2 r.1 else [], [])

theorem key_eq_body (v : Vterm) (c : Byte) (hst : v.state = 0 ∨ v.state = 1 ∨ v.state = 2) :
    let b := keyBody v.nrl v.echo v.prompt v.cxx v.hasSignal c
    v.key c = ({ v with rl := b.1, state := b.2.1 }, v.owed ++ b.2.2.1, b.2.2.2) := by
  obtain ⟨rl, st, echo, prompt, cxx, sig⟩ := v
  simp only at hst
  unfold Vterm.key keyBody Vterm.owed Vterm.nrl Vterm.prologue
  simp only
  rw [if_neg (fun hq => hq (by omega))]
  by_cases h2 : st = 2
  · subst h2
    simp only [if_true]
    by_cases hc : c = ETX
    · simp only [hc, if_true, List.nil_append]
    · simp only [hc, if_false]
      by_cases hn : (rl.putchar c).2 = RL_NEWLINE
      · simp only [hn, if_true]
        cases cxx <;> simp
      · simp only [hn, if_false, List.nil_append]
  · simp only [h2, if_false]
    by_cases hc : c = ETX
    · simp only [hc, if_true, List.append_assoc]
    · simp only [hc, if_false]
      by_cases hn : (rl.newlineReset.putchar c).2 = RL_NEWLINE
      · simp only [hn, if_true]
        cases cxx <;> simp
      · simp only [hn, if_false]

/-! ### echo off -/

theorem keyBody_silent (rl : Readline) (prompt : List Byte) (cxx sig : Bool) (c : Byte) :
    (keyBody rl false prompt cxx sig c).2.2.1 = [] := by
  unfold keyBody
  by_cases hc : c = ETX
  · simp [hc]
  · simp only [hc, if_false]
    split
    · cases cxx <;> simp
    · simp

theorem keyBody_echo_irrel (rl : Readline) (e1 e2 : Bool) (prompt : List Byte) (cxx sig : Bool) (c : Byte) :
    (keyBody rl e1 prompt cxx sig c).1 = (keyBody rl e2 prompt cxx sig c).1 ∧
    (keyBody rl e1 prompt cxx sig c).2.1 = (keyBody rl e2 prompt cxx sig c).2.1 ∧
    (keyBody rl e1 prompt cxx sig c).2.2.2 = (keyBody rl e2 prompt cxx sig c).2.2.2 := by
  unfold keyBody
  by_cases hc : c = ETX
  · simp [hc]
  · simp only [hc, if_false]
    split
    · cases cxx <;> simp
    · simp

/-- with echo off a call writes nothing, and state, line, history and callback
events are those of the same call with echo on -/
theorem key_echo_off (v : Vterm) (c : Byte) (hst : v.state = 0 ∨ v.state = 1 ∨ v.state = 2) :
    (({ v with echo := false }).key c).2.1 = [] ∧
    (({ v with echo := false }).key c).2.2 = (v.key c).2.2 ∧
    (({ v with echo := false }).key c).1 = { (v.key c).1 with echo := false } := by
  have h1 := key_eq_body { v with echo := false } c hst
  have h2 := key_eq_body v c hst
  simp only at h1 h2
  have hn : ({ v with echo := false } : Vterm).nrl = v.nrl := by unfold Vterm.nrl; rfl
  obtain ⟨i1, i2, i3⟩ := keyBody_echo_irrel v.nrl false v.echo v.prompt v.cxx v.hasSignal c
  rw [h1, h2, hn]
  refine ⟨?_, i3, ?_⟩
  · simp only [Vterm.owed, keyBody_silent]
    split <;> simp
  · simp only [i1, i2]

theorem run_echo_off (v : Vterm) (ks : List Byte) (hst : v.state = 0 ∨ v.state = 1 ∨ v.state = 2) :
    ({ v with echo := false }).echoed ks = [] ∧
    ({ v with echo := false }).events ks = v.events ks ∧
    ({ v with echo := false }).run ks = { v.run ks with echo := false } := by
  induction ks generalizing v with
  | nil => exact ⟨rfl, rfl, rfl⟩
  | cons c cs ih =>
    obtain ⟨k1, k2, k3⟩ := key_echo_off v c hst
    have hst' : (v.key c).1.state = 0 ∨ (v.key c).1.state = 1 ∨ (v.key c).1.state = 2 := by
      have := key_st012 v c hst; omega
    obtain ⟨j1, j2, j3⟩ := ih (v.key c).1 hst'
    refine ⟨?_, ?_, ?_⟩
    · simp only [Vterm.echoed]; rw [k1, k3, j1]; rfl
    · simp only [Vterm.events]; rw [k2, k3, j2]
    · show ({ v with echo := false } : Vterm).run (c :: cs) = _
      simp only [Vterm.run, List.foldl_cons]
      rw [k3]
      exact j3

/-! ### the C terminal and the C++ terminal -/

/-- `vterm.c` (left) and `igris::vtermxx` (right) after the same keys: they agree
on the readline object the next call starts from and on all flags; the only
difference is that vtermxx may still owe the reset + prompt (state 1) that
vterm.c has already done (state 2) -/
structure Twin (vc vx : Vterm) : Prop where
  c : vc.cxx = false
  x : vx.cxx = true
  stc : vc.state = 0 ∨ vc.state = 1 ∨ vc.state = 2
  stx : vx.state = 0 ∨ vx.state = 1 ∨ vx.state = 2
  nrl : vc.nrl = vx.nrl
  echo : vc.echo = vx.echo
  prompt : vc.prompt = vx.prompt
  sig : vc.hasSignal = vx.hasSignal

theorem nrl_of_key (v : Vterm) (rl : Readline) (st : Nat) : ({ v with rl := rl, state := st } : Vterm).nrl =
    if st = 2 then rl else rl.newlineReset := by
  unfold Vterm.nrl; rfl

theorem newlineReset_idem (rl : Readline) : rl.newlineReset.newlineReset = rl.newlineReset := by
  unfold Readline.newlineReset Sline.reset; rfl

/-- the body of one call for the two variants, from the same readline object -/
theorem keyBody_twin (N : Readline) (e : Bool) (P : List Byte) (sg : Bool) (c : Byte) :
    (if (keyBody N e P false sg c).2.1 = 2 then (keyBody N e P false sg c).1
      else (keyBody N e P false sg c).1.newlineReset) =
    (if (keyBody N e P true sg c).2.1 = 2 then (keyBody N e P true sg c).1
      else (keyBody N e P true sg c).1.newlineReset) ∧
    (keyBody N e P false sg c).2.2.2 = (keyBody N e P true sg c).2.2.2 ∧
    (keyBody N e P false sg c).2.1 = 2 ∧
    ((keyBody N e P true sg c).2.1 = 1 ∨ (keyBody N e P true sg c).2.1 = 2) ∧
    (keyBody N e P false sg c).2.2.1 =
      (keyBody N e P true sg c).2.2.1 ++ (if (keyBody N e P true sg c).2.1 = 2 then [] else if e then P else []) := by
  unfold keyBody
  by_cases he : c = ETX
  · simp [he]
  · simp only [he, if_false]
    by_cases hn : (N.putchar c).2 = RL_NEWLINE
    · simp [hn]
    · simp [hn]

/-- one key keeps the twins together; the callbacks see the same events; and the
bytes written differ only by the prompt one of them still owes -/
theorem twin_step (vc vx : Vterm) (c : Byte) (h : Twin vc vx) :
    Twin (vc.key c).1 (vx.key c).1 ∧ (vc.key c).2.2 = (vx.key c).2.2 ∧
    ∃ bc bx, (vc.key c).2.1 = vc.owed ++ bc ∧ (vx.key c).2.1 = vx.owed ++ bx ∧
      bc ++ (vc.key c).1.owed = bx ++ (vx.key c).1.owed := by
  have hc := key_eq_body vc c h.stc
  have hx := key_eq_body vx c h.stx
  simp only at hc hx
  obtain ⟨k1, k2, k3, k4, k5⟩ := keyBody_twin vx.nrl vx.echo vx.prompt vx.hasSignal c
  rw [h.c, h.nrl, h.echo, h.prompt, h.sig] at hc
  rw [h.x] at hx
  rw [hc, hx]
  refine ⟨⟨rfl, rfl, ?_, ?_, k1, rfl, rfl, rfl⟩, k2, _, _, rfl, rfl, ?_⟩
  · exact Or.inr (Or.inr k3)
  · rcases k4 with k4 | k4
    · exact Or.inr (Or.inl k4)
    · exact Or.inr (Or.inr k4)
  · show _ ++ (if _ = 2 then [] else if vx.echo = true then vx.prompt else []) =
      _ ++ (if _ = 2 then [] else if vx.echo = true then vx.prompt else [])
    rw [k5, if_pos k3]
    simp

theorem twin_run (vc vx : Vterm) (ks : List Byte) (h : Twin vc vx) :
    Twin (vc.run ks) (vx.run ks) ∧ vc.events ks = vx.events ks ∧
    ∀ X Y : List Byte, X ++ vc.owed = Y ++ vx.owed →
      (X ++ vc.echoed ks) ++ (vc.run ks).owed = (Y ++ vx.echoed ks) ++ (vx.run ks).owed := by
  induction ks generalizing vc vx with
  | nil =>
    refine ⟨h, rfl, ?_⟩
    intro X Y e
    simpa [Vterm.echoed, Vterm.run] using e
  | cons c cs ih =>
    obtain ⟨t1, t2, bc, bx, o1, o2, o3⟩ := twin_step vc vx c h
    obtain ⟨i1, i2, i3⟩ := ih (vc.key c).1 (vx.key c).1 t1
    refine ⟨i1, ?_, ?_⟩
    · simp only [Vterm.events]; rw [t2, i2]
    · intro X Y e
      have := i3 (X ++ (vc.key c).2.1) (Y ++ (vx.key c).2.1) (by
        rw [o1, o2, ← List.append_assoc X, e, List.append_assoc, List.append_assoc, o3]
        simp only [List.append_assoc])
      simp only [Vterm.echoed, Vterm.run, List.foldl_cons] at this ⊢
      simpa only [List.append_assoc] using this

theorem twin_init (cap depth : Nat) (prompt : List Byte) :
    Twin (Vterm.init cap depth false prompt) (Vterm.init cap depth true prompt) :=
  ⟨rfl, rfl, Or.inl rfl, Or.inl rfl, rfl, rfl, rfl, rfl⟩

end Igris.C15
