/-
  C15, round 3 — lemmas for: a line without a buffer (capacity 0), the
  `int16_t` parameter of the terminal, settings changed between keys, and the
  W-column terminal against the unbounded one-row screen.
-/
import IgrisModel.C15.Lemmas9
import IgrisModel.C15.Lemmas10
namespace Igris.C15
open Igris.Proto

/-! ### capacity 0 -/

theorem newdata_cap0 (d : List Byte) (n : Nat) : ((Sline.init 0).newdata d n).1 = Sline.init 0 := by
  cases n <;> simp [Sline.newdata, Sline.init, mcpy]

theorem apply_cap0 (o : SOp) : ((Sline.init 0).apply o).1 = Sline.init 0 := by
  cases o with
  | newdata d => exact newdata_cap0 d d.length
  | _ => simp [Sline.apply, Sline.init, Sline.putchar, Sline.backspace, Sline.delete, Sline.left,
      Sline.right, Sline.reset, Sline.getline, Sline.rightsize]

theorem runOps_cap0 (ops : List SOp) : (Sline.init 0).runOps ops = Sline.init 0 := by
  induction ops with
  | nil => rfl
  | cons o os ih =>
    unfold Sline.runOps at ih ⊢
    rw [List.foldl_cons, apply_cap0 o]
    exact ih

/-! ### `sline_newdata` at the C widths -/

theorem availC_small (s : Sline) (hl : s.len ≤ s.cap) (hc : s.cap < 2147483648) :
    s.availC = (s.cap : Int) - (s.len : Int) := by
  unfold Sline.availC toInt32
  have h1 : s.len % 4294967296 = s.len := Nat.mod_eq_of_lt (by omega)
  have h2 : (s.cap + 4294967296 - s.len) % 4294967296 = s.cap - s.len := by
    have : s.cap + 4294967296 - s.len = (s.cap - s.len) + 4294967296 := by omega
    rw [this, Nat.add_mod_right, Nat.mod_eq_of_lt (by omega)]
  rw [h1, h2, if_pos (by omega)]
  omega

theorem newdataC_eq (s : Sline) (hl : s.len ≤ s.cap) (hc : s.cap < 2147483648) (d : List Byte) (n : Int) :
    s.newdataC d n = s.newdataI d n := by
  unfold Sline.newdataC Sline.newdataI
  rw [availC_small s hl hc]
  have : decide ((s.cap : Int) - (s.len : Int) = -2147483648) = false := by simp; omega
  simp [this]

/-! ### the `int16_t` parameter -/

theorem sextChar_ne (b : Byte) (hb : b ≠ 0xFF) : sextChar b ≠ -1 := by
  revert b; decide +kernel

theorem sextChar_trunc : ∀ b : Byte, BitVec.ofInt 8 (sextChar b) = b := by decide +kernel

theorem sextChar_neg : ∀ b : Byte, (sextChar b < 0 ↔ 128 ≤ b.toNat) := by decide +kernel

theorem keyI_char (v : Vterm) (b : Byte) (hb : b ≠ 0xFF) : v.keyI (sextChar b) = v.key b := by
  unfold Vterm.keyI
  rw [if_neg (sextChar_ne b hb), sextChar_trunc]

/-! ### actions between keys keep the simulation -/

theorem vsim_settings (cap depth : Nat) (v : Vterm) (r : Ref) (h : VSim cap depth v r) (p : List Byte) (e : Bool) :
    VSim cap depth { v with prompt := p } r ∧ VSim cap depth { v with echo := e } r := by
  obtain ⟨a, b, c, d, f⟩ := h
  exact ⟨⟨a, b, c, d, f⟩, ⟨a, b, c, d, f⟩⟩

theorem vsim_initStep (cap depth : Nat) (v : Vterm) (r : Ref) (h : VSim cap depth v r) :
    VSim cap depth v.initStep.1 r := by
  by_cases h2 : v.state = 2
  · have e : v.initStep = (v, []) := by
      unfold Vterm.initStep; rw [if_neg (by omega), if_pos h2]
    rw [e]; exact h
  · exact (initStep_sim cap depth v r h h2).1

/-- one action: the simulation is kept, the reference consumes the typed bytes -/
theorem act_sim (cap depth : Nat) (hd : 1 ≤ depth) (v : Vterm) (r : Ref) (a : Act) (h : VSim cap depth v r) :
    VSim cap depth (v.act a).1 (r.run cap (Act.typed [a])) ∧ (v.act a).2.2 = r.events cap (Act.typed [a]) := by
  cases a with
  | key c =>
    obtain ⟨h1, h2⟩ := vstep cap depth hd v r c h
    exact ⟨h1, by simp [Vterm.act, Act.typed, Ref.events, h2]⟩
  | keyI i =>
    by_cases hi : i = -1
    · subst hi
      simp only [Vterm.act, Vterm.keyI, Act.typed, if_true, Ref.run, List.foldl_nil, Ref.events]
      exact ⟨vsim_initStep cap depth v r h, trivial⟩
    · obtain ⟨h1, h2⟩ := vstep cap depth hd v r (BitVec.ofInt 8 i) h
      simp only [Vterm.act, Vterm.keyI, Act.typed, hi, if_false]
      exact ⟨h1, by simp [Ref.events, h2]⟩
  | initStep => exact ⟨vsim_initStep cap depth v r h, rfl⟩
  | setPrompt p => exact ⟨(vsim_settings cap depth v r h p true).1, rfl⟩
  | setEcho e => exact ⟨(vsim_settings cap depth v r h [] e).2, rfl⟩

theorem typed_cons (a : Act) (as : List Act) : Act.typed (a :: as) = Act.typed [a] ++ Act.typed as := by
  cases a with
  | keyI i => by_cases hi : i = -1 <;> simp [Act.typed, hi]
  | _ => simp [Act.typed]

theorem ref_events_append (cap : Nat) (r : Ref) (a b : List Byte) :
    r.events cap (a ++ b) = r.events cap a ++ (r.run cap a).events cap b := by
  induction a generalizing r with
  | nil => rfl
  | cons c cs ih =>
    simp only [List.cons_append, Ref.events, List.append_assoc]
    rw [ih]
    rfl

theorem acts_sim (cap depth : Nat) (hd : 1 ≤ depth) (v : Vterm) (r : Ref) (as : List Act) (h : VSim cap depth v r) :
    VSim cap depth (v.runActs as) (r.run cap (Act.typed as)) ∧ v.actEvents as = r.events cap (Act.typed as) := by
  induction as generalizing v r with
  | nil => exact ⟨h, rfl⟩
  | cons a as ih =>
    obtain ⟨h1, h2⟩ := act_sim cap depth hd v r a h
    obtain ⟨i1, i2⟩ := ih _ _ h1
    rw [typed_cons, Ref.run_append, ref_events_append]
    refine ⟨i1, ?_⟩
    simp only [Vterm.actEvents]
    rw [h2, i2]

/-! ### the W-column terminal follows the unbounded one-row screen while the
cursor stays left of the last column -/

/-- the highest column the (unbounded) screen's cursor reaches while `bs` is fed -/
def Screen.hw (s : Screen) : List Byte → Nat
  | [] => s.col
  | b :: bs => max s.col ((s.put b).hw bs)

/-- the W-column terminal that shows the same row (nothing pending) -/
def WScreen.ofScreen (above : List (List Byte)) (s : Screen) : WScreen := ⟨above, s.cells, s.col, false, s.ps⟩

theorem Screen.hw_ge (s : Screen) (bs : List Byte) : s.col ≤ s.hw bs := by
  cases bs with
  | nil => exact Nat.le_refl _
  | cons b bs => exact Nat.le_max_left _ _

/-- one byte: if the unbounded cursor stays left of the last column, the
W-column terminal does exactly what the unbounded screen does (only the rows
left behind by LF are remembered in addition) -/
theorem wput_eq (W : Nat) (ab : List (List Byte)) (s : Screen) (b : Byte) (h : (s.put b).col + 1 < W) (h0 : s.col + 1 < W) :
    WScreen.put W (WScreen.ofScreen ab s) b =
      WScreen.ofScreen (if s.ps = .ground ∧ b = LF then s.cells :: ab else ab) (s.put b) := by
  obtain ⟨cells, col, ps⟩ := s
  simp only at h0
  unfold WScreen.put Screen.put WScreen.ofScreen at *
  cases ps with
  | ground =>
    simp only at h ⊢
    by_cases h1 : b = ESC
    · subst h1; simp [ESC, LF]
    · by_cases h2 : b = CR
      · subst h2; simp [ESC, LF, CR]
      · by_cases h3 : b = LF
        · subst h3; simp [ESC, LF, CR]
        · by_cases h4 : b = BS
          · subst h4; simp [ESC, LF, CR, BS]
          · by_cases h5 : Screen.isPrintable b = true
            · simp only [h1, h2, h3, h4, h5, if_false, if_true, Screen.putGlyph, and_false] at h ⊢
              simp only [WScreen.putGlyph, Bool.false_eq_true, if_false]
              rw [if_pos (by omega)]
            · simp [h1, h2, h3, h4, h5]
  | esc =>
    simp only at h ⊢
    split <;> simp
  | csi n =>
    simp only at h ⊢
    split
    next hd => simp
    next hd =>
      split
      next h2 => simp
      next h2 =>
        split
        next h3 =>
          subst h3
          simp [Screen.isDigit] at h
          rw [if_pos (by omega)]
          simp
        next h3 => split <;> simp

theorem wfeed_eq (W : Nat) (ab : List (List Byte)) (s : Screen) (bs : List Byte) (h : s.hw bs + 1 < W) :
    ∃ ab', WScreen.feed W (WScreen.ofScreen ab s) bs = WScreen.ofScreen ab' (s.feed bs) := by
  induction bs generalizing ab s with
  | nil => exact ⟨ab, rfl⟩
  | cons b bs ih =>
    simp only [Screen.hw] at h
    have h0 : s.col + 1 < W := by omega
    have h1 : (s.put b).hw bs + 1 < W := by omega
    have h2 : (s.put b).col + 1 < W := by have := Screen.hw_ge (s.put b) bs; omega
    have e1 := wput_eq W ab s b h2 h0
    obtain ⟨ab2, e2⟩ := ih _ (s.put b) h1
    refine ⟨ab2, ?_⟩
    unfold WScreen.feed Screen.feed at *
    rw [List.foldl_cons, List.foldl_cons, e1]
    exact e2

end Igris.C15
