/-
  C15 — helper lemmas, part 2: C strings, the history ring against the list of
  remembered lines, the readline / vterm automata against the reference editor.
-/
import IgrisModel.C15.Lemmas
namespace Igris.C15
open Igris.Proto

/-! ### C strings -/

theorem cstrlen_append_zero (l t : List Byte) (h : ∀ x ∈ l, x ≠ 0) : cstrlen (l ++ 0 :: t) = some l.length := by
  induction l with
  | nil => simp [cstrlen]
  | cons x xs ih =>
    have hx : x ≠ 0 := h x (by simp)
    simp only [List.cons_append, cstrlen, hx, if_false, List.length_cons]
    rw [ih (fun y hy => h y (by simp [hy]))]
    rfl

theorem cstr_nonzero (l : List Byte) : ∀ x ∈ cstr l, x ≠ 0 := by
  induction l with
  | nil => intro x hx; simp [cstr] at hx
  | cons y ys ih =>
    intro x hx
    by_cases hy : y = 0
    · subst hy; simp [cstr] at hx
    · simp only [cstr] at hx ih
      rw [List.takeWhile_cons_of_pos (by simpa using hy)] at hx
      rcases List.mem_cons.mp hx with h | h
      · rw [h]; exact hy
      · exact ih x h

/-- whatever follows, `l ++ 0 :: junk` starts with the C string `cstr l` -/
theorem cstr_split (l junk : List Byte) : ∃ junk', l ++ 0 :: junk = cstr l ++ 0 :: junk' := by
  induction l with
  | nil => exact ⟨junk, rfl⟩
  | cons x xs ih =>
    by_cases hx : x = 0
    · subst hx
      exact ⟨xs ++ 0 :: junk, by simp [cstr]⟩
    · obtain ⟨j, hj⟩ := ih
      refine ⟨j, ?_⟩
      simp only [cstr] at hj ⊢
      rw [List.takeWhile_cons_of_pos (by simpa using hx)]
      simp only [List.cons_append]
      rw [hj]

theorem cstr_eq_self (l : List Byte) (h : ∀ x ∈ l, x ≠ 0) : cstr l = l := by
  induction l with
  | nil => rfl
  | cons y ys ih =>
    have hy : y ≠ 0 := h y (by simp)
    simp only [cstr] at ih ⊢
    rw [List.takeWhile_cons_of_pos (by simpa using hy), ih (fun x hx => h x (by simp [hx]))]

theorem strncmpEq_iff (l h t1 t2 : List Byte) (hl : l.length = h.length) (hz : ∀ x ∈ h, x ≠ 0) :
    strncmpEq (l ++ t1) (h ++ t2) h.length = decide (l = h) := by
  induction l generalizing h with
  | nil =>
    cases h with
    | nil => simp [strncmpEq]
    | cons y ys => simp at hl
  | cons x xs ih =>
    cases h with
    | nil => simp at hl
    | cons y ys =>
      simp only [List.cons_append, List.length_cons, strncmpEq]
      have hy : y ≠ 0 := hz y (by simp)
      by_cases hxy : x = y
      · subst hxy
        simp only [ne_eq, not_true_eq_false, if_false, hy]
        rw [ih ys (by simpa using hl) (fun z hzm => hz z (by simp [hzm]))]
        simp
      · simp [hxy]

/-- a window that holds the C string `l` -/
def HoldsCStr (w l : List Byte) : Prop := (∀ x ∈ l, x ≠ 0) ∧ ∃ junk, w = l ++ 0 :: junk

/-! ### ring arithmetic -/

/-- ring slot of the `k`-th most recent entry, `1 ≤ k ≤ depth` -/
def slotIdx (head depth k : Nat) : Nat := (head + depth - k) % depth

theorem slotIdx_eq (h d k : Nat) (hh : h < d) (hk1 : 1 ≤ k) (hk : k ≤ d) :
    slotIdx h d k = if k ≤ h then h - k else h + d - k := by
  unfold slotIdx
  split
  · have : h + d - k = (h - k) + d := by omega
    rw [this, Nat.add_mod_right, Nat.mod_eq_of_lt (by omega)]
  · rw [Nat.mod_eq_of_lt (by omega)]

theorem head_succ (h d : Nat) (hh : h < d) : (h + 1) % d = if h + 1 = d then 0 else h + 1 := by
  split
  · rename_i e; rw [e, Nat.mod_self]
  · rw [Nat.mod_eq_of_lt (by omega)]

theorem slot_in (i depth cap : Nat) (h : i < depth) : i * cap + cap ≤ cap * depth := by
  have : (i + 1) * cap ≤ depth * cap := Nat.mul_le_mul_right cap (by omega)
  rw [Nat.add_mul, Nat.one_mul, Nat.mul_comm depth cap] at this
  exact this

theorem slot_disj (i j cap : Nat) (h : i ≠ j) : i * cap + cap ≤ j * cap ∨ j * cap + cap ≤ i * cap := by
  rcases Nat.lt_or_gt_of_ne h with h | h
  · left
    have : (i + 1) * cap ≤ j * cap := Nat.mul_le_mul_right cap (by omega)
    rw [Nat.add_mul, Nat.one_mul] at this; exact this
  · right
    have : (j + 1) * cap ≤ i * cap := Nat.mul_le_mul_right cap (by omega)
    rw [Nat.add_mul, Nat.one_mul] at this; exact this

theorem win_split3 (b : List α) (o n a c : Nat) (h : n = a + (1 + c)) :
    win b o n = win b o a ++ (win b (o + a) 1 ++ win b (o + a + 1) c) := by
  rw [h, win_add, win_add]

theorem slotIdx_lt (h d k : Nat) (hd : 0 < d) : slotIdx h d k < d := Nat.mod_lt _ hd

theorem ring_new (h d : Nat) (hh : h < d) : slotIdx ((h + 1) % d) d 1 = h := by
  have h1 : (h + 1) % d < d := Nat.mod_lt _ (by omega)
  rw [slotIdx_eq _ _ _ h1 (by omega) (by omega), head_succ h d hh]
  split <;> split <;> omega

theorem ring_old (h d k : Nat) (hh : h < d) (hk1 : 1 ≤ k) (hk : k < d) :
    slotIdx ((h + 1) % d) d (k + 1) = slotIdx h d k ∧ slotIdx h d k ≠ h := by
  have h1 : (h + 1) % d < d := Nat.mod_lt _ (by omega)
  rw [slotIdx_eq _ _ _ h1 (by omega) (by omega), slotIdx_eq _ _ _ hh hk1 (by omega), head_succ h d hh]
  constructor
  · split <;> split <;> split <;> omega
  · split <;> omega

/-! ### the history ring against the list of remembered lines -/

structure HistOK (cap depth : Nat) (rl : Readline) (hist : List (List Byte)) : Prop where
  hasHist : rl.hasHist = true
  hsize : rl.hsize = depth
  hlen : rl.hist.length = cap * depth
  head : rl.headhist < depth
  nofault : rl.hfault = false
  slen : hist.length = depth
  slots : ∀ k, k < depth →
    HoldsCStr (win rl.hist (slotIdx rl.headhist depth (k + 1) * cap) cap) (hist.getD k [])

theorem holds_length (w l : List Byte) (n : Nat) (hw : w.length = n) (h : HoldsCStr w l) : l.length + 1 ≤ n := by
  obtain ⟨_, junk, e⟩ := h
  rw [e] at hw
  simp at hw
  omega

/-- `readline_push_current_line_to_history`: the ring now holds the line (as a C
string) as most recent entry, the oldest entry is gone, nothing else moved -/
theorem push_ok (cap depth : Nat) (hd : 1 ≤ depth) (rl : Readline) (hist : List (List Byte))
    (hl : SlineOK rl.line) (hc : rl.line.cap = cap) (H : HistOK cap depth rl hist) :
    HistOK cap depth rl.pushCurrent ((cstr rl.line.text :: hist).dropLast) := by
  obtain ⟨hb, hcur, hroom, hf⟩ := hl
  obtain ⟨h1, h2, h3, h4, h5, h6, h7⟩ := H
  have hslot := slot_in rl.headhist depth cap h4
  have hT : (win rl.line.buf 0 rl.line.len).length = rl.line.len := length_win _ _ _ (by omega)
  have hlen1 : (splice rl.hist (rl.headhist * cap) (win rl.line.buf 0 rl.line.len)).length = rl.hist.length :=
    length_splice _ _ _ (by rw [hT]; omega)
  have e : rl.pushCurrent = { rl with
      hist := splice (splice rl.hist (rl.headhist * cap) (win rl.line.buf 0 rl.line.len))
        (rl.headhist * cap + rl.line.len) [0],
      headhist := (rl.headhist + 1) % depth } := by
    unfold Readline.pushCurrent
    simp only [hc, h2]
    rw [mcpy_ok _ _ _ _ _ (by omega) (by omega)]
    simp only
    rw [wr_ok _ _ _ (by rw [hlen1]; omega)]
    simp [h5]
  rw [e]
  refine ⟨h1, h2, ?_, Nat.mod_lt _ (by omega), h5, ?_, ?_⟩
  · simp only
    rw [length_splice _ _ _ (by rw [hlen1]; simp; omega), hlen1]; exact h3
  · cases hist with
    | nil => simp at h6; omega
    | cons a as => simp at h6 ⊢; omega
  · intro k hk
    simp only
    by_cases hk0 : k = 0
    · subst hk0
      rw [ring_new _ _ h4]
      have hhead : ((cstr rl.line.text :: hist).dropLast).getD 0 [] = cstr rl.line.text := by
        cases hist with
        | nil => simp at h6; omega
        | cons a as => simp
      rw [hhead]
      have hcap : cap = rl.line.len + (1 + (cap - rl.line.len - 1)) := by omega
      have hw : win (splice (splice rl.hist (rl.headhist * cap) (win rl.line.buf 0 rl.line.len))
          (rl.headhist * cap + rl.line.len) [0]) (rl.headhist * cap) cap =
          rl.line.text ++ 0 :: win (splice (splice rl.hist (rl.headhist * cap) (win rl.line.buf 0 rl.line.len))
          (rl.headhist * cap + rl.line.len) [0]) (rl.headhist * cap + rl.line.len + 1) (cap - rl.line.len - 1) := by
        rw [win_split3 _ _ _ _ _ hcap]
        rw [win_splice_before _ _ _ _ _ (by rw [hlen1]; omega) (by omega)]
        have a1 := win_splice_at rl.hist (rl.headhist * cap) (win rl.line.buf 0 rl.line.len) (by omega)
        rw [hT] at a1
        rw [a1]
        have a2 := win_splice_at (splice rl.hist (rl.headhist * cap) (win rl.line.buf 0 rl.line.len))
          (rl.headhist * cap + rl.line.len) [0] (by rw [hlen1]; omega)
        simp only [List.length_cons, List.length_nil, Nat.zero_add] at a2
        rw [a2, ← take_eq_win]
        rfl
      rw [hw]
      obtain ⟨j, hj⟩ := cstr_split rl.line.text
        (win (splice (splice rl.hist (rl.headhist * cap) (win rl.line.buf 0 rl.line.len))
          (rl.headhist * cap + rl.line.len) [0]) (rl.headhist * cap + rl.line.len + 1) (cap - rl.line.len - 1))
      exact ⟨cstr_nonzero _, j, hj⟩
    · obtain ⟨r1, r2⟩ := ring_old rl.headhist depth k h4 (by omega) hk
      have hget : ((cstr rl.line.text :: hist).dropLast).getD k [] = hist.getD (k - 1) [] := by
        cases hist with
        | nil => simp at h6; omega
        | cons a as =>
          obtain ⟨k', rfl⟩ : ∃ k', k = k' + 1 := ⟨k - 1, by omega⟩
          simp only [List.length_cons] at h6
          rw [List.dropLast_cons_of_ne_nil (by simp)]
          simp only [List.getD_eq_getElem?_getD, List.getElem?_cons_succ, Nat.add_sub_cancel]
          rw [List.getElem?_dropLast]
          simp only [List.length_cons]
          rw [if_pos (by omega)]
      rw [hget, r1]
      have hold := h7 (k - 1) (by omega)
      have ek : k - 1 + 1 = k := by omega
      rw [ek] at hold
      have hsl := slot_in (slotIdx rl.headhist depth k) depth cap (slotIdx_lt _ _ _ (by omega))
      rcases slot_disj _ _ cap r2 with hdj | hdj
      · rw [win_splice_before _ _ _ _ _ (by rw [hlen1]; omega) (by omega),
          win_splice_before _ _ _ _ _ (by omega) (by omega)]
        exact hold
      · rw [win_splice_after _ _ _ _ _ (by rw [hlen1]; omega) (by simp; omega),
          win_splice_after _ _ _ _ _ (by omega) (by rw [hT]; omega)]
        exact hold

/-- `readline_load_history_line` with `curhist = b`: the line becomes the `b`-th
most recent remembered line (the empty line for `b = 0`), cursor at its end;
`lastsize` records the old cursor; nothing else changes and no access faults -/
theorem load_ok (cap depth : Nat) (rl : Readline) (hist : List (List Byte))
    (hl : SlineOK rl.line) (hc : rl.line.cap = cap) (H : HistOK cap depth rl hist) (hb : rl.curhist ≤ depth) :
    ∃ L : Sline, rl.loadHistoryLine = { rl with lastsize := rl.line.cursor, line := L } ∧ SlineOK L ∧ L.cap = cap ∧
      L.toZip = (if rl.curhist = 0 then Zip.empty else ⟨hist.getD (rl.curhist - 1) [], []⟩) := by
  obtain ⟨hbl, hcur, hroom, hf⟩ := hl
  obtain ⟨h1, h2, h3, h4, h5, h6, h7⟩ := H
  by_cases h0 : rl.curhist = 0
  · refine ⟨{ rl.line with buf := splice rl.line.buf 0 (List.replicate rl.line.cap 0), len := 0, cursor := 0 }, ?_, ?_, hc, ?_⟩
    · unfold Readline.loadHistoryLine
      simp only [h0, if_true]
      rw [mset_ok _ _ _ _ (by omega)]
      simp [hf]
    · refine ⟨?_, Nat.le_refl _, by simp only; omega, hf⟩
      simp only; rw [length_splice _ _ _ (by simp; omega)]; exact hbl
    · simp [h0, Sline.toZip, Zip.empty]
  · have hk : rl.curhist - 1 < depth := by omega
    have hold := h7 (rl.curhist - 1) hk
    have ek : rl.curhist - 1 + 1 = rl.curhist := by omega
    rw [ek] at hold
    have hsl := slot_in (slotIdx rl.headhist depth rl.curhist) depth cap (slotIdx_lt _ _ _ (by omega))
    have hwl : (win rl.hist (slotIdx rl.headhist depth rl.curhist * cap) cap).length = cap :=
      length_win _ _ _ (by omega)
    have hlen := holds_length _ _ _ hwl hold
    obtain ⟨hnz, junk, hj⟩ := hold
    generalize hl' : hist.getD (rl.curhist - 1) [] = l at *
    have hdrop : rl.hist.drop (slotIdx rl.headhist depth rl.curhist * cap) =
        l ++ 0 :: (junk ++ rl.hist.drop (slotIdx rl.headhist depth rl.curhist * cap + cap)) := by
      rw [drop_eq_win_append _ _ cap, hj]; simp
    have hwin : win rl.hist (slotIdx rl.headhist depth rl.curhist * cap) l.length = l := by
      have : l.length = min l.length cap := by omega
      rw [this, ← win_take, hj]; simp
    refine ⟨{ rl.line with buf := splice rl.line.buf 0 l, len := l.length, cursor := l.length }, ?_, ?_, hc, ?_⟩
    · unfold Readline.loadHistoryLine
      simp only [h0, if_false, Readline.histOff, h2, hc]
      rw [show (rl.headhist + depth - rl.curhist) % depth = slotIdx rl.headhist depth rl.curhist from rfl]
      rw [hdrop, cstrlen_append_zero _ _ hnz]
      simp only
      rw [mcpy_ok _ _ _ _ _ (by omega) (by omega), hwin]
      simp [hf]
    · refine ⟨?_, Nat.le_refl _, by simp only; omega, hf⟩
      simp only; rw [length_splice _ _ _ (by omega)]; exact hbl
    · rw [toZip_eq]
      simp only [h0, if_false, Nat.sub_self, win_zero]
      have := win_splice_at rl.line.buf 0 l (by omega)
      rw [this]

theorem text_length (s : Sline) (h : SlineOK s) : s.text.length = s.len := by
  unfold Sline.text; rw [take_eq_win]; exact length_win _ _ _ (by have := h.blen; have := h.room; omega)

/-- `readline_is_not_same_as_last`: true iff the line differs from the most recent
remembered line; the `strlen` stays inside history_space -/
theorem notSame_ok (cap depth : Nat) (hd : 1 ≤ depth) (rl : Readline) (hist : List (List Byte))
    (hl : SlineOK rl.line) (hc : rl.line.cap = cap) (H : HistOK cap depth rl hist) :
    rl.notSameAsLast = (decide (hist.head? ≠ some rl.line.text), false) := by
  have htl := text_length _ hl
  obtain ⟨hbl, hcur, hroom, hf⟩ := hl
  obtain ⟨h1, h2, h3, h4, h5, h6, h7⟩ := H
  have hold := h7 0 (by omega)
  have hsl := slot_in (slotIdx rl.headhist depth 1) depth cap (slotIdx_lt _ _ _ (by omega))
  obtain ⟨hnz, junk, hj⟩ := hold
  have hhead : hist.head? = some (hist.getD 0 []) := by
    cases hist with
    | nil => simp at h6; omega
    | cons a as => simp
  rw [hhead]
  generalize hist.getD 0 [] = l at *
  have hdrop : rl.hist.drop (slotIdx rl.headhist depth 1 * cap) =
      l ++ 0 :: (junk ++ rl.hist.drop (slotIdx rl.headhist depth 1 * cap + cap)) := by
    rw [drop_eq_win_append _ _ cap, hj]; simp
  unfold Readline.notSameAsLast Sline.equal
  simp only [Readline.histOff, h2, hc]
  rw [show (rl.headhist + depth - 1) % depth = slotIdx rl.headhist depth 1 from rfl, hdrop,
    cstrlen_append_zero _ _ hnz]
  simp only
  by_cases hlen : rl.line.len = l.length
  · rw [if_neg (by simpa using hlen)]
    have hbuf : rl.line.buf = rl.line.text ++ rl.line.buf.drop rl.line.len := by
      unfold Sline.text; rw [List.take_append_drop]
    rw [hbuf, hlen, strncmpEq_iff _ _ _ _ (by omega) hnz]
    simp only [Option.some.injEq, ne_eq]
    by_cases hq : rl.line.text = l
    · simp [hq]
    · have : ¬ l = rl.line.text := fun e => hq e.symm
      simp [hq, this]
  · rw [if_pos (by simpa using hlen)]
    have : ¬ l = rl.line.text := by intro e; rw [← e] at htl; omega
    simp [this]

/-! ### the readline automaton against the reference decoder -/

structure RSim (cap depth : Nat) (rl : Readline) (r : Ref) : Prop where
  lineOK : SlineOK rl.line
  lcap : rl.line.cap = cap
  histOK : HistOK cap depth rl r.hist
  last : rl.last = r.prev
  cur : rl.curhist = r.browse
  browse : r.browse ≤ depth
  st : rl.state = r.esc
  zip : rl.line.toZip = r.z

/-- how the line changed, by return code: what the terminal has to redraw -/
def EchoRel (c : Byte) (ret : Int) (lastsize : Nat) (z z' : Zip) : Prop :=
  (ret = RL_ECHOCHAR ∧ z' = ⟨z.left ++ [c], z.right⟩) ∨
  (ret = RL_BACKSPACE ∧ z.left ≠ [] ∧ z' = ⟨z.left.take (z.left.length - 1), z.right⟩) ∨
  (ret = RL_DELETE ∧ z.right ≠ [] ∧ z' = ⟨z.left, z.right.drop 1⟩) ∨
  (ret = RL_LEFT ∧ z.left ≠ [] ∧ z' = z.moveLeft.1) ∨
  (ret = RL_RIGHT ∧ z.right ≠ [] ∧ z' = z.moveRight.1) ∨
  (ret = RL_UPDATELINE ∧ z'.right = [] ∧ lastsize = z.left.length) ∨
  ((ret = RL_NOTHING ∨ ret = RL_OVERFLOW ∨ ret = RL_NEWLINE) ∧ z' = z)

/-- conclusion of one readline step -/
def RStep (cap depth : Nat) (c : Byte) (r : Ref) (p : Readline × Int) : Prop :=
  RSim cap depth p.1 (r.rlKey cap c).1 ∧
  EchoRel c p.2 p.1.lastsize r.z (r.rlKey cap c).1.z ∧
  (p.2 = RL_NEWLINE → (r.rlKey cap c).2 = some r.z.line) ∧
  (p.2 ≠ RL_NEWLINE → (r.rlKey cap c).2 = none)

theorem histOK_of_eq {cap depth : Nat} {hist : List (List Byte)} (rl rl' : Readline)
    (e1 : rl'.hasHist = rl.hasHist) (e2 : rl'.hsize = rl.hsize) (e3 : rl'.hist = rl.hist)
    (e4 : rl'.headhist = rl.headhist) (e5 : rl'.hfault = rl.hfault) (H : HistOK cap depth rl hist) :
    HistOK cap depth rl' hist :=
  ⟨by rw [e1]; exact H.hasHist, by rw [e2]; exact H.hsize, by rw [e3]; exact H.hlen, by rw [e4]; exact H.head,
   by rw [e5]; exact H.nofault, H.slen, by rw [e3, e4]; exact H.slots⟩

theorem step_escseq (cap depth : Nat) (rl : Readline) (r : Ref) (c : Byte) (h : RSim cap depth rl r)
    (hs : r.esc = .escseq) : RStep cap depth c r (rl.putchar c) := by
  have hst : rl.state = .escseq := by rw [h.st, hs]
  unfold RStep Readline.putchar Ref.rlKey
  rw [hst, hs]
  simp only
  by_cases hc : c = 0x5b
  · simp only [hc, if_true]
    refine ⟨⟨h.lineOK, h.lcap, histOK_of_eq rl _ rfl rfl rfl rfl rfl h.histOK, rfl, h.cur, h.browse, rfl, h.zip⟩,
      ?_, fun e => absurd e (by decide), by first | trivial | (intro _; rfl)⟩
    exact Or.inr (Or.inr (Or.inr (Or.inr (Or.inr (Or.inr ⟨Or.inl rfl, rfl⟩)))))
  · simp only [hc, if_false]
    refine ⟨⟨h.lineOK, h.lcap, histOK_of_eq rl _ rfl rfl rfl rfl rfl h.histOK, rfl, h.cur, h.browse, rfl, h.zip⟩,
      ?_, fun e => absurd e (by decide), by first | trivial | (intro _; rfl)⟩
    exact Or.inr (Or.inr (Or.inr (Or.inr (Or.inr (Or.inr ⟨Or.inl rfl, rfl⟩)))))

theorem step_wait7e (cap depth : Nat) (rl : Readline) (r : Ref) (c : Byte) (h : RSim cap depth rl r)
    (hs : r.esc = .wait7e) : RStep cap depth c r (rl.putchar c) := by
  have hst : rl.state = .wait7e := by rw [h.st, hs]
  unfold RStep Readline.putchar Ref.rlKey
  rw [hst, hs]
  simp only
  refine ⟨⟨h.lineOK, h.lcap, histOK_of_eq rl _ rfl rfl rfl rfl rfl h.histOK, rfl, h.cur, h.browse, rfl, h.zip⟩,
    ?_, fun e => absurd e (by decide), by first | trivial | (intro _; rfl)⟩
  exact Or.inr (Or.inr (Or.inr (Or.inr (Or.inr (Or.inr ⟨Or.inl rfl, rfl⟩)))))

theorem zip_eta (z : Zip) : (⟨z.left, z.right⟩ : Zip) = z := by cases z; rfl

theorem historyUp_ok (cap depth : Nat) (rl : Readline) (hist : List (List Byte))
    (hL : SlineOK rl.line) (hcap : rl.line.cap = cap) (hH : HistOK cap depth rl hist) (hbr : rl.curhist ≤ depth) :
    (rl.curhist = depth → rl.historyUp = (rl, 0)) ∧
    (rl.curhist ≠ depth → ∃ L : Sline, rl.historyUp =
        ({ rl with curhist := rl.curhist + 1, lastsize := rl.line.cursor, line := L }, 1) ∧
      SlineOK L ∧ L.cap = cap ∧ L.toZip = ⟨hist.getD rl.curhist [], []⟩) := by
  constructor
  · intro hfull
    unfold Readline.historyUp
    rw [hH.hasHist, hH.hsize]
    simp [hfull]
  · intro hne
    obtain ⟨L, e, l1, l2, l3⟩ := load_ok cap depth { rl with curhist := rl.curhist + 1 } hist hL hcap
      (histOK_of_eq rl _ rfl rfl rfl rfl rfl hH) (by simp only; omega)
    simp only [Nat.add_one_ne_zero, if_false, Nat.add_sub_cancel] at l3
    refine ⟨L, ?_, l1, l2, l3⟩
    unfold Readline.historyUp
    rw [e]
    simp [hH.hasHist, hH.hsize, hne]

theorem historyDown_ok (cap depth : Nat) (rl : Readline) (hist : List (List Byte))
    (hL : SlineOK rl.line) (hcap : rl.line.cap = cap) (hH : HistOK cap depth rl hist) (hbr : rl.curhist ≤ depth) :
    (rl.curhist = 0 → rl.historyDown = (rl, 0)) ∧
    (rl.curhist ≠ 0 → ∃ L : Sline, rl.historyDown =
        ({ rl with curhist := rl.curhist - 1, lastsize := rl.line.cursor, line := L }, 1) ∧
      SlineOK L ∧ L.cap = cap ∧
      L.toZip = (if rl.curhist = 1 then Zip.empty else ⟨hist.getD (rl.curhist - 2) [], []⟩)) := by
  constructor
  · intro h0
    unfold Readline.historyDown
    rw [hH.hasHist]
    simp [h0]
  · intro hne
    obtain ⟨L, e, l1, l2, l3⟩ := load_ok cap depth { rl with curhist := rl.curhist - 1 } hist hL hcap
      (histOK_of_eq rl _ rfl rfl rfl rfl rfl hH) (by simp only; omega)
    simp only at l3
    refine ⟨L, ?_, l1, l2, ?_⟩
    · unfold Readline.historyDown
      rw [e]
      simp [hH.hasHist, hne]
    · rw [l3]
      by_cases h1 : rl.curhist = 1
      · rw [if_pos (by omega), if_pos h1]
      · rw [if_neg (by omega), if_neg h1]
        have e2 : rl.curhist - 1 - 1 = rl.curhist - 2 := by omega
        rw [e2]

theorem step_move (cap depth : Nat) (hd : 1 ≤ depth) (rl : Readline) (r : Ref) (c : Byte)
    (h : RSim cap depth rl r) (hs : r.esc = .move) : RStep cap depth c r (rl.putchar c) := by
  have hst : rl.state = .move := by rw [h.st, hs]
  obtain ⟨hL, hcap, hH, hlast, hcur, hbr, _, hzip⟩ := h
  have hnoth : ∀ (c : Byte) (z : Zip), EchoRel c RL_NOTHING rl.lastsize z z :=
    fun c z => Or.inr (Or.inr (Or.inr (Or.inr (Or.inr (Or.inr ⟨Or.inl rfl, rfl⟩)))))
  have hls : rl.line.cursor = r.z.left.length := by rw [← hzip, toZip_left_length _ hL]
  have hbr' : rl.curhist ≤ depth := by omega
  unfold RStep Readline.putchar Ref.rlKey
  rw [hst, hs]
  simp only
  by_cases hA : c = 0x41
  · -- Up
    subst hA
    simp only [if_true]
    obtain ⟨u1, u2⟩ := historyUp_ok cap depth rl r.hist hL hcap hH hbr'
    rw [hH.slen]
    by_cases hfull : rl.curhist = depth
    · rw [u1 hfull, if_neg (by omega)]
      simp only [ne_eq, not_true_eq_false, if_false]
      exact ⟨⟨hL, hcap, histOK_of_eq rl _ rfl rfl rfl rfl rfl hH, rfl, hcur, hbr, rfl, hzip⟩, hnoth _ _,
        fun e => absurd e (by decide), by first | trivial | (intro _; rfl)⟩
    · obtain ⟨L, e, l1, l2, l3⟩ := u2 hfull
      rw [e, if_pos (by omega)]
      simp only [ne_eq, Nat.succ_ne_zero, not_false_eq_true, if_true]
      refine ⟨⟨l1, l2, histOK_of_eq rl _ rfl rfl rfl rfl rfl hH, rfl, by simp only; omega, by simp only; omega, rfl,
        by simp only; rw [l3, hcur]⟩, ?_, fun e => absurd e (by decide), by first | trivial | (intro _; rfl)⟩
      exact Or.inr (Or.inr (Or.inr (Or.inr (Or.inr (Or.inl ⟨rfl, rfl, hls⟩)))))
  · simp only [hA, if_false]
    by_cases hB : c = 0x42
    · -- Down
      subst hB
      simp only [if_true]
      obtain ⟨u1, u2⟩ := historyDown_ok cap depth rl r.hist hL hcap hH hbr'
      by_cases h0 : rl.curhist = 0
      · rw [u1 h0, if_pos (by omega)]
        simp only [ne_eq, not_true_eq_false, if_false]
        exact ⟨⟨hL, hcap, histOK_of_eq rl _ rfl rfl rfl rfl rfl hH, rfl, hcur, hbr, rfl, hzip⟩, hnoth _ _,
          fun e => absurd e (by decide), by first | trivial | (intro _; rfl)⟩
      · obtain ⟨L, e, l1, l2, l3⟩ := u2 h0
        rw [e, if_neg (by omega)]
        simp only [ne_eq, Nat.succ_ne_zero, not_false_eq_true, if_true]
        by_cases h1 : rl.curhist = 1
        · rw [if_pos (by omega)]
          rw [if_pos h1] at l3
          refine ⟨⟨l1, l2, histOK_of_eq rl _ rfl rfl rfl rfl rfl hH, rfl, by simp only; omega, by simp only; omega, rfl,
            l3⟩, ?_, fun e => absurd e (by decide), by first | trivial | (intro _; rfl)⟩
          exact Or.inr (Or.inr (Or.inr (Or.inr (Or.inr (Or.inl ⟨rfl, rfl, hls⟩)))))
        · rw [if_neg (by omega)]
          rw [if_neg h1] at l3
          refine ⟨⟨l1, l2, histOK_of_eq rl _ rfl rfl rfl rfl rfl hH, rfl, by simp only; omega, by simp only; omega, rfl,
            by simp only; rw [l3, hcur]⟩, ?_, fun e => absurd e (by decide), by first | trivial | (intro _; rfl)⟩
          exact Or.inr (Or.inr (Or.inr (Or.inr (Or.inr (Or.inl ⟨rfl, rfl, hls⟩)))))
    · simp only [hB, if_false]
      by_cases hC : c = 0x43
      · -- Right
        simp only [hC, if_true]
        have hR := right_ok rl.line hL
        unfold StepOK at hR
        simp only [Sline.apply, Zip.apply, hzip] at hR
        obtain ⟨o1, o2, o3, o4⟩ := hR
        refine ⟨⟨o1, by simp only; rw [o2, hcap], histOK_of_eq rl _ rfl rfl rfl rfl rfl hH, rfl, hcur, hbr, rfl, o3⟩,
          ?_, ?_, ?_⟩
        · rw [o4]
          unfold Zip.moveRight
          by_cases hr : r.z.right = []
          · simp only [hr, if_true]; exact hnoth _ _
          · simp only [hr, if_false, ne_eq, Nat.succ_ne_zero, not_false_eq_true, if_true]
            exact Or.inr (Or.inr (Or.inr (Or.inr (Or.inl ⟨rfl, hr, by unfold Zip.moveRight; rw [if_neg hr]⟩))))
        · intro e; split at e <;> exact absurd e (by decide)
        · first | trivial | (intro _; rfl) | (intro _; trivial)
      · simp only [hC, if_false]
        by_cases hD : c = 0x44
        · -- Left
          simp only [hD, if_true]
          have hR := left_ok rl.line hL
          unfold StepOK at hR
          simp only [Sline.apply, Zip.apply, hzip] at hR
          obtain ⟨o1, o2, o3, o4⟩ := hR
          refine ⟨⟨o1, by simp only; rw [o2, hcap], histOK_of_eq rl _ rfl rfl rfl rfl rfl hH, rfl, hcur, hbr, rfl, o3⟩,
            ?_, ?_, ?_⟩
          · rw [o4]
            unfold Zip.moveLeft
            by_cases hr : r.z.left = []
            · simp only [hr, if_true]; exact hnoth _ _
            · simp only [hr, if_false, ne_eq, Nat.succ_ne_zero, not_false_eq_true, if_true]
              exact Or.inr (Or.inr (Or.inr (Or.inl ⟨rfl, hr, by unfold Zip.moveLeft; rw [if_neg hr]⟩)))
          · intro e; split at e <;> exact absurd e (by decide)
          · first | trivial | (intro _; rfl) | (intro _; trivial)
        · simp only [hD, if_false]
          by_cases hE : c = 0x33
          · -- Delete
            simp only [hE, if_true]
            have hR := delete_ok rl.line hL 1
            unfold StepOK at hR
            simp only [Sline.apply, Zip.apply, hzip] at hR
            obtain ⟨o1, o2, o3, o4⟩ := hR
            refine ⟨⟨o1, by simp only; rw [o2, hcap], histOK_of_eq rl _ rfl rfl rfl rfl rfl hH, rfl, hcur, hbr, rfl, o3⟩,
              ?_, ?_, ?_⟩
            · rw [o4]
              unfold Zip.delete
              by_cases hr : r.z.right = []
              · simp only [hr, List.length_nil, Nat.min_zero, List.drop_nil, ne_eq, not_true_eq_false, if_false]
                have : (⟨r.z.left, []⟩ : Zip) = r.z := by rw [← hr]
                rw [this]; exact hnoth _ _
              · have hl : 1 ≤ r.z.right.length := by
                  cases hq : r.z.right with
                  | nil => exact absurd hq hr
                  | cons a as => simp
                have hm : min 1 r.z.right.length = 1 := by omega
                simp only [hm, ne_eq, Nat.succ_ne_zero, not_false_eq_true, if_true]
                exact Or.inr (Or.inr (Or.inl ⟨rfl, hr, rfl⟩))
            · intro e; split at e <;> exact absurd e (by decide)
            · first | trivial | (intro _; rfl) | (intro _; trivial)
          · simp only [hE, if_false]
            exact ⟨⟨hL, hcap, histOK_of_eq rl _ rfl rfl rfl rfl rfl hH, rfl, hcur, hbr, rfl, hzip⟩, hnoth _ _,
              fun e => absurd e (by decide), by first | trivial | (intro _; rfl)⟩

/-- the history part of Enter: the line is remembered per `Ref.remember`; the
edit buffer and the decoder state are untouched -/
theorem storeLine_ok (cap depth : Nat) (hd : 1 ≤ depth) (rl : Readline) (hist : List (List Byte))
    (hL : SlineOK rl.line) (hcap : rl.line.cap = cap) (hH : HistOK cap depth rl hist) :
    rl.storeLine.line = rl.line ∧ rl.storeLine.state = rl.state ∧
    HistOK cap depth rl.storeLine (Ref.remember hist rl.line.text) := by
  have hlen : rl.line.text.length = rl.line.len := text_length _ hL
  unfold Ref.remember Readline.storeLine
  by_cases hl0 : rl.line.len = 0
  · rw [if_neg (by simp [hl0])]
    have : rl.line.text = [] := List.eq_nil_of_length_eq_zero (by omega)
    rw [if_neg (by simp [this])]
    exact ⟨rfl, rfl, hH⟩
  · have hne : rl.line.text ≠ [] := by intro e; rw [e] at hlen; simp at hlen; omega
    rw [if_pos ⟨hH.hasHist, hl0⟩, notSame_ok cap depth hd rl hist hL hcap hH]
    simp only [Bool.or_false, decide_eq_true_eq]
    have hH0 : HistOK cap depth ({ rl with hfault := rl.hfault } : Readline) hist :=
      histOK_of_eq rl _ rfl rfl rfl rfl rfl hH
    by_cases hsame : hist.head? ≠ some rl.line.text
    · rw [if_pos hsame, if_pos ⟨hne, hsame⟩]
      exact ⟨rfl, rfl, push_ok cap depth hd _ hist hL hcap hH0⟩
    · rw [if_neg hsame, if_neg (by intro ⟨_, q⟩; exact hsame q)]
      exact ⟨rfl, rfl, hH0⟩

theorem nothing_ne_newline : RL_NOTHING ≠ RL_NEWLINE := by decide

/-! equations of `readline_putchar` in the NORMAL state -/

theorem putchar_swallow (rl : Readline) (c : Byte) (hst : rl.state = .normal) (hnl : c = CR ∨ c = LF)
    (hsw : (rl.last = LF ∨ rl.last = CR) ∧ rl.last ≠ c) :
    rl.putchar c = ({ rl with last := 0 }, RL_NOTHING) := by
  unfold Readline.putchar; rw [hst]; simp only; rw [if_pos hnl, if_pos hsw]

theorem putchar_enter (rl : Readline) (c : Byte) (hst : rl.state = .normal) (hnl : c = CR ∨ c = LF)
    (hsw : ¬ ((rl.last = LF ∨ rl.last = CR) ∧ rl.last ≠ c)) :
    rl.putchar c = ({ rl.storeLine with curhist := 0, last := c }, RL_NEWLINE) := by
  unfold Readline.putchar; rw [hst]; simp only; rw [if_pos hnl, if_neg hsw]

theorem putchar_bs (rl : Readline) (c : Byte) (hst : rl.state = .normal) (hnl : ¬ (c = CR ∨ c = LF)) (hbs : c = BS) :
    rl.putchar c = ({ rl with line := (rl.line.backspace 1).1, last := c },
      if (rl.line.backspace 1).2 ≠ 0 then RL_BACKSPACE else RL_NOTHING) := by
  unfold Readline.putchar; rw [hst]; simp only; rw [if_neg hnl, if_pos hbs]

theorem putchar_esc (rl : Readline) (c : Byte) (hst : rl.state = .normal) (hnl : ¬ (c = CR ∨ c = LF)) (hbs : c ≠ BS)
    (hesc : c = ESC) : rl.putchar c = ({ rl with state := .escseq, last := c }, RL_NOTHING) := by
  unfold Readline.putchar; rw [hst]; simp only; rw [if_neg hnl, if_neg hbs, if_pos hesc]

theorem putchar_char (rl : Readline) (c : Byte) (hst : rl.state = .normal) (hnl : ¬ (c = CR ∨ c = LF)) (hbs : c ≠ BS)
    (hesc : c ≠ ESC) : rl.putchar c = ({ rl with line := (rl.line.putchar c).1, last := c },
      if (rl.line.putchar c).2 ≠ 0 then RL_ECHOCHAR else RL_OVERFLOW) := by
  unfold Readline.putchar; rw [hst]; simp only; rw [if_neg hnl, if_neg hbs, if_neg hesc]

theorem step_normal (cap depth : Nat) (hd : 1 ≤ depth) (rl : Readline) (r : Ref) (c : Byte)
    (h : RSim cap depth rl r) (hs : r.esc = .normal) : RStep cap depth c r (rl.putchar c) := by
  have hst : rl.state = .normal := by rw [h.st, hs]
  obtain ⟨hL, hcap, hH, hlast, hcur, hbr, _, hzip⟩ := h
  have hnoth : ∀ (c : Byte) (z : Zip), EchoRel c RL_NOTHING rl.lastsize z z :=
    fun c z => Or.inr (Or.inr (Or.inr (Or.inr (Or.inr (Or.inr ⟨Or.inl rfl, rfl⟩)))))
  unfold RStep Ref.rlKey
  rw [hs]
  simp only
  by_cases hnl : c = CR ∨ c = LF
  · rw [if_pos hnl]
    by_cases hsw : (r.prev = LF ∨ r.prev = CR) ∧ r.prev ≠ c
    · -- second half of a CR LF pair
      rw [if_pos hsw, putchar_swallow rl c hst hnl (by rw [hlast]; exact hsw)]
      exact ⟨⟨hL, hcap, histOK_of_eq rl _ rfl rfl rfl rfl rfl hH, rfl, hcur, hbr, hst, hzip⟩,
        hnoth _ _, fun e => absurd e nothing_ne_newline, by first | trivial | (intro _; rfl)⟩
    · -- Enter
      rw [if_neg hsw, putchar_enter rl c hst hnl (by rw [hlast]; exact hsw)]
      have hline : r.z.line = rl.line.text := by rw [← hzip, toZip_line _ hL]
      obtain ⟨k1, k2, k3⟩ := storeLine_ok cap depth hd rl r.hist hL hcap hH
      rw [hline]
      refine ⟨⟨by simp only; rw [k1]; exact hL, by simp only; rw [k1]; exact hcap,
        histOK_of_eq rl.storeLine _ rfl rfl rfl rfl rfl k3, rfl, rfl, Nat.zero_le _, by simp only; rw [k2, hst],
        by simp only; rw [k1]; exact hzip⟩, ?_, fun _ => rfl, fun e => absurd rfl e⟩
      exact Or.inr (Or.inr (Or.inr (Or.inr (Or.inr (Or.inr ⟨Or.inr (Or.inr rfl), rfl⟩)))))
  · rw [if_neg hnl]
    by_cases hbs : c = BS
    · -- backspace
      rw [if_pos hbs, putchar_bs rl c hst hnl hbs]
      have hR := backspace_ok rl.line hL 1
      unfold StepOK at hR
      simp only [Sline.apply, Zip.apply, hzip] at hR
      obtain ⟨o1, o2, o3, o4⟩ := hR
      refine ⟨⟨o1, by simp only; rw [o2, hcap], histOK_of_eq rl _ rfl rfl rfl rfl rfl hH, rfl, hcur, hbr,
        hst, o3⟩, ?_, ?_, ?_⟩
      · simp only
        rw [o4]
        unfold Zip.backspace
        by_cases hr : r.z.left = []
        · simp only [hr, List.length_nil, Nat.min_zero, List.take_nil, ne_eq, not_true_eq_false, if_false]
          have : (⟨[], r.z.right⟩ : Zip) = r.z := by rw [← hr]
          rw [this]; exact hnoth _ _
        · have hl : 1 ≤ r.z.left.length := by
            cases hq : r.z.left with
            | nil => exact absurd hq hr
            | cons a as => simp
          have hm : min 1 r.z.left.length = 1 := by omega
          simp only [hm, ne_eq, Nat.succ_ne_zero, not_false_eq_true, if_true]
          exact Or.inr (Or.inl ⟨rfl, hr, rfl⟩)
      · intro e; simp only at e; split at e <;> exact absurd e (by decide)
      · first | trivial | (intro _; rfl) | (intro _; trivial)
    · rw [if_neg hbs]
      by_cases hesc : c = ESC
      · rw [if_pos hesc, putchar_esc rl c hst hnl hbs hesc]
        exact ⟨⟨hL, hcap, histOK_of_eq rl _ rfl rfl rfl rfl rfl hH, rfl, hcur, hbr, rfl, hzip⟩,
          hnoth _ _, fun e => absurd e nothing_ne_newline, by first | trivial | (intro _; rfl)⟩
      · -- an ordinary character
        rw [if_neg hesc, putchar_char rl c hst hnl hbs hesc]
        have hR := putchar_ok rl.line hL c
        unfold StepOK at hR
        simp only [Sline.apply, Zip.apply, hzip, hcap] at hR
        obtain ⟨o1, o2, o3, o4⟩ := hR
        refine ⟨⟨o1, by simp only; rw [o2], histOK_of_eq rl _ rfl rfl rfl rfl rfl hH, rfl, hcur, hbr,
          hst, o3⟩, ?_, ?_, ?_⟩
        · simp only
          rw [o4]
          unfold Zip.putchar
          by_cases hroom : r.z.len + 1 < cap
          · simp only [hroom, if_true, ne_eq, Nat.succ_ne_zero, not_false_eq_true]
            exact Or.inl ⟨rfl, rfl⟩
          · simp only [hroom, if_false, ne_eq, not_true_eq_false]
            exact Or.inr (Or.inr (Or.inr (Or.inr (Or.inr (Or.inr ⟨Or.inr (Or.inl rfl), rfl⟩)))))
        · intro e; simp only at e; split at e <;> exact absurd e (by decide)
        · first | trivial | (intro _; rfl) | (intro _; trivial)

/-- one byte through `readline_putchar` against the reference decoder, any state -/
theorem rstep (cap depth : Nat) (hd : 1 ≤ depth) (rl : Readline) (r : Ref) (c : Byte)
    (h : RSim cap depth rl r) : RStep cap depth c r (rl.putchar c) := by
  cases hs : r.esc with
  | normal => exact step_normal cap depth hd rl r c h hs
  | escseq => exact step_escseq cap depth rl r c h hs
  | move => exact step_move cap depth hd rl r c h hs
  | wait7e => exact step_wait7e cap depth rl r c h hs

end Igris.C15
