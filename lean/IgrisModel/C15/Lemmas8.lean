/-
  C15 — helper lemmas, part 8 (extension): the history ring seen as a list,
  browsing at its ends, `readline_linecpy`, `sline_newdata` with an `int`
  length, the raw accessors of igris::sline.
-/
import IgrisModel.C15.Lemmas7
namespace Igris.C15
open Igris.Proto

/-! ### the ring as the list of remembered lines -/

/-- the C string `readline_history_pointer(rl, k)` points at (k = 1: the most recent) -/
def Readline.histLine (rl : Readline) (k : Nat) : List Byte := (rl.hist.drop (rl.histOff k)).takeWhile (· ≠ 0)

theorem takeWhile_cstring (l t : List Byte) (h : ∀ x ∈ l, x ≠ 0) : (l ++ 0 :: t).takeWhile (· ≠ 0) = l := by
  induction l with
  | nil => simp
  | cons a as ih =>
    have ha : a ≠ 0 := h a (by simp)
    simp only [List.cons_append, List.takeWhile_cons, ha, ne_eq, not_false_eq_true, decide_true, if_true]
    rw [ih (fun x hx => h x (by simp [hx]))]

theorem histLine_of_ok (cap depth : Nat) (rl : Readline) (hist : List (List Byte)) (hH : HistOK cap depth rl hist)
    (hc : rl.line.cap = cap) (k : Nat) (hk1 : 1 ≤ k) (hk : k ≤ depth) :
    rl.histLine k = hist.getD (k - 1) [] := by
  have hs := hH.slots (k - 1) (by omega)
  have e : k - 1 + 1 = k := by omega
  rw [e] at hs
  obtain ⟨hnz, junk, hw⟩ := hs
  unfold Readline.histLine Readline.histOff
  rw [hH.hsize, hc]
  have : (rl.headhist + depth - k) % depth = slotIdx rl.headhist depth k := rfl
  rw [this, drop_eq_win_append rl.hist _ cap, hw, List.append_assoc, List.cons_append]
  exact takeWhile_cstring _ _ hnz

/-! ### the reference editor: what changes the remembered lines -/

theorem rlKey_hist (cap : Nat) (r : Ref) (c : Byte) :
    ((r.rlKey cap c).2 = none → (r.rlKey cap c).1.hist = r.hist) ∧
    (∀ l, (r.rlKey cap c).2 = some l → l = r.z.line ∧ (r.rlKey cap c).1.hist = Ref.remember r.hist l) := by
  obtain ⟨z, hist, browse, esc, prev⟩ := r
  unfold Ref.rlKey
  cases esc <;> simp only
  · -- normal
    by_cases h1 : c = CR ∨ c = LF
    · rw [if_pos h1]
      by_cases h2 : (prev = LF ∨ prev = CR) ∧ prev ≠ c
      · rw [if_pos h2]; simp
      · rw [if_neg h2]
        refine ⟨by simp, ?_⟩
        intro l hl
        simp only [Option.some.injEq] at hl
        subst hl
        exact ⟨rfl, rfl⟩
    · rw [if_neg h1]
      split
      · simp
      · split <;> simp
  · simp
  · repeat' split
    all_goals simp
  · simp

/-- a key that hands no line to execute leaves the remembered lines alone -/
theorem key_hist_same (cap : Nat) (r : Ref) (c : Byte) (h : ∀ e ∈ (r.key cap c).2, e = Ev.sigint) :
    (r.key cap c).1.hist = r.hist := by
  unfold Ref.key at h ⊢
  by_cases hc : c = ETX
  · simp [hc, Ref.fresh]
  · simp only [hc, if_false] at h ⊢
    cases ho : (r.rlKey cap c).2 with
    | none =>
      simp only [ho]
      exact (rlKey_hist cap r c).1 ho
    | some l =>
      simp only [ho] at h
      exact absurd (h (Ev.exec l) (by simp)) (by simp)

theorem run_hist_same (cap : Nat) (r : Ref) (ks : List Byte) (h : ∀ e ∈ r.events cap ks, e = Ev.sigint) :
    (r.run cap ks).hist = r.hist := by
  induction ks generalizing r with
  | nil => rfl
  | cons c cs ih =>
    simp only [Ref.events, List.mem_append] at h
    have h1 := key_hist_same cap r c (fun e he => h e (Or.inl he))
    have h2 := ih (r.key cap c).1 (fun e he => h e (Or.inr he))
    rw [Ref.run_cons, h2, h1]

theorem Ref.events_append (cap : Nat) (r : Ref) (a b : List Byte) :
    r.events cap (a ++ b) = r.events cap a ++ (r.run cap a).events cap b := by
  induction a generalizing r with
  | nil => rfl
  | cons c cs ih =>
    simp only [List.cons_append, Ref.events, Ref.run_cons, ih, List.append_assoc]

/-! ### browsing at the two ends of the history -/

def DOWN : List Byte := [ESC, 0x5b, 0x42]

/-- Up when the oldest line is shown: nothing happens -/
theorem up_noop (cap : Nat) (r : Ref) (he : r.esc = .normal) (hb : ¬ r.browse < r.hist.length) :
    r.run cap UP = { r with prev := 0x41 } ∧ r.events cap UP = [] := by
  obtain ⟨z, hist, browse, esc, prev⟩ := r
  simp only at he hb
  subst he
  simp [Ref.run, Ref.events, UP, Ref.key, Ref.rlKey, ESC, ETX, CR, LF, BS, hb]

/-- Down while a new line is edited: nothing happens -/
theorem down_noop (cap : Nat) (r : Ref) (he : r.esc = .normal) (hb : r.browse = 0) :
    r.run cap DOWN = { r with prev := 0x42 } ∧ r.events cap DOWN = [] := by
  obtain ⟨z, hist, browse, esc, prev⟩ := r
  simp only at he hb
  subst he hb
  simp [Ref.run, Ref.events, DOWN, Ref.key, Ref.rlKey, ESC, ETX, CR, LF, BS]

/-- one Down key while browsing entry `b + 1` -/
theorem down_key (cap : Nat) (r : Ref) (b : Nat) (he : r.esc = .normal) (hb : r.browse = b + 1) :
    r.run cap DOWN = (if b = 0 then { r with z := Zip.empty, browse := 0, prev := 0x42 }
      else { r with z := ⟨r.hist.getD (b - 1) [], []⟩, browse := b, prev := 0x42 }) := by
  obtain ⟨z, hist, browse, esc, prev⟩ := r
  simp only at he hb
  subst he hb
  by_cases h0 : b = 0
  · subst h0
    simp [Ref.run, DOWN, Ref.key, Ref.rlKey, ESC, ETX, CR, LF, BS]
  · have h1 : ¬ (b + 1 = 1) := by omega
    simp [Ref.run, DOWN, Ref.key, Ref.rlKey, ESC, ETX, CR, LF, BS, h0, h1]

/-- `j` Down keys from entry `k`, `j < k`: entry `k - j` is shown -/
theorem downs_run (cap : Nat) (r : Ref) (k j : Nat) (he : r.esc = .normal) (hb : r.browse = k) (hj1 : 1 ≤ j)
    (hj : j < k) :
    r.run cap (List.replicate j DOWN).flatten =
      { r with z := ⟨r.hist.getD (k - j - 1) [], []⟩, browse := k - j, prev := 0x42 } := by
  induction j generalizing r k with
  | zero => omega
  | succ j ih =>
    simp only [List.replicate_succ, List.flatten_cons]
    rw [Ref.run_append, down_key cap r (k - 1) he (by omega), if_neg (by omega)]
    by_cases hj0 : j = 0
    · subst hj0
      simp only [List.replicate_zero, List.flatten_nil, Ref.run, List.foldl_nil]
    · have := ih { r with z := ⟨r.hist.getD (k - 1 - 1) [], []⟩, browse := k - 1, prev := 0x42 } (k - 1) he rfl
        (by omega) (by omega)
      rw [this]
      simp only [Ref.mk.injEq, and_true, true_and]
      constructor
      · congr 2; omega
      · omega


theorem downs_snoc (j : Nat) (hj : 1 ≤ j) :
    (List.replicate j DOWN).flatten = ((List.replicate (j - 1) DOWN).flatten ++ [ESC, 0x5b]) ++ [0x42] := by
  obtain ⟨i, rfl⟩ : ∃ i, j = i + 1 := ⟨j - 1, by omega⟩
  rw [List.replicate_succ']
  simp [DOWN]

/-- the reference editor: after entering `ls`, `k` × Up and `j < k` × Down show the `(k - j)`-th most recent line -/
theorem ref_recall_down (cap depth : Nat) (hd : 1 ≤ depth) (ls : List (List Byte)) (k j : Nat)
    (hl : ∀ l ∈ ls, l ≠ [] ∧ l.length + 1 ≤ cap ∧ ∀ c ∈ l, plain c) (hdist : ConsecDistinct ls)
    (hk : k ≤ ls.length) (hkd : k ≤ depth) (hj1 : 1 ≤ j) (hj : j < k) :
    ((Ref.init depth).run cap (ls.flatMap (· ++ [CR]) ++ (List.replicate k UP).flatten ++
        (List.replicate j DOWN).flatten)).z = ⟨ls.reverse.getD (k - j - 1) [], []⟩ ∧
    ((Ref.init depth).run cap (ls.flatMap (· ++ [CR]) ++ (List.replicate k UP).flatten ++
        (List.replicate j DOWN).flatten)).browse = k - j := by
  rw [Ref.run_append, Ref.run_append]
  have hhead : (Ref.init depth).hist.head? = some [] := by
    obtain ⟨d, rfl⟩ : ∃ d, depth = d + 1 := ⟨depth - 1, by omega⟩
    simp [Ref.init, List.replicate_succ]
  have hd0 : ConsecDistinct ([] :: ls) := by
    cases ls with
    | nil => trivial
    | cons a as => exact ⟨fun e => (hl a (by simp)).1 e.symm, hdist⟩
  obtain ⟨p, hp⟩ := lines_run cap (Ref.init depth) ls [] hl hhead hd0 rfl rfl rfl
  rw [hp, ups_run cap _ k rfl (by omega) (by simp [Ref.init]; omega)]
  rw [downs_run cap _ k j rfl (by simp [Ref.init]) hj1 hj]
  have := getD_recent ls (List.replicate depth []) (k - j) (by omega) (by omega) (by simp; omega)
  simp only [Ref.init, List.length_replicate] at this ⊢
  rw [this]
  exact ⟨rfl, trivial⟩

/-! ### the same at the terminal: nothing is written either -/

theorem up_at_oldest (v : Vterm) (h2 : v.state = 2) (hn : v.rl.state = .normal) (hh : v.rl.hasHist = true)
    (hc : v.rl.curhist = v.rl.hsize) :
    v.echoed UP = [] ∧ v.events UP = [] ∧ v.run UP = { v with rl := { v.rl with last := 0x41 } } := by
  obtain ⟨rl, st, echo, prompt, cxx, sig⟩ := v
  obtain ⟨line, state, last, lastsize, hasHist, hist, hsize, headhist, curhist, hfault⟩ := rl
  simp only at h2 hn hh hc
  subst h2 hn hh hc
  simp [Vterm.echoed, Vterm.events, Vterm.run, UP, Vterm.key, Readline.putchar, Readline.historyUp, Vterm.echoFor,
    ESC, ETX, CR, LF, BS, RL_NOTHING, RL_NEWLINE, RL_ECHOCHAR, RL_BACKSPACE, RL_RIGHT, RL_LEFT, RL_UPDATELINE, RL_DELETE]

theorem down_at_newest (v : Vterm) (h2 : v.state = 2) (hn : v.rl.state = .normal) (hc : v.rl.curhist = 0) :
    v.echoed DOWN = [] ∧ v.events DOWN = [] ∧ v.run DOWN = { v with rl := { v.rl with last := 0x42 } } := by
  obtain ⟨rl, st, echo, prompt, cxx, sig⟩ := v
  obtain ⟨line, state, last, lastsize, hasHist, hist, hsize, headhist, curhist, hfault⟩ := rl
  simp only at h2 hn hc
  subst h2 hn hc
  cases hasHist <;>
  simp [Vterm.echoed, Vterm.events, Vterm.run, DOWN, Vterm.key, Readline.putchar, Readline.historyDown, Vterm.echoFor,
    ESC, ETX, CR, LF, BS, RL_NOTHING, RL_NEWLINE, RL_ECHOCHAR, RL_BACKSPACE, RL_RIGHT, RL_LEFT, RL_UPDATELINE, RL_DELETE]

/-! ### readline_linecpy -/

theorem splice_head_term (dst W : List Byte) (n : Nat) (hW : W.length = n) :
    splice (splice dst 0 W) n [0] = W ++ [0] ++ dst.drop (n + 1) := by
  subst hW
  unfold splice
  simp only [List.take_zero, List.nil_append, Nat.zero_add, List.length_singleton]
  rw [List.take_left' rfl, List.drop_append, List.drop_drop]
  have e1 : List.drop (W.length + 1) W = [] := List.drop_of_length_le (by omega)
  have e2 : W.length + (W.length + 1 - W.length) = W.length + 1 := by omega
  rw [e1, e2, List.nil_append]

theorem linecpy_ok (rl : Readline) (h : SlineOK rl.line) (dst : List Byte) (maxlen : Nat) (h1 : 1 ≤ maxlen)
    (hm : maxlen ≤ dst.length) :
    rl.linecpy dst maxlen =
      (rl.line.text.take (min rl.line.len (maxlen - 1)) ++ [0] ++ dst.drop (min rl.line.len (maxlen - 1) + 1),
        ((min rl.line.len (maxlen - 1) : Nat) : Int), false) := by
  obtain ⟨hb, hc, hr, hf⟩ := h
  unfold Readline.linecpy
  rw [if_neg (by omega)]
  have hlen : (if maxlen - 1 > rl.line.len then rl.line.len else maxlen - 1) = min rl.line.len (maxlen - 1) := by
    split <;> omega
  simp only [hlen]
  generalize hn : min rl.line.len (maxlen - 1) = n
  have hn1 : n ≤ rl.line.len := by omega
  have hn2 : n + 1 ≤ maxlen := by omega
  rw [mcpy_ok dst 0 rl.line.buf 0 n (by omega) (by omega)]
  have hwl : (win rl.line.buf 0 n).length = n := length_win _ _ _ (by omega)
  have hsl : (splice dst 0 (win rl.line.buf 0 n)).length = dst.length := length_splice _ _ _ (by rw [hwl]; omega)
  simp only
  rw [wr_ok _ n 0 (by rw [hsl]; omega)]
  have hw : win rl.line.buf 0 n = (rl.line.buf.take rl.line.len).take n := by
    unfold win; rw [List.take_take, List.drop_zero]; congr 1; omega
  simp only [Bool.or_self, Prod.mk.injEq, and_true]
  rw [splice_head_term _ _ n hwl, hw]
  rfl

end Igris.C15
