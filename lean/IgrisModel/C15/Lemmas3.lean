/-
  C15 — helper lemmas, part 3: the terminal automaton against the reference editor.
-/
import IgrisModel.C15.Lemmas2
namespace Igris.C15
open Igris.Proto

/-- the readline object the next call of the terminal starts from: in state 0 / 1
the first thing it does is `readline_newline_reset` -/
def Vterm.nrl (v : Vterm) : Readline := if v.state = 2 then v.rl else v.rl.newlineReset

structure VSim (cap depth : Nat) (v : Vterm) (r : Ref) : Prop where
  st : v.state = 0 ∨ v.state = 1 ∨ v.state = 2
  sig : v.hasSignal = true
  sim : RSim cap depth v.nrl r
  rawOK : SlineOK v.rl.line          -- also while the reset is still pending (state 0 / 1)
  rawCur : v.rl.curhist ≤ depth

/-- starting a new line -/
theorem reset_sim (cap depth : Nat) (rl : Readline) (r : Ref) (hL : SlineOK rl.line) (hcap : rl.line.cap = cap)
    (hH : HistOK cap depth rl r.hist) (hlast : rl.last = r.prev) : RSim cap depth rl.newlineReset r.fresh := by
  obtain ⟨hb, _, hr, hf⟩ := hL
  refine ⟨⟨hb, Nat.le_refl _, by simp only [Readline.newlineReset, Sline.reset]; omega, hf⟩, hcap,
    histOK_of_eq rl _ rfl rfl rfl rfl rfl hH, hlast, rfl, Nat.zero_le _, rfl, ?_⟩
  simp [Readline.newlineReset, Sline.reset, Sline.toZip, Ref.fresh, Zip.empty]

theorem nrl_reset (v : Vterm) (h : v.state ≠ 2) : v.nrl = v.rl.newlineReset := by
  unfold Vterm.nrl; rw [if_neg h]

theorem nrl_two (v : Vterm) (h : v.state = 2) : v.nrl = v.rl := by
  unfold Vterm.nrl; rw [if_pos h]

/-- the part of `key` before the character is looked at -/
theorem pre_rl (v : Vterm) : (if v.state = 2 then (v, ([] : List Byte)) else v.prologue).1.rl = v.nrl := by
  unfold Vterm.nrl Vterm.prologue
  split <;> rfl

theorem pre_state (v : Vterm) : (if v.state = 2 then (v, ([] : List Byte)) else v.prologue).1.state = 2 := by
  unfold Vterm.prologue
  split
  · assumption
  · rfl

theorem pre_sig (v : Vterm) : (if v.state = 2 then (v, ([] : List Byte)) else v.prologue).1.hasSignal = v.hasSignal := by
  unfold Vterm.prologue
  split <;> rfl

/-- one key at the terminal against the reference editor: the simulation is
kept and the callbacks see the same events -/
theorem vstep (cap depth : Nat) (hd : 1 ≤ depth) (v : Vterm) (r : Ref) (c : Byte)
    (h : VSim cap depth v r) : VSim cap depth (v.key c).1 (r.key cap c).1 ∧ (v.key c).2.2 = (r.key cap c).2 := by
  obtain ⟨hst, hsig, hsim, _, _⟩ := h
  unfold Vterm.key Ref.key
  rw [if_neg (fun hq => hq (by omega))]
  generalize hv1 : (if v.state = 2 then (v, ([] : List Byte)) else v.prologue) = p
  have p_rl : p.1.rl = v.nrl := by rw [← hv1]; exact pre_rl v
  have p_st : p.1.state = 2 := by rw [← hv1]; exact pre_state v
  have p_sig : p.1.hasSignal = true := by rw [← hv1, pre_sig v]; exact hsig
  simp only
  by_cases hc : c = ETX
  · -- Ctrl-C
    rw [if_pos hc, if_pos hc]
    have hr := reset_sim cap depth _ r hsim.lineOK hsim.lcap hsim.histOK hsim.last
    refine ⟨⟨Or.inr (Or.inr rfl), ?_, ?_, ?_, ?_⟩, ?_⟩
    · simp only [Vterm.prologue]; exact p_sig
    · rw [nrl_two _ rfl]
      simp only [Vterm.prologue]
      rw [p_rl]
      exact hr
    · simp only [Vterm.prologue]; rw [p_rl]; exact hr.lineOK
    · simp only [Vterm.prologue, Readline.newlineReset]; exact Nat.zero_le _
    · simp only [p_sig, if_true]
  · rw [if_neg hc, if_neg hc]
    obtain ⟨s1, s2, s3, s4⟩ := rstep cap depth hd v.nrl r c hsim
    rw [p_rl]
    by_cases hn : (v.nrl.putchar c).2 = RL_NEWLINE
    · -- Enter: execute, then a new line
      rw [if_pos hn, s3 hn]
      simp only
      have hz : (r.rlKey cap c).1.z = r.z := by
        rcases s2 with ⟨e, _⟩ | ⟨e, _⟩ | ⟨e, _⟩ | ⟨e, _⟩ | ⟨e, _⟩ | ⟨e, _⟩ | ⟨_, e⟩
        all_goals first | exact e | (rw [hn] at e; exact absurd e (by decide))
      have hG := getline_ok (v.nrl.putchar c).1.line s1.lineOK
      unfold StepOK at hG
      simp only [Sline.apply, Zip.apply] at hG
      obtain ⟨g1, g2, g3, _⟩ := hG
      have htext : (v.nrl.putchar c).1.line.getline.text = r.z.line := by
        rw [← toZip_line _ g1, g3, s1.zip, hz]
      have hreset : RSim cap depth
          ({ (v.nrl.putchar c).1 with line := (v.nrl.putchar c).1.line.getline } : Readline).newlineReset
          (r.rlKey cap c).1.fresh :=
        reset_sim cap depth _ _ g1 (by simp only; rw [g2, s1.lcap])
          (histOK_of_eq (v.nrl.putchar c).1 _ rfl rfl rfl rfl rfl s1.histOK) s1.last
      by_cases hx : p.1.cxx = true
      · rw [if_pos hx]
        refine ⟨⟨Or.inr (Or.inl rfl), p_sig, ?_, g1, ?_⟩, by simp only [htext]⟩
        · rw [nrl_reset _ (by simp)]
          exact hreset
        · simp only; rw [s1.cur]; exact s1.browse
      · rw [if_neg hx]
        refine ⟨⟨Or.inr (Or.inr rfl), by simp only [Vterm.prologue]; exact p_sig, ?_, ?_, ?_⟩, by simp only [htext]⟩
        · rw [nrl_two _ rfl]
          simp only [Vterm.prologue]
          exact hreset
        · simp only [Vterm.prologue]; exact hreset.lineOK
        · simp only [Vterm.prologue, Readline.newlineReset]; exact Nat.zero_le _
    · rw [if_neg hn, s4 hn]
      simp only
      refine ⟨⟨Or.inr (Or.inr rfl), p_sig, ?_, s1.lineOK, by simp only; rw [s1.cur]; exact s1.browse⟩, trivial⟩
      rw [nrl_two _ rfl]
      exact s1

/-! ### the initial state -/

theorem win_replicate (n o k : Nat) (v : Byte) (h : o + k ≤ n) : win (List.replicate n v) o k = List.replicate k v := by
  unfold win
  rw [List.drop_replicate, List.take_replicate]
  congr 1; omega

theorem init_hist (cap depth : Nat) (hc : 1 ≤ cap) (hd : 1 ≤ depth) :
    HistOK cap depth (Readline.init cap depth) (List.replicate depth []) := by
  refine ⟨by simp [Readline.init]; omega, rfl, by simp [Readline.init],
    by simp only [Readline.init]; omega, rfl, by simp, ?_⟩
  intro k hk
  have hsl := slot_in (slotIdx 0 depth (k + 1)) depth cap (slotIdx_lt _ _ _ (by omega))
  simp only [Readline.init]
  rw [win_replicate _ _ _ _ (by omega)]
  have : (List.replicate depth ([] : List Byte)).getD k [] = [] := by
    simp [List.getD_eq_getElem?_getD, hk]
  rw [this]
  refine ⟨by simp, List.replicate (cap - 1) 0, ?_⟩
  obtain ⟨c', rfl⟩ : ∃ c', cap = c' + 1 := ⟨cap - 1, by omega⟩
  simp [List.replicate_succ]

theorem init_sim (cap depth : Nat) (hc : 1 ≤ cap) (hd : 1 ≤ depth) (cxx : Bool)
    (prompt : List Byte) : VSim cap depth (Vterm.init cap depth cxx prompt) (Ref.init depth) := by
  have hr := reset_sim cap depth (Readline.init cap depth) (Ref.init depth) (init_ok cap hc) rfl
    (init_hist cap depth hc hd) rfl
  refine ⟨Or.inl rfl, rfl, ?_, init_ok cap hc, Nat.zero_le _⟩
  rw [nrl_reset _ (by simp [Vterm.init])]
  exact hr

/-! ### whole key sequences -/

theorem run_sim (cap depth : Nat) (hd : 1 ≤ depth) (v : Vterm) (r : Ref) (ks : List Byte)
    (h : VSim cap depth v r) : VSim cap depth (v.run ks) (r.run cap ks) := by
  induction ks generalizing v r with
  | nil => exact h
  | cons c cs ih => exact ih _ _ (vstep cap depth hd v r c h).1

theorem events_sim (cap depth : Nat) (hd : 1 ≤ depth) (v : Vterm) (r : Ref) (ks : List Byte)
    (h : VSim cap depth v r) : v.events ks = r.events cap ks := by
  induction ks generalizing v r with
  | nil => rfl
  | cons c cs ih =>
    obtain ⟨h1, h2⟩ := vstep cap depth hd v r c h
    simp only [Vterm.events, Ref.events]
    rw [h2, ih _ _ h1]

/-- what the simulation says about the raw object -/
theorem safe_of_sim (cap depth : Nat) (v : Vterm) (r : Ref) (h : VSim cap depth v r) :
    v.rl.faulted = false ∧ v.rl.line.cursor ≤ v.rl.line.len ∧ v.rl.line.len < cap ∧
    v.rl.line.buf.length = cap ∧ v.rl.hist.length = cap * depth ∧ v.rl.headhist < depth ∧ v.rl.curhist ≤ depth := by
  obtain ⟨_, _, hsim, hraw, hcur⟩ := h
  have hH := hsim.histOK
  have hc := hsim.lcap
  -- the history fields and the capacity are not touched by the pending reset
  have e1 : v.nrl.hist = v.rl.hist := by unfold Vterm.nrl; split <;> rfl
  have e2 : v.nrl.headhist = v.rl.headhist := by unfold Vterm.nrl; split <;> rfl
  have e3 : v.nrl.hfault = v.rl.hfault := by unfold Vterm.nrl; split <;> rfl
  have e4 : v.nrl.line.cap = v.rl.line.cap := by unfold Vterm.nrl; split <;> rfl
  have hroom := hraw.room
  refine ⟨?_, hraw.cur, by omega, by rw [hraw.blen]; omega, by rw [← e1]; exact hH.hlen, by rw [← e2]; exact hH.head,
    hcur⟩
  unfold Readline.faulted
  rw [hraw.nofault, ← e3, hH.nofault]
  rfl

theorem editor_of_sim (cap depth : Nat) (v : Vterm) (r : Ref) (h : VSim cap depth v r) :
    v.nrl.line.text = r.z.line ∧ v.nrl.line.cursor = r.z.left.length ∧ v.nrl.curhist = r.browse ∧
    v.nrl.state = r.esc :=
  ⟨by rw [← toZip_line _ h.sim.lineOK, h.sim.zip], by rw [← toZip_left_length _ h.sim.lineOK, h.sim.zip],
    h.sim.cur, h.sim.st⟩

end Igris.C15
