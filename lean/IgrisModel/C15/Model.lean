/-
  C15 — model of the line editor and terminal automaton:
    igris/datastruct/sline.h     struct sline + sline_* (cursor anywhere in the line)
    igris/container/sline.h      igris::sline  (thin wrapper: same functions)
    igris/shell/readline.h       struct readline, readline_putchar, history ring
    igris/shell/readlinexx.h     igris::readline (same automaton over igris::sline)
    igris/shell/vterm.c          vterm_automate_newdata (echo + execute callback)
    igris/shell/vtermxx.cpp      igris::vtermxx::newdata (same, returns right after execute)
    igris/defs/vt100.h           vt100_left, VT100_* strings
  after the `fix:` commits of branch fix-C15 (newdata clamp, OVERFLOW return,
  lastsize = cursor, CR LF pairing, escape state reset by Ctrl-C; extension:
  unsigned int history indices, linecpy with maxlen 0, newdata with a negative
  length).

  Memory: every buffer is a `List Byte`; every store / memmove / memcpy /
  memset / strlen is index-checked against the length of the object and sets
  a sticky `fault` flag when it leaves it.  Unsigned subtractions that would
  wrap set the flag too.  "No write lands outside the buffers" is
  `fault = false` (Props.lean).

  Core Lean only (the driver links this file).
-/
import IgrisModel.Common.Proto
namespace Igris.C15
open Igris.Proto

/-! ## raw memory -/

/-- `b[i] = v` -/
def wr (b : List Byte) (i : Nat) (v : Byte) : List Byte × Bool :=
  if i < b.length then (b.set i v, false) else (b, true)

/-- `memcpy(b + dst, d + src, n)` (`d` another object, or `b` itself for `memmove`:
the copy is taken from the old contents, which is what memmove guarantees) -/
def mcpy (b : List Byte) (dst : Nat) (d : List Byte) (src n : Nat) : List Byte × Bool :=
  if src + n ≤ d.length ∧ dst + n ≤ b.length then
    (b.take dst ++ (d.drop src).take n ++ b.drop (dst + n), false)
  else (b, true)

/-- `memmove(b + dst, b + src, n)` -/
def mmove (b : List Byte) (dst src n : Nat) : List Byte × Bool := mcpy b dst b src n

/-- `memset(b + dst, v, n)` -/
def mset (b : List Byte) (dst : Nat) (v : Byte) (n : Nat) : List Byte × Bool :=
  if dst + n ≤ b.length then (b.take dst ++ List.replicate n v ++ b.drop (dst + n), false)
  else (b, true)

/-- `strlen(p)` where `p` points at the first byte of the list (the rest of the
object): `none` when the scan runs off the end of the object -/
def cstrlen : List Byte → Option Nat
  | [] => none
  | x :: xs => if x = 0 then some 0 else (cstrlen xs).map (· + 1)

/-- `strncmp(a, b, n) == 0`; a read past either object gives `false`
(it cannot happen where the model calls it, see `strncmpEq_eq`) -/
def strncmpEq : List Byte → List Byte → Nat → Bool
  | _, _, 0 => true
  | x :: xs, y :: ys, n + 1 => if x ≠ y then false else if x = 0 then true else strncmpEq xs ys n
  | _, _, _ + 1 => false

/-! ## struct sline (igris/datastruct/sline.h) -/

structure Sline where
  buf : List Byte
  cap : Nat
  len : Nat
  cursor : Nat
  fault : Bool
deriving DecidableEq, Repr

namespace Sline

/-- `sline_init(sl, buffer, bufcap)` with a buffer of exactly `bufcap` bytes -/
def init (cap : Nat) : Sline := ⟨List.replicate cap 0, cap, 0, 0, false⟩

/-- `sline_reset` -/
def reset (s : Sline) : Sline := { s with len := 0, cursor := 0 }

/-- `sline_getline`: `buf[len] = '\0'` (round 3, `fix: sline_getline writes no
terminator into a line without a buffer`: `if (sl->cap)`) -/
def getline (s : Sline) : Sline :=
  if s.cap = 0 then s
  else { s with buf := (wr s.buf s.len 0).1, fault := s.fault || (wr s.buf s.len 0).2 }

/-- the characters `(buf, len)` denotes — what `sline_getline` / `(data, size)` hand out -/
def text (s : Sline) : List Byte := s.buf.take s.len

/-- `sline_rightsize` (unsigned `len - cursor`) -/
def rightsize (s : Sline) : Nat := s.len - s.cursor

/-- the bytes `sline_rightpart .. + sline_rightsize` -/
def rightpart (s : Sline) : List Byte := (s.buf.drop s.cursor).take (s.len - s.cursor)

/-- `sline_in_rightpos` -/
def inRightpos (s : Sline) : Bool := s.len = s.cursor

/-- `sline_left` -/
def left (s : Sline) : Sline × Nat :=
  if s.cursor = 0 then (s, 0) else ({ s with cursor := s.cursor - 1 }, 1)

/-- `sline_right` -/
def right (s : Sline) : Sline × Nat :=
  if s.cursor = s.len then (s, 0) else ({ s with cursor := s.cursor + 1 }, 1)

/-- `sline_backspace(sl, count)` -/
def backspace (s : Sline) (count : Nat) : Sline × Nat :=
  let count := if count > s.cursor then s.cursor else count
  let len := s.len - count          -- unsigned: wrap flagged below
  let cursor := s.cursor - count
  let wrap := decide (s.len < s.cursor)
  if cursor ≠ len then
    let m := mmove s.buf cursor (cursor + count) (len - cursor)
    ({ s with buf := m.1, len := len, cursor := cursor, fault := s.fault || m.2 || wrap }, count)
  else
    ({ s with len := len, cursor := cursor, fault := s.fault || wrap }, count)

/-- `sline_delete(sl, count)` -/
def delete (s : Sline) (count : Nat) : Sline × Nat :=
  let count := if count > s.rightsize then s.rightsize else count
  let len := s.len - count
  let wrap := decide (s.len < s.cursor)
  if s.cursor ≠ len then
    let m := mmove s.buf s.cursor (s.cursor + count) (len - s.cursor)
    ({ s with buf := m.1, len := len, fault := s.fault || m.2 || wrap }, count)
  else
    ({ s with len := len, fault := s.fault || wrap }, count)

/-- `sline_putchar`: refuses when `len + 1 >= cap` (fix bd7ecca; it was
`len >= cap - 1`, which wrapped for `cap = 0` and never refused) -/
def putchar (s : Sline) (c : Byte) : Sline × Nat :=
  if s.cap ≤ s.len + 1 then (s, 0)
  else
    let m := if s.cursor ≠ s.len then mmove s.buf (s.cursor + 1) s.cursor (s.len - s.cursor)
             else (s.buf, false)
    let w := wr m.1 s.cursor c
    ({ s with buf := w.1, cursor := s.cursor + 1, len := s.len + 1,
              fault := s.fault || m.2 || w.2 || decide (s.len < s.cursor) }, 1)

/-- `sline_newdata(sl, data, n)` after `fix: sline_newdata keeps one byte for
the terminator`: `n` is clamped to `sline_avail - 1 = (int)(cap - len) - 1`.
A negative limit (only when `len ≥ cap`, i.e. `cap = 0`) inserts nothing since fix
21c90c1 (the truncating `Nat` subtraction gives 0). -/
def newdata (s : Sline) (data : List Byte) (n : Nat) : Sline × Nat :=
  let n := if n > s.cap - s.len - 1 then s.cap - s.len - 1 else n
  let m := if s.cursor ≠ s.len then mmove s.buf (s.cursor + n) s.cursor (s.len - s.cursor)
           else (s.buf, false)
  let w := mcpy m.1 s.cursor data 0 n
  ({ s with buf := w.1, cursor := s.cursor + n, len := s.len + n,
            fault := s.fault || m.2 || w.2 || decide (s.len < s.cursor) }, n)

/-- `sline_newdata(sl, data, len)` with the `int len` exactly as the caller gives
it (negative, zero, or smaller than the data), after `fix: sline_newdata treats a
negative length as 0`: clamp to `sline_avail - 1`, then a negative value (a
negative argument, or a negative limit when `cap = 0`) becomes 0.  `cap - len`
is computed in `Int` (the operands are small; `(int)` of the unsigned difference). -/
def newdataI (s : Sline) (data : List Byte) (n : Int) : Sline × Int :=
  let avail : Int := (s.cap : Int) - (s.len : Int)
  let n := if n > avail - 1 then avail - 1 else n
  let n := if n < 0 then 0 else n
  let k := n.toNat
  let m := if s.cursor ≠ s.len then mmove s.buf (s.cursor + k) s.cursor (s.len - s.cursor)
           else (s.buf, false)
  let w := mcpy m.1 s.cursor data 0 k
  ({ s with buf := w.1, cursor := s.cursor + k, len := s.len + k,
            fault := s.fault || m.2 || w.2 || decide (s.len < s.cursor) }, n)

/-- `igris::sline::clear`: every byte of the storage becomes 0 (len / cursor stay) -/
def clear (s : Sline) : Sline := { s with buf := List.replicate s.buf.length 0 }

/-- `sline_equal(sl, str)`; `str` = the rest of the object the pointer points
into.  Second component: the `strlen` ran off the object. -/
def equal (s : Sline) (str : List Byte) : Bool × Bool :=
  match cstrlen str with
  | none => (false, true)
  | some sz => if s.len ≠ sz then (false, false) else (strncmpEq s.buf str s.len, false)

/-- `igris::sline::set_size_and_cursor` / the direct field stores of
`readline_load_history_line` -/
def setSizeCursor (s : Sline) (len cursor : Nat) : Sline := { s with len := len, cursor := cursor }

end Sline

/-! ## struct readline (igris/shell/readline.h, readlinexx.h) -/

inductive RState | normal | escseq | move | wait7e
deriving DecidableEq, Repr

/-- READLINE_* return codes -/
def RL_OVERFLOW : Int := -1
def RL_NOTHING : Int := 0
def RL_ECHOCHAR : Int := 1
def RL_NEWLINE : Int := 2
def RL_BACKSPACE : Int := 3
def RL_DELETE : Int := 4
def RL_UPDATELINE : Int := 7
def RL_LEFT : Int := 8
def RL_RIGHT : Int := 9

def CR : Byte := 0x0d
def LF : Byte := 0x0a
def BS : Byte := 0x08
def ESC : Byte := 0x1b
def ETX : Byte := 0x03

structure Readline where
  line : Sline
  state : RState
  last : Byte
  lastsize : Nat
  hasHist : Bool        -- `history_space != NULL` / `_history_space.size() != 0`
  hist : List Byte      -- history_space: `cap * hsize` bytes
  hsize : Nat           -- history_size
  headhist : Nat
  curhist : Nat
  hfault : Bool         -- an access left history_space (or strlen ran off it)
deriving DecidableEq, Repr

namespace Readline

/-- `readline_init` (+ `readline_history_init` when `depth ≠ 0`) /
`igris::readline::init(cap, depth)`.  After `fix: readline history indices are
unsigned int` `history_size`, `headhist`, `curhist` hold any depth (they were
`uint8_t`: depth 256 became 0, `% 0`); in C++ `history_size()` is
`_history_space.size() / _buffer_space.size()` = depth for `cap ≥ 1`. -/
def init (cap depth : Nat) : Readline :=
  { line := Sline.init cap, state := .normal, last := 0, lastsize := 0,
    hasHist := decide (depth ≠ 0), hist := List.replicate (cap * depth) 0,
    hsize := depth, headhist := 0, curhist := 0, hfault := false }

/-- `readline_newline_reset` (with `fix: Ctrl-C also resets the escape state`) -/
def newlineReset (rl : Readline) : Readline :=
  { rl with line := rl.line.reset, curhist := 0, state := .normal }

/-- byte offset of `readline_history_pointer(rl, num)` in history_space -/
def histOff (rl : Readline) (num : Nat) : Nat :=
  ((rl.headhist + rl.hsize - num) % rl.hsize) * rl.line.cap

/-- `readline_push_current_line_to_history` -/
def pushCurrent (rl : Readline) : Readline :=
  let ptr := rl.headhist * rl.line.cap
  let m := mcpy rl.hist ptr rl.line.buf 0 rl.line.len
  let w := wr m.1 (ptr + rl.line.len) 0
  { rl with hist := w.1, headhist := (rl.headhist + 1) % rl.hsize,
            hfault := rl.hfault || m.2 || w.2 }

/-- `readline_load_history_line` (with `fix: lastsize = cursor`) -/
def loadHistoryLine (rl : Readline) : Readline :=
  let rl := { rl with lastsize := rl.line.cursor }
  if rl.curhist = 0 then
    let m := mset rl.line.buf 0 0 rl.line.cap
    { rl with line := { rl.line with buf := m.1, len := 0, cursor := 0,
                                     fault := rl.line.fault || m.2 } }
  else
    let off := rl.histOff rl.curhist
    match cstrlen (rl.hist.drop off) with
    | none => { rl with hfault := true }
    | some sz =>
      let m := mcpy rl.line.buf 0 rl.hist off sz
      { rl with line := { rl.line with buf := m.1, len := sz, cursor := sz,
                                       fault := rl.line.fault || m.2 } }

/-- `readline_history_up` -/
def historyUp (rl : Readline) : Readline × Nat :=
  if ¬ rl.hasHist then (rl, 0)
  else if rl.curhist = rl.hsize then (rl, 0)
  else (({ rl with curhist := rl.curhist + 1 }).loadHistoryLine, 1)

/-- `readline_history_down` -/
def historyDown (rl : Readline) : Readline × Nat :=
  if ¬ rl.hasHist then (rl, 0)
  else if rl.curhist = 0 then (rl, 0)
  else (({ rl with curhist := rl.curhist - 1 }).loadHistoryLine, 1)

/-- `readline_is_not_same_as_last`; second component: strlen ran off history_space -/
def notSameAsLast (rl : Readline) : Bool × Bool :=
  let e := rl.line.equal (rl.hist.drop (rl.histOff 1))
  (!e.1, e.2)

/-- the history part of the NEWLINE branch of `readline_putchar`:
`if (history_space && line.len && readline_is_not_same_as_last(rl)) push_current_line` -/
def storeLine (rl : Readline) : Readline :=
  if rl.hasHist ∧ rl.line.len ≠ 0 then
    let ns := rl.notSameAsLast
    let rl0 := { rl with hfault := rl.hfault || ns.2 }
    if ns.1 then rl0.pushCurrent else rl0
  else rl

/-- `readline_putchar` / `igris::readline::newdata` -/
def putchar (rl : Readline) (c : Byte) : Readline × Int :=
  match rl.state with
  | .normal =>
    if c = CR ∨ c = LF then
      if (rl.last = LF ∨ rl.last = CR) ∧ rl.last ≠ c then
        ({ rl with last := 0 }, RL_NOTHING)          -- fix: return here
      else
        ({ rl.storeLine with curhist := 0, last := c }, RL_NEWLINE)
    else if c = BS then
      let r := rl.line.backspace 1
      ({ rl with line := r.1, last := c }, if r.2 ≠ 0 then RL_BACKSPACE else RL_NOTHING)
    else if c = ESC then
      ({ rl with state := .escseq, last := c }, RL_NOTHING)
    else
      let r := rl.line.putchar c
      ({ rl with line := r.1, last := c }, if r.2 ≠ 0 then RL_ECHOCHAR else RL_OVERFLOW)
  | .escseq =>
    if c = 0x5b then ({ rl with state := .move, last := c }, RL_NOTHING)
    else ({ rl with state := .normal, last := c }, RL_NOTHING)
  | .move =>
    if c = 0x41 then
      let r := rl.historyUp
      ({ r.1 with state := .normal, last := c }, if r.2 ≠ 0 then RL_UPDATELINE else RL_NOTHING)
    else if c = 0x42 then
      let r := rl.historyDown
      ({ r.1 with state := .normal, last := c }, if r.2 ≠ 0 then RL_UPDATELINE else RL_NOTHING)
    else if c = 0x43 then
      let r := rl.line.right
      ({ rl with line := r.1, state := .normal, last := c }, if r.2 ≠ 0 then RL_RIGHT else RL_NOTHING)
    else if c = 0x44 then
      let r := rl.line.left
      ({ rl with line := r.1, state := .normal, last := c }, if r.2 ≠ 0 then RL_LEFT else RL_NOTHING)
    else if c = 0x33 then
      let r := rl.line.delete 1
      ({ rl with line := r.1, state := .wait7e, last := c }, if r.2 ≠ 0 then RL_DELETE else RL_NOTHING)
    else ({ rl with state := .normal, last := c }, RL_NOTHING)
  | .wait7e => ({ rl with state := .normal, last := c }, RL_NOTHING)

/-- `readline_linecpy(rl, line, maxlen)` / `igris::readline::linecpy(data, size)`
(after `fix: linecpy with a zero-sized destination writes nothing`): copies
`min(len, maxlen - 1)` characters and the terminator into `dst` (the caller's
object).  Result: new contents of `dst`, return value, an access left `dst` or
the edit buffer.  (`(int)maxlen`: sizes below 2^31.) -/
def linecpy (rl : Readline) (dst : List Byte) (maxlen : Nat) : List Byte × Int × Bool :=
  if maxlen = 0 then (dst, 0, false)
  else
    let len : Nat := if maxlen - 1 > rl.line.len then rl.line.len else maxlen - 1
    let m := mcpy dst 0 rl.line.buf 0 len
    let w := wr m.1 len 0
    (w.1, (len : Int), m.2 || w.2)

/-- any index-checked access of the line or the history failed -/
def faulted (rl : Readline) : Bool := rl.line.fault || rl.hfault

end Readline

/-! ## vt100.h -/

/-- decimal digits, least significant first (the `do … while (ud /= base)` loop
of `igris_i64toa`, base 10, `num ≥ 0`); `fuel` bounds the loop for Lean -/
def decRev : Nat → Nat → List Byte
  | 0, _ => []
  | fuel + 1, n =>
    BitVec.ofNat 8 (48 + n % 10) :: (if n / 10 = 0 then [] else decRev fuel (n / 10))

/-- `igris_i32toa(n, buf, 10)` for `0 ≤ n`: the digit loop, then the in-place reverse -/
def decDigits (n : Nat) : List Byte := (decRev (n + 1) n).reverse

/-- `vt100_left(buf, n)`: the `ret` bytes written through the write callback -/
def vt100Left (n : Nat) : List Byte := [ESC, 0x5b] ++ decDigits n ++ [0x44]

def VT100_LEFT : List Byte := [ESC, 0x5b, 0x44]
def VT100_RIGHT : List Byte := [ESC, 0x5b, 0x43]
def VT100_ERASE : List Byte := [ESC, 0x5b, 0x4b]     -- VT100_ERASE_LINE_AFTER_CURSOR

/-! ## vterm automaton (igris/shell/vterm.c, vtermxx.cpp) -/

/-- what the callbacks observe -/
inductive Ev
  | exec (line : List Byte)    -- execute_callback(sline_getline(), sline_size())
  | sigint                     -- signal_callback(SIGINT)
deriving DecidableEq, Repr

structure Vterm where
  rl : Readline
  state : Nat
  echo : Bool
  prompt : List Byte          -- prefix_string
  cxx : Bool                  -- igris::vtermxx: `return_flag = 1` after the execute callback
  hasSignal : Bool            -- signal_callback != NULL
deriving DecidableEq, Repr

namespace Vterm

/-- `vterm_automate_init` / `vtermxx::init` (prompt "$ " by default) -/
def init (cap depth : Nat) (cxx : Bool) (prompt : List Byte := [0x24, 0x20]) : Vterm :=
  { rl := Readline.init cap depth, state := 0, echo := true, prompt := prompt, cxx := cxx,
    hasSignal := true }

/-- `case 0: case 1:` reset the line, print the prompt, `state = 2` -/
def prologue (v : Vterm) : Vterm × List Byte :=
  ({ v with rl := v.rl.newlineReset, state := 2 }, if v.echo then v.prompt else [])

/-- the block that re-prints the part right of the cursor and moves back:
`if (!sline_in_rightpos) { write(rightpart, rightsize); write(vt100_left(rightsize)) }` -/
def rightEcho (s : Sline) : List Byte :=
  if s.inRightpos then [] else s.rightpart ++ vt100Left s.rightsize

/-- bytes echoed for a readline return code other than NEWLINE (`echo` on) -/
def echoFor (c : Byte) (ret : Int) (rl : Readline) : List Byte :=
  if ret = RL_ECHOCHAR then [c] ++ rightEcho rl.line
  else if ret = RL_BACKSPACE then VT100_LEFT ++ VT100_ERASE ++ rightEcho rl.line
  else if ret = RL_RIGHT then VT100_RIGHT
  else if ret = RL_LEFT then VT100_LEFT
  else if ret = RL_UPDATELINE then
    (if rl.lastsize ≠ 0 then vt100Left rl.lastsize else []) ++ VT100_ERASE ++
    (if rl.line.len ≠ 0 then rl.line.buf.take rl.line.len else [])
  else if ret = RL_DELETE then VT100_ERASE ++ rightEcho rl.line
  else []                      -- READLINE_NOTHING, READLINE_OVERFLOW, anything else

/-- `vterm_automate_newdata(vterm, -1)` (init step): runs the loop until state 2
finds no input -/
def initStep (v : Vterm) : Vterm × List Byte :=
  if v.state = 0 ∨ v.state = 1 then v.prologue
  else if v.state = 2 then (v, [])
  else ({ v with state := 0 }, [])          -- `default:` of the outer switch

/-- `vterm_automate_newdata(vterm, c)` for `c ≥ 0`: the `while` loop unrolled
along the only path it can take (prologue if state ∈ {0,1}; state 2 takes the
character; state 3 handles it; then either back to state 2 and return, or —
after NEWLINE / Ctrl-C — state 1, prologue again (C) or return (C++ NEWLINE)).
Result: new state, bytes passed to the write callback, callback events. -/
def key (v : Vterm) (c : Byte) : Vterm × List Byte × List Ev :=
  if ¬ (v.state = 0 ∨ v.state = 1 ∨ v.state = 2) then ({ v with state := 0 }, [], [])
  else
    let p := if v.state = 2 then (v, []) else v.prologue
    let v1 := p.1
    if c = ETX then
      -- CTRL + C
      let o := if v1.echo then [0x5e, 0x43, CR, LF] else []
      let ev := if v1.hasSignal then [Ev.sigint] else []
      let q := ({ v1 with state := 1 }).prologue
      (q.1, p.2 ++ o ++ q.2, ev)
    else
      let r := v1.rl.putchar c
      if r.2 = RL_NEWLINE then
        let o := if v1.echo then [CR, LF] else []
        let ln := r.1.line.getline                  -- vterm_newline: sline_getline, sline_size
        let v2 := { v1 with rl := { r.1 with line := ln }, state := 1 }
        if v1.cxx then (v2, p.2 ++ o, [Ev.exec ln.text])
        else
          let q := v2.prologue
          (q.1, p.2 ++ o ++ q.2, [Ev.exec ln.text])
      else
        let o := if v1.echo then echoFor c r.2 r.1 else []
        ({ v1 with rl := r.1, state := 2 }, p.2 ++ o, [])

/-- feed a key sequence, collecting per key (echo, events) -/
def feed : Vterm → List Byte → Vterm × List (List Byte × List Ev)
  | v, [] => (v, [])
  | v, c :: cs =>
    let r := v.key c
    let t := feed r.1 cs
    (t.1, (r.2.1, r.2.2) :: t.2)

/-- state after a key sequence -/
def run (v : Vterm) (ks : List Byte) : Vterm := ks.foldl (fun v c => (v.key c).1) v

/-- all bytes written while feeding a key sequence -/
def echoed : Vterm → List Byte → List Byte
  | _, [] => []
  | v, c :: cs => (v.key c).2.1 ++ echoed (v.key c).1 cs

/-- all callback events while feeding a key sequence -/
def events : Vterm → List Byte → List Ev
  | _, [] => []
  | v, c :: cs => (v.key c).2.2 ++ events (v.key c).1 cs

end Vterm

/-! ## one-row VT100 screen model (the observer of the echoed bytes) -/

inductive PState
  | ground
  | esc                     -- after ESC
  | csi (n : Option Nat)    -- after ESC [ and the digits read so far
deriving DecidableEq, Repr

structure Screen where
  cells : List Byte         -- the current row
  col : Nat                 -- cursor column
  ps : PState
deriving DecidableEq, Repr

namespace Screen

def blank : Screen := ⟨[], 0, .ground⟩

def isPrintable (b : Byte) : Bool := decide (0x20 ≤ b.toNat ∧ b.toNat ≤ 0x7e)
def isDigit (b : Byte) : Bool := decide (0x30 ≤ b.toNat ∧ b.toNat ≤ 0x39)

/-- write a glyph at the cursor (replace mode), padding with blanks if the
cursor is beyond the text -/
def putGlyph (s : Screen) (b : Byte) : Screen :=
  let cells := if s.col < s.cells.length then s.cells.set s.col b
               else s.cells ++ List.replicate (s.col - s.cells.length) 0x20 ++ [b]
  { s with cells := cells, col := s.col + 1 }

/-- one byte of terminal output -/
def put (s : Screen) (b : Byte) : Screen :=
  match s.ps with
  | .ground =>
    if b = ESC then { s with ps := .esc }
    else if b = CR then { s with col := 0 }
    else if b = LF then { s with cells := [] }         -- next row (blank); column kept
    else if b = BS then { s with col := s.col - 1 }
    else if isPrintable b then s.putGlyph b
    else s
  | .esc =>
    if b = 0x5b then { s with ps := .csi none } else { s with ps := .ground }
  | .csi n =>
    if isDigit b then { s with ps := .csi (some (n.getD 0 * 10 + (b.toNat - 48))) }
    else
      let k := if n.getD 1 = 0 then 1 else n.getD 1       -- default and 0 mean 1
      if b = 0x44 then { s with col := s.col - k, ps := .ground }            -- CUB, clamps at 0
      else if b = 0x43 then { s with col := s.col + k, ps := .ground }       -- CUF
      else if b = 0x4b then { s with cells := s.cells.take s.col, ps := .ground }  -- EL 0
      else { s with ps := .ground }

def feed (s : Screen) (bs : List Byte) : Screen := bs.foldl put s

end Screen

/-! ### `sline_avail` / `sline_newdata` at the C widths

`cap`, `len` are `unsigned int`, `sline_avail` returns `int`: `(int)(cap - len)`.
For `cap - len ≥ 2^31` that is negative. -/

/-- `(int)u` for a 32-bit unsigned value -/
def toInt32 (u : Nat) : Int := if u % 4294967296 < 2147483648 then ((u % 4294967296 : Nat) : Int) else ((u % 4294967296 : Nat) : Int) - 4294967296

/-- `sline_avail`: `(int)(cap - len)`, the subtraction in `unsigned int` -/
def Sline.availC (s : Sline) : Int := toInt32 (s.cap + 4294967296 - s.len % 4294967296)

/-- `sline_newdata(sl, data, len)` with every intermediate value at its C width:
`avail = sline_avail(sl)` (an `int`), `avail - 1` (signed: overflows for
`avail = INT_MIN`, flagged as a fault = undefined behaviour), clamp, negative → 0. -/
def Sline.newdataC (s : Sline) (data : List Byte) (n : Int) : Sline × Int :=
  let avail := s.availC
  let ub := decide (avail = -2147483648)
  let n := if n > avail - 1 then avail - 1 else n
  let n := if n < 0 then 0 else n
  let k := n.toNat
  let m := if s.cursor ≠ s.len then mmove s.buf (s.cursor + k) s.cursor (s.len - s.cursor)
           else (s.buf, false)
  let w := mcpy m.1 s.cursor data 0 k
  ({ s with buf := w.1, cursor := s.cursor + k, len := s.len + k,
            fault := s.fault || m.2 || w.2 || ub || decide (s.len < s.cursor) }, n)

/-- `igris::sline::newdata(const char *data, size_t sz)`: `::sline_newdata(&sl, data, sz)` converts the
`size_t` to the `int` parameter -/
def Sline.newdataSz (s : Sline) (data : List Byte) (sz : Nat) : Sline × Int := s.newdataC data (toInt32 sz)

/-! ## round 3: the `int16_t` parameter, settings between keys, a W-column terminal -/

/-- C conversion `char → int16_t` (`char` is signed on the platform): the value
a caller that holds the byte in a `char` passes to `vterm_automate_newdata` -/
def sextChar (b : Byte) : Int := if b.toNat < 128 then (b.toNat : Int) else (b.toNat : Int) - 256

namespace Vterm

/-- `vterm_automate_newdata(vterm, input_c)` / `vtermxx::newdata(input_c)` with the
`int16_t` exactly as the caller gives it (after `fix: only VTERM_INIT_STEP is the
init step`): `-1` runs the loop without a character, every other value is the
character `(char)input_c` (low 8 bits). -/
def keyI (v : Vterm) (i : Int) : Vterm × List Byte × List Ev :=
  if i = -1 then (v.initStep.1, v.initStep.2, []) else v.key (BitVec.ofInt 8 i)

end Vterm

/-- what a caller can do with a terminal object between two keys -/
inductive Act
  | key (c : Byte)               -- `newdata((int16_t)(unsigned char)c)`
  | keyI (i : Int)               -- `newdata(i)`, any `int16_t`
  | initStep                     -- `vterm_automate_init_step`
  | setPrompt (p : List Byte)    -- `set_prompt` / `prefix_string = …`
  | setEcho (e : Bool)           -- `set_echo` / `echo = …`
deriving DecidableEq, Repr

namespace Vterm

def act (v : Vterm) : Act → Vterm × List Byte × List Ev
  | .key c => v.key c
  | .keyI i => v.keyI i
  | .initStep => (v.initStep.1, v.initStep.2, [])
  | .setPrompt p => ({ v with prompt := p }, [], [])
  | .setEcho e => ({ v with echo := e }, [], [])

def runActs (v : Vterm) (as : List Act) : Vterm := as.foldl (fun v a => (v.act a).1) v

def actEvents : Vterm → List Act → List Ev
  | _, [] => []
  | v, a :: as => (v.act a).2.2 ++ actEvents (v.act a).1 as

def actEchoed : Vterm → List Act → List Byte
  | _, [] => []
  | v, a :: as => (v.act a).2.1 ++ actEchoed (v.act a).1 as

end Vterm

/-- the bytes a list of actions types -/
def Act.typed : List Act → List Byte
  | [] => []
  | .key c :: as => c :: Act.typed as
  | .keyI i :: as => if i = -1 then Act.typed as else BitVec.ofInt 8 i :: Act.typed as
  | _ :: as => Act.typed as

/-! ### a terminal with `W` columns and auto-wrap (the reference emulator for
narrow screens): xterm / VT100 semantics with DECAWM on.  A glyph written in the
last column leaves the cursor there with the `pending` flag set; the next glyph
first moves to column 0 of the next row.  `ESC[nD` / `ESC[nC` stay on the row
(clamped to `0` / `W-1`), `ESC[K` erases to the end of the row, CR / LF / BS as
usual; every cursor movement clears `pending`.  `above` = the rows left behind
(most recent first). -/
structure WScreen where
  above : List (List Byte)
  cells : List Byte
  col : Nat
  pending : Bool
  ps : PState
deriving DecidableEq, Repr

namespace WScreen

def blank : WScreen := ⟨[], [], 0, false, .ground⟩

def putGlyph (W : Nat) (s : WScreen) (b : Byte) : WScreen :=
  let s := if s.pending then { s with above := s.cells :: s.above, cells := [], col := 0, pending := false } else s
  let cells := if s.col < s.cells.length then s.cells.set s.col b
               else s.cells ++ List.replicate (s.col - s.cells.length) 0x20 ++ [b]
  if s.col + 1 < W then { s with cells := cells, col := s.col + 1 }
  else { s with cells := cells, pending := true }

def put (W : Nat) (s : WScreen) (b : Byte) : WScreen :=
  match s.ps with
  | .ground =>
    if b = ESC then { s with ps := .esc }
    else if b = CR then { s with col := 0, pending := false }
    else if b = LF then { s with above := s.cells :: s.above, cells := [], pending := false }
    else if b = BS then { s with col := s.col - 1, pending := false }
    else if Screen.isPrintable b then s.putGlyph W b
    else s
  | .esc =>
    if b = 0x5b then { s with ps := .csi none } else { s with ps := .ground }
  | .csi n =>
    if Screen.isDigit b then { s with ps := .csi (some (n.getD 0 * 10 + (b.toNat - 48))) }
    else
      let k := if n.getD 1 = 0 then 1 else n.getD 1
      if b = 0x44 then { s with col := s.col - k, pending := false, ps := .ground }
      else if b = 0x43 then { s with col := if s.col + k < W then s.col + k else W - 1, pending := false, ps := .ground }
      else if b = 0x4b then { s with cells := s.cells.take s.col, ps := .ground }
      else { s with ps := .ground }

def feed (W : Nat) (s : WScreen) (bs : List Byte) : WScreen := bs.foldl (put W) s

/-- what a correct display of `text` with the cursor before `text[idx]` looks
like on `W` columns: the rows of the text cut every `W` glyphs, the cursor's row
and column -/
def chunks (W : Nat) : Nat → List Byte → List (List Byte)
  | 0, _ => []
  | fuel + 1, t => if t.length ≤ W then [t] else t.take W :: chunks W fuel (t.drop W)

end WScreen

/-! ## round 3b: the count parameters at their C width

`sline_backspace(sl, unsigned int count)`, `sline_delete(sl, unsigned int count)` and the C++
wrappers `igris::sline::backspace(int)`, `igris::sline::del(int)` (which convert the `int` to the
`unsigned int` parameter: `-1` is `UINT_MAX`, the "delete everything" idiom).  `cap`, `len`,
`cursor` are `unsigned int`: every intermediate value below is a `BitVec 32`, computed in the
order the code computes it, so that the clamp is the comparison the code makes
(`count > len - cursor`, NOT `cursor + count > len`, which wraps for `count > UINT_MAX - cursor`).
Nothing is flagged here when a subtraction wraps: unsigned wrap-around is defined in C; what a
wrapped value does shows in `len` / `cursor` and in the index check of the `memmove`.
The pointer arithmetic `buf + cursor + count` is 64-bit (no wrap at 32 bits). -/

namespace Sline

/-- an `unsigned int` field as the 32-bit value it is -/
def u32 (n : Nat) : BitVec 32 := BitVec.ofNat 32 n

/-- `sline_rightsize`: `sl->len - sl->cursor` in `unsigned int` -/
def rightsizeC (s : Sline) : BitVec 32 := u32 s.len - u32 s.cursor

/-- `sline_backspace(sl, count)`, returns `(int)count` -/
def backspaceC (s : Sline) (count : BitVec 32) : Sline × Int :=
  let count := if count > u32 s.cursor then u32 s.cursor else count
  let len := u32 s.len - count
  let cursor := u32 s.cursor - count
  if cursor ≠ len then
    let m := mmove s.buf cursor.toNat (cursor.toNat + count.toNat) (len - cursor).toNat
    ({ s with buf := m.1, len := len.toNat, cursor := cursor.toNat, fault := s.fault || m.2 }, count.toInt)
  else
    ({ s with len := len.toNat, cursor := cursor.toNat }, count.toInt)

/-- `sline_delete(sl, count)`, returns `(int)count` -/
def deleteC (s : Sline) (count : BitVec 32) : Sline × Int :=
  let count := if count > s.rightsizeC then s.rightsizeC else count
  let len := u32 s.len - count
  if u32 s.cursor ≠ len then
    let m := mmove s.buf s.cursor (s.cursor + count.toNat) (len - u32 s.cursor).toNat
    ({ s with buf := m.1, len := len.toNat, fault := s.fault || m.2 }, count.toInt)
  else
    ({ s with len := len.toNat }, count.toInt)

/-- `igris::sline::backspace(int i)`: `::sline_backspace(&sl, i)` converts the `int` to `unsigned int` -/
def backspaceI (s : Sline) (i : Int) : Sline × Int := s.backspaceC (BitVec.ofInt 32 i)

/-- `igris::sline::del(int i)` -/
def deleteI (s : Sline) (i : Int) : Sline × Int := s.deleteC (BitVec.ofInt 32 i)

/-- `igris::sline::set_size_and_cursor(size_t sz, size_t cursor)`: `sl.len = sz; sl.cursor = cursor;`
stores a `size_t` into an `unsigned int` field (low 32 bits) -/
def setSizeCursorC (s : Sline) (sz cursor : Nat) : Sline :=
  { s with len := sz % 4294967296, cursor := cursor % 4294967296 }

end Sline

/-! ### round 3b: the ring offsets of the history at their C width

`readline_history_pointer`: `int idx = (rl->headhist + rl->history_size - num) % rl->history_size;`
(all `unsigned int`), `rl->history_space + idx * rl->line.cap` — `int * unsigned int` is an `unsigned
int` product, it wraps modulo 2^32 BEFORE it is added to the pointer; the push computes
`rl->headhist * rl->line.cap` the same way, `readline_history_init` clears `rl->line.cap * hsize`
bytes.  (`histOff` above is the unbounded offset the theorems use; `ring_offsets_width_partial`
proves them equal for a ring below 4 GiB.) -/

namespace Readline

/-- byte offset `readline_history_pointer(rl, num)` really adds to `history_space` -/
def histOffC (rl : Readline) (num : Nat) : Nat :=
  let idx : BitVec 32 := (Sline.u32 rl.headhist + Sline.u32 rl.hsize - Sline.u32 num) % Sline.u32 rl.hsize
  (idx * Sline.u32 rl.line.cap).toNat

/-- byte offset of the slot `_readline_push_line_to_history` writes -/
def pushOffC (rl : Readline) : Nat := (Sline.u32 rl.headhist * Sline.u32 rl.line.cap).toNat

/-- number of bytes `readline_history_init` clears -/
def clearedC (rl : Readline) : Nat := (Sline.u32 rl.line.cap * Sline.u32 rl.hsize).toNat

end Readline

end Igris.C15
