/-
  C15 — helper lemmas, part 1: windows of a buffer, the sline operations
  against the zipper.
-/
import IgrisModel.C15.Spec
namespace Igris.C15
open Igris.Proto

/-! ### windows and splices of a buffer -/

/-- window `[o, o+n)` of a buffer -/
def win (b : List α) (o n : Nat) : List α := (b.drop o).take n

/-- overwrite `b[dst .. dst+|X|)` with `X` -/
def splice (b : List α) (dst : Nat) (X : List α) : List α := b.take dst ++ X ++ b.drop (dst + X.length)

theorem getElem?_win (b : List α) (o n i : Nat) : (win b o n)[i]? = if i < n then b[o + i]? else none := by
  unfold win
  simp [List.getElem?_take, List.getElem?_drop]

theorem getElem?_splice (b : List α) (dst : Nat) (X : List α) (i : Nat) (h : dst ≤ b.length) :
    (splice b dst X)[i]? = if i < dst then b[i]? else if i < dst + X.length then X[i - dst]? else b[i]? := by
  unfold splice
  have hm : min dst b.length = dst := by omega
  by_cases h1 : i < dst
  · simp [List.getElem?_append, hm, h1]
  · by_cases h2 : i < dst + X.length
    · simp [List.getElem?_append, hm, h1, h2]; omega
    · simp [List.getElem?_append, hm, h1, h2]
      have : ¬ (i - dst < X.length) := by omega
      simp [this]
      congr 1; omega

theorem length_splice (b : List α) (dst : Nat) (X : List α) (h : dst + X.length ≤ b.length) :
    (splice b dst X).length = b.length := by
  unfold splice; simp; omega

theorem length_win (b : List α) (o n : Nat) (h : o + n ≤ b.length) : (win b o n).length = n := by
  unfold win; simp; omega

theorem length_win_le (b : List α) (o n : Nat) : (win b o n).length ≤ n := by
  unfold win; simp; omega

theorem win_splice_before (b : List α) (dst : Nat) (X : List α) (o n : Nat) (h : dst ≤ b.length)
    (h2 : o + n ≤ dst) : win (splice b dst X) o n = win b o n := by
  apply List.ext_getElem?
  intro i
  rw [getElem?_win, getElem?_win, getElem?_splice _ _ _ _ h]
  split
  · rw [if_pos (by omega)]
  · rfl

theorem win_splice_after (b : List α) (dst : Nat) (X : List α) (o n : Nat) (h : dst ≤ b.length)
    (h2 : dst + X.length ≤ o) : win (splice b dst X) o n = win b o n := by
  apply List.ext_getElem?
  intro i
  rw [getElem?_win, getElem?_win, getElem?_splice _ _ _ _ h]
  split
  · rw [if_neg (by omega), if_neg (by omega)]
  · rfl

theorem win_splice_at (b : List α) (dst : Nat) (X : List α) (h : dst ≤ b.length) :
    win (splice b dst X) dst X.length = X := by
  apply List.ext_getElem?
  intro i
  rw [getElem?_win, getElem?_splice _ _ _ _ h]
  split
  · rw [if_neg (by omega), if_pos (by omega)]; congr 1; omega
  · exact (List.getElem?_eq_none (by omega)).symm

theorem win_add (b : List α) (o n m : Nat) : win b o (n + m) = win b o n ++ win b (o + n) m := by
  unfold win
  rw [List.take_add, List.drop_drop]

theorem win_take (b : List α) (o n m : Nat) : (win b o n).take m = win b o (min m n) := by
  unfold win
  rw [List.take_take]

theorem win_drop (b : List α) (o n k : Nat) : (win b o n).drop k = win b (o + k) (n - k) := by
  unfold win
  rw [List.drop_take, List.drop_drop]

@[simp] theorem win_zero (b : List α) (o : Nat) : win b o 0 = [] := by simp [win]

theorem drop_eq_win_append (b : List α) (o n : Nat) : b.drop o = win b o n ++ b.drop (o + n) := by
  unfold win
  rw [← List.drop_drop, List.take_append_drop]

theorem take_eq_win (b : List α) (n : Nat) : b.take n = win b 0 n := by simp [win]

/-! ### the raw memory operations as splices -/

theorem mcpy_ok (b : List Byte) (dst : Nat) (d : List Byte) (src n : Nat)
    (h1 : src + n ≤ d.length) (h2 : dst + n ≤ b.length) :
    mcpy b dst d src n = (splice b dst (win d src n), false) := by
  unfold mcpy splice
  rw [if_pos ⟨h1, h2⟩, length_win _ _ _ h1]
  rfl

theorem mmove_ok (b : List Byte) (dst src n : Nat) (h1 : src + n ≤ b.length) (h2 : dst + n ≤ b.length) :
    mmove b dst src n = (splice b dst (win b src n), false) := mcpy_ok b dst b src n h1 h2

theorem wr_ok (b : List Byte) (i : Nat) (v : Byte) (h : i < b.length) : wr b i v = (splice b i [v], false) := by
  unfold wr splice
  rw [if_pos h, List.set_eq_take_append_cons_drop, if_pos h]
  simp

theorem mset_ok (b : List Byte) (dst : Nat) (v : Byte) (n : Nat) (h : dst + n ≤ b.length) :
    mset b dst v n = (splice b dst (List.replicate n v), false) := by
  unfold mset splice
  rw [if_pos h, List.length_replicate]

/-! ### struct sline against the zipper -/

/-- the object is well formed: the buffer is the one it was given, the cursor
is inside the line, the line leaves room for the terminator, no access so far
left the buffer -/
structure SlineOK (s : Sline) : Prop where
  blen : s.buf.length = s.cap
  cur : s.cursor ≤ s.len
  room : s.len + 1 ≤ s.cap
  nofault : s.fault = false

theorem toZip_eq (s : Sline) : s.toZip = ⟨win s.buf 0 s.cursor, win s.buf s.cursor (s.len - s.cursor)⟩ := by
  simp [Sline.toZip, win]

theorem toZip_left_length (s : Sline) (h : SlineOK s) : s.toZip.left.length = s.cursor := by
  rw [toZip_eq]; exact length_win _ _ _ (by have := h.blen; have := h.cur; have := h.room; omega)

theorem toZip_right_length (s : Sline) (h : SlineOK s) : s.toZip.right.length = s.len - s.cursor := by
  rw [toZip_eq]; exact length_win _ _ _ (by have := h.blen; have := h.cur; have := h.room; omega)

theorem toZip_len (s : Sline) (h : SlineOK s) : s.toZip.len = s.len := by
  unfold Zip.len; rw [toZip_left_length s h, toZip_right_length s h]; have := h.cur; omega

theorem toZip_line (s : Sline) (h : SlineOK s) : s.toZip.line = s.text := by
  have := h.cur
  rw [toZip_eq]; unfold Zip.line Sline.text
  rw [take_eq_win]
  have : s.len = s.cursor + (s.len - s.cursor) := by omega
  conv => rhs; rw [this, win_add]
  rw [Nat.zero_add]

theorem init_ok (cap : Nat) (h : 1 ≤ cap) : SlineOK (Sline.init cap) :=
  ⟨by simp [Sline.init], by simp [Sline.init], by simp [Sline.init]; omega, rfl⟩

theorem init_toZip (cap : Nat) : (Sline.init cap).toZip = Zip.empty := by
  simp [Sline.init, Sline.toZip, Zip.empty]

/-- what one API call does, in one statement: well-formedness is kept, the
capacity does not change, the denoted zipper and the return value are the
reference's -/
def StepOK (s : Sline) (o : SOp) : Prop :=
  SlineOK (s.apply o).1 ∧ (s.apply o).1.cap = s.cap ∧
  (s.apply o).1.toZip = (s.toZip.apply s.cap o).1 ∧ (s.apply o).2 = (s.toZip.apply s.cap o).2

theorem putchar_ok (s : Sline) (h : SlineOK s) (c : Byte) : StepOK s (.putchar c) := by
  obtain ⟨hb, hc, hr, hf⟩ := h
  have hzl := toZip_len s ⟨hb, hc, hr, hf⟩
  unfold StepOK
  show SlineOK (s.putchar c).1 ∧ (s.putchar c).1.cap = s.cap ∧ (s.putchar c).1.toZip = (s.toZip.putchar s.cap c).1 ∧
    (s.putchar c).2 = (s.toZip.putchar s.cap c).2
  unfold Zip.putchar
  rw [hzl]
  by_cases hfull : s.cap - 1 ≤ s.len
  · have e : s.putchar c = (s, 0) := by unfold Sline.putchar; rw [if_pos (by omega)]
    rw [e, if_neg (by omega)]
    exact ⟨⟨hb, hc, hr, hf⟩, rfl, rfl, rfl⟩
  · rw [if_pos (by omega)]
    by_cases hmid : s.cursor = s.len
    · -- append at the end
      have e : s.putchar c = ({ s with buf := splice s.buf s.len [c], cursor := s.len + 1, len := s.len + 1 }, 1) := by
        unfold Sline.putchar
        rw [if_neg (by omega)]
        simp only [hmid, ne_eq, not_true_eq_false, if_false]
        rw [wr_ok _ _ _ (by omega)]
        simp [hf]
      rw [e]
      refine ⟨⟨?_, ?_, ?_, ?_⟩, rfl, ?_, rfl⟩
      · simp only; rw [length_splice _ _ _ (by simp; omega)]; exact hb
      · simp
      · simp only; omega
      · exact hf
      · rw [toZip_eq, toZip_eq]
        simp only [hmid, Nat.sub_self, win_zero]
        rw [win_add, win_splice_before _ _ _ _ _ (by omega) (by omega)]
        have := win_splice_at s.buf s.len [c] (by omega)
        simp only [List.length_cons, List.length_nil, Nat.zero_add] at this
        rw [Nat.zero_add, this]
    · -- insert in the middle
      have hl1 : (win s.buf s.cursor (s.len - s.cursor)).length = s.len - s.cursor := length_win _ _ _ (by omega)
      have hlen1 : (splice s.buf (s.cursor + 1) (win s.buf s.cursor (s.len - s.cursor))).length = s.buf.length :=
        length_splice _ _ _ (by rw [hl1]; omega)
      have e : s.putchar c = ({ s with
          buf := splice (splice s.buf (s.cursor + 1) (win s.buf s.cursor (s.len - s.cursor))) s.cursor [c],
          cursor := s.cursor + 1, len := s.len + 1 }, 1) := by
        unfold Sline.putchar
        rw [if_neg (by omega)]
        simp only [ne_eq, hmid, not_false_eq_true, if_true]
        rw [mmove_ok _ _ _ _ (by omega) (by omega)]
        simp only
        rw [wr_ok _ _ _ (by rw [hlen1]; omega)]
        simp [hf]; omega
      rw [e]
      refine ⟨⟨?_, ?_, ?_, ?_⟩, rfl, ?_, rfl⟩
      · simp only; rw [length_splice _ _ _ (by rw [hlen1]; simp; omega), hlen1]; exact hb
      · simp only; omega
      · simp only; omega
      · exact hf
      · rw [toZip_eq, toZip_eq]
        simp only
        have e1 : s.len + 1 - (s.cursor + 1) = s.len - s.cursor := by omega
        rw [e1, win_add, win_splice_before _ _ _ _ _ (by rw [hlen1]; omega) (by omega),
          win_splice_before _ _ _ _ _ (by omega) (by omega)]
        have h2 := win_splice_at (splice s.buf (s.cursor + 1) (win s.buf s.cursor (s.len - s.cursor))) s.cursor [c]
          (by rw [hlen1]; omega)
        simp only [List.length_cons, List.length_nil, Nat.zero_add] at h2
        rw [Nat.zero_add, h2, win_splice_after _ _ _ _ _ (by rw [hlen1]; omega) (by simp)]
        have h3 := win_splice_at s.buf (s.cursor + 1) (win s.buf s.cursor (s.len - s.cursor)) (by omega)
        rw [hl1] at h3
        rw [h3]

theorem newdata_ok (s : Sline) (h : SlineOK s) (d : List Byte) : StepOK s (.newdata d) := by
  obtain ⟨hb, hc, hr, hf⟩ := h
  have hzl := toZip_len s ⟨hb, hc, hr, hf⟩
  unfold StepOK
  show SlineOK (s.newdata d d.length).1 ∧ (s.newdata d d.length).1.cap = s.cap ∧
    (s.newdata d d.length).1.toZip = (s.toZip.newdata s.cap d).1 ∧ (s.newdata d d.length).2 = (s.toZip.newdata s.cap d).2
  unfold Zip.newdata
  rw [hzl]
  -- the clamped count
  generalize hk : min d.length (s.cap - 1 - s.len) = k
  have hk1 : (if d.length > s.cap - s.len - 1 then s.cap - s.len - 1 else d.length) = k := by
    split <;> omega
  have hkd : k ≤ d.length := by omega
  have hkr : s.len + k + 1 ≤ s.cap := by omega
  have hwd : (win d 0 k).length = k := length_win _ _ _ (by omega)
  by_cases hmid : s.cursor = s.len
  · have e : s.newdata d d.length = ({ s with
        buf := splice s.buf s.len (win d 0 k), cursor := s.len + k, len := s.len + k }, k) := by
      unfold Sline.newdata
      simp only [hk1, hmid, ne_eq, not_true_eq_false, if_false]
      rw [mcpy_ok _ _ _ _ _ (by omega) (by omega)]
      simp [hf]
    rw [e]
    refine ⟨⟨?_, ?_, ?_, ?_⟩, rfl, ?_, rfl⟩
    · simp only; rw [length_splice _ _ _ (by rw [hwd]; omega)]; exact hb
    · simp
    · simp only; omega
    · exact hf
    · rw [toZip_eq, toZip_eq]
      simp only [hmid, Nat.sub_self, win_zero]
      rw [win_add, win_splice_before _ _ _ _ _ (by omega) (by omega), Nat.zero_add]
      have := win_splice_at s.buf s.len (win d 0 k) (by omega)
      rw [hwd] at this
      rw [this, take_eq_win]
  · have hl1 : (win s.buf s.cursor (s.len - s.cursor)).length = s.len - s.cursor := length_win _ _ _ (by omega)
    have hlen1 : (splice s.buf (s.cursor + k) (win s.buf s.cursor (s.len - s.cursor))).length = s.buf.length :=
      length_splice _ _ _ (by rw [hl1]; omega)
    have e : s.newdata d d.length = ({ s with
        buf := splice (splice s.buf (s.cursor + k) (win s.buf s.cursor (s.len - s.cursor))) s.cursor (win d 0 k),
        cursor := s.cursor + k, len := s.len + k }, k) := by
      unfold Sline.newdata
      simp only [hk1, ne_eq, hmid, not_false_eq_true, if_true]
      rw [mmove_ok _ _ _ _ (by omega) (by omega)]
      simp only
      rw [mcpy_ok _ _ _ _ _ (by omega) (by rw [hlen1]; omega)]
      simp [hf]; omega
    rw [e]
    refine ⟨⟨?_, ?_, ?_, ?_⟩, rfl, ?_, rfl⟩
    · simp only; rw [length_splice _ _ _ (by rw [hlen1, hwd]; omega), hlen1]; exact hb
    · simp only; omega
    · simp only; omega
    · exact hf
    · rw [toZip_eq, toZip_eq]
      simp only
      have e1 : s.len + k - (s.cursor + k) = s.len - s.cursor := by omega
      rw [e1, win_add, win_splice_before _ _ _ _ _ (by rw [hlen1]; omega) (by omega),
        win_splice_before _ _ _ _ _ (by omega) (by omega)]
      have h2 := win_splice_at (splice s.buf (s.cursor + k) (win s.buf s.cursor (s.len - s.cursor))) s.cursor (win d 0 k)
        (by rw [hlen1]; omega)
      rw [hwd] at h2
      rw [Nat.zero_add, h2, win_splice_after _ _ _ _ _ (by rw [hlen1]; omega) (by rw [hwd]; omega)]
      have h3 := win_splice_at s.buf (s.cursor + k) (win s.buf s.cursor (s.len - s.cursor)) (by omega)
      rw [hl1] at h3
      rw [h3, take_eq_win]

theorem backspace_ok (s : Sline) (h : SlineOK s) (n : Nat) : StepOK s (.backspace n) := by
  obtain ⟨hb, hc, hr, hf⟩ := h
  have hzl := toZip_left_length s ⟨hb, hc, hr, hf⟩
  unfold StepOK
  show SlineOK (s.backspace n).1 ∧ (s.backspace n).1.cap = s.cap ∧
    (s.backspace n).1.toZip = (s.toZip.backspace n).1 ∧ (s.backspace n).2 = (s.toZip.backspace n).2
  unfold Zip.backspace
  rw [hzl]
  generalize hk : min n s.cursor = k
  have hk1 : (if n > s.cursor then s.cursor else n) = k := by split <;> omega
  have hkc : k ≤ s.cursor := by omega
  by_cases hmid : s.cursor = s.len
  · have e : s.backspace n = ({ s with len := s.len - k, cursor := s.len - k }, k) := by
      unfold Sline.backspace
      simp only [hk1]
      rw [if_neg (by omega)]
      simp [hf, hmid]
    rw [e]
    refine ⟨⟨hb, ?_, ?_, hf⟩, rfl, ?_, rfl⟩
    · simp
    · simp only; omega
    · rw [toZip_eq, toZip_eq]
      simp only [hmid, Nat.sub_self, win_zero]
      rw [win_take]
      congr 2; omega
  · have hl1 : (win s.buf s.cursor (s.len - s.cursor)).length = s.len - s.cursor := length_win _ _ _ (by omega)
    have e : s.backspace n = ({ s with
        buf := splice s.buf (s.cursor - k) (win s.buf s.cursor (s.len - s.cursor)),
        len := s.len - k, cursor := s.cursor - k }, k) := by
      unfold Sline.backspace
      simp only [hk1]
      rw [if_pos (by omega)]
      have e2 : s.cursor - k + k = s.cursor := by omega
      have e3 : s.len - k - (s.cursor - k) = s.len - s.cursor := by omega
      rw [e2, e3, mmove_ok _ _ _ _ (by omega) (by omega)]
      simp [hf]; omega
    rw [e]
    refine ⟨⟨?_, ?_, ?_, hf⟩, rfl, ?_, rfl⟩
    · simp only; rw [length_splice _ _ _ (by rw [hl1]; omega)]; exact hb
    · simp only; omega
    · simp only; omega
    · rw [toZip_eq, toZip_eq]
      simp only
      have e3 : s.len - k - (s.cursor - k) = s.len - s.cursor := by omega
      rw [e3, win_splice_before _ _ _ _ _ (by omega) (by omega), win_take]
      have h3 := win_splice_at s.buf (s.cursor - k) (win s.buf s.cursor (s.len - s.cursor)) (by omega)
      rw [hl1] at h3
      rw [h3]
      congr 2; omega

theorem delete_ok (s : Sline) (h : SlineOK s) (n : Nat) : StepOK s (.delete n) := by
  obtain ⟨hb, hc, hr, hf⟩ := h
  have hzr := toZip_right_length s ⟨hb, hc, hr, hf⟩
  unfold StepOK
  show SlineOK (s.delete n).1 ∧ (s.delete n).1.cap = s.cap ∧
    (s.delete n).1.toZip = (s.toZip.delete n).1 ∧ (s.delete n).2 = (s.toZip.delete n).2
  unfold Zip.delete
  rw [hzr]
  generalize hk : min n (s.len - s.cursor) = k
  have hk1 : (if n > s.rightsize then s.rightsize else n) = k := by unfold Sline.rightsize; split <;> omega
  have hkc : k ≤ s.len - s.cursor := by omega
  by_cases hmid : s.cursor = s.len - k
  · have e : s.delete n = ({ s with len := s.len - k }, k) := by
      unfold Sline.delete
      simp only [hk1]
      rw [if_neg (by omega)]
      simp [hf]; omega
    rw [e]
    refine ⟨⟨hb, ?_, ?_, hf⟩, rfl, ?_, rfl⟩
    · simp only; omega
    · simp only; omega
    · rw [toZip_eq, toZip_eq]
      simp only
      rw [win_drop]
      have : s.len - k - s.cursor = 0 := by omega
      rw [this]
      have : s.len - s.cursor - k = 0 := by omega
      rw [this]
      simp
  · have hl1 : (win s.buf (s.cursor + k) (s.len - k - s.cursor)).length = s.len - k - s.cursor :=
      length_win _ _ _ (by omega)
    have e : s.delete n = ({ s with
        buf := splice s.buf s.cursor (win s.buf (s.cursor + k) (s.len - k - s.cursor)), len := s.len - k }, k) := by
      unfold Sline.delete
      simp only [hk1]
      rw [if_pos (by omega), mmove_ok _ _ _ _ (by omega) (by omega)]
      simp [hf]; omega
    rw [e]
    refine ⟨⟨?_, ?_, ?_, hf⟩, rfl, ?_, rfl⟩
    · simp only; rw [length_splice _ _ _ (by rw [hl1]; omega)]; exact hb
    · simp only; omega
    · simp only; omega
    · rw [toZip_eq, toZip_eq]
      simp only
      rw [win_splice_before _ _ _ _ _ (by omega) (by omega), win_drop]
      have h3 := win_splice_at s.buf s.cursor (win s.buf (s.cursor + k) (s.len - k - s.cursor)) (by omega)
      rw [hl1] at h3
      rw [h3]
      congr 2; omega

theorem left_ok (s : Sline) (h : SlineOK s) : StepOK s .left := by
  obtain ⟨hb, hc, hr, hf⟩ := h
  have hzl := toZip_left_length s ⟨hb, hc, hr, hf⟩
  unfold StepOK
  show SlineOK s.left.1 ∧ s.left.1.cap = s.cap ∧ s.left.1.toZip = s.toZip.moveLeft.1 ∧ s.left.2 = s.toZip.moveLeft.2
  unfold Zip.moveLeft Sline.left
  by_cases h0 : s.cursor = 0
  · have : s.toZip.left = [] := List.eq_nil_of_length_eq_zero (by omega)
    rw [if_pos h0, if_pos this]
    exact ⟨⟨hb, hc, hr, hf⟩, rfl, rfl, rfl⟩
  · have : s.toZip.left ≠ [] := by intro h; rw [h] at hzl; simp at hzl; omega
    rw [if_neg h0, if_neg this, hzl]
    refine ⟨⟨hb, by simp only; omega, hr, hf⟩, rfl, ?_, rfl⟩
    rw [toZip_eq, toZip_eq]
    simp only
    rw [win_take, win_drop]
    have e1 : min (s.cursor - 1) s.cursor = s.cursor - 1 := by omega
    have e2 : s.len - (s.cursor - 1) = 1 + (s.len - s.cursor) := by omega
    have e3 : s.cursor - (s.cursor - 1) = 1 := by omega
    have e4 : s.cursor - 1 + 1 = s.cursor := by omega
    rw [e1, e2, e3, win_add, Nat.zero_add, e4]

theorem right_ok (s : Sline) (h : SlineOK s) : StepOK s .right := by
  obtain ⟨hb, hc, hr, hf⟩ := h
  have hzr := toZip_right_length s ⟨hb, hc, hr, hf⟩
  unfold StepOK
  show SlineOK s.right.1 ∧ s.right.1.cap = s.cap ∧ s.right.1.toZip = s.toZip.moveRight.1 ∧ s.right.2 = s.toZip.moveRight.2
  unfold Zip.moveRight Sline.right
  by_cases h0 : s.cursor = s.len
  · have : s.toZip.right = [] := List.eq_nil_of_length_eq_zero (by omega)
    rw [if_pos h0, if_pos this]
    exact ⟨⟨hb, hc, hr, hf⟩, rfl, rfl, rfl⟩
  · have : s.toZip.right ≠ [] := by intro h; rw [h] at hzr; simp at hzr; omega
    rw [if_neg h0, if_neg this]
    refine ⟨⟨hb, by simp only; omega, hr, hf⟩, rfl, ?_, rfl⟩
    rw [toZip_eq, toZip_eq]
    simp only
    rw [win_take, win_drop, win_add, Nat.zero_add]
    have e1 : min 1 (s.len - s.cursor) = 1 := by omega
    have e2 : s.len - s.cursor - 1 = s.len - (s.cursor + 1) := by omega
    rw [e1, e2]

theorem reset_ok (s : Sline) (h : SlineOK s) : StepOK s .reset := by
  obtain ⟨hb, hc, hr, hf⟩ := h
  refine ⟨⟨hb, by simp [Sline.apply, Sline.reset], by simp only [Sline.apply, Sline.reset]; omega, hf⟩, rfl, ?_, rfl⟩
  simp [Sline.apply, Sline.reset, Sline.toZip, Zip.apply, Zip.empty]

theorem getline_ok (s : Sline) (h : SlineOK s) : StepOK s .getline := by
  obtain ⟨hb, hc, hr, hf⟩ := h
  unfold StepOK
  show SlineOK s.getline ∧ s.getline.cap = s.cap ∧ s.getline.toZip = s.toZip ∧ 0 = 0
  have e : s.getline = { s with buf := splice s.buf s.len [0] } := by
    unfold Sline.getline
    rw [if_neg (by omega), wr_ok _ _ _ (by omega)]
    simp [hf]
  rw [e]
  refine ⟨⟨?_, hc, hr, hf⟩, rfl, ?_, rfl⟩
  · simp only; rw [length_splice _ _ _ (by simp; omega)]; exact hb
  · rw [toZip_eq, toZip_eq]
    simp only
    rw [win_splice_before _ _ _ _ _ (by omega) (by omega), win_splice_before _ _ _ _ _ (by omega) (by omega)]

/-- every API call keeps the object well formed and does what the reference does -/
theorem apply_ok (s : Sline) (h : SlineOK s) (o : SOp) : StepOK s o := by
  cases o with
  | putchar c => exact putchar_ok s h c
  | newdata d => exact newdata_ok s h d
  | backspace n => exact backspace_ok s h n
  | delete n => exact delete_ok s h n
  | left => exact left_ok s h
  | right => exact right_ok s h
  | reset => exact reset_ok s h
  | getline => exact getline_ok s h

/-- the invariant over a whole history of API calls, together with the zipper it denotes -/
theorem runOps_ok (s : Sline) (h : SlineOK s) (ops : List SOp) :
    SlineOK (s.runOps ops) ∧ (s.runOps ops).cap = s.cap ∧ (s.runOps ops).toZip = s.toZip.runOps s.cap ops := by
  induction ops generalizing s with
  | nil => exact ⟨h, rfl, rfl⟩
  | cons o ops ih =>
    obtain ⟨h1, h2, h3, _⟩ := apply_ok s h o
    obtain ⟨i1, i2, i3⟩ := ih (s.apply o).1 h1
    refine ⟨i1, by rw [← h2]; exact i2, ?_⟩
    show ((s.apply o).1.runOps ops).toZip = ((s.toZip.apply s.cap o).1).runOps s.cap ops
    rw [i3, h2, h3]

end Igris.C15
