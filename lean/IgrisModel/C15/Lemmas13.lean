/-
  C15 round 3b — the count parameters of `sline_backspace` / `sline_delete` at their C width
  (`unsigned int` = `BitVec 32`): in a well-formed object the 32-bit computation of the code is
  the unbounded one (no subtraction wraps, the clamp compares what it means to compare); the
  clamp written `cursor + count > len` is NOT (it wraps for `count > UINT_MAX - cursor`).
-/
import IgrisModel.C15.Lemmas12
namespace Igris.C15
open Igris.Proto

theorem u32_toNat (n : Nat) (h : n < 4294967296) : (Sline.u32 n).toNat = n := by
  unfold Sline.u32; rw [BitVec.toNat_ofNat]; exact Nat.mod_eq_of_lt h

theorem bv32_sub_toNat (a b : BitVec 32) (h : b.toNat ≤ a.toNat) : (a - b).toNat = a.toNat - b.toNat := by
  rw [BitVec.toNat_sub]; have := a.isLt; have := b.isLt; omega

theorem bv32_ne_iff (a b : BitVec 32) : a ≠ b ↔ a.toNat ≠ b.toNat := by
  constructor
  · intro h e; exact h (BitVec.eq_of_toNat_eq e)
  · intro h e; exact h (by rw [e])

/-- the clamp `if (count > x) count = x` on `unsigned int`s is `min` -/
theorem clamp_toNat (count x : BitVec 32) :
    (if count > x then x else count).toNat = if count.toNat > x.toNat then x.toNat else count.toNat := by
  by_cases h : count > x
  · rw [if_pos h, if_pos (by rw [gt_iff_lt, BitVec.lt_def] at h; exact h)]
  · rw [if_neg h, if_neg (by rw [gt_iff_lt, BitVec.lt_def] at h; exact h)]

/-- `(int)count` for a count below 2^31 -/
theorem toInt_small (c : BitVec 32) (h : c.toNat < 2147483648) : c.toInt = (c.toNat : Int) := by
  rw [BitVec.toInt_eq_toNat_cond, if_pos (by omega)]

theorem toInt_toInt32 (c : BitVec 32) : c.toInt = toInt32 c.toNat := by
  have := c.isLt
  unfold toInt32
  rw [BitVec.toInt_eq_toNat_cond, Nat.mod_eq_of_lt (by omega)]
  by_cases h : c.toNat < 2147483648
  · rw [if_pos (by omega), if_pos h]
  · rw [if_neg (by omega), if_neg h]; omega

/-- `sline_backspace` at the C width = the unbounded model, for EVERY `unsigned int` count -/
theorem backspaceC_eq (s : Sline) (h : SlineOK s) (hc : s.cap ≤ 4294967296) (count : BitVec 32) :
    (s.backspaceC count).1 = (s.backspace count.toNat).1 ∧
    (s.backspaceC count).2 = toInt32 (s.backspace count.toNat).2 := by
  obtain ⟨hb, hcur, hroom, hf⟩ := h
  have hl : s.len < 4294967296 := by omega
  have hcu : s.cursor < 4294967296 := by omega
  have e1 := u32_toNat s.len hl
  have e2 := u32_toNat s.cursor hcu
  have ek := clamp_toNat count (Sline.u32 s.cursor)
  rw [e2] at ek
  generalize hk : (if count > Sline.u32 s.cursor then Sline.u32 s.cursor else count) = c' at ek
  have hk' : (if count.toNat > s.cursor then s.cursor else count.toNat) = c'.toNat := ek.symm
  have hkle : c'.toNat ≤ s.cursor := by rw [← hk']; split <;> omega
  have l1 : (Sline.u32 s.len - c').toNat = s.len - c'.toNat := by rw [bv32_sub_toNat _ _ (by omega), e1]
  have l2 : (Sline.u32 s.cursor - c').toNat = s.cursor - c'.toNat := by rw [bv32_sub_toNat _ _ (by omega), e2]
  have l3 : ((Sline.u32 s.len - c') - (Sline.u32 s.cursor - c')).toNat = (s.len - c'.toNat) - (s.cursor - c'.toNat) := by
    rw [bv32_sub_toNat _ _ (by omega), l1, l2]
  have hw : decide (s.len < s.cursor) = false := by simp; omega
  unfold Sline.backspaceC Sline.backspace
  simp only [hk, hk', hw, Bool.or_false]
  by_cases hne : (Sline.u32 s.cursor - c') ≠ (Sline.u32 s.len - c')
  · have hne' : s.cursor - c'.toNat ≠ s.len - c'.toNat := by
      have := (bv32_ne_iff _ _).1 hne; rw [l1, l2] at this; exact this
    rw [if_pos hne, if_pos hne']
    simp only [l1, l2, l3]
    exact ⟨trivial, toInt_toInt32 c'⟩
  · have hne' : ¬ (s.cursor - c'.toNat ≠ s.len - c'.toNat) := by
      intro hx; exact hne ((bv32_ne_iff _ _).2 (by rw [l1, l2]; exact hx))
    rw [if_neg hne, if_neg hne']
    simp only [l1, l2]
    exact ⟨trivial, toInt_toInt32 c'⟩

/-- `sline_delete` at the C width = the unbounded model, for EVERY `unsigned int` count -/
theorem deleteC_eq (s : Sline) (h : SlineOK s) (hc : s.cap ≤ 4294967296) (count : BitVec 32) :
    (s.deleteC count).1 = (s.delete count.toNat).1 ∧
    (s.deleteC count).2 = toInt32 (s.delete count.toNat).2 := by
  obtain ⟨hb, hcur, hroom, hf⟩ := h
  have hl : s.len < 4294967296 := by omega
  have hcu : s.cursor < 4294967296 := by omega
  have e1 := u32_toNat s.len hl
  have e2 := u32_toNat s.cursor hcu
  have ers : s.rightsizeC.toNat = s.len - s.cursor := by
    unfold Sline.rightsizeC; rw [bv32_sub_toNat _ _ (by omega), e1, e2]
  have ek := clamp_toNat count s.rightsizeC
  rw [ers] at ek
  generalize hk : (if count > s.rightsizeC then s.rightsizeC else count) = c' at ek
  have hk' : (if count.toNat > s.rightsize then s.rightsize else count.toNat) = c'.toNat := by
    unfold Sline.rightsize; exact ek.symm
  have hkle : c'.toNat ≤ s.len - s.cursor := by rw [← hk']; unfold Sline.rightsize; split <;> omega
  have l1 : (Sline.u32 s.len - c').toNat = s.len - c'.toNat := by rw [bv32_sub_toNat _ _ (by omega), e1]
  have l3 : ((Sline.u32 s.len - c') - Sline.u32 s.cursor).toNat = (s.len - c'.toNat) - s.cursor := by
    rw [bv32_sub_toNat _ _ (by omega), l1, e2]
  have hw : decide (s.len < s.cursor) = false := by simp; omega
  unfold Sline.deleteC Sline.delete
  simp only [hk, hk', hw, Bool.or_false]
  by_cases hne : Sline.u32 s.cursor ≠ (Sline.u32 s.len - c')
  · have hne' : s.cursor ≠ s.len - c'.toNat := by
      have := (bv32_ne_iff _ _).1 hne; rw [l1, e2] at this; exact this
    rw [if_pos hne, if_pos hne']
    simp only [l1, l3]
    exact ⟨trivial, toInt_toInt32 c'⟩
  · have hne' : ¬ (s.cursor ≠ s.len - c'.toNat) := by
      intro hx; exact hne ((bv32_ne_iff _ _).2 (by rw [l1, e2]; exact hx))
    rw [if_neg hne, if_neg hne']
    simp only [l1]
    exact ⟨trivial, toInt_toInt32 c'⟩

/-! ### the clamp written with a sum (seeded change C15-sline-delete-clamp-wrap) -/

/-- `sline_delete` with the clamp rewritten as
`if (sl->cursor + count > sl->len) count = sl->len - sl->cursor;` — the same inequality over the
integers, but `cursor + count` is an `unsigned int` sum.  NOT the code; the subject of
`delete_clamp_wrapped_witness`. -/
def Sline.deleteWrapped (s : Sline) (count : BitVec 32) : Sline × Int :=
  let count := if Sline.u32 s.cursor + count > Sline.u32 s.len then Sline.u32 s.len - Sline.u32 s.cursor else count
  let len := Sline.u32 s.len - count
  if Sline.u32 s.cursor ≠ len then
    let m := mmove s.buf s.cursor (s.cursor + count.toNat) (len - Sline.u32 s.cursor).toNat
    ({ s with buf := m.1, len := len.toNat, fault := s.fault || m.2 }, count.toInt)
  else
    ({ s with len := len.toNat }, count.toInt)

/-- as long as the sum does not wrap (`cursor + count < 2^32`) the two clamps are the same function:
every count the first rounds generated (≤ cap + 2) is in this region -/
theorem deleteWrapped_eq_of_no_wrap (s : Sline) (h : SlineOK s) (hc : s.cap ≤ 4294967296) (count : BitVec 32)
    (hs : s.cursor + count.toNat < 4294967296) : s.deleteWrapped count = s.deleteC count := by
  obtain ⟨hb, hcur, hroom, hf⟩ := h
  have e1 := u32_toNat s.len (by omega)
  have e2 := u32_toNat s.cursor (by omega)
  have ers : s.rightsizeC.toNat = s.len - s.cursor := by
    unfold Sline.rightsizeC; rw [bv32_sub_toNat _ _ (by omega), e1, e2]
  have hsum : (Sline.u32 s.cursor + count).toNat = s.cursor + count.toNat := by
    rw [BitVec.toNat_add, e2]; exact Nat.mod_eq_of_lt hs
  have hiff : (Sline.u32 s.cursor + count > Sline.u32 s.len) ↔ (count > s.rightsizeC) := by
    rw [gt_iff_lt, gt_iff_lt, BitVec.lt_def, BitVec.lt_def, hsum, e1, ers]; omega
  unfold Sline.deleteWrapped Sline.deleteC
  have : (if Sline.u32 s.cursor + count > Sline.u32 s.len then Sline.u32 s.len - Sline.u32 s.cursor else count) =
      (if count > s.rightsizeC then s.rightsizeC else count) := by
    by_cases hx : count > s.rightsizeC
    · rw [if_pos hx, if_pos (hiff.2 hx)]; rfl
    · rw [if_neg hx, if_neg (fun hy => hx (hiff.1 hy))]
  simp only [this]

theorem runOps_snoc (s : Sline) (ops : List SOp) (o : SOp) : s.runOps (ops ++ [o]) = ((s.runOps ops).apply o).1 := by
  unfold Sline.runOps; rw [List.foldl_append]; rfl

theorem zrunOps_snoc (cap : Nat) (z : Zip) (ops : List SOp) (o : SOp) :
    z.runOps cap (ops ++ [o]) = ((z.runOps cap ops).apply cap o).1 := by
  unfold Zip.runOps; rw [List.foldl_append]; rfl

/-! ### ring offsets at the C width -/

theorem histOffC_eq (rl : Readline) (num : Nat) (h1 : 1 ≤ rl.hsize) (hh : rl.headhist < rl.hsize) (hn : num ≤ rl.hsize)
    (hs : rl.hsize ≤ 2147483647) (hc : rl.line.cap < 4294967296) (hfit : rl.hsize * rl.line.cap ≤ 4294967296) :
    rl.histOffC num = rl.histOff num ∧ rl.pushOffC = rl.headhist * rl.line.cap ∧
    rl.clearedC % 4294967296 = (rl.line.cap * rl.hsize) % 4294967296 := by
  have e1 := u32_toNat rl.headhist (by omega)
  have e2 := u32_toNat rl.hsize (by omega)
  have e3 := u32_toNat num (by omega)
  have e4 := u32_toNat rl.line.cap hc
  have hsum : (Sline.u32 rl.headhist + Sline.u32 rl.hsize).toNat = rl.headhist + rl.hsize := by
    rw [BitVec.toNat_add, e1, e2]; exact Nat.mod_eq_of_lt (by omega)
  have hdiff : (Sline.u32 rl.headhist + Sline.u32 rl.hsize - Sline.u32 num).toNat = rl.headhist + rl.hsize - num := by
    rw [bv32_sub_toNat _ _ (by rw [hsum, e3]; omega), hsum, e3]
  have hidx : ((Sline.u32 rl.headhist + Sline.u32 rl.hsize - Sline.u32 num) % Sline.u32 rl.hsize).toNat =
      (rl.headhist + rl.hsize - num) % rl.hsize := by
    rw [BitVec.toNat_umod, hdiff, e2]
  have hlt : (rl.headhist + rl.hsize - num) % rl.hsize < rl.hsize := Nat.mod_lt _ (by omega)
  have hmul : ∀ i, i < rl.hsize → i * rl.line.cap < 4294967296 := by
    intro i hi
    have : i * rl.line.cap ≤ (rl.hsize - 1) * rl.line.cap := Nat.mul_le_mul_right _ (by omega)
    have h2 : (rl.hsize - 1) * rl.line.cap + rl.line.cap = rl.hsize * rl.line.cap := by
      rw [← Nat.succ_mul]; congr 1; omega
    by_cases hz : rl.line.cap = 0
    · rw [hz]; simp
    · omega
  refine ⟨?_, ?_, ?_⟩
  · unfold Readline.histOffC Readline.histOff
    rw [BitVec.toNat_mul, hidx, e4]
    exact Nat.mod_eq_of_lt (hmul _ hlt)
  · unfold Readline.pushOffC
    rw [BitVec.toNat_mul, e1, e4]
    exact Nat.mod_eq_of_lt (hmul _ hh)
  · unfold Readline.clearedC
    rw [BitVec.toNat_mul, e4, e2, Nat.mod_mod]

end Igris.C15
