/-
  C15 — helper lemmas, part 6: the screen invariant over whole key sequences.
-/
import IgrisModel.C15.Lemmas5
namespace Igris.C15
open Igris.Proto

/-- everything the reference editor holds can be shown: line and remembered lines are printable -/
structure RefP (r : Ref) : Prop where
  left : AllP r.z.left
  right : AllP r.z.right
  hist : ∀ e ∈ r.hist, AllP e

theorem AllP_nil : AllP [] := fun _ h => by simp at h

theorem AllP_getD (hist : List (List Byte)) (k : Nat) (h : ∀ e ∈ hist, AllP e) : AllP (hist.getD k []) := by
  rw [List.getD_eq_getElem?_getD]
  cases hk : hist[k]? with
  | none => exact AllP_nil
  | some e => exact h e (List.mem_of_getElem? hk)

theorem AllP_cstr (l : List Byte) (h : AllP l) : AllP (cstr l) :=
  fun x hx => h x ((List.takeWhile_prefix _).subset hx)

theorem remember_P (hist : List (List Byte)) (l : List Byte) (h : ∀ e ∈ hist, AllP e) (hl : AllP l) :
    ∀ e ∈ Ref.remember hist l, AllP e := by
  unfold Ref.remember
  split
  · intro e he
    have := List.dropLast_subset _ he
    rcases List.mem_cons.mp this with q | q
    · rw [q]; exact AllP_cstr l hl
    · exact h e q
  · exact h

theorem screenKey_printable (c : Byte) (h : screenKey c = true) (h1 : ¬ (c = CR ∨ c = LF)) (h2 : c ≠ BS) (h3 : c ≠ ESC)
    (h4 : c ≠ ETX) : Screen.isPrintable c = true := by
  unfold screenKey at h
  simp only [Bool.or_eq_true, decide_eq_true_eq] at h
  rcases h with h | h | h | h | h | h
  · exact h
  · exact absurd h h2
  · exact absurd (Or.inl h) h1
  · exact absurd (Or.inr h) h1
  · exact absurd h h3
  · exact absurd h h4

theorem refP_fresh (r : Ref) (h : RefP r) : RefP r.fresh := ⟨AllP_nil, AllP_nil, h.hist⟩

theorem refP_rlKey (cap : Nat) (r : Ref) (c : Byte) (hc : screenKey c = true) (hx : c ≠ ETX) (h : RefP r) :
    RefP (r.rlKey cap c).1 := by
  obtain ⟨hl, hr, hh⟩ := h
  unfold Ref.rlKey
  cases r.esc <;> simp only
  · -- normal
    by_cases h1 : c = CR ∨ c = LF
    · rw [if_pos h1]
      split
      · exact ⟨hl, hr, hh⟩
      · exact ⟨hl, hr, remember_P _ _ hh (AllP_append hl hr)⟩
    · rw [if_neg h1]
      by_cases h2 : c = BS
      · rw [if_pos h2]
        exact ⟨AllP_take _ hl, hr, hh⟩
      · rw [if_neg h2]
        by_cases h3 : c = ESC
        · rw [if_pos h3]; exact ⟨hl, hr, hh⟩
        · rw [if_neg h3]
          unfold Zip.putchar
          split
          · refine ⟨AllP_append hl ?_, hr, hh⟩
            intro b hb; simp at hb; rw [hb]; exact screenKey_printable c hc h1 h2 h3 hx
          · exact ⟨hl, hr, hh⟩
  · exact ⟨hl, hr, hh⟩
  · -- ESC [ x
    repeat' split
    all_goals first
      | exact ⟨hl, hr, hh⟩
      | exact ⟨AllP_getD _ _ hh, AllP_nil, hh⟩
      | exact ⟨AllP_nil, AllP_nil, hh⟩
      | skip
    · unfold Zip.moveRight; split
      · exact ⟨hl, hr, hh⟩
      · exact ⟨AllP_append hl (AllP_take _ hr), AllP_drop _ hr, hh⟩
    · unfold Zip.moveLeft; split
      · exact ⟨hl, hr, hh⟩
      · exact ⟨AllP_take _ hl, AllP_append (AllP_drop _ hl) hr, hh⟩
    · exact ⟨hl, AllP_drop _ hr, hh⟩
  · exact ⟨hl, hr, hh⟩

theorem refP_key (cap : Nat) (r : Ref) (c : Byte) (hc : screenKey c = true) (h : RefP r) : RefP (r.key cap c).1 := by
  unfold Ref.key
  by_cases hx : c = ETX
  · rw [if_pos hx]; exact refP_fresh r h
  · rw [if_neg hx]
    have := refP_rlKey cap r c hc hx h
    simp only
    split
    · exact refP_fresh _ this
    · exact this

/-! ### the screen invariant -/

/-- in state 2 the screen shows prompt ++ line with the cursor at the line's
cursor; while the prompt is still to be printed (state 0, or state 1 of
igris::vtermxx after Enter) the row is blank with the cursor in column 0 -/
def SInv (P : List Byte) (v : Vterm) (scr : Screen) (r : Ref) : Prop :=
  if v.state = 2 then scr = Screen.showing P r.z else scr = ⟨[], 0, .ground⟩

theorem showing_empty (P : List Byte) (hP : AllP P) : (Screen.mk [] 0 .ground).feed P = Screen.showing P Zip.empty := by
  have := Screen.feed_print [] [] P hP
  simp only [List.append_nil, List.length_nil, List.nil_append, List.drop_nil, Nat.zero_add] at this
  rw [this]
  simp [Screen.showing, Zip.empty]

theorem pre_echo (v : Vterm) : (if v.state = 2 then (v, ([] : List Byte)) else v.prologue).1.echo = v.echo := by
  unfold Vterm.prologue; split <;> rfl

theorem pre_prompt (v : Vterm) : (if v.state = 2 then (v, ([] : List Byte)) else v.prologue).1.prompt = v.prompt := by
  unfold Vterm.prologue; split <;> rfl

theorem pre_out (v : Vterm) (he : v.echo = true) :
    (if v.state = 2 then (v, ([] : List Byte)) else v.prologue).2 = if v.state = 2 then [] else v.prompt := by
  unfold Vterm.prologue; split <;> simp

/-- one key: the echoed bytes keep the screen in step with the reference line -/
theorem sstep (cap depth : Nat) (hd : 1 ≤ depth) (v : Vterm) (r : Ref) (c : Byte) (scr : Screen)
    (h : VSim cap depth v r) (hp : RefP r) (he : v.echo = true) (hP : AllP v.prompt) (hc : screenKey c = true)
    (hs : SInv v.prompt v scr r) :
    SInv v.prompt (v.key c).1 (scr.feed (v.key c).2.1) (r.key cap c).1 ∧ (v.key c).1.echo = true ∧
    (v.key c).1.prompt = v.prompt := by
  obtain ⟨hst, hsig, hsim, _, _⟩ := h
  -- the screen after the (possibly pending) prompt
  have hscr1 : scr.feed (if v.state = 2 then [] else v.prompt) = Screen.showing v.prompt r.z := by
    unfold SInv at hs
    by_cases h2 : v.state = 2
    · rw [if_pos h2] at hs ⊢; rw [Screen.feed_nil]; exact hs
    · rw [if_neg h2] at hs ⊢
      have hz : r.z = Zip.empty := by
        rw [← hsim.zip, nrl_reset _ h2]
        simp [Readline.newlineReset, Sline.reset, Sline.toZip, Zip.empty]
      rw [hs, hz]; exact showing_empty _ hP
  unfold Vterm.key Ref.key
  rw [if_neg (fun hq => hq (by omega))]
  generalize hv1 : (if v.state = 2 then (v, ([] : List Byte)) else v.prologue) = p
  have p_rl : p.1.rl = v.nrl := by rw [← hv1]; exact pre_rl v
  have p_echo : p.1.echo = true := by rw [← hv1, pre_echo v]; exact he
  have p_prompt : p.1.prompt = v.prompt := by rw [← hv1, pre_prompt v]
  have p_out : p.2 = if v.state = 2 then [] else v.prompt := by rw [← hv1]; exact pre_out v he
  simp only
  by_cases hcx : c = ETX
  · -- Ctrl-C: "^C", CR LF, a new prompt
    rw [if_pos hcx, if_pos hcx]
    refine ⟨?_, by simp only [Vterm.prologue]; exact p_echo, by simp only [Vterm.prologue]; exact p_prompt⟩
    unfold SInv
    simp only [Vterm.prologue, p_echo, if_true, p_prompt]
    rw [Screen.feed_append, Screen.feed_append, p_out, hscr1]
    have hcc : (Screen.showing v.prompt r.z).feed [0x5e, 0x43, CR, LF] = ⟨[], 0, .ground⟩ := by
      have e : ([0x5e, 0x43, CR, LF] : List Byte) = [0x5e, 0x43] ++ [CR, LF] := rfl
      rw [e, Screen.feed_append]
      unfold Screen.showing
      rw [Screen.feed_print _ _ [0x5e, 0x43] (by intro b hb; simp at hb; rcases hb with q | q <;> (rw [q]; decide))]
      exact Screen.feed_CRLF _ rfl
    rw [hcc, showing_empty _ hP]
    rfl
  · rw [if_neg hcx, if_neg hcx]
    obtain ⟨s1, s2, s3, s4⟩ := rstep cap depth hd v.nrl r c hsim
    rw [p_rl]
    by_cases hn : (v.nrl.putchar c).2 = RL_NEWLINE
    · -- Enter: CR LF (and the new prompt at once in the C variant)
      rw [if_pos hn, s3 hn]
      simp only
      have hcrlf : (Screen.showing v.prompt r.z).feed [CR, LF] = ⟨[], 0, .ground⟩ := Screen.feed_CRLF _ rfl
      by_cases hx : p.1.cxx = true
      · rw [if_pos hx]
        refine ⟨?_, p_echo, p_prompt⟩
        unfold SInv
        simp only [p_echo, if_true]
        rw [if_neg (by decide), Screen.feed_append, p_out, hscr1, hcrlf]
      · rw [if_neg hx]
        refine ⟨?_, by simp only [Vterm.prologue]; exact p_echo, by simp only [Vterm.prologue]; exact p_prompt⟩
        unfold SInv
        simp only [Vterm.prologue, p_echo, if_true, p_prompt]
        rw [Screen.feed_append, Screen.feed_append, p_out, hscr1, hcrlf, showing_empty _ hP]
        rfl
    · -- any other key: the redraw of `echo_shows`
      rw [if_neg hn, s4 hn]
      simp only
      have hp' := refP_rlKey cap r c hc hcx hp
      refine ⟨?_, p_echo, p_prompt⟩
      unfold SInv
      simp only [p_echo, if_true]
      rw [Screen.feed_append, p_out, hscr1, echoFor_eq _ _ _ s1.lineOK, s1.zip]
      refine Screen.echo_shows _ _ _ _ _ _ s2 hn ?_ hp.right hp'.left
      intro hret
      rcases s2 with ⟨_, hz⟩ | ⟨e, _⟩ | ⟨e, _⟩ | ⟨e, _⟩ | ⟨e, _⟩ | ⟨e, _⟩ | ⟨e, _⟩
      · have hl := hp'.left
        rw [hz] at hl
        exact hl c (by simp)
      all_goals (rw [hret] at e; first | exact absurd e (by decide) | (rcases e with e | e | e <;> exact absurd e (by decide)))

/-- whole key sequences -/
theorem screen_run (cap depth : Nat) (hd : 1 ≤ depth) (v : Vterm) (r : Ref) (scr : Screen)
    (ks : List Byte) (h : VSim cap depth v r) (hp : RefP r) (he : v.echo = true) (hP : AllP v.prompt)
    (hk : ∀ k ∈ ks, screenKey k = true) (hs : SInv v.prompt v scr r) :
    SInv v.prompt (v.run ks) (scr.feed (v.echoed ks)) (r.run cap ks) ∧ VSim cap depth (v.run ks) (r.run cap ks) := by
  induction ks generalizing v r scr with
  | nil => exact ⟨hs, h⟩
  | cons c cs ih =>
    obtain ⟨s1, s2, s3⟩ := sstep cap depth hd v r c scr h hp he hP (hk c (by simp)) hs
    have hv := (vstep cap depth hd v r c h).1
    have := ih (v.key c).1 (r.key cap c).1 (scr.feed (v.key c).2.1) hv (refP_key cap r c (hk c (by simp)) hp) s2
      (by rw [s3]; exact hP) (fun k hk' => hk k (by simp [hk'])) (by rw [s3]; exact s1)
    rw [s3] at this
    simp only [Vterm.echoed, Screen.feed_append]
    exact this

/-- `showing` in terms of the edit buffer -/
theorem showing_line (P : List Byte) (s : Sline) (h : SlineOK s) :
    Screen.showing P s.toZip = ⟨P ++ s.text, P.length + s.cursor, .ground⟩ := by
  unfold Screen.showing
  rw [List.append_assoc, List.length_append, toZip_left_length _ h]
  have := toZip_line _ h
  unfold Zip.line at this
  rw [this]

theorem refP_init (depth : Nat) : RefP (Ref.init depth) :=
  ⟨AllP_nil, AllP_nil, by intro e he; simp [Ref.init] at he; rw [he.2]; exact AllP_nil⟩

/-- vterm.c is back in state 2 after every key -/
theorem key_state_c (v : Vterm) (c : Byte) (hst : v.state = 0 ∨ v.state = 1 ∨ v.state = 2) (hx : v.cxx = false) :
    (v.key c).1.state = 2 ∧ (v.key c).1.cxx = false := by
  unfold Vterm.key
  rw [if_neg (fun hq => hq (by omega))]
  generalize hv1 : (if v.state = 2 then (v, ([] : List Byte)) else v.prologue) = p
  have p_cxx : p.1.cxx = false := by rw [← hv1]; unfold Vterm.prologue; split <;> exact hx
  simp only
  by_cases hc3 : c = ETX
  · rw [if_pos hc3]; exact ⟨rfl, p_cxx⟩
  · rw [if_neg hc3]
    by_cases hn : (p.1.rl.putchar c).2 = RL_NEWLINE
    · rw [if_pos hn, if_neg (by rw [p_cxx]; decide)]
      exact ⟨rfl, p_cxx⟩
    · rw [if_neg hn]; exact ⟨rfl, p_cxx⟩

theorem run_state_c (cap depth : Nat) (hd : 1 ≤ depth) (v : Vterm) (r : Ref)
    (h : VSim cap depth v r) (hx : v.cxx = false) (ks : List Byte) (hne : ks ≠ []) : (v.run ks).state = 2 := by
  induction ks generalizing v r with
  | nil => exact absurd rfl hne
  | cons c cs ih =>
    obtain ⟨k1, k2⟩ := key_state_c v c h.st hx
    by_cases hcs : cs = []
    · subst hcs; exact k1
    · exact ih (v.key c).1 (r.key cap c).1 (vstep cap depth hd v r c h).1 k2 hcs

/-- the statement of `screen_matches` for any start satisfying the invariants -/
theorem screen_of_sim (cap depth : Nat) (P : List Byte) (v : Vterm) (r : Ref) (scr : Screen)
    (h : VSim cap depth v r) (hs : SInv P v scr r) :
    (v.state = 2 → scr = ⟨P ++ v.rl.line.text, P.length + v.rl.line.cursor, .ground⟩) ∧
    (v.state ≠ 2 → scr = ⟨[], 0, .ground⟩) := by
  unfold SInv at hs
  constructor
  · intro h2
    rw [if_pos h2] at hs
    have := h.sim
    rw [nrl_two _ h2] at this
    rw [hs, ← this.zip, showing_line _ _ this.lineOK]
  · intro h2
    rw [if_neg h2] at hs
    exact hs

/-! ### starting with `vterm_automate_init_step` (the prompt is printed before the first key) -/

theorem initStep_sim (cap depth : Nat) (v : Vterm) (r : Ref) (h : VSim cap depth v r) (hs : v.state ≠ 2) :
    VSim cap depth v.initStep.1 r ∧ v.initStep.1.state = 2 ∧ v.initStep.1.echo = v.echo ∧
    v.initStep.1.prompt = v.prompt ∧ v.initStep.1.cxx = v.cxx ∧ v.initStep.2 = (if v.echo then v.prompt else []) := by
  obtain ⟨hst, hsig, hsim, _, _⟩ := h
  have e : v.initStep = v.prologue := by
    unfold Vterm.initStep; rw [if_pos (by omega)]
  rw [e]
  rw [nrl_reset _ hs] at hsim
  refine ⟨⟨Or.inr (Or.inr rfl), hsig, ?_, hsim.lineOK, ?_⟩, rfl, rfl, rfl, rfl, rfl⟩
  · rw [nrl_two _ rfl]; exact hsim
  · simp only [Vterm.prologue, Readline.newlineReset]; exact Nat.zero_le _

end Igris.C15
