/-
  C15 — line-protocol driver over the model (no theorem depends on this file).

  ops (see harness/C15.cpp):
    consts
    sl  <c|x> <cap> <op>...                      sline op history (ext tokens: N<int>:<hex>, c, s<len>,<cur>)
    lc  <c|x> <cap> <depth> <maxlen> <keys-hex>  keys through readline_putchar, then readline_linecpy
    rl  <c|x> <cap> <depth> <keys-hex>           readline_putchar per key
    vt  <c|x> <cap> <depth> <echo> <keys-hex>    vterm per key
    vtx <c|x> <cap> <depth> <alpha> <L> <prefix-hex>
                                                 all key sequences prefix ++ (≤ L tokens): count + FNV-1a digest
-/
import IgrisModel.C15.Model
namespace Igris.C15
open Igris.Proto

def slShow (ret : String) (s : Sline) : String :=
  ret ++ "," ++ toString s.len ++ "," ++ toString s.cursor ++ "," ++ bytesHex s.text

/-- one sline op token -/
def slOp (cxx : Bool) (s : Sline) (tok : String) : Option (Sline × String) :=
  let arg := (tok.drop 1).toString
  match tok.front with
  | 'p' => do
      let b ← parseBytes? arg
      let c ← b.head?
      let r := s.putchar c
      pure (r.1, slShow (toString r.2) r.1)
  | 'n' => do
      let d ← parseBytes? arg
      if s.cap > 16777216 then
        -- a buffer of which only the first bytes are materialised: the C-width function
        let r := s.newdataC d d.length
        pure (r.1, slShow (if cxx then "v" else toString r.2) r.1)
      else
      let r := s.newdata d d.length
      pure (r.1, slShow (if cxx then "v" else toString r.2) r.1)
  | 'Z' => do
      -- Z<size>:<hex>  igris::sline::newdata(data, size_t size)
      match arg.splitOn ":" with
      | [ns, hx] => do
        let n ← ns.toNat?
        let d ← parseBytes? hx
        let r := s.newdataSz d n
        pure (r.1, slShow "v" r.1)
      | _ => none
  | 'N' => do
      -- N<int>:<hex>  sline_newdata(data, len) with the int length as given
      match arg.splitOn ":" with
      | [ns, hx] => do
        let n ← ns.toInt?
        let d ← parseBytes? hx
        let r := if s.cap > 16777216 then s.newdataC d n else s.newdataI d n
        pure (r.1, slShow (if cxx then "v" else toString r.2) r.1)
      | _ => none
  | 'c' => let r := s.clear; some (r, slShow "0" r)
  | 's' => do
      -- s<len>,<cursor>  igris::sline::set_size_and_cursor
      match arg.splitOn "," with
      | [a, b] => do
        let l ← a.toNat?
        let c ← b.toNat?
        let r := s.setSizeCursor l c
        pure (r, slShow "0" r)
      | _ => none
  | 'b' => do
      -- the count as the `unsigned int` it is (round 3b: the C-width functions; `count_parameters_width`
      -- proves them equal to the unbounded `backspace` / `delete` in every reachable state)
      let n ← arg.toNat?
      let r := s.backspaceC (BitVec.ofNat 32 n)
      pure (r.1, slShow (toString r.2) r.1)
  | 'd' => do
      let n ← arg.toNat?
      let r := s.deleteC (BitVec.ofNat 32 n)
      pure (r.1, slShow (toString r.2) r.1)
  | 'B' => do
      -- B<int> / D<int>: the count as an `int` (igris::sline::backspace(int) / del(int); in the C family the
      -- harness writes the same conversion `(unsigned int)i`)
      let i ← arg.toInt?
      let r := s.backspaceI i
      pure (r.1, slShow (toString r.2) r.1)
  | 'D' => do
      let i ← arg.toInt?
      let r := s.deleteI i
      pure (r.1, slShow (toString r.2) r.1)
  | 'l' => let r := s.left; some (r.1, slShow (toString r.2) r.1)
  | 'r' => let r := s.right; some (r.1, slShow (toString r.2) r.1)
  | 'z' => let r := s.reset; some (r, slShow "0" r)
  | 'g' => let r := s.getline; some (r, slShow "0" r)
  | 'e' => do
      let d ← parseBytes? arg
      let e := s.equal (d ++ [0])
      pure (s, slShow (if e.1 then "1" else "0") s)
  | _ => none

def slRun (cxx : Bool) : Sline → List String → Option (List String)
  | _, [] => some []
  | s, t :: ts => do
      let r ← slOp cxx s t
      if r.1.fault then pure ["fault"] else
      let rest ← slRun cxx r.1 ts
      pure (r.2 :: rest)

def rstateNum : RState → Nat
  | .normal => 0 | .escseq => 1 | .move => 2 | .wait7e => 3

def rlRun : Readline → List Byte → List String × Readline
  | rl, [] => ([], rl)
  | rl, c :: cs =>
    let r := rl.putchar c
    if r.1.faulted then (["fault"], r.1) else
    -- after NEWLINE the caller (the terminal) starts a fresh line
    let t := rlRun (if r.2 = RL_NEWLINE then r.1.newlineReset else r.1) cs
    ((toString r.2 ++ "," ++ toString r.1.line.len ++ "," ++ toString r.1.line.cursor ++ "," ++
      bytesHex r.1.line.text) :: t.1, t.2)

def evShow : Ev → String
  | .exec l => "X" ++ bytesHex l
  | .sigint => "S"

def evsShow (es : List Ev) : String :=
  if es.isEmpty then "-" else "+".intercalate (es.map evShow)

def vtRun : Vterm → List Byte → List String
  | _, [] => []
  | v, c :: cs =>
    let r := v.key c
    if r.1.rl.faulted then ["fault"] else
    (toString r.1.rl.line.len ++ "," ++ toString r.1.rl.line.cursor ++ "," ++ bytesHex r.2.1 ++ "," ++
      evsShow r.2.2) :: vtRun r.1 cs

/-! ### digest of a whole tree of key sequences -/

def fnvB (h : UInt64) (b : Nat) : UInt64 := (h ^^^ (UInt64.ofNat (b % 256))) * 0x100000001b3

def fnvBytes (h : UInt64) (bs : List Byte) : UInt64 :=
  bs.foldl (fun h b => fnvB h b.toNat) (fnvB h bs.length)

def fnvEv (h : UInt64) : Ev → UInt64
  | .exec l => fnvBytes (fnvB h 1) l
  | .sigint => fnvB h 2

/-- record of one key: len, cur, echo, events (or 0xEE on a model fault) -/
def fnvKey (h : UInt64) (v : Vterm) (o : List Byte) (es : List Ev) : UInt64 :=
  if v.rl.faulted then fnvB h 0xEE else
  let h := fnvB (fnvB h v.rl.line.len) v.rl.line.cursor
  let h := fnvBytes h o
  es.foldl fnvEv (fnvB h es.length)

def tokRun (v : Vterm) (h : UInt64) : List Byte → Vterm × UInt64
  | [] => (v, h)
  | c :: cs =>
    let r := v.key c
    tokRun r.1 (fnvKey h r.1 r.2.1 r.2.2) cs

/-- the 15-byte alphabet of DESIGN §7 C15 -/
def alphaBytes : List (List Byte) :=
  [[0x61], [0x62], [BS], [CR], [LF], [ESC], [0x5b], [0x41], [0x42], [0x43], [0x44], [0x33], [0x7e], [ETX], [0x78]]

/-- whole keys: a b BS CR LF Up Down Left Right Del ^C -/
def alphaKeys : List (List Byte) :=
  [[0x61], [0x62], [BS], [CR], [LF], [ESC, 0x5b, 0x41], [ESC, 0x5b, 0x42], [ESC, 0x5b, 0x44], [ESC, 0x5b, 0x43],
   [ESC, 0x5b, 0x33, 0x7e], [ETX]]

/-- preorder walk over all extensions of at most `L` tokens -/
def walk (alpha : List (List Byte)) : Nat → Vterm → UInt64 × Nat → UInt64 × Nat
  | 0, _, acc => acc
  | L + 1, v, acc =>
    alpha.foldl (fun acc tok =>
      let r := tokRun v acc.1 tok
      walk alpha L r.1 (r.2, acc.2 + 1)) acc

def variant? : String → Option Bool
  | "c" => some false
  | "x" => some true
  | _ => none

def constsLine : String :=
  bytesHex VT100_LEFT ++ " " ++ bytesHex VT100_RIGHT ++ " " ++ bytesHex VT100_ERASE ++ " " ++
  bytesHex (vt100Left 1) ++ " " ++ bytesHex (vt100Left 12) ++ " " ++ bytesHex (vt100Left 1234567890) ++ " " ++
  " ".intercalate ([RL_OVERFLOW, RL_NOTHING, RL_ECHOCHAR, RL_NEWLINE, RL_BACKSPACE, RL_DELETE, RL_UPDATELINE,
    RL_LEFT, RL_RIGHT].map toString)


/-! ### round 3 -/

def keyRec (r : Vterm × List Byte × List Ev) : String :=
  toString r.1.rl.line.len ++ "," ++ toString r.1.rl.line.cursor ++ "," ++ bytesHex r.2.1 ++ "," ++ evsShow r.2.2

/-- session script: k<hex> keys as unsigned bytes, c<hex> bytes through a `char`, i<int> a raw int16_t,
I init step, P<hex> set_prompt, E0 / E1 set_echo -/
def vsRun : Vterm → List String → Option (List String)
  | _, [] => some []
  | v, t :: ts =>
    let arg := (t.drop 1).toString
    let keysVia (f : Byte → Act) : Option (List String) := do
      let ks ← parseBytes? arg
      let rec go (v : Vterm) : List Byte → List String × Vterm
        | [] => ([], v)
        | c :: cs =>
          let r := v.act (f c)
          if r.1.rl.faulted then (["fault"], r.1) else
          let t := go r.1 cs
          (keyRec r :: t.1, t.2)
      let (rs, v') := go v ks
      if rs.getLast? = some "fault" then pure rs else
      let rest ← vsRun v' ts
      pure (rs ++ rest)
    match t.front with
    | 'k' => keysVia Act.key
    | 'c' => keysVia (fun b => Act.keyI (sextChar b))
    | 'i' => do
        let i ← arg.toInt?
        let r := v.act (.keyI i)
        if r.1.rl.faulted then pure ["fault"] else
        let rest ← vsRun r.1 ts
        pure ((if i = -1 then "I" ++ bytesHex r.2.1 else keyRec r) :: rest)
    | 'I' => do
        let r := v.act .initStep
        let rest ← vsRun r.1 ts
        pure (("I" ++ bytesHex r.2.1) :: rest)
    | 'P' => do
        let p ← parseBytes? arg
        let rest ← vsRun (v.act (.setPrompt p)).1 ts
        pure ("=" :: rest)
    | 'E' => do
        let rest ← vsRun (v.act (.setEcho (arg ≠ "0"))).1 ts
        pure ("=" :: rest)
    | _ => none

def wShow (w : WScreen) : String :=
  toString w.above.length ++ "," ++ toString w.col ++ "," ++ (if w.pending then "1" else "0") ++ "," ++ bytesHex w.cells

/-- W-column terminal fed with the echo of every key -/
def vwRun (W : Nat) : Vterm → WScreen → List Byte → List String
  | _, _, [] => []
  | v, w, c :: cs =>
    let r := v.key c
    if r.1.rl.faulted then ["fault"] else
    let w' := WScreen.feed W w r.2.1
    wShow w' :: vwRun W r.1 w' cs

/-- what the model embeds about the PUBLIC interface (op `consts2`): sizeof of the `int16_t` key parameter
(`keyI`), of the `unsigned int` count parameter of `sline_backspace` / `sline_delete` (`backspaceC` / `deleteC`:
`BitVec 32`), of the `int` length of `sline_newdata` (`newdataC`); VTERM_INIT_STEP; `char` is signed (`sextChar`);
bytes vt100_left needs for INT_MAX (buffer: 16).  Round 3b: the widths of struct fields and the numbers behind
READLINE_STATE_* are not fixed by the property; the harness reports them as tags. -/
def consts2Line : String :=
  "2 4 4 4 -1 1 " ++ toString (vt100Left 2147483647).length

/-- the session the harness runs BEFORE main() (static object with init_priority(101)) -/
def premainKeys : List Byte := [0x61, 0x62, CR, ESC, 0x5b, 0x41, 0x63, ESC, 0x5b, 0x44, 0x64, LF, 0x03, ESC, 0x5b, 0x41, ESC, 0x5b, 0x41, CR]

def lcgAlpha : Array Byte := #[0x61, 0x62, BS, CR, LF, ESC, 0x5b, 0x41, 0x42, 0x43, 0x44, 0x33, 0x7e, ETX, 0x78]

/-- the key generator of op `vl` (same LCG as in harness/C15.cpp) -/
def lcgKeys : Nat → Nat → List Byte → List Byte
  | 0, _, acc => acc.reverse
  | n + 1, st, acc =>
    let st' := (st * 1103515245 + 12345) % 2147483648
    lcgKeys n st' (lcgAlpha.getD ((st' / 65536) % 15) 0x61 :: acc)

def stepLine (_ : Unit) (line : String) : Unit × String :=
  let r : Option String :=
    match words line with
    | ["reset"] => some "ok"
    | ["consts"] => some constsLine
    | "sl" :: var :: cap :: ops => do
        let cxx ← variant? var
        let cap ← cap.toNat?
        -- a buffer of 2^24 bytes and more: only its first 64 bytes are materialised (the ops keep the line short)
        let s0 : Sline := if cap > 16777216 then ⟨List.replicate 64 0, cap, 0, 0, false⟩ else Sline.init cap
        let rs ← slRun cxx s0 ops
        pure (if rs.isEmpty then "-" else " ".intercalate rs)
    | ["rl", var, cap, depth, keys] => do
        let cxx ← variant? var
        let cap ← cap.toNat?
        let depth ← depth.toNat?
        let ks ← parseBytes? keys
        let (rs, rl) := rlRun (Readline.init cap depth) ks
        let tail := if cxx ∨ rl.faulted then "" else
          " H" ++ toString rl.headhist ++ "," ++ toString rl.curhist ++ "," ++ toString (rstateNum rl.state) ++ "," ++
            (if rl.hist.isEmpty then "-" else
              ".".intercalate ((List.range rl.hsize).map fun i =>
                bytesHex (((rl.hist.drop (i * cap)).take cap).takeWhile (· ≠ 0))))
        pure (" ".intercalate rs ++ tail)
    | ["lc", var, cap, depth, maxlen, keys] => do
        -- keys through readline_putchar, then readline_linecpy into a destination of exactly maxlen bytes (0xAA)
        let _ ← variant? var
        let cap ← cap.toNat?
        let depth ← depth.toNat?
        let maxlen ← maxlen.toNat?
        let ks ← parseBytes? keys
        let (_, rl) := rlRun (Readline.init cap depth) ks
        let r := rl.linecpy (List.replicate maxlen 0xAA) maxlen
        pure (if rl.faulted ∨ r.2.2 then "fault" else toString r.2.1 ++ " " ++ bytesHex r.1)
    | ["vt", var, cap, depth, echo, keys] => do
        let cxx ← variant? var
        let cap ← cap.toNat?
        let depth ← depth.toNat?
        let ks ← parseBytes? keys
        let v0 := { Vterm.init cap depth cxx with echo := echo ≠ "0" }
        let i := v0.initStep
        pure (" ".intercalate (("I" ++ bytesHex i.2) :: vtRun i.1 ks))
    | ["vtx", var, cap, depth, alpha, L, prefix_] => do
        let cxx ← variant? var
        let cap ← cap.toNat?
        let depth ← depth.toNat?
        let L ← L.toNat?
        let ks ← parseBytes? prefix_
        let al ← if alpha = "0" then some alphaBytes else if alpha = "1" then some alphaKeys else none
        let i := (Vterm.init cap depth cxx).initStep
        let r := tokRun i.1 (fnvBytes 0xcbf29ce484222325 i.2) ks
        let w := walk al L r.1 (r.2, 0)
        pure (toString w.2 ++ " " ++ hexOfNat 16 w.1.toNat)
    | "vs" :: var :: cap :: depth :: toks => do
        let cxx ← variant? var
        let cap ← cap.toNat?
        let depth ← depth.toNat?
        let rs ← vsRun (Vterm.init cap depth cxx) toks
        pure (if rs.isEmpty then "-" else " ".intercalate rs)
    | ["vw", var, cap, depth, W, _strict, keys] => do
        let cxx ← variant? var
        let cap ← cap.toNat?
        let depth ← depth.toNat?
        let W ← W.toNat?
        let ks ← parseBytes? keys
        let i := (Vterm.init cap depth cxx).initStep
        let w0 := WScreen.feed W WScreen.blank i.2
        pure (" ".intercalate (("I" ++ wShow w0) :: vwRun W i.1 w0 ks))
    | ["lh", var, cap, depth, maxlen, keys] => do
        let _ ← variant? var
        let cap ← cap.toNat?
        let depth ← depth.toNat?
        let maxlen ← maxlen.toNat?
        let ks ← parseBytes? keys
        let (_, rl) := rlRun (Readline.init cap depth) ks
        -- only the first min(maxlen, cap + 2) bytes of the (huge) destination are materialised
        let shown := if maxlen < cap + 2 then maxlen else cap + 2
        let r := rl.linecpy (List.replicate shown 0xAA) maxlen
        pure (if rl.faulted ∨ r.2.2 then "fault" else toString r.2.1 ++ " " ++ bytesHex r.1)
    | ["vl", var, cap, depth, n, seed] => do
        let cxx ← variant? var
        let cap ← cap.toNat?
        let depth ← depth.toNat?
        let n ← n.toNat?
        let seed ← seed.toNat?
        let i := (Vterm.init cap depth cxx).initStep
        let r := tokRun i.1 (fnvBytes 0xcbf29ce484222325 i.2) (lcgKeys n seed [])
        pure (toString n ++ " " ++ hexOfNat 16 r.2.toNat)
    | ["consts2"] => some consts2Line
    | ["premain", keys] => do
        let ks ← parseBytes? keys
        if ks ≠ premainKeys then none else
        let one (cxx : Bool) : String :=
          let i := (Vterm.init 4 2 cxx).initStep
          " ".intercalate (("I" ++ bytesHex i.2) :: vtRun i.1 ks)
        pure (one false ++ " | " ++ one true)
    | ["tw", cap, depth, echo, keys] => do
        -- the twins side by side: the record is vterm.c's (the harness compares the two directly)
        let cap ← cap.toNat?
        let depth ← depth.toNat?
        let ks ← parseBytes? keys
        let v0 := { Vterm.init cap depth false with echo := echo ≠ "0" }
        let i := v0.initStep
        pure (" ".intercalate (("I" ++ bytesHex i.2) :: vtRun i.1 ks))
    | "ts" :: cap :: ops => do
        let cap ← cap.toNat?
        let rs ← slRun true (Sline.init cap) ops
        pure (if rs.isEmpty then "-" else " ".intercalate rs)
    | _ => none
  ((), r.getD "bad-op")

end Igris.C15
