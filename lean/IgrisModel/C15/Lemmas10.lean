/-
  C15 — helper lemmas, part 10 (extension): the byte-level reference editor
  `Ref` (four-state decoder) is the token-level editor `Ed` after the grammar
  `keysOf ∘ symbols` of Keys.lean.
-/
import IgrisModel.C15.Keys
import IgrisModel.C15.Lemmas4
namespace Igris.C15
open Igris.Proto

/-- what of the reference editor the key presses act on -/
def edOf (r : Ref) : Ed := ⟨r.z, r.hist, r.browse⟩

/-- the second half of an Enter that began with `prev` -/
def pairOf (prev : Byte) : Option Byte := if prev = CR then some LF else if prev = LF then some CR else none

/-! the grammar continued from inside an escape sequence (proof device: one
function per position in `keysOf`'s nested matches) -/

def afterDel : List Sym → List Key
  | [] => []
  | .intr :: r => Key.interrupt :: keysOf r
  | _ :: r => keysOf r

def afterCsi : List Sym → List Key
  | [] => []
  | .intr :: r => Key.interrupt :: keysOf r
  | .nl :: r => keysOf r
  | .b e :: r =>
    if e = 0x41 then Key.up :: keysOf r
    else if e = 0x42 then Key.down :: keysOf r
    else if e = 0x43 then Key.right :: keysOf r
    else if e = 0x44 then Key.left :: keysOf r
    else if e = 0x33 then Key.delete :: afterDel r
    else keysOf r

def afterEsc : List Sym → List Key
  | [] => []
  | .intr :: r => Key.interrupt :: keysOf r
  | .nl :: r => keysOf r
  | .b d :: r => if d ≠ 0x5b then keysOf r else afterCsi r

def keysFrom : RState → List Sym → List Key
  | .normal => keysOf
  | .escseq => afterEsc
  | .move => afterCsi
  | .wait7e => afterDel

theorem keysOf_esc (r : List Sym) : keysOf (Sym.b ESC :: r) = afterEsc r := by
  have hb : ¬ (ESC = BS) := by decide
  match r with
  | [] => simp [keysOf, afterEsc, hb]
  | .intr :: r1 => simp [keysOf, afterEsc, hb]
  | .nl :: r1 => simp [keysOf, afterEsc, hb]
  | .b d :: [] => simp [keysOf, afterEsc, afterCsi, hb]
  | .b d :: .intr :: r2 => simp [keysOf, afterEsc, afterCsi, hb]
  | .b d :: .nl :: r2 => simp [keysOf, afterEsc, afterCsi, hb]
  | .b d :: .b e :: [] => simp [keysOf, afterEsc, afterCsi, afterDel, hb]
  | .b d :: .b e :: .intr :: r3 => simp [keysOf, afterEsc, afterCsi, afterDel, hb]
  | .b d :: .b e :: .nl :: r3 => simp [keysOf, afterEsc, afterCsi, afterDel, hb]
  | .b d :: .b e :: .b f :: r3 => simp [keysOf, afterEsc, afterCsi, afterDel, hb]

theorem keysOf_bs (r : List Sym) : keysOf (Sym.b BS :: r) = Key.backspace :: keysOf r := by
  match r with
  | [] => simp [keysOf]
  | .intr :: r1 => simp [keysOf]
  | .nl :: r1 => simp [keysOf]
  | .b d :: [] => simp [keysOf]
  | .b d :: .intr :: r2 => simp [keysOf]
  | .b d :: .nl :: r2 => simp [keysOf]
  | .b d :: .b e :: [] => simp [keysOf]
  | .b d :: .b e :: .intr :: r3 => simp [keysOf]
  | .b d :: .b e :: .nl :: r3 => simp [keysOf]
  | .b d :: .b e :: .b f :: r3 => simp [keysOf]

theorem keysOf_char (c : Byte) (h1 : ¬ c = BS) (h2 : ¬ c = ESC) (r : List Sym) : keysOf (Sym.b c :: r) = Key.char c :: keysOf r := by
  match r with
  | [] => simp [keysOf, h1, h2]
  | .intr :: r1 => simp [keysOf, h1, h2]
  | .nl :: r1 => simp [keysOf, h1, h2]
  | .b d :: [] => simp [keysOf, h1, h2]
  | .b d :: .intr :: r2 => simp [keysOf, h1, h2]
  | .b d :: .nl :: r2 => simp [keysOf, h1, h2]
  | .b d :: .b e :: [] => simp [keysOf, h1, h2]
  | .b d :: .b e :: .intr :: r3 => simp [keysOf, h1, h2]
  | .b d :: .b e :: .nl :: r3 => simp [keysOf, h1, h2]
  | .b d :: .b e :: .b f :: r3 => simp [keysOf, h1, h2]

theorem keysFrom_intr (st : RState) (X : List Sym) : keysFrom st (Sym.intr :: X) = Key.interrupt :: keysOf X := by
  cases st <;> simp [keysFrom, keysOf, afterEsc, afterCsi, afterDel]

/-- decoder invariant: inside an escape sequence the previous byte is not a newline -/
def Dec (r : Ref) : Prop := r.esc ≠ .normal → pairOf r.prev = none

theorem dec_init (depth : Nat) : Dec (Ref.init depth) := fun h => absurd rfl h

theorem pairOf_other (c : Byte) (h : ¬ (c = CR ∨ c = LF)) : pairOf c = none := by
  unfold pairOf
  rw [if_neg (fun e => h (Or.inl e)), if_neg (fun e => h (Or.inr e))]

theorem pairOf_nl (c : Byte) (h : c = CR ∨ c = LF) : pairOf c = some (if c = CR then LF else CR) := by
  unfold pairOf
  rcases h with h | h <;> subst h <;> decide

theorem pairOf_some (prev c : Byte) (h : c = CR ∨ c = LF) :
    pairOf prev = some c ↔ ((prev = LF ∨ prev = CR) ∧ prev ≠ c) := by
  unfold pairOf
  rcases h with h | h <;> subst h
  · by_cases h1 : prev = CR
    · subst h1; decide
    · by_cases h2 : prev = LF
      · subst h2; decide
      · simp [h1, h2]
  · by_cases h1 : prev = CR
    · subst h1; decide
    · by_cases h2 : prev = LF
      · subst h2; decide
      · simp [h1, h2]

/-- the invariant holds after every byte, whatever the state before -/
theorem dec_key (cap : Nat) (r : Ref) (c : Byte) : Dec (r.key cap c).1 := by
  obtain ⟨z, hist, browse, esc, prev⟩ := r
  unfold Dec Ref.key
  by_cases hx : c = ETX
  · simp [hx, Ref.fresh]
  · simp only [hx, if_false]
    unfold Ref.rlKey
    cases esc <;> simp only
    all_goals (repeat' split)
    all_goals simp_all [Ref.fresh, pairOf, ESC, CR, LF]

theorem pairOf_zero : pairOf (0 : Byte) = none := by decide
theorem pairOf_esc : pairOf ESC = none := by decide
theorem pairOf_5b : pairOf (0x5b : Byte) = none := by decide
theorem pairOf_33 : pairOf (0x33 : Byte) = none := by decide

/-- the three conclusions of one step, once `Ref.key` has been computed -/
theorem tok_leaf (cap : Nat) (r r' : Ref) (ev : List Ev) (c : Byte) (ks : List Byte) (kk : List Key)
    (hk : r.key cap c = (r', ev))
    (h1 : keysFrom r.esc (symbols (pairOf r.prev) (c :: ks)) = kk ++ keysFrom r'.esc (symbols (pairOf r'.prev) ks))
    (h2 : (edOf r).run cap kk = edOf r') (h3 : (edOf r).events cap kk = ev) :
    ∃ kk : List Key,
      keysFrom r.esc (symbols (pairOf r.prev) (c :: ks)) =
        kk ++ keysFrom (r.key cap c).1.esc (symbols (pairOf (r.key cap c).1.prev) ks) ∧
      (edOf r).run cap kk = edOf (r.key cap c).1 ∧ (edOf r).events cap kk = (r.key cap c).2 := by
  rw [hk]; exact ⟨kk, h1, h2, h3⟩

/-- ONE BYTE: the decoder's step is the grammar's step -/
theorem tok_step (cap : Nat) (r : Ref) (c : Byte) (hD : Dec r) (ks : List Byte) :
    ∃ kk : List Key,
      keysFrom r.esc (symbols (pairOf r.prev) (c :: ks)) =
        kk ++ keysFrom (r.key cap c).1.esc (symbols (pairOf (r.key cap c).1.prev) ks) ∧
      (edOf r).run cap kk = edOf (r.key cap c).1 ∧ (edOf r).events cap kk = (r.key cap c).2 := by
  obtain ⟨z, hist, browse, esc, prev⟩ := r
  by_cases hx : c = ETX
  · -- Ctrl-C
    refine tok_leaf cap _ ⟨Zip.empty, hist, 0, .normal, prev⟩ [Ev.sigint] c ks [Key.interrupt]
      (by simp [Ref.key, Ref.fresh, hx]) ?_ (by simp [edOf, Ed.run, Ed.key]) (by simp [edOf, Ed.events, Ed.key])
    simp only [symbols, hx, if_true, keysFrom_intr]
    simp [keysFrom]
  · by_cases hnl : c = CR ∨ c = LF
    · -- a newline byte
      cases esc with
      | normal =>
        by_cases hsw : (prev = LF ∨ prev = CR) ∧ prev ≠ c
        · have hp : pairOf prev = some c := (pairOf_some prev c hnl).2 hsw
          refine tok_leaf cap _ ⟨z, hist, browse, .normal, 0⟩ [] c ks []
            (by simp [Ref.key, Ref.rlKey, hx, hnl, hsw]) ?_ rfl rfl
          simp only [symbols, hx, hnl, hp, if_true, if_false, List.nil_append, pairOf_zero]
        · have hp : ¬ (pairOf prev = some c) := fun e => hsw ((pairOf_some prev c hnl).1 e)
          refine tok_leaf cap _ ⟨Zip.empty, Ref.remember hist z.line, 0, .normal, c⟩ [Ev.exec z.line] c ks [Key.enter]
            (by simp [Ref.key, Ref.rlKey, hx, hnl, hsw, Ref.fresh]) ?_
            (by simp [edOf, Ed.run, Ed.key]) (by simp [edOf, Ed.events, Ed.key])
          simp only [symbols, hx, hnl, hp, if_true, if_false, keysFrom, keysOf, pairOf_nl c hnl, List.singleton_append]
      | escseq =>
        have hp : pairOf prev = none := hD (by simp)
        have h5 : ¬ c = 0x5b := by rcases hnl with h | h <;> subst h <;> decide
        refine tok_leaf cap _ ⟨z, hist, browse, .normal, c⟩ [] c ks []
          (by simp only [Ref.key, Ref.rlKey, hx, h5, if_false]) ?_ rfl rfl
        simp only [symbols, hx, hnl, hp, if_true, if_false, keysFrom, afterEsc, pairOf_nl c hnl, List.nil_append,
          reduceCtorEq]
      | move =>
        have hp : pairOf prev = none := hD (by simp)
        have h1 : ¬ c = 0x41 ∧ ¬ c = 0x42 ∧ ¬ c = 0x43 ∧ ¬ c = 0x44 ∧ ¬ c = 0x33 := by
          rcases hnl with h | h <;> subst h <;> decide
        obtain ⟨a1, a2, a3, a4, a5⟩ := h1
        refine tok_leaf cap _ ⟨z, hist, browse, .normal, c⟩ [] c ks []
          (by simp only [Ref.key, Ref.rlKey, hx, a1, a2, a3, a4, a5, if_false]) ?_ rfl rfl
        simp only [symbols, hx, hnl, hp, if_true, if_false, keysFrom, afterCsi, pairOf_nl c hnl, List.nil_append,
          reduceCtorEq]
      | wait7e =>
        have hp : pairOf prev = none := hD (by simp)
        refine tok_leaf cap _ ⟨z, hist, browse, .normal, c⟩ [] c ks []
          (by simp only [Ref.key, Ref.rlKey, hx, if_false]) ?_ rfl rfl
        simp only [symbols, hx, hnl, hp, if_true, if_false, keysFrom, afterDel, pairOf_nl c hnl, List.nil_append,
          reduceCtorEq]
    · -- any other byte
      have hpc : pairOf c = none := pairOf_other c hnl
      have hsym : ∀ p, symbols p (c :: ks) = Sym.b c :: symbols none ks := by
        intro p; simp only [symbols, hx, hnl, if_false]
      cases esc with
      | normal =>
        by_cases hbs : c = BS
        · refine tok_leaf cap _ ⟨(z.backspace 1).1, hist, browse, .normal, c⟩ [] c ks [Key.backspace]
            (by subst hbs; simp [Ref.key, Ref.rlKey, BS, ETX, CR, LF]) ?_
            (by simp [edOf, Ed.run, Ed.key]) (by simp [edOf, Ed.events, Ed.key])
          rw [hsym, hpc, hbs]
          simp only [keysFrom, keysOf_bs, List.singleton_append]
        · by_cases hes : c = ESC
          · refine tok_leaf cap _ ⟨z, hist, browse, .escseq, c⟩ [] c ks []
              (by subst hes; simp [Ref.key, Ref.rlKey, BS, ETX, CR, LF, ESC]) ?_ rfl rfl
            rw [hsym, hpc, hes]
            simp only [keysFrom, keysOf_esc, List.nil_append]
          · refine tok_leaf cap _ ⟨(z.putchar cap c).1, hist, browse, .normal, c⟩ [] c ks [Key.char c]
              (by simp only [Ref.key, Ref.rlKey, hx, hnl, hbs, hes, if_false]) ?_
              (by simp [edOf, Ed.run, Ed.key]) (by simp [edOf, Ed.events, Ed.key])
            rw [hsym, hpc]
            simp only [keysFrom, keysOf_char c hbs hes, List.singleton_append]
      | escseq =>
        by_cases h5 : c = 0x5b
        · refine tok_leaf cap _ ⟨z, hist, browse, .move, c⟩ [] c ks []
            (by subst h5; simp [Ref.key, Ref.rlKey, ETX]) ?_ rfl rfl
          rw [hsym, hpc, h5]
          simp [keysFrom, afterEsc]
        · refine tok_leaf cap _ ⟨z, hist, browse, .normal, c⟩ [] c ks []
            (by simp only [Ref.key, Ref.rlKey, hx, h5, if_false]) ?_ rfl rfl
          rw [hsym, hpc]
          simp only [keysFrom, afterEsc, ne_eq, h5, not_false_eq_true, if_true, List.nil_append]
      | move =>
        by_cases a1 : c = 0x41
        · by_cases hb : browse < hist.length
          · refine tok_leaf cap _ ⟨⟨hist.getD browse [], []⟩, hist, browse + 1, .normal, c⟩ [] c ks [Key.up]
              (by subst a1; simp [Ref.key, Ref.rlKey, ETX, hb]) ?_
              (by simp [edOf, Ed.run, Ed.key, hb]) (by simp [edOf, Ed.events, Ed.key, hb])
            rw [hsym, hpc, a1]
            simp [keysFrom, afterCsi]
          · refine tok_leaf cap _ ⟨z, hist, browse, .normal, c⟩ [] c ks [Key.up]
              (by subst a1; simp [Ref.key, Ref.rlKey, ETX, hb]) ?_
              (by simp [edOf, Ed.run, Ed.key, hb]) (by simp [edOf, Ed.events, Ed.key, hb])
            rw [hsym, hpc, a1]
            simp [keysFrom, afterCsi]
        · by_cases a2 : c = 0x42
          · by_cases hb0 : browse = 0
            · refine tok_leaf cap _ ⟨z, hist, browse, .normal, c⟩ [] c ks [Key.down]
                (by subst a2; simp [Ref.key, Ref.rlKey, ETX, hb0]) ?_
                (by simp [edOf, Ed.run, Ed.key, hb0]) (by simp [edOf, Ed.events, Ed.key, hb0])
              rw [hsym, hpc, a2]
              simp [keysFrom, afterCsi]
            · by_cases hb1 : browse = 1
              · refine tok_leaf cap _ ⟨Zip.empty, hist, 0, .normal, c⟩ [] c ks [Key.down]
                  (by subst a2; simp [Ref.key, Ref.rlKey, ETX, hb0, hb1]) ?_
                  (by simp [edOf, Ed.run, Ed.key, hb1]) (by simp [edOf, Ed.events, Ed.key, hb1])
                rw [hsym, hpc, a2]
                simp [keysFrom, afterCsi]
              · refine tok_leaf cap _ ⟨⟨hist.getD (browse - 2) [], []⟩, hist, browse - 1, .normal, c⟩ [] c ks [Key.down]
                  (by subst a2; simp [Ref.key, Ref.rlKey, ETX, hb0, hb1]) ?_
                  (by simp [edOf, Ed.run, Ed.key, hb0, hb1]) (by simp [edOf, Ed.events, Ed.key, hb0, hb1])
                rw [hsym, hpc, a2]
                simp [keysFrom, afterCsi]
          · by_cases a3 : c = 0x43
            · refine tok_leaf cap _ ⟨z.moveRight.1, hist, browse, .normal, c⟩ [] c ks [Key.right]
                (by subst a3; simp [Ref.key, Ref.rlKey, ETX]) ?_
                (by simp [edOf, Ed.run, Ed.key]) (by simp [edOf, Ed.events, Ed.key])
              rw [hsym, hpc, a3]
              simp [keysFrom, afterCsi]
            · by_cases a4 : c = 0x44
              · refine tok_leaf cap _ ⟨z.moveLeft.1, hist, browse, .normal, c⟩ [] c ks [Key.left]
                  (by subst a4; simp [Ref.key, Ref.rlKey, ETX]) ?_
                  (by simp [edOf, Ed.run, Ed.key]) (by simp [edOf, Ed.events, Ed.key])
                rw [hsym, hpc, a4]
                simp [keysFrom, afterCsi]
              · by_cases a5 : c = 0x33
                · refine tok_leaf cap _ ⟨(z.delete 1).1, hist, browse, .wait7e, c⟩ [] c ks [Key.delete]
                    (by subst a5; simp [Ref.key, Ref.rlKey, ETX]) ?_
                    (by simp [edOf, Ed.run, Ed.key]) (by simp [edOf, Ed.events, Ed.key])
                  rw [hsym, hpc, a5]
                  simp [keysFrom, afterCsi]
                · refine tok_leaf cap _ ⟨z, hist, browse, .normal, c⟩ [] c ks []
                    (by simp only [Ref.key, Ref.rlKey, hx, a1, a2, a3, a4, a5, if_false]) ?_ rfl rfl
                  rw [hsym, hpc]
                  simp only [keysFrom, afterCsi, a1, a2, a3, a4, a5, if_false, List.nil_append]
      | wait7e =>
        refine tok_leaf cap _ ⟨z, hist, browse, .normal, c⟩ [] c ks []
          (by simp only [Ref.key, Ref.rlKey, hx, if_false]) ?_ rfl rfl
        rw [hsym, hpc]
        simp [keysFrom, afterDel]

theorem Ed.run_append (cap : Nat) (e : Ed) (a b : List Key) : e.run cap (a ++ b) = (e.run cap a).run cap b := by
  simp [Ed.run, List.foldl_append]

theorem Ed.events_append (cap : Nat) (e : Ed) (a b : List Key) :
    e.events cap (a ++ b) = e.events cap a ++ (e.run cap a).events cap b := by
  induction a generalizing e with
  | nil => rfl
  | cons k ks ih =>
    simp only [List.cons_append, Ed.events, ih, List.append_assoc]
    rfl

/-- ALL BYTES: from any decoder state satisfying the invariant -/
theorem tok_run (cap : Nat) (r : Ref) (ks : List Byte) (hD : Dec r) :
    edOf (r.run cap ks) = (edOf r).run cap (keysFrom r.esc (symbols (pairOf r.prev) ks)) ∧
    r.events cap ks = (edOf r).events cap (keysFrom r.esc (symbols (pairOf r.prev) ks)) := by
  induction ks generalizing r with
  | nil =>
    have : keysFrom r.esc (symbols (pairOf r.prev) []) = [] := by
      cases h : r.esc <;> simp [keysFrom, symbols, keysOf, afterEsc, afterCsi, afterDel]
    rw [this]
    exact ⟨rfl, rfl⟩
  | cons c cs ih =>
    obtain ⟨kk, e1, e2, e3⟩ := tok_step cap r c hD cs
    have d1 := dec_key cap r c
    obtain ⟨i1, i2⟩ := ih (r.key cap c).1 d1
    rw [e1, Ed.run_append, Ed.events_append, e2, e3, Ref.run_cons]
    exact ⟨i1, by simp only [Ref.events]; rw [i2]⟩

end Igris.C15
