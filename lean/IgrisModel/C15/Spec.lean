/-
  C15 — the REFERENCE: what a line editor with these keys is.

  * `Zip`  : the edited line as two lists around the cursor, a capacity
             (at most `cap - 1` characters).
  * `Ref`  : the reference editor = a `Zip`, the remembered lines (most recent
             first), the browse position, and the key decoder state
             (where in an `ESC [ x` sequence we are; the previous byte for
             CR LF pairing).
  Nothing here mentions buffers, indices, rings or NUL terminators except
  `cstr`: the history remembers a line as a C string (up to its first NUL) —
  for keys ≠ 0 that is the line itself.
-/
import IgrisModel.C15.Model
namespace Igris.C15
open Igris.Proto

/-! ## the line: a zipper with capacity -/

structure Zip where
  left : List Byte      -- before the cursor, in order
  right : List Byte     -- from the cursor on
deriving DecidableEq, Repr

namespace Zip

def empty : Zip := ⟨[], []⟩
def line (z : Zip) : List Byte := z.left ++ z.right
def len (z : Zip) : Nat := z.left.length + z.right.length

/-- type a character at the cursor unless the line is full -/
def putchar (cap : Nat) (z : Zip) (c : Byte) : Zip × Nat :=
  if z.len + 1 < cap then (⟨z.left ++ [c], z.right⟩, 1) else (z, 0)

/-- paste: as many characters as still fit -/
def newdata (cap : Nat) (z : Zip) (d : List Byte) : Zip × Nat :=
  let k := min d.length (cap - 1 - z.len)
  (⟨z.left ++ d.take k, z.right⟩, k)

/-- remove up to `n` characters before the cursor -/
def backspace (z : Zip) (n : Nat) : Zip × Nat :=
  let k := min n z.left.length
  (⟨z.left.take (z.left.length - k), z.right⟩, k)

/-- remove up to `n` characters from the cursor on -/
def delete (z : Zip) (n : Nat) : Zip × Nat :=
  let k := min n z.right.length
  (⟨z.left, z.right.drop k⟩, k)

def moveLeft (z : Zip) : Zip × Nat :=
  if z.left = [] then (z, 0)
  else (⟨z.left.take (z.left.length - 1), z.left.drop (z.left.length - 1) ++ z.right⟩, 1)

def moveRight (z : Zip) : Zip × Nat :=
  if z.right = [] then (z, 0) else (⟨z.left ++ z.right.take 1, z.right.drop 1⟩, 1)

end Zip

/-- an operation of the sline API -/
inductive SOp
  | putchar (c : Byte)
  | newdata (d : List Byte)
  | backspace (n : Nat)
  | delete (n : Nat)
  | left
  | right
  | reset
  | getline
deriving DecidableEq, Repr

/-- the model: one API call (result: new object, return value) -/
def Sline.apply (s : Sline) : SOp → Sline × Nat
  | .putchar c => s.putchar c
  | .newdata d => s.newdata d d.length
  | .backspace n => s.backspace n
  | .delete n => s.delete n
  | .left => s.left
  | .right => s.right
  | .reset => (s.reset, 0)
  | .getline => (s.getline, 0)

/-- the reference: the same call on the zipper -/
def Zip.apply (cap : Nat) (z : Zip) : SOp → Zip × Nat
  | .putchar c => z.putchar cap c
  | .newdata d => z.newdata cap d
  | .backspace n => z.backspace n
  | .delete n => z.delete n
  | .left => z.moveLeft
  | .right => z.moveRight
  | .reset => (Zip.empty, 0)
  | .getline => (z, 0)

def Sline.runOps (s : Sline) (ops : List SOp) : Sline := ops.foldl (fun s o => (s.apply o).1) s
def Zip.runOps (cap : Nat) (z : Zip) (ops : List SOp) : Zip := ops.foldl (fun z o => (z.apply cap o).1) z

/-- the zipper an sline object denotes -/
def Sline.toZip (s : Sline) : Zip :=
  ⟨s.buf.take s.cursor, (s.buf.drop s.cursor).take (s.len - s.cursor)⟩

/-! ## the reference editor -/

/-- a line as the history remembers it: a C string -/
def cstr (l : List Byte) : List Byte := l.takeWhile (· ≠ 0)

structure Ref where
  z : Zip
  hist : List (List Byte)   -- remembered lines, most recent first (always `depth` entries, empty lines at first)
  browse : Nat              -- 0: editing a new line; k: showing the k-th most recent line
  esc : RState              -- key decoder: normal / after ESC / after ESC [ / after ESC [ 3
  prev : Byte               -- previous byte (0 after the swallowed half of a CR LF pair)
deriving DecidableEq, Repr

namespace Ref

def init (depth : Nat) : Ref := ⟨Zip.empty, List.replicate depth [], 0, .normal, 0⟩

/-- start a new line (after Enter, after Ctrl-C) -/
def fresh (r : Ref) : Ref := { r with z := Zip.empty, browse := 0, esc := .normal }

/-- Enter: the line is accepted; it is remembered unless empty or equal to the
most recent remembered line; the oldest remembered line is dropped -/
def remember (hist : List (List Byte)) (l : List Byte) : List (List Byte) :=
  if l ≠ [] ∧ hist.head? ≠ some l then (cstr l :: hist).dropLast else hist

/-- one byte at the readline level (Ctrl-C is an ordinary character here).
Second component: the line accepted by this byte, if any. -/
def rlKey (cap : Nat) (r : Ref) (c : Byte) : Ref × Option (List Byte) :=
  match r.esc with
  | .escseq => ({ r with esc := if c = 0x5b then .move else .normal, prev := c }, none)
  | .wait7e => ({ r with esc := .normal, prev := c }, none)
  | .move =>
    if c = 0x41 then        -- Up: one line further back, if there is one
      if r.browse < r.hist.length then
        ({ r with z := ⟨r.hist.getD r.browse [], []⟩, browse := r.browse + 1, esc := .normal, prev := c }, none)
      else ({ r with esc := .normal, prev := c }, none)
    else if c = 0x42 then   -- Down: one line forward; past the newest: the empty line
      if r.browse = 0 then ({ r with esc := .normal, prev := c }, none)
      else if r.browse = 1 then
        ({ r with z := Zip.empty, browse := 0, esc := .normal, prev := c }, none)
      else
        ({ r with z := ⟨r.hist.getD (r.browse - 2) [], []⟩, browse := r.browse - 1, esc := .normal, prev := c }, none)
    else if c = 0x43 then ({ r with z := r.z.moveRight.1, esc := .normal, prev := c }, none)
    else if c = 0x44 then ({ r with z := r.z.moveLeft.1, esc := .normal, prev := c }, none)
    else if c = 0x33 then ({ r with z := (r.z.delete 1).1, esc := .wait7e, prev := c }, none)
    else ({ r with esc := .normal, prev := c }, none)
  | .normal =>
    if c = CR ∨ c = LF then
      if (r.prev = LF ∨ r.prev = CR) ∧ r.prev ≠ c then ({ r with prev := 0 }, none)
      else ({ r with hist := remember r.hist r.z.line, browse := 0, prev := c }, some r.z.line)
    else if c = BS then ({ r with z := (r.z.backspace 1).1, prev := c }, none)
    else if c = ESC then ({ r with esc := .escseq, prev := c }, none)
    else ({ r with z := (r.z.putchar cap c).1, prev := c }, none)

/-- one byte at the terminal: Ctrl-C aborts the line (and a half-typed escape
sequence); an accepted line is handed to execute and a new line begins -/
def key (cap : Nat) (r : Ref) (c : Byte) : Ref × List Ev :=
  if c = ETX then (r.fresh, [.sigint])
  else
    let t := r.rlKey cap c
    match t.2 with
    | some l => (t.1.fresh, [.exec l])
    | none => (t.1, [])

def run (cap : Nat) (r : Ref) (ks : List Byte) : Ref := ks.foldl (fun r c => (r.key cap c).1) r

/-- everything the callbacks see while the keys are typed -/
def events (cap : Nat) : Ref → List Byte → List Ev
  | _, [] => []
  | r, c :: cs => (r.key cap c).2 ++ events cap (r.key cap c).1 cs

end Ref

/-! ## what the screen should show -/

/-- bytes a terminal can show and this editor can echo faithfully: printable
ASCII, or one of the control keys the automaton handles itself -/
def screenKey (c : Byte) : Bool :=
  Screen.isPrintable c || decide (c = BS ∨ c = CR ∨ c = LF ∨ c = ESC ∨ c = ETX)

end Igris.C15
