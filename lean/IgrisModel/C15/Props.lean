/-
  C15 — PROPERTY THEOREMS: line editor (sline), readline automaton with
  history, terminal automaton (vterm) and the VT100 screen it drives.

  "For every byte sequence typed at the terminal automaton (printable
  characters, backspace, ESC-[ arrows, delete, CR/LF in any pairing, Ctrl-C,
  unknown escapes) the line handed to the execute callback equals the line a
  reference editor with the same key semantics and capacity produces, history
  recall returns the previously entered lines in order, and the echoed output
  drives a VT100 screen model to show the same line and cursor.  The edit
  buffer, cursor and history never leave their bounds (0 <= cursor <= length <
  capacity) and no write lands outside the line or history buffers, including
  for the bulk-insert and NUL-terminating accessors."

  Model: IgrisModel/C15/Model.lean (the code after the five `fix:` commits of
  branch fix-C15).  Reference: IgrisModel/C15/Spec.lean (a zipper with a
  capacity, a list of remembered lines, a key decoder).
-/
import IgrisModel.C15.Lemmas6
namespace Igris.C15
open Igris.Proto

/-! ### the edit buffer (struct sline / igris::sline), any history of API calls -/

/-- Bounds and memory safety of the edit buffer, for EVERY history of API calls
(putchar, bulk insert `sline_newdata` with data of any length, backspace /
delete by any count, left, right, reset, the NUL-terminating `sline_getline`)
and every capacity ≥ 1: `0 ≤ cursor ≤ length < capacity`, the object still
describes the buffer it was given, and no store, memmove or memcpy left that
buffer (`fault = false`: every access of the model is index-checked). -/
theorem sline_inv (cap : Nat) (hcap : 1 ≤ cap) (ops : List SOp) :
    ((Sline.init cap).runOps ops).cursor ≤ ((Sline.init cap).runOps ops).len ∧
    ((Sline.init cap).runOps ops).len < cap ∧
    ((Sline.init cap).runOps ops).cap = cap ∧
    ((Sline.init cap).runOps ops).buf.length = cap ∧
    ((Sline.init cap).runOps ops).fault = false := by
  obtain ⟨h, hc, _⟩ := runOps_ok (Sline.init cap) (init_ok cap hcap) ops
  have hc' : ((Sline.init cap).runOps ops).cap = cap := hc
  refine ⟨h.cur, ?_, hc', by rw [h.blen, hc'], h.nofault⟩
  have := h.room; omega

/-- non-vacuity / the bound is tight: a bulk insert longer than the buffer fills
it to `cap - 1` and `sline_getline` then writes the terminator at `cap - 1` -/
example : ((Sline.init 4).runOps [.newdata [1, 2, 3, 4, 5, 6], .getline]).len = 3 ∧
    ((Sline.init 4).runOps [.newdata [1, 2, 3, 4, 5, 6], .getline]).buf = [1, 2, 3, 0] := by decide

/-- The edit buffer refines the zipper: after every history of API calls the
characters left / right of the cursor are exactly those of the reference
zipper driven by the same calls; in particular the line handed out by
`sline_getline` / `(data, size)` is the reference line and the cursor is at
the reference position. -/
theorem sline_refines_zipper (cap : Nat) (hcap : 1 ≤ cap) (ops : List SOp) :
    ((Sline.init cap).runOps ops).toZip = Zip.empty.runOps cap ops ∧
    ((Sline.init cap).runOps ops).text = (Zip.empty.runOps cap ops).line ∧
    ((Sline.init cap).runOps ops).cursor = (Zip.empty.runOps cap ops).left.length := by
  obtain ⟨h, _, hz⟩ := runOps_ok (Sline.init cap) (init_ok cap hcap) ops
  rw [init_toZip] at hz
  have hz' : ((Sline.init cap).runOps ops).toZip = Zip.empty.runOps cap ops := hz
  refine ⟨hz', ?_, ?_⟩
  · rw [← hz', toZip_line _ h]
  · rw [← hz', toZip_left_length _ h]

/-- ... and every call returns what the reference returns (characters stored,
removed, cursor moved) -/
theorem sline_returns (cap : Nat) (hcap : 1 ≤ cap) (ops : List SOp) (o : SOp) :
    (((Sline.init cap).runOps ops).apply o).2 = ((Zip.empty.runOps cap ops).apply cap o).2 := by
  obtain ⟨h, hc, hz⟩ := runOps_ok (Sline.init cap) (init_ok cap hcap) ops
  obtain ⟨_, _, _, hr⟩ := apply_ok _ h o
  rw [hr, hz, hc, init_toZip]
  rfl

/-! ### the terminal automaton (vterm_automate / igris::vtermxx), any key sequence

`cxx = false` is `vterm_automate_newdata` (vterm.c), `cxx = true` is
`igris::vtermxx::newdata` (returns right after the execute callback; the line
is reset and the prompt printed at the start of the next call).  History depth
`1 ≤ depth ≤ 255` (`uint8_t history_size`). -/

/-- Bounds and memory safety of the whole terminal, for EVERY byte sequence,
capacity ≥ 1, history depth 1..255, both variants, any prompt:
`0 ≤ cursor ≤ length < capacity`; the history indices stay inside the ring
(`headhist < depth`, `curhist ≤ depth`); and no store / memmove / memcpy /
memset / strlen of the edit buffer or of history_space left its object
(`faulted = false`: every access of the model is index-checked against the
exactly sized buffer, including the terminator written by `sline_getline` for
the execute callback and the `memcpy + '\0'` of the history push). -/
theorem vterm_safe (cap depth : Nat) (hcap : 1 ≤ cap) (hd : 1 ≤ depth) (cxx : Bool)
    (prompt : List Byte) (keys : List Byte) :
    let v := (Vterm.init cap depth cxx prompt).run keys
    v.rl.faulted = false ∧ v.rl.line.cursor ≤ v.rl.line.len ∧ v.rl.line.len < cap ∧
    v.rl.line.buf.length = cap ∧ v.rl.hist.length = cap * depth ∧ v.rl.headhist < depth ∧ v.rl.curhist ≤ depth := by
  exact safe_of_sim cap depth _ _ (run_sim cap depth hd _ _ keys (init_sim cap depth hcap hd cxx prompt))

/-- THE LINE HANDED TO EXECUTE.  For every byte sequence typed at the terminal
(any bytes: printable, BS, ESC-[ arrows, ESC-[-3-~, CR/LF in any pairing,
Ctrl-C, unknown escapes, anything else), the sequence of callback events —
every `execute(line)` with its line, every SIGINT, in order — is exactly the
sequence the reference editor produces. -/
theorem readline_line (cap depth : Nat) (hcap : 1 ≤ cap) (hd : 1 ≤ depth) (cxx : Bool)
    (prompt : List Byte) (keys : List Byte) :
    (Vterm.init cap depth cxx prompt).events keys = (Ref.init depth).events cap keys :=
  events_sim cap depth hd _ _ keys (init_sim cap depth hcap hd cxx prompt)

/-- ... and between the events the edit buffer and the cursor are the reference
editor's: after every key sequence the line the next call works on (`nrl`: the
buffer itself in state 2, the freshly reset buffer while the reset after Enter
is still pending) holds the reference line with the cursor at the reference
position, is browsing the same history entry and is in the same place of an
escape sequence. -/
theorem vterm_refines_editor (cap depth : Nat) (hcap : 1 ≤ cap) (hd : 1 ≤ depth) (cxx : Bool)
    (prompt : List Byte) (keys : List Byte) :
    let v := (Vterm.init cap depth cxx prompt).run keys
    let r := (Ref.init depth).run cap keys
    v.nrl.line.text = r.z.line ∧ v.nrl.line.cursor = r.z.left.length ∧ v.nrl.curhist = r.browse ∧
    v.nrl.state = r.esc := by
  exact editor_of_sim cap depth _ _ (run_sim cap depth hd _ _ keys (init_sim cap depth hcap hd cxx prompt))

/-- WHAT THE RETURN CODES MEAN.  In every reachable state of the terminal's
readline (after any key sequence) the code `readline_putchar` answers to the
next byte classifies the reference editor's transition: ECHOCHAR = `c` was
inserted at the cursor; BACKSPACE / DELETE = the character before / at the
cursor was removed; LEFT / RIGHT = the cursor moved; UPDATELINE = another
history line was loaded (cursor at its end, `lastsize` = the old cursor);
NOTHING / OVERFLOW = the line is unchanged; NEWLINE = the line is unchanged and
accepted — and NEWLINE is answered exactly when the reference accepts a line. -/
theorem readline_codes (cap depth : Nat) (hcap : 1 ≤ cap) (hd : 1 ≤ depth) (cxx : Bool)
    (prompt : List Byte) (keys : List Byte) (c : Byte) :
    let rl := ((Vterm.init cap depth cxx prompt).run keys).nrl
    let r := (Ref.init depth).run cap keys
    EchoRel c (rl.putchar c).2 (rl.putchar c).1.lastsize r.z (r.rlKey cap c).1.z ∧
    ((rl.putchar c).2 = RL_NEWLINE → (r.rlKey cap c).2 = some r.z.line) ∧
    ((rl.putchar c).2 ≠ RL_NEWLINE → (r.rlKey cap c).2 = none) := by
  have h := run_sim cap depth hd _ _ keys (init_sim cap depth hcap hd cxx prompt)
  exact (rstep cap depth hd _ _ c h.sim).2

/-! ### history recall -/

/-- HISTORY RECALL RETURNS THE ENTERED LINES IN ORDER.  Enter `n` lines (each
non-empty, fitting the buffer, made of ordinary characters, each different
from the one before it), then press Up `k` times, `1 ≤ k ≤ min n depth`: the
edit buffer holds the `k`-th most recent line with the cursor at its end, the
terminal is browsing entry `k`.  (All ring indices stay `< depth` and all ring
writes inside history_space: `vterm_safe`.) -/
theorem history_recall (cap depth : Nat) (hcap : 1 ≤ cap) (hd : 1 ≤ depth) (cxx : Bool)
    (prompt : List Byte) (ls : List (List Byte)) (k : Nat)
    (hl : ∀ l ∈ ls, l ≠ [] ∧ l.length + 1 ≤ cap ∧ ∀ c ∈ l, plain c) (hdist : ConsecDistinct ls)
    (hk1 : 1 ≤ k) (hk : k ≤ ls.length) (hkd : k ≤ depth) :
    let v := (Vterm.init cap depth cxx prompt).run (ls.flatMap (· ++ [CR]) ++ (List.replicate k UP).flatten)
    v.rl.line.text = ls.reverse.getD (k - 1) [] ∧
    v.rl.line.cursor = (ls.reverse.getD (k - 1) []).length ∧
    v.rl.curhist = k := by
  have hr := ref_recall cap depth hd ls k hl hdist hk1 hk hkd
  rw [ups_snoc k hk1, ← List.append_assoc] at hr ⊢
  obtain ⟨_, t1, t2, t3⟩ := recall_transfer cap depth hd _ _ (init_sim cap depth hcap hd cxx prompt) _ 0x41
    (by decide) _ hr.1
  exact ⟨t1, t2, by rw [t3, hr.2]⟩

/-- non-vacuity: three lines, history depth 2, Up twice shows the second most recent -/
example :
    ((Vterm.init 4 2 false).run
      ([[0x61], [0x62, 0x63], [0x64]].flatMap (· ++ [CR]) ++ (List.replicate 2 UP).flatten)).rl.line.text = [0x62, 0x63] ∧
    ((Vterm.init 4 2 false).run
      ([[0x61], [0x62, 0x63], [0x64]].flatMap (· ++ [CR]) ++ (List.replicate 2 UP).flatten)).rl.curhist = 2 := by
  decide

/-! ### the echoed output on a VT100 screen -/

/-- THE SCREEN SHOWS THE LINE AND THE CURSOR.  Feed every byte the terminal
passes to the write callback, from the very first call on, to the one-row VT100
screen model (`Screen`: printable, CR, LF, ESC[nD, ESC[nC, ESC[K; column
clamped at 0).  For every key sequence made of keys a terminal can show
(printable ASCII, BS, CR, LF, ESC, Ctrl-C — in any order, so every escape
sequence, complete or not), every printable prompt, capacity ≥ 1, depth
1..255, both variants: after every key
  * in state 2 (always, for vterm.c, once a key was typed — `screen_matches_c`)
    the row is exactly  prompt ++ line  and the cursor column is
    |prompt| + cursor, the screen's escape parser is in its ground state;
  * while igris::vtermxx still owes the prompt after Enter (state 1) — and
    before the first call (state 0) — the row is blank, cursor in column 0. -/
theorem screen_matches (cap depth : Nat) (hcap : 1 ≤ cap) (hd : 1 ≤ depth) (cxx : Bool)
    (prompt : List Byte) (keys : List Byte) (hP : AllP prompt) (hk : ∀ k ∈ keys, screenKey k = true) :
    let v0 := Vterm.init cap depth cxx prompt
    let v := v0.run keys
    let scr := Screen.blank.feed (v0.echoed keys)
    (v.state = 2 → scr = ⟨prompt ++ v.rl.line.text, prompt.length + v.rl.line.cursor, .ground⟩) ∧
    (v.state ≠ 2 → scr = ⟨[], 0, .ground⟩) := by
  have h0 := init_sim cap depth hcap hd cxx prompt
  obtain ⟨s1, s2⟩ := screen_run cap depth hd (Vterm.init cap depth cxx prompt) (Ref.init depth) Screen.blank keys
    h0 (refP_init depth) rfl hP hk (by unfold SInv; rw [if_neg (show ¬ ((Vterm.init cap depth cxx prompt).state = 2) from fun e => by simp [Vterm.init] at e)]; rfl)
  exact screen_of_sim cap depth prompt _ _ _ s2 s1

/-- vterm.c: after every non-empty key sequence the screen shows prompt ++ line
with the cursor at |prompt| + cursor -/
theorem screen_matches_c (cap depth : Nat) (hcap : 1 ≤ cap) (hd : 1 ≤ depth)
    (prompt : List Byte) (keys : List Byte) (hP : AllP prompt) (hk : ∀ k ∈ keys, screenKey k = true)
    (hne : keys ≠ []) :
    Screen.blank.feed ((Vterm.init cap depth false prompt).echoed keys) =
      ⟨prompt ++ ((Vterm.init cap depth false prompt).run keys).rl.line.text,
       prompt.length + ((Vterm.init cap depth false prompt).run keys).rl.line.cursor, .ground⟩ :=
  (screen_matches cap depth hcap hd false prompt keys hP hk).1
    (run_state_c cap depth hd _ _ (init_sim cap depth hcap hd false prompt) rfl keys hne)

/-- non-vacuity, and the two defects repaired in fix-C15 as concrete sessions:
"abc", Left, Left, "x" on a 6-byte line: the row reads "$ axbc", cursor after the x -/
example : Screen.blank.feed ((Vterm.init 6 2 false).echoed [0x61, 0x62, 0x63, ESC, 0x5b, 0x44, ESC, 0x5b, 0x44, 0x78]) =
    ⟨[0x24, 0x20, 0x61, 0x78, 0x62, 0x63], 4, .ground⟩ := by decide

/-- "ab", Enter, Up, Left, Up (recall with the cursor mid-line): the prompt survives -/
example : Screen.blank.feed ((Vterm.init 4 2 false).echoed
      [0x61, 0x62, CR, ESC, 0x5b, 0x41, ESC, 0x5b, 0x44, ESC, 0x5b, 0x41]) = ⟨[0x24, 0x20], 2, .ground⟩ := by decide

/-- The hypothesis on the keys is needed: a byte a terminal cannot show (TAB) is
stored in the line and echoed, and the screen model ignores it — the row then
differs from prompt ++ line.  (Recorded as the limit of the screen clause, not
as a defect: the line handed to execute is still the reference line.) -/
theorem screen_matches_witness_unprintable :
    Screen.blank.feed ((Vterm.init 4 1 false).echoed [0x09]) ≠
      ⟨[0x24, 0x20] ++ ((Vterm.init 4 1 false).run [0x09]).rl.line.text,
       2 + ((Vterm.init 4 1 false).run [0x09]).rl.line.cursor, .ground⟩ := by decide

/-! ### the usual way to start: `vterm_automate_init_step` first -/

/-- The same guarantees when the session starts with the init step (prompt
printed before the first key, as igris' own test and the harness do): events
equal the reference editor's, memory safety and bounds, and the screen —
fed the init step's output and then every echoed byte — shows prompt ++ line
with the cursor at |prompt| + cursor whenever the terminal is in state 2
(blank row while vtermxx owes the prompt after Enter). -/
theorem init_step_session (cap depth : Nat) (hcap : 1 ≤ cap) (hd : 1 ≤ depth) (cxx : Bool)
    (prompt : List Byte) (keys : List Byte) :
    let v0 := (Vterm.init cap depth cxx prompt).initStep.1
    v0.events keys = (Ref.init depth).events cap keys ∧
    ((v0.run keys).rl.faulted = false ∧ (v0.run keys).rl.line.cursor ≤ (v0.run keys).rl.line.len ∧
      (v0.run keys).rl.line.len < cap) ∧
    (AllP prompt → (∀ k ∈ keys, screenKey k = true) →
      ((v0.run keys).state = 2 →
        Screen.blank.feed ((Vterm.init cap depth cxx prompt).initStep.2 ++ v0.echoed keys) =
          ⟨prompt ++ (v0.run keys).rl.line.text, prompt.length + (v0.run keys).rl.line.cursor, .ground⟩) ∧
      ((v0.run keys).state ≠ 2 →
        Screen.blank.feed ((Vterm.init cap depth cxx prompt).initStep.2 ++ v0.echoed keys) = ⟨[], 0, .ground⟩)) := by
  have h0 := init_sim cap depth hcap hd cxx prompt
  obtain ⟨i1, i2, i3, i4, _, i6⟩ := initStep_sim cap depth _ _ h0 (by simp [Vterm.init])
  refine ⟨events_sim cap depth hd _ _ keys i1, ?_, ?_⟩
  · have := safe_of_sim cap depth _ _ (run_sim cap depth hd _ _ keys i1)
    exact ⟨this.1, this.2.1, this.2.2.1⟩
  · intro hP hk
    have hp0 : (Vterm.init cap depth cxx prompt).initStep.1.prompt = prompt := i4
    have he0 : (Vterm.init cap depth cxx prompt).initStep.1.echo = true := i3
    have hout : (Vterm.init cap depth cxx prompt).initStep.2 = prompt := by rw [i6]; rfl
    have hs0 : SInv (Vterm.init cap depth cxx prompt).initStep.1.prompt (Vterm.init cap depth cxx prompt).initStep.1
        (Screen.blank.feed prompt) (Ref.init depth) := by
      unfold SInv
      rw [if_pos i2, hp0]
      exact showing_empty prompt hP
    obtain ⟨s1, s2⟩ := screen_run cap depth hd _ _ _ keys i1 (refP_init depth) he0 (by rw [hp0]; exact hP) hk hs0
    rw [hp0] at s1
    rw [hout, Screen.feed_append]
    exact screen_of_sim cap depth prompt _ _ _ s2 s1

end Igris.C15
