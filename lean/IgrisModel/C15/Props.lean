/-
  C15 — PROPERTY THEOREMS: line editor (sline), readline automaton with
  history, terminal automaton (vterm) and the VT100 screen it drives.

  "For every byte sequence typed at the terminal automaton (printable
  characters, backspace, ESC-[ arrows, delete, CR/LF in any pairing, Ctrl-C,
  unknown escapes) the line handed to the execute callback equals the line a
  reference editor with the same key semantics and capacity produces, history
  recall returns the previously entered lines in order, and the echoed output
  drives a VT100 screen model to show the same line and cursor.  The edit
  buffer, cursor and history never leave their bounds (0 <= cursor <= length <
  capacity) and no write lands outside the line or history buffers, including
  for the bulk-insert and NUL-terminating accessors."

  Model: IgrisModel/C15/Model.lean (the code after the eight `fix:` commits of
  branch fix-C15).  Reference: IgrisModel/C15/Spec.lean (a zipper with a
  capacity, a list of remembered lines, a key decoder).
-/
import IgrisModel.C15.Lemmas9
import IgrisModel.C15.Lemmas10
import IgrisModel.C15.Lemmas11
import IgrisModel.C15.Lemmas12
import IgrisModel.C15.Lemmas13
namespace Igris.C15
open Igris.Proto

/-! ### the edit buffer (struct sline / igris::sline), any history of API calls -/

/-- Bounds and memory safety of the edit buffer, for EVERY history of API calls
(putchar, bulk insert `sline_newdata` with data of any length, backspace /
delete by any count, left, right, reset, the NUL-terminating `sline_getline`)
and every capacity ≥ 1: `0 ≤ cursor ≤ length < capacity`, the object still
describes the buffer it was given, and no store, memmove or memcpy left that
buffer (`fault = false`: every access of the model is index-checked). -/
theorem sline_inv (cap : Nat) (hcap : 1 ≤ cap) (ops : List SOp) :
    ((Sline.init cap).runOps ops).cursor ≤ ((Sline.init cap).runOps ops).len ∧
    ((Sline.init cap).runOps ops).len < cap ∧
    ((Sline.init cap).runOps ops).cap = cap ∧
    ((Sline.init cap).runOps ops).buf.length = cap ∧
    ((Sline.init cap).runOps ops).fault = false := by
  obtain ⟨h, hc, _⟩ := runOps_ok (Sline.init cap) (init_ok cap hcap) ops
  have hc' : ((Sline.init cap).runOps ops).cap = cap := hc
  refine ⟨h.cur, ?_, hc', by rw [h.blen, hc'], h.nofault⟩
  have := h.room; omega

/-- non-vacuity / the bound is tight: a bulk insert longer than the buffer fills
it to `cap - 1` and `sline_getline` then writes the terminator at `cap - 1` -/
example : ((Sline.init 4).runOps [.newdata [1, 2, 3, 4, 5, 6], .getline]).len = 3 ∧
    ((Sline.init 4).runOps [.newdata [1, 2, 3, 4, 5, 6], .getline]).buf = [1, 2, 3, 0] := by decide

/-- The edit buffer refines the zipper: after every history of API calls the
characters left / right of the cursor are exactly those of the reference
zipper driven by the same calls; in particular the line handed out by
`sline_getline` / `(data, size)` is the reference line and the cursor is at
the reference position. -/
theorem sline_refines_zipper (cap : Nat) (hcap : 1 ≤ cap) (ops : List SOp) :
    ((Sline.init cap).runOps ops).toZip = Zip.empty.runOps cap ops ∧
    ((Sline.init cap).runOps ops).text = (Zip.empty.runOps cap ops).line ∧
    ((Sline.init cap).runOps ops).cursor = (Zip.empty.runOps cap ops).left.length := by
  obtain ⟨h, _, hz⟩ := runOps_ok (Sline.init cap) (init_ok cap hcap) ops
  rw [init_toZip] at hz
  have hz' : ((Sline.init cap).runOps ops).toZip = Zip.empty.runOps cap ops := hz
  refine ⟨hz', ?_, ?_⟩
  · rw [← hz', toZip_line _ h]
  · rw [← hz', toZip_left_length _ h]

/-- ... and every call returns what the reference returns (characters stored,
removed, cursor moved) -/
theorem sline_returns (cap : Nat) (hcap : 1 ≤ cap) (ops : List SOp) (o : SOp) :
    (((Sline.init cap).runOps ops).apply o).2 = ((Zip.empty.runOps cap ops).apply cap o).2 := by
  obtain ⟨h, hc, hz⟩ := runOps_ok (Sline.init cap) (init_ok cap hcap) ops
  obtain ⟨_, _, _, hr⟩ := apply_ok _ h o
  rw [hr, hz, hc, init_toZip]
  rfl

/-! ### the terminal automaton (vterm_automate / igris::vtermxx), any key sequence

`cxx = false` is `vterm_automate_newdata` (vterm.c), `cxx = true` is
`igris::vtermxx::newdata` (returns right after the execute callback; the line
is reset and the prompt printed at the start of the next call).  EVERY history
depth ≥ 1 (the ring indices are `unsigned int` since fix a01b0b4; with the
original `uint8_t` fields depth 256 divided by zero, see corpus/C15/fixed.ops). -/

/-- Bounds and memory safety of the whole terminal, for EVERY byte sequence,
capacity ≥ 1, every history depth ≥ 1, both variants, any prompt:
`0 ≤ cursor ≤ length < capacity`; the history indices stay inside the ring
(`headhist < depth`, `curhist ≤ depth`); and no store / memmove / memcpy /
memset / strlen of the edit buffer or of history_space left its object
(`faulted = false`: every access of the model is index-checked against the
exactly sized buffer, including the terminator written by `sline_getline` for
the execute callback and the `memcpy + '\0'` of the history push). -/
theorem vterm_safe (cap depth : Nat) (hcap : 1 ≤ cap) (hd : 1 ≤ depth) (cxx : Bool)
    (prompt : List Byte) (keys : List Byte) :
    let v := (Vterm.init cap depth cxx prompt).run keys
    v.rl.faulted = false ∧ v.rl.line.cursor ≤ v.rl.line.len ∧ v.rl.line.len < cap ∧
    v.rl.line.buf.length = cap ∧ v.rl.hist.length = cap * depth ∧ v.rl.headhist < depth ∧ v.rl.curhist ≤ depth := by
  exact safe_of_sim cap depth _ _ (run_sim cap depth hd _ _ keys (init_sim cap depth hcap hd cxx prompt))

/-- THE LINE HANDED TO EXECUTE.  For every byte sequence typed at the terminal
(any bytes: printable, BS, ESC-[ arrows, ESC-[-3-~, CR/LF in any pairing,
Ctrl-C, unknown escapes, anything else), the sequence of callback events —
every `execute(line)` with its line, every SIGINT, in order — is exactly the
sequence the reference editor produces. -/
theorem readline_line (cap depth : Nat) (hcap : 1 ≤ cap) (hd : 1 ≤ depth) (cxx : Bool)
    (prompt : List Byte) (keys : List Byte) :
    (Vterm.init cap depth cxx prompt).events keys = (Ref.init depth).events cap keys :=
  events_sim cap depth hd _ _ keys (init_sim cap depth hcap hd cxx prompt)

/-- ... and between the events the edit buffer and the cursor are the reference
editor's: after every key sequence the line the next call works on (`nrl`: the
buffer itself in state 2, the freshly reset buffer while the reset after Enter
is still pending) holds the reference line with the cursor at the reference
position, is browsing the same history entry and is in the same place of an
escape sequence. -/
theorem vterm_refines_editor (cap depth : Nat) (hcap : 1 ≤ cap) (hd : 1 ≤ depth) (cxx : Bool)
    (prompt : List Byte) (keys : List Byte) :
    let v := (Vterm.init cap depth cxx prompt).run keys
    let r := (Ref.init depth).run cap keys
    v.nrl.line.text = r.z.line ∧ v.nrl.line.cursor = r.z.left.length ∧ v.nrl.curhist = r.browse ∧
    v.nrl.state = r.esc := by
  exact editor_of_sim cap depth _ _ (run_sim cap depth hd _ _ keys (init_sim cap depth hcap hd cxx prompt))

/-- WHAT THE RETURN CODES MEAN.  In every reachable state of the terminal's
readline (after any key sequence) the code `readline_putchar` answers to the
next byte classifies the reference editor's transition: ECHOCHAR = `c` was
inserted at the cursor; BACKSPACE / DELETE = the character before / at the
cursor was removed; LEFT / RIGHT = the cursor moved; UPDATELINE = another
history line was loaded (cursor at its end, `lastsize` = the old cursor);
NOTHING / OVERFLOW = the line is unchanged; NEWLINE = the line is unchanged and
accepted — and NEWLINE is answered exactly when the reference accepts a line. -/
theorem readline_codes (cap depth : Nat) (hcap : 1 ≤ cap) (hd : 1 ≤ depth) (cxx : Bool)
    (prompt : List Byte) (keys : List Byte) (c : Byte) :
    let rl := ((Vterm.init cap depth cxx prompt).run keys).nrl
    let r := (Ref.init depth).run cap keys
    EchoRel c (rl.putchar c).2 (rl.putchar c).1.lastsize r.z (r.rlKey cap c).1.z ∧
    ((rl.putchar c).2 = RL_NEWLINE → (r.rlKey cap c).2 = some r.z.line) ∧
    ((rl.putchar c).2 ≠ RL_NEWLINE → (r.rlKey cap c).2 = none) := by
  have h := run_sim cap depth hd _ _ keys (init_sim cap depth hcap hd cxx prompt)
  exact (rstep cap depth hd _ _ c h.sim).2

/-! ### history recall -/

/-- HISTORY RECALL RETURNS THE ENTERED LINES IN ORDER.  Enter `n` lines (each
non-empty, fitting the buffer, made of ordinary characters, each different
from the one before it), then press Up `k` times, `1 ≤ k ≤ min n depth`: the
edit buffer holds the `k`-th most recent line with the cursor at its end, the
terminal is browsing entry `k`.  (All ring indices stay `< depth` and all ring
writes inside history_space: `vterm_safe`.) -/
theorem history_recall (cap depth : Nat) (hcap : 1 ≤ cap) (hd : 1 ≤ depth) (cxx : Bool)
    (prompt : List Byte) (ls : List (List Byte)) (k : Nat)
    (hl : ∀ l ∈ ls, l ≠ [] ∧ l.length + 1 ≤ cap ∧ ∀ c ∈ l, plain c) (hdist : ConsecDistinct ls)
    (hk1 : 1 ≤ k) (hk : k ≤ ls.length) (hkd : k ≤ depth) :
    let v := (Vterm.init cap depth cxx prompt).run (ls.flatMap (· ++ [CR]) ++ (List.replicate k UP).flatten)
    v.rl.line.text = ls.reverse.getD (k - 1) [] ∧
    v.rl.line.cursor = (ls.reverse.getD (k - 1) []).length ∧
    v.rl.curhist = k := by
  have hr := ref_recall cap depth hd ls k hl hdist hk1 hk hkd
  rw [ups_snoc k hk1, ← List.append_assoc] at hr ⊢
  obtain ⟨_, t1, t2, t3⟩ := recall_transfer cap depth hd _ _ (init_sim cap depth hcap hd cxx prompt) _ 0x41
    (by decide) _ hr.1
  exact ⟨t1, t2, by rw [t3, hr.2]⟩

/-- non-vacuity: three lines, history depth 2, Up twice shows the second most recent -/
example :
    ((Vterm.init 4 2 false).run
      ([[0x61], [0x62, 0x63], [0x64]].flatMap (· ++ [CR]) ++ (List.replicate 2 UP).flatten)).rl.line.text = [0x62, 0x63] ∧
    ((Vterm.init 4 2 false).run
      ([[0x61], [0x62, 0x63], [0x64]].flatMap (· ++ [CR]) ++ (List.replicate 2 UP).flatten)).rl.curhist = 2 := by
  decide

/-! ### the echoed output on a VT100 screen -/

/- The clause as the property states it — "the echoed output drives a VT100
screen model to show the same line and cursor" for EVERY byte sequence — does
not hold: a byte a terminal cannot show (TAB, DEL, NUL, ≥ 0x80) is stored and
echoed as it is (`screen_matches_witness_unprintable`).  `_partial` = with the
hypothesis that the keys are printable ASCII or one of the control keys the
automaton handles (every key class the property enumerates), the prompt is
printable, echo is on (echo off: `echo_off_silent`), and the screen is ONE row
of unbounded width: no right margin, no auto-wrap (a real 80-column terminal
does not move up a row on `ESC[nD`; a line crossing the margin is outside this
model). -/

/-- THE SCREEN SHOWS THE LINE AND THE CURSOR.  Feed every byte the terminal
passes to the write callback, from the very first call on, to the one-row VT100
screen model (`Screen`: printable, CR, LF, ESC[nD, ESC[nC, ESC[K; column
clamped at 0).  For every key sequence made of keys a terminal can show
(printable ASCII, BS, CR, LF, ESC, Ctrl-C — in any order, so every escape
sequence, complete or not), every printable prompt, capacity ≥ 1, every depth
≥ 1, both variants: after every key (the statement is for every key sequence,
hence for every prefix of a session)
  * in state 2 (always, for vterm.c, once a key was typed — `screen_matches_c`)
    the row is exactly  prompt ++ line  and the cursor column is
    |prompt| + cursor, the screen's escape parser is in its ground state;
  * while igris::vtermxx still owes the prompt after Enter (state 1) — and
    before the first call (state 0) — the row is blank, cursor in column 0. -/
theorem screen_matches_partial (cap depth : Nat) (hcap : 1 ≤ cap) (hd : 1 ≤ depth) (cxx : Bool)
    (prompt : List Byte) (keys : List Byte) (hP : AllP prompt) (hk : ∀ k ∈ keys, screenKey k = true) :
    let v0 := Vterm.init cap depth cxx prompt
    let v := v0.run keys
    let scr := Screen.blank.feed (v0.echoed keys)
    (v.state = 2 → scr = ⟨prompt ++ v.rl.line.text, prompt.length + v.rl.line.cursor, .ground⟩) ∧
    (v.state ≠ 2 → scr = ⟨[], 0, .ground⟩) := by
  have h0 := init_sim cap depth hcap hd cxx prompt
  obtain ⟨s1, s2⟩ := screen_run cap depth hd (Vterm.init cap depth cxx prompt) (Ref.init depth) Screen.blank keys
    h0 (refP_init depth) rfl hP hk (by unfold SInv; rw [if_neg (show ¬ ((Vterm.init cap depth cxx prompt).state = 2) from fun e => by simp [Vterm.init] at e)]; rfl)
  exact screen_of_sim cap depth prompt _ _ _ s2 s1

/-- vterm.c: after every non-empty key sequence the screen shows prompt ++ line
with the cursor at |prompt| + cursor -/
theorem screen_matches_c_partial (cap depth : Nat) (hcap : 1 ≤ cap) (hd : 1 ≤ depth)
    (prompt : List Byte) (keys : List Byte) (hP : AllP prompt) (hk : ∀ k ∈ keys, screenKey k = true)
    (hne : keys ≠ []) :
    Screen.blank.feed ((Vterm.init cap depth false prompt).echoed keys) =
      ⟨prompt ++ ((Vterm.init cap depth false prompt).run keys).rl.line.text,
       prompt.length + ((Vterm.init cap depth false prompt).run keys).rl.line.cursor, .ground⟩ :=
  (screen_matches_partial cap depth hcap hd false prompt keys hP hk).1
    (run_state_c cap depth hd _ _ (init_sim cap depth hcap hd false prompt) rfl keys hne)

/-- non-vacuity, and the two defects repaired in fix-C15 as concrete sessions:
"abc", Left, Left, "x" on a 6-byte line: the row reads "$ axbc", cursor after the x -/
example : Screen.blank.feed ((Vterm.init 6 2 false).echoed [0x61, 0x62, 0x63, ESC, 0x5b, 0x44, ESC, 0x5b, 0x44, 0x78]) =
    ⟨[0x24, 0x20, 0x61, 0x78, 0x62, 0x63], 4, .ground⟩ := by decide

/-- "ab", Enter, Up, Left, Up (recall with the cursor mid-line): the prompt survives -/
example : Screen.blank.feed ((Vterm.init 4 2 false).echoed
      [0x61, 0x62, CR, ESC, 0x5b, 0x41, ESC, 0x5b, 0x44, ESC, 0x5b, 0x41]) = ⟨[0x24, 0x20], 2, .ground⟩ := by decide

/-- The hypothesis on the keys is needed: a byte a terminal cannot show (TAB) is
stored in the line and echoed, and the screen model ignores it — the row then
differs from prompt ++ line.  (Recorded as the limit of the screen clause, not
as a defect: the line handed to execute is still the reference line.) -/
theorem screen_matches_witness :
    Screen.blank.feed ((Vterm.init 4 1 false).echoed [0x09]) ≠
      ⟨[0x24, 0x20] ++ ((Vterm.init 4 1 false).run [0x09]).rl.line.text,
       2 + ((Vterm.init 4 1 false).run [0x09]).rl.line.cursor, .ground⟩ := by decide

/-! ### the usual way to start: `vterm_automate_init_step` first -/

/-- The same guarantees when the session starts with the init step (prompt
printed before the first key, as igris' own test and the harness do): events
equal the reference editor's, memory safety and bounds, and the screen —
fed the init step's output and then every echoed byte — shows prompt ++ line
with the cursor at |prompt| + cursor whenever the terminal is in state 2
(blank row while vtermxx owes the prompt after Enter). -/
theorem init_step_session (cap depth : Nat) (hcap : 1 ≤ cap) (hd : 1 ≤ depth) (cxx : Bool)
    (prompt : List Byte) (keys : List Byte) :
    let v0 := (Vterm.init cap depth cxx prompt).initStep.1
    v0.events keys = (Ref.init depth).events cap keys ∧
    ((v0.run keys).rl.faulted = false ∧ (v0.run keys).rl.line.cursor ≤ (v0.run keys).rl.line.len ∧
      (v0.run keys).rl.line.len < cap) ∧
    (AllP prompt → (∀ k ∈ keys, screenKey k = true) →
      ((v0.run keys).state = 2 →
        Screen.blank.feed ((Vterm.init cap depth cxx prompt).initStep.2 ++ v0.echoed keys) =
          ⟨prompt ++ (v0.run keys).rl.line.text, prompt.length + (v0.run keys).rl.line.cursor, .ground⟩) ∧
      ((v0.run keys).state ≠ 2 →
        Screen.blank.feed ((Vterm.init cap depth cxx prompt).initStep.2 ++ v0.echoed keys) = ⟨[], 0, .ground⟩)) := by
  have h0 := init_sim cap depth hcap hd cxx prompt
  obtain ⟨i1, i2, i3, i4, _, i6⟩ := initStep_sim cap depth _ _ h0 (by simp [Vterm.init])
  refine ⟨events_sim cap depth hd _ _ keys i1, ?_, ?_⟩
  · have := safe_of_sim cap depth _ _ (run_sim cap depth hd _ _ keys i1)
    exact ⟨this.1, this.2.1, this.2.2.1⟩
  · intro hP hk
    have hp0 : (Vterm.init cap depth cxx prompt).initStep.1.prompt = prompt := i4
    have he0 : (Vterm.init cap depth cxx prompt).initStep.1.echo = true := i3
    have hout : (Vterm.init cap depth cxx prompt).initStep.2 = prompt := by rw [i6]; rfl
    have hs0 : SInv (Vterm.init cap depth cxx prompt).initStep.1.prompt (Vterm.init cap depth cxx prompt).initStep.1
        (Screen.blank.feed prompt) (Ref.init depth) := by
      unfold SInv
      rw [if_pos i2, hp0]
      exact showing_empty prompt hP
    obtain ⟨s1, s2⟩ := screen_run cap depth hd _ _ _ keys i1 (refP_init depth) he0 (by rw [hp0]; exact hP) hk hs0
    rw [hp0] at s1
    rw [hout, Screen.feed_append]
    exact screen_of_sim cap depth prompt _ _ _ s2 s1

/-! ## Extension: accessors outside the first model, echo off, the automata's
enumerated states, the two implementations as one, history as a list, and an
independent key grammar -/

/-! ### sline: `sline_newdata` with an `int` length, `igris::sline::clear`, `set_size_and_cursor` -/

/-- Bounds and memory safety for histories that ALSO use `sline_newdata(data, n)`
with the `int n` exactly as the caller gives it (negative, zero, a prefix of the
data — after fix 0eeafcf a negative length inserts nothing), `igris::sline::clear`
and the raw setter `set_size_and_cursor(len, cursor)` inside its contract
(`cursor ≤ len < cap`): `0 ≤ cursor ≤ len < cap`, no access left the buffer. -/
theorem sline_inv_ext (cap : Nat) (hcap : 1 ≤ cap) (ops : List SOpX) (hv : ∀ o ∈ ops, o.valid cap) :
    ((Sline.init cap).runOpsX ops).cursor ≤ ((Sline.init cap).runOpsX ops).len ∧
    ((Sline.init cap).runOpsX ops).len < cap ∧
    ((Sline.init cap).runOpsX ops).buf.length = cap ∧
    ((Sline.init cap).runOpsX ops).fault = false := by
  obtain ⟨h, hc⟩ := runOpsX_ok (Sline.init cap) (init_ok cap hcap) ops hv
  have hc' : ((Sline.init cap).runOpsX ops).cap = cap := hc
  have := h.room
  exact ⟨h.cur, by omega, by rw [h.blen, hc'], h.nofault⟩

/-- non-vacuity: a negative length, a raw resize that un-deletes a stale byte, clear -/
example : (Sline.init 4).runOpsX [.base (.putchar 0x61), .newdataI [0x62, 0x63] (-1), .base (.putchar 0x62),
      .base (.backspace 1), .setsc 2 1, .base .getline] = ⟨[0x61, 0x62, 0, 0], 4, 2, 1, false⟩ ∧
    ∀ o ∈ [SOpX.base (.putchar 0x61), .newdataI [0x62, 0x63] (-1), .setsc 2 1, .clear], o.valid 4 := by decide

/-- the contract of the raw setter is needed: `set_size_and_cursor(cap, 0)` and
then `getline` writes `buf[cap]` -/
theorem set_size_and_cursor_witness : ((Sline.init 2).setSizeCursor 2 0).getline.fault = true := by decide

/-- `sline_newdata(data, n)` for any `int n ≤ |data|`, in any reachable state, IS
the bulk insert of the first `max n 0` bytes (so `sline_inv`,
`sline_refines_zipper`, `sline_returns` speak about it) -/
theorem newdata_int_length (cap : Nat) (hcap : 1 ≤ cap) (ops : List SOp) (d : List Byte) (n : Int)
    (hn : n ≤ (d.length : Int)) :
    ((Sline.init cap).runOps ops).newdataI d n =
      ((((Sline.init cap).runOps ops).apply (.newdata (d.take n.toNat))).1,
       (((((Sline.init cap).runOps ops).apply (.newdata (d.take n.toNat))).2 : Nat) : Int)) :=
  newdataI_eq _ (runOps_ok (Sline.init cap) (init_ok cap hcap) ops).1 d n hn

example : ((Sline.init 4).newdataI [0x61, 0x62] (-5)).2 = 0 ∧ ((Sline.init 4).newdataI [0x61, 0x62] 1).1.text = [0x61] := by
  decide

/-- capacity 0 (finding C15-capacity-zero), what is left of it after the two
repairs of the sline half (fix bd7ecca: `sline_putchar` refuses; round 3:
`sline_getline` writes no terminator without a buffer — `sline_any_capacity`
below): a READLINE over a 0-byte line buffer still reads `history_space[0]` of a
0-byte history on the first Up (`strlen` of an empty object). -/
theorem capacity_zero_witness :
    ((((Readline.init 0 1).putchar ESC).1.putchar 0x5b).1.putchar 0x41).1.faulted = true := by decide

/-! ### readline_linecpy -/

/-- `readline_linecpy(rl, line, maxlen)` after ANY key sequence, for a destination
of at least `maxlen` bytes: it returns `n = min(len, maxlen - 1)`, the
destination holds the first `n` characters of the line, a terminator at `[n]`,
and is untouched behind it (so at most `maxlen` bytes are written); no access
leaves the destination or the edit buffer.  `maxlen = 0` writes nothing and
returns 0 (fix 4135e3f; before: `memcpy` of SIZE_MAX bytes). -/
theorem linecpy_bounded (cap depth : Nat) (hcap : 1 ≤ cap) (hd : 1 ≤ depth) (cxx : Bool) (prompt : List Byte)
    (keys : List Byte) (dst : List Byte) (maxlen : Nat) (hm : maxlen ≤ dst.length) :
    let rl := ((Vterm.init cap depth cxx prompt).run keys).rl
    let n := min rl.line.len (maxlen - 1)
    (1 ≤ maxlen → rl.linecpy dst maxlen = (rl.line.text.take n ++ [0] ++ dst.drop (n + 1), (n : Int), false) ∧
      (rl.line.text.take n ++ [0] ++ dst.drop (n + 1)).length = dst.length) ∧
    (maxlen = 0 → rl.linecpy dst maxlen = (dst, 0, false)) := by
  intro rl n
  have hs := run_sim cap depth hd _ _ keys (init_sim cap depth hcap hd cxx prompt)
  have hL : SlineOK rl.line := hs.rawOK
  constructor
  · intro h1
    refine ⟨linecpy_ok rl hL dst maxlen h1 hm, ?_⟩
    have hl : rl.line.text.length = rl.line.len := text_length _ hL
    simp only [List.length_append, List.length_take, List.length_drop, List.length_singleton, hl]
    omega
  · intro h0
    subst h0
    rfl

example : (((Vterm.init 8 1 false).run [0x61, 0x62, 0x63]).rl.linecpy [9, 9, 9, 9] 3) = ([0x61, 0x62, 0, 9], 2, false) := by
  decide

/-! ### the `default:` branches of the automata are dead -/

/-- Between calls the terminal automaton is in one of its enumerated states
0, 1, 2 — for EVERY capacity, depth, variant, prompt, key sequence (no
hypothesis at all): the outer `default:` branch (`state = 0; return`,
vterm.c 223–227, vtermxx.cpp 202–206; `key_default_branch`) is never taken.
The readline's escape state is an enumeration in the model (`RState`): every
assignment to `state` in readline.h / readlinexx.h stores one of the four
constants, so its `default:` (readline.h 297–301, readlinexx.h 310–314) is
dead by construction; the harness checks `state ∈ {0..3}` and `= ` the
reference decoder's after every key. -/
theorem automaton_states_enumerated (cap depth : Nat) (cxx : Bool) (prompt : List Byte) (keys : List Byte) :
    let v := (Vterm.init cap depth cxx prompt).run keys
    (v.state = 0 ∨ v.state = 1 ∨ v.state = 2) ∧
    ∀ c, v.key c ≠ ({ v with state := 0 }, [], []) ∨ v.state = 0 := by
  intro v
  have h := run_st012 (Vterm.init cap depth cxx prompt) keys (Or.inl rfl)
  refine ⟨h, fun c => ?_⟩
  by_cases h0 : v.state = 0
  · exact Or.inr h0
  · left
    intro e
    have := key_st012 v c h
    rw [e] at this
    simp at this

/-! ### echo off -/

/-- ECHO OFF.  With `echo = 0` the write callback is never used — not for the
prompt, not for CR LF, not for `^C` — and everything else is as with echo on:
the same callback events (hence, by `readline_line`, the reference editor's
lines), the same line, cursor, history and automaton state after every key.
Every capacity, depth, variant, prompt, byte sequence; no hypothesis. -/
theorem echo_off_silent (cap depth : Nat) (cxx : Bool) (prompt : List Byte) (keys : List Byte) :
    let on := Vterm.init cap depth cxx prompt
    let off : Vterm := { on with echo := false }
    off.echoed keys = [] ∧ off.events keys = on.events keys ∧ off.run keys = { on.run keys with echo := false } :=
  run_echo_off (Vterm.init cap depth cxx prompt) keys (Or.inl rfl)

/-- … so with echo off the executed lines are the reference editor's -/
theorem echo_off_lines (cap depth : Nat) (hcap : 1 ≤ cap) (hd : 1 ≤ depth) (cxx : Bool) (prompt : List Byte)
    (keys : List Byte) :
    ({ Vterm.init cap depth cxx prompt with echo := false } : Vterm).events keys = (Ref.init depth).events cap keys := by
  rw [(echo_off_silent cap depth cxx prompt keys).2.1]
  exact readline_line cap depth hcap hd cxx prompt keys

example : ({ Vterm.init 4 1 false with echo := false } : Vterm).events [0x61, ETX, 0x62, CR] = [.sigint, .exec [0x62]] ∧
    ({ Vterm.init 4 1 false with echo := false } : Vterm).echoed [0x61, ETX, 0x62, CR] = [] := by decide

/-! ### vterm.c and igris::vtermxx are one editor -/

/-- THE C AND THE C++ TERMINAL ARE OBSERVATIONALLY EQUAL.  After the same keys
(every capacity, depth, prompt, byte sequence — no hypothesis, the proof is a
simulation between the two models): the callbacks saw the same events; the
readline object the next call starts from (`nrl`: line, cursor, escape state,
`last`, the whole history ring and its indices) is the same; echo / prompt are
the same; and the bytes written are the same up to the prompt igris::vtermxx
still owes after Enter (`owed`: it prints it at the start of the next call,
vterm.c at the end of this one).  So every theorem above about one variant is
a theorem about the other. -/
theorem twins_observationally_equal (cap depth : Nat) (prompt : List Byte) (keys : List Byte) :
    let c := Vterm.init cap depth false prompt
    let x := Vterm.init cap depth true prompt
    c.events keys = x.events keys ∧ (c.run keys).nrl = (x.run keys).nrl ∧
    c.echoed keys ++ (c.run keys).owed = x.echoed keys ++ (x.run keys).owed := by
  intro c x
  obtain ⟨t1, t2, t3⟩ := twin_run c x keys (twin_init cap depth prompt)
  refine ⟨t2, t1.nrl, ?_⟩
  have := t3 [] [] rfl
  simpa using this

/-- non-vacuity: "a", Enter — vterm.c has printed the next prompt, vtermxx owes it -/
example : (Vterm.init 4 1 false).echoed [0x61, CR] = (Vterm.init 4 1 true).echoed [0x61, CR] ++ [0x24, 0x20] ∧
    ((Vterm.init 4 1 true).run [0x61, CR]).owed = [0x24, 0x20] ∧ ((Vterm.init 4 1 false).run [0x61, CR]).owed = [] := by
  decide

/-! ### the history ring is the reference's list of lines -/

/-- THE RING IS THE LIST.  After every key sequence the C string in the slot
`readline_history_pointer(rl, k)` points at (`histLine k`: slot
`(headhist + depth − k) mod depth`, up to its NUL) is the `k`-th most recent
remembered line of the reference editor, for every `1 ≤ k ≤ depth` — whatever
was typed, however often the ring wrapped. -/
theorem history_is_reference (cap depth : Nat) (hcap : 1 ≤ cap) (hd : 1 ≤ depth) (cxx : Bool) (prompt : List Byte)
    (keys : List Byte) (k : Nat) (hk1 : 1 ≤ k) (hk : k ≤ depth) :
    ((Vterm.init cap depth cxx prompt).run keys).rl.histLine k = ((Ref.init depth).run cap keys).hist.getD (k - 1) [] := by
  have hs := run_sim cap depth hd _ _ keys (init_sim cap depth hcap hd cxx prompt)
  have e : ∀ v : Vterm, v.nrl.histLine k = v.rl.histLine k := by
    intro v; unfold Vterm.nrl; split <;> rfl
  rw [← e]
  exact histLine_of_ok cap depth _ _ hs.sim.histOK hs.sim.lcap k hk1 hk

/-- EDITING A RECALLED LINE DOES NOT ALTER THE HISTORY.  Whatever is typed after
`keys` — recalls, edits of the recalled line, cursor moves, escapes, Ctrl-C —
as long as no line is handed to execute, every stored line stays what it was. -/
theorem history_unchanged_by_editing (cap depth : Nat) (hcap : 1 ≤ cap) (hd : 1 ≤ depth) (cxx : Bool)
    (prompt : List Byte) (keys edits : List Byte)
    (hne : ∀ e ∈ ((Vterm.init cap depth cxx prompt).run keys).events edits, e = Ev.sigint)
    (k : Nat) (hk1 : 1 ≤ k) (hk : k ≤ depth) :
    ((Vterm.init cap depth cxx prompt).run (keys ++ edits)).rl.histLine k =
      ((Vterm.init cap depth cxx prompt).run keys).rl.histLine k := by
  rw [history_is_reference cap depth hcap hd cxx prompt _ k hk1 hk,
    history_is_reference cap depth hcap hd cxx prompt _ k hk1 hk, Ref.run_append]
  have hs := run_sim cap depth hd _ _ keys (init_sim cap depth hcap hd cxx prompt)
  rw [events_sim cap depth hd _ _ edits hs] at hne
  rw [run_hist_same cap _ edits hne]

/-- non-vacuity: "ab" Enter, Up, Backspace, "x", Ctrl-C: the stored line is still "ab" -/
example : ((Vterm.init 4 2 false).run ([0x61, 0x62, CR] ++ [ESC, 0x5b, 0x41, BS, 0x78, ETX])).rl.histLine 1 = [0x61, 0x62] ∧
    ∀ e ∈ ((Vterm.init 4 2 false).run [0x61, 0x62, CR]).events [ESC, 0x5b, 0x41, BS, 0x78, ETX], e = Ev.sigint := by
  decide

/-- UP BEYOND THE OLDEST, DOWN BEYOND THE NEWEST ARE NO-OPS.  In any reachable
state (after any keys) in which the terminal waits for a key outside an escape
sequence: when the oldest entry is shown (`curhist = depth`) the Up key, and
when a new line is edited (`curhist = 0`) the Down key, write nothing, call
nothing, and leave line, cursor, browse position and history as they are. -/
theorem history_ends_noop (cap depth : Nat) (hcap : 1 ≤ cap) (hd : 1 ≤ depth) (cxx : Bool) (prompt : List Byte)
    (keys : List Byte) :
    let v := (Vterm.init cap depth cxx prompt).run keys
    v.state = 2 → v.rl.state = .normal →
    (v.rl.curhist = depth → v.echoed UP = [] ∧ v.events UP = [] ∧ (v.run UP).rl.line = v.rl.line ∧
      (v.run UP).rl.curhist = depth ∧ (v.run UP).rl.hist = v.rl.hist ∧ (v.run UP).rl.headhist = v.rl.headhist) ∧
    (v.rl.curhist = 0 → v.echoed DOWN = [] ∧ v.events DOWN = [] ∧ (v.run DOWN).rl.line = v.rl.line ∧
      (v.run DOWN).rl.curhist = 0 ∧ (v.run DOWN).rl.hist = v.rl.hist ∧ (v.run DOWN).rl.headhist = v.rl.headhist) := by
  intro v h2 hn
  have hs := run_sim cap depth hd _ _ keys (init_sim cap depth hcap hd cxx prompt)
  have hH := hs.sim.histOK
  rw [nrl_two _ h2] at hH
  constructor
  · intro hc
    obtain ⟨a, b, c⟩ := up_at_oldest v h2 hn hH.hasHist (by rw [hc, hH.hsize])
    rw [c]
    exact ⟨a, b, rfl, hc, rfl, rfl⟩
  · intro hc
    obtain ⟨a, b, c⟩ := down_at_newest v h2 hn hc
    rw [c]
    exact ⟨a, b, rfl, hc, rfl, rfl⟩

/-- non-vacuity: depth 1, one line, Up (oldest shown), Up again; and Down on a fresh line -/
example : ((Vterm.init 4 1 false).run [0x61, CR, ESC, 0x5b, 0x41]).rl.curhist = 1 ∧
    ((Vterm.init 4 1 false).run [0x61, CR, ESC, 0x5b, 0x41]).state = 2 ∧
    ((Vterm.init 4 1 false).run [0x61, CR, ESC, 0x5b, 0x41]).echoed UP = [] ∧
    ((Vterm.init 4 1 false).run [0x61, CR]).echoed DOWN = [] := by decide

/-- RECALL IN BOTH DIRECTIONS.  `n` accepted lines, `k` × Up, then `j` × Down with
`1 ≤ j < k ≤ min n depth`: the buffer holds the `(k − j)`-th most recent line,
cursor at its end, the terminal browses entry `k − j`. -/
theorem history_recall_down (cap depth : Nat) (hcap : 1 ≤ cap) (hd : 1 ≤ depth) (cxx : Bool)
    (prompt : List Byte) (ls : List (List Byte)) (k j : Nat)
    (hl : ∀ l ∈ ls, l ≠ [] ∧ l.length + 1 ≤ cap ∧ ∀ c ∈ l, plain c) (hdist : ConsecDistinct ls)
    (hk : k ≤ ls.length) (hkd : k ≤ depth) (hj1 : 1 ≤ j) (hj : j < k) :
    let v := (Vterm.init cap depth cxx prompt).run
      (ls.flatMap (· ++ [CR]) ++ (List.replicate k UP).flatten ++ (List.replicate j DOWN).flatten)
    v.rl.line.text = ls.reverse.getD (k - j - 1) [] ∧
    v.rl.line.cursor = (ls.reverse.getD (k - j - 1) []).length ∧
    v.rl.curhist = k - j := by
  have hr := ref_recall_down cap depth hd ls k j hl hdist hk hkd hj1 hj
  rw [downs_snoc j hj1, ← List.append_assoc] at hr ⊢
  obtain ⟨_, t1, t2, t3⟩ := recall_transfer cap depth hd _ _ (init_sim cap depth hcap hd cxx prompt) _ 0x42
    (by decide) _ hr.1
  exact ⟨t1, t2, by rw [t3, hr.2]⟩

example :
    ((Vterm.init 4 3 false).run
      ([[0x61], [0x62, 0x63], [0x64]].flatMap (· ++ [CR]) ++ (List.replicate 3 UP).flatten ++
        (List.replicate 1 DOWN).flatten)).rl.line.text = [0x62, 0x63] := by decide

/-! ### an independent key grammar (Keys.lean) -/

/-- THE BYTE-LEVEL REFERENCE IS THE KEY-PRESS EDITOR.  `Ref` decodes bytes with a
four-state automaton shaped like the code's; `keyPresses` (Keys.lean) cuts the
same bytes into key presses by a two-level grammar without any decoder state
(Enter = CR | LF | CR LF | LF CR, Ctrl-C transparent for the pairing;
`ESC [ A/B/C/D`, `ESC [ 3 x`, unknown `ESC x` / `ESC [ x` ignored, Ctrl-C aborts
a sequence), and `Ed` is an editor over key presses (zipper, list of lines,
browse position — nothing else).  For EVERY byte sequence, capacity and depth
the two agree on the callback events and on line, cursor, history and browse
position. -/
theorem reference_is_key_editor (cap depth : Nat) (keys : List Byte) :
    (Ref.init depth).events cap keys = (Ed.init depth).events cap (keyPresses keys) ∧
    edOf ((Ref.init depth).run cap keys) = (Ed.init depth).run cap (keyPresses keys) := by
  obtain ⟨a, b⟩ := tok_run cap (Ref.init depth) keys (dec_init depth)
  exact ⟨b, a⟩

/-- THE LINES HANDED TO EXECUTE, AGAINST THE KEY GRAMMAR: the terminal's callback
events for any byte sequence are those of the key-press editor run on the key
presses the bytes consist of; and between events its line, cursor and browse
position are the key-press editor's. -/
theorem readline_line_keys (cap depth : Nat) (hcap : 1 ≤ cap) (hd : 1 ≤ depth) (cxx : Bool)
    (prompt : List Byte) (keys : List Byte) :
    let v := (Vterm.init cap depth cxx prompt).run keys
    let e := (Ed.init depth).run cap (keyPresses keys)
    (Vterm.init cap depth cxx prompt).events keys = (Ed.init depth).events cap (keyPresses keys) ∧
    v.nrl.line.text = e.z.line ∧ v.nrl.line.cursor = e.z.left.length ∧ v.nrl.curhist = e.browse := by
  intro v e
  obtain ⟨a, b⟩ := reference_is_key_editor cap depth keys
  obtain ⟨r1, r2, r3, _⟩ := vterm_refines_editor cap depth hcap hd cxx prompt keys
  have hb : e = edOf ((Ref.init depth).run cap keys) := b.symm
  refine ⟨by rw [readline_line cap depth hcap hd cxx prompt keys, a], ?_, ?_, ?_⟩
  · rw [hb]; exact r1
  · rw [hb]; exact r2
  · rw [hb]; exact r3

/-- what the grammar says about the corner cases: CR LF CR LF is two Enters; a
Ctrl-C between the halves of a CR LF does not make a second Enter; ESC followed
by Enter (sent as CR LF) is an unknown escape sequence and is ignored as a
whole; Delete acts at `ESC [ 3` and consumes the next byte; a Ctrl-C inside an
escape sequence aborts it; a broken sequence followed by a valid one -/
example : keyPresses [CR, LF, CR, LF] = [.enter, .enter] ∧
    keyPresses [CR, ETX, LF] = [.enter, .interrupt] ∧
    keyPresses [ESC, CR, LF, 0x61] = [.char 0x61] ∧
    keyPresses [ESC, 0x5b, 0x33, 0x7e, 0x61] = [.delete, .char 0x61] ∧
    keyPresses [ESC, ETX, 0x5b, 0x41] = [.interrupt, .char 0x5b, .char 0x41] ∧
    keyPresses [ESC, 0x5b, 0x5a, ESC, 0x5b, 0x44] = [.left] := by decide

/-! ## Extension round 3 -/

/-! ### sline: every capacity, 0 included -/

/-- THE EDIT BUFFER IS SAFE FOR EVERY CAPACITY, 0 INCLUDED (after fix bd7ecca and
the round-3 fix of `sline_getline`): for every history of API calls `cursor ≤
len`, `len < cap` — or `len = 0` when there is no buffer at all —, and no access
left the buffer.  A line without a buffer stays the empty line whatever is called. -/
theorem sline_any_capacity (cap : Nat) (ops : List SOp) :
    let s := (Sline.init cap).runOps ops
    s.cursor ≤ s.len ∧ (s.len < cap ∨ (cap = 0 ∧ s.len = 0)) ∧ s.buf.length = cap ∧ s.fault = false ∧
    (cap = 0 → s = Sline.init 0) := by
  intro s
  by_cases h0 : cap = 0
  · subst h0
    have e : s = Sline.init 0 := runOps_cap0 ops
    rw [e]
    exact ⟨Nat.le_refl _, Or.inr ⟨rfl, rfl⟩, rfl, rfl, fun _ => rfl⟩
  · obtain ⟨a, b, _, d, e⟩ := sline_inv cap (by omega) ops
    exact ⟨a, Or.inl b, d, e, fun h => absurd h h0⟩

example : ((Sline.init 0).runOps [.putchar 0x61, .newdata [1, 2], .getline, .backspace 3]) = Sline.init 0 := by decide

/-! ### `sline_avail` / `sline_newdata` at the C widths (`unsigned int` fields, `int` results) -/

/- `sline_newdata` clamps to `sline_avail(sl) - 1` where `sline_avail` is `(int)(cap - len)`:
for a buffer of 2^31 bytes or more that `int` is negative and NOTHING is inserted although
there is room (for exactly 2^31 free bytes `avail - 1` overflows: undefined).  The wrapper
`igris::sline::newdata(data, size_t)` narrows its size to `int` in the same way.  `_partial` =
capacities and sizes below 2^31, where the C arithmetic is the unbounded arithmetic of
`newdataI` (so `sline_inv`, `sline_refines_zipper`, `newdata_int_length` speak about the code);
finding C15-newdata-2g. -/

/-- below 2^31 the C widths do not matter: in every reachable state `sline_newdata`
computed with 32-bit `unsigned` / `int` intermediates is the unbounded `newdataI`, and
`igris::sline::newdata(data, sz)` is `newdataI` with `sz` -/
theorem newdata_widths_partial (cap : Nat) (hcap : 1 ≤ cap) (hc : cap < 2147483648) (ops : List SOp) (d : List Byte) :
    (∀ n : Int, ((Sline.init cap).runOps ops).newdataC d n = ((Sline.init cap).runOps ops).newdataI d n) ∧
    (∀ sz : Nat, sz < 2147483648 →
      ((Sline.init cap).runOps ops).newdataSz d sz = ((Sline.init cap).runOps ops).newdataI d (sz : Int)) := by
  obtain ⟨_, h2, h3, _, _⟩ := sline_inv cap hcap ops
  have hl : ((Sline.init cap).runOps ops).len ≤ ((Sline.init cap).runOps ops).cap := by rw [h3]; omega
  have hc' : ((Sline.init cap).runOps ops).cap < 2147483648 := by rw [h3]; exact hc
  refine ⟨fun n => newdataC_eq _ hl hc' d n, fun sz hsz => ?_⟩
  unfold Sline.newdataSz
  rw [newdataC_eq _ hl hc' d]
  congr 1
  unfold toInt32
  rw [Nat.mod_eq_of_lt (by omega), if_pos hsz]

example : ((Sline.init 4).newdataC [0x61, 0x62, 0x63, 0x64] 4).1.text = [0x61, 0x62, 0x63] := by decide

/-- at 2^31 and beyond they do: a buffer of 2^31 + 1 bytes (the first 4 materialised), empty line,
2 bytes offered: nothing is inserted; with exactly 2^31 free bytes `avail - 1` overflows; a size of
2^31 passed to the C++ wrapper is a negative `int` -/
theorem newdata_widths_witness :
    ((⟨[0, 0, 0, 0], 2147483649, 0, 0, false⟩ : Sline).newdataC [0x61, 0x62] 2).2 = 0 ∧
    ((⟨[0, 0, 0, 0], 2147483649, 0, 0, false⟩ : Sline).newdataI [0x61, 0x62] 2).2 = 2 ∧
    ((⟨[0, 0, 0, 0], 2147483648, 0, 0, false⟩ : Sline).newdataC [0x61, 0x62] 2).1.fault = true ∧
    ((Sline.init 4).newdataSz [0x61, 0x62] 2147483648).2 = 0 := by decide

/-! ### the `int16_t` parameter of `vterm_automate_newdata` -/

/- The property speaks of "every byte sequence typed".  igris' own callers hold
the byte in a (signed) `char` and pass it to the `int16_t` parameter; the
parameter's negative range used to be "no character" as a whole, so every byte
≥ 0x80 (all of UTF-8) was dropped on that path.  After `fix: only
VTERM_INIT_STEP is the init step` every byte except 0xFF arrives
(`char_parameter_partial`); 0xFF sign-extends to -1 = VTERM_INIT_STEP and cannot
be told from it (`char_parameter_witness`, finding C15-char-ff). -/

/-- a byte held in a `char` and passed to the `int16_t` parameter is the key press
of that byte — for every byte but 0xFF, in every state of the terminal -/
theorem char_parameter_partial (v : Vterm) (b : Byte) (hb : b ≠ 0xFF) : v.keyI (sextChar b) = v.key b :=
  keyI_char v b hb

example : sextChar 0xC3 = -61 ∧ (Vterm.init 4 1 false).keyI (-61) = (Vterm.init 4 1 false).key 0xC3 := by decide

/-- 0xFF through a `char` is the init step: no character is typed -/
theorem char_parameter_witness :
    sextChar 0xFF = -1 ∧
    (Vterm.init 4 1 false).actEvents [.keyI (sextChar 0xFF), .key CR] = [.exec []] ∧
    (Ref.init 1).events 4 [0xFF, CR] = [.exec [0xFF]] := by decide

/-- the parameter as a whole: `-1` is the init step, every other `int16_t` types
its low 8 bits (`(char)input_c`) -/
theorem int16_parameter (v : Vterm) (i : Int) :
    (i = -1 → v.keyI i = (v.initStep.1, v.initStep.2, [])) ∧ (i ≠ -1 → v.keyI i = v.key (BitVec.ofInt 8 i)) := by
  unfold Vterm.keyI
  exact ⟨fun h => by rw [if_pos h], fun h => by rw [if_neg h]⟩

/-! ### one object, settings changed between the keys -/

/-- A SESSION WITH EVERYTHING A CALLER CAN DO BETWEEN KEYS.  Keys given as bytes
or as any `int16_t`, init steps at any time, `set_prompt` with ANY bytes
(unprintable included) and `set_echo` at any time, in any order: the callback
events are the reference editor's on the bytes that were typed, no access leaves
the line or the history, the bounds hold, and line / cursor / browse position are
the reference's.  (What the prompt and the echo flag change is the written
bytes only.) -/
theorem session_with_settings (cap depth : Nat) (hcap : 1 ≤ cap) (hd : 1 ≤ depth) (cxx : Bool) (prompt : List Byte)
    (as : List Act) :
    let v0 := Vterm.init cap depth cxx prompt
    let v := v0.runActs as
    let r := (Ref.init depth).run cap (Act.typed as)
    v0.actEvents as = (Ref.init depth).events cap (Act.typed as) ∧
    (v.rl.faulted = false ∧ v.rl.line.cursor ≤ v.rl.line.len ∧ v.rl.line.len < cap ∧ v.rl.headhist < depth ∧
      v.rl.curhist ≤ depth) ∧
    (v.nrl.line.text = r.z.line ∧ v.nrl.line.cursor = r.z.left.length ∧ v.nrl.curhist = r.browse) := by
  intro v0 v r
  obtain ⟨h1, h2⟩ := acts_sim cap depth hd v0 (Ref.init depth) as (init_sim cap depth hcap hd cxx prompt)
  have s := safe_of_sim cap depth _ _ h1
  have e := editor_of_sim cap depth _ _ h1
  exact ⟨h2, ⟨s.1, s.2.1, s.2.2.1, s.2.2.2.2.2.1, s.2.2.2.2.2.2⟩, ⟨e.1, e.2.1, e.2.2.1⟩⟩

/-- non-vacuity: an unprintable prompt set mid-line, echo switched off and on, a
byte through the `char` path, an init step in the middle -/
example : (Vterm.init 6 1 true).actEvents [.key 0x61, .setPrompt [0x07, 0x00 + 0x1b], .setEcho false, .keyI (-61), .initStep,
      .setEcho true, .key CR, .keyI 0x162, .key LF] = [.exec [0x61, 0xC3], .exec [0x62]] ∧
    Act.typed [.key 0x61, .setPrompt [0x07, 0x1b], .setEcho false, .keyI (-61), .initStep, .setEcho true, .key CR,
      .keyI 0x162, .key LF] = [0x61, 0xC3, CR, 0x62, LF] := by decide

/-- `set_prompt` with an unprintable byte: the line is still the reference's
(`session_with_settings`), the screen clause is not — the prompt is written as
it is, BEL does not occupy a cell (the limit `AllP prompt` of
`screen_matches_partial` is needed) -/
theorem unprintable_prompt_witness :
    Screen.blank.feed ((Vterm.init 4 1 false [0x07, 0x24]).echoed [0x61]) ≠
      ⟨[0x07, 0x24] ++ ((Vterm.init 4 1 false [0x07, 0x24]).run [0x61]).rl.line.text,
       2 + ((Vterm.init 4 1 false [0x07, 0x24]).run [0x61]).rl.line.cursor, .ground⟩ := by decide

/-! ### a terminal with W columns -/

/-- A W-COLUMN TERMINAL WITH AUTO-WRAP SHOWS WHAT THE ONE-ROW MODEL SHOWS, for
EVERY byte stream, as long as the cursor of the one-row model stays left of the
last column while the stream is fed (`hw` = the highest column reached): same
row, same cursor column, same parser state, nothing pending; the only
difference is that the rows left behind by LF are remembered. -/
theorem wide_terminal_is_one_row (W : Nat) (s : Screen) (bs : List Byte) (h : s.hw bs + 1 < W) :
    ∃ above, WScreen.feed W (WScreen.ofScreen [] s) bs = WScreen.ofScreen above (s.feed bs) :=
  wfeed_eq W [] s bs h

example : Screen.blank.hw ((Vterm.init 6 2 false).echoed [0x61, 0x62, 0x63, ESC, 0x5b, 0x44, 0x78]) = 6 := by decide

/- "…drives a VT100 screen model to show the same line and cursor" on a REAL
terminal, i.e. one with W columns and auto-wrap.  The echo strategy (re-print the
right part, `ESC[nD` back) cannot cross a row boundary: `ESC[nD` does not move up
a row.  `_partial` = the terminal is wide enough for prompt + longest line + `^C`
(`|prompt| + cap + 3 ≤ W`); for a narrower terminal the statement is false
(`narrow_screen_witness`, finding C15-narrow-screen). -/

/-- THE SCREEN CLAUSE ON A W-COLUMN TERMINAL WITH AUTO-WRAP (the reference
emulator `WScreen`), `W ≥ |prompt| + cap + 3`: after every key sequence (keys and
prompt as in `screen_matches_partial`) the current row is exactly prompt ++ line,
the cursor column is |prompt| + cursor, no wrap is pending and the escape parser
is in its ground state (state 2); blank row, column 0 while vtermxx owes the prompt. -/
theorem screen_matches_wide_partial (cap depth : Nat) (hcap : 1 ≤ cap) (hd : 1 ≤ depth) (cxx : Bool)
    (prompt : List Byte) (keys : List Byte) (hP : AllP prompt) (hk : ∀ k ∈ keys, screenKey k = true)
    (W : Nat) (hW : prompt.length + cap + 3 ≤ W) :
    let v0 := Vterm.init cap depth cxx prompt
    let v := v0.run keys
    let w := WScreen.feed W WScreen.blank (v0.echoed keys)
    (v.state = 2 → w.cells = prompt ++ v.rl.line.text ∧ w.col = prompt.length + v.rl.line.cursor ∧
      w.pending = false ∧ w.ps = .ground) ∧
    (v.state ≠ 2 → w.cells = [] ∧ w.col = 0 ∧ w.pending = false ∧ w.ps = .ground) := by
  intro v0 v w
  have h0 := init_sim cap depth hcap hd cxx prompt
  have hs0 : SInv (Vterm.init cap depth cxx prompt).prompt (Vterm.init cap depth cxx prompt) Screen.blank (Ref.init depth) := by
    unfold SInv
    rw [if_neg (show ¬ ((Vterm.init cap depth cxx prompt).state = 2) from fun e => by simp [Vterm.init] at e)]
    rfl
  have hhw := run_hw cap depth hd v0 (Ref.init depth) Screen.blank keys h0 (refP_init depth) rfl hP hk hs0
    (by simp [Screen.blank])
  have hpr : v0.prompt = prompt := rfl
  rw [hpr] at hhw
  obtain ⟨ab, e⟩ := wfeed_eq W [] Screen.blank (v0.echoed keys) (by omega)
  have hw : w = WScreen.ofScreen ab (Screen.blank.feed (v0.echoed keys)) := e
  obtain ⟨m1, m2⟩ := screen_matches_partial cap depth hcap hd cxx prompt keys hP hk
  constructor
  · intro h2
    rw [hw, m1 h2]
    exact ⟨rfl, rfl, rfl, rfl⟩
  · intro h2
    rw [hw, m2 h2]
    exact ⟨rfl, rfl, rfl, rfl⟩

/-- non-vacuity: prompt "$ ", an 8-byte line, 13 columns; "abcdefg" fills the line, Left, Left, "x" is refused -/
example : (WScreen.feed 13 WScreen.blank ((Vterm.init 8 1 false).echoed
      [0x61, 0x62, 0x63, 0x64, 0x65, 0x66, 0x67, ESC, 0x5b, 0x44, ESC, 0x5b, 0x44, 0x78])).cells =
      [0x24, 0x20, 0x61, 0x62, 0x63, 0x64, 0x65, 0x66, 0x67] ∧
    (WScreen.feed 13 WScreen.blank ((Vterm.init 8 1 false).echoed
      [0x61, 0x62, 0x63, 0x64, 0x65, 0x66, 0x67, ESC, 0x5b, 0x44, ESC, 0x5b, 0x44, 0x78])).col = 7 := by decide

/-- ON A NARROWER TERMINAL THE CLAUSE IS FALSE.  6 columns, prompt "$ ", an 8-byte
line: "abcde" (the `e` wraps to the second row), Left, Left (`ESC[D` stops at
column 0 of the second row instead of going back to the `d`), "x": the editor's
line is "abcxde", a correct display would be the rows "$ abcx" / "de", the
terminal shows "$ abcd" / "xde". -/
theorem narrow_screen_witness :
    let keys : List Byte := [0x61, 0x62, 0x63, 0x64, 0x65, ESC, 0x5b, 0x44, ESC, 0x5b, 0x44, 0x78]
    let w := WScreen.feed 6 WScreen.blank ((Vterm.init 8 1 false).echoed keys)
    ((Vterm.init 8 1 false).run keys).rl.line.text = [0x61, 0x62, 0x63, 0x78, 0x64, 0x65] ∧
    w.above.reverse ++ [w.cells] = [[0x24, 0x20, 0x61, 0x62, 0x63, 0x64], [0x78, 0x64, 0x65]] ∧
    WScreen.chunks 6 8 ([0x24, 0x20] ++ ((Vterm.init 8 1 false).run keys).rl.line.text) =
      [[0x24, 0x20, 0x61, 0x62, 0x63, 0x78], [0x64, 0x65]] := by decide

/-! ### the twins refine ONE reference editor -/

/-- vterm.c and igris::vtermxx, driven by the same actions (keys as bytes or `int16_t`, init steps,
`set_prompt`, `set_echo` in any order): the same callback events, the same line, cursor and browse
position before the next call — because both refine the same reference editor
(`session_with_settings`).  (The written bytes may differ when the prompt is changed while vtermxx
still owes it: vterm.c has printed the old one already.) -/
theorem twins_refine_one_editor (cap depth : Nat) (hcap : 1 ≤ cap) (hd : 1 ≤ depth) (prompt : List Byte) (as : List Act) :
    let c := Vterm.init cap depth false prompt
    let x := Vterm.init cap depth true prompt
    c.actEvents as = x.actEvents as ∧ (c.runActs as).nrl.line.text = (x.runActs as).nrl.line.text ∧
    (c.runActs as).nrl.line.cursor = (x.runActs as).nrl.line.cursor ∧
    (c.runActs as).nrl.curhist = (x.runActs as).nrl.curhist := by
  intro c x
  obtain ⟨a1, _, a2, a3, a4⟩ := session_with_settings cap depth hcap hd false prompt as
  obtain ⟨b1, _, b2, b3, b4⟩ := session_with_settings cap depth hcap hd true prompt as
  exact ⟨a1.trans b1.symm, a2.trans b2.symm, a3.trans b3.symm, a4.trans b4.symm⟩

/-- the written bytes CAN differ: Enter, then `set_prompt`, then a key -/
example : (Vterm.init 4 1 false).actEchoed [.key CR, .setPrompt [0x3e], .key 0x61] ≠
    (Vterm.init 4 1 true).actEchoed [.key CR, .setPrompt [0x3e], .key 0x61] := by decide

/-- more corner cases of the key grammar (Keys.lean), as the code decodes them: Home / End sent as
`ESC [ 1 ~` / `ESC [ 4 ~`, application-mode arrows `ESC O A`, modified arrows `ESC [ 1 ; 5 C` are
unknown escapes whose tail is typed as text; two ESC in a row swallow each other; an escape
sequence split anywhere is the same keys (the grammar sees the concatenation) -/
example : keyPresses [ESC, 0x5b, 0x31, 0x7e] = [.char 0x7e] ∧
    keyPresses [ESC, 0x4f, 0x41] = [.char 0x41] ∧
    keyPresses [ESC, 0x5b, 0x31, 0x3b, 0x35, 0x43] = [.char 0x3b, .char 0x35, .char 0x43] ∧
    keyPresses [ESC, ESC, 0x5b, 0x41] = [.char 0x5b, .char 0x41] ∧
    keyPresses ([ESC] ++ [0x5b] ++ [0x41]) = [.up] ∧
    keyPresses [ESC, 0x5b] = [] := by decide

/-! ### round 3b: every count of the C type (`unsigned int` / the `int` of the C++ wrappers) -/

/- `sline_backspace(sl, unsigned int count)` / `sline_delete(sl, unsigned int count)` and
`igris::sline::backspace(int)` / `del(int)` (the `int` converts to the `unsigned int` parameter:
`del(-1)` = `sline_delete(sl, UINT_MAX)`, "delete everything right of the cursor").  The model
functions `backspaceC` / `deleteC` compute every intermediate value as a `BitVec 32` in the order
the code does. -/

/-- NO OVERFLOW IN THE CODE'S ARITHMETIC: in every reachable state of a line (any buffer an
`unsigned int` capacity can describe) and for EVERY count of the C type, the 32-bit computation of
`sline_backspace` / `sline_delete` — the clamp `count > cursor` / `count > len - cursor`, `len -=
count`, `cursor -= count`, the `memmove` length — is the unbounded computation of `Sline.backspace`
/ `Sline.delete`, to which `sline_inv`, `sline_refines_zipper`, `sline_returns` apply; the value
returned is `(int)` of the number of characters removed. -/
theorem count_parameters_width (cap : Nat) (hcap : 1 ≤ cap) (hc : cap ≤ 4294967296) (ops : List SOp) (count : BitVec 32) :
    let s := (Sline.init cap).runOps ops
    (s.backspaceC count).1 = (s.backspace count.toNat).1 ∧ (s.backspaceC count).2 = toInt32 (s.backspace count.toNat).2 ∧
    (s.deleteC count).1 = (s.delete count.toNat).1 ∧ (s.deleteC count).2 = toInt32 (s.delete count.toNat).2 := by
  intro s
  obtain ⟨h, hcp, _⟩ := runOps_ok (Sline.init cap) (init_ok cap hcap) ops
  have hcp' : s.cap ≤ 4294967296 := by
    have : s.cap = cap := hcp
    omega
  obtain ⟨a, b⟩ := backspaceC_eq s h hcp' count
  obtain ⟨c, d⟩ := deleteC_eq s h hcp' count
  exact ⟨a, b, c, d⟩

/-- `sline_delete` / `igris::sline::del` REMOVE EXACTLY min(count, what is right of the cursor)
CHARACTERS, for every `unsigned int` count, in every reachable state: with `z` the reference
zipper after the same history, the line becomes `z.left ++ z.right.drop k`, `k = min count
|z.right|`, the cursor stays, `0 ≤ cursor ≤ len < cap` holds, no access left the buffer, and `k`
is returned (as an `int`: itself below 2^31). -/
theorem delete_every_count (cap : Nat) (hcap : 1 ≤ cap) (hc : cap ≤ 4294967296) (ops : List SOp) (count : BitVec 32) :
    let z := Zip.empty.runOps cap ops
    let k := min count.toNat z.right.length
    let r := ((Sline.init cap).runOps ops).deleteC count
    r.1.text = z.left ++ z.right.drop k ∧ r.1.cursor = z.left.length ∧ r.1.len + k = z.left.length + z.right.length ∧
    r.1.cursor ≤ r.1.len ∧ r.1.len < cap ∧ r.1.buf.length = cap ∧ r.1.fault = false ∧
    r.2 = toInt32 k ∧ (cap ≤ 2147483648 → r.2 = (k : Int)) := by
  intro z k r
  obtain ⟨_, _, e1, e2⟩ := count_parameters_width cap hcap hc ops count
  have hs : r.1 = (Sline.init cap).runOps (ops ++ [.delete count.toNat]) := by rw [runOps_snoc]; exact e1
  obtain ⟨i1, i2, _, i4, i5⟩ := sline_inv cap hcap (ops ++ [.delete count.toNat])
  obtain ⟨_, t2, t3⟩ := sline_refines_zipper cap hcap (ops ++ [.delete count.toNat])
  obtain ⟨j1, j2, _, j4, _⟩ := sline_inv cap hcap ops
  obtain ⟨_, u2, u3⟩ := sline_refines_zipper cap hcap ops
  have hz : Zip.empty.runOps cap (ops ++ [.delete count.toNat]) = ⟨z.left, z.right.drop k⟩ := by
    rw [zrunOps_snoc]; rfl
  have hr : r.2 = toInt32 k := by
    have := sline_returns cap hcap ops (.delete count.toNat)
    show (((Sline.init cap).runOps ops).deleteC count).2 = _
    rw [e2]
    show toInt32 ((((Sline.init cap).runOps ops).apply (.delete count.toNat)).2) = _
    rw [this]; rfl
  rw [hz] at t2 t3
  have hlen : r.1.len = (z.left ++ z.right.drop k).length := by
    rw [← show r.1.text = z.left ++ z.right.drop k from by rw [hs]; exact t2]
    rw [hs]; unfold Sline.text; rw [List.length_take]; omega
  have hk : k ≤ z.right.length := Nat.min_le_right _ _
  refine ⟨by rw [hs]; exact t2, by rw [hs]; exact t3, ?_, by rw [hs]; exact i1, by rw [hs]; exact i2,
    by rw [hs]; exact i4, by rw [hs]; exact i5, hr, fun h31 => ?_⟩
  · rw [hlen, List.length_append, List.length_drop]; omega
  · rw [hr]; unfold toInt32
    have hzl0 : (Zip.empty.runOps cap ops).left.length + (Zip.empty.runOps cap ops).right.length < cap := by
      have : ((Sline.init cap).runOps ops).text.length = ((Sline.init cap).runOps ops).len := by
        unfold Sline.text; rw [List.length_take]; omega
      rw [u2] at this
      unfold Zip.line at this; rw [List.length_append] at this
      omega
    have hzl : z.left.length + z.right.length < cap := hzl0
    rw [Nat.mod_eq_of_lt (by omega), if_pos (by omega)]

/-- the idiom the seeded change broke: `igris::sline::del(-1)` / `sline_delete(sl, UINT_MAX)` with the
cursor ANYWHERE deletes everything right of the cursor and nothing else -/
theorem delete_to_end_of_line (cap : Nat) (hcap : 1 ≤ cap) (hc : cap ≤ 4294967296) (ops : List SOp) :
    let z := Zip.empty.runOps cap ops
    let r := ((Sline.init cap).runOps ops).deleteI (-1)
    r.1.text = z.left ∧ r.1.cursor = z.left.length ∧ r.1.len = z.left.length ∧ r.1.fault = false := by
  obtain ⟨a, b, c, _, _, _, g, _, _⟩ := delete_every_count cap hcap hc ops (BitVec.ofInt 32 (-1))
  obtain ⟨_, j2, _, j4, _⟩ := sline_inv cap hcap ops
  obtain ⟨_, u2, _⟩ := sline_refines_zipper cap hcap ops
  have hzl : (Zip.empty.runOps cap ops).left.length + (Zip.empty.runOps cap ops).right.length < cap := by
    have : ((Sline.init cap).runOps ops).text.length = ((Sline.init cap).runOps ops).len := by
      unfold Sline.text; rw [List.length_take]; omega
    rw [u2] at this
    unfold Zip.line at this; rw [List.length_append] at this
    omega
  have hk : min (BitVec.ofInt 32 (-1)).toNat (Zip.empty.runOps cap ops).right.length = (Zip.empty.runOps cap ops).right.length := by
    have : (BitVec.ofInt 32 (-1)).toNat = 4294967295 := by decide
    rw [this]; omega
  simp only [hk] at a c
  refine ⟨?_, b, ?_, g⟩
  · show (((Sline.init cap).runOps ops).deleteC (BitVec.ofInt 32 (-1))).1.text = _
    rw [a, List.drop_length, List.append_nil]
  · show (((Sline.init cap).runOps ops).deleteC (BitVec.ofInt 32 (-1))).1.len = _
    omega

/-- non-vacuity: "abc", cursor after `a`, `del(-1)`: the line is `a` -/
example : (((Sline.init 8).runOps [.newdata [0x61, 0x62, 0x63], .left, .left]).deleteI (-1)).1.text = [0x61] ∧
    (((Sline.init 8).runOps [.newdata [0x61, 0x62, 0x63], .left, .left]).deleteI (-1)).2 = 2 := by decide

/-- `sline_backspace` / `igris::sline::backspace` REMOVE EXACTLY min(count, cursor) CHARACTERS left
of the cursor, for every `unsigned int` count, in every reachable state; bounds and safety kept. -/
theorem backspace_every_count (cap : Nat) (hcap : 1 ≤ cap) (hc : cap ≤ 4294967296) (ops : List SOp) (count : BitVec 32) :
    let z := Zip.empty.runOps cap ops
    let k := min count.toNat z.left.length
    let r := ((Sline.init cap).runOps ops).backspaceC count
    r.1.text = z.left.take (z.left.length - k) ++ z.right ∧ r.1.cursor = z.left.length - k ∧
    r.1.cursor ≤ r.1.len ∧ r.1.len < cap ∧ r.1.buf.length = cap ∧ r.1.fault = false ∧ r.2 = toInt32 k := by
  intro z k r
  obtain ⟨e1, e2, _, _⟩ := count_parameters_width cap hcap hc ops count
  have hs : r.1 = (Sline.init cap).runOps (ops ++ [.backspace count.toNat]) := by rw [runOps_snoc]; exact e1
  obtain ⟨i1, i2, _, i4, i5⟩ := sline_inv cap hcap (ops ++ [.backspace count.toNat])
  obtain ⟨_, t2, t3⟩ := sline_refines_zipper cap hcap (ops ++ [.backspace count.toNat])
  have hz : Zip.empty.runOps cap (ops ++ [.backspace count.toNat]) = ⟨z.left.take (z.left.length - k), z.right⟩ := by
    rw [zrunOps_snoc]; rfl
  have hr : r.2 = toInt32 k := by
    have := sline_returns cap hcap ops (.backspace count.toNat)
    show (((Sline.init cap).runOps ops).backspaceC count).2 = _
    rw [e2]
    show toInt32 ((((Sline.init cap).runOps ops).apply (.backspace count.toNat)).2) = _
    rw [this]; rfl
  rw [hz] at t2 t3
  refine ⟨by rw [hs]; exact t2, ?_, by rw [hs]; exact i1, by rw [hs]; exact i2, by rw [hs]; exact i4, by rw [hs]; exact i5, hr⟩
  rw [hs, t3]; show (z.left.take (z.left.length - k)).length = _
  rw [List.length_take]; omega

example : (((Sline.init 8).runOps [.newdata [0x61, 0x62, 0x63], .left]).backspaceI (-1)).1.text = [0x63] ∧
    (((Sline.init 8).runOps [.newdata [0x61, 0x62, 0x63], .left]).backspaceC 0x80000000#32).2 = 2 := by decide

/-- THE CLAMP WRITTEN WITH A SUM BREAKS IT (seeded change C15-sline-delete-clamp-wrap): `ab`, cursor
after `a`, `sline_delete(sl, UINT_MAX)`: `cursor + count` wraps to 0, the clamp is skipped, `len`
GROWS to 3 and the `memmove` source is 4 GiB behind the buffer — while the code's clamp removes the
one character that is there.  (`deleteWrapped_eq_of_no_wrap`: for `cursor + count < 2^32` the two
forms are the same function, which is why only counts from the top of the range tell them apart.) -/
theorem delete_clamp_wrapped_witness :
    let s := (Sline.init 4).runOps [.putchar 0x61, .putchar 0x62, .left]
    (s.deleteWrapped 0xFFFFFFFF#32).1.len = 3 ∧ (s.deleteWrapped 0xFFFFFFFF#32).1.fault = true ∧
    (s.deleteC 0xFFFFFFFF#32).1.len = 1 ∧ (s.deleteC 0xFFFFFFFF#32).1.text = [0x61] ∧
    (s.deleteC 0xFFFFFFFF#32).1.fault = false ∧ (s.deleteC 0xFFFFFFFF#32).2 = 1 ∧
    (s.deleteWrapped 0xFFFFFFFF#32).2 = -1 ∧
    -- `UINT_MAX - cursor` is the last count the wrapped form still clamps
    (s.deleteWrapped 0xFFFFFFFE#32).1.len = 1 ∧ (s.deleteWrapped 0xFFFFFFFE#32).2 = 1 := by decide

/-- `set_size_and_cursor(size_t, size_t)` stores into `unsigned int` fields: inside its contract
(`cursor ≤ sz < cap`, `cap` an `unsigned int`) nothing is truncated -/
theorem set_size_width (s : Sline) (sz cursor : Nat) (h1 : cursor ≤ sz) (h2 : sz < s.cap) (hc : s.cap ≤ 4294967296) :
    s.setSizeCursorC sz cursor = s.setSizeCursor sz cursor := by
  unfold Sline.setSizeCursorC Sline.setSizeCursor
  rw [Nat.mod_eq_of_lt (by omega), Nat.mod_eq_of_lt (by omega)]

/-- outside it is: `set_size_and_cursor(2^32 + 1, 0)` gives length 1 -/
example : ((Sline.init 4).setSizeCursorC 4294967297 0).len = 1 := by decide

/-! ### round 3b: the history ring's offsets at their C width -/

/-- `idx * rl->line.cap` and `rl->headhist * rl->line.cap` are `unsigned int` products.  After ANY key
sequence, for a ring that fits an `unsigned int` (`depth * cap ≤ 2^32`) and a depth the `int hsize` of
`readline_history_init` can hold, the offset the code adds to `history_space` — for every slot `num ≤
depth` a recall can ask for, and for the slot a push writes — is the unbounded offset of the model
(`histOff`, `headhist * cap`), to which `vterm_safe`, `history_is_reference`, `history_recall` apply.
`_partial`: the hypothesis `depth * cap ≤ 2^32` (`cap` itself is an `unsigned int`). -/
theorem ring_offsets_width_partial (cap depth : Nat) (hcap : 1 ≤ cap) (hd : 1 ≤ depth) (cxx : Bool) (prompt : List Byte)
    (keys : List Byte) (hc : cap < 4294967296) (hdi : depth ≤ 2147483647) (hfit : depth * cap ≤ 4294967296)
    (num : Nat) (hn : num ≤ depth) :
    let rl := ((Vterm.init cap depth cxx prompt).run keys).nrl
    rl.histOffC num = rl.histOff num ∧ rl.pushOffC = rl.headhist * rl.line.cap := by
  intro rl
  have hs := run_sim cap depth hd _ _ keys (init_sim cap depth hcap hd cxx prompt)
  have h1 : rl.hsize = depth := hs.sim.histOK.hsize
  have h2 : rl.headhist < depth := hs.sim.histOK.head
  have h3 : rl.line.cap = cap := hs.sim.lcap
  obtain ⟨a, b, _⟩ := histOffC_eq rl num (by omega) (by omega) (by omega) (by omega) (by omega) (by rw [h1, h3]; exact hfit)
  exact ⟨a, b⟩

example : ((Vterm.init 4 2 false).run [0x61, CR, 0x62, CR]).nrl.histOffC 1 = 4 ∧
    ((Vterm.init 4 2 false).run [0x61, CR, 0x62, CR]).nrl.pushOffC = 0 := by decide

/-- beyond it the product wraps: 65537 slots of 65536 bytes (4 GiB + 64 KiB), write index on the last
slot: the push lands on slot 0 (offset 2^32 wraps to 0), a recall of that slot reads slot 0 — the
offsets are wrong although every byte of the ring exists. -/
theorem ring_offsets_width_witness :
    let rl : Readline := { Readline.init 0 0 with line := { Sline.init 0 with cap := 65536 }, hsize := 65537, headhist := 65536 }
    rl.pushOffC = 0 ∧ rl.headhist * rl.line.cap = 4294967296 ∧
    rl.histOffC 0 = 0 ∧ rl.histOff 0 = 4294967296 ∧ rl.clearedC = 65536 := by decide

end Igris.C15
