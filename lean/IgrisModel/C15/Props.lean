/-
  C15 — PROPERTY THEOREMS: line editor (sline), readline automaton with
  history, terminal automaton (vterm) and the VT100 screen it drives.

  "For every byte sequence typed at the terminal automaton (printable
  characters, backspace, ESC-[ arrows, delete, CR/LF in any pairing, Ctrl-C,
  unknown escapes) the line handed to the execute callback equals the line a
  reference editor with the same key semantics and capacity produces, history
  recall returns the previously entered lines in order, and the echoed output
  drives a VT100 screen model to show the same line and cursor.  The edit
  buffer, cursor and history never leave their bounds (0 <= cursor <= length <
  capacity) and no write lands outside the line or history buffers, including
  for the bulk-insert and NUL-terminating accessors."

  Model: IgrisModel/C15/Model.lean (the code after the five `fix:` commits of
  branch fix-C15).  Reference: IgrisModel/C15/Spec.lean (a zipper with a
  capacity, a list of remembered lines, a key decoder).
-/
import IgrisModel.C15.Lemmas
namespace Igris.C15
open Igris.Proto

/-! ### the edit buffer (struct sline / igris::sline), any history of API calls -/

/-- Bounds and memory safety of the edit buffer, for EVERY history of API calls
(putchar, bulk insert `sline_newdata` with data of any length, backspace /
delete by any count, left, right, reset, the NUL-terminating `sline_getline`)
and every capacity ≥ 1: `0 ≤ cursor ≤ length < capacity`, the object still
describes the buffer it was given, and no store, memmove or memcpy left that
buffer (`fault = false`: every access of the model is index-checked). -/
theorem sline_inv (cap : Nat) (hcap : 1 ≤ cap) (ops : List SOp) :
    ((Sline.init cap).runOps ops).cursor ≤ ((Sline.init cap).runOps ops).len ∧
    ((Sline.init cap).runOps ops).len < cap ∧
    ((Sline.init cap).runOps ops).cap = cap ∧
    ((Sline.init cap).runOps ops).buf.length = cap ∧
    ((Sline.init cap).runOps ops).fault = false := by
  obtain ⟨h, hc, _⟩ := runOps_ok (Sline.init cap) (init_ok cap hcap) ops
  have hc' : ((Sline.init cap).runOps ops).cap = cap := hc
  refine ⟨h.cur, ?_, hc', by rw [h.blen, hc'], h.nofault⟩
  have := h.room; omega

/-- non-vacuity / the bound is tight: a bulk insert longer than the buffer fills
it to `cap - 1` and `sline_getline` then writes the terminator at `cap - 1` -/
example : ((Sline.init 4).runOps [.newdata [1, 2, 3, 4, 5, 6], .getline]).len = 3 ∧
    ((Sline.init 4).runOps [.newdata [1, 2, 3, 4, 5, 6], .getline]).buf = [1, 2, 3, 0] := by decide

/-- The edit buffer refines the zipper: after every history of API calls the
characters left / right of the cursor are exactly those of the reference
zipper driven by the same calls; in particular the line handed out by
`sline_getline` / `(data, size)` is the reference line and the cursor is at
the reference position. -/
theorem sline_refines_zipper (cap : Nat) (hcap : 1 ≤ cap) (ops : List SOp) :
    ((Sline.init cap).runOps ops).toZip = Zip.empty.runOps cap ops ∧
    ((Sline.init cap).runOps ops).text = (Zip.empty.runOps cap ops).line ∧
    ((Sline.init cap).runOps ops).cursor = (Zip.empty.runOps cap ops).left.length := by
  obtain ⟨h, _, hz⟩ := runOps_ok (Sline.init cap) (init_ok cap hcap) ops
  rw [init_toZip] at hz
  have hz' : ((Sline.init cap).runOps ops).toZip = Zip.empty.runOps cap ops := hz
  refine ⟨hz', ?_, ?_⟩
  · rw [← hz', toZip_line _ h]
  · rw [← hz', toZip_left_length _ h]

/-- ... and every call returns what the reference returns (characters stored,
removed, cursor moved) -/
theorem sline_returns (cap : Nat) (hcap : 1 ≤ cap) (ops : List SOp) (o : SOp) :
    (((Sline.init cap).runOps ops).apply o).2 = ((Zip.empty.runOps cap ops).apply cap o).2 := by
  obtain ⟨h, hc, hz⟩ := runOps_ok (Sline.init cap) (init_ok cap hcap) ops
  obtain ⟨_, _, _, hr⟩ := apply_ok _ h o
  rw [hr, hz, hc, init_toZip]
  rfl

end Igris.C15
