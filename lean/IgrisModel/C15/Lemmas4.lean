/-
  C15 — helper lemmas, part 4: history recall on the reference editor.
-/
import IgrisModel.C15.Lemmas3
namespace Igris.C15
open Igris.Proto

/-- an ordinary character: typed into the line as it is -/
def plain (c : Byte) : Prop := c ≠ 0 ∧ c ≠ CR ∧ c ≠ LF ∧ c ≠ BS ∧ c ≠ ESC ∧ c ≠ ETX

/-- the Up key -/
def UP : List Byte := [ESC, 0x5b, 0x41]

/-- consecutive entries differ -/
def ConsecDistinct : List (List Byte) → Prop
  | [] => True
  | [_] => True
  | a :: b :: t => a ≠ b ∧ ConsecDistinct (b :: t)

theorem Ref.run_append (cap : Nat) (r : Ref) (a b : List Byte) : r.run cap (a ++ b) = (r.run cap a).run cap b := by
  simp [Ref.run, List.foldl_append]

theorem Ref.run_cons (cap : Nat) (r : Ref) (c : Byte) (cs : List Byte) :
    r.run cap (c :: cs) = ((r.key cap c).1).run cap cs := rfl

/-- typing ordinary characters that fit -/
theorem type_plain (cap : Nat) (r : Ref) (l : List Byte) (hp : ∀ c ∈ l, plain c) (he : r.esc = .normal)
    (hr : r.z.right = []) (hroom : r.z.left.length + l.length + 1 ≤ cap) :
    ∃ p, (l ≠ [] → p ≠ CR ∧ p ≠ LF) ∧ (l = [] → p = r.prev) ∧
      r.run cap l = { r with z := ⟨r.z.left ++ l, []⟩, prev := p } := by
  induction l generalizing r with
  | nil =>
    refine ⟨r.prev, fun h => absurd rfl h, fun _ => rfl, ?_⟩
    cases r with
    | mk z hist browse esc prev =>
      cases z with
      | mk left right => simp at hr; subst hr; simp [Ref.run]
  | cons c cs ih =>
    obtain ⟨h0, h1, h2, h3, h4, h5⟩ := hp c (by simp)
    have hk : (r.key cap c).1 = { r with z := ⟨r.z.left ++ [c], []⟩, prev := c } := by
      unfold Ref.key Ref.rlKey
      rw [if_neg h5, he]
      simp only
      rw [if_neg (by intro h; rcases h with h | h <;> contradiction), if_neg h3, if_neg h4]
      unfold Zip.putchar Zip.len
      rw [hr]
      simp only [List.length_nil, Nat.add_zero, List.length_cons] at hroom ⊢
      rw [if_pos (by omega)]
    rw [Ref.run_cons, hk]
    obtain ⟨p, p1, p2, p3⟩ := ih { r with z := ⟨r.z.left ++ [c], []⟩, prev := c } (fun x hx => hp x (by simp [hx])) he rfl
      (by simp only [List.length_append, List.length_cons, List.length_nil] at hroom ⊢; omega)
    refine ⟨p, ?_, fun h => by simp at h, ?_⟩
    · intro _
      by_cases hcs : cs = []
      · rw [p2 hcs]; exact ⟨h1, h2⟩
      · exact p1 hcs
    · rw [p3]; simp

/-- Enter on a line that is not the second half of a CR LF pair -/
theorem enter_key (cap : Nat) (r : Ref) (he : r.esc = .normal) (hp : r.prev ≠ LF) :
    (r.key cap CR).1 = { r with z := Zip.empty, hist := Ref.remember r.hist r.z.line, browse := 0, prev := CR } := by
  have hsw : ¬ ((r.prev = LF ∨ r.prev = CR) ∧ r.prev ≠ CR) := by
    intro ⟨h, h2⟩; rcases h with h | h; exact hp h; exact h2 h
  unfold Ref.key Ref.rlKey
  rw [if_neg (by decide), he]
  simp [hsw, Ref.fresh]

/-- the remembered lines after entering `ls` (each non-empty, NUL-free, different from its predecessor) -/
theorem lines_run (cap : Nat) (r : Ref) (ls : List (List Byte)) (h0 : List Byte)
    (hl : ∀ l ∈ ls, l ≠ [] ∧ l.length + 1 ≤ cap ∧ ∀ c ∈ l, plain c)
    (hhead : r.hist.head? = some h0) (hdist : ConsecDistinct (h0 :: ls))
    (he : r.esc = .normal) (hz : r.z = Zip.empty) (hb : r.browse = 0) :
    ∃ p, r.run cap (ls.flatMap (· ++ [CR])) =
      { r with hist := (ls.reverse ++ r.hist).take r.hist.length, prev := p } := by
  induction ls generalizing r h0 with
  | nil =>
    refine ⟨r.prev, ?_⟩
    simp [Ref.run]
  | cons l ls ih =>
    obtain ⟨l1, l2, l3⟩ := hl l (by simp)
    obtain ⟨d1, d2⟩ : h0 ≠ l ∧ ConsecDistinct (l :: ls) := by
      cases ls <;> simp [ConsecDistinct] at hdist ⊢ <;> exact hdist
    obtain ⟨z, hist, browse, esc, prev⟩ := r
    simp only at he hz hb hhead
    subst he hz hb
    simp only [List.flatMap_cons, List.append_assoc]
    rw [Ref.run_append, Ref.run_append]
    obtain ⟨p, p1, _, p3⟩ := type_plain cap ⟨Zip.empty, hist, 0, .normal, prev⟩ l l3 rfl rfl
      (by simp [Zip.empty]; omega)
    rw [p3]
    have hrun1 : ∀ x : Ref, x.run cap [CR] = (x.key cap CR).1 := fun x => rfl
    rw [hrun1, enter_key cap _ rfl (p1 l1).2]
    simp only [Zip.empty, List.nil_append, Zip.line, List.append_nil]
    have hcs : cstr l = l := cstr_eq_self l (fun x hx => (l3 x hx).1)
    have hrem : Ref.remember hist l = (l :: hist).dropLast := by
      unfold Ref.remember
      rw [if_pos ⟨l1, by rw [hhead]; intro e; exact d1 (Option.some.inj e)⟩, hcs]
    rw [hrem]
    have hne : hist ≠ [] := by intro e; rw [e] at hhead; simp at hhead
    have hdl : (l :: hist).dropLast = (l :: hist).take hist.length := by
      rw [List.dropLast_eq_take]; simp
    obtain ⟨q, hq⟩ := ih ⟨⟨[], []⟩, (l :: hist).dropLast, 0, .normal, CR⟩ l
      (fun x hx => hl x (by simp [hx]))
      (by
        simp only
        cases hh : hist with
        | nil => exact absurd hh hne
        | cons a as => simp [List.dropLast])
      d2 rfl rfl rfl
    refine ⟨q, ?_⟩
    rw [hq]
    simp only [Ref.mk.injEq, true_and, and_true]
    have hlen : (l :: hist).dropLast.length = hist.length := by simp
    rw [hlen, hdl, List.reverse_cons, List.append_assoc]
    simp only [List.singleton_append]
    rw [List.take_append, List.take_append (l₁ := ls.reverse) (l₂ := l :: hist)]
    congr 1
    rw [List.take_take]
    congr 1
    omega

/-- one Up key with lines still to show -/
theorem up_key (cap : Nat) (r : Ref) (he : r.esc = .normal) (hb : r.browse < r.hist.length) :
    r.run cap UP = { r with z := ⟨r.hist.getD r.browse [], []⟩, browse := r.browse + 1, prev := 0x41 } := by
  obtain ⟨z, hist, browse, esc, prev⟩ := r
  simp only at he hb
  subst he
  simp [Ref.run, UP, Ref.key, Ref.rlKey, ESC, ETX, CR, LF, BS, hb]

/-- `k` Up keys: the `k`-th most recent remembered line is shown -/
theorem ups_run (cap : Nat) (r : Ref) (k : Nat) (he : r.esc = .normal) (hk1 : 1 ≤ k)
    (hb : r.browse + k ≤ r.hist.length) :
    r.run cap (List.replicate k UP).flatten =
      { r with z := ⟨r.hist.getD (r.browse + k - 1) [], []⟩, browse := r.browse + k, prev := 0x41 } := by
  induction k generalizing r with
  | zero => omega
  | succ k ih =>
    simp only [List.replicate_succ, List.flatten_cons]
    rw [Ref.run_append, up_key cap r he (by omega)]
    by_cases hk : k = 0
    · subst hk; simp [Ref.run]
    · have := ih { r with z := ⟨r.hist.getD r.browse [], []⟩, browse := r.browse + 1, prev := 0x41 } he (by omega)
        (by simp only; omega)
      rw [this]
      simp only [Ref.mk.injEq, and_true, true_and]
      constructor
      · congr 2; omega
      · omega

theorem getD_recent (ls : List (List Byte)) (hist : List (List Byte)) (k : Nat) (hk1 : 1 ≤ k) (hk : k ≤ ls.length)
    (hkd : k ≤ hist.length) :
    ((ls.reverse ++ hist).take hist.length).getD (k - 1) [] = ls.reverse.getD (k - 1) [] := by
  simp only [List.getD_eq_getElem?_getD]
  rw [List.getElem?_take, if_pos (by omega), List.getElem?_append_left (by simp; omega)]

/-- the reference editor: after entering `ls`, `k` presses of Up show the `k`-th most recent line -/
theorem ref_recall (cap depth : Nat) (hd : 1 ≤ depth) (ls : List (List Byte)) (k : Nat)
    (hl : ∀ l ∈ ls, l ≠ [] ∧ l.length + 1 ≤ cap ∧ ∀ c ∈ l, plain c) (hdist : ConsecDistinct ls)
    (hk1 : 1 ≤ k) (hk : k ≤ ls.length) (hkd : k ≤ depth) :
    ((Ref.init depth).run cap (ls.flatMap (· ++ [CR]) ++ (List.replicate k UP).flatten)).z =
      ⟨ls.reverse.getD (k - 1) [], []⟩ ∧
    ((Ref.init depth).run cap (ls.flatMap (· ++ [CR]) ++ (List.replicate k UP).flatten)).browse = k := by
  rw [Ref.run_append]
  have hhead : (Ref.init depth).hist.head? = some [] := by
    obtain ⟨d, rfl⟩ : ∃ d, depth = d + 1 := ⟨depth - 1, by omega⟩
    simp [Ref.init, List.replicate_succ]
  have hd0 : ConsecDistinct ([] :: ls) := by
    cases ls with
    | nil => trivial
    | cons a as => exact ⟨fun e => (hl a (by simp)).1 e.symm, hdist⟩
  obtain ⟨p, hp⟩ := lines_run cap (Ref.init depth) ls [] hl hhead hd0 rfl rfl rfl
  rw [hp, ups_run cap _ k rfl hk1 (by simp [Ref.init]; omega)]
  have := getD_recent ls (List.replicate depth []) k hk1 hk (by simp; omega)
  simp only [Ref.init, Nat.zero_add, List.length_replicate] at this ⊢
  rw [this]
  exact ⟨rfl, trivial⟩

/-! ### the terminal is in state 2 after any key but Enter -/

theorem putchar_newline (rl : Readline) (c : Byte) (h : (rl.putchar c).2 = RL_NEWLINE) : c = CR ∨ c = LF := by
  by_cases hnl : c = CR ∨ c = LF
  · exact hnl
  · exfalso
    unfold Readline.putchar at h
    cases hs : rl.state <;> rw [hs] at h <;> simp only [hnl, if_false] at h
    all_goals (repeat' split at h)
    all_goals (first | (simp only at h; revert h; decide) | (revert h; decide))

theorem key_state (v : Vterm) (c : Byte) (hst : v.state = 0 ∨ v.state = 1 ∨ v.state = 2) (hc : c ≠ CR ∧ c ≠ LF) :
    (v.key c).1.state = 2 := by
  unfold Vterm.key
  rw [if_neg (fun hq => hq (by omega))]
  generalize (if v.state = 2 then (v, ([] : List Byte)) else v.prologue) = p
  simp only
  by_cases hc3 : c = ETX
  · rw [if_pos hc3]; rfl
  · rw [if_neg hc3]
    by_cases hn : (p.1.rl.putchar c).2 = RL_NEWLINE
    · rcases putchar_newline _ _ hn with e | e
      · exact absurd e hc.1
      · exact absurd e hc.2
    · rw [if_neg hn]

theorem Vterm.run_append (v : Vterm) (a b : List Byte) : v.run (a ++ b) = (v.run a).run b := by
  simp [Vterm.run, List.foldl_append]

/-- transfer of a statement about the reference editor to the terminal, when the
last key was not Enter -/
theorem recall_transfer (cap depth : Nat) (hd : 1 ≤ depth) (v0 : Vterm) (r0 : Ref)
    (h0 : VSim cap depth v0 r0) (ks : List Byte) (c : Byte) (hc : c ≠ CR ∧ c ≠ LF) (X : List Byte)
    (hz : (r0.run cap (ks ++ [c])).z = ⟨X, []⟩) :
    (v0.run (ks ++ [c])).state = 2 ∧ (v0.run (ks ++ [c])).rl.line.text = X ∧
    (v0.run (ks ++ [c])).rl.line.cursor = X.length ∧
    (v0.run (ks ++ [c])).rl.curhist = (r0.run cap (ks ++ [c])).browse := by
  have h1 := run_sim cap depth hd v0 r0 ks h0
  have hs : (v0.run (ks ++ [c])).state = 2 := by
    rw [Vterm.run_append]
    exact key_state _ c h1.st hc
  have h2 := run_sim cap depth hd v0 r0 (ks ++ [c]) h0
  obtain ⟨e1, e2, e3, _⟩ := editor_of_sim cap depth _ _ h2
  rw [nrl_two _ hs] at e1 e2 e3
  rw [hz] at e1 e2
  exact ⟨hs, by rw [e1]; simp [Zip.line], e2, e3⟩

theorem ups_snoc (k : Nat) (hk : 1 ≤ k) :
    (List.replicate k UP).flatten = ((List.replicate (k - 1) UP).flatten ++ [ESC, 0x5b]) ++ [0x41] := by
  obtain ⟨j, rfl⟩ : ∃ j, k = j + 1 := ⟨k - 1, by omega⟩
  rw [List.replicate_succ']
  simp [UP]

end Igris.C15
