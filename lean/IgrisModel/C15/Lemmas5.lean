/-
  C15 — helper lemmas, part 5: what the echoed bytes do to the VT100 screen.
-/
import IgrisModel.C15.Lemmas4
namespace Igris.C15
open Igris.Proto

namespace Screen

theorem feed_append (s : Screen) (a b : List Byte) : s.feed (a ++ b) = (s.feed a).feed b := by
  simp [feed, List.foldl_append]

theorem feed_cons (s : Screen) (a : Byte) (b : List Byte) : s.feed (a :: b) = (s.put a).feed b := rfl

theorem feed_nil (s : Screen) : s.feed [] = s := rfl

theorem printable_ne (b : Byte) (h : isPrintable b = true) : b ≠ ESC ∧ b ≠ CR ∧ b ≠ LF ∧ b ≠ BS := by
  refine ⟨?_, ?_, ?_, ?_⟩ <;> (intro e; subst e; revert h; decide)

/-- a glyph at the cursor, cursor inside or at the end of the text -/
theorem put_printable (A B : List Byte) (b : Byte) (h : isPrintable b = true) :
    (Screen.mk (A ++ B) A.length .ground).put b = ⟨A ++ [b] ++ B.drop 1, A.length + 1, .ground⟩ := by
  obtain ⟨h1, h2, h3, h4⟩ := printable_ne b h
  unfold put
  simp only [h1, h2, h3, h4, if_false, h, if_true, putGlyph]
  congr 1
  cases B with
  | nil => simp
  | cons x xs => simp

/-- printable text at the cursor overwrites what is there and extends the row -/
theorem feed_print (A B l : List Byte) (h : ∀ b ∈ l, isPrintable b = true) :
    (Screen.mk (A ++ B) A.length .ground).feed l = ⟨A ++ l ++ B.drop l.length, A.length + l.length, .ground⟩ := by
  induction l generalizing A B with
  | nil => simp [feed_nil]
  | cons b bs ih =>
    rw [feed_cons, put_printable A B b (h b (by simp))]
    have := ih (A ++ [b]) (B.drop 1) (fun x hx => h x (by simp [hx]))
    simp only [List.length_append, List.length_cons, List.length_nil, Nat.zero_add] at this
    rw [this]
    simp only [List.append_assoc, List.singleton_append, List.drop_drop, List.length_cons, Screen.mk.injEq, and_true]
    constructor
    · congr 3; omega
    · omega

theorem feed_LEFT (s : Screen) (h : s.ps = .ground) : s.feed VT100_LEFT = { s with col := s.col - 1 } := by
  obtain ⟨cells, col, ps⟩ := s
  simp only at h; subst h
  simp [feed, VT100_LEFT, put, ESC, isDigit]

theorem feed_RIGHT (s : Screen) (h : s.ps = .ground) : s.feed VT100_RIGHT = { s with col := s.col + 1 } := by
  obtain ⟨cells, col, ps⟩ := s
  simp only at h; subst h
  simp [feed, VT100_RIGHT, put, ESC, isDigit]

theorem feed_ERASE (s : Screen) (h : s.ps = .ground) : s.feed VT100_ERASE = { s with cells := s.cells.take s.col } := by
  obtain ⟨cells, col, ps⟩ := s
  simp only at h; subst h
  simp [feed, VT100_ERASE, put, ESC, isDigit]

theorem feed_CRLF (s : Screen) (h : s.ps = .ground) : s.feed [CR, LF] = ⟨[], 0, .ground⟩ := by
  obtain ⟨cells, col, ps⟩ := s
  simp only at h; subst h
  simp [feed, put, ESC, CR, LF]

/-! the decimal parameter of `ESC [ n D` -/

/-- value of a digit string, most significant first, continuing from `a` -/
def digitsVal (ds : List Byte) (a : Nat) : Nat := ds.foldl (fun a b => a * 10 + (b.toNat - 48)) a

/-- value of a digit string, least significant first -/
def valRev : List Byte → Nat
  | [] => 0
  | b :: bs => (b.toNat - 48) + 10 * valRev bs

theorem digitsVal_reverse (ds : List Byte) : digitsVal ds.reverse 0 = valRev ds := by
  induction ds with
  | nil => rfl
  | cons b bs ih =>
    simp only [List.reverse_cons, digitsVal, List.foldl_append, List.foldl_cons, List.foldl_nil, valRev]
    have : List.foldl (fun a b => a * 10 + (b.toNat - 48)) 0 bs.reverse = valRev bs := ih
    rw [this]; omega

theorem digit_byte (d : Nat) (h : d < 10) :
    isDigit (BitVec.ofNat 8 (48 + d)) = true ∧ (BitVec.ofNat 8 (48 + d)).toNat - 48 = d := by
  have : (BitVec.ofNat 8 (48 + d)).toNat = 48 + d := by
    simp only [BitVec.toNat_ofNat]; omega
  unfold isDigit
  rw [this]
  simp; omega

theorem decRev_spec (fuel n : Nat) (h : n < fuel) :
    valRev (decRev fuel n) = n ∧ (∀ b ∈ decRev fuel n, isDigit b = true) ∧ decRev fuel n ≠ [] := by
  induction fuel generalizing n with
  | zero => omega
  | succ f ih =>
    obtain ⟨d1, d2⟩ := digit_byte (n % 10) (Nat.mod_lt _ (by omega))
    unfold decRev
    by_cases h0 : n / 10 = 0
    · simp only [h0, if_true, valRev, d2, List.mem_singleton, forall_eq, d1, ne_eq, List.cons_ne_nil,
        not_false_eq_true, and_self, and_true]
      omega
    · obtain ⟨i1, i2, _⟩ := ih (n / 10) (by omega)
      simp only [h0, if_false, valRev, d2, i1, ne_eq, List.cons_ne_nil, not_false_eq_true, and_true]
      refine ⟨by omega, ?_⟩
      intro b hb
      rcases List.mem_cons.mp hb with e | e
      · rw [e]; exact d1
      · exact i2 b e

theorem decDigits_spec (n : Nat) :
    digitsVal (decDigits n) 0 = n ∧ (∀ b ∈ decDigits n, isDigit b = true) ∧ decDigits n ≠ [] := by
  obtain ⟨h1, h2, h3⟩ := decRev_spec (n + 1) n (by omega)
  unfold decDigits
  refine ⟨by rw [digitsVal_reverse, h1], fun b hb => h2 b (by simpa using hb), by simpa using h3⟩

/-- digits after `ESC [` accumulate the parameter -/
theorem feed_digits (cells : List Byte) (col : Nat) (ds : List Byte) (o : Option Nat)
    (h : ∀ b ∈ ds, isDigit b = true) (hne : ds ≠ []) :
    (Screen.mk cells col (.csi o)).feed ds = ⟨cells, col, .csi (some (digitsVal ds (o.getD 0)))⟩ := by
  induction ds generalizing o with
  | nil => exact absurd rfl hne
  | cons b bs ih =>
    rw [feed_cons]
    have hb := h b (by simp)
    have hput : (Screen.mk cells col (.csi o)).put b = ⟨cells, col, .csi (some (o.getD 0 * 10 + (b.toNat - 48)))⟩ := by
      simp [put, hb]
    rw [hput]
    by_cases hbs : bs = []
    · subst hbs; simp [feed_nil, digitsVal]
    · rw [ih _ (fun x hx => h x (by simp [hx])) hbs]
      simp [digitsVal]

/-- `vt100_left(n)`, `n ≥ 1`: the cursor moves `n` columns left (stopping at column 0) -/
theorem feed_left (s : Screen) (h : s.ps = .ground) (n : Nat) (hn : 1 ≤ n) :
    s.feed (vt100Left n) = { s with col := s.col - n } := by
  obtain ⟨cells, col, ps⟩ := s
  simp only at h; subst h
  obtain ⟨d1, d2, d3⟩ := decDigits_spec n
  unfold vt100Left
  rw [feed_append, feed_append]
  have e1 : (Screen.mk cells col .ground).feed [ESC, 0x5b] = ⟨cells, col, .csi none⟩ := by
    simp [feed, put, ESC]
  rw [e1, feed_digits cells col _ none d2 d3]
  simp only [Option.getD_none, d1]
  have hd : isDigit (68#8) = false := by decide
  have hn0 : ¬ n = 0 := by omega
  simp [feed, put, hd, hn0]

end Screen

/-! ### the echo of one key, in terms of the zipper -/

def AllP (l : List Byte) : Prop := ∀ b ∈ l, Screen.isPrintable b = true

theorem AllP_append {a b : List Byte} (ha : AllP a) (hb : AllP b) : AllP (a ++ b) := by
  intro x hx; rcases List.mem_append.mp hx with h | h; exact ha x h; exact hb x h

theorem AllP_take {a : List Byte} (n : Nat) (ha : AllP a) : AllP (a.take n) :=
  fun x hx => ha x (List.mem_of_mem_take hx)

theorem AllP_drop {a : List Byte} (n : Nat) (ha : AllP a) : AllP (a.drop n) :=
  fun x hx => ha x (List.mem_of_mem_drop hx)

/-- re-print what is right of the cursor and come back -/
def zRightEcho (z : Zip) : List Byte := if z.right = [] then [] else z.right ++ vt100Left z.right.length

def zEchoFor (c : Byte) (ret : Int) (lastsize : Nat) (z : Zip) : List Byte :=
  if ret = RL_ECHOCHAR then [c] ++ zRightEcho z
  else if ret = RL_BACKSPACE then VT100_LEFT ++ VT100_ERASE ++ zRightEcho z
  else if ret = RL_RIGHT then VT100_RIGHT
  else if ret = RL_LEFT then VT100_LEFT
  else if ret = RL_UPDATELINE then
    (if lastsize ≠ 0 then vt100Left lastsize else []) ++ VT100_ERASE ++ (if z.line ≠ [] then z.line else [])
  else if ret = RL_DELETE then VT100_ERASE ++ zRightEcho z
  else []

theorem rightEcho_eq (s : Sline) (h : SlineOK s) : Vterm.rightEcho s = zRightEcho s.toZip := by
  have hr := toZip_right_length s h
  have hc := h.cur
  unfold Vterm.rightEcho zRightEcho Sline.inRightpos Sline.rightsize
  by_cases he : s.len = s.cursor
  · have : s.toZip.right = [] := List.eq_nil_of_length_eq_zero (by omega)
    simp [he, this]
  · have : s.toZip.right ≠ [] := by intro e; rw [e] at hr; simp at hr; omega
    simp only [he, decide_false, Bool.false_eq_true, if_false, this, hr]
    rfl

theorem echoFor_eq (c : Byte) (ret : Int) (rl : Readline) (h : SlineOK rl.line) :
    Vterm.echoFor c ret rl = zEchoFor c ret rl.lastsize rl.line.toZip := by
  have hl := toZip_line _ h
  have htl := text_length _ h
  unfold Vterm.echoFor zEchoFor
  rw [rightEcho_eq _ h, hl]
  have : (rl.line.len ≠ 0) ↔ (rl.line.text ≠ []) := by
    constructor
    · intro h1 e; rw [e] at htl; simp at htl; omega
    · intro h1 e; apply h1; exact List.eq_nil_of_length_eq_zero (by omega)
  by_cases h0 : rl.line.len = 0
  · have ht : rl.line.text = [] := List.eq_nil_of_length_eq_zero (by omega)
    simp [h0, ht]
  · have ht : rl.line.text ≠ [] := this.mp h0
    simp only [ne_eq, h0, not_false_eq_true, if_true, ht]
    rfl

namespace Screen

/-- printing the right part and moving back, cursor at `|A|`, at most `|R|` stale cells after it -/
theorem feed_rightEcho (A B L R : List Byte) (hR : AllP R) (hB : B.length ≤ R.length) :
    (Screen.mk (A ++ B) A.length .ground).feed (zRightEcho ⟨L, R⟩) = ⟨A ++ R, A.length, .ground⟩ := by
  unfold zRightEcho
  by_cases h : R = []
  · subst h
    have : B = [] := List.eq_nil_of_length_eq_zero (by simpa using hB)
    subst this
    simp [feed_nil]
  · simp only [h, if_false]
    rw [feed_append, feed_print A B R hR, feed_left _ rfl _ (by
      cases R with
      | nil => exact absurd rfl h
      | cons a as => simp)]
    have : B.drop R.length = [] := List.drop_eq_nil_of_le hB
    simp [this]

/-- the screen that shows `P ++ line` with the cursor at the line's cursor -/
def showing (P : List Byte) (z : Zip) : Screen := ⟨(P ++ z.left) ++ z.right, (P ++ z.left).length, .ground⟩

/-- ONE KEY'S ECHO REDRAWS THE LINE: whatever the return code, feeding the bytes
the terminal echoes for it to a screen that showed the old line makes it show
the new line with the cursor in the right column -/
theorem echo_shows (P : List Byte) (z z' : Zip) (c : Byte) (ret : Int) (lastsize : Nat)
    (hrel : EchoRel c ret lastsize z z') (hnn : ret ≠ RL_NEWLINE)
    (hc : ret = RL_ECHOCHAR → isPrintable c = true)
    (hzr : AllP z.right) (hzl' : AllP z'.left) :
    (showing P z).feed (zEchoFor c ret lastsize z') = showing P z' := by
  obtain ⟨L, R⟩ := z
  obtain ⟨L', R'⟩ := z'
  simp only at hzr hzl'
  unfold showing zEchoFor
  simp only
  rcases hrel with ⟨e, hz⟩ | ⟨e, hne, hz⟩ | ⟨e, hne, hz⟩ | ⟨e, hne, hz⟩ | ⟨e, hne, hz⟩ | ⟨e, hr, hls⟩ | ⟨e, hz⟩
  · -- a character was typed
    simp only [Zip.mk.injEq] at hz
    obtain ⟨h1, h2⟩ := hz
    rw [h1, h2, if_pos e]
    rw [feed_append, feed_print (P ++ L) R [c] (by intro b hb; simp at hb; rw [hb]; exact hc e)]
    have := feed_rightEcho (P ++ L ++ [c]) (R.drop 1) (L ++ [c]) R hzr (by simp)
    simp only [List.length_append, List.length_cons, List.length_nil, Nat.zero_add] at this ⊢
    rw [this]
    simp only [List.append_assoc, Screen.mk.injEq, and_true, true_and]
    omega
  · -- backspace
    simp only [Zip.mk.injEq] at hz
    obtain ⟨h1, h2⟩ := hz
    simp only at hne
    rw [h1, h2]
    have hLs : L = L.take (L.length - 1) ++ L.drop (L.length - 1) := (List.take_append_drop _ _).symm
    rw [e, if_neg (by decide), if_pos rfl, feed_append, feed_append, feed_LEFT _ rfl, feed_ERASE _ rfl]
    simp only
    have hcol : (P ++ L).length - 1 = (P ++ L.take (L.length - 1)).length := by
      cases L with
      | nil => exact absurd rfl hne
      | cons a as => simp <;> omega
    rw [hcol]
    have htake : ((P ++ L) ++ R).take (P ++ L.take (L.length - 1)).length = P ++ L.take (L.length - 1) := by
      conv => lhs; arg 2; rw [hLs]
      rw [← List.append_assoc P, List.append_assoc _ _ R, List.take_left']
      rfl
    rw [htake]
    have := feed_rightEcho (P ++ L.take (L.length - 1)) [] (L.take (L.length - 1)) R hzr (by simp)
    simp only [List.append_nil] at this
    rw [this]
  · -- delete
    simp only [Zip.mk.injEq] at hz
    obtain ⟨h1, h2⟩ := hz
    rw [h1, h2, e, if_neg (by decide), if_neg (by decide), if_neg (by decide), if_neg (by decide), if_neg (by decide),
      if_pos rfl, feed_append, feed_ERASE _ rfl]
    simp only
    rw [List.take_left' rfl]
    have := feed_rightEcho (P ++ L) [] L (R.drop 1) (AllP_drop 1 hzr) (by simp)
    simp only [List.append_nil] at this
    rw [this]
  · -- left
    simp only at hne
    unfold Zip.moveLeft at hz
    simp only [hne, if_false, Zip.mk.injEq] at hz
    obtain ⟨h1, h2⟩ := hz
    rw [h1, h2, e, if_neg (by decide), if_neg (by decide), if_neg (by decide), if_pos rfl, feed_LEFT _ rfl]
    simp only [Screen.mk.injEq, and_true]
    constructor
    · have : L.take (L.length - 1) ++ L.drop (L.length - 1) = L := List.take_append_drop _ _
      conv => lhs; rw [← this]
      simp only [List.append_assoc]
    · cases L with
      | nil => exact absurd rfl hne
      | cons a as => simp <;> omega
  · -- right
    simp only at hne
    unfold Zip.moveRight at hz
    simp only [hne, if_false, Zip.mk.injEq] at hz
    obtain ⟨h1, h2⟩ := hz
    rw [h1, h2, e, if_neg (by decide), if_neg (by decide), if_pos rfl, feed_RIGHT _ rfl]
    simp only [Screen.mk.injEq, and_true]
    constructor
    · have : R.take 1 ++ R.drop 1 = R := List.take_append_drop _ _
      conv => lhs; rw [← this]
      simp only [List.append_assoc]
    · cases R with
      | nil => exact absurd rfl hne
      | cons a as => simp <;> omega
  · -- another history line
    simp only at hr hls
    rw [hr, hls, e, if_neg (by decide), if_neg (by decide), if_neg (by decide), if_neg (by decide), if_pos rfl,
      feed_append, feed_append]
    have h1 : (Screen.mk ((P ++ L) ++ R) (P ++ L).length .ground).feed
        (if L.length ≠ 0 then vt100Left L.length else []) = ⟨(P ++ L) ++ R, P.length, .ground⟩ := by
      by_cases h0 : L.length = 0
      · have : L = [] := List.eq_nil_of_length_eq_zero h0
        subst this; simp [feed_nil]
      · simp only [ne_eq, h0, not_false_eq_true, if_true]
        rw [feed_left _ rfl _ (by omega)]
        simp
    rw [h1, feed_ERASE _ rfl]
    simp only
    rw [List.append_assoc, List.take_left' rfl]
    have hline : (Zip.mk L' []).line = L' := by simp [Zip.line]
    rw [hline]
    by_cases hl : L' = []
    · subst hl; simp [feed_nil]
    · simp only [ne_eq, hl, not_false_eq_true, if_true]
      have := feed_print P [] L' hzl'
      simp only [List.append_nil] at this
      rw [this]
      simp
  · -- nothing to redraw
    simp only [Zip.mk.injEq] at hz
    obtain ⟨h1, h2⟩ := hz
    rw [h1, h2]
    rcases e with e | e | e
    · rw [e, if_neg (by decide), if_neg (by decide), if_neg (by decide), if_neg (by decide), if_neg (by decide),
        if_neg (by decide), feed_nil]
    · rw [e, if_neg (by decide), if_neg (by decide), if_neg (by decide), if_neg (by decide), if_neg (by decide),
        if_neg (by decide), feed_nil]
    · exact absurd e hnn

end Screen

end Igris.C15
