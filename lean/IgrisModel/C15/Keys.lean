/-
  C15 — an INDEPENDENT reference for the key decoder.

  `Spec.lean`'s `Ref.rlKey` decodes bytes with the same four-state automaton as
  the code.  This file says what the byte stream MEANS without an automaton:
  the typed bytes are cut into key presses by a two-level grammar, and a
  token-level editor (no decoder state at all) consumes the key presses.

  Level 1 — bytes to symbols (`symbols`): Enter is `CR`, `LF`, `CR LF` or
  `LF CR` (the second half of a pair is part of the same key press); Ctrl-C is
  handled by the terminal before the line editor sees it, so it never
  separates the two halves of a pair; every other byte is itself.

  Level 2 — symbols to keys (`keysOf`), longest match from the left:
      ESC [ A | B | C | D          Up, Down, Right, Left
      ESC [ 3 x                    Delete (acts at the `3`; `x`, normally `~`, is consumed)
      ESC [ x , ESC x              unknown sequence: ignored (x any symbol, also Enter)
      Ctrl-C inside a sequence     aborts the sequence and is Ctrl-C
      BS                           Backspace
      anything else                the character itself
  An unfinished sequence at the end of the input has no effect yet.

  `Ed` is the editor over key presses: the zipper, the remembered lines, the
  browse position.  Lemmas10 proves that the byte-level reference `Ref` (hence,
  by `readline_line`, the code) is exactly `Ed` after `keysOf ∘ symbols`.
-/
import IgrisModel.C15.Spec
namespace Igris.C15
open Igris.Proto

inductive Sym
  | nl                -- one press of Enter
  | intr              -- Ctrl-C
  | b (c : Byte)      -- any other byte
deriving DecidableEq, Repr

/-- level 1; `p` = the byte that would be the second half of the Enter just seen -/
def symbols : Option Byte → List Byte → List Sym
  | _, [] => []
  | p, c :: r =>
    if c = ETX then Sym.intr :: symbols p r
    else if c = CR ∨ c = LF then
      if p = some c then symbols none r
      else Sym.nl :: symbols (some (if c = CR then LF else CR)) r
    else Sym.b c :: symbols none r

inductive Key
  | char (c : Byte) | enter | backspace | up | down | left | right | delete | interrupt
deriving DecidableEq, Repr

/-- level 2 -/
def keysOf : List Sym → List Key
  | [] => []
  | .intr :: r => Key.interrupt :: keysOf r
  | .nl :: r => Key.enter :: keysOf r
  | .b c :: r =>
    if c = BS then Key.backspace :: keysOf r
    else if c ≠ ESC then Key.char c :: keysOf r
    else
      match r with
      | [] => []
      | .intr :: r1 => Key.interrupt :: keysOf r1
      | .nl :: r1 => keysOf r1
      | .b d :: r1 =>
        if d ≠ 0x5b then keysOf r1
        else
          match r1 with
          | [] => []
          | .intr :: r2 => Key.interrupt :: keysOf r2
          | .nl :: r2 => keysOf r2
          | .b e :: r2 =>
            if e = 0x41 then Key.up :: keysOf r2
            else if e = 0x42 then Key.down :: keysOf r2
            else if e = 0x43 then Key.right :: keysOf r2
            else if e = 0x44 then Key.left :: keysOf r2
            else if e = 0x33 then
              Key.delete ::
                (match r2 with
                 | [] => []
                 | .intr :: r3 => Key.interrupt :: keysOf r3
                 | _ :: r3 => keysOf r3)
            else keysOf r2

/-- the key presses a byte sequence typed at a fresh terminal consists of -/
def keyPresses (ks : List Byte) : List Key := keysOf (symbols none ks)

/-- the editor over key presses -/
structure Ed where
  z : Zip
  hist : List (List Byte)
  browse : Nat
deriving DecidableEq, Repr

namespace Ed

def init (depth : Nat) : Ed := ⟨Zip.empty, List.replicate depth [], 0⟩

def key (cap : Nat) (e : Ed) : Key → Ed × List Ev
  | .char c => ({ e with z := (e.z.putchar cap c).1 }, [])
  | .backspace => ({ e with z := (e.z.backspace 1).1 }, [])
  | .delete => ({ e with z := (e.z.delete 1).1 }, [])
  | .left => ({ e with z := e.z.moveLeft.1 }, [])
  | .right => ({ e with z := e.z.moveRight.1 }, [])
  | .up =>
    if e.browse < e.hist.length then ({ e with z := ⟨e.hist.getD e.browse [], []⟩, browse := e.browse + 1 }, [])
    else (e, [])
  | .down =>
    if e.browse = 0 then (e, [])
    else if e.browse = 1 then ({ e with z := Zip.empty, browse := 0 }, [])
    else ({ e with z := ⟨e.hist.getD (e.browse - 2) [], []⟩, browse := e.browse - 1 }, [])
  | .enter => (⟨Zip.empty, Ref.remember e.hist e.z.line, 0⟩, [Ev.exec e.z.line])
  | .interrupt => ({ e with z := Zip.empty, browse := 0 }, [Ev.sigint])

def run (cap : Nat) (e : Ed) (ks : List Key) : Ed := ks.foldl (fun e k => (e.key cap k).1) e

def events (cap : Nat) : Ed → List Key → List Ev
  | _, [] => []
  | e, k :: ks => (e.key cap k).2 ++ events cap (e.key cap k).1 ks

end Ed

end Igris.C15
