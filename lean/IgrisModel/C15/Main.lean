import IgrisModel.C15.Drv
def main : IO Unit := Igris.Proto.run () Igris.C15.stepLine
