/-
  Line protocol shared by every model driver.

  A driver reads one operation per line from stdin and writes exactly one
  result line per operation to stdout.  Core Lean only (no Mathlib) so that the
  drivers link as `lean_exe`s.
-/
namespace Igris.Proto

abbrev Byte := BitVec 8

def hexDigit (n : Nat) : Char :=
  if n < 10 then Char.ofNat (48 + n) else Char.ofNat (87 + n)

def hexOfNat (width : Nat) (n : Nat) : String :=
  String.mk ((List.range width).reverse.map fun i => hexDigit ((n >>> (4 * i)) % 16))

def byteHex (b : Byte) : String := hexOfNat 2 b.toNat

/-- bytes → lower-case hex, `-` for the empty string (so a field is never empty) -/
def bytesHex (bs : List Byte) : String :=
  if bs.isEmpty then "-" else String.join (bs.map byteHex)

def hexVal? (c : Char) : Option Nat :=
  if '0' ≤ c ∧ c ≤ '9' then some (c.toNat - 48)
  else if 'a' ≤ c ∧ c ≤ 'f' then some (c.toNat - 87)
  else if 'A' ≤ c ∧ c ≤ 'F' then some (c.toNat - 55)
  else none

def parseHexNat? (s : String) : Option Nat :=
  if s.isEmpty then none else
  s.toList.foldl (fun acc c => do let a ← acc; let d ← hexVal? c; pure (a * 16 + d)) (some 0)

def parseBytesAux : List Char → Option (List Byte)
  | [] => some []
  | [_] => none
  | a :: b :: rest => do
      let x ← hexVal? a
      let y ← hexVal? b
      let tl ← parseBytesAux rest
      pure (BitVec.ofNat 8 (x * 16 + y) :: tl)

/-- inverse of `bytesHex` -/
def parseBytes? (s : String) : Option (List Byte) :=
  if s = "-" then some [] else parseBytesAux s.toList

def parseInt? (s : String) : Option Int := s.toInt?

def words (line : String) : List String :=
  (line.trimAscii.toString.splitOn " ").filter (· ≠ "")

/-- generic read-eval-print loop over stdin -/
partial def loop {σ : Type} (h : IO.FS.Stream) (out : IO.FS.Stream)
    (step : σ → String → σ × String) (s : σ) : IO Unit := do
  let line ← h.getLine
  if line.isEmpty then
    out.flush
    return ()
  let (s', r) := step s line
  out.putStrLn r
  loop h out step s'

def run {σ : Type} (init : σ) (step : σ → String → σ × String) : IO Unit := do
  let i ← IO.getStdin
  let o ← IO.getStdout
  loop i o step init

end Igris.Proto
