/-
  C13 — property theorems for `print_f` (%f %F %e %E %g %G of igris/util/printf_impl.c).

  `printF A cfg fuel r nanNeg width precision ops withExp isShort` is the model of
  print_f over an arbitrary arithmetic instance `A : Arith α`; `cfgNow` are the constants
  of the repaired code, `cfgOrig` the original code.  Theorems quantified over `A` hold
  for exact arithmetic, for the software binary64 the driver runs, and for any other
  implementation of the interface.

  NOT proved here (kept as statements, carried by the correspondence stream and the
  harness oracle only):
    * print_f_buffer_iff — for the ORIGINAL, unguarded code: the run faults iff
      1 + exponent text + separator + fraction digits + point + integer digits > 65.
      Only the two directions actually used are proved: the repaired code never faults
      (`print_f_safe`, all instances) and the original code does fault on a concrete
      argument (`print_f_safe_orig_witness`).
    * print_f_exact_Q — over `exactA`, %.pf prints round-half-away(r * 10^p) / 10^p and
      %e the normalised mantissa/exponent.  Only evaluated on samples (`example`s below,
      kernel-checked), not proved for all rationals.
    * termination of the two normalisation loops `while (ip >= base)` / `while (ip == 0)`
      for finite arguments: over binary64 they need at most 308 / 324 passes; the model
      runs them with fuel 1200 and would print `diverged`, the harness has a 3 s watchdog.
      Every other loop of print_f is bounded by a constant of the configuration or by
      `precision` by construction (structural recursion in the model).
-/
import IgrisModel.C13.Lemmas
namespace Igris.C13
open Igris.C06 (Ops NUL)

/-- **print_f_safe** — the repaired print_f never stores a byte outside `buff`: for every
arithmetic instance (exact, binary64, anything else), every argument (NaN and infinities
included), every width/precision/flag combination and each of f/e/g. -/
theorem print_f_safe {α : Type} (A : Arith α) (fuel : Nat) (r : α) (nanNeg : Bool) (width precision : Int)
    (ops : Ops) (withExp isShort : Bool) :
    printF A cfgNow fuel r nanNeg width precision ops withExp isShort ≠ .error .fault := by
  have := good_printF A cfgNow rfl cfgNow_fits fuel r nanNeg width precision ops withExp isShort
  intro h
  rw [h] at this
  simp at this

/-- the same for any choice of the three constants that satisfies
`max EXP_MAX 1 + FRAC_MAX + 7 ≤ BUFF_SZ` (the relation the repaired macro encodes) -/
theorem print_f_safe_cfg {α : Type} (A : Arith α) (cfg : Cfg) (hr : cfg.repaired = true) (hfit : cfg.Fits)
    (fuel : Nat) (r : α) (nanNeg : Bool) (width precision : Int) (ops : Ops) (withExp isShort : Bool) :
    printF A cfg fuel r nanNeg width precision ops withExp isShort ≠ .error .fault := by
  have := good_printF A cfg hr hfit fuel r nanNeg width precision ops withExp isShort
  intro h
  rw [h] at this
  simp at this

/-- **print_f_count** — the value print_f returns is the number of characters it handed to
the callback (all instances, all arguments). -/
theorem print_f_count {α : Type} (A : Arith α) (fuel : Nat) (r : α) (nanNeg : Bool) (width precision : Int)
    (ops : Ops) (withExp isShort : Bool) (out : List Char) (pc : Int)
    (h : printF A cfgNow fuel r nanNeg width precision ops withExp isShort = .ok (out, pc)) :
    pc = out.length := by
  cases hfin : (A.isnan r || A.isinf r) with
  | false =>
    obtain ⟨d, b, _, _, hl⟩ := printF_finite_ok (cfg := cfgNow) rfl hfin h
    exact (layout_spec rfl hl).2.2
  | true =>
    unfold printF at h
    simp only [hfin, cfgNow, Bool.and_true, if_true] at h
    unfold nonFinite at h
    exact nonFinite_aux_count _ _ _ _ _ _ _ h

/-- **print_f_layout** — for a finite argument the emitted text is
`specLayout`: sign by the minus / plus / space rule, then the buffered digits (integer digits, point,
generated fraction digits), then `precision - generated` zeros (none for %g without #),
then the exponent text, padded to `width` on the right (`-`), with zeros after the sign (`0`)
or with blanks on the left. -/
theorem print_f_layout {α : Type} (A : Arith α) (fuel : Nat) (r : α) (nanNeg : Bool) (width precision : Int)
    (ops : Ops) (withExp isShort : Bool) (out : List Char) (pc : Int)
    (hfin : (A.isnan r || A.isinf r) = false)
    (h : printF A cfgNow fuel r nanNeg width precision ops withExp isShort = .ok (out, pc)) :
    ∃ (d : Digits α) (b : Buf),
      digitsOf A cfgNow fuel (if A.signbit r then A.neg r else r) precision ops withExp isShort = .ok d ∧
      fillBuf A cfgNow ops isShort d = .ok b ∧
      ((d.signCount : Int) ≤ d.precision ∨ (isShort && !ops.spec) = true) ∧
      out = specLayout ops width (signText (A.signbit r) ops) b.body
              (if isShort && !ops.spec then 0 else d.precision - d.signCount).toNat
              (b.post.take (cstrlen b.post)) ∧
      (out.length : Int) = max width ((signText (A.signbit r) ops).length + b.body.length +
              (if isShort && !ops.spec then 0 else d.precision - d.signCount).toNat + cstrlen b.post : Nat) := by
  obtain ⟨d, b, hd, hb, hl⟩ := printF_finite_ok (cfg := cfgNow) rfl hfin h
  obtain ⟨hz, ho, _⟩ := layout_spec rfl hl
  refine ⟨d, b, hd, hb, ?_, ho, ?_⟩
  · by_cases hs : (isShort && !ops.spec) = true
    · exact Or.inr hs
    · left; simp only [hs] at hz; simp at hz; omega
  · rw [ho, specLayout_length]
    have hc := cstrlen_le b.post
    simp [List.length_take, Nat.min_eq_left hc]


/-- **print_f_terminates (non-finite arguments)** — for NaN and both infinities the repaired
print_f returns (no loop is entered), whatever the fuel, flags, width, precision and conversion. -/
theorem print_f_nonfinite_total {α : Type} (A : Arith α) (fuel : Nat) (r : α) (nanNeg : Bool) (width precision : Int)
    (ops : Ops) (withExp isShort : Bool) (h : (A.isnan r || A.isinf r) = true) :
    ∃ out pc, printF A cfgNow fuel r nanNeg width precision ops withExp isShort = .ok (out, pc) := by
  unfold printF
  simp only [h, cfgNow, Bool.and_true, if_true]
  obtain ⟨v, hv⟩ := nonFinite_total A { size := 352, fracMax := 340, expMax := 5, repaired := true } (by decide) r nanNeg width ops
  exact ⟨v.1, v.2, hv⟩

/-- what the repaired code prints for +inf with `%e` and for a negative NaN with `%+10F` -/
example : resOf (printF exactA cfgNow 0 (.inf false) false 0 0 {} true false) = .done "inf".toList 3 := by decide +kernel
example : resOf (printF exactA cfgNow 0 .nan true 10 0 { sign := true, upper := true } false false)
    = .done "      -NAN".toList 10 := by decide +kernel

/-- **historical witness** — the original `%e` of +inf never leaves `while (ip >= base)`:
the model diverges for EVERY fuel. -/
theorem print_f_inf_diverges_orig (fuel : Nat) (width precision : Int) :
    printF exactA cfgOrig fuel (.inf false) false width precision {} true false = .error .diverged := by
  have h := normDown_inf fuel exactA.zero
  unfold printF
  have e1 : cfgOrig.repaired = false := rfl
  have e2 : exactA.isnan (.inf false) = false := rfl
  have e3 : exactA.signbit (.inf false) = false := rfl
  have e4 : exactA.modf (.inf false) = (.fin false 0, .inf false) := rfl
  simp only [e1, e2, e3, Bool.false_and, Bool.false_eq_true, if_false, Bool.not_false, Bool.and_false]
  unfold digitsOf
  simp [e4, h, bind, Except.bind]

/-- **historical witnesses** (kernel-evaluated on the model of the ORIGINAL code, exact arithmetic):
`%f` of 10^70 runs off the 65-byte buffer; the repaired code prints all 71 digits -/
theorem print_f_safe_orig_witness :
    resOf (printF exactA cfgOrig 0 (.fin false ((10 : Rat) ^ 70)) false 0 0 {} false false) = .fault := by
  decide +kernel

theorem print_f_1e70_now :
    resOf (printF exactA cfgNow 0 (.fin false ((10 : Rat) ^ 70)) false 0 0 {} false false)
      = .done ("1".toList ++ List.replicate 70 '0' ++ ".000000".toList) 78 := by
  decide +kernel

/-- `%.100f` of 10^-80 ran off the buffer as well (fraction digits) -/
theorem print_f_safe_orig_witness_frac :
    resOf (printF exactA cfgOrig 0 (.fin false (1 / (10 : Rat) ^ 80)) false 0 100 { prec := true } false false) = .fault := by
  decide +kernel

/-- the original code printed NaN as 0.000000 -/
theorem print_f_nan_orig_witness :
    resOf (printF exactA cfgOrig 0 .nan false 0 0 {} false false) = .done "0.000000".toList 8 := by
  decide +kernel

/-- the original code with both `-` and `0`: `while (pad_count--)` started from -1 -/
theorem print_f_minus_zero_orig_witness :
    resOf (printF exactA cfgOrig 0 (.fin false 0) false 0 0 { left := true, zero := true } false false) = .diverged := by
  decide +kernel

/-- **finding C13-g-style-carry, on the model**: `%g` of 999999.5 prints 1000000 (ISO: 1e+06) -/
theorem print_f_g_style_carry_witness :
    resOf (printF exactA cfgNow 50 (.fin false (1999999 / 2)) false 0 0 {} false true) = .done "1000000".toList 7 := by
  decide +kernel

/-! exact arithmetic, samples (tests of `print_f_exact_Q`, not the general claim) -/
example : resOf (printF exactA cfgNow 50 (.fin true (314159 / 100000)) false 10 3 { prec := true } false false)
    = .done "    -3.142".toList 10 := by decide +kernel
example : resOf (printF exactA cfgNow 50 (.fin false (12345678 / 1000)) false 0 0 {} true false)
    = .done "1.234568e+04".toList 12 := by decide +kernel
example : resOf (printF exactA cfgNow 50 (.fin false (1 / 8)) false 8 2 { prec := true, zero := true, sign := true } false false)
    = .done "+0000.13".toList 8 := by decide +kernel
example : resOf (printF exactA cfgNow 50 (.fin false (1 / 10000)) false 0 0 {} false true) = .done "0.0001".toList 6 := by decide +kernel
example : resOf (printF exactA cfgNow 50 (.fin false (99999 / 100000)) false 0 2 { prec := true } true false)
    = .done "1.00e+00".toList 8 := by decide +kernel

end Igris.C13
