/-
  C13 — property theorems for `print_f` (%f %F %e %E %g %G of igris/util/printf_impl.c).

  `printF A cfg fuel r nanNeg width precision ops withExp isShort` is the model of
  print_f over an arbitrary arithmetic instance `A : Arith α`; `cfgNow` are the constants
  of the repaired code, `cfgOrig` the original code.  Theorems quantified over `A` hold
  for exact arithmetic, for the software binary64 the driver runs, and for any other
  implementation of the interface.

  What is and is not proved is listed in notes/C13.md and checks/C13.json (level_text).  In short:
  safety / count / layout for EVERY arithmetic instance; for binary64 (and every rounding with the
  laws `Lawful`, resp. `Lawful` + `Sharp`): totality, the ISO shape of the %f/%e text against the
  independent predicate `isoShape`, that the buffer guard never truncates, and the accumulated
  rounding error of the digit generation (half a unit + 2*K*u*x).  NOT proved: print_f_buffer_iff for the
  unguarded original (only its two used directions), the shape of %g (finding C13-g-style-carry; witness
  `print_f_iso_shape_g_witness`), that the digit emission loops print exactly the decimal expansion
  of the numbers handed to them, the error bound for denormals / precision > 22 over binary64 / %g,
  the tight pass counts 308 / 324.
-/
import IgrisModel.C13.Lemmas
import IgrisModel.C13.Total2
import IgrisModel.C13.ShapeMain
import IgrisModel.C13.ErrBound
import IgrisModel.C13.Round3
import IgrisModel.C13.Round3b
namespace Igris.C13
open Igris.C06 (Ops NUL)

/-- **print_f_safe** — the repaired print_f never stores a byte outside `buff`: for every
arithmetic instance (exact, binary64, anything else), every argument (NaN and infinities
included), every width/precision/flag combination and each of f/e/g. -/
theorem print_f_safe {α : Type} (A : Arith α) (fuel : Nat) (r : α) (nanNeg : Bool) (width precision : Int)
    (ops : Ops) (withExp isShort : Bool) :
    printF A cfgNow fuel r nanNeg width precision ops withExp isShort ≠ .error .fault := by
  have := good_printF A cfgNow rfl cfgNow_fits fuel r nanNeg width precision ops withExp isShort
  intro h
  rw [h] at this
  simp at this

/-- the same for any choice of the three constants that satisfies
`max EXP_MAX 1 + FRAC_MAX + 7 ≤ BUFF_SZ` (the relation the repaired macro encodes) -/
theorem print_f_safe_cfg {α : Type} (A : Arith α) (cfg : Cfg) (hr : cfg.repaired = true) (hfit : cfg.Fits)
    (fuel : Nat) (r : α) (nanNeg : Bool) (width precision : Int) (ops : Ops) (withExp isShort : Bool) :
    printF A cfg fuel r nanNeg width precision ops withExp isShort ≠ .error .fault := by
  have := good_printF A cfg hr hfit fuel r nanNeg width precision ops withExp isShort
  intro h
  rw [h] at this
  simp at this

/-- **print_f_count** — the value print_f returns is the number of characters it handed to
the callback (all instances, all arguments). -/
theorem print_f_count {α : Type} (A : Arith α) (fuel : Nat) (r : α) (nanNeg : Bool) (width precision : Int)
    (ops : Ops) (withExp isShort : Bool) (out : List Char) (pc : Int)
    (h : printF A cfgNow fuel r nanNeg width precision ops withExp isShort = .ok (out, pc)) :
    pc = out.length := by
  cases hfin : (A.isnan r || A.isinf r) with
  | false =>
    obtain ⟨d, b, _, _, hl⟩ := printF_finite_ok (cfg := cfgNow) rfl hfin h
    exact (layout_spec rfl hl).2.2
  | true =>
    unfold printF at h
    simp only [hfin, cfgNow, Bool.and_true, if_true] at h
    unfold nonFinite at h
    exact nonFinite_aux_count _ _ _ _ _ _ _ h

/-- **print_f_layout** — for a finite argument the emitted text is
`specLayout`: sign by the minus / plus / space rule, then the buffered digits (integer digits, point,
generated fraction digits), then `precision - generated` zeros (none for %g without #),
then the exponent text, padded to `width` on the right (`-`), with zeros after the sign (`0`)
or with blanks on the left. -/
theorem print_f_layout {α : Type} (A : Arith α) (fuel : Nat) (r : α) (nanNeg : Bool) (width precision : Int)
    (ops : Ops) (withExp isShort : Bool) (out : List Char) (pc : Int)
    (hfin : (A.isnan r || A.isinf r) = false)
    (h : printF A cfgNow fuel r nanNeg width precision ops withExp isShort = .ok (out, pc)) :
    ∃ (d : Digits α) (b : Buf),
      digitsOf A cfgNow fuel (if A.signbit r then A.neg r else r) precision ops withExp isShort = .ok d ∧
      fillBuf A cfgNow ops isShort d = .ok b ∧
      ((d.signCount : Int) ≤ d.precision ∨ (isShort && !ops.spec) = true) ∧
      out = specLayout ops width (signText (A.signbit r) ops) b.body
              (if isShort && !ops.spec then 0 else d.precision - d.signCount).toNat
              (b.post.take (cstrlen b.post)) ∧
      (out.length : Int) = max width ((signText (A.signbit r) ops).length + b.body.length +
              (if isShort && !ops.spec then 0 else d.precision - d.signCount).toNat + cstrlen b.post : Nat) := by
  obtain ⟨d, b, hd, hb, hl⟩ := printF_finite_ok (cfg := cfgNow) rfl hfin h
  obtain ⟨hz, ho, _⟩ := layout_spec rfl hl
  refine ⟨d, b, hd, hb, ?_, ho, ?_⟩
  · by_cases hs : (isShort && !ops.spec) = true
    · exact Or.inr hs
    · left; simp only [hs] at hz; simp at hz; omega
  · rw [ho, specLayout_length]
    have hc := cstrlen_le b.post
    simp [List.length_take, Nat.min_eq_left hc]


/-- **print_f_terminates (non-finite arguments)** — for NaN and both infinities the repaired
print_f returns (no loop is entered), whatever the fuel, flags, width, precision and conversion. -/
theorem print_f_nonfinite_total {α : Type} (A : Arith α) (fuel : Nat) (r : α) (nanNeg : Bool) (width precision : Int)
    (ops : Ops) (withExp isShort : Bool) (h : (A.isnan r || A.isinf r) = true) :
    ∃ out pc, printF A cfgNow fuel r nanNeg width precision ops withExp isShort = .ok (out, pc) := by
  unfold printF
  simp only [h, cfgNow, Bool.and_true, if_true]
  obtain ⟨v, hv⟩ := nonFinite_total A { size := 352, fracMax := 340, expMax := 5, repaired := true } (by decide) r nanNeg width ops
  exact ⟨v.1, v.2, hv⟩

/-- what the repaired code prints for +inf with `%e` and for a negative NaN with `%+10F` -/
example : resOf (printF exactA cfgNow 0 (.inf false) false 0 0 {} true false) = .done "inf".toList 3 := by decide +kernel
example : resOf (printF exactA cfgNow 0 .nan true 10 0 { sign := true, upper := true } false false)
    = .done "      -NAN".toList 10 := by decide +kernel

/-- **historical witness** — the original `%e` of +inf never leaves `while (ip >= base)`:
the model diverges for EVERY fuel. -/
theorem print_f_inf_diverges_orig (fuel : Nat) (width precision : Int) :
    printF exactA cfgOrig fuel (.inf false) false width precision {} true false = .error .diverged := by
  have h := normDown_inf fuel exactA.zero
  unfold printF
  have e1 : cfgOrig.repaired = false := rfl
  have e2 : exactA.isnan (.inf false) = false := rfl
  have e3 : exactA.signbit (.inf false) = false := rfl
  have e4 : exactA.modf (.inf false) = (.fin false 0, .inf false) := rfl
  simp only [e1, e2, e3, Bool.false_and, Bool.false_eq_true, if_false, Bool.not_false, Bool.and_false]
  unfold digitsOf
  simp [e4, h, bind, Except.bind]

/-- **historical witnesses** (kernel-evaluated on the model of the ORIGINAL code, exact arithmetic):
`%f` of 10^70 runs off the 65-byte buffer; the repaired code prints all 71 digits -/
theorem print_f_safe_orig_witness :
    resOf (printF exactA cfgOrig 0 (.fin false ((10 : Rat) ^ 70)) false 0 0 {} false false) = .fault := by
  decide +kernel

theorem print_f_1e70_now :
    resOf (printF exactA cfgNow 0 (.fin false ((10 : Rat) ^ 70)) false 0 0 {} false false)
      = .done ("1".toList ++ List.replicate 70 '0' ++ ".000000".toList) 78 := by
  decide +kernel

/-- `%.100f` of 10^-80 ran off the buffer as well (fraction digits) -/
theorem print_f_safe_orig_witness_frac :
    resOf (printF exactA cfgOrig 0 (.fin false (1 / (10 : Rat) ^ 80)) false 0 100 { prec := true } false false) = .fault := by
  decide +kernel

/-- the original code printed NaN as 0.000000 -/
theorem print_f_nan_orig_witness :
    resOf (printF exactA cfgOrig 0 .nan false 0 0 {} false false) = .done "0.000000".toList 8 := by
  decide +kernel

/-- the original code with both `-` and `0`: `while (pad_count--)` started from -1 -/
theorem print_f_minus_zero_orig_witness :
    resOf (printF exactA cfgOrig 0 (.fin false 0) false 0 0 { left := true, zero := true } false false) = .diverged := by
  decide +kernel

/-- **finding C13-g-style-carry, on the model**: `%g` of 999999.5 prints 1000000 (ISO: 1e+06) -/
theorem print_f_g_style_carry_witness :
    resOf (printF exactA cfgNow 50 (.fin false (1999999 / 2)) false 0 0 {} false true) = .done "1000000".toList 7 := by
  decide +kernel

/-! exact arithmetic, samples (tests of `print_f_exact_Q`, not the general claim) -/
example : resOf (printF exactA cfgNow 50 (.fin true (314159 / 100000)) false 10 3 { prec := true } false false)
    = .done "    -3.142".toList 10 := by decide +kernel
example : resOf (printF exactA cfgNow 50 (.fin false (12345678 / 1000)) false 0 0 {} true false)
    = .done "1.234568e+04".toList 12 := by decide +kernel
example : resOf (printF exactA cfgNow 50 (.fin false (1 / 8)) false 8 2 { prec := true, zero := true, sign := true } false false)
    = .done "+0000.13".toList 8 := by decide +kernel
example : resOf (printF exactA cfgNow 50 (.fin false (1 / 10000)) false 0 0 {} false true) = .done "0.0001".toList 6 := by decide +kernel
example : resOf (printF exactA cfgNow 50 (.fin false (99999 / 100000)) false 0 2 { prec := true } true false)
    = .done "1.00e+00".toList 8 := by decide +kernel

/-! ## Extension: first-class binary64 arithmetic, totality (termination) for finite arguments -/

/-- a non-negative magnitude is a binary64 value: it is a fixed point of round-to-nearest-even -/
def IsB64 (x : ℚ) : Prop := 0 ≤ x ∧ rnd64 x = some x

/-- **b64_rounding_half_ulp** — every finite result of the model's binary64 rounding lies within
half a unit of the last place of the exact value (the unit is 2^(⌊log₂ q⌋-52), at least 2^-1074). -/
theorem b64_rounding_half_ulp {q v : ℚ} (hq : 0 < q) (h : rnd64 q = some v) :
    |v - q| ≤ pow2 (max (ilog2 q - 52) (-1074)) / 2 := rnd64_err hq h

/-- **b64_one_plus_delta** — the standard model of floating-point arithmetic: in the normal range
`rnd(q) = q (1 + δ)` with `|δ| ≤ 2^-53`.  Every `+ * /` of `b64A` is `rnd64` of the exact result
(`b64_ops_are_rounded_exact`), so this is the error of one operation of `print_f`. -/
theorem b64_one_plus_delta {q v : ℚ} (hq : pow2 (-1022) ≤ q) (h : rnd64 q = some v) :
    |v - q| ≤ q * pow2 (-53) := rnd64_rel hq h
example : rnd64 (1 / 10) = some (3602879701896397 / 36028797018963968) := by decide +kernel

/-- **b64_ops_are_rounded_exact** — multiplication, division and (for a non-zero sum) addition of
finite values in the model are the exact rational result, rounded once. -/
theorem b64_ops_are_rounded_exact (na nb : Bool) (a b : ℚ) :
    b64A.mul (.fin na a) (.fin nb b) = FV.mk rnd64 (na != nb) (a * b) ∧
    (b ≠ 0 → b64A.div (.fin na a) (.fin nb b) = FV.mk rnd64 (na != nb) (a / b)) ∧
    (0 < FV.sval na a + FV.sval nb b →
      b64A.add (.fin na a) (.fin nb b) = FV.mk rnd64 false (FV.sval na a + FV.sval nb b)) := by
  rw [b64A_eq]
  refine ⟨rfl, fun hb => ?_, fun hs => ?_⟩
  · simp only [arithP_div]
    simp [FV.div, hb]
  · simp only [arithP_add, FV.add]
    rw [if_neg (ne_of_gt hs), if_neg (not_lt.mpr (le_of_lt hs))]

/-- **b64_representable** — `k·2^E` with `k ≤ 2^53`, `E ≥ -1074`, below 2^1024 is a binary64 value
(in particular every value `ofBits` decodes), and every result of the rounding has this form. -/
theorem b64_representable {k : ℕ} {E : ℤ} (hk : k ≤ 2 ^ 53) (hE : -1074 ≤ E) (hlt : (k : ℚ) * pow2 E < pow2 1024) :
    IsB64 ((k : ℚ) * pow2 E) :=
  And.intro (mul_nonneg (Nat.cast_nonneg k) (le_of_lt (pow2_pos E))) (rnd64_fix hk hE hlt)

theorem b64_result_form {q v : ℚ} (hq : 0 < q) (h : rnd64 q = some v) :
    ∃ k : ℕ, k ≤ 2 ^ 53 ∧ v = (k : ℚ) * pow2 (max (ilog2 q - 52) (-1074)) ∧ v < pow2 1024 := rnd64_form hq h

/-- the magnitude range of binary64 in the form the termination measure uses -/
theorem b64_range {x : ℚ} (h : IsB64 x) : x < 10 * 8 ^ 358 ∧ (x = 0 ∨ 1 ≤ x * 8 ^ 358) := by
  obtain ⟨h0, hx⟩ := h
  have e8 : (8 : ℚ) ^ 358 = pow2 1074 := by
    rw [show (8 : ℚ) = 2 ^ 3 by norm_num, ← pow_mul, show (1074 : ℤ) = ((3 * 358 : ℕ) : ℤ) by norm_num, pow2_nat]
  constructor
  · rcases lt_or_eq_of_le h0 with hp | hz
    · obtain ⟨_, _, _, hlt⟩ := rnd64_form hp hx
      have h1 : pow2 1024 ≤ pow2 1074 := pow2_mono (by norm_num)
      have h2 : (0 : ℚ) < pow2 1074 := pow2_pos 1074
      rw [e8]
      calc x < pow2 1024 := hlt
        _ ≤ pow2 1074 := h1
        _ ≤ 10 * pow2 1074 := le_mul_of_one_le_left (le_of_lt h2) (by norm_num)
    · rw [← hz]; positivity
  · rcases lawful64.rep_tiny h0 hx with hz | ht
    · exact Or.inl hz
    · right
      have h2 : 2 * lawful64.d = pow2 (-1074) := by
        show 2 * pow2 (-1075) = _
        have : (-1074 : ℤ) = -1075 + 1 := by norm_num
        rw [this, pow2_succ]
      rw [h2] at ht
      have : pow2 (-1074) * pow2 1074 = 1 := by rw [← pow2_add]; exact pow2_zero
      rw [e8]
      have hp := pow2_pos 1074
      calc (1 : ℚ) = pow2 (-1074) * pow2 1074 := this.symm
        _ ≤ x * pow2 1074 := mul_le_mul_of_nonneg_right ht (le_of_lt hp)

/-- **print_f_total_b64** (termination and totality, binary64) — for EVERY finite binary64 argument
(either sign, zero, denormals, DBL_MAX), every flag set, width, precision in `0..INT_MAX` and each of
f/e/g, the repaired print_f over the software binary64 returns: with fuel ≥ 358 neither of the two
decimal normalisation loops runs out (`while (ip >= base)` makes at most 341 passes because each pass
divides the value by more than 8 — 2^1024 < 10·8^341; `while (ip == 0)` at most 358 because each
pass multiplies it by at least 8 — 2^-1074 = 8^-358), no `(int)x` conversion is undefined (the
digits `fmod(x,10)` of finite values, and the decimal exponent of `%g`), no repeat count is negative,
and (by `print_f_safe`) no store leaves the buffer. -/
theorem print_f_total_b64 (fuel : ℕ) (hfuel : 358 ≤ fuel) (neg : Bool) (x : ℚ) (hx : IsB64 x) (nanNeg : Bool)
    (width precision : ℤ) (hp0 : 0 ≤ precision) (hp1 : precision ≤ 2147483647) (ops : Ops) (withExp isShort : Bool) :
    ∃ out pc, printF b64A cfgNow fuel (.fin neg x) nanNeg width precision ops withExp isShort = .ok (out, pc) := by
  rw [b64A_eq]
  obtain ⟨r1, r2⟩ := b64_range hx
  exact printF_total lawful64 powHost 358 fuel neg x nanNeg width precision ops withExp isShort hx.2 hx.1 r1 r2 hfuel
    (by norm_num) hp0 hp1
example : IsB64 (1 / 8) ∧ IsB64 0 := by
  constructor
  · have := b64_representable (k := 1) (E := -3) (by norm_num) (by norm_num)
      (by rw [Nat.cast_one, one_mul]; exact pow2_lt (by norm_num))
    have e : pow2 (-3) = 1 / 8 := by rw [pow2_eq]; norm_num
    simpa [e] using this
  · exact ⟨le_refl _, by decide +kernel⟩

/-- the driver's fuel (`FUEL` = 1200) is therefore never exhausted -/
theorem print_f_total_b64_driver (neg : Bool) (x : ℚ) (hx : IsB64 x) (nanNeg : Bool) (width precision : ℤ)
    (hp0 : 0 ≤ precision) (hp1 : precision ≤ 2147483647) (ops : Ops) (withExp isShort : Bool) :
    ∃ out pc, printF b64A cfgNow FUEL (.fin neg x) nanNeg width precision ops withExp isShort = .ok (out, pc) :=
  print_f_total_b64 FUEL (by decide) neg x hx nanNeg width precision hp0 hp1 ops withExp isShort

/-- every bit pattern with an exponent field below 2047 decodes to a binary64 value in the sense of `IsB64` -/
theorem ofBits_isB64 (b : ℕ) (hfin : (b >>> 52) % 2048 ≠ 2047) : ∃ neg x, ofBits b = .fin neg x ∧ IsB64 x := by
  unfold ofBits
  simp only [hfin, if_false]
  have hf : b % 2 ^ 52 < 2 ^ 52 := Nat.mod_lt _ (by norm_num)
  have he : (b >>> 52) % 2048 < 2048 := Nat.mod_lt _ (by norm_num)
  split
  · refine ⟨_, _, rfl, b64_representable (by omega) (by norm_num) ?_⟩
    have h1 : ((b % 2 ^ 52 : ℕ) : ℚ) ≤ 2 ^ 53 := by exact_mod_cast (by omega : b % 2 ^ 52 ≤ 2 ^ 53)
    calc ((b % 2 ^ 52 : ℕ) : ℚ) * pow2 (-1074) ≤ (2 : ℚ) ^ 53 * pow2 (-1074) :=
          mul_le_mul_of_nonneg_right h1 (le_of_lt (pow2_pos _))
      _ = pow2 ((53 : ℤ) + -1074) := by rw [pow2_add, pow2_53]
      _ < pow2 1024 := pow2_lt (by norm_num)
  · rename_i he0
    refine ⟨_, _, rfl, b64_representable (by omega) (by omega) ?_⟩
    have h1 : ((2 ^ 52 + b % 2 ^ 52 : ℕ) : ℚ) < 2 ^ 53 := by exact_mod_cast (by omega : 2 ^ 52 + b % 2 ^ 52 < 2 ^ 53)
    calc ((2 ^ 52 + b % 2 ^ 52 : ℕ) : ℚ) * pow2 (((b >>> 52) % 2048 : ℕ) - 1075)
        < (2 : ℚ) ^ 53 * pow2 ((((b >>> 52) % 2048 : ℕ) : ℤ) - 1075) := mul_lt_mul_of_pos_right h1 (pow2_pos _)
      _ = pow2 ((53 : ℤ) + ((((b >>> 52) % 2048 : ℕ) : ℤ) - 1075)) := by rw [pow2_add, pow2_53]
      _ ≤ pow2 1024 := pow2_mono (by omega)

/-- **print_f_total_bits** — the statement of the property's quantifier: for EVERY 64-bit pattern that
is not an infinity or NaN (and by `print_f_nonfinite_total` for those too), print_f returns. -/
theorem print_f_total_bits (b : ℕ) (hfin : (b >>> 52) % 2048 ≠ 2047) (nanNeg : Bool) (width precision : ℤ)
    (hp0 : 0 ≤ precision) (hp1 : precision ≤ 2147483647) (ops : Ops) (withExp isShort : Bool) :
    ∃ out pc, printF b64A cfgNow FUEL (ofBits b) nanNeg width precision ops withExp isShort = .ok (out, pc) := by
  obtain ⟨neg, x, hb, hx⟩ := ofBits_isB64 b hfin
  rw [hb]
  exact print_f_total_b64_driver neg x hx nanNeg width precision hp0 hp1 ops withExp isShort

/-- **print_f_total_lawful** — the same for every arithmetic built from a rounding that satisfies the
laws of `Lawful` (stated as hypotheses: exactness on small integers, error ≤ max(q·u, d) with
u, d ≤ 1/8, no overflow below representable values, fractions of representable values representable,
non-integers small) and any `pow`: a representable argument in `[8^-N, 10·8^N)` or zero needs at
most `N` passes of each loop.  `lawfulExact` and `lawful64` are the two instances. -/
theorem print_f_total_lawful {rnd : Rounding} (L : Lawful rnd) (pw : Nat → Nat → FV) (N fuel : ℕ) (hfuel : N ≤ fuel)
    (hN : N + 2 ≤ 2 ^ 30) (neg : Bool) (x : ℚ) (hx : rnd x = some x) (h0 : 0 ≤ x) (hhi : x < 10 * 8 ^ N)
    (hlo : x = 0 ∨ 1 ≤ x * 8 ^ N) (nanNeg : Bool) (width precision : ℤ) (hp0 : 0 ≤ precision)
    (hp1 : precision ≤ 2147483647) (ops : Ops) (withExp isShort : Bool) :
    ∃ out pc, printF (arithP rnd pw) cfgNow fuel (.fin neg x) nanNeg width precision ops withExp isShort = .ok (out, pc) :=
  printF_total L pw N fuel neg x nanNeg width precision ops withExp isShort hx h0 hhi hlo hfuel hN hp0 hp1

/-- exact arithmetic: `%e` of 12345 needs 4 passes; with less fuel the model reports `diverged`
(the audit's probe), with 4 it returns — the bound of `print_f_total_lawful` is the real one -/
example : ∃ out pc, printF exactA cfgNow 4 (.fin false 12345) false 0 0 {} true false = .ok (out, pc) := by
  rw [exactA_eq]
  exact print_f_total_lawful lawfulExact _ 4 4 (le_refl _) (by norm_num) false 12345 rfl (by norm_num) (by norm_num)
    (Or.inr (by norm_num)) false 0 0 (le_refl _) (by norm_num) {} true false
theorem print_f_fuel_witness :
    resOf (printF exactA cfgNow 3 (.fin false 12345) false 0 0 {} true false) = .diverged := by decide +kernel

/-- **witness for the repaired defect C13-long-double-overflow**: the long double 1e400L
(sign+exponent 0x4530, significand 0xed7fbd2d2e1d1d00) narrows to +inf, and on +inf the loop
`while (ip >= base)` of the finite path — which the code entered before the fix, because it
tested isinf on the long double — never ends: `diverged` for EVERY fuel, over binary64. -/
theorem print_f_L_overflow_witness (fuel : Nat) (ep : FV) :
    cvt64 (ofBits80 0x4530 0xed7fbd2d2e1d1d00) = .inf false ∧
    normDown b64A fuel (b64A.modf (.inf false)).2 (b64A.modf (.inf false)).1 ep = .error .diverged := by
  refine ⟨by decide +kernel, ?_⟩
  have h0 : b64A.modf (.inf false) = (.fin false 0, .inf false) := rfl
  rw [h0]
  have h1 : b64A.ge (.inf false) b64A.ten = true := by decide +kernel
  have h2 : b64A.modf (b64A.div (b64A.add (.inf false) (.fin false 0)) b64A.ten) = (.fin false 0, .inf false) := by
    decide +kernel
  induction fuel generalizing ep with
  | zero => simp [normDown, h1]
  | succ n ih => simp only [normDown, h1, if_true, h2]; exact ih _

/-! ## Second extension: the ISO shape of the text, the accumulated rounding error of the digit generation -/

/-- **print_f_iso_shape_b64** (ISO C 7.21.6.1, %f %F %e %E) — for EVERY finite binary64 argument (either sign,
zero, denormals, DBL_MAX), every flag set, width and precision 0..INT_MAX, the text the repaired print_f emits
over the software binary64 satisfies the INDEPENDENT shape predicate `isoShape` of `Shape.lean` (which only
parses the text): sign by the `-`/`+`/space rule; %f: at least one integer digit and no superfluous leading
zero (in particular the guard `str > &buff[0]` never cuts the number short), the point iff precision > 0 or `#`,
exactly `precision` fraction digits; %e: exactly one integer digit, nonzero unless the value is zero (then all
digits are 0 and the exponent is +00), the point rule, exactly `precision` fraction digits, `e`/`E`, a sign, at
least two exponent digits and a third only if needed (no leading zero, never `-00`); padded to the width on
the right with blanks (`-`), with zeros after the sign (`0` without `-`) or with blanks on the left; total
length max(width, length without padding). -/
theorem print_f_iso_shape_b64 (fuel : ℕ) (hfuel : 358 ≤ fuel) (neg : Bool) (x : ℚ) (hx : IsB64 x) (nanNeg : Bool)
    (width precision : ℤ) (hp0 : 0 ≤ precision) (hp1 : precision ≤ 2147483647) (ops : Ops) (withExp : Bool) :
    ∃ out pc, printF b64A cfgNow fuel (.fin neg x) nanNeg width precision ops withExp false = .ok (out, pc) ∧
      isoShape (if withExp then .e else .f) ops width precision neg out = true := by
  rw [b64A_eq]
  obtain ⟨r1, r2⟩ := b64_range hx
  exact printF_shape_fe lawful64 sharp64 powHost 358 fuel neg x nanNeg width precision ops withExp hx.2 hx.1 r1 r2 hfuel
    (by norm_num) (by norm_num) hp0 hp1
example : isoShape .e {} 0 0 false "1.500000e+00".toList = true ∧ isoShape .e {} 0 0 false "1.500000e+0".toList = false ∧
    isoShape .f { prec := true, spec := true } 0 0 false "2.".toList = true ∧
    isoShape .f { prec := true, spec := true } 0 0 false "2".toList = false ∧
    isoShape .e {} 0 0 false "1.000000e+100".toList = true ∧ isoShape .e {} 0 0 false "1.000000e+0100".toList = false := by
  decide +kernel

/-- the same for every 64-bit pattern that is not an infinity or NaN, at the driver's fuel -/
theorem print_f_iso_shape_bits (b : ℕ) (hfin : (b >>> 52) % 2048 ≠ 2047) (nanNeg : Bool) (width precision : ℤ)
    (hp0 : 0 ≤ precision) (hp1 : precision ≤ 2147483647) (ops : Ops) (withExp : Bool) :
    ∃ neg x out pc, ofBits b = .fin neg x ∧
      printF b64A cfgNow FUEL (ofBits b) nanNeg width precision ops withExp false = .ok (out, pc) ∧
      isoShape (if withExp then .e else .f) ops width precision neg out = true := by
  obtain ⟨neg, x, hb, hx⟩ := ofBits_isB64 b hfin
  obtain ⟨out, pc, h1, h2⟩ := print_f_iso_shape_b64 FUEL (by decide) neg x hx nanNeg width precision hp0 hp1 ops withExp
  exact ⟨neg, x, out, pc, hb, by rw [hb]; exact h1, h2⟩

/-- **print_f_iso_shape_lawful** — the same for every rounding that satisfies `Lawful` and `Sharp` (rounding does
not cross a natural number, 10·x < 10 for x < 1, non-integers are below 2^52, the fraction of a value ≥ 1 is
zero or ≥ 2^-52, results below 2^1024, u, d ≤ 2^-10) and any `pow`; `sharp64` is the instance for binary64.
(Exact rational arithmetic is NOT sharp: there the buffer guard can cut an integer part short, audit item 4.) -/
theorem print_f_iso_shape_lawful {rnd : Rounding} (L : Lawful rnd) (S : Sharp L) (pw : Nat → Nat → FV) (N fuel : ℕ)
    (hfuel : N ≤ fuel) (hN : N ≤ 998) (neg : Bool) (x : ℚ) (hx : rnd x = some x) (h0 : 0 ≤ x) (hhi : x < 10 * 8 ^ N)
    (hlo : x = 0 ∨ 1 ≤ x * 8 ^ N) (nanNeg : Bool) (width precision : ℤ) (hp0 : 0 ≤ precision)
    (hp1 : precision ≤ 2147483647) (ops : Ops) (withExp : Bool) :
    ∃ out pc, printF (arithP rnd pw) cfgNow fuel (.fin neg x) nanNeg width precision ops withExp false = .ok (out, pc) ∧
      isoShape (if withExp then .e else .f) ops width precision neg out = true :=
  printF_shape_fe L S pw N fuel neg x nanNeg width precision ops withExp hx h0 hhi hlo hfuel (by omega) (by omega) hp0 hp1
example : Sharp lawful64 := sharp64

/-- **print_f_guard_never_truncates_b64** (audit item 4, `%.340f` of 1e308 and everything else) — for EVERY finite
binary64 argument and EVERY precision 0..INT_MAX (in particular ≤ PRINT_F_FRAC_MAX) of %f / %e: the buffer that
`fillBuf` returns is exactly what the UNGUARDED integer-digit loop (the original loop, without
`&& (str > &buff[0])`) produces after the fraction digits and the point — the guard never fires, the integer part
is printed completely.  The constants suffice because (a) with no generated fraction digit at most 2 bytes are in
use and an integer part below 2^1024 + 1 < 8^342 takes at most 342 passes (each pass divides by more than 8):
344 ≤ 352; (b) if fraction digits were generated the argument is a non-integer double, hence below 2^52, and
either it is below 1 (one integer digit, ≤ 343 bytes) or its fraction is at least 2^-52, so the fraction loop
stops after at most 35 passes (each multiplies by at least 8; values ≥ 2^52 are integers): 37 + 18 bytes.
Over exact rationals this is FALSE (the audit's probe 1e308+7 with 340 fraction digits): `Sharp` is needed. -/
theorem print_f_guard_never_truncates_b64 (fuel : ℕ) (hfuel : 358 ≤ fuel) (x : ℚ) (hx : IsB64 x)
    (precision : ℤ) (hp0 : 0 ≤ precision) (hp1 : precision ≤ 2147483647) (ops : Ops) (withExp : Bool) :
    ∃ (d : Digits FV) (bf : Buf) (dotfrac : List Char),
      digitsOf b64A cfgNow fuel (.fin false x) precision ops withExp false = .ok d ∧
      fillBuf b64A cfgNow ops false d = .ok bf ∧
      intLoop b64A { cfgNow with repaired := false } ops.upper (cfgNow.size + 1) d.ip
        { post := bf.post, sep := bf.sep, body := dotfrac } = .ok bf := by
  rw [b64A_eq]
  obtain ⟨r1, r2⟩ := b64_range hx
  exact printF_int_unguarded lawful64 sharp64 powHost 358 fuel x precision ops withExp hx.2 hx.1 r1 r2 hfuel
    (by norm_num) (by norm_num) hp0 hp1

/-- **finding C13-g-style-carry against the shape predicate**: the text the model prints for `%g` of 999999.5
(`print_f_g_style_carry_witness`) is REJECTED by `isoShape` (style f with X = 6 = P), the ISO text is accepted.
The shape of `%g` is not proved: outside this class it is carried by the harness (the same predicate, in C++). -/
theorem print_f_iso_shape_g_witness :
    resOf (printF exactA cfgNow 50 (.fin false (1999999 / 2)) false 0 0 {} false true) = .done "1000000".toList 7 ∧
    isoShape .g {} 0 0 false "1000000".toList = false ∧ isoShape .g {} 0 0 false "1e+06".toList = true := by
  decide +kernel

/-- **print_f_digits_error_e_partial** (accumulated rounding error of the digit generation, %e; `_partial`: restricted
to arguments in the normal range `d ≤ x·u`, i.e. denormals are excluded, and to precision ≤ PRINT_F_FRAC_MAX) — for ANY lawful rounding
with unit roundoff `u`: the decimal number `(a + b/10^sc)·10^e` whose digits `digitsOf` hands to the emission loops
(`a` = integer digit, `b` = the `sc` generated fraction digits as an integer, `e` = decimal exponent) differs from
the argument by at most HALF A UNIT of the last printed digit plus `2·K·u·|x|`, `K = |e| + 2 + sc` = the number of
rounded scaling operations (|e| + 2 passes of the two normalisation loops at most, one multiplication per generated
fraction digit), whenever `K·u ≤ 1/2`.  Proved by induction over normDown / normUp / the fraction loop with the
(1+δ) lemma (`Within`), the only half unit comes from `roundl`.  Hypotheses: the argument is representable and in
the normal range (`d ≤ x·u`), fractions of values ≥ 1 are not tiny, 10·v < 10 for v < 1 (`TenOk`; needed: without it
the code's renormalisation adds the already scaled fraction), `POW(10, n) = 10^n` up to the precision, precision ≤
PRINT_F_FRAC_MAX. -/
theorem print_f_digits_error_e_partial {rnd : Rounding} (L : Lawful rnd) (pw : Nat → Nat → FV) (N fuel : ℕ) (x : ℚ)
    (precision : ℤ) (ops : Ops)
    (hx : rnd x = some x) (h0 : 0 < x) (hN : x < 10 * 8 ^ N) (hN' : 1 ≤ x * 8 ^ N) (hf : N ≤ fuel)
    (hNb : N + 2 ≤ 2 ^ 30) (hp0 : 0 ≤ precision) (hp1 : precision ≤ 340)
    (hdu : L.d ≤ L.u) (hdn : L.d ≤ x * L.u)
    (hfr : ∀ v, rnd v = some v → 1 ≤ v → v - FV.flr v = 0 ∨ L.d ≤ (v - FV.flr v) * L.u)
    (hten : TenOk rnd)
    (hpw : ∀ n : ℕ, (n : ℤ) ≤ (if ops.prec then precision else 6) → pw 10 n = .fin false ((10 : ℚ) ^ n)) :
    ∃ (d : Digits FV) (a b : ℚ) (e : ℤ),
      digitsOf (arithP rnd pw) cfgNow fuel (.fin false x) precision ops true false = .ok d ∧
      d.ip = .fin false a ∧ d.fp = .fin false b ∧ d.ep = epv e ∧ d.withExp = true ∧
      d.precision = (if ops.prec then precision else 6) ∧ (d.signCount : ℤ) ≤ d.precision ∧
      e.natAbs ≤ N + 1 ∧
      ∀ K : ℕ, e.natAbs + 2 + d.signCount ≤ K → (K : ℚ) * L.u ≤ 1 / 2 →
        |(a + b / 10 ^ d.signCount) * (10 : ℚ) ^ e - x|
          ≤ 1 / 2 * (10 : ℚ) ^ (e - d.precision) + 2 * K * L.u * x :=
  digits_error_e L pw N fuel x precision ops hx h0 hN hN' hf hNb hp0 hp1 hdu hdn hfr hten hpw

/-- **print_f_digits_error_f_partial** (%f): no normalisation; `|a + b/10^sc − x| ≤ ½·10^-precision + 2·K·u·x`,
`K = sc + 1` (one multiplication per generated fraction digit, one rounded `ip + 1.0` on a carry). -/
theorem print_f_digits_error_f_partial {rnd : Rounding} (L : Lawful rnd) (pw : Nat → Nat → FV) (fuel : ℕ) (x : ℚ)
    (precision : ℤ) (ops : Ops)
    (hx : rnd x = some x) (h0 : 0 < x) (hp0 : 0 ≤ precision) (hp1 : precision ≤ 340)
    (hdu : L.d ≤ L.u) (hdn : L.d ≤ x * L.u)
    (hfr : ∀ v, rnd v = some v → 1 ≤ v → v - FV.flr v = 0 ∨ L.d ≤ (v - FV.flr v) * L.u)
    (hpw : ∀ n : ℕ, (n : ℤ) ≤ (if ops.prec then precision else 6) → pw 10 n = .fin false ((10 : ℚ) ^ n))
    (hint : (if ops.prec then precision else 6) = 0 → ∀ (n : ℕ) (v : ℚ), rnd (n : ℚ) = some v → FV.flr v = v) :
    ∃ (d : Digits FV) (a b : ℚ),
      digitsOf (arithP rnd pw) cfgNow fuel (.fin false x) precision ops false false = .ok d ∧
      d.ip = .fin false a ∧ d.fp = .fin false b ∧ d.ep = epv 0 ∧ d.withExp = false ∧
      d.precision = (if ops.prec then precision else 6) ∧ (d.signCount : ℤ) ≤ d.precision ∧
      ∀ K : ℕ, d.signCount + 1 ≤ K → (K : ℚ) * L.u ≤ 1 / 2 →
        |a + b / 10 ^ d.signCount - x| ≤ 1 / 2 * (10 : ℚ) ^ (-d.precision) + 2 * K * L.u * x :=
  digits_error_f L pw fuel x precision ops hx h0 hp0 hp1 hdu hdn hfr hpw hint
example : TenOk (some : Rounding) ∧ TenOk rnd64 := ⟨tenOk_exact, tenOk64⟩

/-- **print_f_digits_error_e_b64_partial** — the instance for binary64 (`u = 2^-53`), every hypothesis on the
arithmetic discharged.  RESTRICTED (hence `_partial`) to arguments in the normal range (x ≥ 2^-1022; for denormals
the law `error ≤ max(q·u, d)` is too weak although the operations are in fact exact) and to precision ≤ 22 (the
carry test compares with the host's `pow(10, n)`, which is 10^n exactly only for n ≤ 22).
COROLLARY in the same statement ("correctly rounded up to one unit"): whenever `2·K·2^-53·x ≤ ½` unit of the last
digit — e.g. |e| + p + 2 ≤ 2^(52 − 3.33·(p+1)), i.e. p ≤ 15 − log10 K — the printed decimal is within ONE unit of the
last printed digit of x, i.e. it is one of the two decimals of that precision that enclose x or their neighbour on the
rounding boundary; beyond that the recorded input of C13-ulp-drift (`%.17e` of 1.9093183950992952e+230: 17 ulps
over half a unit) shows that the K·u term is real. -/
theorem print_f_digits_error_e_b64_partial (N fuel : ℕ) (x : ℚ) (precision : ℤ) (ops : Ops)
    (hx : rnd64 x = some x) (hnorm : pow2 (-1022) ≤ x) (hN : x < 10 * 8 ^ N) (hN' : 1 ≤ x * 8 ^ N) (hf : N ≤ fuel)
    (hNb : N + 2 ≤ 2 ^ 30) (hp0 : 0 ≤ precision) (hp1 : precision ≤ 22) :
    ∃ (d : Digits FV) (a b : ℚ) (e : ℤ),
      digitsOf b64A cfgNow fuel (.fin false x) precision ops true false = .ok d ∧
      d.ip = .fin false a ∧ d.fp = .fin false b ∧ d.ep = epv e ∧ d.withExp = true ∧
      d.precision = (if ops.prec then precision else 6) ∧ (d.signCount : ℤ) ≤ d.precision ∧ e.natAbs ≤ N + 1 ∧
      ∀ K : ℕ, e.natAbs + 2 + d.signCount ≤ K → (K : ℚ) * pow2 (-53) ≤ 1 / 2 →
        |(a + b / 10 ^ d.signCount) * (10 : ℚ) ^ e - x|
            ≤ 1 / 2 * (10 : ℚ) ^ (e - d.precision) + 2 * K * pow2 (-53) * x ∧
        (2 * K * pow2 (-53) * x ≤ 1 / 2 * (10 : ℚ) ^ (e - d.precision) →
          |(a + b / 10 ^ d.signCount) * (10 : ℚ) ^ e - x| ≤ (10 : ℚ) ^ (e - d.precision)) := by
  obtain ⟨d, a, b, e, h1, h2, h3, h4, h5, h6, h7, h8, h9⟩ :=
    digits_error_e_b64 N fuel x precision ops hx hnorm hN hN' hf hNb hp0 hp1
  refine ⟨d, a, b, e, h1, h2, h3, h4, h5, h6, h7, h8, fun K hK hKu => ?_⟩
  have := h9 K hK hKu
  exact ⟨this, fun hsmall => by linarith⟩

/-- the same for %f (K = generated fraction digits + 1) -/
theorem print_f_digits_error_f_b64_partial (fuel : ℕ) (x : ℚ) (precision : ℤ) (ops : Ops)
    (hx : rnd64 x = some x) (hnorm : pow2 (-1022) ≤ x) (hp0 : 0 ≤ precision) (hp1 : precision ≤ 22) :
    ∃ (d : Digits FV) (a b : ℚ),
      digitsOf b64A cfgNow fuel (.fin false x) precision ops false false = .ok d ∧
      d.ip = .fin false a ∧ d.fp = .fin false b ∧ d.ep = epv 0 ∧ d.withExp = false ∧
      d.precision = (if ops.prec then precision else 6) ∧ (d.signCount : ℤ) ≤ d.precision ∧
      ∀ K : ℕ, d.signCount + 1 ≤ K → (K : ℚ) * pow2 (-53) ≤ 1 / 2 →
        |a + b / 10 ^ d.signCount - x| ≤ 1 / 2 * (10 : ℚ) ^ (-d.precision) + 2 * K * pow2 (-53) * x ∧
        (2 * K * pow2 (-53) * x ≤ 1 / 2 * (10 : ℚ) ^ (-d.precision) →
          |a + b / 10 ^ d.signCount - x| ≤ (10 : ℚ) ^ (-d.precision)) := by
  obtain ⟨d, a, b, h1, h2, h3, h4, h5, h6, h7, h9⟩ := digits_error_f_b64 fuel x precision ops hx hnorm hp0 hp1
  refine ⟨d, a, b, h1, h2, h3, h4, h5, h6, h7, fun K hK hKu => ?_⟩
  have := h9 K hK hKu
  exact ⟨this, fun hsmall => by linarith⟩

/-- exact arithmetic (u = 0): the digits are the correctly rounded ones — half a unit, nothing else
(`print_f_exact_Q`, which the first round could only sample) -/
theorem print_f_exact_e (N fuel : ℕ) (x : ℚ) (precision : ℤ) (ops : Ops) (h0 : 0 < x) (hN : x < 10 * 8 ^ N)
    (hN' : 1 ≤ x * 8 ^ N) (hf : N ≤ fuel) (hNb : N + 2 ≤ 2 ^ 30) (hp0 : 0 ≤ precision) (hp1 : precision ≤ 340) :
    ∃ (d : Digits FV) (a b : ℚ) (e : ℤ),
      digitsOf exactA cfgNow fuel (.fin false x) precision ops true false = .ok d ∧
      d.ip = .fin false a ∧ d.fp = .fin false b ∧ d.ep = epv e ∧
      |(a + b / 10 ^ d.signCount) * (10 : ℚ) ^ e - x| ≤ 1 / 2 * (10 : ℚ) ^ (e - d.precision) := by
  obtain ⟨d, a, b, e, h1, h2, h3, h4, _, h9⟩ := digits_error_e_exact N fuel x precision ops h0 hN hN' hf hNb hp0 hp1
  exact ⟨d, a, b, e, h1, h2, h3, h4, h9⟩


/-! ## Round 3 -/

/-- **round_any_tie_rule_off_tie** — the rounding step of print_f is `roundl` (half away from zero) in the model;
the property leaves the direction of a tie open.  OFF a tie every rounding to a nearest integer (half-even,
half-down, anything with |k - w| ≤ 1/2) returns exactly what `roundl` returns, so every theorem about the model
holds verbatim for an engine with another tie rule on every input whose scaled value is not a tie. -/
theorem round_any_tie_rule_off_tie (w : ℚ) (k : ℤ) (hk : |(k : ℚ) - w| ≤ 1 / 2) (hnt : w - FV.flr w ≠ 1 / 2) :
    FV.round (.fin false w) = .fin false (k : ℚ) := by
  rw [round_fin, nearest_off_tie w k hk hnt]

example : |((3 : ℤ) : ℚ) - 27 / 10| ≤ 1 / 2 ∧ (27 / 10 : ℚ) - FV.flr (27 / 10) ≠ 1 / 2 := by
  refine ⟨by norm_num [abs_le], ?_⟩
  rw [show FV.flr (27 / 10 : ℚ) = ((2 : ℕ) : ℚ) from flr_eq_nat (by norm_num) (by norm_num)]
  norm_num

/-- **round_any_tie_rule_on_tie** — ON a tie the two admissible results are the two neighbours `⌊w⌋` and `⌊w⌋ + 1`
(the model takes the upper one); both are exactly half a unit from the scaled value, which is all the error
theorems use (`flr_half_err`: they are stated for "within half a unit", not for half-away). -/
theorem round_any_tie_rule_on_tie (w : ℚ) (k : ℤ) (hk : |(k : ℚ) - w| ≤ 1 / 2) (ht : w - FV.flr w = 1 / 2) :
    ((k : ℚ) = FV.flr w ∨ (k : ℚ) = FV.flr w + 1) ∧ FV.round (.fin false w) = .fin false (FV.flr w + 1) := by
  refine ⟨nearest_on_tie w k hk ht, ?_⟩
  rw [round_fin]
  congr 1
  have h0 := flr_le w
  have hw : w = FV.flr w + 1 / 2 := by linarith
  have e : w + 1 / 2 = FV.flr w + 1 := by linarith
  rw [e]
  unfold FV.flr
  rw [ratFloor_eq, ratFloor_eq]
  have : ⌊((⌊w⌋ : ℤ) : ℚ) + 1⌋ = ⌊w⌋ + 1 := by
    rw [Int.floor_add_one]; simp
  rw [this]; push_cast; ring

example : |((2 : ℤ) : ℚ) - 5 / 2| ≤ 1 / 2 ∧ (5 / 2 : ℚ) - FV.flr (5 / 2) = 1 / 2 := by
  refine ⟨by norm_num [abs_le], ?_⟩
  rw [show FV.flr (5 / 2 : ℚ) = ((2 : ℕ) : ℚ) from flr_eq_nat (by norm_num) (by norm_num)]
  norm_num

/-- **runNested_spec** — the callback experiment of the `pfn` ops (Nested.lean): when the characters of an outer
conversion go through a callback that runs a nested conversion right after character number `k`, the outer sink
receives exactly the outer text, and the nested conversion ran (once, with the result of the independent call)
iff the outer text has a character number `k`. -/
theorem runNested_spec {ρ : Type} (k : Nat) (inner : Unit → ρ) (out : List Char) :
    (runNested k inner out).out = out ∧
    (runNested k inner out).inner = if k < out.length then some (inner ()) else none := by
  have := runNested_aux k inner out ({} : NestSt ρ) (by simp)
  simpa [runNested] using this

/-- **print_f_reentrant** — print_f's result depends on its arguments only (the model has no static state): a
floating conversion nested inside the callback of another one at ANY character position yields the text and the
count of the independent call and leaves the outer text untouched.  That the C code has this property (it would
not with a `static` digit buffer) is what the `pfn` ops check on every run. -/
theorem print_f_reentrant {α : Type} (A : Arith α) (cfg : Cfg) (fuel : Nat)
    (rA : α) (nA : Bool) (wA pA : Int) (oA : Ops) (eA sA : Bool) (outA : List Char) (pcA : Int)
    (rB : α) (nB : Bool) (wB pB : Int) (oB : Ops) (eB sB : Bool) (k : Nat)
    (h : printF A cfg fuel rA nA wA pA oA eA sA = .ok (outA, pcA)) :
    let st := runNested k (fun _ => printF A cfg fuel rB nB wB pB oB eB sB) outA
    (printF A cfg fuel rA nA wA pA oA eA sA = .ok (st.out, pcA)) ∧
    st.inner = if k < outA.length then some (printF A cfg fuel rB nB wB pB oB eB sB) else none := by
  intro st
  obtain ⟨h1, h2⟩ := runNested_spec k (fun _ => printF A cfg fuel rB nB wB pB oB eB sB) outA
  exact ⟨by rw [h]; show Except.ok (outA, pcA) = Except.ok (st.out, pcA); rw [show st.out = outA from h1], h2⟩

example : (runNested 1 (fun _ => (7 : Nat)) "ab".toList).inner = some 7 ∧ (runNested 2 (fun _ => (7 : Nat)) "ab".toList).inner = none := by
  decide

/-- **layoutC_eq_layout** — `int` arithmetic of the emission part (audit item 5): with the width and the number of
trailing zeros (precision - generated digits) non-negative and `width + zeros ≤ INT_MAX - 1647` no `int` expression
of the emission part of print_f overflows - `layoutC` (every intermediate `int` checked, C's evaluation order)
returns what the unbounded `layout` returns.  The buffer regions are at most 352 bytes (`print_f_safe`). -/
theorem layoutC_eq_layout (cfg : Cfg) (ops : Ops) (width : Int) (pfx : List Char) (b : Buf) (zeroLeft : Int)
    (hw : 0 ≤ width) (hz : 0 ≤ zeroLeft) (hsum : width + zeroLeft ≤ 2147482000)
    (hp : pfx.length ≤ 3) (hb : b.body.length ≤ 352) (hq : b.post.length ≤ 352) :
    layoutC cfg ops width pfx b zeroLeft = layout cfg ops width pfx b zeroLeft := by
  have hc := cstrlen_le b.post
  unfold layoutC
  rcases hz' : ops.zero <;> rcases hl : ops.left <;> rcases hr : cfg.repaired <;>
    simp (disch := omega) only [ckInt_ok', bind, Except.bind, Bool.or_false, Bool.or_true, Bool.and_true, Bool.and_false,
      Bool.not_true, Bool.not_false, if_true, if_false, Bool.false_eq_true, Int.zero_add]

example : layoutC cfgNow {} 12 ['-'] { body := "1.5".toList } 3 = layout cfgNow {} 12 ['-'] { body := "1.5".toList } 3 := by decide

/-- **print_f_int_overflow_witness** — beyond the bound it does overflow: `%.2147483647f` of 1.5 (body `1.5`,
zero_left = INT_MAX - 1): `pc += zero_left` leaves `int` (undefined behaviour in C) - after the code has already
been asked for 2^31 - 2 zeros one callback at a time.  print_f neither clamps nor allocates: the text is
produced character by character, so "terminates" holds, "returns the number of characters" cannot. -/
theorem print_f_int_overflow_witness :
    layoutC cfgNow { prec := true } 0 [] { body := "1.5".toList } 2147483646 = .error .undef ∧
    layoutC cfgNow { prec := true } 0 [] { body := "1.5".toList } 2147483644 ≠ .error .undef := by
  decide

/-- **print_f_nonfinite_text** — the complete text for NaN and the infinities, every flag set, width, precision and
each of f/e/g (ISO C 7.21.6.1 p8): `[sign]inf` / `[sign]nan` (`INF` / `NAN` for F E G), sign by the - / + / space
rule (the sign bit of a NaN is honoured), padded to `width` with BLANKS only - on the right with `-`, on the left
otherwise: the `0` flag does not zero-pad a non-finite value, `#` and the precision have no effect; returned count
= max(width, length of the text). -/
theorem print_f_nonfinite_text {α : Type} (A : Arith α) (fuel : Nat) (r : α) (nanNeg : Bool) (width precision : Int)
    (ops : Ops) (withExp isShort : Bool) (h : (A.isnan r || A.isinf r) = true) :
    let s := nfText (A.isnan r) (if A.isnan r then nanNeg else A.signbit r) ops
    let pad := List.replicate (width - s.length).toNat ' '
    printF A cfgNow fuel r nanNeg width precision ops withExp isShort =
      .ok (if ops.left then s ++ pad else pad ++ s, max width s.length) := by
  intro s pad
  unfold printF
  simp only [h, cfgNow, Bool.and_true, if_true]
  unfold nonFinite
  simp only [s, pad]
  generalize A.isnan r = b
  generalize A.signbit r = sb
  obtain ⟨left, sign, space, spec, zero, prec, upper, ptr, chr, len⟩ := ops
  cases b <;> cases sb <;> cases nanNeg <;> cases sign <;> cases space <;> cases upper <;> cases left <;>
    simp [Igris.C06.printS, Igris.C06.strlen, NUL, nfText, signText] <;> omega

example : printF exactA cfgNow 0 (.inf true) false 8 3 { zero := true, prec := true, upper := true } true false =
    .ok ("    -INF".toList, 8) := by decide +kernel

/-- **tie_canon_neighbours_agree** — the canonical form of the correspondence (Tie.lean, `tieLower` = the arithmetic
core of `tieCanon`): for an argument strictly between two neighbouring printable values `lo` and `lo + u`, both
neighbours have the same canonical form (in the class: `lo`; outside: none), whatever the window. -/
theorem tie_canon_neighbours_agree (w u x lo : ℚ) (h1 : lo < x) (h2 : x < lo + u) :
    tieLower w u x lo = tieLower w u x (lo + u) := by
  unfold tieLower
  simp only [absQ_eq]
  have e1 : |lo - x| = x - lo := by rw [abs_of_neg (by linarith)]; ring
  have e2 : |lo + u - x| = lo + u - x := abs_of_pos (by linarith)
  have e3 : |x - lo - u / 2| = |lo + u - x - u / 2| := by
    rw [← abs_neg]; congr 1; ring
  rw [e1, e2, e3]
  have g1 : ¬ (lo > x) := by linarith
  have g2 : lo + u > x := by linarith
  simp only [g1, g2, if_true, if_false]
  congr 2
  all_goals first | rfl | ring_nf

example : tieLower (1 / 1000) 1 (5 / 2) 2 = some 2 ∧ tieLower (1 / 1000) 1 (5 / 2) 3 = some 2 ∧ tieLower (1 / 1000) 1 (27 / 10) 3 = none := by
  decide +kernel

/-- **tie_canon_exact_tie** — an exact tie (x = lo + u/2) with a coarse unit (window ≤ u/4) is in the class, and the
form of either neighbour is the lower neighbour. -/
theorem tie_canon_exact_tie (w u lo : ℚ) (hw : 0 ≤ w) (hpos : 0 < u) (hu : w ≤ u / 4) :
    tieLower w u (lo + u / 2) lo = some lo ∧ tieLower w u (lo + u / 2) (lo + u) = some lo := by
  unfold tieLower
  simp only [absQ_eq]
  have a1 : |lo - (lo + u / 2)| = u / 2 := by
    rw [show lo - (lo + u / 2) = -(u / 2) by ring, abs_neg, abs_of_nonneg (by linarith)]
  have a2 : |lo + u - (lo + u / 2)| = u / 2 := by
    rw [show lo + u - (lo + u / 2) = u / 2 by ring, abs_of_nonneg (by linarith)]
  rw [a1, a2]
  simp only [sub_self, abs_zero]
  have g1 : ¬ (lo > lo + u / 2) := by linarith
  have g2 : lo + u > lo + u / 2 := by linarith
  simp [hu, hw, g1, g2]

/-! ### Round 3b: `tieSeen` and `digitsOf` are functions of ONE definition (`digitsPre`, Round3b.lean) -/

/-- **digitsOf_eq_pre** — `digitsOf` is its first half `digitsPre` (the lines of print_f up to and including the
fraction scaling loop, the only part that can diverge or be undefined) followed by the pure second half `digitsPost`
(roundl, carry, trailing-zero removal, renormalisation): every arithmetic instance, constants, fuel, argument,
precision, flag set, f/e/g. -/
theorem digitsOf_eq_pre {α : Type} (A : Arith α) (cfg : Cfg) (fuel : Nat) (r : α) (precision : Int) (ops : Ops)
    (withExp isShort : Bool) :
    digitsOf A cfg fuel r precision ops withExp isShort =
      (digitsPre A cfg fuel r precision ops withExp isShort).map (digitsPost A cfg ops isShort) :=
  digitsOf_eq_pre_aux A cfg fuel r precision ops withExp isShort

/-- **tieSeen_eq_pre** — the question the tie observable asks (`tieSeen`, Tie.lean: "did the engine see a tie") is a
question about the SAME state: `tieSeen` = "`digitsPre` returns a state p and the value p.fp it hands to `roundl` has the
fractional part exactly 1/2".  Together with `digitsOf_eq_pre`: the value `tieSeen` tests is the value `digitsOf`
rounds; `tieSeen` is no longer a second copy that only the `Tf` fields of the stream tie to the model. -/
theorem tieSeen_eq_pre {α : Type} (A : Arith α) (cfg : Cfg) (fuel : Nat) (r : α) (precision : Int) (ops : Ops)
    (withExp isShort : Bool) :
    tieSeen A cfg fuel r precision ops withExp isShort =
      (match digitsPre A cfg fuel r precision ops withExp isShort with
       | .ok p => A.eq (A.fmod p.fp A.one) (A.div A.one (A.ofInt 2))
       | .error _ => false) :=
  tieSeen_eq_pre_aux A cfg fuel r precision ops withExp isShort

/-- **tieSeen_of_digitsOf** — the two facts combined: whenever print_f's digit generation returns (`digitsOf = ok d`),
there is ONE pre-rounding state p with `d = digitsPost p` and `tieSeen = (frac p.fp = 1/2)`; when it does not return,
`tieSeen` is false (the result field is then `diverged`/`undef`, never `Tf`). -/
theorem tieSeen_of_digitsOf {α : Type} (A : Arith α) (cfg : Cfg) (fuel : Nat) (r : α) (precision : Int) (ops : Ops)
    (withExp isShort : Bool) :
    (∃ p, digitsPre A cfg fuel r precision ops withExp isShort = .ok p ∧
          digitsOf A cfg fuel r precision ops withExp isShort = .ok (digitsPost A cfg ops isShort p) ∧
          tieSeen A cfg fuel r precision ops withExp isShort = A.eq (A.fmod p.fp A.one) (A.div A.one (A.ofInt 2))) ∨
    (∃ e, digitsOf A cfg fuel r precision ops withExp isShort = .error e ∧
          tieSeen A cfg fuel r precision ops withExp isShort = false) := by
  rw [digitsOf_eq_pre, tieSeen_eq_pre]
  cases h : digitsPre A cfg fuel r precision ops withExp isShort with
  | ok p => exact Or.inl ⟨p, rfl, rfl, rfl⟩
  | error e => exact Or.inr ⟨e, rfl, rfl⟩

-- non-vacuity: `%.2f` of 1/8 (scaled fraction 12.5: a tie), `%.2f` of 1/4 (25: no tie), exact arithmetic
example : tieSeen exactA cfgNow 10 (.fin false (1 / 8)) 2 { prec := true } false false = true ∧
    tieSeen exactA cfgNow 10 (.fin false (1 / 4)) 2 { prec := true } false false = false := by
  decide +kernel


/-! ### Round 3b: the `int` arithmetic of print_f as a statement about print_f itself -/

/-- **print_f_no_int_overflow** — `layoutC_eq_layout` had the sizes of the buffer regions and of the trailing zeros as
HYPOTHESES; here they are derived from `printF` itself: for every arithmetic instance, every argument (finite or not),
fuel, flag set, 0 ≤ width, 0 ≤ precision with width + precision ≤ 2 147 481 000 (INT_MAX − 2 647) and each of %f %e, and
%g without `#`: the evaluation with every `int` expression of the emission part checked (`printFC`) IS `printF` - no
signed overflow anywhere in `pad_count`, `pc`, `zero_left`.  Ingredients: the buffer `fillBuf` returns uses ≤ 352 bytes
(`good_fillBuf_used`, from the guards of the code), the precision field is the requested precision (6 by default) for
%f/%e (`digitsOf_precision_fe`), generated digits ≤ precision (`good_digitsOf`).  `%#g` is excluded: there
zero_left = P − ((int)ep + 1) − generated and an abstract arithmetic instance may return any `int` for `(int)ep`
(for binary64 it lies in −4..P, `Total2.lean`; not combined here - open). -/
theorem print_f_no_int_overflow {α : Type} (A : Arith α) (fuel : Nat) (r : α) (nanNeg : Bool) (width precision : Int)
    (ops : Ops) (withExp isShort : Bool)
    (hw : 0 ≤ width) (hp : 0 ≤ precision) (hsum : width + precision ≤ 2147481000)
    (hg : isShort = false ∨ ops.spec = false) :
    printFC A cfgNow fuel r nanNeg width precision ops withExp isShort =
      printF A cfgNow fuel r nanNeg width precision ops withExp isShort := by
  have hpfx : ∀ (a b c : Bool), (if a then ['-'] else if b then ['+'] else if c then [' '] else ([] : List Char)).length ≤ 3 := by
    intro a b c; cases a <;> cases b <;> cases c <;> simp
  have key : ∀ (r0 : α) (pfx : List Char), pfx.length ≤ 3 →
      (do
        let d ← digitsOf A cfgNow fuel r0 precision ops withExp isShort
        let b ← fillBuf A cfgNow ops isShort d
        let zeroLeft : Int := if isShort && (!cfgNow.repaired || !ops.spec) then 0 else d.precision - d.signCount
        layoutC cfgNow ops width pfx b zeroLeft : M (List Char × Int)) =
      (do
        let d ← digitsOf A cfgNow fuel r0 precision ops withExp isShort
        let b ← fillBuf A cfgNow ops isShort d
        let zeroLeft : Int := if isShort && (!cfgNow.repaired || !ops.spec) then 0 else d.precision - d.signCount
        layout cfgNow ops width pfx b zeroLeft) := by
    intro r0 pfx hpf
    cases hd : digitsOf A cfgNow fuel r0 precision ops withExp isShort with
    | error e => rfl
    | ok d =>
      have gd := good_digitsOf A cfgNow rfl fuel r0 precision ops withExp isShort
      rw [hd] at gd
      simp only [good_ok] at gd
      simp only [bind, Except.bind]
      cases hb : fillBuf A cfgNow ops isShort d with
      | error e => rfl
      | ok b =>
        have gb := good_fillBuf_used A cfgNow rfl cfgNow_fits ops isShort d gd.1
        rw [hb] at gb
        simp only [good_ok] at gb
        have hsz : cfgNow.size = 352 := rfl
        have hfm : cfgNow.fracMax = 340 := rfl
        have hrep : cfgNow.repaired = true := rfl
        simp only [Buf.used] at gb
        show layoutC cfgNow ops width pfx b _ = layout cfgNow ops width pfx b _
        rcases hg with h | h
        · subst h
          have hpr := digitsOf_precision_fe A cfgNow fuel r0 precision ops withExp d hd
          simp only [Bool.false_and, Bool.false_eq_true, if_false]
          apply layoutC_eq_layout cfgNow ops width pfx b _ hw ?_ ?_ hpf (by omega) (by omega)
          · have g2 := gd.2
            rw [hpr] at g2 ⊢
            by_cases hpc : ops.prec = true <;> simp only [hpc, if_true, Bool.false_eq_true, if_false] at g2 ⊢ <;> omega
          · have g2 := gd.2
            rw [hpr] at g2 ⊢
            by_cases hpc : ops.prec = true <;> simp only [hpc, if_true, Bool.false_eq_true, if_false] at g2 ⊢ <;> omega
        · simp only [h, hrep, Bool.not_true, Bool.not_false, Bool.false_or, Bool.or_true, Bool.and_true]
          cases isShort
          · have hpr := digitsOf_precision_fe A cfgNow fuel r0 precision ops withExp d hd
            simp only [Bool.false_eq_true, if_false]
            apply layoutC_eq_layout cfgNow ops width pfx b _ hw ?_ ?_ hpf (by omega) (by omega)
            · have g2 := gd.2
              rw [hpr] at g2 ⊢
              by_cases hpc : ops.prec = true <;> simp only [hpc, if_true, Bool.false_eq_true, if_false] at g2 ⊢ <;> omega
            · have g2 := gd.2
              rw [hpr] at g2 ⊢
              by_cases hpc : ops.prec = true <;> simp only [hpc, if_true, Bool.false_eq_true, if_false] at g2 ⊢ <;> omega
          · simp only [if_true]
            exact layoutC_eq_layout cfgNow ops width pfx b 0 hw (by omega) (by omega) hpf (by omega) (by omega)
  unfold printFC printF
  split
  · rfl
  · split
    · rfl
    · exact key _ _ (hpfx _ _ _)

example : printFC exactA cfgNow 10 (.fin true (355 / 113)) false 12 3 { prec := true, zero := true } false false =
    printF exactA cfgNow 10 (.fin true (355 / 113)) false 12 3 { prec := true, zero := true } false false :=
  print_f_no_int_overflow _ _ _ _ _ _ _ _ _ (by decide) (by decide) (by decide) (Or.inl rfl)

/-- **print_f_count_bound** — the number print_f returns for a finite argument is at most
max(width, max(precision, 6) + 352): one sign, at most 351 bytes of the 352-byte buffer (integer digits, point,
generated fraction digits, exponent text), and the trailing zeros that complete the precision.  Every arithmetic
instance; %f %e, and %g without `#`.  (This is the bound the round-3 notes asked for, `precision + 359`, slightly
tighter.) -/
theorem print_f_count_bound {α : Type} (A : Arith α) (fuel : Nat) (r : α) (nanNeg : Bool) (width precision : Int)
    (ops : Ops) (withExp isShort : Bool) (out : List Char) (pc : Int)
    (hp : 0 ≤ precision) (hg : isShort = false ∨ ops.spec = false)
    (hfin : (A.isnan r || A.isinf r) = false)
    (h : printF A cfgNow fuel r nanNeg width precision ops withExp isShort = .ok (out, pc)) :
    pc ≤ max width (max precision 6 + 352) := by
  have hc := print_f_count A fuel r nanNeg width precision ops withExp isShort out pc h
  obtain ⟨d, b, hd, hb, _, _, hlen⟩ := print_f_layout A fuel r nanNeg width precision ops withExp isShort out pc hfin h
  have gd := good_digitsOf A cfgNow rfl fuel (if A.signbit r then A.neg r else r) precision ops withExp isShort
  rw [hd] at gd
  simp only [good_ok] at gd
  have gb := good_fillBuf_used A cfgNow rfl cfgNow_fits ops isShort d gd.1
  rw [hb] at gb
  simp only [good_ok, Buf.used] at gb
  have hsz : cfgNow.size = 352 := rfl
  have hcs := cstrlen_le b.post
  have hsg : (signText (A.signbit r) ops).length ≤ 1 := by
    unfold signText; split <;> [simp; (split <;> [simp; (split <;> simp)])]
  have hz : ((if isShort && !ops.spec then 0 else d.precision - d.signCount : Int).toNat : Int) ≤ max precision 6 := by
    rcases hg with h1 | h1
    · subst h1
      have hpr := digitsOf_precision_fe A cfgNow fuel _ precision ops withExp d hd
      simp only [Bool.false_and, Bool.false_eq_true, if_false]
      rw [hpr]
      by_cases hpc : ops.prec = true <;> simp only [hpc, if_true, Bool.false_eq_true, if_false] <;> omega
    · cases isShort
      · have hpr := digitsOf_precision_fe A cfgNow fuel _ precision ops withExp d hd
        simp only [Bool.false_and, Bool.false_eq_true, if_false]
        rw [hpr]
        by_cases hpc : ops.prec = true <;> simp only [hpc, if_true, Bool.false_eq_true, if_false] <;> omega
      · simp only [h1, Bool.not_false, Bool.and_true, if_true]
        omega
  rw [hc, hlen]
  push_cast
  omega

example : printF exactA cfgNow 10 (.fin true (355 / 113)) false 12 3 { prec := true, zero := true } false false =
    .ok ("-0000003.142".toList, 12) ∧ (12 : Int) ≤ max 12 (max 3 6 + 352) := by
  decide +kernel

end Igris.C13
