import IgrisModel.Common.Proto
import IgrisModel.C13.Model
import IgrisModel.C13.Shape
import IgrisModel.C13.Tie
import IgrisModel.C13.Canon
import IgrisModel.C13.Nested
import IgrisModel.C13.IntW
open Igris.Proto Igris.C13

def hexOfChars (cs : List Char) : String :=
  if cs.isEmpty then "-" else String.join (cs.map fun c => hexOfNat 2 c.toNat)

def showRes : Res → String
  | .done out pc => toString pc ++ " " ++ hexOfChars out
  | .fault => "fault"
  | .undef => "undef"
  | .diverged => "diverged"
  | .unmodelled => "unmodelled"

def showBits (v : FV) : String :=
  match toBits v with
  | some b => hexOfNat 16 b
  | none => "nan"

def parseStar (w : String) : Option Igris.C06.Arg := w.toInt?.map fun v => Igris.C06.Arg.int (BitVec.ofInt 32 v)

/-- the ISO shape predicate of `Shape.lean` on a given text: the directive is parsed with the
C06 parser exactly as `directive` does -/
def shapeOfFmt (fmt : List Char) (stars : List Igris.C06.Arg) (neg : Bool) (text : List Char) : Option Bool :=
  let begin := fmt.dropWhile (· ≠ '%')
  let (s, ops) := Igris.C06.flagsLoop begin.tail {}
  match Igris.C06.getWidth s stars ops with
  | none => none
  | some (width, s, stars, ops) =>
    match Igris.C06.getPrec s stars ops with
    | none => none
    | some (precision, s, _, ops) =>
      let (s, ops) := Igris.C06.getLen s ops
      let c := Igris.C06.hd s
      let ops := if c.isUpper then { ops with upper := true } else ops
      let conv : Option Conv :=
        if c = 'f' || c = 'F' then some .f else if c = 'e' || c = 'E' then some .e
        else if c = 'g' || c = 'G' then some .g else none
      conv.map fun cv => isoShape cv ops width precision neg text

/-- what the tie canonicalisation needs of the directive: length of the literal text in front of and
behind it, the conversion in lower case, the precision (C06 parser, as `directive` uses it) -/
structure DirInfo where
  pre : Nat
  post : Nat
  conv : Char
  hasPrec : Bool
  prec : Int
  ops : Igris.C06.Ops
  width : Int

def dirInfo (fmt : List Char) (stars : List Igris.C06.Arg) : Option DirInfo :=
  let pre := fmt.takeWhile (· ≠ '%')
  let begin := fmt.dropWhile (· ≠ '%')
  let (s, ops) := Igris.C06.flagsLoop begin.tail {}
  match Igris.C06.getWidth s stars ops with
  | none => none
  | some (width, s, stars, ops) =>
    match Igris.C06.getPrec s stars ops with
    | none => none
    | some (precision, s, _, ops) =>
      let (s, ops) := Igris.C06.getLen s ops
      let c := Igris.C06.hd s
      let ops := if c.isUpper then { ops with upper := true } else ops
      some { pre := pre.length, post := s.tail.length, conv := c.toLower, hasPrec := ops.prec, prec := precision, ops := ops, width := width }

/-- result field of a floating conversion.  Round 3c: for a finite non-zero argument the TOLERANT observable of
`Canon.lean` (the routine's own text with the number replaced by the correctly rounded reference + the verdict
within / outside the allowance); zero, non-finite arguments, widths above 5000: the text byte for byte -/
def showPF (fmt : List Char) (st : List Igris.C06.Arg) (x : FV) (r : Res) (strict : Bool := false) : String :=
  match r, x with
  | .done out pc, .fin neg m =>
    match dirInfo fmt st with
    | some d =>
      if m ≤ 0 || d.width > 5000 || d.width < -5000 || !(d.conv = 'f' || d.conv = 'e' || d.conv = 'g') then showRes r
      else Igris.C13.Canon.line pc out d.pre d.post d.conv d.ops d.width d.prec neg m strict
    | none => showRes r
  | _, _ => showRes r

/-- one conversion of a `pfn` op: its result field, and the characters it hands to the callback -/
def pieceOf (kind f a : String) : Option (String × List Char) := do
  let fmt ← (parseBytes? f).map fun bs => bs.map fun c => Char.ofNat c.toNat
  if kind = "d" then
    let bits ← parseHexNat? a
    let r := printfF b64A cfgNow fmt [] (ofBits bits) (decide (bits ≥ 2 ^ 63))
    let out := match r with | .done out _ => out | _ => []
    pure (showPF fmt [] (ofBits bits) r, out)
  else
    let arg ← (match a.toList with
      | 'i' :: ':' :: rest => (String.ofList rest).toInt?.map fun v => Igris.C06.Arg.int (BitVec.ofInt 32 v)
      | 'l' :: ':' :: rest => (String.ofList rest).toInt?.map fun v => Igris.C06.Arg.long (BitVec.ofInt 64 v)
      | 's' :: ':' :: rest => (parseBytes? (String.ofList rest)).map fun bs =>
          Igris.C06.Arg.str (bs.map (fun c => Char.ofNat c.toNat) ++ [Igris.C06.NUL])
      | _ => none : Option Igris.C06.Arg)
    match Igris.C06.printf fmt [arg] with
    | .done out pc => pure (toString pc ++ " " ++ hexOfChars out, out)
    | .fault => pure ("fault", [])
    | .badarg => pure ("badarg", [])
    | .unsupported => pure ("unsupported", [])
    | .diverged => pure ("diverged", [])

/-- what the model embeds of the constants of the code (op `consts`) -/
def constsLine : String :=
  "buff_fits=" ++ (if max cfgNow.expMax 1 + cfgNow.fracMax + 7 ≤ cfgNow.size then "1" else "0") ++ " FRAC_MAX=" ++ toString cfgNow.fracMax ++
  -- round 3b: EXP_MAX (enters `buff_fits`; not observable over binary64 while it is ≥ 3) and the internal numbering of
  -- the OPS_ flag bits are not fixed by the property: the harness reports them as tags; the flag word of a `pfd` op is
  -- in the op line's own encoding (`opsOfMask`), translated to the library's bits by the harness
  " PREC_DEFAULT=6 sizeof_DOUBLE=8 sizeof_int=4 sizeof_long_double=16"

def opsOfMask (m : Nat) : Igris.C06.Ops :=
  { left := m % 2 = 1, sign := (m / 2) % 2 = 1, space := (m / 4) % 2 = 1, spec := (m / 8) % 2 = 1,
    zero := (m / 16) % 2 = 1, prec := (m / 32) % 2 = 1, upper := (m / 16384) % 2 = 1,
    len := if (m / 8192) % 2 = 1 then .bigL else .none }

/-- ops `pf` / `pfs` (`pfs`: the verdict with the strict allowance of 4 ulps, as the harness oracle of `pfs`) -/
def pfLine (strict : Bool) (f b : String) (stars : List String) : Option String := do
  let fmt ← (parseBytes? f).map fun bs => bs.map fun c => Char.ofNat c.toNat
  let bits ← parseHexNat? b
  let st ← stars.mapM parseStar
  pure (showPF fmt st (ofBits bits) (printfF b64A cfgNow fmt st (ofBits bits) (decide (bits ≥ 2 ^ 63))) strict)

def stepLine (_ : Unit) (line : String) : Unit × String :=
  let r : Option String :=
    match words line with
    | "pf" :: f :: b :: stars => pfLine false f b stars
    | "pfs" :: f :: b :: stars => pfLine true f b stars
    | "sh" :: f :: n :: t :: stars | "shm" :: f :: n :: t :: stars => do
      let fmt ← (parseBytes? f).map fun bs => bs.map fun c => Char.ofNat c.toNat
      let text ← (parseBytes? t).map fun bs => bs.map fun c => Char.ofNat c.toNat
      let st ← stars.mapM parseStar
      let r ← shapeOfFmt fmt st (n = "1") text
      pure (if r then "1" else "0")
    | "pfL" :: f :: se :: m :: stars => do
      let fmt ← (parseBytes? f).map fun bs => bs.map fun c => Char.ofNat c.toNat
      let se ← parseHexNat? se
      let m ← parseHexNat? m
      let st ← stars.mapM parseStar
      pure (showPF fmt st (cvt64 (ofBits80 se m)) (printfF b64A cfgNow fmt st (cvt64 (ofBits80 se m)) (decide (se ≥ 32768)) true))
    | ["pfn", _, k, ka, fa, aa, kb, fb, ab] => do
      let k ← k.toNat?
      let (ra, outA) ← pieceOf ka fa aa
      let (rb, _) ← pieceOf kb fb ab
      -- the callback of the experiment (Nested.lean): the nested conversion is the independent call
      let st := runNested k (fun _ => rb) outA
      pure (ra ++ " | " ++ st.inner.getD "-")
    | ["pm", _, f, b] => do
      let fmt ← (parseBytes? f).map fun bs => bs.map fun c => Char.ofNat c.toNat
      let bits ← parseHexNat? b
      pure (showPF fmt [] (ofBits bits) (printfF b64A cfgNow fmt [] (ofBits bits) (decide (bits ≥ 2 ^ 63))))
    | ["consts"] => pure constsLine
    -- the LONG_DOUBLE flavour of the engine is not modelled (the harness oracle judges it)
    | ["pfx", _, _, _] => pure "ld"
    | ["pfd", b, w, p, m, we, sh] => do
      let bits ← parseHexNat? b
      let width ← w.toNat?
      let precision ← p.toNat?
      let ops := opsOfMask (← parseHexNat? m)
      let x := ofBits bits
      -- `printFC`: the emission part in C `int` arithmetic (IntW.lean)
      let r := resOf (printFC b64A cfgNow FUEL x (decide (bits ≥ 2 ^ 63)) width precision ops (we = "1") (sh = "1"))
      match r, x with
      | .done out pc, .fin neg mag =>
        let conv := if sh = "1" then 'g' else if we = "1" then 'e' else 'f'
        let prec : Int := if ops.prec then precision else 0
        if mag ≤ 0 || width > 5000 then pure (showRes r)
        else pure (Igris.C13.Canon.line pc out 0 0 conv ops width prec neg mag false)
      | _, _ => pure (showRes r)
    | ["ar", "cvt", se, m] => do
      let se ← parseHexNat? se
      let m ← parseHexNat? m
      pure (showBits (cvt64 (ofBits80 se m)))
    | ["ar", "pow", a, n] => do
      let a ← a.toNat?
      let n ← n.toNat?
      pure (showBits (b64A.pow a n))
    | ["ar", op, a] => do
      let a ← (parseHexNat? a).map ofBits
      match op with
      | "round" => pure (showBits (b64A.round a))
      | "modf" => let (f, i) := b64A.modf a; pure (showBits f ++ " " ++ showBits i)
      | _ => none
    | ["ar", op, a, b] => do
      let a ← (parseHexNat? a).map ofBits
      let b ← (parseHexNat? b).map ofBits
      match op with
      | "add" => pure (showBits (b64A.add a b))
      | "mul" => pure (showBits (b64A.mul a b))
      | "div" => pure (showBits (b64A.div a b))
      | "fmod" => pure (showBits (b64A.fmod a b))
      | _ => none
    | _ => none
  ((), r.getD "bad-op")

/-! Round 3b: the ops of C13 are stateless (`stepLine` has no state), and the exact-rational software binary64 makes
one `pf` op cost 1-4 ms: the lines are evaluated by `WORKERS` tasks (line i by task i mod WORKERS, so that the
expensive op kinds are spread evenly) and printed in the order read.  A short input (a replay) is evaluated
sequentially.  The function applied to a line is `stepLine` in both cases. -/
def WORKERS : Nat := 8

partial def readAll (h : IO.FS.Stream) (acc : Array String) : IO (Array String) := do
  let line ← h.getLine
  if line.isEmpty then return acc else readAll h (acc.push line)

def workerOf (lines : Array String) (w : Nat) : Array String := Id.run do
  let mut out : Array String := Array.mkEmpty (lines.size / WORKERS + 1)
  let mut j := w
  while j < lines.size do
    out := out.push (stepLine () lines[j]!).2
    j := j + WORKERS
  return out

def main : IO Unit := do
  let i ← IO.getStdin
  let o ← IO.getStdout
  let lines ← readAll i #[]
  if lines.size < 64 then
    for l in lines do o.putStrLn (stepLine () l).2
  else
    let tasks := (List.range WORKERS).map fun w => Task.spawn fun _ => workerOf lines w
    let res : Array (Array String) := (tasks.map Task.get).toArray
    for k in [0:lines.size] do
      o.putStrLn ((res[k % WORKERS]!)[k / WORKERS]!)
  o.flush
