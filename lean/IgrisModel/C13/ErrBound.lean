/-
  C13 — accumulated rounding error of the digit generation of `print_f` (`%e` / `%f`).

  Every rounded step of the engine (`x = rnd(x/10)`, `x = rnd(x*10)`, `fp = rnd(fp*10)`) has
  relative error ≤ u; `fp = roundl(fp)` costs at most half a unit of the last printed digit.
  For ANY `Lawful rnd` the value read off the `Digits` record that `digitsOf` returns is within
      ½ · (unit of the last printed digit) + 2·K·u·x
  of the argument, K = number of rounded steps (normalisation passes + generated digits),
  whenever K·u ≤ ½:
    * `digits_error_e`  (%e)  K = |e| + 2 + signCount
    * `digits_error_f`  (%f)  K = signCount + 1
  with corollaries for exact arithmetic (`_exact`, no `u` term; they also witness that the
  hypotheses are satisfiable) and for binary64 with precision ≤ 22 (`_b64`).

  Hypotheses on the rounding beyond `Lawful`:
    hdu  : d ≤ u                 absolute error bound below the relative one at 1 (`hdu64`)
    hdn  : d ≤ x·u               the argument is in the normal range (`hdn64`)
    hfr  : the fraction of a representable v ≥ 1 is 0 or ≥ d/u (`hfr64`)
    TenOk: rnd(10·v) < 10 for representable v < 1 (`tenOk_exact`, `tenOk64`); %e only.  Without it
           `ip` can be 10 or 11 after the second normalisation loop while `fp` is not zero, and
           the code's renormalisation `(ip + fp)/base` then adds the already scaled fraction.
    hpw  : POW(10, n) is exactly 10^n for n ≤ precision (the carry test `fp != POW(base, sign_count)`).
           Exact arithmetic: all n.  binary64 `powHost`: n ≤ 22 (`powHost_small`); for n ≥ 23 one
           would need instead that the scaled fraction never reaches `powHost 10 n` (it stays
           below 2^56), which is not of this form — hence `precision ≤ 22` in the `_b64` corollaries.
    hint : rnd of a natural number is an integer (`hint64`); %f with precision 0 only
           (`ip = roundl(ip + roundl(fp))` with an integer part that may exceed 2^53).
-/
import IgrisModel.C13.Total2
namespace Igris.C13
open Igris.C06 (Ops NUL)

/-! ### 1. an algebra of accumulated relative error -/

/-- `a` is `b` up to `n` relative perturbations of size at most `u` -/
def Within (n : ℕ) (u a b : ℚ) : Prop := b * (1 - u) ^ n ≤ a ∧ a ≤ b * (1 + u) ^ n

theorem Within.refl (u a : ℚ) : Within 0 u a a := by simp [Within]

theorem Within.nonneg {n : ℕ} {u a b : ℚ} (hu1 : u ≤ 1) (hb : 0 ≤ b) (h : Within n u a b) : 0 ≤ a :=
  le_trans (mul_nonneg hb (pow_nonneg (by linarith) n)) h.1

/-- one more rounded multiplication by `c` -/
theorem Within.step {n : ℕ} {u a b c w : ℚ} (hu0 : 0 ≤ u) (hu1 : u ≤ 1) (h : Within n u a b)
    (hc : 0 < c) (hw : |w - a * c| ≤ a * c * u) : Within (n + 1) u w (b * c) := by
  obtain ⟨h1, h2⟩ := h
  rw [abs_le] at hw
  obtain ⟨w1, w2⟩ := hw
  have hp1 : 0 ≤ (1 - u) ^ n := pow_nonneg (by linarith) n
  have hp2 : 0 ≤ (1 + u) ^ n := pow_nonneg (by linarith) n
  constructor
  · have e : b * c * (1 - u) ^ (n + 1) = (b * (1 - u) ^ n) * (c * (1 - u)) := by ring
    rw [e]
    have : (b * (1 - u) ^ n) * (c * (1 - u)) ≤ a * (c * (1 - u)) :=
      mul_le_mul_of_nonneg_right h1 (mul_nonneg (le_of_lt hc) (by linarith))
    linarith
  · have e : b * c * (1 + u) ^ (n + 1) = (b * (1 + u) ^ n) * (c * (1 + u)) := by ring
    rw [e]
    have : a * (c * (1 + u)) ≤ (b * (1 + u) ^ n) * (c * (1 + u)) :=
      mul_le_mul_of_nonneg_right h2 (mul_nonneg (le_of_lt hc) (by linarith))
    linarith

theorem Within.mono {n m : ℕ} {u a b : ℚ} (hu0 : 0 ≤ u) (hu1 : u ≤ 1) (hb : 0 ≤ b) (hnm : n ≤ m)
    (h : Within n u a b) : Within m u a b := by
  obtain ⟨h1, h2⟩ := h
  constructor
  · have : (1 - u) ^ m ≤ (1 - u) ^ n := pow_le_pow_of_le_one (by linarith) (by linarith) hnm
    have := mul_le_mul_of_nonneg_left this hb
    linarith
  · have : (1 + u) ^ n ≤ (1 + u) ^ m := pow_le_pow_right₀ (by linarith) hnm
    have := mul_le_mul_of_nonneg_left this hb
    linarith

/-- composition: `a ≈ b` in `n` steps, then `c ≈ a·k` in `m` steps -/
theorem Within.trans {n m : ℕ} {u a b c k : ℚ} (hu0 : 0 ≤ u) (hu1 : u ≤ 1) (hk : 0 ≤ k)
    (h : Within n u a b) (h' : Within m u c (a * k)) : Within (n + m) u c (b * k) := by
  obtain ⟨h1, h2⟩ := h
  obtain ⟨g1, g2⟩ := h'
  have hp1 : 0 ≤ (1 - u) ^ m := pow_nonneg (by linarith) m
  have hp2 : 0 ≤ (1 + u) ^ m := pow_nonneg (by linarith) m
  constructor
  · have e : b * k * (1 - u) ^ (n + m) = (b * (1 - u) ^ n) * (k * (1 - u) ^ m) := by ring
    rw [e]
    have : (b * (1 - u) ^ n) * (k * (1 - u) ^ m) ≤ a * (k * (1 - u) ^ m) :=
      mul_le_mul_of_nonneg_right h1 (mul_nonneg hk hp1)
    linarith
  · have e : b * k * (1 + u) ^ (n + m) = (b * (1 + u) ^ n) * (k * (1 + u) ^ m) := by ring
    rw [e]
    have : a * (k * (1 + u) ^ m) ≤ (b * (1 + u) ^ n) * (k * (1 + u) ^ m) :=
      mul_le_mul_of_nonneg_right h2 (mul_nonneg hk hp2)
    linarith

/-- an exact non-negative summand only improves the relative error:
`w ≈ m·c` gives `f + w/c ≈ f + m` -/
theorem Within.add_left {n : ℕ} {u w m c f : ℚ} (hu0 : 0 ≤ u) (hu1 : u ≤ 1) (hf : 0 ≤ f) (hc : 0 < c)
    (h : Within n u w (m * c)) : Within n u (f + w / c) (f + m) := by
  obtain ⟨h1, h2⟩ := h
  have hp1 : (1 - u) ^ n ≤ 1 := pow_le_one₀ (by linarith) (by linarith)
  have hp2 : 1 ≤ (1 + u) ^ n := one_le_pow₀ (by linarith)
  constructor
  · have e : m * (1 - u) ^ n ≤ w / c := by
      rw [le_div_iff₀ hc]; linarith
    have := mul_le_mul_of_nonneg_left hp1 hf
    linarith
  · have e : w / c ≤ m * (1 + u) ^ n := by
      rw [div_le_iff₀ hc]; linarith
    have := mul_le_mul_of_nonneg_left hp2 hf
    linarith

theorem one_add_pow_le (u : ℚ) (hu0 : 0 ≤ u) : ∀ n : ℕ, (n : ℚ) * u ≤ 1 / 2 → (1 + u) ^ n ≤ 1 + 2 * n * u := by
  intro n
  induction n with
  | zero => intro _; simp
  | succ k ih =>
    intro h
    push_cast at h ⊢
    have hk : (k : ℚ) * u ≤ 1 / 2 := by nlinarith
    have := ih hk
    have hk0 : (0 : ℚ) ≤ k := Nat.cast_nonneg k
    rw [pow_succ]
    have h1 : (1 + u) ^ k * (1 + u) ≤ (1 + 2 * k * u) * (1 + u) :=
      mul_le_mul_of_nonneg_right this (by linarith)
    nlinarith [mul_nonneg hk0 hu0, mul_nonneg (mul_nonneg hk0 hu0) hu0]

theorem one_sub_pow_ge (u : ℚ) (hu1 : u ≤ 1) (n : ℕ) : 1 - n * u ≤ (1 - u) ^ n := by
  induction n with
  | zero => simp
  | succ k ih =>
    push_cast
    have hk0 : (0 : ℚ) ≤ k := Nat.cast_nonneg k
    rw [pow_succ]
    have h1 : (1 - k * u) * (1 - u) ≤ (1 - u) ^ k * (1 - u) :=
      mul_le_mul_of_nonneg_right ih (by linarith)
    nlinarith [mul_nonneg hk0 (mul_self_nonneg u)]

/-- `n` relative perturbations amount to at most `2·n·u`, as long as `n·u ≤ 1/2` -/
theorem Within.abs_le {n : ℕ} {u a b : ℚ} (hu0 : 0 ≤ u) (hu1 : u ≤ 1) (hb : 0 ≤ b) (hn : (n : ℚ) * u ≤ 1 / 2)
    (h : Within n u a b) : |a - b| ≤ 2 * n * u * b := by
  obtain ⟨h1, h2⟩ := h
  have p1 := one_add_pow_le u hu0 n hn
  have p2 := one_sub_pow_ge u hu1 n
  have q1 := mul_le_mul_of_nonneg_left p1 hb
  have q2 := mul_le_mul_of_nonneg_left p2 hb
  have hn0 : (0 : ℚ) ≤ n := Nat.cast_nonneg n
  have : 0 ≤ (n : ℚ) * u * b := mul_nonneg (mul_nonneg hn0 hu0) hb
  rw [_root_.abs_le]
  constructor <;> nlinarith

theorem Within.one {u x c w : ℚ} (hu0 : 0 ≤ u) (hu1 : u ≤ 1) (hc : 0 < c) (hw : |w - x * c| ≤ x * c * u) :
    Within 1 u w (x * c) := (Within.refl u x).step hu0 hu1 hc hw

/-! ### 2./3. the normalisation loops -/

section
variable {rnd : Rounding} (L : Lawful rnd) (p : Nat → Nat → FV)
include L

theorem lawful_u_le_one : L.u ≤ 1 := le_trans L.hu (by norm_num)

/-- `normDown_total` with the accumulated error: `j` passes, `x' ≈ x / 10^j` within `j` roundings -/
theorem normDown_err (hdu : L.d ≤ L.u) : ∀ (N fuel : ℕ) (x : ℚ) (k : ℕ), N ≤ fuel → rnd x = some x → 0 ≤ x →
    x < 10 * 8 ^ N → k + N ≤ 2 ^ 53 →
    ∃ (x' : ℚ) (j : ℕ), j ≤ N ∧ rnd x' = some x' ∧ 0 ≤ x' ∧ x' < 10 ∧ (j = 0 → x' = x) ∧ (0 < j → 7 / 8 ≤ x') ∧
      normDown (arithP rnd p) fuel (ipOf x) (fpOf x) (epv k) = .ok (ipOf x', fpOf x', epv ((k + j : ℕ) : ℤ)) ∧
      Within j L.u x' (x / 10 ^ j) := by
  intro N
  induction N with
  | zero =>
    intro fuel x k _ hx h0 hlt _
    have hge : (arithP rnd p).ge (ipOf x) (arithP rnd p).ten = false := by
      rw [ten_eq L p]; simp only [arithP_ge, ipOf, ge_fin, FV.sval, Bool.false_eq_true, if_false]
      have := (flr_ge_iff x 10).not.mpr (by push_cast; linarith)
      simpa using this
    refine ⟨x, 0, le_refl _, hx, h0, by linarith, fun _ => rfl, fun h => absurd h (lt_irrefl _), ?_, ?_⟩
    · cases fuel <;> simp [normDown, hge]
    · simpa using Within.refl L.u x
  | succ N ih =>
    intro fuel x k hf hx h0 hlt hk
    by_cases h10 : x < 10
    · have hge : (arithP rnd p).ge (ipOf x) (arithP rnd p).ten = false := by
        rw [ten_eq L p]; simp only [arithP_ge, ipOf, ge_fin, FV.sval, Bool.false_eq_true, if_false]
        have := (flr_ge_iff x 10).not.mpr (by push_cast; linarith)
        simpa using this
      refine ⟨x, 0, Nat.zero_le _, hx, h0, h10, fun _ => rfl, fun h => absurd h (lt_irrefl _), ?_, ?_⟩
      · cases fuel <;> simp [normDown, hge]
      · simpa using Within.refl L.u x
    · have h10' : 10 ≤ x := not_lt.mp h10
      have hge : (arithP rnd p).ge (ipOf x) (arithP rnd p).ten = true := by
        rw [ten_eq L p]; simp only [arithP_ge, ipOf, ge_fin, FV.sval, Bool.false_eq_true, if_false]
        have := (flr_ge_iff x 10).mpr (by push_cast; linarith)
        simpa using this
      obtain ⟨f, rfl⟩ : ∃ f, fuel = f + 1 := ⟨fuel - 1, by omega⟩
      have hsm : L.small x := small_of_rnd L hx
      obtain ⟨w, hw, hw0, hws, hrw⟩ := div_ten L (n := false) h0 hsm
      have hww : rnd w = some w := L.idem hrw
      -- error of the division
      have hrel := L.rel (by linarith : (0:ℚ) < x / 10) hrw
      have hrel' : |w - x * (1 / 10)| ≤ x * (1 / 10) * L.u := by
        have e : x * (1 / 10) = x / 10 := by ring
        rw [e]
        refine le_trans hrel (max_le (le_refl _) ?_)
        have : 1 * L.u ≤ x / 10 * L.u := mul_le_mul_of_nonneg_right (by linarith) L.hu0
        linarith
      have hmax : max (x / 10 * L.u) L.d ≤ x / 80 := by
        apply max_le
        · have := L.hu; have : x / 10 * L.u ≤ x / 10 * (1 / 8) := mul_le_mul_of_nonneg_left L.hu (by linarith)
          linarith
        · have := L.hd; linarith
      rw [abs_le] at hrel
      have hwle : w ≤ x / 8 := by linarith [hrel.2]
      have hwpos : 7 / 8 ≤ w := by linarith [hrel.1]
      have hstep : (arithP rnd p).modf ((arithP rnd p).div ((arithP rnd p).add (ipOf x) (fpOf x)) (arithP rnd p).ten)
          = (fpOf w, ipOf w) := by
        rw [ten_eq L p]; simp only [arithP_modf, arithP_div, arithP_add]
        rw [add_modf hx h0, hw, modf_fin]
      have hep : (arithP rnd p).add (epv k) (arithP rnd p).one = epv ((k + 1 : ℕ) : ℤ) := by
        rw [one_eq L p]; simp only [arithP_add]
        have := add_epv L (k : ℤ) 1 (by omega)
        have e1 : epv 1 = .fin false 1 := by simp [epv]
        rw [e1] at this
        rw [this]; push_cast; rfl
      obtain ⟨x', j, hj, hx', h0', hlt', hj0, hpos', hrun, hwi⟩ := ih f w (k + 1) (by omega) hww hw0
        (by have : (8:ℚ) ^ (N + 1) = 8 * 8 ^ N := by ring
            rw [this] at hlt; linarith) (by omega)
      refine ⟨x', j + 1, by omega, hx', h0', hlt', by omega, fun _ => ?_, ?_, ?_⟩
      · rcases Nat.eq_zero_or_pos j with hj' | hj'
        · rw [hj0 hj']; exact hwpos
        · exact hpos' hj'
      · simp only [normDown, hge, if_true, hstep, hep]
        rw [hrun]
        have : ((k + 1 + j : ℕ) : ℤ) = ((k + (j + 1) : ℕ) : ℤ) := by push_cast; ring
        rw [this]
      · have h1 := Within.one L.hu0 (lawful_u_le_one L) (by norm_num : (0:ℚ) < 1 / 10) hrel'
        have e1 : w / 10 ^ j = w * (1 / 10 ^ j) := by ring
        rw [e1] at hwi
        have := Within.trans L.hu0 (lawful_u_le_one L) (by positivity) h1 hwi
        have e2 : x * (1 / 10) * (1 / 10 ^ j) = x / 10 ^ (j + 1) := by rw [pow_succ]; field_simp
        rw [e2, add_comm] at this
        exact this

/-- `normUp_total` with the accumulated error: `j` passes, `x' ≈ x * 10^j` within `j` roundings.
`hdn` (the absolute error bound `d` is below the relative one for the first product) holds for
every normal binary64. -/
theorem normUp_err : ∀ (N fuel : ℕ) (x : ℚ) (z : ℤ), N ≤ fuel → rnd x = some x → 0 < x → 1 ≤ x * 8 ^ N →
    z.natAbs + N ≤ 2 ^ 53 → x < 12 → L.d ≤ x * 10 * L.u →
    ∃ (x' : ℚ) (j : ℕ), j ≤ N ∧ rnd x' = some x' ∧ 1 ≤ x' ∧ x' < 12 ∧ (j = 0 → x' = x) ∧ (1 ≤ x → j = 0) ∧
      (7 / 8 ≤ x → j ≤ 1) ∧
      (x < 10 → (∀ v w, rnd v = some v → v < 1 → rnd (v * 10) = some w → w < 10) → x' < 10) ∧
      normUp (arithP rnd p) fuel (ipOf x) (fpOf x) (epv z) = .ok (ipOf x', fpOf x', epv (z - (j : ℤ))) ∧
      Within j L.u x' (x * 10 ^ j) := by
  intro N
  induction N with
  | zero =>
    intro fuel x z _ hx h0 h1 _ h12 _
    have hx1 : 1 ≤ x := by simpa using h1
    have heq : (arithP rnd p).eq (ipOf x) (arithP rnd p).zero = false := by
      rw [zero_eq L p]; simp only [arithP_eq, ipOf, eq_fin, FV.sval, Bool.false_eq_true, if_false]
      have := (flr_eq_zero_iff (le_of_lt h0)).not.mpr (by linarith)
      simpa using this
    refine ⟨x, 0, le_refl _, hx, hx1, h12, fun _ => rfl, fun _ => rfl, fun _ => by omega, fun h _ => h, ?_, ?_⟩
    · cases fuel <;> simp [normUp, heq]
    · simpa using Within.refl L.u x
  | succ N ih =>
    intro fuel x z hf hx h0 h1 hz h12 hdn
    by_cases hx1 : 1 ≤ x
    · have heq : (arithP rnd p).eq (ipOf x) (arithP rnd p).zero = false := by
        rw [zero_eq L p]; simp only [arithP_eq, ipOf, eq_fin, FV.sval, Bool.false_eq_true, if_false]
        have := (flr_eq_zero_iff (le_of_lt h0)).not.mpr (by linarith)
        simpa using this
      refine ⟨x, 0, Nat.zero_le _, hx, hx1, h12, fun _ => rfl, fun _ => rfl, fun _ => by omega, fun h _ => h, ?_, ?_⟩
      · cases fuel <;> simp [normUp, heq]
      · simpa using Within.refl L.u x
    · have hlt1 : x < 1 := not_le.mp hx1
      have heq : (arithP rnd p).eq (ipOf x) (arithP rnd p).zero = true := by
        rw [zero_eq L p]; simp only [arithP_eq, ipOf, eq_fin, FV.sval, Bool.false_eq_true, if_false]
        have := (flr_eq_zero_iff (le_of_lt h0)).mpr hlt1
        simpa using this
      obtain ⟨f, rfl⟩ : ∃ f, fuel = f + 1 := ⟨fuel - 1, by omega⟩
      have hsm : L.small (x * 10) := L.small_down (small_nat L 10 (by norm_num)) (by push_cast; linarith)
      obtain ⟨w, hrw⟩ := L.rnd_small hsm
      have hww : rnd w = some w := L.idem hrw
      have hrel := L.rel (by linarith : (0:ℚ) < x * 10) hrw
      have hrel' : |w - x * 10| ≤ x * 10 * L.u := le_trans hrel (max_le (le_refl _) hdn)
      have htiny : 2 * L.d ≤ x := by
        rcases L.rep_tiny (le_of_lt h0) hx with h | h
        · linarith
        · exact h
      have hmax : max (x * 10 * L.u) L.d ≤ x * 10 / 8 := by
        apply max_le
        · have : x * 10 * L.u ≤ x * 10 * (1 / 8) := mul_le_mul_of_nonneg_left L.hu (by linarith)
          linarith
        · have := L.hd0; linarith
      rw [abs_le] at hrel
      have hwge : 8 * x ≤ w := by linarith [hrel.1]
      have hwlt : w < 12 := by linarith [hrel.2]
      have hstep : (arithP rnd p).modf ((arithP rnd p).mul ((arithP rnd p).add (ipOf x) (fpOf x)) (arithP rnd p).ten)
          = (fpOf w, ipOf w) := by
        rw [ten_eq L p]; simp only [arithP_modf, arithP_mul, arithP_add]
        rw [add_modf hx (le_of_lt h0)]
        simp [FV.mul, FV.mk, hrw, modf_fin]
      have hep : (arithP rnd p).add (epv z) ((arithP rnd p).ofInt (-1)) = epv (z - 1) := by
        rw [ofInt_epv L p (-1) (by norm_num)]; simp only [arithP_add]
        have := add_epv L z (-1) (by omega)
        rw [this]; rfl
      have hdn' : L.d ≤ w * 10 * L.u := by
        have : x * 10 * L.u ≤ w * 10 * L.u := mul_le_mul_of_nonneg_right (by linarith) L.hu0
        linarith
      obtain ⟨x', j, hj, hx', h1', h12', _, hj1, _, hten', hrun, hwi⟩ := ih f w (z - 1) (by omega) hww (by linarith)
        (by have : (8:ℚ) ^ (N + 1) = 8 * 8 ^ N := by ring
            rw [this] at h1
            have h8 : (0:ℚ) ≤ 8 ^ N := by positivity
            nlinarith) (by omega) hwlt hdn'
      refine ⟨x', j + 1, by omega, hx', h1', h12', by omega, fun h => absurd h hx1, fun h78 => ?_,
        fun _ ht => hten' (ht x w hx hlt1 hrw) ht, ?_, ?_⟩
      · have := hj1 (by linarith); omega
      · simp only [normUp, heq, if_true, hstep, hep]
        rw [hrun]
        have : z - 1 - (j : ℤ) = z - ((j + 1 : ℕ) : ℤ) := by push_cast; ring
        rw [this]
      · have h1 := Within.one L.hu0 (lawful_u_le_one L) (by norm_num : (0:ℚ) < 10) hrel'
        have := Within.trans L.hu0 (lawful_u_le_one L) (by positivity : (0:ℚ) ≤ 10 ^ j) h1 hwi
        have e2 : x * 10 * 10 ^ j = x * 10 ^ (j + 1) := by rw [pow_succ]; ring
        rw [e2, add_comm] at this
        exact this

end

/-! ### 4. the fraction scaling loop -/

section
variable {rnd : Rounding} (L : Lawful rnd) (p : Nat → Nat → FV)
include L

theorem scale_test (m : ℚ) :
    (arithP rnd p).ne ((arithP rnd p).fmod (.fin false m) (arithP rnd p).one) (arithP rnd p).zero
      = !decide (FV.flr m = m) := by
  rw [one_eq L p, zero_eq L p]
  simp only [Arith.ne, arithP_eq, arithP_fmod, FV.fmod]
  have h1 : (1 : ℚ) ≠ 0 := by norm_num
  simp only [h1, if_false, eq_fin, FV.sval, Bool.false_eq_true]
  congr 1
  apply decide_eq_decide.mpr
  simp only [div_one, mul_one]
  constructor
  · intro h; linarith
  · intro h; linarith

omit L in
theorem flr_zero : FV.flr 0 = 0 := (flr_eq_zero_iff (le_refl 0)).mpr (by norm_num)

theorem scaleLoop_err : ∀ (n sc : ℕ) (m : ℚ), Rq L m → (m = 0 ∨ L.d ≤ m * L.u) →
    ∃ (j : ℕ) (w : ℚ), scaleLoop (arithP rnd p) n sc (.fin false m) = (sc + j, .fin false w) ∧ j ≤ n ∧ Rq L w ∧
      Within j L.u w (m * 10 ^ j) ∧ (j = n ∨ FV.flr w = w) := by
  intro n
  induction n with
  | zero => intro sc m h _; exact ⟨0, m, rfl, le_refl _, h, by simpa using Within.refl L.u m, Or.inl rfl⟩
  | succ n ih =>
    intro sc m h hd
    unfold scaleLoop
    rw [scale_test L p m]
    by_cases hint : FV.flr m = m
    · simp only [hint, decide_true, Bool.not_true, Bool.false_eq_true, if_false]
      exact ⟨0, m, rfl, Nat.zero_le _, h, by simpa using Within.refl L.u m, Or.inr hint⟩
    · simp only [hint, decide_false, Bool.not_false, if_true]
      obtain ⟨hm, hm0, hms⟩ := h
      have hm_ne : m ≠ 0 := by intro h0; apply hint; rw [h0]; exact flr_zero
      have hmpos : 0 < m := lt_of_le_of_ne hm0 (Ne.symm hm_ne)
      have hdm : L.d ≤ m * L.u := by rcases hd with h | h; exact absurd h hm_ne; exact h
      have hsm := L.nonint_small hm hint
      have hs10 : L.small (m * 10) := L.small_down hsm (by linarith)
      obtain ⟨v, hv⟩ := L.rnd_small hs10
      have hvv : rnd v = some v := L.idem hv
      have hmul : (arithP rnd p).mul (.fin false m) (arithP rnd p).ten = .fin false v := by
        rw [ten_eq L p]; simp [FV.mul, FV.mk, hv]
      rw [hmul]
      have hrel := L.rel (by linarith : (0:ℚ) < m * 10) hv
      have hmu : 0 ≤ m * L.u := mul_nonneg hm0 L.hu0
      have hrel' : |v - m * 10| ≤ m * 10 * L.u := le_trans hrel (max_le (le_refl _) (by linarith))
      have hmu8 : m * L.u ≤ m * (1 / 8) := mul_le_mul_of_nonneg_left L.hu hm0
      have hr2 := hrel'
      rw [abs_le] at hr2
      have hvge : m ≤ v := by linarith [hr2.1]
      have hvle : v ≤ 12 * m := by linarith [hr2.2]
      have hdv : L.d ≤ v * L.u := by
        have : m * L.u ≤ v * L.u := mul_le_mul_of_nonneg_right hvge L.hu0
        linarith
      obtain ⟨j, w, hrun, hj, hRq, hwi, hfin⟩ := ih (sc + 1) v ⟨hvv, by linarith, L.small_down hsm (by linarith)⟩ (Or.inr hdv)
      refine ⟨j + 1, w, ?_, by omega, hRq, ?_, ?_⟩
      · rw [hrun]; congr 1; omega
      · have h1 := Within.one L.hu0 (lawful_u_le_one L) (by norm_num : (0:ℚ) < 10) hrel'
        have := Within.trans L.hu0 (lawful_u_le_one L) (by positivity : (0:ℚ) ≤ 10 ^ j) h1 hwi
        have e2 : m * 10 * 10 ^ j = m * 10 ^ (j + 1) := by rw [pow_succ]; ring
        rw [e2, add_comm] at this
        exact this
      · rcases hfin with h | h
        · left; omega
        · right; exact h
end

/-! ### 5. `roundl` and small helpers -/

theorem round_fin (w : ℚ) : FV.round (.fin false w) = .fin false (FV.flr (w + 1 / 2)) := rfl

/-- `roundl` moves a value by at most one half -/
theorem flr_half_err (w : ℚ) : |FV.flr (w + 1 / 2) - w| ≤ 1 / 2 := by
  have h1 := flr_le (w + 1 / 2)
  have h2 := lt_flr_add_one (w + 1 / 2)
  rw [abs_le]; constructor <;> linarith

theorem flr_eq_nat {x : ℚ} {k : ℕ} (h1 : (k : ℚ) ≤ x) (h2 : x < k + 1) : FV.flr x = k := by
  unfold FV.flr
  rw [ratFloor_eq]
  have : ⌊x⌋ = (k : ℤ) := by
    rw [Int.floor_eq_iff]; push_cast; exact ⟨h1, h2⟩
  rw [this]; simp

theorem flr_nat_exists {x : ℚ} (h0 : 0 ≤ x) : ∃ k : ℕ, FV.flr x = k := by
  have := flr_nonneg h0
  unfold FV.flr at *
  have h : (0 : ℤ) ≤ x.floor := by exact_mod_cast this
  obtain ⟨n, hn⟩ := Int.eq_ofNat_of_zero_le h
  exact ⟨n, by rw [hn]; simp⟩

/-- `roundl` is exact on integers -/
theorem flr_half_int {w : ℚ} (h0 : 0 ≤ w) (h : FV.flr w = w) : FV.flr (w + 1 / 2) = w := by
  obtain ⟨k, hk⟩ := flr_nat_exists h0
  rw [h] at hk
  rw [hk]
  exact flr_eq_nat (by linarith) (by linarith)

theorem flr_ofNat_eb (k : ℕ) : FV.flr (k : ℚ) = k := flr_eq_nat (le_refl _) (by linarith)

section
variable {rnd : Rounding} (L : Lawful rnd) (p : Nat → Nat → FV)
include L

theorem add_nat (k c : ℕ) (h : k + c ≤ 2 ^ 53) :
    FV.add rnd (.fin false (k : ℚ)) (.fin false (c : ℚ)) = .fin false ((k + c : ℕ) : ℚ) := by
  simp only [FV.add, FV.sval, Bool.false_eq_true, if_false]
  have e : (k : ℚ) + (c : ℚ) = ((k + c : ℕ) : ℚ) := by push_cast; rfl
  rw [e]
  by_cases h0 : k + c = 0
  · simp [h0]
  · have h0' : ¬ (((k + c : ℕ) : ℚ) = 0) := by exact_mod_cast h0
    have h1 : ¬ (((k + c : ℕ) : ℚ) < 0) := not_lt.mpr (Nat.cast_nonneg _)
    simp only [h0', h1, if_false]
    exact mk_nat L false _ h

theorem ne_fp (x : ℚ) :
    (arithP rnd p).ne (fpOf x) (arithP rnd p).zero = !decide (x - FV.flr x = 0) := by
  rw [zero_eq L p]
  simp only [Arith.ne, arithP_eq, fpOf, eq_fin, FV.sval, Bool.false_eq_true, if_false]

omit L in
theorem ne_fin (a b : ℚ) : (arithP rnd p).ne (.fin false a) (.fin false b) = !decide (a = b) := by
  simp only [Arith.ne, arithP_eq, eq_fin, FV.sval, Bool.false_eq_true, if_false]

theorem ge_ten (a : ℚ) : (arithP rnd p).ge (.fin false a) (arithP rnd p).ten = decide (a ≥ 10) := by
  rw [ten_eq L p]; simp only [arithP_ge, ge_fin, FV.sval, Bool.false_eq_true, if_false]

end

/-! ### 6a. `%e`: the normalisation phase -/

/-- the rounding never lifts `10·v` (`v < 1` representable) to 10 or above.  True for exact arithmetic;
for binary64 the largest double below 1 is `1 - 2^-53` and `10·(1 - 2^-53)` rounds below 10.  Without it
the renormalisation `if (with_exp && ip >= base)` of the code would be applied to a value whose fraction
has already been scaled, which is wrong. -/
def TenOk (rnd : Rounding) : Prop := ∀ v w, rnd v = some v → v < 1 → rnd (v * 10) = some w → w < 10

section
variable {rnd : Rounding} (L : Lawful rnd) (p : Nat → Nat → FV)
include L

theorem phase1_e (N fuel : ℕ) (x0 : ℚ) (P : ℤ) (hx : rnd x0 = some x0) (h0 : 0 < x0) (hN : x0 < 10 * 8 ^ N)
    (hN' : 1 ≤ x0 * 8 ^ N) (hf : N ≤ fuel) (hNb : N + 2 ≤ 2 ^ 30)
    (hdu : L.d ≤ L.u) (hdn : L.d ≤ x0 * L.u) (hten : TenOk rnd) :
    ∃ (y : ℚ) (j1 j2 : ℕ), phase1 (arithP rnd p) fuel (.fin false x0) P true false
        = .ok (ipOf y, fpOf y, epv ((j1 : ℤ) - j2), true) ∧
      rnd y = some y ∧ 1 ≤ y ∧ y < 10 ∧ j1 ≤ N ∧ j2 ≤ N ∧ (j1 = 0 ∨ j2 ≤ 1) ∧
      Within (j1 + j2) L.u y (x0 / 10 ^ j1 * 10 ^ j2) := by
  unfold phase1
  simp only [arithP_modf, modf_fin, Bool.or_false, if_true]
  obtain ⟨x1, j1, hj1, hx1, h01, hlt1, hj0, hjp, hrun1, hw1⟩ :=
    normDown_err L p hdu N fuel x0 0 hf hx (le_of_lt h0) hN (by omega)
  have hz : (arithP rnd p).zero = epv ((0 : ℕ) : ℤ) := by rw [zero_eq L p]; simp [epv]
  rw [hz, hrun1]
  simp only [bind, Except.bind]
  rw [← hz, ne_fp L p x1]
  have hx1pos : 0 < x1 := by
    rcases Nat.eq_zero_or_pos j1 with hj | hj
    · rw [hj0 hj]; exact h0
    · have := hjp hj; linarith
  by_cases hfz : x1 - FV.flr x1 = 0
  · -- the fraction is zero: no second loop
    simp only [hfz, decide_true, Bool.not_true, Bool.false_eq_true, if_false, pure, Except.pure, ite_self]
    have hy1 : 1 ≤ x1 := by
      by_contra hc
      have := (flr_eq_zero_iff (le_of_lt hx1pos)).mpr (not_le.mp hc)
      rw [this] at hfz; linarith
    refine ⟨x1, j1, 0, ?_, hx1, hy1, hlt1, hj1, Nat.zero_le _, Or.inr (by omega), ?_⟩
    · simp
    · simpa using hw1
  · simp only [hfz, decide_false, Bool.not_false, if_true]
    have hb1 : 1 ≤ x1 * 8 ^ N := by
      rcases Nat.eq_zero_or_pos j1 with hj | hj
      · rw [hj0 hj]; exact hN'
      · have h78 := hjp hj
        have hN1 : 1 ≤ N := by omega
        have : (8 : ℚ) ^ 1 ≤ 8 ^ N := pow_le_pow_right₀ (by norm_num) hN1
        nlinarith
    have hdn1 : L.d ≤ x1 * 10 * L.u := by
      rcases Nat.eq_zero_or_pos j1 with hj | hj
      · rw [hj0 hj]
        have : 0 ≤ x0 * L.u := mul_nonneg (le_of_lt h0) L.hu0
        linarith
      · have h78 := hjp hj
        have : 1 * L.u ≤ x1 * 10 * L.u := mul_le_mul_of_nonneg_right (by linarith) L.hu0
        linarith
    obtain ⟨x2, j2, hj2, hx2, h12, hlt2, _, _, hj21, hten2, hrun2, hw2⟩ :=
      normUp_err L p N fuel x1 ((0 + j1 : ℕ) : ℤ) hf hx1 hx1pos hb1 (by omega) (by linarith) hdn1
    rw [hrun2]
    simp only [pure, Except.pure, ite_self]
    refine ⟨x2, j1, j2, ?_, hx2, h12, hten2 hlt1 hten, hj1, hj2, ?_, ?_⟩
    · simp
    · rcases Nat.eq_zero_or_pos j1 with hj | hj
      · exact Or.inl hj
      · exact Or.inr (hj21 (hjp hj))
    · exact Within.trans L.hu0 (lawful_u_le_one L) (by positivity) hw1 hw2

end

/-! ### 6b. `%e`: scaling, `roundl`, carry, renormalisation -/

section
variable {rnd : Rounding} (L : Lawful rnd) (p : Nat → Nat → FV)
include L

theorem carry_e (cfg : Cfg) (hr : cfg.repaired = true) {y : ℚ} (hy : rnd y = some y) (hy0 : 0 ≤ y) (hy10 : y < 10)
    (P : ℤ) (hPm : P.toNat ≤ cfg.fracMax)
    (hfr : y - FV.flr y = 0 ∨ L.d ≤ (y - FV.flr y) * L.u)
    (hpw : ∀ n : ℕ, n ≤ P.toNat → p 10 n = .fin false ((10 : ℚ) ^ n)) :
    ∃ (sc : ℕ) (w a b : ℚ), carryStep (arithP rnd p) cfg (ipOf y) (fpOf y) P = (sc, .fin false a, .fin false b) ∧
      sc ≤ P.toNat ∧ 0 ≤ w ∧ Within sc L.u w ((y - FV.flr y) * 10 ^ sc) ∧ (sc = P.toNat ∨ FV.flr w = w) ∧
      a + b / 10 ^ sc = FV.flr y + FV.flr (w + 1 / 2) / 10 ^ sc ∧ (a < 10 ∨ (a = 10 ∧ b = 0)) := by
  have hf1 := flr_le y
  have hf2 := lt_flr_add_one y
  obtain ⟨k, hk⟩ := flr_nat_exists hy0
  have hk9 : k ≤ 9 := by
    have : (k : ℚ) < 10 := by rw [← hk]; linarith
    have : k < 10 := by exact_mod_cast this
    omega
  obtain ⟨j, w, hS, hj, hRq, hwi, hfin⟩ := scaleLoop_err L p P.toNat 0 (y - FV.flr y) (rq_frac L hy hy0) hfr
  have hS' : scaleLoop (arithP rnd p) P.toNat 0 (fpOf y) = (j, .fin false w) := by
    rw [zero_add] at hS; exact hS
  have hw0 : 0 ≤ w := hRq.2.1
  unfold carryStep
  simp only [hr, if_true, Nat.min_eq_left hPm, hS', arithP_round, round_fin, arithP_pow, hpw j hj, ne_fin]
  have hip : ipOf y = .fin false (k : ℚ) := by unfold ipOf; rw [hk]
  have hone : (arithP rnd p).add (ipOf y) (arithP rnd p).one = .fin false ((k + 1 : ℕ) : ℚ) := by
    rw [one_eq L p, hip]
    have := add_nat L k 1 (by omega)
    simpa using this
  have hzero : (arithP rnd p).zero = .fin false 0 := zero_eq L p
  have h10 : (0 : ℚ) < 10 ^ j := by positivity
  by_cases hP : P = 0
  · -- precision 0: ip = roundl(ip + roundl(fp))
    subst hP
    have hj0 : j = 0 := by simpa using hj
    subst hj0
    have hwm : w = y - FV.flr y := by
      obtain ⟨h1, h2⟩ := hwi
      simp at h1 h2; linarith
    have hw1 : w < 1 := by rw [hwm]; linarith
    simp only [ne_eq, not_true_eq_false, if_false, pow_zero]
    by_cases hhalf : w < 1 / 2
    · have hF : FV.flr (w + 1 / 2) = 0 := (flr_eq_zero_iff (by linarith)).mpr (by linarith)
      rw [hF]
      have hadd : (arithP rnd p).add (ipOf y) (.fin false 0) = .fin false (k : ℚ) := by
        rw [hip]; have := add_nat L k 0 (by omega); simpa using this
      have hF2 : FV.flr ((k : ℚ) + 1 / 2) = k := flr_eq_nat (by linarith) (by linarith)
      simp only [hadd, round_fin, hF2, zero_ne_one, decide_false, Bool.not_false, if_true]
      refine ⟨0, w, k, 0, rfl, Nat.zero_le _, hw0, hwi, hfin, by rw [hk, hF], Or.inl ?_⟩
      have : (k : ℚ) ≤ 9 := by exact_mod_cast hk9
      linarith
    · have hF : FV.flr (w + 1 / 2) = 1 := by
        have := flr_eq_nat (x := w + 1 / 2) (k := 1) (by push_cast; linarith) (by push_cast; linarith)
        simpa using this
      rw [hF]
      have hadd : (arithP rnd p).add (ipOf y) (.fin false 1) = .fin false ((k + 1 : ℕ) : ℚ) := by
        rw [hip]; have := add_nat L k 1 (by omega); simpa using this
      have hF2 : FV.flr (((k + 1 : ℕ) : ℚ) + 1 / 2) = ((k + 1 : ℕ) : ℚ) := flr_eq_nat (by linarith) (by linarith)
      simp only [hadd, round_fin, hF2, decide_true, Bool.not_true, Bool.false_eq_true, if_false, hzero]
      refine ⟨0, w, ((k + 1 : ℕ) : ℚ), 0, rfl, Nat.zero_le _, hw0, hwi, hfin, by rw [hk, hF]; push_cast; ring, ?_⟩
      rcases Nat.lt_or_ge k 9 with h | h
      · left
        have : ((k + 1 : ℕ) : ℚ) ≤ 9 := by exact_mod_cast h
        linarith
      · right
        have : k = 9 := by omega
        subst this; norm_num
  · simp only [ne_eq, hP, not_false_eq_true, if_true]
    by_cases hc : FV.flr (w + 1 / 2) = 10 ^ j
    · -- carry
      simp only [hc, decide_true, Bool.not_true, Bool.false_eq_true, if_false, hone, hzero]
      refine ⟨j, w, ((k + 1 : ℕ) : ℚ), 0, rfl, hj, hw0, hwi, hfin, ?_, ?_⟩
      · rw [hk, hc, div_self (ne_of_gt h10)]; push_cast; ring
      · rcases Nat.lt_or_ge k 9 with h | h
        · left
          have : ((k + 1 : ℕ) : ℚ) ≤ 9 := by exact_mod_cast h
          linarith
        · right
          have : k = 9 := by omega
          subst this; norm_num
    · simp only [hc, decide_false, Bool.not_false, if_true]
      refine ⟨j, w, FV.flr y, FV.flr (w + 1 / 2), rfl, hj, hw0, hwi, hfin, rfl, Or.inl (by linarith)⟩

theorem renorm_e (a b : ℚ) (e : ℤ) (he : e.natAbs + 1 ≤ 2 ^ 53) (h : a < 10 ∨ (a = 10 ∧ b = 0)) :
    (a < 10 ∧ renormStep (arithP rnd p) true (.fin false a) (.fin false b) (epv e)
        = (.fin false a, .fin false b, epv e)) ∨
    (a = 10 ∧ b = 0 ∧ renormStep (arithP rnd p) true (.fin false a) (.fin false b) (epv e)
        = (.fin false 1, .fin false 0, epv (e + 1))) := by
  unfold renormStep
  rw [ge_ten L p]
  rcases h with h | ⟨ha, hb⟩
  · left
    have : ¬ (a ≥ 10) := not_le.mpr h
    simp [this, h]
  · right
    subst ha hb
    refine ⟨rfl, rfl, ?_⟩
    have hadd : (arithP rnd p).add (.fin false 10) (.fin false 0) = .fin false 10 := by
      have := add_nat L 10 0 (by norm_num); simpa using this
    have hdiv : (arithP rnd p).div (.fin false 10) (arithP rnd p).ten = .fin false 1 := by
      rw [ten_eq L p]
      have := L.nat_exact 1 (by norm_num)
      have h1 : rnd 1 = some 1 := by simpa using this
      simp only [arithP_div, FV.div]
      norm_num [FV.mk, h1]
    have hep : (arithP rnd p).add (epv e) (arithP rnd p).one = epv (e + 1) := by
      rw [one_eq L p]; simp only [arithP_add]
      have := add_epv L e 1 (by omega)
      have e1 : epv 1 = .fin false 1 := by simp [epv]
      rw [e1] at this; exact this
    have hf1 : FV.flr 1 = 1 := by have := flr_ofNat_eb 1; simpa using this
    simp [hadd, hdiv, hep, FV.modf, hf1]

end

/-! ### 6c. the arithmetic core of the end-to-end bounds -/

/-- value read off after scaling and `roundl`: `fl` = exact integer part, `m` = exact fraction of the
normalised `y`, `w ≈ m·10^sc` the scaled fraction, `F = roundl w` -/
theorem err_core {u x0 y w m fl F T : ℚ} {k sc Pn K : ℕ} (hu0 : 0 ≤ u) (hu1 : u ≤ 1) (hx0 : 0 < x0) (hT : 0 < T)
    (hy : y = fl + m) (hfl : 0 ≤ fl)
    (h1 : Within k u y (x0 / T)) (h2 : Within sc u w (m * 10 ^ sc))
    (hF : |F - w| ≤ 1 / 2) (hcase : sc = Pn ∨ F = w)
    (hK : k + sc ≤ K) (hKu : (K : ℚ) * u ≤ 1 / 2) :
    |(fl + F / 10 ^ sc) * T - x0| ≤ 1 / 2 * (T / 10 ^ Pn) + 2 * K * u * x0 := by
  have hX : 0 ≤ x0 / T := le_of_lt (div_pos hx0 hT)
  have h10 : (0 : ℚ) < 10 ^ sc := by positivity
  have h10P : (0 : ℚ) < 10 ^ Pn := by positivity
  have hV : Within sc u (fl + w / 10 ^ sc) (y * 1) := by
    rw [mul_one, hy]; exact Within.add_left hu0 hu1 hfl h10 h2
  have hVX := Within.trans hu0 hu1 (by norm_num : (0 : ℚ) ≤ 1) h1 hV
  rw [mul_one] at hVX
  have hVK := Within.mono hu0 hu1 hX hK hVX
  have hab := Within.abs_le hu0 hu1 hX hKu hVK
  have hFw : |F - w| / 10 ^ sc ≤ 1 / 2 / 10 ^ Pn := by
    rcases hcase with h | h
    · rw [h]; exact div_le_div_of_nonneg_right hF (le_of_lt h10P)
    · rw [h, sub_self, abs_zero, zero_div]; positivity
  have hAV : |(fl + F / 10 ^ sc) - (fl + w / 10 ^ sc)| ≤ 1 / 2 / 10 ^ Pn := by
    have e : (fl + F / 10 ^ sc) - (fl + w / 10 ^ sc) = (F - w) / 10 ^ sc := by ring
    rw [e, abs_div, abs_of_pos h10]; exact hFw
  rw [_root_.abs_le] at hab hAV ⊢
  have hxT : x0 / T * T = x0 := by field_simp
  set A := fl + F / 10 ^ sc
  set V := fl + w / 10 ^ sc
  set X := x0 / T
  have e1 : 1 / 2 * (T / 10 ^ Pn) + 2 * K * u * x0 = (1 / 2 / 10 ^ Pn + 2 * K * u * X) * T := by
    rw [← hxT]; ring
  have e2 : A * T - x0 = (A - X) * T := by rw [← hxT]; ring
  rw [e1, e2]
  constructor
  · have : -(1 / 2 / 10 ^ Pn + 2 * K * u * X) * T ≤ (A - X) * T :=
      mul_le_mul_of_nonneg_right (by linarith [hab.1, hAV.1]) (le_of_lt hT)
    linarith
  · exact mul_le_mul_of_nonneg_right (by linarith [hab.2, hAV.2]) (le_of_lt hT)

/-! ### 6d. `%e` end to end -/

section
variable {rnd : Rounding} (L : Lawful rnd) (p : Nat → Nat → FV)
include L

/-- **`%e`**: the value read off the `Digits` record is within half a unit of the last printed digit
plus `2·K·u·x` of the argument, `K` = |decimal exponent| + 2 + number of generated fraction digits
(the number of rounded operations: normalisation passes and fraction scalings). -/
theorem digits_error_e (N fuel : ℕ) (x : ℚ) (precision : ℤ) (ops : Ops)
    (hx : rnd x = some x) (h0 : 0 < x) (hN : x < 10 * 8 ^ N) (hN' : 1 ≤ x * 8 ^ N) (hf : N ≤ fuel)
    (hNb : N + 2 ≤ 2 ^ 30) (hp0 : 0 ≤ precision) (hp1 : precision ≤ 340)
    (hdu : L.d ≤ L.u) (hdn : L.d ≤ x * L.u)
    (hfr : ∀ v, rnd v = some v → 1 ≤ v → v - FV.flr v = 0 ∨ L.d ≤ (v - FV.flr v) * L.u)
    (hten : TenOk rnd)
    (hpw : ∀ n : ℕ, (n : ℤ) ≤ (if ops.prec then precision else 6) → p 10 n = .fin false ((10 : ℚ) ^ n)) :
    ∃ (d : Digits FV) (a b : ℚ) (e : ℤ),
      digitsOf (arithP rnd p) cfgNow fuel (.fin false x) precision ops true false = .ok d ∧
      d.ip = .fin false a ∧ d.fp = .fin false b ∧ d.ep = epv e ∧ d.withExp = true ∧
      d.precision = (if ops.prec then precision else 6) ∧ (d.signCount : ℤ) ≤ d.precision ∧
      e.natAbs ≤ N + 1 ∧
      ∀ K : ℕ, e.natAbs + 2 + d.signCount ≤ K → (K : ℚ) * L.u ≤ 1 / 2 →
        |(a + b / 10 ^ d.signCount) * (10 : ℚ) ^ e - x|
          ≤ 1 / 2 * (10 : ℚ) ^ (e - d.precision) + 2 * K * L.u * x := by
  rw [digitsOf_eq]
  simp only [Bool.false_eq_true, if_false]
  generalize hP : (if ops.prec = true then precision else 6 : ℤ) = P at hpw ⊢
  have hPb : 0 ≤ P ∧ P ≤ 340 := by
    rw [← hP]; split
    · exact ⟨hp0, hp1⟩
    · exact ⟨by norm_num, by norm_num⟩
  obtain ⟨y, j1, j2, hq, hy, hy1, hy10, hj1, hj2, hjj, hwy⟩ :=
    phase1_e L p N fuel x P hx h0 hN hN' hf hNb hdu hdn hten
  rw [hq]
  have h2 : phase2 (arithP rnd p) false true (epv ((j1 : ℤ) - j2)) P = .ok P := by
    unfold phase2; simp [pure, Except.pure]
  simp only [bind, Except.bind, h2, if_true, pure, Except.pure]
  have hy0 : 0 ≤ y := by linarith
  obtain ⟨sc, w, a0, b0, hc, hscP, hw0, hwi, hfin, hval, hren⟩ :=
    carry_e L p cfgNow rfl hy hy0 hy10 P (by show P.toNat ≤ 340; omega) (hfr y hy hy1)
      (fun n hn => hpw n (by omega))
  have hstrip : stripStep (arithP rnd p) cfgNow ops false sc (.fin false b0) = (sc, .fin false b0) := by
    unfold stripStep; simp
  have hT : (0 : ℚ) < 10 ^ j1 / 10 ^ j2 := by positivity
  have hwy' : Within (j1 + j2) L.u y (x / (10 ^ j1 / 10 ^ j2)) := by
    have e : x / (10 ^ j1 / 10 ^ j2) = x / 10 ^ j1 * 10 ^ j2 := by field_simp
    rw [e]; exact hwy
  have hPn : ((P.toNat : ℕ) : ℤ) = P := Int.toNat_of_nonneg hPb.1
  have hzp : (10 : ℚ) ^ ((j1 : ℤ) - j2) = 10 ^ j1 / 10 ^ j2 := by
    rw [zpow_sub₀ (by norm_num), zpow_natCast, zpow_natCast]
  have hzp2 : (10 : ℚ) ^ ((j1 : ℤ) - j2 - P) = 10 ^ j1 / 10 ^ j2 / 10 ^ P.toNat := by
    rw [zpow_sub₀ (by norm_num), hzp, ← hPn, zpow_natCast, Int.toNat_natCast]
  -- the bound before the renormalisation
  have hcore : ∀ K : ℕ, j1 + j2 + sc ≤ K → (K : ℚ) * L.u ≤ 1 / 2 →
      |(a0 + b0 / 10 ^ sc) * (10 : ℚ) ^ ((j1 : ℤ) - j2) - x|
        ≤ 1 / 2 * (10 : ℚ) ^ ((j1 : ℤ) - j2 - P) + 2 * K * L.u * x := by
    intro K hK hKu
    rw [hval, hzp, hzp2]
    refine err_core L.hu0 (lawful_u_le_one L) h0 hT (by ring : y = FV.flr y + (y - FV.flr y)) (flr_nonneg hy0)
      hwy' hwi (flr_half_err w) ?_ hK hKu
    rcases hfin with h | h
    · exact Or.inl h
    · exact Or.inr (flr_half_int hw0 h)
  unfold tailDigits
  simp only [hc, hstrip]
  rcases renorm_e L p a0 b0 ((j1 : ℤ) - j2) (by omega) hren with ⟨_, hr⟩ | ⟨ha, hb, hr⟩
  · rw [hr]
    refine ⟨_, a0, b0, (j1 : ℤ) - j2, rfl, rfl, rfl, rfl, rfl, rfl, by simp only; omega, by omega, ?_⟩
    intro K hK hKu
    exact hcore K (by simp only at hK; omega) hKu
  · rw [hr]
    refine ⟨_, 1, 0, (j1 : ℤ) - j2 + 1, rfl, rfl, rfl, rfl, rfl, rfl, by simp only; omega, by omega, ?_⟩
    intro K hK hKu
    have := hcore K (by simp only at hK; omega) hKu
    rw [ha, hb] at this
    simp only at this ⊢
    have e1 : ((1 : ℚ) + 0 / 10 ^ sc) * 10 ^ ((j1 : ℤ) - j2 + 1) = (10 + 0 / 10 ^ sc) * 10 ^ ((j1 : ℤ) - j2) := by
      rw [zpow_add₀ (by norm_num)]; simp; ring
    rw [e1]
    have e2 : (10 : ℚ) ^ ((j1 : ℤ) - j2 - P) ≤ 10 ^ ((j1 : ℤ) - j2 + 1 - P) :=
      zpow_le_zpow_right₀ (by norm_num) (by omega)
    linarith

end

/-! ### 6e. `%f`: scaling, `roundl`, carry -/

section
variable {rnd : Rounding} (L : Lawful rnd) (p : Nat → Nat → FV)
include L

/-- `ip + 1.0` (or `ip + roundl(fp)`) for an integer part that need not be below `2^53`: one rounding -/
theorem add_small_err (hdu : L.d ≤ L.u) {x : ℚ} (hx : rnd x = some x) (k c : ℕ) (hk : (k : ℚ) ≤ x) (hc : c ≤ 1) :
    ∃ v, FV.add rnd (.fin false (k : ℚ)) (.fin false (c : ℚ)) = .fin false v ∧ 0 ≤ v ∧
      |v - ((k : ℚ) + c)| ≤ 2 * L.u * x ∧ (v = 0 ∨ rnd ((k + c : ℕ) : ℚ) = some v) := by
  have hx0 : 0 ≤ x := le_trans (Nat.cast_nonneg k) hk
  have hux : 0 ≤ 2 * L.u * x := mul_nonneg (mul_nonneg (by norm_num) L.hu0) hx0
  rcases Nat.eq_zero_or_pos k with h | h
  · subst h
    refine ⟨(c : ℚ), ?_, Nat.cast_nonneg c, by simpa using hux, Or.inr ?_⟩
    · have := add_nat L 0 c (by omega); simpa using this
    · have := L.nat_exact c (by omega); simpa using this
  · have hk1 : (1 : ℚ) ≤ k := by exact_mod_cast h
    have hc1 : (c : ℚ) ≤ 1 := by exact_mod_cast hc
    have hc0 : (0 : ℚ) ≤ c := Nat.cast_nonneg c
    have hs : L.small ((k : ℚ) + c) := L.small_down (L.rep_succ_small hx) (by linarith)
    obtain ⟨v, hv⟩ := L.rnd_small hs
    have hpos : (0 : ℚ) < (k : ℚ) + c := by linarith
    have hrel := L.rel hpos hv
    have hmax : max (((k : ℚ) + c) * L.u) L.d ≤ 2 * L.u * x := by
      have h1 : ((k : ℚ) + c) * L.u ≤ (2 * x) * L.u := mul_le_mul_of_nonneg_right (by linarith) L.hu0
      have h2 : 1 * L.u ≤ ((k : ℚ) + c) * L.u := mul_le_mul_of_nonneg_right (by linarith) L.hu0
      apply max_le <;> linarith
    refine ⟨v, ?_, L.nonneg (le_of_lt hpos) hv, le_trans hrel hmax, Or.inr (by push_cast; exact hv)⟩
    simp only [FV.add, FV.sval, Bool.false_eq_true, if_false]
    simp [ne_of_gt hpos, not_lt.mpr (le_of_lt hpos), FV.mk, hv]

theorem carry_f (cfg : Cfg) (hr : cfg.repaired = true) (hdu : L.d ≤ L.u) {x : ℚ} (hx : rnd x = some x) (hx0 : 0 ≤ x)
    (P : ℤ) (hPm : P.toNat ≤ cfg.fracMax)
    (hfr : x - FV.flr x = 0 ∨ L.d ≤ (x - FV.flr x) * L.u)
    (hpw : ∀ n : ℕ, n ≤ P.toNat → p 10 n = .fin false ((10 : ℚ) ^ n))
    (hint : P = 0 → ∀ (n : ℕ) (v : ℚ), rnd (n : ℚ) = some v → FV.flr v = v) :
    ∃ (sc : ℕ) (w a b : ℚ), carryStep (arithP rnd p) cfg (ipOf x) (fpOf x) P = (sc, .fin false a, .fin false b) ∧
      sc ≤ P.toNat ∧ 0 ≤ w ∧ Within sc L.u w ((x - FV.flr x) * 10 ^ sc) ∧ (sc = P.toNat ∨ FV.flr w = w) ∧
      |a + b / 10 ^ sc - (FV.flr x + FV.flr (w + 1 / 2) / 10 ^ sc)| ≤ 2 * L.u * x := by
  have hf1 := flr_le x
  have hf2 := lt_flr_add_one x
  have hux : 0 ≤ 2 * L.u * x := mul_nonneg (mul_nonneg (by norm_num) L.hu0) hx0
  obtain ⟨k, hk⟩ := flr_nat_exists hx0
  have hkx : (k : ℚ) ≤ x := by rw [← hk]; exact hf1
  obtain ⟨j, w, hS, hj, hRq, hwi, hfin⟩ := scaleLoop_err L p P.toNat 0 (x - FV.flr x) (rq_frac L hx hx0) hfr
  have hS' : scaleLoop (arithP rnd p) P.toNat 0 (fpOf x) = (j, .fin false w) := by
    rw [zero_add] at hS; exact hS
  have hw0 : 0 ≤ w := hRq.2.1
  unfold carryStep
  simp only [hr, if_true, Nat.min_eq_left hPm, hS', arithP_round, round_fin, arithP_pow, hpw j hj, ne_fin]
  have hip : ipOf x = .fin false (k : ℚ) := by unfold ipOf; rw [hk]
  obtain ⟨v1, hv1, hv10, hv1e, _⟩ := add_small_err L hdu hx k 1 hkx (le_refl _)
  have hone : (arithP rnd p).add (ipOf x) (arithP rnd p).one = .fin false v1 := by
    rw [one_eq L p, hip]; simpa using hv1
  have hzero : (arithP rnd p).zero = .fin false 0 := zero_eq L p
  have h10 : (0 : ℚ) < 10 ^ j := by positivity
  by_cases hP : P = 0
  · -- precision 0: ip = roundl(ip + roundl(fp))
    have hint' := hint hP
    subst hP
    have hj0 : j = 0 := by simpa using hj
    subst hj0
    have hwm : w = x - FV.flr x := by
      obtain ⟨h1, h2⟩ := hwi
      simp at h1 h2; linarith
    have hw1 : w < 1 := by rw [hwm]; linarith
    simp only [ne_eq, not_true_eq_false, if_false, pow_zero]
    -- roundl(fp) is 0 or 1
    have hF : ∃ f : ℕ, f ≤ 1 ∧ FV.flr (w + 1 / 2) = f := by
      by_cases hhalf : w < 1 / 2
      · exact ⟨0, by omega, by simpa using (flr_eq_zero_iff (by linarith)).mpr (by linarith : w + 1 / 2 < 1)⟩
      · exact ⟨1, le_refl _, flr_eq_nat (by push_cast; linarith) (by push_cast; linarith)⟩
    obtain ⟨f, hf, hFf⟩ := hF
    rw [hFf]
    obtain ⟨v, hv, hv0, hve, hvi⟩ := add_small_err L hdu hx k f hkx hf
    have hadd : (arithP rnd p).add (ipOf x) (.fin false (f : ℚ)) = .fin false v := by rw [hip]; exact hv
    have hvint : FV.flr v = v := by
      rcases hvi with h | h
      · rw [h]; exact flr_zero
      · exact hint' _ _ h
    have hb : ∃ b, (if (!decide ((f : ℚ) = 1)) = true then FV.fin false (f : ℚ) else FV.fin false 0) = .fin false b ∧
        b = 0 := by
      rcases Nat.eq_zero_or_pos f with h | h
      · subst h; exact ⟨0, by simp, rfl⟩
      · have : f = 1 := by omega
        subst this; exact ⟨0, by simp, rfl⟩
    obtain ⟨b, hb1, hb2⟩ := hb
    simp only [hadd, round_fin, flr_half_int hv0 hvint, hzero, hb1]
    refine ⟨0, w, v, b, rfl, Nat.zero_le _, hw0, hwi, hfin, ?_⟩
    rw [hb2, hk, hFf]
    simpa using hve
  · simp only [ne_eq, hP, not_false_eq_true, if_true]
    by_cases hc : FV.flr (w + 1 / 2) = 10 ^ j
    · -- carry
      simp only [hc, decide_true, Bool.not_true, Bool.false_eq_true, if_false, hone, hzero]
      refine ⟨j, w, v1, 0, rfl, hj, hw0, hwi, hfin, ?_⟩
      rw [hk, hc, div_self (ne_of_gt h10)]
      simpa using hv1e
    · simp only [hc, decide_false, Bool.not_false, if_true]
      refine ⟨j, w, FV.flr x, FV.flr (w + 1 / 2), rfl, hj, hw0, hwi, hfin, ?_⟩
      simpa using hux

end

/-! ### 6f. `%f` end to end -/

section
variable {rnd : Rounding} (L : Lawful rnd) (p : Nat → Nat → FV)
include L

/-- **`%f`**: no normalisation; only the fraction is scaled (`signCount` roundings) and, when the
rounding carries, `ip + 1.0` is rounded once: `K = signCount + 1`.  `hint` (a rounded integer is an
integer) is only needed for precision 0, where the code computes `roundl(ip + roundl(fp))`. -/
theorem digits_error_f (fuel : ℕ) (x : ℚ) (precision : ℤ) (ops : Ops)
    (hx : rnd x = some x) (h0 : 0 < x) (hp0 : 0 ≤ precision) (hp1 : precision ≤ 340)
    (hdu : L.d ≤ L.u) (hdn : L.d ≤ x * L.u)
    (hfr : ∀ v, rnd v = some v → 1 ≤ v → v - FV.flr v = 0 ∨ L.d ≤ (v - FV.flr v) * L.u)
    (hpw : ∀ n : ℕ, (n : ℤ) ≤ (if ops.prec then precision else 6) → p 10 n = .fin false ((10 : ℚ) ^ n))
    (hint : (if ops.prec then precision else 6) = 0 → ∀ (n : ℕ) (v : ℚ), rnd (n : ℚ) = some v → FV.flr v = v) :
    ∃ (d : Digits FV) (a b : ℚ),
      digitsOf (arithP rnd p) cfgNow fuel (.fin false x) precision ops false false = .ok d ∧
      d.ip = .fin false a ∧ d.fp = .fin false b ∧ d.ep = epv 0 ∧ d.withExp = false ∧
      d.precision = (if ops.prec then precision else 6) ∧ (d.signCount : ℤ) ≤ d.precision ∧
      ∀ K : ℕ, d.signCount + 1 ≤ K → (K : ℚ) * L.u ≤ 1 / 2 →
        |a + b / 10 ^ d.signCount - x| ≤ 1 / 2 * (10 : ℚ) ^ (-d.precision) + 2 * K * L.u * x := by
  rw [digitsOf_eq]
  simp only [Bool.false_eq_true, if_false]
  generalize hP : (if ops.prec = true then precision else 6 : ℤ) = P at hpw hint ⊢
  have hPb : 0 ≤ P ∧ P ≤ 340 := by
    rw [← hP]; split
    · exact ⟨hp0, hp1⟩
    · exact ⟨by norm_num, by norm_num⟩
  have h1 : phase1 (arithP rnd p) fuel (.fin false x) P false false
      = .ok (ipOf x, fpOf x, (arithP rnd p).zero, false) := by
    unfold phase1; simp [modf_fin, pure, Except.pure]
  have h2 : phase2 (arithP rnd p) false false (arithP rnd p).zero P = .ok P := by
    unfold phase2; simp [pure, Except.pure]
  rw [h1]
  simp only [bind, Except.bind, h2, Bool.false_eq_true, if_false, pure, Except.pure, arithP_modf, modf_fin]
  have hx0 : 0 ≤ x := le_of_lt h0
  have hfrx : x - FV.flr x = 0 ∨ L.d ≤ (x - FV.flr x) * L.u := by
    by_cases hx1 : 1 ≤ x
    · exact hfr x hx hx1
    · right
      rw [(flr_eq_zero_iff hx0).mpr (not_le.mp hx1)]
      simpa using hdn
  obtain ⟨sc, w, a0, b0, hc, hscP, hw0, hwi, hfin, hval⟩ :=
    carry_f L p cfgNow rfl hdu hx hx0 P (by show P.toNat ≤ 340; omega) hfrx (fun n hn => hpw n (by omega)) hint
  have hstrip : stripStep (arithP rnd p) cfgNow ops false sc (.fin false b0) = (sc, .fin false b0) := by
    unfold stripStep; simp
  have hren : renormStep (arithP rnd p) false (.fin false a0) (.fin false b0) (arithP rnd p).zero
      = (.fin false a0, .fin false b0, (arithP rnd p).zero) := by
    unfold renormStep; simp
  have hPn : ((P.toNat : ℕ) : ℤ) = P := Int.toNat_of_nonneg hPb.1
  have hzp : (10 : ℚ) ^ (-P) = 1 / 10 ^ P.toNat := by
    rw [zpow_neg, ← hPn, zpow_natCast, Int.toNat_natCast, one_div]
  unfold tailDigits
  simp only [hc, hstrip, hren]
  refine ⟨_, a0, b0, rfl, rfl, rfl, ?_, rfl, rfl, by simp only; omega, ?_⟩
  · rw [zero_eq L p]; simp [epv]
  · intro K hK hKu
    simp only at hK ⊢
    obtain ⟨K', rfl⟩ : ∃ K', K = K' + 1 := ⟨K - 1, by omega⟩
    have hK'u : (K' : ℚ) * L.u ≤ 1 / 2 := by
      have : (K' : ℚ) * L.u ≤ ((K' + 1 : ℕ) : ℚ) * L.u :=
        mul_le_mul_of_nonneg_right (by push_cast; linarith) L.hu0
      linarith
    have hcore := err_core (k := 0) (Pn := P.toNat) (K := K') L.hu0 (lawful_u_le_one L) h0 (by norm_num : (0 : ℚ) < 1)
      (by ring : x = FV.flr x + (x - FV.flr x)) (flr_nonneg hx0)
      (by simpa using Within.refl L.u x) hwi (flr_half_err w)
      (by rcases hfin with h | h
          · exact Or.inl h
          · exact Or.inr (flr_half_int hw0 h)) (by omega) hK'u
    rw [mul_one] at hcore
    rw [hzp]
    rw [_root_.abs_le] at hval hcore ⊢
    push_cast
    constructor <;> nlinarith [hval.1, hval.2, hcore.1, hcore.2]

end

/-! ### exact arithmetic: every hypothesis holds, the bounds have no `u` term
(these corollaries are also the non-vacuity witnesses of `digits_error_e` / `digits_error_f`) -/

theorem tenOk_exact : TenOk (some : Rounding) := by
  intro v w _ h1 hw
  simp at hw; linarith

theorem digits_error_e_exact (N fuel : ℕ) (x : ℚ) (precision : ℤ) (ops : Ops)
    (h0 : 0 < x) (hN : x < 10 * 8 ^ N) (hN' : 1 ≤ x * 8 ^ N) (hf : N ≤ fuel)
    (hNb : N + 2 ≤ 2 ^ 30) (hp0 : 0 ≤ precision) (hp1 : precision ≤ 340) :
    ∃ (d : Digits FV) (a b : ℚ) (e : ℤ),
      digitsOf exactA cfgNow fuel (.fin false x) precision ops true false = .ok d ∧
      d.ip = .fin false a ∧ d.fp = .fin false b ∧ d.ep = epv e ∧
      d.precision = (if ops.prec then precision else 6) ∧
      |(a + b / 10 ^ d.signCount) * (10 : ℚ) ^ e - x| ≤ 1 / 2 * (10 : ℚ) ^ (e - d.precision) := by
  obtain ⟨d, a, b, e, h1, h2, h3, h4, _, h5, _, _, h6⟩ :=
    digits_error_e lawfulExact (fun b n => FV.mk some false ((b : ℚ) ^ n)) N fuel x precision ops rfl h0 hN hN' hf hNb
      hp0 hp1 (le_refl _) (by simp [lawfulExact]) (fun v _ _ => Or.inr (by simp [lawfulExact])) tenOk_exact
      (fun n _ => by simp [FV.mk])
  refine ⟨d, a, b, e, by rw [exactA_eq]; exact h1, h2, h3, h4, h5, ?_⟩
  have := h6 (e.natAbs + 2 + d.signCount) (le_refl _) (by simp [lawfulExact])
  simpa [lawfulExact] using this

theorem digits_error_f_exact (fuel : ℕ) (x : ℚ) (precision : ℤ) (ops : Ops)
    (h0 : 0 < x) (hp0 : 0 ≤ precision) (hp1 : precision ≤ 340) :
    ∃ (d : Digits FV) (a b : ℚ),
      digitsOf exactA cfgNow fuel (.fin false x) precision ops false false = .ok d ∧
      d.ip = .fin false a ∧ d.fp = .fin false b ∧
      d.precision = (if ops.prec then precision else 6) ∧
      |a + b / 10 ^ d.signCount - x| ≤ 1 / 2 * (10 : ℚ) ^ (-d.precision) := by
  obtain ⟨d, a, b, h1, h2, h3, _, _, h5, _, h6⟩ :=
    digits_error_f lawfulExact (fun b n => FV.mk some false ((b : ℚ) ^ n)) fuel x precision ops rfl h0
      hp0 hp1 (le_refl _) (by simp [lawfulExact]) (fun v _ _ => Or.inr (by simp [lawfulExact]))
      (fun n _ => by simp [FV.mk])
      (fun _ n v h => by
        have : (n : ℚ) = v := by simpa using h
        rw [← this]; exact flr_ofNat_eb n)
  refine ⟨d, a, b, by rw [exactA_eq]; exact h1, h2, h3, h5, ?_⟩
  have := h6 (d.signCount + 1) (le_refl _) (by simp [lawfulExact])
  simpa [lawfulExact] using this

/-- non-vacuity, concretely: `x = 3/2`, `%.3e` and `%.3f` -/
example : ∃ (d : Digits FV) (a b : ℚ) (e : ℤ),
      digitsOf exactA cfgNow 1 (.fin false (3 / 2)) 3 { prec := true } true false = .ok d ∧
      d.ip = .fin false a ∧ d.fp = .fin false b ∧ d.ep = epv e ∧ d.precision = 3 ∧
      |(a + b / 10 ^ d.signCount) * (10 : ℚ) ^ e - 3 / 2| ≤ 1 / 2 * (10 : ℚ) ^ (e - d.precision) :=
  digits_error_e_exact 1 1 (3 / 2) 3 { prec := true } (by norm_num) (by norm_num) (by norm_num) (le_refl _)
    (by norm_num) (by norm_num) (by norm_num)
example : ∃ (d : Digits FV) (a b : ℚ),
      digitsOf exactA cfgNow 0 (.fin false (3 / 2)) 3 { prec := true } false false = .ok d ∧
      d.ip = .fin false a ∧ d.fp = .fin false b ∧ d.precision = 3 ∧
      |a + b / 10 ^ d.signCount - 3 / 2| ≤ 1 / 2 * (10 : ℚ) ^ (-d.precision) :=
  digits_error_f_exact 0 (3 / 2) 3 { prec := true } (by norm_num) (by norm_num) (by norm_num)

/-! ### 7. binary64 -/

theorem hdu64 : lawful64.d ≤ lawful64.u := by
  show pow2 (-1075) ≤ pow2 (-53)
  exact pow2_mono (by norm_num)

/-- `hdn` holds for every normal binary64 -/
theorem hdn64 {x : ℚ} (hx : pow2 (-1022) ≤ x) : lawful64.d ≤ x * lawful64.u := by
  show pow2 (-1075) ≤ x * pow2 (-53)
  have e : pow2 (-1075) = pow2 (-1022) * pow2 (-53) := by
    rw [← pow2_add]; norm_num
  rw [e]
  exact mul_le_mul_of_nonneg_right hx (le_of_lt (pow2_pos _))

theorem ilog2_nonneg_of_one_le {v : ℚ} (h : 1 ≤ v) : 0 ≤ ilog2 v := by
  obtain ⟨_, b⟩ := ilog2_spec (lt_of_lt_of_le one_pos h)
  by_contra hc
  have : pow2 (ilog2 v + 1) ≤ pow2 0 := pow2_mono (by omega)
  rw [pow2_zero] at this
  linarith

/-- `hfr` for binary64: a double `≥ 1` that is not an integer has a fraction `≥ 2^-52` -/
theorem hfr64 : ∀ v, rnd64 v = some v → 1 ≤ v → v - FV.flr v = 0 ∨ lawful64.d ≤ (v - FV.flr v) * lawful64.u := by
  intro v h h1
  have hvp : 0 < v := lt_of_lt_of_le one_pos h1
  obtain ⟨k, hk, hv, _⟩ := rnd64_form hvp h
  have hlog := ilog2_nonneg_of_one_le h1
  have hE52 : -52 ≤ ulpExp v := by unfold ulpExp; omega
  by_cases hE : 0 ≤ ulpExp v
  · left
    obtain ⟨n, hn⟩ := Int.eq_ofNat_of_zero_le hE
    have hvi : v = ((k * 2 ^ n : ℕ) : ℚ) := by rw [hv, hn, pow2_nat]; push_cast; ring
    rw [hvi, flr_ofNat_eb]; ring
  · obtain ⟨n, hn⟩ := Int.eq_ofNat_of_zero_le (show 0 ≤ -ulpExp v by omega)
    have hE' : ulpExp v = -(n : ℤ) := by omega
    have hp2 : pow2 (ulpExp v) = 1 / (2 : ℚ) ^ n := by
      rw [hE', pow2_eq, zpow_neg, zpow_natCast, one_div]
    have h2n : (0 : ℚ) < 2 ^ n := by positivity
    have hvk : v * 2 ^ n = k := by rw [hv, hp2]; field_simp
    by_cases hf : v - FV.flr v = 0
    · exact Or.inl hf
    · right
      have hfpos : 0 < v - FV.flr v := lt_of_le_of_ne (by linarith [flr_le v]) (Ne.symm hf)
      -- (v - ⌊v⌋)·2^n is a positive integer
      have hz : (((k : ℤ) - v.floor * 2 ^ n : ℤ) : ℚ) = (v - FV.flr v) * 2 ^ n := by
        unfold FV.flr; push_cast; rw [← hvk]; ring
      have hzpos : (0 : ℚ) < (((k : ℤ) - v.floor * 2 ^ n : ℤ) : ℚ) := by rw [hz]; exact mul_pos hfpos h2n
      have hz1 : (1 : ℤ) ≤ (k : ℤ) - v.floor * 2 ^ n := by
        have : (0 : ℤ) < (k : ℤ) - v.floor * 2 ^ n := by exact_mod_cast hzpos
        omega
      have hz1' : (1 : ℚ) ≤ (v - FV.flr v) * 2 ^ n := by rw [← hz]; exact_mod_cast hz1
      have hfge : pow2 (ulpExp v) ≤ v - FV.flr v := by
        rw [hp2, div_le_iff₀ h2n]; exact hz1'
      have h52 : pow2 (-52) ≤ v - FV.flr v := le_trans (pow2_mono hE52) hfge
      show pow2 (-1075) ≤ (v - FV.flr v) * pow2 (-53)
      have e : pow2 (-105) = pow2 (-52) * pow2 (-53) := by rw [← pow2_add]; norm_num
      have h3 : pow2 (-1075) ≤ pow2 (-105) := pow2_mono (by norm_num)
      have h4 : pow2 (-52) * pow2 (-53) ≤ (v - FV.flr v) * pow2 (-53) :=
        mul_le_mul_of_nonneg_right h52 (le_of_lt (pow2_pos _))
      linarith

/-- `TenOk` for binary64: the largest double below 1 is `1 - 2^-53`, and `10·(1 - 2^-53)·(1 + 2^-53) < 10` -/
theorem tenOk64 : TenOk rnd64 := by
  intro v w hv h1 hw
  by_cases hvp : 0 < v
  swap
  · have : v * 10 ≤ 0 := by linarith
    unfold rnd64 at hw
    simp only [this, if_true] at hw
    simp at hw; linarith
  have hq : 0 < v * 10 := by linarith
  have habs := rnd64_abs hq hw
  rw [abs_le] at habs
  have hu : pow2 (-53) ≤ 1 / 8 := lawful64.hu
  have hd : pow2 (-1075) ≤ 1 / 8 := lawful64.hd
  have hup : 0 < pow2 (-53) := pow2_pos _
  by_cases hhalf : v < 1 / 2
  · have : max (v * 10 * pow2 (-53)) (pow2 (-1075)) ≤ 1 := by
      apply max_le
      · have : v * 10 * pow2 (-53) ≤ 5 * (1 / 8) := mul_le_mul (by linarith) hu (le_of_lt hup) (by norm_num)
        linarith
      · linarith
    linarith [habs.2]
  · have hhalf' : 1 / 2 ≤ v := not_lt.mp hhalf
    have hl : ilog2 v = -1 := by
      apply ilog2_unique
      · rw [pow2_eq]; norm_num; linarith
      · rw [show (-1 : ℤ) + 1 = 0 by norm_num, pow2_zero]; exact h1
    obtain ⟨k, hk, hvk, _⟩ := rnd64_form hvp hv
    have hE : ulpExp v = -53 := by unfold ulpExp; rw [hl]; norm_num
    rw [hE] at hvk
    have h53 : pow2 (-53) * 2 ^ 53 = 1 := by
      rw [← pow2_53, ← pow2_add]; norm_num [pow2_zero]
    have hklt : (k : ℚ) < 2 ^ 53 := by
      by_contra hc
      have : 2 ^ 53 * pow2 (-53) ≤ (k : ℚ) * pow2 (-53) :=
        mul_le_mul_of_nonneg_right (not_lt.mp hc) (le_of_lt hup)
      linarith
    have hk' : k < 2 ^ 53 := by exact_mod_cast hklt
    have hk'' : (k : ℚ) ≤ 2 ^ 53 - 1 := by
      have : k + 1 ≤ 2 ^ 53 := hk'
      have : ((k + 1 : ℕ) : ℚ) ≤ ((2 ^ 53 : ℕ) : ℚ) := by exact_mod_cast this
      push_cast at this; linarith
    have hvle : v ≤ 1 - pow2 (-53) := by
      rw [hvk]
      have : (k : ℚ) * pow2 (-53) ≤ (2 ^ 53 - 1) * pow2 (-53) := mul_le_mul_of_nonneg_right hk'' (le_of_lt hup)
      linarith
    have hmax : max (v * 10 * pow2 (-53)) (pow2 (-1075)) ≤ v * 10 * pow2 (-53) := by
      apply max_le (le_refl _)
      have h1 : pow2 (-1075) ≤ pow2 (-53) := pow2_mono (by norm_num)
      have h2 : 1 * pow2 (-53) ≤ v * 10 * pow2 (-53) := mul_le_mul_of_nonneg_right (by linarith) (le_of_lt hup)
      linarith
    have hw' : w ≤ v * 10 * (1 + pow2 (-53)) := by linarith [habs.2]
    have : v * 10 * (1 + pow2 (-53)) ≤ (1 - pow2 (-53)) * 10 * (1 + pow2 (-53)) :=
      mul_le_mul_of_nonneg_right (by linarith) (by linarith)
    nlinarith [mul_pos hup hup]

/-- binary64 rounds an integer to an integer (needed by `%f` with precision 0 only) -/
theorem hint64 : ∀ (n : ℕ) (v : ℚ), rnd64 (n : ℚ) = some v → FV.flr v = v := by
  intro n v h
  by_cases hn : n ≤ 2 ^ 53
  · have := lawful64.nat_exact n hn
    rw [this] at h; injection h with h; rw [← h]; exact flr_ofNat_eb n
  · have hn' : 2 ^ 53 < n := not_le.mp hn
    have hnp : (0 : ℚ) < n := by exact_mod_cast (show 0 < n by omega)
    obtain ⟨k, hk, hv, _⟩ := rnd64_form hnp h
    have hl : 53 ≤ ilog2 (n : ℚ) := by
      obtain ⟨_, b⟩ := ilog2_spec hnp
      by_contra hc
      have h1 : pow2 (ilog2 (n : ℚ) + 1) ≤ pow2 53 := pow2_mono (by omega)
      rw [pow2_53] at h1
      have h2 : (2 : ℚ) ^ 53 < n := by exact_mod_cast hn'
      linarith
    have hE : 0 ≤ ulpExp (n : ℚ) := by unfold ulpExp; omega
    obtain ⟨m, hm⟩ := Int.eq_ofNat_of_zero_le hE
    have hvi : v = ((k * 2 ^ m : ℕ) : ℚ) := by rw [hv, hm, pow2_nat]; push_cast; ring
    rw [hvi]; exact flr_ofNat_eb _

/-- the host's `pow(10, n)` is exact up to `10^22 = 5^22·2^22` (`5^22 < 2^53`) -/
theorem powHost_small (n : ℕ) (hn : n ≤ 22) : powHost 10 n = .fin false ((10 : ℚ) ^ n) := by
  unfold powHost
  rw [if_neg (by omega), if_neg (by omega)]
  simp only [Nat.cast_ofNat]
  have e : (10 : ℚ) ^ n = ((5 ^ n : ℕ) : ℚ) * pow2 (n : ℤ) := by
    rw [pow2_nat]; push_cast; rw [← mul_pow]; norm_num
  have h5 : 5 ^ n ≤ 2 ^ 53 := le_trans (Nat.pow_le_pow_right (by norm_num) hn) (by norm_num)
  have hlt : ((5 ^ n : ℕ) : ℚ) * pow2 (n : ℤ) < pow2 1024 := by
    rw [← e]
    have h3 : (10 : ℚ) ^ n ≤ 10 ^ 22 := pow_le_pow_right₀ (by norm_num) hn
    have h4 : pow2 1024 = (2 : ℚ) ^ 1024 := pow2_nat 1024
    rw [h4]
    have h6 : (10 : ℚ) ^ 22 < 2 ^ 74 := by norm_num
    have h7 : (2 : ℚ) ^ 74 ≤ 2 ^ 1024 := pow_le_pow_right₀ (by norm_num) (by norm_num)
    exact lt_of_le_of_lt h3 (lt_of_lt_of_le h6 h7)
  have := rnd64_fix h5 (by omega : (-1074 : ℤ) ≤ n) hlt
  rw [← e] at this
  simp only [FV.mk, this]

/-- **binary64, `%e`**, precision ≤ 22 (so that every `pow(10, sign_count)` the carry test compares with
is exact, `powHost_small`): all hypotheses of `digits_error_e` discharged for a normal double.
For larger precisions `powHost 10 n` is not `10^n`; the carry test is then still right, but for a
reason outside `hpw` (the scaled fraction stays below `2^56 < 10^23`, because only a non-integer
double — hence one below `2^52` — is scaled again); that case is not covered here. -/
theorem digits_error_e_b64 (N fuel : ℕ) (x : ℚ) (precision : ℤ) (ops : Ops)
    (hx : rnd64 x = some x) (hxn : pow2 (-1022) ≤ x) (hN : x < 10 * 8 ^ N) (hN' : 1 ≤ x * 8 ^ N) (hf : N ≤ fuel)
    (hNb : N + 2 ≤ 2 ^ 30) (hp0 : 0 ≤ precision) (hp1 : precision ≤ 22) :
    ∃ (d : Digits FV) (a b : ℚ) (e : ℤ),
      digitsOf b64A cfgNow fuel (.fin false x) precision ops true false = .ok d ∧
      d.ip = .fin false a ∧ d.fp = .fin false b ∧ d.ep = epv e ∧ d.withExp = true ∧
      d.precision = (if ops.prec then precision else 6) ∧ (d.signCount : ℤ) ≤ d.precision ∧
      e.natAbs ≤ N + 1 ∧
      ∀ K : ℕ, e.natAbs + 2 + d.signCount ≤ K → (K : ℚ) * pow2 (-53) ≤ 1 / 2 →
        |(a + b / 10 ^ d.signCount) * (10 : ℚ) ^ e - x|
          ≤ 1 / 2 * (10 : ℚ) ^ (e - d.precision) + 2 * K * pow2 (-53) * x := by
  rw [b64A_eq]
  exact digits_error_e lawful64 powHost N fuel x precision ops hx (lt_of_lt_of_le (pow2_pos _) hxn) hN hN' hf hNb
    hp0 (by omega) hdu64 (hdn64 hxn) hfr64 tenOk64
    (fun n hn => powHost_small n (by split at hn <;> omega))

/-- **binary64, `%f`**, precision ≤ 22 -/
theorem digits_error_f_b64 (fuel : ℕ) (x : ℚ) (precision : ℤ) (ops : Ops)
    (hx : rnd64 x = some x) (hxn : pow2 (-1022) ≤ x) (hp0 : 0 ≤ precision) (hp1 : precision ≤ 22) :
    ∃ (d : Digits FV) (a b : ℚ),
      digitsOf b64A cfgNow fuel (.fin false x) precision ops false false = .ok d ∧
      d.ip = .fin false a ∧ d.fp = .fin false b ∧ d.ep = epv 0 ∧ d.withExp = false ∧
      d.precision = (if ops.prec then precision else 6) ∧ (d.signCount : ℤ) ≤ d.precision ∧
      ∀ K : ℕ, d.signCount + 1 ≤ K → (K : ℚ) * pow2 (-53) ≤ 1 / 2 →
        |a + b / 10 ^ d.signCount - x| ≤ 1 / 2 * (10 : ℚ) ^ (-d.precision) + 2 * K * pow2 (-53) * x := by
  rw [b64A_eq]
  exact digits_error_f lawful64 powHost fuel x precision ops hx (lt_of_lt_of_le (pow2_pos _) hxn)
    hp0 (by omega) hdu64 (hdn64 hxn) hfr64
    (fun n hn => powHost_small n (by split at hn <;> omega)) (fun _ => hint64)

/-- non-vacuity of the binary64 corollaries: `x = 1.5` -/
example : rnd64 (3 / 2) = some (3 / 2) ∧ pow2 (-1022) ≤ (3 / 2 : ℚ) ∧ (3 / 2 : ℚ) < 10 * 8 ^ 1 ∧
    1 ≤ (3 / 2 : ℚ) * 8 ^ 1 := by
  refine ⟨?_, ?_, by norm_num, by norm_num⟩
  · have := rnd64_fix (k := 3) (E := -1) (by norm_num) (by norm_num) (by
      have h1 : pow2 (-1) = 1 / 2 := by rw [pow2_eq]; norm_num
      have h2 : pow2 0 ≤ pow2 1024 := pow2_mono (by norm_num)
      rw [pow2_zero] at h2
      rw [h1]; push_cast
      have h3 : pow2 1 < pow2 1024 := pow2_lt (by norm_num)
      have h4 : pow2 1 = 2 := by rw [pow2_eq]; norm_num
      linarith)
    have h1 : pow2 (-1) = 1 / 2 := by rw [pow2_eq]; norm_num
    rw [h1] at this
    norm_num at this
    exact this
  · have h1 : pow2 (-1022) ≤ pow2 0 := pow2_mono (by norm_num)
    rw [pow2_zero] at h1; linarith

end Igris.C13
