/-
  C13 — accumulated rounding error of the digit generation of `print_f` (`%e` / `%f`).

  Every rounded step of the engine (`x = rnd(x/10)`, `x = rnd(x*10)`, `fp = rnd(fp*10)`) has
  relative error ≤ u; `fp = roundl(fp)` costs at most half a unit of the last printed digit.
  For ANY `Lawful rnd` the value read off the `Digits` record that `digitsOf` returns is within
      ½ · (unit of the last printed digit) + 2·K·u·x
  of the argument, K = number of rounded steps (normalisation passes + generated digits).
-/
import IgrisModel.C13.Total2
namespace Igris.C13
open Igris.C06 (Ops NUL)

/-! ### 1. an algebra of accumulated relative error -/

/-- `a` is `b` up to `n` relative perturbations of size at most `u` -/
def Within (n : ℕ) (u a b : ℚ) : Prop := b * (1 - u) ^ n ≤ a ∧ a ≤ b * (1 + u) ^ n

theorem Within.refl (u a : ℚ) : Within 0 u a a := by simp [Within]

theorem Within.nonneg {n : ℕ} {u a b : ℚ} (hu1 : u ≤ 1) (hb : 0 ≤ b) (h : Within n u a b) : 0 ≤ a :=
  le_trans (mul_nonneg hb (pow_nonneg (by linarith) n)) h.1

/-- one more rounded multiplication by `c` -/
theorem Within.step {n : ℕ} {u a b c w : ℚ} (hu0 : 0 ≤ u) (hu1 : u ≤ 1) (h : Within n u a b)
    (hc : 0 < c) (hw : |w - a * c| ≤ a * c * u) : Within (n + 1) u w (b * c) := by
  obtain ⟨h1, h2⟩ := h
  rw [abs_le] at hw
  obtain ⟨w1, w2⟩ := hw
  have hp1 : 0 ≤ (1 - u) ^ n := pow_nonneg (by linarith) n
  have hp2 : 0 ≤ (1 + u) ^ n := pow_nonneg (by linarith) n
  constructor
  · have e : b * c * (1 - u) ^ (n + 1) = (b * (1 - u) ^ n) * (c * (1 - u)) := by ring
    rw [e]
    have : (b * (1 - u) ^ n) * (c * (1 - u)) ≤ a * (c * (1 - u)) :=
      mul_le_mul_of_nonneg_right h1 (mul_nonneg (le_of_lt hc) (by linarith))
    linarith
  · have e : b * c * (1 + u) ^ (n + 1) = (b * (1 + u) ^ n) * (c * (1 + u)) := by ring
    rw [e]
    have : a * (c * (1 + u)) ≤ (b * (1 + u) ^ n) * (c * (1 + u)) :=
      mul_le_mul_of_nonneg_right h2 (mul_nonneg (le_of_lt hc) (by linarith))
    linarith

theorem Within.mono {n m : ℕ} {u a b : ℚ} (hu0 : 0 ≤ u) (hu1 : u ≤ 1) (hb : 0 ≤ b) (hnm : n ≤ m)
    (h : Within n u a b) : Within m u a b := by
  obtain ⟨h1, h2⟩ := h
  constructor
  · have : (1 - u) ^ m ≤ (1 - u) ^ n := pow_le_pow_of_le_one (by linarith) (by linarith) hnm
    have := mul_le_mul_of_nonneg_left this hb
    linarith
  · have : (1 + u) ^ n ≤ (1 + u) ^ m := pow_le_pow_right₀ (by linarith) hnm
    have := mul_le_mul_of_nonneg_left this hb
    linarith

/-- composition: `a ≈ b` in `n` steps, then `c ≈ a·k` in `m` steps -/
theorem Within.trans {n m : ℕ} {u a b c k : ℚ} (hu0 : 0 ≤ u) (hu1 : u ≤ 1) (hk : 0 ≤ k)
    (h : Within n u a b) (h' : Within m u c (a * k)) : Within (n + m) u c (b * k) := by
  obtain ⟨h1, h2⟩ := h
  obtain ⟨g1, g2⟩ := h'
  have hp1 : 0 ≤ (1 - u) ^ m := pow_nonneg (by linarith) m
  have hp2 : 0 ≤ (1 + u) ^ m := pow_nonneg (by linarith) m
  constructor
  · have e : b * k * (1 - u) ^ (n + m) = (b * (1 - u) ^ n) * (k * (1 - u) ^ m) := by ring
    rw [e]
    have : (b * (1 - u) ^ n) * (k * (1 - u) ^ m) ≤ a * (k * (1 - u) ^ m) :=
      mul_le_mul_of_nonneg_right h1 (mul_nonneg hk hp1)
    linarith
  · have e : b * k * (1 + u) ^ (n + m) = (b * (1 + u) ^ n) * (k * (1 + u) ^ m) := by ring
    rw [e]
    have : a * (k * (1 + u) ^ m) ≤ (b * (1 + u) ^ n) * (k * (1 + u) ^ m) :=
      mul_le_mul_of_nonneg_right h2 (mul_nonneg hk hp2)
    linarith

/-- an exact non-negative summand only improves the relative error:
`w ≈ m·c` gives `f + w/c ≈ f + m` -/
theorem Within.add_left {n : ℕ} {u w m c f : ℚ} (hu0 : 0 ≤ u) (hu1 : u ≤ 1) (hf : 0 ≤ f) (hc : 0 < c)
    (h : Within n u w (m * c)) : Within n u (f + w / c) (f + m) := by
  obtain ⟨h1, h2⟩ := h
  have hp1 : (1 - u) ^ n ≤ 1 := pow_le_one₀ (by linarith) (by linarith)
  have hp2 : 1 ≤ (1 + u) ^ n := one_le_pow₀ (by linarith)
  constructor
  · have e : m * (1 - u) ^ n ≤ w / c := by
      rw [le_div_iff₀ hc]; linarith
    have := mul_le_mul_of_nonneg_left hp1 hf
    linarith
  · have e : w / c ≤ m * (1 + u) ^ n := by
      rw [div_le_iff₀ hc]; linarith
    have := mul_le_mul_of_nonneg_left hp2 hf
    linarith

theorem one_add_pow_le (u : ℚ) (hu0 : 0 ≤ u) : ∀ n : ℕ, (n : ℚ) * u ≤ 1 / 2 → (1 + u) ^ n ≤ 1 + 2 * n * u := by
  intro n
  induction n with
  | zero => intro _; simp
  | succ k ih =>
    intro h
    push_cast at h ⊢
    have hk : (k : ℚ) * u ≤ 1 / 2 := by nlinarith
    have := ih hk
    have hk0 : (0 : ℚ) ≤ k := Nat.cast_nonneg k
    rw [pow_succ]
    have h1 : (1 + u) ^ k * (1 + u) ≤ (1 + 2 * k * u) * (1 + u) :=
      mul_le_mul_of_nonneg_right this (by linarith)
    nlinarith [mul_nonneg hk0 hu0, mul_nonneg (mul_nonneg hk0 hu0) hu0]

theorem one_sub_pow_ge (u : ℚ) (hu1 : u ≤ 1) (n : ℕ) : 1 - n * u ≤ (1 - u) ^ n := by
  induction n with
  | zero => simp
  | succ k ih =>
    push_cast
    have hk0 : (0 : ℚ) ≤ k := Nat.cast_nonneg k
    rw [pow_succ]
    have h1 : (1 - k * u) * (1 - u) ≤ (1 - u) ^ k * (1 - u) :=
      mul_le_mul_of_nonneg_right ih (by linarith)
    nlinarith [mul_nonneg hk0 (mul_self_nonneg u)]

/-- `n` relative perturbations amount to at most `2·n·u`, as long as `n·u ≤ 1/2` -/
theorem Within.abs_le {n : ℕ} {u a b : ℚ} (hu0 : 0 ≤ u) (hu1 : u ≤ 1) (hb : 0 ≤ b) (hn : (n : ℚ) * u ≤ 1 / 2)
    (h : Within n u a b) : |a - b| ≤ 2 * n * u * b := by
  obtain ⟨h1, h2⟩ := h
  have p1 := one_add_pow_le u hu0 n hn
  have p2 := one_sub_pow_ge u hu1 n
  have q1 := mul_le_mul_of_nonneg_left p1 hb
  have q2 := mul_le_mul_of_nonneg_left p2 hb
  have hn0 : (0 : ℚ) ≤ n := Nat.cast_nonneg n
  have : 0 ≤ (n : ℚ) * u * b := mul_nonneg (mul_nonneg hn0 hu0) hb
  rw [_root_.abs_le]
  constructor <;> nlinarith

theorem Within.one {u x c w : ℚ} (hu0 : 0 ≤ u) (hu1 : u ≤ 1) (hc : 0 < c) (hw : |w - x * c| ≤ x * c * u) :
    Within 1 u w (x * c) := (Within.refl u x).step hu0 hu1 hc hw

/-! ### 2./3. the normalisation loops -/

section
variable {rnd : Rounding} (L : Lawful rnd) (p : Nat → Nat → FV)
include L

theorem lawful_u_le_one : L.u ≤ 1 := le_trans L.hu (by norm_num)

/-- `normDown_total` with the accumulated error: `j` passes, `x' ≈ x / 10^j` within `j` roundings -/
theorem normDown_err (hdu : L.d ≤ L.u) : ∀ (N fuel : ℕ) (x : ℚ) (k : ℕ), N ≤ fuel → rnd x = some x → 0 ≤ x →
    x < 10 * 8 ^ N → k + N ≤ 2 ^ 53 →
    ∃ (x' : ℚ) (j : ℕ), j ≤ N ∧ rnd x' = some x' ∧ 0 ≤ x' ∧ x' < 10 ∧ (j = 0 → x' = x) ∧ (0 < j → 7 / 8 ≤ x') ∧
      normDown (arithP rnd p) fuel (ipOf x) (fpOf x) (epv k) = .ok (ipOf x', fpOf x', epv ((k + j : ℕ) : ℤ)) ∧
      Within j L.u x' (x / 10 ^ j) := by
  intro N
  induction N with
  | zero =>
    intro fuel x k _ hx h0 hlt _
    have hge : (arithP rnd p).ge (ipOf x) (arithP rnd p).ten = false := by
      rw [ten_eq L p]; simp only [arithP_ge, ipOf, ge_fin, FV.sval, Bool.false_eq_true, if_false]
      have := (flr_ge_iff x 10).not.mpr (by push_cast; linarith)
      simpa using this
    refine ⟨x, 0, le_refl _, hx, h0, by linarith, fun _ => rfl, fun h => absurd h (lt_irrefl _), ?_, ?_⟩
    · cases fuel <;> simp [normDown, hge]
    · simpa using Within.refl L.u x
  | succ N ih =>
    intro fuel x k hf hx h0 hlt hk
    by_cases h10 : x < 10
    · have hge : (arithP rnd p).ge (ipOf x) (arithP rnd p).ten = false := by
        rw [ten_eq L p]; simp only [arithP_ge, ipOf, ge_fin, FV.sval, Bool.false_eq_true, if_false]
        have := (flr_ge_iff x 10).not.mpr (by push_cast; linarith)
        simpa using this
      refine ⟨x, 0, Nat.zero_le _, hx, h0, h10, fun _ => rfl, fun h => absurd h (lt_irrefl _), ?_, ?_⟩
      · cases fuel <;> simp [normDown, hge]
      · simpa using Within.refl L.u x
    · have h10' : 10 ≤ x := not_lt.mp h10
      have hge : (arithP rnd p).ge (ipOf x) (arithP rnd p).ten = true := by
        rw [ten_eq L p]; simp only [arithP_ge, ipOf, ge_fin, FV.sval, Bool.false_eq_true, if_false]
        have := (flr_ge_iff x 10).mpr (by push_cast; linarith)
        simpa using this
      obtain ⟨f, rfl⟩ : ∃ f, fuel = f + 1 := ⟨fuel - 1, by omega⟩
      have hsm : L.small x := small_of_rnd L hx
      obtain ⟨w, hw, hw0, hws, hrw⟩ := div_ten L (n := false) h0 hsm
      have hww : rnd w = some w := L.idem hrw
      -- error of the division
      have hrel := L.rel (by linarith : (0:ℚ) < x / 10) hrw
      have hrel' : |w - x * (1 / 10)| ≤ x * (1 / 10) * L.u := by
        have e : x * (1 / 10) = x / 10 := by ring
        rw [e]
        refine le_trans hrel (max_le (le_refl _) ?_)
        have : 1 * L.u ≤ x / 10 * L.u := mul_le_mul_of_nonneg_right (by linarith) L.hu0
        linarith
      have hmax : max (x / 10 * L.u) L.d ≤ x / 80 := by
        apply max_le
        · have := L.hu; have : x / 10 * L.u ≤ x / 10 * (1 / 8) := mul_le_mul_of_nonneg_left L.hu (by linarith)
          linarith
        · have := L.hd; linarith
      rw [abs_le] at hrel
      have hwle : w ≤ x / 8 := by linarith [hrel.2]
      have hwpos : 7 / 8 ≤ w := by linarith [hrel.1]
      have hstep : (arithP rnd p).modf ((arithP rnd p).div ((arithP rnd p).add (ipOf x) (fpOf x)) (arithP rnd p).ten)
          = (fpOf w, ipOf w) := by
        rw [ten_eq L p]; simp only [arithP_modf, arithP_div, arithP_add]
        rw [add_modf hx h0, hw, modf_fin]
      have hep : (arithP rnd p).add (epv k) (arithP rnd p).one = epv ((k + 1 : ℕ) : ℤ) := by
        rw [one_eq L p]; simp only [arithP_add]
        have := add_epv L (k : ℤ) 1 (by omega)
        have e1 : epv 1 = .fin false 1 := by simp [epv]
        rw [e1] at this
        rw [this]; push_cast; rfl
      obtain ⟨x', j, hj, hx', h0', hlt', hj0, hpos', hrun, hwi⟩ := ih f w (k + 1) (by omega) hww hw0
        (by have : (8:ℚ) ^ (N + 1) = 8 * 8 ^ N := by ring
            rw [this] at hlt; linarith) (by omega)
      refine ⟨x', j + 1, by omega, hx', h0', hlt', by omega, fun _ => ?_, ?_, ?_⟩
      · rcases Nat.eq_zero_or_pos j with hj' | hj'
        · rw [hj0 hj']; exact hwpos
        · exact hpos' hj'
      · simp only [normDown, hge, if_true, hstep, hep]
        rw [hrun]
        have : ((k + 1 + j : ℕ) : ℤ) = ((k + (j + 1) : ℕ) : ℤ) := by push_cast; ring
        rw [this]
      · have h1 := Within.one L.hu0 (lawful_u_le_one L) (by norm_num : (0:ℚ) < 1 / 10) hrel'
        have e1 : w / 10 ^ j = w * (1 / 10 ^ j) := by ring
        rw [e1] at hwi
        have := Within.trans L.hu0 (lawful_u_le_one L) (by positivity) h1 hwi
        have e2 : x * (1 / 10) * (1 / 10 ^ j) = x / 10 ^ (j + 1) := by rw [pow_succ]; field_simp
        rw [e2, add_comm] at this
        exact this

/-- `normUp_total` with the accumulated error: `j` passes, `x' ≈ x * 10^j` within `j` roundings.
`hdn` (the absolute error bound `d` is below the relative one for the first product) holds for
every normal binary64. -/
theorem normUp_err : ∀ (N fuel : ℕ) (x : ℚ) (z : ℤ), N ≤ fuel → rnd x = some x → 0 < x → 1 ≤ x * 8 ^ N →
    z.natAbs + N ≤ 2 ^ 53 → x < 12 → L.d ≤ x * 10 * L.u →
    ∃ (x' : ℚ) (j : ℕ), j ≤ N ∧ rnd x' = some x' ∧ 1 ≤ x' ∧ x' < 12 ∧ (j = 0 → x' = x) ∧ (1 ≤ x → j = 0) ∧
      (7 / 8 ≤ x → j ≤ 1) ∧
      normUp (arithP rnd p) fuel (ipOf x) (fpOf x) (epv z) = .ok (ipOf x', fpOf x', epv (z - (j : ℤ))) ∧
      Within j L.u x' (x * 10 ^ j) := by
  intro N
  induction N with
  | zero =>
    intro fuel x z _ hx h0 h1 _ h12 _
    have hx1 : 1 ≤ x := by simpa using h1
    have heq : (arithP rnd p).eq (ipOf x) (arithP rnd p).zero = false := by
      rw [zero_eq L p]; simp only [arithP_eq, ipOf, eq_fin, FV.sval, Bool.false_eq_true, if_false]
      have := (flr_eq_zero_iff (le_of_lt h0)).not.mpr (by linarith)
      simpa using this
    refine ⟨x, 0, le_refl _, hx, hx1, h12, fun _ => rfl, fun _ => rfl, fun _ => by omega, ?_, ?_⟩
    · cases fuel <;> simp [normUp, heq]
    · simpa using Within.refl L.u x
  | succ N ih =>
    intro fuel x z hf hx h0 h1 hz h12 hdn
    by_cases hx1 : 1 ≤ x
    · have heq : (arithP rnd p).eq (ipOf x) (arithP rnd p).zero = false := by
        rw [zero_eq L p]; simp only [arithP_eq, ipOf, eq_fin, FV.sval, Bool.false_eq_true, if_false]
        have := (flr_eq_zero_iff (le_of_lt h0)).not.mpr (by linarith)
        simpa using this
      refine ⟨x, 0, Nat.zero_le _, hx, hx1, h12, fun _ => rfl, fun _ => rfl, fun _ => by omega, ?_, ?_⟩
      · cases fuel <;> simp [normUp, heq]
      · simpa using Within.refl L.u x
    · have hlt1 : x < 1 := not_le.mp hx1
      have heq : (arithP rnd p).eq (ipOf x) (arithP rnd p).zero = true := by
        rw [zero_eq L p]; simp only [arithP_eq, ipOf, eq_fin, FV.sval, Bool.false_eq_true, if_false]
        have := (flr_eq_zero_iff (le_of_lt h0)).mpr hlt1
        simpa using this
      obtain ⟨f, rfl⟩ : ∃ f, fuel = f + 1 := ⟨fuel - 1, by omega⟩
      have hsm : L.small (x * 10) := L.small_down (small_nat L 10 (by norm_num)) (by push_cast; linarith)
      obtain ⟨w, hrw⟩ := L.rnd_small hsm
      have hww : rnd w = some w := L.idem hrw
      have hrel := L.rel (by linarith : (0:ℚ) < x * 10) hrw
      have hrel' : |w - x * 10| ≤ x * 10 * L.u := le_trans hrel (max_le (le_refl _) hdn)
      have htiny : 2 * L.d ≤ x := by
        rcases L.rep_tiny (le_of_lt h0) hx with h | h
        · linarith
        · exact h
      have hmax : max (x * 10 * L.u) L.d ≤ x * 10 / 8 := by
        apply max_le
        · have : x * 10 * L.u ≤ x * 10 * (1 / 8) := mul_le_mul_of_nonneg_left L.hu (by linarith)
          linarith
        · have := L.hd0; linarith
      rw [abs_le] at hrel
      have hwge : 8 * x ≤ w := by linarith [hrel.1]
      have hwlt : w < 12 := by linarith [hrel.2]
      have hstep : (arithP rnd p).modf ((arithP rnd p).mul ((arithP rnd p).add (ipOf x) (fpOf x)) (arithP rnd p).ten)
          = (fpOf w, ipOf w) := by
        rw [ten_eq L p]; simp only [arithP_modf, arithP_mul, arithP_add]
        rw [add_modf hx (le_of_lt h0)]
        simp [FV.mul, FV.mk, hrw, modf_fin]
      have hep : (arithP rnd p).add (epv z) ((arithP rnd p).ofInt (-1)) = epv (z - 1) := by
        rw [ofInt_epv L p (-1) (by norm_num)]; simp only [arithP_add]
        have := add_epv L z (-1) (by omega)
        rw [this]; rfl
      have hdn' : L.d ≤ w * 10 * L.u := by
        have : x * 10 * L.u ≤ w * 10 * L.u := mul_le_mul_of_nonneg_right (by linarith) L.hu0
        linarith
      obtain ⟨x', j, hj, hx', h1', h12', _, hj1, _, hrun, hwi⟩ := ih f w (z - 1) (by omega) hww (by linarith)
        (by have : (8:ℚ) ^ (N + 1) = 8 * 8 ^ N := by ring
            rw [this] at h1
            have h8 : (0:ℚ) ≤ 8 ^ N := by positivity
            nlinarith) (by omega) hwlt hdn'
      refine ⟨x', j + 1, by omega, hx', h1', h12', by omega, fun h => absurd h hx1, fun h78 => ?_, ?_, ?_⟩
      · have := hj1 (by linarith); omega
      · simp only [normUp, heq, if_true, hstep, hep]
        rw [hrun]
        have : z - 1 - (j : ℤ) = z - ((j + 1 : ℕ) : ℤ) := by push_cast; ring
        rw [this]
      · have h1 := Within.one L.hu0 (lawful_u_le_one L) (by norm_num : (0:ℚ) < 10) hrel'
        have := Within.trans L.hu0 (lawful_u_le_one L) (by positivity : (0:ℚ) ≤ 10 ^ j) h1 hwi
        have e2 : x * 10 * 10 ^ j = x * 10 ^ (j + 1) := by rw [pow_succ]; ring
        rw [e2, add_comm] at this
        exact this

end

/-! ### 4. the fraction scaling loop -/

section
variable {rnd : Rounding} (L : Lawful rnd) (p : Nat → Nat → FV)
include L

theorem scale_test (m : ℚ) :
    (arithP rnd p).ne ((arithP rnd p).fmod (.fin false m) (arithP rnd p).one) (arithP rnd p).zero
      = !decide (FV.flr m = m) := by
  rw [one_eq L p, zero_eq L p]
  simp only [Arith.ne, arithP_eq, arithP_fmod, FV.fmod]
  have h1 : (1 : ℚ) ≠ 0 := by norm_num
  simp only [h1, if_false, eq_fin, FV.sval, Bool.false_eq_true]
  congr 1
  apply decide_eq_decide.mpr
  simp only [div_one, mul_one]
  constructor
  · intro h; linarith
  · intro h; linarith

omit L in
theorem flr_zero : FV.flr 0 = 0 := (flr_eq_zero_iff (le_refl 0)).mpr (by norm_num)

theorem scaleLoop_err : ∀ (n sc : ℕ) (m : ℚ), Rq L m → (m = 0 ∨ L.d ≤ m * L.u) →
    ∃ (j : ℕ) (w : ℚ), scaleLoop (arithP rnd p) n sc (.fin false m) = (sc + j, .fin false w) ∧ j ≤ n ∧ Rq L w ∧
      Within j L.u w (m * 10 ^ j) ∧ (j = n ∨ FV.flr w = w) := by
  intro n
  induction n with
  | zero => intro sc m h _; exact ⟨0, m, rfl, le_refl _, h, by simpa using Within.refl L.u m, Or.inl rfl⟩
  | succ n ih =>
    intro sc m h hd
    unfold scaleLoop
    rw [scale_test L p m]
    by_cases hint : FV.flr m = m
    · simp only [hint, decide_true, Bool.not_true, Bool.false_eq_true, if_false]
      exact ⟨0, m, rfl, Nat.zero_le _, h, by simpa using Within.refl L.u m, Or.inr hint⟩
    · simp only [hint, decide_false, Bool.not_false, if_true]
      obtain ⟨hm, hm0, hms⟩ := h
      have hm_ne : m ≠ 0 := by intro h0; apply hint; rw [h0]; exact flr_zero
      have hmpos : 0 < m := lt_of_le_of_ne hm0 (Ne.symm hm_ne)
      have hdm : L.d ≤ m * L.u := by rcases hd with h | h; exact absurd h hm_ne; exact h
      have hsm := L.nonint_small hm hint
      have hs10 : L.small (m * 10) := L.small_down hsm (by linarith)
      obtain ⟨v, hv⟩ := L.rnd_small hs10
      have hvv : rnd v = some v := L.idem hv
      have hmul : (arithP rnd p).mul (.fin false m) (arithP rnd p).ten = .fin false v := by
        rw [ten_eq L p]; simp [FV.mul, FV.mk, hv]
      rw [hmul]
      have hrel := L.rel (by linarith : (0:ℚ) < m * 10) hv
      have hmu : 0 ≤ m * L.u := mul_nonneg hm0 L.hu0
      have hrel' : |v - m * 10| ≤ m * 10 * L.u := le_trans hrel (max_le (le_refl _) (by linarith))
      have hmu8 : m * L.u ≤ m * (1 / 8) := mul_le_mul_of_nonneg_left L.hu hm0
      have hr2 := hrel'
      rw [abs_le] at hr2
      have hvge : m ≤ v := by linarith [hr2.1]
      have hvle : v ≤ 12 * m := by linarith [hr2.2]
      have hdv : L.d ≤ v * L.u := by
        have : m * L.u ≤ v * L.u := mul_le_mul_of_nonneg_right hvge L.hu0
        linarith
      obtain ⟨j, w, hrun, hj, hRq, hwi, hfin⟩ := ih (sc + 1) v ⟨hvv, by linarith, L.small_down hsm (by linarith)⟩ (Or.inr hdv)
      refine ⟨j + 1, w, ?_, by omega, hRq, ?_, ?_⟩
      · rw [hrun]; congr 1; omega
      · have h1 := Within.one L.hu0 (lawful_u_le_one L) (by norm_num : (0:ℚ) < 10) hrel'
        have := Within.trans L.hu0 (lawful_u_le_one L) (by positivity : (0:ℚ) ≤ 10 ^ j) h1 hwi
        have e2 : m * 10 * 10 ^ j = m * 10 ^ (j + 1) := by rw [pow_succ]; ring
        rw [e2, add_comm] at this
        exact this
      · rcases hfin with h | h
        · left; omega
        · right; exact h
end

end Igris.C13
