/-
  C13 — `Sharp L`: the further facts about a rounding that the SHAPE of the printed text and
  the sufficiency of the buffer depend on (they hold for binary64, not for exact rationals:
  a non-integer value is small, a fraction of a value ≥ 1 is not tiny), and the instance for
  the software binary64 `rnd64`.
-/
import IgrisModel.C13.Total2
namespace Igris.C13

structure Sharp {rnd : Rounding} (L : Lawful rnd) : Prop where
  u10 : L.u ≤ 1 / 1024
  d10 : L.d ≤ 1 / 1024
  /-- rounding does not cross a (representable) natural number downwards -/
  mono_nat : ∀ {q v : ℚ} (n : ℕ), n ≤ 2 ^ 53 → (n : ℚ) ≤ q → rnd q = some v → (n : ℚ) ≤ v
  /-- ten times a representable value below 1 stays below 10 -/
  mul10_lt : ∀ {x w : ℚ}, rnd x = some x → 0 ≤ x → x < 1 → rnd (x * 10) = some w → w < 10
  /-- a representable non-integer is below 2^52 -/
  nonint_lt : ∀ {v : ℚ}, rnd v = some v → FV.flr v ≠ v → v < 2 ^ 52
  /-- the fraction of a representable value ≥ 1 is zero or at least 2^-52 -/
  frac_ge : ∀ {v : ℚ}, rnd v = some v → 1 ≤ v → v - FV.flr v = 0 ∨ 1 ≤ (v - FV.flr v) * 2 ^ 52
  /-- the largest magnitude -/
  top : ∀ {q v : ℚ}, rnd q = some v → v < 2 ^ 1024

theorem sig64_ge_floor (q : ℚ) : (q / pow2 (ulpExp q)).floor ≤ sig64 q := by
  unfold sig64
  dsimp only
  split_ifs <;> omega

theorem pow2_52 : pow2 52 = (2 : ℚ) ^ 52 := pow2_nat 52

theorem rnd64_zero_of_nonpos {q v : ℚ} (hq : ¬ 0 < q) (h : rnd64 q = some v) : v = 0 := by
  unfold rnd64 at h
  simp only [not_lt.mp hq, if_true] at h
  simp at h; exact h.symm

theorem rnd64_mono_nat {q v : ℚ} (m : ℕ) (hm : m ≤ 2 ^ 53) (hq1 : (m : ℚ) ≤ q) (h : rnd64 q = some v) : (m : ℚ) ≤ v := by
  rcases Nat.eq_zero_or_pos m with hm0 | hmp
  · subst hm0; simpa using rnd64_nonneg h
  have hm1 : (1 : ℚ) ≤ m := by exact_mod_cast hmp
  have hq : 0 < q := by linarith
  obtain ⟨a, b⟩ := ilog2_spec hq
  rw [rnd64_eq hq] at h
  split at h
  · simp at h
  · simp at h
    subst h
    have hp := pow2_pos (ulpExp q)
    have hfl := sig64_ge_floor q
    by_cases hE : ulpExp q ≤ 0
    · -- m = (m * 2^(-E)) * 2^E
      obtain ⟨n, hn⟩ := Int.eq_ofNat_of_zero_le (show 0 ≤ -ulpExp q by omega)
      have h1 : pow2 (ulpExp q) * (2 : ℚ) ^ n = 1 := by
        rw [← pow2_nat, ← hn, ← pow2_add]; simp [pow2_zero]
      have hs : ((m * 2 ^ n : ℕ) : ℚ) ≤ q / pow2 (ulpExp q) := by
        rw [le_div_iff₀ hp]; push_cast
        calc (m : ℚ) * 2 ^ n * pow2 (ulpExp q) = m * (pow2 (ulpExp q) * 2 ^ n) := by ring
          _ = m := by rw [h1, mul_one]
          _ ≤ q := hq1
      have : ((m * 2 ^ n : ℕ) : ℤ) ≤ (q / pow2 (ulpExp q)).floor := Rat.le_floor_iff.mpr (by exact_mod_cast hs)
      have h2 : ((m * 2 ^ n : ℕ) : ℤ) ≤ sig64 q := le_trans this hfl
      have h3 : ((m : ℚ) * 2 ^ n) ≤ (sig64 q : ℚ) := by exact_mod_cast h2
      calc (m : ℚ) = (m : ℚ) * 2 ^ n * pow2 (ulpExp q) := by
            rw [mul_assoc, mul_comm ((2 : ℚ) ^ n), h1, mul_one]
        _ ≤ (sig64 q : ℚ) * pow2 (ulpExp q) := mul_le_mul_of_nonneg_right h3 (le_of_lt hp)
    · have hE' : ulpExp q = ilog2 q - 52 := by unfold ulpExp at hE ⊢; omega
      have hs : ((2 ^ 52 : ℕ) : ℚ) ≤ q / pow2 (ulpExp q) := by
        rw [le_div_iff₀ hp]
        have : pow2 (ilog2 q) = pow2 52 * pow2 (ulpExp q) := by rw [← pow2_add, hE']; congr 1; ring
        rw [this, pow2_52] at a; push_cast; exact a
      have : ((2 ^ 52 : ℕ) : ℤ) ≤ (q / pow2 (ulpExp q)).floor := Rat.le_floor_iff.mpr (by exact_mod_cast hs)
      have h2 : ((2 ^ 52 : ℕ) : ℤ) ≤ sig64 q := le_trans this hfl
      have h3 : ((2 : ℚ) ^ 52) ≤ (sig64 q : ℚ) := by exact_mod_cast h2
      have h4 : (2 : ℚ) ≤ pow2 (ulpExp q) := by
        have : pow2 1 ≤ pow2 (ulpExp q) := pow2_mono (by omega)
        have e : pow2 1 = 2 := by rw [pow2_eq]; norm_num
        rwa [e] at this
      have hm' : (m : ℚ) ≤ 2 ^ 53 := by exact_mod_cast hm
      calc (m : ℚ) ≤ (2 : ℚ) ^ 52 * 2 := by linarith
        _ ≤ (sig64 q : ℚ) * pow2 (ulpExp q) := mul_le_mul h3 h4 (by norm_num) (by linarith)

theorem rnd64_nonint_lt {v : ℚ} (h : rnd64 v = some v) (hni : FV.flr v ≠ v) : v < 2 ^ 52 := by
  have hvp : 0 < v := by
    by_contra hc
    have := rnd64_zero_of_nonpos hc h
    apply hni; rw [this]; unfold FV.flr
    have : (0 : ℚ).floor = 0 := by exact_mod_cast Rat.floor_intCast 0
    rw [this]; simp
  obtain ⟨k, hk, hv, _⟩ := rnd64_form hvp h
  have hEneg : ulpExp v < 0 := by
    by_contra hc
    obtain ⟨n, hn⟩ := Int.eq_ofNat_of_zero_le (not_lt.mp hc)
    apply hni
    have : v = ((k * 2 ^ n : ℕ) : ℚ) := by rw [hv, hn, pow2_nat]; push_cast; ring
    rw [this]; unfold FV.flr
    exact_mod_cast Rat.floor_intCast ((k * 2 ^ n : ℕ) : ℤ)
  obtain ⟨a, b⟩ := ilog2_spec hvp
  have hlog : ilog2 v + 1 ≤ 52 := by unfold ulpExp at hEneg; omega
  have := lt_of_lt_of_le b (pow2_mono hlog)
  rwa [pow2_52] at this

theorem rnd64_frac_ge {v : ℚ} (h : rnd64 v = some v) (h1 : 1 ≤ v) :
    v - FV.flr v = 0 ∨ 1 ≤ (v - FV.flr v) * 2 ^ 52 := by
  have hvp : 0 < v := by linarith
  obtain ⟨k, hk, hv, hlt⟩ := rnd64_form hvp h
  obtain ⟨a, b⟩ := ilog2_spec hvp
  have hlog : 0 ≤ ilog2 v := by
    by_contra hc
    have : pow2 (ilog2 v + 1) ≤ pow2 0 := pow2_mono (by omega)
    rw [pow2_zero] at this; linarith
  by_cases hE : 0 ≤ ulpExp v
  · left
    obtain ⟨n, hn⟩ := Int.eq_ofNat_of_zero_le hE
    have hvi : v = ((k * 2 ^ n : ℕ) : ℚ) := by rw [hv, hn, pow2_nat]; push_cast; ring
    have : FV.flr v = v := by
      unfold FV.flr; rw [hvi]; exact_mod_cast Rat.floor_intCast ((k * 2 ^ n : ℕ) : ℤ)
    rw [this, sub_self]
  · obtain ⟨n, hn⟩ := Int.eq_ofNat_of_zero_le (show 0 ≤ -ulpExp v by omega)
    have hE' : ulpExp v = -(n : ℤ) := by omega
    have hn52 : n ≤ 52 := by unfold ulpExp at hE'; omega
    have hp2 : pow2 (ulpExp v) = 1 / ((2 ^ n : ℕ) : ℚ) := by
      rw [hE', pow2_eq, zpow_neg]; simp
    have hvd : v = (k : ℚ) / ((2 ^ n : ℕ) : ℚ) := by rw [hv, hp2]; ring
    have hfl : v.floor = ((k / 2 ^ n : ℕ) : ℤ) := by
      rw [hvd, ratFloor_eq, Rat.floor_natCast_div_natCast]; norm_cast
    have hflq : FV.flr v = ((k / 2 ^ n : ℕ) : ℚ) := by unfold FV.flr; rw [hfl, Int.cast_natCast]
    have hpos : (0 : ℚ) < ((2 ^ n : ℕ) : ℚ) := by positivity
    have hfrac : v - FV.flr v = ((k % 2 ^ n : ℕ) : ℚ) / ((2 ^ n : ℕ) : ℚ) := by
      rw [hflq]
      have hdm := Nat.div_add_mod k (2 ^ n)
      have hk' : (k : ℚ) = ((2 ^ n : ℕ) : ℚ) * ((k / 2 ^ n : ℕ) : ℚ) + ((k % 2 ^ n : ℕ) : ℚ) := by
        exact_mod_cast hdm.symm
      generalize ((k / 2 ^ n : ℕ) : ℚ) = a' at hk' ⊢
      generalize ((k % 2 ^ n : ℕ) : ℚ) = b' at hk' ⊢
      generalize ((2 ^ n : ℕ) : ℚ) = D at hk' hpos hvd ⊢
      rw [hvd, hk']
      field_simp
      ring
    rw [hfrac]
    rcases Nat.eq_zero_or_pos (k % 2 ^ n) with h0 | hpos'
    · left; rw [h0]; simp
    · right
      have hm1 : (1 : ℚ) ≤ ((k % 2 ^ n : ℕ) : ℚ) := by exact_mod_cast hpos'
      have hD : ((2 ^ n : ℕ) : ℚ) ≤ 2 ^ 52 := by
        push_cast; exact pow_le_pow_right₀ (by norm_num) hn52
      rw [div_mul_eq_mul_div, le_div_iff₀ hpos]
      nlinarith

theorem rnd64_mul10_lt {x w : ℚ} (hx : rnd64 x = some x) (h0 : 0 ≤ x) (h1 : x < 1) (hw : rnd64 (x * 10) = some w) :
    w < 10 := by
  rcases lt_or_eq_of_le h0 with hxp | hx0
  swap
  · rw [← hx0] at hw
    have := rnd64_zero_of_nonpos (by norm_num) hw
    rw [this]; norm_num
  have hq : 0 < x * 10 := by linarith
  by_cases hs : x ≤ 7 / 8
  · have he := rnd64_abs hq hw
    have h53 : pow2 (-53) ≤ 1 / 1024 := by
      have : pow2 (-53) ≤ pow2 (-10) := pow2_mono (by norm_num)
      have e : pow2 (-10) = 1 / 1024 := by rw [pow2_eq]; norm_num
      linarith
    have h1075 : pow2 (-1075) ≤ 1 / 1024 := by
      have : pow2 (-1075) ≤ pow2 (-10) := pow2_mono (by norm_num)
      have e : pow2 (-10) = 1 / 1024 := by rw [pow2_eq]; norm_num
      linarith
    have : max (x * 10 * pow2 (-53)) (pow2 (-1075)) ≤ 1 / 100 := by
      apply max_le
      · have : x * 10 * pow2 (-53) ≤ x * 10 * (1 / 1024) := mul_le_mul_of_nonneg_left h53 (by linarith)
        linarith
      · linarith
    rw [abs_le] at he
    linarith [he.2]
  · have hs' : 7 / 8 < x := not_le.mp hs
    -- x = k * 2^-53 with k < 2^53
    have hil : ilog2 x = -1 := ilog2_unique (by
      have : pow2 (-1) = 1 / 2 := by rw [pow2_eq]; norm_num
      rw [this]; linarith) (by
      have : pow2 (-1 + 1) = 1 := by norm_num [pow2_zero]
      rw [this]; exact h1)
    obtain ⟨k, hk, hv, _⟩ := rnd64_form hxp hx
    have hE : ulpExp x = -53 := by unfold ulpExp; rw [hil]; norm_num
    rw [hE] at hv
    have hp53 : pow2 (-53) = 1 / 2 ^ 53 := by rw [pow2_eq]; norm_num
    have hk' : (k : ℚ) < 2 ^ 53 := by
      rw [hv, hp53] at h1
      have : (k : ℚ) * (1 / 2 ^ 53) < 1 := h1
      rw [mul_one_div, div_lt_one (by positivity)] at this
      exact this
    have hk'' : k + 1 ≤ 2 ^ 53 := by
      have : k < 2 ^ 53 := by exact_mod_cast hk'
      omega
    have hk3 : (k : ℚ) ≤ 2 ^ 53 - 1 := by
      have : ((k + 1 : ℕ) : ℚ) ≤ ((2 ^ 53 : ℕ) : ℚ) := by exact_mod_cast hk''
      push_cast at this; linarith
    have hxle : x ≤ 1 - 1 / 2 ^ 53 := by
      rw [hv, hp53]
      have : (k : ℚ) * (1 / 2 ^ 53) ≤ (2 ^ 53 - 1) * (1 / 2 ^ 53) := mul_le_mul_of_nonneg_right hk3 (by positivity)
      have e : ((2 : ℚ) ^ 53 - 1) * (1 / 2 ^ 53) = 1 - 1 / 2 ^ 53 := by field_simp
      linarith
    -- 8 ≤ 10x < 16: half an ulp is 2^-50
    have hil2 : ilog2 (x * 10) = 3 := ilog2_unique (by
      have : pow2 3 = 8 := by rw [pow2_eq]; norm_num
      rw [this]; linarith) (by
      have : pow2 (3 + 1) = 16 := by rw [pow2_eq]; norm_num
      rw [this]; linarith)
    have he := rnd64_err hq hw
    have hE2 : ulpExp (x * 10) = -49 := by unfold ulpExp; rw [hil2]; norm_num
    rw [hE2] at he
    have hp49 : pow2 (-49) = 1 / 2 ^ 49 := by rw [pow2_eq]; norm_num
    rw [hp49, abs_le] at he
    have : (1 : ℚ) / 2 ^ 49 / 2 = 8 / 2 ^ 53 := by norm_num
    linarith [he.2]

/-- the software binary64 is sharp -/
theorem sharp64 : Sharp lawful64 where
  u10 := by
    show pow2 (-53) ≤ 1 / 1024
    have : pow2 (-53) ≤ pow2 (-10) := pow2_mono (by norm_num)
    have e : pow2 (-10) = 1 / 1024 := by rw [pow2_eq]; norm_num
    linarith
  d10 := by
    show pow2 (-1075) ≤ 1 / 1024
    have : pow2 (-1075) ≤ pow2 (-10) := pow2_mono (by norm_num)
    have e : pow2 (-10) = 1 / 1024 := by rw [pow2_eq]; norm_num
    linarith
  mono_nat := fun n hn h1 h => rnd64_mono_nat n hn h1 h
  mul10_lt := fun hx h0 h1 hw => rnd64_mul10_lt hx h0 h1 hw
  nonint_lt := fun h hni => rnd64_nonint_lt h hni
  frac_ge := fun h h1 => rnd64_frac_ge h h1
  top := by
    intro q v h
    by_cases hq : 0 < q
    · obtain ⟨_, _, _, hlt⟩ := rnd64_form hq h
      have : pow2 1024 = (2 : ℚ) ^ 1024 := pow2_nat 1024
      rw [this] at hlt; exact hlt
    · rw [rnd64_zero_of_nonpos hq h]; positivity

end Igris.C13
