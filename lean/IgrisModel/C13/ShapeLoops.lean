/-
  C13 — what the three digit loops of `print_f` store, for a sharp lawful rounding:
  decimal digit characters only, as many as the measure allows, no leading zero, the
  buffer guard (`str > &buff[0]`, `end - postfix < PRINT_F_EXP_MAX`) never cuts a number short.
-/
import IgrisModel.C13.Sharp
import IgrisModel.C13.Shape
namespace Igris.C13
open Igris.C06 (Ops NUL)

theorem digitChar_props (upper : Bool) (c : ℤ) (h0 : 0 ≤ c) (h9 : c ≤ 9) :
    isDig (digitChar upper c) = true ∧ digitChar upper c ≠ NUL ∧ (digitChar upper c = '0' ↔ c = 0) ∧
      (digitChar upper c).toNat - 48 = c.toNat := by
  have : c = 0 ∨ c = 1 ∨ c = 2 ∨ c = 3 ∨ c = 4 ∨ c = 5 ∨ c = 6 ∨ c = 7 ∨ c = 8 ∨ c = 9 := by omega
  rcases this with rfl | rfl | rfl | rfl | rfl | rfl | rfl | rfl | rfl | rfl <;> (cases upper <;> decide)

section
variable {rnd : Rounding} (L : Lawful rnd) (S : Sharp L) (p : Nat → Nat → FV)
include L S

/-- one `MODF(x / base, &x)` on a non-negative value -/
theorem div10_step {s : Bool} {m : ℚ} (h0 : 0 ≤ m) (hs : L.small m) :
    ∃ w, (arithP rnd p).div (.fin s m) (arithP rnd p).ten = .fin s w ∧ 0 ≤ w ∧ L.small w ∧
      (1 ≤ m → FV.flr w * 8 ≤ m) ∧ (m ≤ 9 → FV.flr w = 0) ∧ (10 ≤ m → 1 ≤ FV.flr w) := by
  obtain ⟨w, hw, hw0, hws, hrw⟩ := div_ten L (n := s) h0 hs
  refine ⟨w, by rw [ten_eq L p]; simpa using hw, hw0, hws, ?_, ?_, ?_⟩
  · intro h1
    have hrel := L.rel (by linarith : (0:ℚ) < m / 10) hrw
    have hmax : max (m / 10 * L.u) L.d ≤ m / 10240 + 1 / 1024 := by
      apply max_le
      · have : m / 10 * L.u ≤ m / 10 * (1 / 1024) := mul_le_mul_of_nonneg_left S.u10 (by linarith)
        linarith
      · have := S.d10; linarith
    rw [abs_le] at hrel
    have := flr_le w
    linarith [hrel.2]
  · intro h9
    rw [flr_eq_zero_iff hw0]
    rcases lt_or_eq_of_le h0 with hp | hz
    · have hrel := L.rel (by linarith : (0:ℚ) < m / 10) hrw
      have hmax : max (m / 10 * L.u) L.d ≤ m / 10240 + 1 / 1024 := by
        apply max_le
        · have : m / 10 * L.u ≤ m / 10 * (1 / 1024) := mul_le_mul_of_nonneg_left S.u10 (by linarith)
          linarith
        · have := S.d10; linarith
      rw [abs_le] at hrel
      linarith [hrel.2]
    · subst hz
      have := L.nat_exact 0 (by norm_num)
      simp at this hrw
      rw [this] at hrw; simp at hrw; subst hrw; norm_num
  · intro h10
    have := S.mono_nat 1 (by norm_num) (by push_cast; linarith : ((1 : ℕ) : ℚ) ≤ m / 10) hrw
    exact (flr_ge_iff w 1).mpr this

omit S in
theorem ne_zero_fin (m : ℚ) : (arithP rnd p).ne (.fin false m) (arithP rnd p).zero = decide (m ≠ 0) := by
  rw [zero_eq L p]
  simp [Arith.ne, eq_fin, FV.sval]

omit S in
theorem ne_zero_fin' (s : Bool) (m : ℚ) (h0 : 0 ≤ m) : (arithP rnd p).ne (.fin s m) (arithP rnd p).zero = decide (m ≠ 0) := by
  rw [zero_eq L p]
  cases s
  · simp [Arith.ne, eq_fin, FV.sval]
  · simp [Arith.ne, eq_fin, FV.sval]

omit S in
/-- the digit of a small natural number -/
theorem digit_nat (j : ℕ) (h9 : j ≤ 9) :
    toIntM (arithP rnd p) ((arithP rnd p).fmod (.fin false (j : ℚ)) (arithP rnd p).ten) = .ok (j : ℤ) := by
  obtain ⟨c, hc, _, _, hceq⟩ := digit_ok L p (m := (j : ℚ)) (by positivity)
  rw [hc, hceq]
  have hz : FV.flr ((j : ℚ) / 10) = 0 := by
    rw [flr_eq_zero_iff (by positivity)]
    have : (j : ℚ) ≤ 9 := by exact_mod_cast h9
    linarith
  rw [hz]
  have : ((j : ℚ) - 0 * 10).floor = (j : ℤ) := by
    have := Rat.floor_intCast (j : ℤ)
    simpa using this
  rw [this]

omit L S in
theorem flr_isNat {w : ℚ} (h0 : 0 ≤ w) : ∃ j : ℕ, FV.flr w = (j : ℚ) := by
  have : (0 : ℤ) ≤ w.floor := Rat.le_floor_iff.mpr (by exact_mod_cast h0)
  obtain ⟨j, hj⟩ := Int.eq_ofNat_of_zero_le this
  exact ⟨j, by unfold FV.flr; rw [hj]; simp⟩

/-- `do { *--str = digit(ip); ip = ip / base } while (ip != 0 && str > &buff[0])` -/
theorem intLoop_shape (cfg : Cfg) (upper : Bool) : ∀ (k n : ℕ) (m : ℚ) (b : Buf), 1 ≤ k → k ≤ n → 0 ≤ m → L.small m →
    m < 8 ^ k → b.used + k ≤ cfg.size →
    ∃ ds b', intLoop (arithP rnd p) cfg upper n (.fin false m) b = .ok b' ∧ b'.body = ds ++ b.body ∧ b'.post = b.post ∧
      b'.sep = b.sep ∧ ds ≠ [] ∧ ds.all isDig = true ∧ ds.length ≤ k ∧
      ((∃ j : ℕ, m = j ∧ 1 ≤ j) → ds.head? ≠ some '0') ∧ (ds.length = 1 ∨ ds.head? ≠ some '0') ∧
      (m ≤ 9 → ds.length = 1) ∧ (m = 0 → ds = ['0']) := by
  intro k
  induction k with
  | zero => intro n m b h; omega
  | succ k ih =>
    intro n m b _ hkn h0 hs hlt hused
    obtain ⟨n', rfl⟩ : ∃ n', n = n' + 1 := ⟨n - 1, by omega⟩
    unfold intLoop
    obtain ⟨c, hc, hc0, hc9, hceq⟩ := digit_ok L p h0
    obtain ⟨cd, cn, cz, _⟩ := digitChar_props upper c hc0 hc9
    obtain ⟨w, hw, hw0, hws, hw8, hw9, hw10⟩ := div10_step L S p (s := false) h0 hs
    have hput : putBody cfg b (digitChar upper c) = .ok { b with body := digitChar upper c :: b.body } := by
      unfold putBody; rw [if_pos (by omega)]
    simp only [hc, hput, bind, Except.bind, hw, arithP_modf, modf_fin]
    rw [show ipOf w = .fin false (FV.flr w) from rfl, ne_zero_fin L p]
    have hf0 := flr_nonneg hw0
    by_cases hz : FV.flr w = 0
    · -- the loop ends here
      simp only [hz, ne_eq, not_true_eq_false, decide_false, Bool.false_and, Bool.false_eq_true, if_false]
      refine ⟨[digitChar upper c], _, rfl, rfl, rfl, rfl, by simp, by simp [cd], by simp, ?_, Or.inl rfl, fun _ => rfl, ?_⟩
      · rintro ⟨j, rfl, hj1⟩
        have hj9 : j ≤ 9 := by
          by_contra hcn
          have : (10 : ℚ) ≤ (j : ℚ) := by exact_mod_cast (by omega : 10 ≤ j)
          have := hw10 this
          rw [hz] at this; linarith
        have hd := digit_nat L p j hj9
        rw [hc] at hd
        injection hd with hd
        simp only [List.head?_cons, ne_eq, Option.some.injEq]
        rw [cz]; omega
      · intro hm0
        subst hm0
        have hd := digit_nat L p 0 (by norm_num)
        simp only [Nat.cast_zero] at hd
        rw [hc] at hd
        injection hd with hd
        have := cz.mpr (by simpa using hd)
        rw [this]
    · -- one more digit at least
      have hm9 : ¬ m ≤ 9 := fun h => hz (hw9 h)
      have hm1 : 1 ≤ m := by linarith [not_le.mp hm9]
      have hk1 : 1 ≤ k := by
        by_contra hk
        have : k = 0 := by omega
        subst this
        simp at hlt
        exact hm9 (by linarith)
      have hlt' : FV.flr w < 8 ^ k := by
        have := hw8 hm1
        have e : (8 : ℚ) ^ (k + 1) = 8 ^ k * 8 := by ring
        rw [e] at hlt
        nlinarith
      have hguard : (!cfg.repaired || decide (Buf.used { b with body := digitChar upper c :: b.body } < cfg.size)) = true := by
        rw [used_putBody]
        have : b.used + 1 < cfg.size := by omega
        simp [this]
      simp only [hz, ne_eq, not_false_eq_true, decide_true, Bool.true_and, hguard, if_true]
      obtain ⟨ds, b', hrun, hbody, hpost, hsep, hne, hall, hlen, hhead, _, _, _⟩ :=
        ih n' (FV.flr w) { b with body := digitChar upper c :: b.body } hk1 (by omega) hf0
          (L.small_down hws (flr_le w)) hlt' (by rw [used_putBody]; omega)
      obtain ⟨j, hj⟩ := flr_isNat hw0
      have hj1 : 1 ≤ j := by
        rcases Nat.eq_zero_or_pos j with h | h
        · exfalso; apply hz; rw [hj, h]; simp
        · exact h
      have hh := hhead ⟨j, hj, hj1⟩
      have hhead' : (ds ++ [digitChar upper c]).head? ≠ some '0' := by
        cases ds with
        | nil => exact absurd rfl hne
        | cons a t => simpa using hh
      refine ⟨ds ++ [digitChar upper c], b', hrun, by rw [hbody]; simp, hpost, hsep, by simp, ?_, by simp; omega,
        fun _ => hhead', Or.inr hhead', fun h => absurd h hm9, fun h => ?_⟩
      · simp [List.all_append, hall, cd]
      · exfalso; rw [h] at hm1; linarith

/-- **the guard `str > &buff[0]` never fires**: under the measure hypotheses (`m < 8^k`, `k` free bytes) the guarded
integer-digit loop of the repaired code computes exactly what the unguarded loop computes — it ends because
`ip` has become 0, never because the buffer is full -/
theorem intLoop_unguarded (cfg : Cfg) (upper : Bool) : ∀ (k n : ℕ) (m : ℚ) (b : Buf), 1 ≤ k → k ≤ n → 0 ≤ m → L.small m →
    m < 8 ^ k → b.used + k ≤ cfg.size →
    intLoop (arithP rnd p) cfg upper n (.fin false m) b =
      intLoop (arithP rnd p) { cfg with repaired := false } upper n (.fin false m) b := by
  intro k
  induction k with
  | zero => intro n m b h; omega
  | succ k ih =>
    intro n m b _ hkn h0 hs hlt hused
    obtain ⟨n', rfl⟩ : ∃ n', n = n' + 1 := ⟨n - 1, by omega⟩
    unfold intLoop
    obtain ⟨c, hc, hc0, hc9, hceq⟩ := digit_ok L p h0
    obtain ⟨w, hw, hw0, hws, hw8, hw9, hw10⟩ := div10_step L S p (s := false) h0 hs
    have hput : putBody cfg b (digitChar upper c) = .ok { b with body := digitChar upper c :: b.body } := by
      unfold putBody; rw [if_pos (by omega)]
    have hput' : putBody { cfg with repaired := false } b (digitChar upper c) = .ok { b with body := digitChar upper c :: b.body } := by
      unfold putBody; rw [if_pos (by simp; omega)]
    simp only [hc, hput, hput', bind, Except.bind, hw, arithP_modf, modf_fin]
    rw [show ipOf w = .fin false (FV.flr w) from rfl, ne_zero_fin L p]
    by_cases hz : FV.flr w = 0
    · simp [hz]
    · have hm9 : ¬ m ≤ 9 := fun h => hz (hw9 h)
      have hm1 : 1 ≤ m := by linarith [not_le.mp hm9]
      have hk1 : 1 ≤ k := by
        by_contra hk
        have : k = 0 := by omega
        subst this
        simp at hlt
        exact hm9 (by linarith)
      have hlt' : FV.flr w < 8 ^ k := by
        have := hw8 hm1
        have e : (8 : ℚ) ^ (k + 1) = 8 ^ k * 8 := by ring
        rw [e] at hlt
        nlinarith [flr_nonneg hw0]
      have hguard : (!cfg.repaired || decide (Buf.used { b with body := digitChar upper c :: b.body } < cfg.size)) = true := by
        rw [used_putBody]
        have : b.used + 1 < cfg.size := by omega
        simp [this]
      simp only [hz, ne_eq, not_false_eq_true, decide_true, Bool.true_and, hguard, if_true, Bool.not_false, Bool.true_or]
      exact ih n' (FV.flr w) { b with body := digitChar upper c :: b.body } hk1 (by omega) (flr_nonneg hw0)
        (L.small_down hws (flr_le w)) hlt' (by rw [used_putBody]; omega)

omit L S in
theorem flr_nat_div10 (j : ℕ) : FV.flr ((j : ℚ) / 10) = ((j / 10 : ℕ) : ℚ) := by
  unfold FV.flr
  have h : ((j : ℚ) / ((10 : ℕ) : ℚ)).floor = ((j / 10 : ℕ) : ℤ) := by
    rw [ratFloor_eq, Rat.floor_natCast_div_natCast]; norm_cast
  have e : ((10 : ℕ) : ℚ) = 10 := by norm_num
  rw [e] at h
  rw [h, Int.cast_natCast]

omit S in
/-- the digit `(int)fmod(j, 10)` of a natural number -/
theorem digit_natmod (j : ℕ) :
    toIntM (arithP rnd p) ((arithP rnd p).fmod (.fin false (j : ℚ)) (arithP rnd p).ten) = .ok ((j % 10 : ℕ) : ℤ) := by
  obtain ⟨c, hc, _, _, hceq⟩ := digit_ok L p (m := (j : ℚ)) (by positivity)
  rw [hc, hceq, flr_nat_div10]
  have e : (j : ℚ) - ((j / 10 : ℕ) : ℚ) * 10 = ((j % 10 : ℕ) : ℚ) := by
    have := Nat.div_add_mod j 10
    have h2 : (j : ℚ) = 10 * ((j / 10 : ℕ) : ℚ) + ((j % 10 : ℕ) : ℚ) := by exact_mod_cast this.symm
    linarith
  rw [e]
  have := Rat.floor_intCast ((j % 10 : ℕ) : ℤ)
  rw [Int.cast_natCast] at this
  rw [this]

/-- `x / 10` then `modf` on a natural number below 1000 is the integer division -/
theorem div10_nat {s : Bool} (j : ℕ) (hj : j ≤ 999) (hs : L.small (j : ℚ)) :
    ∃ w, (arithP rnd p).div (.fin s (j : ℚ)) (arithP rnd p).ten = .fin s w ∧ FV.flr w = ((j / 10 : ℕ) : ℚ) := by
  obtain ⟨w, hw, hw0, hws, hrw⟩ := div_ten L (n := s) (m := (j : ℚ)) (by positivity) hs
  refine ⟨w, by rw [ten_eq L p]; simpa using hw, ?_⟩
  have hjq : (j : ℚ) ≤ 999 := by exact_mod_cast hj
  have hdm : (j : ℚ) = 10 * ((j / 10 : ℕ) : ℚ) + ((j % 10 : ℕ) : ℚ) := by
    exact_mod_cast (Nat.div_add_mod j 10).symm
  have hmod : ((j % 10 : ℕ) : ℚ) ≤ 9 := by exact_mod_cast (by omega : j % 10 ≤ 9)
  have hmod0 : (0 : ℚ) ≤ ((j % 10 : ℕ) : ℚ) := by positivity
  have hlow : ((j / 10 : ℕ) : ℚ) ≤ w :=
    S.mono_nat (j / 10) (by omega) (by linarith) hrw
  have hup : w < ((j / 10 : ℕ) : ℚ) + 1 := by
    rcases Nat.eq_zero_or_pos j with hz | hp
    · subst hz
      have := L.nat_exact 0 (by norm_num)
      simp at this hrw
      rw [this] at hrw; simp at hrw; subst hrw; norm_num
    · have hjp : (0 : ℚ) < (j : ℚ) / 10 := by
        have : (0 : ℚ) < (j : ℚ) := by exact_mod_cast hp
        linarith
      have hrel := L.rel hjp hrw
      have hmax : max ((j : ℚ) / 10 * L.u) L.d ≤ 99 / 1000 := by
        apply max_le
        · have : (j : ℚ) / 10 * L.u ≤ (j : ℚ) / 10 * (1 / 1024) := mul_le_mul_of_nonneg_left S.u10 (by linarith)
          linarith
        · have := S.d10; linarith
      rw [abs_le] at hrel
      linarith [hrel.2]
  unfold FV.flr
  have : w.floor = ((j / 10 : ℕ) : ℤ) := by
    rw [ratFloor_eq, Int.floor_eq_iff]
    constructor
    · exact_mod_cast hlow
    · exact_mod_cast hup
  rw [this, Int.cast_natCast]

omit L S in
theorem digVal_snoc (ds : List Char) (c : Char) : digVal (ds ++ [c]) = digVal ds * 10 + (c.toNat - 48) := by
  unfold digVal; rw [List.foldl_append]; rfl

/-- `do { *--postfix = digit(|ep|); ep = ep / base } while (ep != 0 && end - postfix < PRINT_F_EXP_MAX)`
on a small integer exponent: its decimal digits, most significant first, all of them -/
theorem expLoop_shape (cfg : Cfg) (upper : Bool) (s : Bool) : ∀ (k n j : ℕ) (b : Buf), 1 ≤ k → k ≤ n → j < 10 ^ k →
    j ≤ 999 → L.small (j : ℚ) → b.post.length + k ≤ cfg.expMax → b.used + k ≤ cfg.size →
    ∃ ds b', expLoop (arithP rnd p) cfg upper n (.fin s (j : ℚ)) b = .ok (.fin s 0, b') ∧ b'.post = ds ++ b.post ∧
      b'.body = b.body ∧ b'.sep = b.sep ∧ ds ≠ [] ∧ ds.all isDig = true ∧ ds.length ≤ k ∧ digVal ds = j ∧
      (ds.length = 1 ∨ ds.head? ≠ some '0') ∧ (j ≤ 9 → ds.length = 1) ∧ (1 ≤ j → ds.head? ≠ some '0') := by
  intro k
  induction k with
  | zero => intro n j b h; omega
  | succ k ih =>
    intro n j b _ hkn hlt h999 hs hpost hused
    obtain ⟨n', rfl⟩ : ∃ n', n = n' + 1 := ⟨n - 1, by omega⟩
    unfold expLoop
    have hfabs : (arithP rnd p).fabs (.fin s (j : ℚ)) = .fin false (j : ℚ) := rfl
    have hc := digit_natmod L p j
    obtain ⟨r, hr⟩ : ∃ r : ℕ, r = j % 10 := ⟨_, rfl⟩
    rw [← hr] at hc
    have hr9 : r ≤ 9 := by omega
    obtain ⟨cd, cn, cz, cv⟩ := digitChar_props upper (r : ℤ) (by positivity) (by omega)
    obtain ⟨w, hw, hfl⟩ := div10_nat L S p (s := s) j h999 hs
    have hput : putPost cfg b (digitChar upper (r : ℤ)) =
        .ok { b with post := digitChar upper (r : ℤ) :: b.post } := by
      unfold putPost; rw [if_pos (by omega)]
    have hmodf : ((arithP rnd p).modf (.fin s w)).2 = .fin s (FV.flr w) := rfl
    simp only [hfabs, hc, hput, bind, Except.bind, hw, hmodf]
    rw [ne_zero_fin' L p s (FV.flr w) (by rw [hfl]; positivity), hfl]
    have cv' : (digitChar upper (r : ℤ)).toNat - 48 = r := by rw [cv]; simp
    by_cases hz : j / 10 = 0
    · have hj9 : j ≤ 9 := by omega
      simp only [hz, Nat.cast_zero, ne_eq, not_true_eq_false, decide_false, Bool.false_and, Bool.false_eq_true, if_false]
      refine ⟨[digitChar upper (r : ℤ)], _, rfl, rfl, rfl, rfl, by simp, by simp [cd], by simp, ?_, Or.inl rfl,
        fun _ => rfl, ?_⟩
      · unfold digVal; simp only [List.foldl_cons, List.foldl_nil]; rw [cv']; omega
      · intro h1
        simp only [List.head?_cons, ne_eq, Option.some.injEq]
        rw [cz]; omega
    · have hk1 : 1 ≤ k := by
        by_contra hk
        have : k = 0 := by omega
        subst this; simp at hlt; omega
      have hq0 : ((j / 10 : ℕ) : ℚ) ≠ 0 := by exact_mod_cast hz
      have hguard : (!cfg.repaired || decide (List.length (digitChar upper (r : ℤ) :: b.post) < cfg.expMax)) = true := by
        have : b.post.length + 1 < cfg.expMax := by omega
        simp [this]
      simp only [hq0, ne_eq, not_false_eq_true, decide_true, Bool.true_and, hguard, if_true]
      have hlt' : j / 10 < 10 ^ k := by
        have : 10 ^ (k + 1) = 10 ^ k * 10 := by ring
        rw [this] at hlt
        exact Nat.div_lt_of_lt_mul (by omega)
      obtain ⟨ds, b', hrun, hp', hbody, hsep, hne, hall, hlen, hval, _, _, hhead⟩ :=
        ih n' (j / 10) { b with post := digitChar upper (r : ℤ) :: b.post } hk1 (by omega) hlt' (by omega)
          (L.small_down hs (by exact_mod_cast Nat.div_le_self j 10)) (by simp; omega) (by rw [used_putPost]; omega)
      have hh := hhead (by omega)
      have hhead' : (ds ++ [digitChar upper (r : ℤ)]).head? ≠ some '0' := by
        cases ds with
        | nil => exact absurd rfl hne
        | cons a t => simpa using hh
      refine ⟨ds ++ [digitChar upper (r : ℤ)], b', hrun, by rw [hp']; simp, hbody, hsep, by simp, ?_,
        by simp; omega, ?_, Or.inr hhead', fun h => by omega, fun _ => hhead'⟩
      · simp [List.all_append, hall, cd]
      · rw [digVal_snoc, hval, cv']; omega

/-- `for (i = 0; i < sign_count; ++i) { *--str = digit(fp); fp = fp / base }`: exactly `n` digit characters -/
theorem fracLoop_shape (cfg : Cfg) (upper : Bool) : ∀ (n : ℕ) (m : ℚ) (b : Buf), 0 ≤ m → L.small m → b.used + n ≤ cfg.size →
    ∃ ds b', fracLoop (arithP rnd p) cfg upper n (.fin false m) b = .ok b' ∧ b'.body = ds ++ b.body ∧ b'.post = b.post ∧
      b'.sep = b.sep ∧ ds.length = n ∧ ds.all isDig = true ∧
      (∀ j : ℕ, m = j → 1 ≤ n → (ds.getLast? = some '0' ↔ j % 10 = 0)) := by
  intro n
  induction n with
  | zero => intro m b _ _ _; exact ⟨[], b, rfl, rfl, rfl, rfl, rfl, rfl, fun _ _ h => by omega⟩
  | succ n ih =>
    intro m b h0 hs hused
    unfold fracLoop
    obtain ⟨c, hc, hc0, hc9, _⟩ := digit_ok L p h0
    obtain ⟨cd, cn, cz, _⟩ := digitChar_props upper c hc0 hc9
    obtain ⟨w, hw, hw0, hws, _, _, _⟩ := div10_step L S p (s := false) h0 hs
    have hput : putBody cfg b (digitChar upper c) = .ok { b with body := digitChar upper c :: b.body } := by
      unfold putBody; rw [if_pos (by omega)]
    simp only [hc, hput, bind, Except.bind, hw, arithP_modf, modf_fin]
    obtain ⟨ds, b', hrun, hbody, hpost, hsep, hlen, hall, _⟩ :=
      ih (FV.flr w) { b with body := digitChar upper c :: b.body } (flr_nonneg hw0) (L.small_down hws (flr_le w))
        (by rw [used_putBody]; omega)
    refine ⟨ds ++ [digitChar upper c], b', hrun, by rw [hbody]; simp, hpost, hsep, by simp [hlen], ?_, ?_⟩
    · simp [List.all_append, hall, cd]
    · intro j hj _
      subst hj
      have hd := digit_natmod L p j
      rw [hc] at hd
      injection hd with hd
      simp only [List.getLast?_append, List.getLast?_singleton, Option.some_or, Option.some.injEq]
      rw [cz, hd]; omega

end
end Igris.C13
