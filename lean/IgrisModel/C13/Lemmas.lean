/- C13 helper lemmas: the emission blocks refine `specLayout`; a Hoare-style predicate
   `Good` ("does not fault, result satisfies P") pushed through every loop of print_f. -/
import IgrisModel.C13.Model
import IgrisModel.C13.Spec
import IgrisModel.C06.LemCount
namespace Igris.C13
open Igris.C06 (Ops NUL)

theorem emitN_ok {n : Int} {c : Char} {s : List Char} (h : emitN n c = .ok s) :
    0 ≤ n ∧ s = List.replicate n.toNat c := by
  unfold emitN at h
  split at h
  · simp at h; exact ⟨by omega, h.symm⟩
  · simp at h

theorem cstrlen_le (s : List Char) : cstrlen s ≤ s.length := by
  unfold cstrlen; exact (List.takeWhile_prefix _).length_le

theorem layout_spec {cfg : Cfg} {ops : Ops} {width : Int} {pfx : List Char} {b : Buf} {zl : Int}
    {out : List Char} {pc : Int} (hr : cfg.repaired = true)
    (h : layout cfg ops width pfx b zl = .ok (out, pc)) :
    0 ≤ zl ∧ out = specLayout ops width pfx b.body zl.toNat (b.post.take (cstrlen b.post)) ∧ pc = out.length := by
  unfold layout at h
  cases hz : ops.zero <;> cases hl : ops.left <;>
    simp [hz, hl, hr, bind, Except.bind, pure, Except.pure, emitN] at h
  all_goals
    have hm : 0 ≤ max (width - ↑pfx.length - ↑b.body.length - zl - ↑(cstrlen b.post)) 0 := Int.le_max_right ..
    by_cases hzl : 0 ≤ zl
    · simp [hm, hzl] at h
      obtain ⟨h1, h2⟩ := h
      subst h1 h2
      have hc := cstrlen_le b.post
      refine ⟨hzl, ?_, ?_⟩
      · simp [specLayout, hz, hl, List.length_take, Nat.min_eq_left hc]
        omega
      · simp [List.length_take, Nat.min_eq_left hc]; omega
    · simp [hm, hzl] at h

theorem toIntM_cases {α : Type} (A : Arith α) (x : α) :
    (∃ v, toIntM A x = .ok v) ∨ toIntM A x = .error .undef := by
  unfold toIntM; split <;> simp

@[simp] theorem used_putPost (b : Buf) (c : Char) : Buf.used { b with post := c :: b.post } = b.used + 1 := by
  simp [Buf.used]; omega
@[simp] theorem used_putBody (b : Buf) (c : Char) : Buf.used { b with body := c :: b.body } = b.used + 1 := by
  simp [Buf.used]; omega

/-- Hoare-style predicate: the computation does not fault, and its result satisfies `P` -/
def Good {β : Type} (P : β → Prop) : M β → Prop
  | .ok v => P v
  | .error e => e ≠ .fault

@[simp] theorem good_ok {β : Type} (P : β → Prop) (v : β) : Good P (.ok v : M β) ↔ P v := Iff.rfl
@[simp] theorem good_pure {β : Type} (P : β → Prop) (v : β) : Good P (pure v : M β) ↔ P v := Iff.rfl
@[simp] theorem good_error {β : Type} (P : β → Prop) (e : Err) : Good P (.error e : M β) ↔ e ≠ .fault := Iff.rfl
@[simp] theorem good_throw {β : Type} (P : β → Prop) (e : Err) : Good P (throw e : M β) ↔ e ≠ .fault := Iff.rfl

theorem Good.bind {β γ : Type} {m : M β} {f : β → M γ} {Q : β → Prop} {P : γ → Prop}
    (hm : Good Q m) (hf : ∀ v, Q v → Good P (f v)) : Good P (m >>= f) := by
  cases m with
  | ok v => exact hf v hm
  | error e => exact hm

theorem Good.mono {β : Type} {m : M β} {Q P : β → Prop} (hm : Good Q m) (h : ∀ v, Q v → P v) : Good P m := by
  cases m with
  | ok v => exact h v hm
  | error e => exact hm

theorem good_toIntM {α : Type} (A : Arith α) (x : α) : Good (fun _ => True) (toIntM A x) := by
  unfold toIntM; split <;> simp

theorem good_putPost {cfg : Cfg} {b : Buf} (c : Char) (h : b.used < cfg.size) :
    Good (fun b' => b' = { b with post := c :: b.post }) (putPost cfg b c) := by
  simp [putPost, h]

theorem good_putBody {cfg : Cfg} {b : Buf} (c : Char) (h : b.used < cfg.size) :
    Good (fun b' => b' = { b with body := c :: b.body }) (putBody cfg b c) := by
  simp [putBody, h]

theorem expLoop_safe {α : Type} (A : Arith α) (cfg : Cfg) (upper : Bool) (hr : cfg.repaired = true) :
    ∀ (n : Nat) (ep : α) (b : Buf), 1 ≤ n → cfg.expMax ≤ b.post.length + n → b.used + n ≤ cfg.size →
      Good (fun r => r.2.sep = b.sep ∧ r.2.body = b.body ∧ r.2.post.length ≤ b.post.length + n)
        (expLoop A cfg upper n ep b) := by
  intro n
  induction n with
  | zero => intro ep b h; omega
  | succ n ih =>
    intro ep b _ h2 h3
    unfold expLoop
    refine (good_toIntM A _).bind fun v _ => ?_
    refine (good_putPost (digitChar upper v) (by omega)).bind fun b' hb' => ?_
    subst hb'
    dsimp only
    split
    · rename_i hc
      simp [hr] at hc
      refine (ih _ _ (by omega) (by simp; omega) (by simp; omega)).mono ?_
      intro r hr'
      simp at hr'
      refine ⟨hr'.1, hr'.2.1, by omega⟩
    · simp

theorem fracLoop_safe {α : Type} (A : Arith α) (cfg : Cfg) (upper : Bool) :
    ∀ (n : Nat) (fp : α) (b : Buf), b.used + n ≤ cfg.size →
      Good (fun b' => b'.sep = b.sep ∧ b'.post = b.post ∧ b'.used = b.used + n) (fracLoop A cfg upper n fp b) := by
  intro n
  induction n with
  | zero => intro fp b _; simp [fracLoop]
  | succ n ih =>
    intro fp b h
    unfold fracLoop
    refine (good_toIntM A _).bind fun v _ => ?_
    refine (good_putBody (digitChar upper v) (by omega)).bind fun b' hb' => ?_
    subst hb'
    refine (ih _ _ (by simp; omega)).mono ?_
    intro r hr'
    simp at hr'
    refine ⟨hr'.1, hr'.2.1, by omega⟩

theorem intLoop_safe {α : Type} (A : Arith α) (cfg : Cfg) (upper : Bool) (hr : cfg.repaired = true) :
    ∀ (n : Nat) (ip : α) (b : Buf), b.used < cfg.size → cfg.size < b.used + n →
      Good (fun b' => b'.sep = b.sep ∧ b'.post = b.post) (intLoop A cfg upper n ip b) := by
  intro n
  induction n with
  | zero => intro ip b h1 h2; omega
  | succ n ih =>
    intro ip b h1 h2
    unfold intLoop
    refine (good_toIntM A _).bind fun v _ => ?_
    refine (good_putBody (digitChar upper v) h1).bind fun b' hb' => ?_
    subst hb'
    dsimp only
    split
    · rename_i hc
      simp [hr] at hc
      refine (ih _ _ (by simpa using hc.2) (by simp; omega)).mono ?_
      intro r hr'
      simpa using hr'
    · simp

theorem good_emitN (n : Int) (c : Char) : Good (fun _ => True) (emitN n c) := by
  unfold emitN; split <;> simp

theorem good_normDown {α : Type} (A : Arith α) : ∀ (n : Nat) (ip fp ep : α),
    Good (fun _ => True) (normDown A n ip fp ep) := by
  intro n
  induction n with
  | zero => intro ip fp ep; unfold normDown; split <;> simp
  | succ n ih => intro ip fp ep; unfold normDown; split <;> simp [ih]

theorem good_normUp {α : Type} (A : Arith α) : ∀ (n : Nat) (ip fp ep : α),
    Good (fun _ => True) (normUp A n ip fp ep) := by
  intro n
  induction n with
  | zero => intro ip fp ep; unfold normUp; split <;> simp
  | succ n ih => intro ip fp ep; unfold normUp; split <;> simp [ih]

theorem scaleLoop_le {α : Type} (A : Arith α) : ∀ (n sc : Nat) (fp : α), (scaleLoop A n sc fp).1 ≤ sc + n := by
  intro n
  induction n with
  | zero => intro sc fp; simp [scaleLoop]
  | succ n ih =>
    intro sc fp
    unfold scaleLoop
    split
    · have := ih (sc + 1) (A.mul fp A.ten); omega
    · simp

theorem stripLoop_le {α : Type} (A : Arith α) : ∀ (sc : Nat) (fp : α), (stripLoop A sc fp).1 ≤ sc := by
  intro sc
  induction sc with
  | zero => intro fp; simp [stripLoop]
  | succ n ih =>
    intro fp
    unfold stripLoop
    split
    · have := ih (A.div fp A.ten); omega
    · simp

theorem good_layout (cfg : Cfg) (ops : Ops) (width : Int) (pfx : List Char) (b : Buf) (zl : Int) :
    Good (fun _ => True) (layout cfg ops width pfx b zl) := by
  unfold layout
  refine Good.bind (Q := fun _ => True) ?_ (fun _ _ => ?_)
  · split
    · exact (good_emitN _ _).bind (fun _ _ => by simp)
    · simp
  · refine Good.bind (Q := fun _ => True) ?_ (fun _ _ => ?_)
    · split
      · exact (good_emitN _ _).bind (fun _ _ => by simp)
      · simp
    · refine (good_emitN _ _).bind (fun _ _ => ?_)
      split
      · exact (good_emitN _ _).bind (fun _ _ => by simp)
      · simp

theorem good_digitsOf {α : Type} (A : Arith α) (cfg : Cfg) (hr : cfg.repaired = true) (fuel : Nat) (r : α)
    (precision : Int) (ops : Ops) (withExp isShort : Bool) :
    Good (fun d => d.signCount ≤ cfg.fracMax ∧ (d.signCount : Int) ≤ max d.precision 0)
      (digitsOf A cfg fuel r precision ops withExp isShort) := by
  unfold digitsOf
  dsimp only
  refine Good.bind (Q := fun _ => True) ?_ (fun q _ => ?_)
  · split
    · refine (good_normDown A _ _ _ _).bind (fun _ _ => ?_)
      refine Good.bind (Q := fun _ => True) ?_ (fun _ _ => by simp)
      split
      · exact good_normUp A _ _ _ _
      · simp
    · simp
  · refine Good.bind (Q := fun _ => True) ?_ (fun p _ => ?_)
    · split
      · split
        · simp
        · exact (good_toIntM A _).bind (fun _ _ => by simp)
      · simp
    · simp only [hr, if_true, good_pure]
      have key : ∀ X : α, (scaleLoop A (min p.toNat cfg.fracMax) 0 X).1 ≤ min p.toNat cfg.fracMax :=
        fun X => by simpa using scaleLoop_le A (min p.toNat cfg.fracMax) 0 X
      by_cases hc : (true && isShort && !ops.spec) = true
      · simp only [hc, if_true]
        generalize (if q.2.2.snd = true then (q.2.fst, q.fst) else A.modf r).fst = X
        have h2 := key X
        generalize scaleLoop A (min p.toNat cfg.fracMax) 0 X = S at *
        have h1 := fun F => stripLoop_le A S.1 F
        constructor
        · exact Nat.le_trans (h1 _) (by omega)
        · have := h1 (if A.ne (A.round S.2) (A.pow 10 S.1) = true then A.round S.2 else A.zero)
          omega
      · simp only [hc]
        generalize (if q.2.2.snd = true then (q.2.fst, q.fst) else A.modf r).fst = X
        have h2 := key X
        simp only [Bool.false_eq_true, if_false]
        omega

/-- the buffer constants fit together -/
def Cfg.Fits (cfg : Cfg) : Prop := max cfg.expMax 1 + cfg.fracMax + 7 ≤ cfg.size

theorem good_fillBuf {α : Type} (A : Arith α) (cfg : Cfg) (hr : cfg.repaired = true) (hfit : cfg.Fits)
    (ops : Ops) (isShort : Bool) (d : Digits α) (hd : d.signCount ≤ cfg.fracMax) :
    Good (fun _ => True) (fillBuf A cfg ops isShort d) := by
  unfold Cfg.Fits at hfit
  unfold fillBuf
  have h0 : ¬ cfg.size = 0 := by omega
  simp only [h0, if_false, hr, if_true]
  · refine Good.bind (Q := fun b : Buf => b.body = [] ∧ b.used ≤ max cfg.expMax 1 + 5) ?_ (fun b hb => ?_)
    · split
      · refine (expLoop_safe A cfg ops.upper hr (max cfg.expMax 1) d.ep {} (by omega) (by simp; omega)
          (by simp [Buf.used]; omega)).bind (fun r hr1 => ?_)
        obtain ⟨ep, b⟩ := r
        obtain ⟨post, sep, body⟩ := b
        simp at hr1
        obtain ⟨h1, h2, hlen⟩ := hr1
        subst h1 h2
        refine Good.bind (Q := fun b' : Buf => b'.sep = false ∧ b'.body = [] ∧ b'.post.length ≤ 1 + max cfg.expMax 1) ?_ (fun b1 h1 => ?_)
        · split
          · refine (good_putPost '0' (by simp [Buf.used]; omega)).mono (fun b' hb' => ?_)
            subst hb'
            simp; omega
          · simp; omega
        · obtain ⟨post1, sep1, body1⟩ := b1
          simp at h1
          obtain ⟨h1a, h1b, h1c⟩ := h1
          subst h1a h1b
          refine (good_putPost _ (by simp [Buf.used]; omega)).bind (fun b2 h2 => ?_)
          subst h2
          refine (good_putPost _ (by simp [Buf.used]; omega)).bind (fun b3 h3 => ?_)
          subst h3
          rw [if_pos (by simp [Buf.used]; omega)]
          simp [Buf.used]
          omega
      · simp [Buf.used]
    · refine (fracLoop_safe A cfg ops.upper d.signCount d.fp b (by omega)).bind (fun b1 h1 => ?_)
      refine Good.bind (Q := fun b' : Buf => b'.used ≤ b1.used + 1) ?_ (fun b2 h2 => ?_)
      · split
        · refine (good_putBody '.' (by omega)).mono (fun b' hb' => ?_)
          subst hb'; simp
        · simp
      · have hb2 : 1 ≤ b2.used := by simp [Buf.used]; omega
        exact (intLoop_safe A cfg ops.upper hr (cfg.size + 1) d.ip b2 (by omega) (by omega)).mono (fun _ _ => trivial)

theorem strlen_terminated (l : List Char) : Igris.C06.strlen (l ++ [NUL]) ≠ none := by
  induction l with
  | nil => simp [Igris.C06.strlen]
  | cons c cs ih =>
    simp only [List.cons_append, Igris.C06.strlen]
    split
    · simp
    · cases h : Igris.C06.strlen (cs ++ [NUL]) with
      | none => exact absurd h ih
      | some n => simp

theorem good_nonFinite_aux (cfg : Cfg) (sgn txt : List Char) (width : Int) (o : Ops) (ho : o.prec = false) (hchr : o.chr = false)
    (h : sgn.length + 4 ≤ cfg.size) :
    Good (fun _ => True)
      (if sgn.length + 4 > cfg.size then (.error .fault : M (List Char × Int)) else
        match Igris.C06.printS (sgn ++ txt ++ [NUL]) width 0 o with
        | some r => .ok r
        | none => .error .fault) := by
  split
  · omega
  · split
    · simp
    · rename_i h2
      exfalso
      unfold Igris.C06.printS at h2
      simp only [ho, hchr, Bool.false_eq_true, if_false] at h2
      split at h2
      · rename_i h3
        exact strlen_terminated _ h3
      · simp at h2

theorem good_nonFinite {α : Type} (A : Arith α) (cfg : Cfg) (hs : 8 ≤ cfg.size) (r : α) (nanNeg : Bool) (width : Int) (ops : Ops) :
    Good (fun _ => True) (nonFinite A cfg r nanNeg width ops) := by
  unfold nonFinite
  refine good_nonFinite_aux cfg _ _ width _ rfl rfl ?_
  split <;> (try split) <;> (try split) <;> (try split) <;> (try simp) <;> omega

theorem good_printF {α : Type} (A : Arith α) (cfg : Cfg) (hr : cfg.repaired = true) (hfit : cfg.Fits) (fuel : Nat)
    (r : α) (nanNeg : Bool) (width precision : Int) (ops : Ops) (withExp isShort : Bool) :
    Good (fun _ => True) (printF A cfg fuel r nanNeg width precision ops withExp isShort) := by
  unfold printF
  split
  · exact good_nonFinite A cfg (by unfold Cfg.Fits at hfit; omega) r nanNeg width ops
  · split
    · rename_i h; simp [hr] at h
    · dsimp only
      refine (good_digitsOf A cfg hr fuel _ precision ops withExp isShort).bind (fun d hd => ?_)
      refine (good_fillBuf A cfg hr hfit ops isShort d hd.1).bind (fun b _ => ?_)
      exact good_layout ..

theorem cfgNow_fits : cfgNow.Fits := by unfold Cfg.Fits cfgNow; decide

/-- what a successful finite run of printF looks like -/
theorem printF_finite_ok {α : Type} {A : Arith α} {cfg : Cfg} (hr : cfg.repaired = true) {fuel : Nat}
    {r : α} {nanNeg : Bool} {width precision : Int} {ops : Ops} {withExp isShort : Bool} {out : List Char} {pc : Int}
    (hfin : (A.isnan r || A.isinf r) = false)
    (h : printF A cfg fuel r nanNeg width precision ops withExp isShort = .ok (out, pc)) :
    ∃ (d : Digits α) (b : Buf),
      digitsOf A cfg fuel (if A.signbit r then A.neg r else r) precision ops withExp isShort = .ok d ∧
      fillBuf A cfg ops isShort d = .ok b ∧
      layout cfg ops width (signText (A.signbit r) ops) b
        (if isShort && !ops.spec then 0 else d.precision - d.signCount) = .ok (out, pc) := by
  unfold printF at h
  simp only [hr, hfin, Bool.and_false, Bool.false_eq_true, if_false, Bool.not_true, Bool.false_and] at h
  cases hd : digitsOf A cfg fuel (if A.signbit r then A.neg r else r) precision ops withExp isShort with
  | error e => simp [hd, bind, Except.bind] at h
  | ok d =>
    cases hb : fillBuf A cfg ops isShort d with
    | error e => simp [hd, hb, bind, Except.bind] at h
    | ok b =>
      refine ⟨d, b, rfl, hb, ?_⟩
      simp only [hd, hb, bind, Except.bind] at h
      simpa [signText] using h

theorem nonFinite_aux_count (cfg : Cfg) (sgn txt : List Char) (width : Int) (o : Ops) (out : List Char) (pc : Int)
    (h : (if sgn.length + 4 > cfg.size then (.error .fault : M (List Char × Int)) else
            match Igris.C06.printS (sgn ++ txt ++ [NUL]) width 0 o with
            | some r => .ok r
            | none => .error .fault) = .ok (out, pc)) : pc = out.length := by
  by_cases hc : sgn.length + 4 > cfg.size
  · simp [hc] at h
  · simp only [hc, if_false] at h
    cases hp : Igris.C06.printS (sgn ++ txt ++ [NUL]) width 0 o with
    | none => rw [hp] at h; simp at h
    | some r' =>
      obtain ⟨o', p'⟩ := r'
      rw [hp] at h
      simp at h
      obtain ⟨h1, h2⟩ := h
      subst h1 h2
      exact Igris.C06.printS_count hp


theorem nonFinite_aux_total (cfg : Cfg) (sgn txt : List Char) (width : Int) (o : Ops) (ho : o.prec = false) (hchr : o.chr = false)
    (h : sgn.length + 4 ≤ cfg.size) :
    ∃ v, (if sgn.length + 4 > cfg.size then (.error .fault : M (List Char × Int)) else
        match Igris.C06.printS (sgn ++ txt ++ [NUL]) width 0 o with
        | some r => .ok r
        | none => .error .fault) = .ok v := by
  have hc : ¬ sgn.length + 4 > cfg.size := by omega
  simp only [hc, if_false]
  cases hp : Igris.C06.printS (sgn ++ txt ++ [NUL]) width 0 o with
  | some r => exact ⟨r, rfl⟩
  | none =>
    exfalso
    unfold Igris.C06.printS at hp
    simp only [ho, hchr, Bool.false_eq_true, if_false] at hp
    split at hp
    · rename_i h3
      exact strlen_terminated _ h3
    · simp at hp

theorem nonFinite_total {α : Type} (A : Arith α) (cfg : Cfg) (hs : 8 ≤ cfg.size) (r : α) (nanNeg : Bool) (width : Int) (ops : Ops) :
    ∃ v, nonFinite A cfg r nanNeg width ops = .ok v := by
  unfold nonFinite
  refine nonFinite_aux_total cfg _ _ width _ rfl rfl ?_
  split <;> (try split) <;> (try split) <;> (try split) <;> (try simp) <;> omega

/-- `while (ip >= base)` of the original code on +inf: `ip` stays +inf -/
theorem normDown_inf : ∀ (n : Nat) (ep : FV), normDown exactA n (.inf false) (.fin false 0) ep = .error .diverged := by
  have h1 : exactA.ge (.inf false) exactA.ten = true := by decide +kernel
  have h2 : exactA.modf (exactA.div (exactA.add (.inf false) (.fin false 0)) exactA.ten) = (.fin false 0, .inf false) := by
    decide +kernel
  intro n
  induction n with
  | zero => intro ep; simp [normDown, h1]
  | succ n ih => intro ep; simp only [normDown, h1, if_true, h2]; exact ih _
end Igris.C13
