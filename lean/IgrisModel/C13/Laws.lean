/-
  C13 — the laws of a rounding (`Lawful`), stated as hypotheses of the instance class, the
  two instances (exact arithmetic; the software binary64 `rnd64`), and what they give for
  the operations of `FV` that `print_f` uses.
-/
import IgrisModel.C13.Round
import IgrisModel.C13.Lemmas
namespace Igris.C13

/-- what `print_f` needs from a rounding of non-negative magnitudes -/
structure Lawful (rnd : Rounding) where
  /-- magnitudes that do not overflow -/
  small : ℚ → Prop
  /-- relative / absolute error of one rounding -/
  u : ℚ
  d : ℚ
  hu0 : 0 ≤ u
  hu : u ≤ 1 / 8
  hd0 : 0 ≤ d
  hd : d ≤ 1 / 8
  nonneg : ∀ {q v}, 0 ≤ q → rnd q = some v → 0 ≤ v
  nat_exact : ∀ n : ℕ, n ≤ 2 ^ 53 → rnd (n : ℚ) = some (n : ℚ)
  small_down : ∀ {q q'}, small q → q' ≤ q → small q'
  rnd_small : ∀ {q}, small q → ∃ v, rnd q = some v
  rep_succ_small : ∀ {q v}, rnd q = some v → small (v + 1)
  nonint_small : ∀ {v}, rnd v = some v → ((v.floor : ℤ) : ℚ) ≠ v → small (12 * v + 32)
  idem : ∀ {q v}, rnd q = some v → rnd v = some v
  rep_frac : ∀ {v}, 0 ≤ v → rnd v = some v → rnd (v - ((v.floor : ℤ) : ℚ)) = some (v - ((v.floor : ℤ) : ℚ))
  rel : ∀ {q v}, 0 < q → rnd q = some v → |v - q| ≤ max (q * u) d
  rep_tiny : ∀ {v}, 0 ≤ v → rnd v = some v → v = 0 ∨ 2 * d ≤ v

/-- exact arithmetic is lawful -/
def lawfulExact : Lawful (some : Rounding) where
  small := fun _ => True
  u := 0
  d := 0
  hu0 := le_refl _
  hu := by norm_num
  hd0 := le_refl _
  hd := by norm_num
  nonneg := by intro q v hq h; simp at h; subst h; exact hq
  nat_exact := fun _ _ => rfl
  small_down := fun _ _ => trivial
  rnd_small := fun _ => ⟨_, rfl⟩
  rep_succ_small := fun _ => trivial
  nonint_small := fun _ _ => trivial
  idem := fun _ => rfl
  rep_frac := fun _ _ => rfl
  rel := by intro q v _ h; simp at h; subst h; simp
  rep_tiny := by intro v hv _; right; linarith

theorem pow2_zero : pow2 0 = 1 := by rw [pow2_eq]; simp

/-- the software binary64 rounding is lawful: error ≤ max(q·2^-53, 2^-1075) -/
def lawful64 : Lawful rnd64 where
  small := fun q => q < pow2 1024 - pow2 970
  u := pow2 (-53)
  d := pow2 (-1075)
  hu0 := le_of_lt (pow2_pos _)
  hu := by
    have : pow2 (-53) ≤ pow2 (-3) := pow2_mono (by norm_num)
    have e : pow2 (-3) = 1 / 8 := by rw [pow2_eq]; norm_num
    linarith
  hd0 := le_of_lt (pow2_pos _)
  hd := by
    have : pow2 (-1075) ≤ pow2 (-3) := pow2_mono (by norm_num)
    have e : pow2 (-3) = 1 / 8 := by rw [pow2_eq]; norm_num
    linarith
  nonneg := fun _ h => rnd64_nonneg h
  nat_exact := by
    intro n hn
    have := rnd64_fix (k := n) (E := 0) hn (by norm_num) (by
      rw [pow2_zero, mul_one]
      have h1 : (n : ℚ) ≤ 2 ^ 53 := by exact_mod_cast hn
      have h2 : pow2 53 < pow2 1024 := pow2_lt (by norm_num)
      rw [pow2_53] at h2
      linarith)
    simpa [pow2_zero] using this
  small_down := fun h h' => lt_of_le_of_lt h' h
  rnd_small := by
    intro q hs
    by_cases hq : 0 < q
    · rw [rnd64_eq hq]
      have hlt : ¬ (sig64 q : ℚ) * pow2 (ulpExp q) ≥ pow2 1024 := by
        intro hge
        obtain ⟨a, b⟩ := ilog2_spec hq
        have h970 : (0:ℚ) < pow2 970 := pow2_pos _
        have hlog : ilog2 q ≤ 1023 := by
          by_contra hc
          have : pow2 1024 ≤ pow2 (ilog2 q) := pow2_mono (by omega)
          linarith
        have hE : pow2 (ulpExp q) ≤ pow2 971 := pow2_mono (by unfold ulpExp; omega)
        have h971 : pow2 971 = 2 * pow2 970 := by
          have : (971 : ℤ) = 970 + 1 := by norm_num
          rw [this, pow2_succ]
        have hn := sig64_near q
        rw [abs_le] at hn
        have hp := pow2_pos (ulpExp q)
        have : (sig64 q : ℚ) * pow2 (ulpExp q) ≤ q + pow2 (ulpExp q) / 2 := by
          have h1 : (sig64 q : ℚ) ≤ q / pow2 (ulpExp q) + 1 / 2 := by linarith [hn.2]
          calc (sig64 q : ℚ) * pow2 (ulpExp q) ≤ (q / pow2 (ulpExp q) + 1 / 2) * pow2 (ulpExp q) :=
                mul_le_mul_of_nonneg_right h1 (le_of_lt hp)
            _ = q + pow2 (ulpExp q) / 2 := by field_simp
        linarith
      simp only [hlt, if_false]
      exact ⟨_, rfl⟩
    · exact ⟨0, by unfold rnd64; simp [not_lt.mp hq]⟩
  rep_succ_small := by
    intro q v h
    show v + 1 < pow2 1024 - pow2 970
    by_cases hq : 0 < q
    · obtain ⟨k, hk, hv, hlt⟩ := rnd64_form hq h
      have h970 : (1 : ℚ) < pow2 970 := by
        have : pow2 0 < pow2 970 := pow2_lt (by norm_num)
        rwa [pow2_zero] at this
      have h971 : pow2 971 = 2 * pow2 970 := by
        have : (971 : ℤ) = 970 + 1 := by norm_num
        rw [this, pow2_succ]
      by_cases hE : ulpExp q ≤ 970
      · have : v ≤ pow2 1023 := by
          rw [hv]
          have h1 : (k : ℚ) ≤ 2 ^ 53 := by exact_mod_cast hk
          have h2 : pow2 (ulpExp q) ≤ pow2 970 := pow2_mono hE
          have h3 : pow2 1023 = 2 ^ 53 * pow2 970 := by
            have : (1023 : ℤ) = 53 + 970 := by norm_num
            rw [this, pow2_add, pow2_53]
          rw [h3]
          exact mul_le_mul h1 h2 (le_of_lt (pow2_pos _)) (by positivity)
        have h4 : pow2 1024 = 2 * pow2 1023 := by
          have : (1024 : ℤ) = 1023 + 1 := by norm_num
          rw [this, pow2_succ]
        have h5 : pow2 971 ≤ pow2 1023 := pow2_mono (by norm_num)
        linarith
      · -- v is a multiple of 2^971 below 2^1024
        obtain ⟨dd, hdd⟩ := Int.eq_ofNat_of_zero_le (show 0 ≤ ulpExp q - 971 by omega)
        have hsplit : pow2 (ulpExp q) = pow2 971 * 2 ^ dd := by
          have : ulpExp q = 971 + (dd : ℤ) := by omega
          rw [this, pow2_add, pow2_nat]
        have hv' : v = ((k * 2 ^ dd : ℕ) : ℚ) * pow2 971 := by rw [hv, hsplit]; push_cast; ring
        have h1024 : pow2 1024 = 2 ^ 53 * pow2 971 := by
          have : (1024 : ℤ) = 53 + 971 := by norm_num
          rw [this, pow2_add, pow2_53]
        have hj : ((k * 2 ^ dd : ℕ) : ℚ) < 2 ^ 53 := by
          rw [hv', h1024] at hlt
          exact lt_of_mul_lt_mul_right hlt (le_of_lt (pow2_pos _))
        have hj' : k * 2 ^ dd < 2 ^ 53 := by exact_mod_cast hj
        have hj'' : ((k * 2 ^ dd : ℕ) : ℚ) ≤ 2 ^ 53 - 1 := by
          have : k * 2 ^ dd + 1 ≤ 2 ^ 53 := hj'
          have : ((k * 2 ^ dd + 1 : ℕ) : ℚ) ≤ ((2 ^ 53 : ℕ) : ℚ) := by exact_mod_cast this
          push_cast at this ⊢
          linarith
        have : v ≤ (2 ^ 53 - 1) * pow2 971 := by
          rw [hv']; exact mul_le_mul_of_nonneg_right hj'' (le_of_lt (pow2_pos _))
        rw [h1024]
        nlinarith [pow2_pos 970]
    · unfold rnd64 at h
      simp only [not_lt.mp hq, if_true] at h
      simp at h; subst h
      have h1 : pow2 971 < pow2 1024 := pow2_lt (by norm_num)
      have h971 : pow2 971 = 2 * pow2 970 := by
        have : (971 : ℤ) = 970 + 1 := by norm_num
        rw [this, pow2_succ]
      have h970 : (1 : ℚ) < pow2 970 := by
        have : pow2 0 < pow2 970 := pow2_lt (by norm_num)
        rwa [pow2_zero] at this
      linarith
  nonint_small := by
    intro v h hni
    show 12 * v + 32 < pow2 1024 - pow2 970
    have hv0 : 0 ≤ v := by
      by_contra hc
      unfold rnd64 at h
      simp only [le_of_lt (not_le.mp hc), if_true] at h
      simp at h
      rw [← h] at hc; exact hc (le_refl _)
    have hvp : 0 < v := by
      rcases lt_or_eq_of_le hv0 with h' | h'
      · exact h'
      · exfalso; apply hni; rw [← h']
        have : (0 : ℚ).floor = 0 := by exact_mod_cast Rat.floor_intCast 0
        rw [this]; simp
    obtain ⟨k, hk, hv, _⟩ := rnd64_form hvp h
    have hEneg : ulpExp v < 0 := by
      by_contra hc
      obtain ⟨n, hn⟩ := Int.eq_ofNat_of_zero_le (not_lt.mp hc)
      apply hni
      have : v = ((k * 2 ^ n : ℕ) : ℚ) := by rw [hv, hn, pow2_nat]; push_cast; ring
      rw [this]
      exact_mod_cast Rat.floor_intCast ((k * 2 ^ n : ℕ) : ℤ)
    obtain ⟨a, b⟩ := ilog2_spec hvp
    have hlog : ilog2 v + 1 ≤ 52 := by unfold ulpExp at hEneg; omega
    have h52 : v < pow2 52 := lt_of_lt_of_le b (pow2_mono hlog)
    have h56 : pow2 56 = 16 * pow2 52 := by
      have : (56 : ℤ) = 4 + 52 := by norm_num
      have h4 : pow2 4 = 16 := by rw [pow2_eq]; norm_num
      rw [this, pow2_add, h4]
    have h1 : pow2 57 ≤ pow2 970 := pow2_mono (by norm_num)
    have h2 : pow2 57 = 2 * pow2 56 := by
      have : (57 : ℤ) = 56 + 1 := by norm_num
      rw [this, pow2_succ]
    have h3 : pow2 1024 = 2 * pow2 1023 := by
      have : (1024 : ℤ) = 1023 + 1 := by norm_num
      rw [this, pow2_succ]
    have h4 : pow2 970 < pow2 1023 := pow2_lt (by norm_num)
    have h52' : (32 : ℚ) ≤ pow2 52 := by
      have : pow2 5 ≤ pow2 52 := pow2_mono (by norm_num)
      have h4 : pow2 5 = 32 := by rw [pow2_eq]; norm_num
      linarith
    linarith
  idem := by
    intro q v h
    by_cases hq : 0 < q
    · obtain ⟨k, hk, hv, hlt⟩ := rnd64_form hq h
      rw [hv]
      exact rnd64_fix hk (by unfold ulpExp; omega) (by rw [← hv]; exact hlt)
    · unfold rnd64 at h
      simp only [not_lt.mp hq, if_true] at h
      simp at h; subst h; simp [rnd64]
  rep_frac := by
    intro v hv0 h
    rcases lt_or_eq_of_le hv0 with hvp | h0
    · obtain ⟨k, hk, hv, hlt⟩ := rnd64_form hvp h
      by_cases hE : 0 ≤ ulpExp v
      · obtain ⟨n, hn⟩ := Int.eq_ofNat_of_zero_le hE
        have hvi : v = ((k * 2 ^ n : ℕ) : ℚ) := by rw [hv, hn, pow2_nat]; push_cast; ring
        have : ((v.floor : ℤ) : ℚ) = v := by
          rw [hvi]; exact_mod_cast Rat.floor_intCast ((k * 2 ^ n : ℕ) : ℤ)
        rw [this, sub_self]; simp [rnd64]
      · obtain ⟨n, hn⟩ := Int.eq_ofNat_of_zero_le (show 0 ≤ -ulpExp v by omega)
        have hE' : ulpExp v = -(n : ℤ) := by omega
        have hp2 : pow2 (ulpExp v) = 1 / ((2 ^ n : ℕ) : ℚ) := by
          rw [hE', pow2_eq, zpow_neg]; simp
        have hvd : v = (k : ℚ) / ((2 ^ n : ℕ) : ℚ) := by rw [hv, hp2]; ring
        have hfl : v.floor = ((k / 2 ^ n : ℕ) : ℤ) := by
          rw [hvd, ratFloor_eq, Rat.floor_natCast_div_natCast]; norm_cast
        have hflq : ((v.floor : ℤ) : ℚ) = ((k / 2 ^ n : ℕ) : ℚ) := by rw [hfl, Int.cast_natCast]
        have hpos : (0 : ℚ) < ((2 ^ n : ℕ) : ℚ) := by positivity
        have hfrac : v - ((v.floor : ℤ) : ℚ) = ((k % 2 ^ n : ℕ) : ℚ) * pow2 (ulpExp v) := by
          rw [hflq, hp2]
          have hdm := Nat.div_add_mod k (2 ^ n)
          have hk' : (k : ℚ) = ((2 ^ n : ℕ) : ℚ) * ((k / 2 ^ n : ℕ) : ℚ) + ((k % 2 ^ n : ℕ) : ℚ) := by
            exact_mod_cast hdm.symm
          generalize ((k / 2 ^ n : ℕ) : ℚ) = a at hk' ⊢
          generalize ((k % 2 ^ n : ℕ) : ℚ) = b at hk' ⊢
          generalize ((2 ^ n : ℕ) : ℚ) = D at hk' hpos hvd ⊢
          rw [hvd, hk']
          field_simp
          ring
        rw [hfrac]
        refine rnd64_fix (le_trans (Nat.mod_le _ _) hk) (by unfold ulpExp; omega) ?_
        rw [← hfrac]
        have : ((v.floor : ℤ) : ℚ) ≥ 0 := by
          have : (0 : ℤ) ≤ v.floor := Rat.le_floor_iff.mpr (by exact_mod_cast hv0)
          exact_mod_cast this
        linarith
    · rw [← h0]
      have : (0 : ℚ).floor = 0 := by exact_mod_cast Rat.floor_intCast 0
      rw [this]; simp [rnd64]
  rel := fun hq h => rnd64_abs hq h
  rep_tiny := by
    intro v hv0 h
    rcases lt_or_eq_of_le hv0 with hvp | h0
    · right
      obtain ⟨k, hk, hv, _⟩ := rnd64_form hvp h
      have hk0 : k ≠ 0 := by intro hk0; rw [hk0] at hv; simp at hv; linarith
      have hk1 : (1 : ℚ) ≤ k := by exact_mod_cast Nat.one_le_iff_ne_zero.mpr hk0
      have hE : pow2 (-1074) ≤ pow2 (ulpExp v) := pow2_mono (by unfold ulpExp; omega)
      have h2 : 2 * pow2 (-1075) = pow2 (-1074) := by
        have : (-1074 : ℤ) = -1075 + 1 := by norm_num
        rw [this, pow2_succ]
      rw [h2, hv]
      have hp := pow2_pos (ulpExp v)
      nlinarith
    · left; exact h0.symm

end Igris.C13
