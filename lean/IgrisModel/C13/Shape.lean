/-
  C13 — the SHAPE that ISO C 7.21.6.1 prescribes for the text of an f/F/e/E/g/G conversion
  of a finite value, as a decidable predicate on the emitted characters, given the
  directive (conversion, flags, width, precision) and the sign of the argument.

  It is written independently of the model's control flow and of its intermediate values
  (`digitsOf`, `fillBuf`): it only PARSES the text.  The same predicate is re-implemented in
  C++ in the harness (`iso_shape`), where it judges the output of the real code and of
  glibc; the `sh` ops of the correspondence stream compare the two implementations on
  glibc texts and on mutated texts.  Core Lean only (the driver evaluates it).

  7.21.6.1: flags `-` (left-justify), `+`/space (sign of a non-negative value), `#` (always
  a decimal point; `g`: trailing zeros kept), `0` (leading zeros after the sign pad to the
  width; ignored with `-`); f,F: `[-]ddd.ddd`, at least one digit before the point, exactly
  `precision` digits after it, no point if the precision is 0 and no `#`; e,E: `[-]d.ddde±dd`,
  one digit before the point — nonzero if the value is nonzero —, `precision` digits after it,
  the exponent has at least two digits and only as many more as necessary, a zero value has
  exponent 0; g,G: P = precision (6 if omitted, 1 if 0), X = the exponent an e conversion
  would have: style f with precision P-1-X if P > X ≥ -4, else style e with precision P-1;
  without `#` trailing zeros of the fraction are removed, and the point if no fraction remains.
-/
import IgrisModel.C13.Spec
namespace Igris.C13
open Igris.C06 (Ops)

inductive Conv | f | e | g
  deriving DecidableEq, Repr

def isDig (c : Char) : Bool := decide (48 ≤ c.toNat) && decide (c.toNat ≤ 57)

/-- value of a string of decimal digits -/
def digVal (l : List Char) : Nat := l.foldl (fun a c => a * 10 + (c.toNat - 48)) 0

/-- the exponent part `e±dd`: letter of the right case, a sign, at least two digits and no more
than necessary, no `-00`; the value of the exponent -/
def expShape (upper : Bool) (t : List Char) : Option Int :=
  match t with
  | c :: s :: ds =>
    if c = (if upper then 'E' else 'e') && (s = '+' || s = '-') && ds.all isDig && decide (2 ≤ ds.length)
        && (decide (ds.length = 2) || ds.head? != some '0') && !(s = '-' && ds.all (· = '0'))
    then some (if s = '-' then -(digVal ds : Int) else (digVal ds : Int)) else none
  | _ => none

/-- a number text cut into integer digits, point, fraction digits and the rest -/
structure NumParts where
  intd : List Char
  dot : Bool
  frac : List Char
  rest : List Char
  deriving DecidableEq, Repr

def splitNum (num : List Char) : NumParts :=
  match num.dropWhile isDig with
  | '.' :: r => { intd := num.takeWhile isDig, dot := true, frac := r.takeWhile isDig, rest := r.dropWhile isDig }
  | r => { intd := num.takeWhile isDig, dot := false, frac := [], rest := r }

/-- decimal exponent of the value a style-f text denotes (0 for a zero value): position of its
first nonzero digit -/
def textExp (intd frac : List Char) : Int :=
  if intd ≠ ['0'] then (intd.length : Int) - 1
  else if frac.all (· = '0') then 0
  else -((frac.takeWhile (· = '0')).length : Int) - 1

/-- the unsigned, unpadded number text of the conversion; `P` = the precision in force -/
def numShape (conv : Conv) (hash upper : Bool) (P : Nat) (num : List Char) : Bool :=
  let n := splitNum num
  -- at least one integer digit, no superfluous leading zero
  !n.intd.isEmpty && (decide (n.intd.length = 1) || n.intd.head? != some '0') &&
  match conv with
  | .f =>
    n.rest.isEmpty && decide (n.frac.length = P) && (n.dot == (decide (0 < P) || hash))
  | .e =>
    decide (n.intd.length = 1) && decide (n.frac.length = P) && (n.dot == (decide (0 < P) || hash)) &&
    match expShape upper n.rest with
    | some X => n.intd != ['0'] || (n.frac.all (· = '0') && decide (X = 0))
    | none => false
  | .g =>
    let Pg : Int := if P = 0 then 1 else P
    -- `#`: the point is always there; otherwise no bare point and no trailing zero
    (if hash then n.dot else (!n.dot || !n.frac.isEmpty) && n.frac.getLast? != some '0') &&
    (if n.rest.isEmpty then
      -- style f: P > X ≥ -4, precision P - 1 - X (fewer digits only by zero removal)
      let X := textExp n.intd n.frac
      decide (-4 ≤ X) && decide (X < Pg) &&
      (if hash then decide ((n.frac.length : Int) = Pg - 1 - X) else decide ((n.frac.length : Int) ≤ Pg - 1 - X))
    else
      -- style e: X < -4 or X ≥ P, precision P - 1; a zero value is never printed in this style
      decide (n.intd.length = 1) && n.intd != ['0'] &&
      match expShape upper n.rest with
      | some X => (decide (X < -4) || decide (Pg ≤ X)) &&
          (if hash then decide ((n.frac.length : Int) = Pg - 1) else decide ((n.frac.length : Int) ≤ Pg - 1))
      | none => false)

/-- the precision in force: the given one, else 6 -/
def effPrec (ops : Ops) (precision : Int) : Nat := if ops.prec then precision.toNat else 6

/-- with `pad` padding characters: the text is sign, padding and number in the order the flags
prescribe, its length is max(width, length without padding) -/
def shapeWith (conv : Conv) (ops : Ops) (width precision : Int) (neg : Bool) (out : List Char) (pad : Nat) : Bool :=
  let sign := signText neg ops
  let numLen := out.length - pad - sign.length
  decide (pad + sign.length ≤ out.length) &&
  (decide (pad = 0) || decide ((out.length : Int) = width)) && decide (width ≤ (out.length : Int)) &&
  (if ops.left then
    let num := (out.drop sign.length).take numLen
    out == sign ++ num ++ List.replicate pad ' ' && numShape conv ops.spec ops.upper (effPrec ops precision) num
  else if ops.zero then
    let num := out.drop (sign.length + pad)
    out == sign ++ List.replicate pad '0' ++ num && numShape conv ops.spec ops.upper (effPrec ops precision) num
  else
    let num := out.drop (pad + sign.length)
    out == List.replicate pad ' ' ++ sign ++ num && numShape conv ops.spec ops.upper (effPrec ops precision) num)

/-- **the ISO shape predicate**: some amount of padding makes the text well-formed -/
def isoShape (conv : Conv) (ops : Ops) (width precision : Int) (neg : Bool) (out : List Char) : Bool :=
  (List.range (out.length + 1)).any (shapeWith conv ops width precision neg out)

end Igris.C13
