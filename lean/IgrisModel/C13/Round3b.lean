/-
  C13, round 3b — ONE definition of "the first half of `digitsOf`" (core Lean only).

  `tieSeen` (Tie.lean) was written as a second copy of the lines of `digitsOf` up to the fraction scaling loop.
  `digitsPre` is that first half as a definition of its own, `digitsPost` the (pure) second half; the theorems
  `digitsOf_eq_pre` and `tieSeen_eq_pre` show that BOTH `digitsOf` and `tieSeen` are functions of `digitsPre`:
  the value `tieSeen` tests is exactly the value `digitsOf` hands to `roundl`.
-/
import IgrisModel.C13.Tie
namespace Igris.C13
open Igris.C06 (Ops)

/-- the state of print_f just before `fp = roundl(fp)` -/
structure Pre (α : Type) where
  ip : α
  fp : α            -- the scaled fraction handed to `roundl`
  ep : α
  withExp : Bool
  precision : Int   -- after `precision -= is_shortened ? … : 0`
  signCount : Nat

/-- the lines of `digitsOf` up to and including the fraction scaling loop -/
def digitsPre {α : Type} (A : Arith α) (cfg : Cfg) (fuel : Nat) (r : α) (precision : Int) (ops : Ops)
    (withExp isShort : Bool) : M (Pre α) := do
  let precision : Int := if ops.prec then (if isShort then max precision 1 else precision) else 6
  let (fp, ip) := A.modf r
  let (ip, fp, ep, withExp) ←
    (if withExp || isShort then do
        let (ip, fp, ep) ← normDown A fuel ip fp A.zero
        let (ip, fp, ep) ← (if A.ne fp A.zero then normUp A fuel ip fp ep else pure (ip, fp, ep))
        let withExp := if A.lt ep (A.ofInt (-4)) || A.ge ep (A.ofInt precision) then true else withExp
        pure (ip, fp, ep, withExp)
      else pure (ip, fp, A.zero, withExp) : M (α × α × α × Bool))
  let (fp, ip) := if withExp then (fp, ip) else A.modf r
  let precision ← (if isShort then (if withExp then pure (precision - 1) else do
                      let e ← toIntM A ep
                      pure (precision - (e + 1))) else pure precision : M Int)
  let passes : Nat := if cfg.repaired then min precision.toNat cfg.fracMax else precision.toNat
  let (signCount, fp) := scaleLoop A passes 0 fp
  pure { ip, fp, ep, withExp, precision, signCount }

/-- the rest of `digitsOf`: rounding, carry, trailing-zero removal, renormalisation (no loop can fail there) -/
def digitsPost {α : Type} (A : Arith α) (cfg : Cfg) (ops : Ops) (isShort : Bool) (p : Pre α) : Digits α :=
  let fp := A.round p.fp
  let pw := A.pow 10 p.signCount
  let ip := if p.precision ≠ 0 then (if A.ne fp pw then p.ip else A.add p.ip A.one) else A.round (A.add p.ip fp)
  let fp := if A.ne fp pw then fp else A.zero
  let (signCount, fp) := if cfg.repaired && isShort && !ops.spec then stripLoop A p.signCount fp else (p.signCount, fp)
  let (ip, fp, ep) :=
    if p.withExp && A.ge ip A.ten then
      let (fp', ip') := A.modf (A.div (A.add ip fp) A.ten)
      (ip', fp', A.add p.ep A.one)
    else (ip, fp, p.ep)
  { ip, fp, ep, signCount, precision := p.precision, withExp := p.withExp }

/-- "the value handed to `roundl` has the fractional part exactly 1/2" -/
def tieAt {α : Type} (A : Arith α) (p : Pre α) : Bool :=
  A.eq (A.fmod p.fp A.one) (A.div A.one (A.ofInt 2))

theorem digitsOf_eq_pre_aux {α : Type} (A : Arith α) (cfg : Cfg) (fuel : Nat) (r : α) (precision : Int) (ops : Ops)
    (withExp isShort : Bool) :
    digitsOf A cfg fuel r precision ops withExp isShort =
      (digitsPre A cfg fuel r precision ops withExp isShort).map (digitsPost A cfg ops isShort) := by
  unfold digitsOf digitsPre digitsPost
  simp only [bind, Except.bind, Except.map, pure, Except.pure]
  repeat (first | rfl | split)

theorem tieSeen_eq_pre_aux {α : Type} (A : Arith α) (cfg : Cfg) (fuel : Nat) (r : α) (precision : Int) (ops : Ops)
    (withExp isShort : Bool) :
    tieSeen A cfg fuel r precision ops withExp isShort =
      (match digitsPre A cfg fuel r precision ops withExp isShort with
       | .ok p => tieAt A p
       | .error _ => false) := by
  unfold tieSeen digitsPre tieAt
  simp only [bind, Except.bind, pure, Except.pure]
  split
  · rename_i h; simp only [h]
  · rename_i h; simp only [h]
    split
    · rename_i h2; simp only [h2]
    · rename_i h2; simp only [h2]
      rename_i we _ _
      cases we <;> rfl

end Igris.C13
