/-
  C13, round 3b — ONE definition of "the first half of `digitsOf`" (core Lean only).

  `tieSeen` (Tie.lean) was written as a second copy of the lines of `digitsOf` up to the fraction scaling loop.
  `digitsPre` is that first half as a definition of its own, `digitsPost` the (pure) second half; the theorems
  `digitsOf_eq_pre` and `tieSeen_eq_pre` show that BOTH `digitsOf` and `tieSeen` are functions of `digitsPre`:
  the value `tieSeen` tests is exactly the value `digitsOf` hands to `roundl`.
-/
import IgrisModel.C13.Tie
import IgrisModel.C13.Lemmas
import IgrisModel.C13.IntW
namespace Igris.C13
open Igris.C06 (Ops)

/-- the state of print_f just before `fp = roundl(fp)` -/
structure Pre (α : Type) where
  ip : α
  fp : α            -- the scaled fraction handed to `roundl`
  ep : α
  withExp : Bool
  precision : Int   -- after `precision -= is_shortened ? … : 0`
  signCount : Nat

/-- the lines of `digitsOf` up to and including the fraction scaling loop -/
def digitsPre {α : Type} (A : Arith α) (cfg : Cfg) (fuel : Nat) (r : α) (precision : Int) (ops : Ops)
    (withExp isShort : Bool) : M (Pre α) := do
  let precision : Int := if ops.prec then (if isShort then max precision 1 else precision) else 6
  let (fp, ip) := A.modf r
  let (ip, fp, ep, withExp) ←
    (if withExp || isShort then do
        let (ip, fp, ep) ← normDown A fuel ip fp A.zero
        let (ip, fp, ep) ← (if A.ne fp A.zero then normUp A fuel ip fp ep else pure (ip, fp, ep))
        let withExp := if A.lt ep (A.ofInt (-4)) || A.ge ep (A.ofInt precision) then true else withExp
        pure (ip, fp, ep, withExp)
      else pure (ip, fp, A.zero, withExp) : M (α × α × α × Bool))
  let (fp, ip) := if withExp then (fp, ip) else A.modf r
  let precision ← (if isShort then (if withExp then pure (precision - 1) else do
                      let e ← toIntM A ep
                      pure (precision - (e + 1))) else pure precision : M Int)
  let passes : Nat := if cfg.repaired then min precision.toNat cfg.fracMax else precision.toNat
  let (signCount, fp) := scaleLoop A passes 0 fp
  pure { ip, fp, ep, withExp, precision, signCount }

/-- the rest of `digitsOf`: rounding, carry, trailing-zero removal, renormalisation (no loop can fail there) -/
def digitsPost {α : Type} (A : Arith α) (cfg : Cfg) (ops : Ops) (isShort : Bool) (p : Pre α) : Digits α :=
  let fp := A.round p.fp
  let pw := A.pow 10 p.signCount
  let ip := if p.precision ≠ 0 then (if A.ne fp pw then p.ip else A.add p.ip A.one) else A.round (A.add p.ip fp)
  let fp := if A.ne fp pw then fp else A.zero
  let (signCount, fp) := if cfg.repaired && isShort && !ops.spec then stripLoop A p.signCount fp else (p.signCount, fp)
  let (ip, fp, ep) :=
    if p.withExp && A.ge ip A.ten then
      let (fp', ip') := A.modf (A.div (A.add ip fp) A.ten)
      (ip', fp', A.add p.ep A.one)
    else (ip, fp, p.ep)
  { ip, fp, ep, signCount, precision := p.precision, withExp := p.withExp }

/-- "the value handed to `roundl` has the fractional part exactly 1/2" -/
def tieAt {α : Type} (A : Arith α) (p : Pre α) : Bool :=
  A.eq (A.fmod p.fp A.one) (A.div A.one (A.ofInt 2))

theorem digitsOf_eq_pre_aux {α : Type} (A : Arith α) (cfg : Cfg) (fuel : Nat) (r : α) (precision : Int) (ops : Ops)
    (withExp isShort : Bool) :
    digitsOf A cfg fuel r precision ops withExp isShort =
      (digitsPre A cfg fuel r precision ops withExp isShort).map (digitsPost A cfg ops isShort) := by
  unfold digitsOf digitsPre digitsPost
  simp only [bind, Except.bind, Except.map, pure, Except.pure]
  repeat (first | rfl | split)

theorem tieSeen_eq_pre_aux {α : Type} (A : Arith α) (cfg : Cfg) (fuel : Nat) (r : α) (precision : Int) (ops : Ops)
    (withExp isShort : Bool) :
    tieSeen A cfg fuel r precision ops withExp isShort =
      (match digitsPre A cfg fuel r precision ops withExp isShort with
       | .ok p => tieAt A p
       | .error _ => false) := by
  unfold tieSeen digitsPre tieAt
  simp only [bind, Except.bind, pure, Except.pure]
  split
  · rename_i h; simp only [h]
  · rename_i h; simp only [h]
    split
    · rename_i h2; simp only [h2]
    · rename_i h2; simp only [h2]
      rename_i we _ _
      cases we <;> rfl

/-! ### the sizes the emission part computes with, from `printF` itself (for `print_f_no_int_overflow`) -/

theorem intLoop_used {α : Type} (A : Arith α) (cfg : Cfg) (upper : Bool) (hr : cfg.repaired = true) :
    ∀ (n : Nat) (ip : α) (b : Buf), b.used < cfg.size → cfg.size < b.used + n →
      Good (fun b' => b'.used ≤ cfg.size) (intLoop A cfg upper n ip b) := by
  intro n
  induction n with
  | zero => intro ip b h1 h2; omega
  | succ n ih =>
    intro ip b h1 h2
    unfold intLoop
    refine (good_toIntM A _).bind fun v _ => ?_
    refine (good_putBody (digitChar upper v) h1).bind fun b' hb' => ?_
    subst hb'
    dsimp only
    split
    · rename_i hc
      simp [hr] at hc
      exact ih _ _ (by simpa using hc.2) (by simp; omega)
    · simp; omega

/-- `good_fillBuf` with the size of the result: a buffer that `fillBuf` returns uses at most `size` bytes -/
theorem good_fillBuf_used {α : Type} (A : Arith α) (cfg : Cfg) (hr : cfg.repaired = true) (hfit : cfg.Fits)
    (ops : Ops) (isShort : Bool) (d : Digits α) (hd : d.signCount ≤ cfg.fracMax) :
    Good (fun b => b.used ≤ cfg.size) (fillBuf A cfg ops isShort d) := by
  unfold Cfg.Fits at hfit
  unfold fillBuf
  have h0 : ¬ cfg.size = 0 := by omega
  simp only [h0, if_false, hr, if_true]
  · refine Good.bind (Q := fun b : Buf => b.body = [] ∧ b.used ≤ max cfg.expMax 1 + 5) ?_ (fun b hb => ?_)
    · split
      · refine (expLoop_safe A cfg ops.upper hr (max cfg.expMax 1) d.ep {} (by omega) (by simp; omega)
          (by simp [Buf.used]; omega)).bind (fun r hr1 => ?_)
        obtain ⟨ep, b⟩ := r
        obtain ⟨post, sep, body⟩ := b
        simp at hr1
        obtain ⟨h1, h2, hlen⟩ := hr1
        subst h1 h2
        refine Good.bind (Q := fun b' : Buf => b'.sep = false ∧ b'.body = [] ∧ b'.post.length ≤ 1 + max cfg.expMax 1) ?_ (fun b1 h1 => ?_)
        · split
          · refine (good_putPost '0' (by simp [Buf.used]; omega)).mono (fun b' hb' => ?_)
            subst hb'
            simp; omega
          · simp; omega
        · obtain ⟨post1, sep1, body1⟩ := b1
          simp at h1
          obtain ⟨h1a, h1b, h1c⟩ := h1
          subst h1a h1b
          refine (good_putPost _ (by simp [Buf.used]; omega)).bind (fun b2 h2 => ?_)
          subst h2
          refine (good_putPost _ (by simp [Buf.used]; omega)).bind (fun b3 h3 => ?_)
          subst h3
          rw [if_pos (by simp [Buf.used]; omega)]
          simp [Buf.used]
          omega
      · simp [Buf.used]
    · refine (fracLoop_safe A cfg ops.upper d.signCount d.fp b (by omega)).bind (fun b1 h1 => ?_)
      refine Good.bind (Q := fun b' : Buf => b'.used ≤ b1.used + 1) ?_ (fun b2 h2 => ?_)
      · split
        · refine (good_putBody '.' (by omega)).mono (fun b' hb' => ?_)
          subst hb'; simp
        · simp
      · have hb2 : 1 ≤ b2.used := by simp [Buf.used]; omega
        exact intLoop_used A cfg ops.upper hr (cfg.size + 1) d.ip b2 (by omega) (by omega)

/-- without `%g` the precision field of the digit record is the requested precision (6 when none is given) -/
theorem digitsOf_precision_fe {α : Type} (A : Arith α) (cfg : Cfg) (fuel : Nat) (r : α) (precision : Int) (ops : Ops)
    (withExp : Bool) (d : Digits α) (h : digitsOf A cfg fuel r precision ops withExp false = .ok d) :
    d.precision = if ops.prec then precision else 6 := by
  rw [digitsOf_eq_pre_aux] at h
  cases hp : digitsPre A cfg fuel r precision ops withExp false with
  | error e => simp [hp, Except.map] at h
  | ok p =>
    simp only [hp, Except.map, Except.ok.injEq] at h
    subst h
    show p.precision = _
    unfold digitsPre at hp
    simp only [bind, Except.bind, pure, Except.pure, Bool.or_false, Bool.false_eq_true, if_false] at hp
    split at hp
    · cases hp
    · cases hp
      rfl

end Igris.C13
