/-
  C13 — totality, second part: the straight-line part of `print_f` (rounding increment,
  carry, trailing-zero removal, renormalisation) keeps every value finite; `digitsOf` never
  ends in `undef`/`diverged`; `printF` returns `.ok` for every finite argument.
-/
import IgrisModel.C13.Total
namespace Igris.C13
open Igris.C06 (Ops NUL)

section
variable {rnd : Rounding} (L : Lawful rnd) (p : Nat → Nat → FV)
include L

theorem epv_zero : epv 0 = .fin false 0 := by simp [epv]

theorem finS_epv (z : ℤ) (h : z.natAbs ≤ 2 ^ 53) : FinS L (epv z) :=
  ⟨_, _, rfl, by positivity, L.small_down (small_nat L _ h) (by linarith)⟩

/-- one rounding of a positive magnitude in range: finite, in range, at most 9/8 q + 1/8 -/
theorem mk_bound {q : ℚ} (hq : 0 ≤ q) (hs : L.small q) :
    ∃ v, FV.mk rnd false q = .fin false v ∧ 0 ≤ v ∧ L.small (v + 1) ∧ v ≤ q * (9 / 8) + 1 / 8 := by
  obtain ⟨v, hv⟩ := L.rnd_small hs
  refine ⟨v, by simp [FV.mk, hv], L.nonneg hq hv, L.rep_succ_small hv, ?_⟩
  rcases lt_or_eq_of_le hq with h | h
  · have hrel := L.rel h hv
    have : max (q * L.u) L.d ≤ q / 8 + 1 / 8 := by
      apply max_le
      · have : q * L.u ≤ q * (1 / 8) := mul_le_mul_of_nonneg_left L.hu hq
        linarith
      · have := L.hd; linarith
    rw [abs_le] at hrel
    linarith [hrel.2]
  · subst h
    have := L.nat_exact 0 (by norm_num)
    simp at this
    rw [this] at hv; simp at hv; subst hv; norm_num

theorem add_nn {a b : ℚ} (ha : 0 ≤ a) (hb : 0 ≤ b) (hs : L.small (a + b)) :
    ∃ v, FV.add rnd (.fin false a) (.fin false b) = .fin false v ∧ 0 ≤ v ∧ L.small (v + 1) ∧
      v ≤ (a + b) * (9 / 8) + 1 / 8 := by
  simp only [FV.add, FV.sval, Bool.false_eq_true, if_false]
  by_cases h0 : a + b = 0
  · refine ⟨0, by simp [h0], le_refl _, ?_, by rw [h0]; norm_num⟩
    have := small_nat L 0 (by norm_num); simpa using this
  · have hpos : 0 < a + b := lt_of_le_of_ne (by linarith) (Ne.symm h0)
    simp only [h0, if_false, not_lt.mpr (le_of_lt hpos)]
    exact mk_bound L (le_of_lt hpos) hs

/-- values the fraction scaling loop works on -/
def Rq (L : Lawful rnd) (w : ℚ) : Prop := rnd w = some w ∧ 0 ≤ w ∧ L.small (w + 30)

theorem scaleLoop_inv : ∀ (n sc : ℕ) (m : ℚ), Rq L m →
    ∃ w, (scaleLoop (arithP rnd p) n sc (.fin false m)).2 = .fin false w ∧ Rq L w := by
  intro n
  induction n with
  | zero => intro sc m h; exact ⟨m, rfl, h⟩
  | succ n ih =>
    intro sc m h
    unfold scaleLoop
    split
    · rename_i hne
      obtain ⟨hm, hm0, hms⟩ := h
      -- the fractional part is not zero: m is not an integer
      have hni : ((m.floor : ℤ) : ℚ) ≠ m := by
        intro heq
        rw [one_eq L p, zero_eq L p] at hne
        simp only [Arith.ne, arithP_eq, arithP_fmod, FV.fmod] at hne
        have h1 : (1 : ℚ) ≠ 0 := by norm_num
        simp only [h1, if_false, eq_fin, FV.sval, Bool.false_eq_true] at hne
        simp at hne
        apply hne
        unfold FV.flr; rw [heq]; ring
      have hsm := L.nonint_small hm hni
      have hs10 : L.small (m * 10) := L.small_down hsm (by linarith)
      obtain ⟨v, hv, hv0, hvs, hvb⟩ := mk_bound L (by linarith : 0 ≤ m * 10) hs10
      have hmul : (arithP rnd p).mul (.fin false m) (arithP rnd p).ten = .fin false v := by
        rw [ten_eq L p]; simp only [arithP_mul, FV.mul]; simpa using hv
      rw [hmul]
      have hvv : rnd v = some v := by
        obtain ⟨v', hv'⟩ := L.rnd_small hs10
        have : FV.mk rnd false (m * 10) = .fin false v' := by simp [FV.mk, hv']
        rw [this] at hv; injection hv with _ hvv'; subst hvv'
        exact L.idem hv'
      exact ih _ v ⟨hvv, hv0, L.small_down hsm (by linarith)⟩
    · exact ⟨m, rfl, h⟩

theorem stripLoop_inv (B : ℚ) (hB : L.small B) : ∀ (sc : ℕ) (b : ℚ), 0 ≤ b → b ≤ B → 1 / 4 ≤ B →
    ∃ b', (stripLoop (arithP rnd p) sc (.fin false b)).2 = .fin false b' ∧ 0 ≤ b' ∧ b' ≤ B := by
  intro sc
  induction sc with
  | zero => intro b h0 hb _; exact ⟨b, rfl, h0, hb⟩
  | succ n ih =>
    intro b h0 hb hB4
    unfold stripLoop
    split
    · obtain ⟨w, hw, hw0, _, hrw⟩ := div_ten L (n := false) h0 (L.small_down hB hb)
      have hdiv : (arithP rnd p).div (.fin false b) (arithP rnd p).ten = .fin false w := by
        rw [ten_eq L p]; simpa using hw
      rw [hdiv]
      refine ih w hw0 ?_ hB4
      rcases lt_or_eq_of_le h0 with hpos | hz
      · have hrel := L.rel (by linarith : (0:ℚ) < b / 10) hrw
        have : max (b / 10 * L.u) L.d ≤ b / 80 + 1 / 8 := by
          apply max_le
          · have : b / 10 * L.u ≤ b / 10 * (1 / 8) := mul_le_mul_of_nonneg_left L.hu (by linarith)
            linarith
          · have := L.hd; linarith
        rw [abs_le] at hrel
        linarith [hrel.2]
      · subst hz
        have := L.nat_exact 0 (by norm_num)
        simp at this hrw
        rw [this] at hrw; simp at hrw; subst hrw; linarith
    · exact ⟨b, rfl, h0, hb⟩

theorem toIntM_epv (z : ℤ) (h1 : -2147483648 ≤ z) (h2 : z ≤ 2147483647) :
    toIntM (arithP rnd p) (epv z) = .ok z := by
  unfold toIntM epv
  simp only [arithP_toInt, FV.toInt]
  have hf : (((z.natAbs : ℕ) : ℚ)).floor = ((z.natAbs : ℕ) : ℤ) := by
    have := Rat.floor_intCast ((z.natAbs : ℕ) : ℤ)
    rwa [Int.cast_natCast] at this
  rw [hf]
  by_cases hz : z < 0
  · simp only [hz, decide_true, if_true]
    have : -((z.natAbs : ℕ) : ℤ) = z := by omega
    rw [this, if_pos ⟨h1, h2⟩]
  · simp only [hz, decide_false, Bool.false_eq_true, if_false]
    have : ((z.natAbs : ℕ) : ℤ) = z := by omega
    rw [this, if_pos ⟨h1, h2⟩]

omit L in
theorem lt_epv (a b : ℤ) : FV.lt (epv a) (epv b) = decide (a < b) := by
  unfold epv; rw [lt_fin, sval_epv, sval_epv]
  exact decide_eq_decide.mpr (by exact_mod_cast Iff.rfl)
omit L in
theorem ge_epv (a b : ℤ) : FV.ge (epv a) (epv b) = decide (a ≥ b) := by
  unfold epv; rw [ge_fin, sval_epv, sval_epv]
  exact decide_eq_decide.mpr (by exact_mod_cast Iff.rfl)

end

/-! ### `digitsOf` cut into its phases (definitionally the same function) -/

def phase1 {α : Type} (A : Arith α) (fuel : Nat) (r : α) (P : Int) (withExp isShort : Bool) : M (α × α × α × Bool) :=
  let (fp, ip) := A.modf r
  if withExp || isShort then do
    let (ip, fp, ep) ← normDown A fuel ip fp A.zero
    let (ip, fp, ep) ← (if A.ne fp A.zero then normUp A fuel ip fp ep else pure (ip, fp, ep))
    let withExp := if A.lt ep (A.ofInt (-4)) || A.ge ep (A.ofInt P) then true else withExp
    pure (ip, fp, ep, withExp)
  else pure (ip, fp, A.zero, withExp)

def phase2 {α : Type} (A : Arith α) (isShort we : Bool) (ep : α) (P : Int) : M Int :=
  if isShort then (if we then pure (P - 1) else do
    let e ← toIntM A ep
    pure (P - (e + 1))) else pure P

def carryStep {α : Type} (A : Arith α) (cfg : Cfg) (ip fp : α) (precision : Int) : Nat × α × α :=
  let passes : Nat := if cfg.repaired then min precision.toNat cfg.fracMax else precision.toNat
  let S := scaleLoop A passes 0 fp
  let fpr := A.round S.2
  let pw := A.pow 10 S.1
  (S.1, (if precision ≠ 0 then (if A.ne fpr pw then ip else A.add ip A.one) else A.round (A.add ip fpr)),
    (if A.ne fpr pw then fpr else A.zero))

def stripStep {α : Type} (A : Arith α) (cfg : Cfg) (ops : Ops) (isShort : Bool) (sc : Nat) (fp : α) : Nat × α :=
  if cfg.repaired && isShort && !ops.spec then stripLoop A sc fp else (sc, fp)

def renormStep {α : Type} (A : Arith α) (we : Bool) (ip fp ep : α) : α × α × α :=
  if we && A.ge ip A.ten then
    ((A.modf (A.div (A.add ip fp) A.ten)).2, (A.modf (A.div (A.add ip fp) A.ten)).1, A.add ep A.one)
  else (ip, fp, ep)

def tailDigits {α : Type} (A : Arith α) (cfg : Cfg) (ops : Ops) (isShort we : Bool) (ep ip fp : α) (pr : Int) : Digits α :=
  let c := carryStep A cfg ip fp pr
  let s := stripStep A cfg ops isShort c.1 c.2.2
  let r := renormStep A we c.2.1 s.2 ep
  { ip := r.1, fp := r.2.1, ep := r.2.2, signCount := s.1, precision := pr, withExp := we }

theorem digitsOf_eq {α : Type} (A : Arith α) (cfg : Cfg) (fuel : Nat) (r : α) (precision : Int) (ops : Ops)
    (withExp isShort : Bool) :
    digitsOf A cfg fuel r precision ops withExp isShort =
      (phase1 A fuel r (if ops.prec then (if isShort then max precision 1 else precision) else 6) withExp isShort >>= fun q =>
        phase2 A isShort q.2.2.2 q.2.2.1 (if ops.prec then (if isShort then max precision 1 else precision) else 6) >>= fun pr =>
          pure (tailDigits A cfg ops isShort q.2.2.2 q.2.2.1
            (if q.2.2.2 then q.1 else (A.modf r).2) (if q.2.2.2 then q.2.1 else (A.modf r).1) pr)) := by
  unfold digitsOf phase1 phase2 tailDigits carryStep stripStep renormStep
  dsimp only
  congr 1
  funext q
  congr 1
  funext pr
  cases q.2.2.2 <;> rfl

section
variable {rnd : Rounding} (L : Lawful rnd) (p : Nat → Nat → FV)
include L

theorem ne_fp_pos {x : ℚ} (h0 : 0 ≤ x) (h : (arithP rnd p).ne (fpOf x) (arithP rnd p).zero = true) : 0 < x := by
  rcases lt_or_eq_of_le h0 with h' | h'
  · exact h'
  · exfalso
    subst h'
    rw [zero_eq L p] at h
    have : FV.flr 0 = 0 := (flr_eq_zero_iff (le_refl 0)).mpr (by norm_num)
    simp [Arith.ne, fpOf, eq_fin, FV.sval, this] at h

omit L in
theorem we_false {e P : ℤ} {w : Bool}
    (h : (if (decide (e < -4) || decide (e ≥ P)) = true then true else w) = false) : -4 ≤ e ∧ e < P := by
  by_cases c1 : e < -4 <;> by_cases c2 : e ≥ P <;> simp [c1, c2] at h <;> omega

/-- what the normalisation phase hands on -/
def Q1 (L : Lawful rnd) (N : ℕ) (P : ℤ) (isShort : Bool) (q : FV × FV × FV × Bool) : Prop :=
  ∃ (y : ℚ) (e : ℤ), rnd y = some y ∧ 0 ≤ y ∧ q.1 = ipOf y ∧ q.2.1 = fpOf y ∧ q.2.2.1 = epv e ∧ e.natAbs ≤ N ∧
    (q.2.2.2 = true → y < 12) ∧ (isShort = true → q.2.2.2 = false → -4 ≤ e ∧ e < P)

theorem phase1_total (N fuel : ℕ) (x0 : ℚ) (P : ℤ) (withExp isShort : Bool)
    (hx : rnd x0 = some x0) (h0 : 0 ≤ x0) (hN : x0 < 10 * 8 ^ N) (hN' : x0 = 0 ∨ 1 ≤ x0 * 8 ^ N) (hf : N ≤ fuel)
    (hNb : N + 2 ≤ 2 ^ 30) (hP : P.natAbs ≤ 2 ^ 53) :
    ∃ q, phase1 (arithP rnd p) fuel (.fin false x0) P withExp isShort = .ok q ∧ Q1 L N P isShort q := by
  unfold phase1
  simp only [arithP_modf, modf_fin]
  by_cases hb : (withExp || isShort) = true
  · simp only [hb, if_true]
    obtain ⟨x1, j1, hj1, hx1, h01, hlt1, hj0, hjp, hrun1⟩ :=
      normDown_total L p N fuel x0 0 hf hx h0 hN (by omega)
    have hz : (arithP rnd p).zero = epv ((0 : ℕ) : ℤ) := by rw [zero_eq L p]; simp [epv]
    rw [hz, hrun1]
    simp only [bind, Except.bind]
    have hlt : ∀ e : ℤ, (arithP rnd p).lt (epv e) ((arithP rnd p).ofInt (-4)) = decide (e < -4) := by
      intro e; rw [ofInt_epv L p (-4) (by norm_num)]; simp only [arithP_lt]; exact lt_epv e (-4)
    have hge : ∀ e : ℤ, (arithP rnd p).ge (epv e) ((arithP rnd p).ofInt P) = decide (e ≥ P) := by
      intro e; rw [ofInt_epv L p P hP]; simp only [arithP_ge]; exact ge_epv e P
    cases hne : (arithP rnd p).ne (fpOf x1) (epv ((0 : ℕ) : ℤ))
    · -- the fraction is zero: no second loop
      simp only [Bool.false_eq_true, if_false, pure, Except.pure]
      refine ⟨_, rfl, x1, ((0 + j1 : ℕ) : ℤ), hx1, h01, rfl, rfl, rfl, by omega, fun _ => by linarith, ?_⟩
      intro _ hwe
      simp only [hlt, hge] at hwe
      exact we_false hwe
    · have hx1pos : 0 < x1 := ne_fp_pos L p h01 (by rw [hz]; exact hne)
      simp only [if_true]
      have hb1 : 1 ≤ x1 * 8 ^ N := by
        rcases Nat.eq_zero_or_pos j1 with hj | hj
        · rw [hj0 hj] at hx1pos ⊢
          rcases hN' with h | h
          · linarith
          · exact h
        · have h78 := hjp hj
          have hN1 : 1 ≤ N := by omega
          have : (8 : ℚ) ^ 1 ≤ 8 ^ N := pow_le_pow_right₀ (by norm_num) hN1
          nlinarith
      obtain ⟨x2, j2, hj2, hx2, h12, hlt2, _, hrun2⟩ :=
        normUp_total L p N fuel x1 ((0 + j1 : ℕ) : ℤ) hf hx1 hx1pos hb1 (by omega) (by linarith)
      rw [hrun2]
      simp only [pure, Except.pure]
      refine ⟨_, rfl, x2, ((0 + j1 : ℕ) : ℤ) - (j2 : ℤ), hx2, by linarith, rfl, rfl, rfl, by omega, fun _ => hlt2, ?_⟩
      intro _ hwe
      simp only [hlt, hge] at hwe
      exact we_false hwe
  · simp only [hb, Bool.false_eq_true, if_false, pure, Except.pure]
    have hwf : withExp = false := by cases withExp <;> simp_all
    have hsf : isShort = false := by cases isShort <;> simp_all
    refine ⟨_, rfl, x0, 0, hx, h0, rfl, rfl, ?_, by omega, ?_, ?_⟩
    · rw [zero_eq L p]; simp [epv]
    · intro h; simp [hwf] at h
    · intro h; simp [hsf] at h

theorem rq_frac {y : ℚ} (hy : rnd y = some y) (hy0 : 0 ≤ y) : Rq L (y - FV.flr y) := by
  have h1 := flr_le y
  have h2 := lt_flr_add_one y
  refine ⟨L.rep_frac hy0 hy, by linarith, ?_⟩
  exact L.small_down (small_nat L 30 (by norm_num)) (by push_cast; linarith)

theorem carry_inv (cfg : Cfg) (hr : cfg.repaired = true) {y : ℚ} (hy : rnd y = some y) (hy0 : 0 ≤ y) (pr : ℤ) :
    ∃ (sc : ℕ) (w a b : ℚ), carryStep (arithP rnd p) cfg (ipOf y) (fpOf y) pr = (sc, .fin false a, .fin false b) ∧
      Rq L w ∧ 0 ≤ a ∧ L.small a ∧ (y < 12 → a ≤ 16) ∧ 0 ≤ b ∧ b ≤ w + 1 / 2 := by
  have hf1 := flr_le y
  have hf2 := lt_flr_add_one y
  have hf0 := flr_nonneg hy0
  have hsy : L.small (y + 1) := L.rep_succ_small hy
  unfold carryStep
  simp only [hr, if_true]
  by_cases hpr : pr = 0
  · -- precision 0: no scaling, ip = roundl(ip + roundl(fp))
    subst hpr
    have hS : scaleLoop (arithP rnd p) (min (0 : ℤ).toNat cfg.fracMax) 0 (fpOf y) = (0, fpOf y) := by
      simp [scaleLoop]
    rw [hS]
    obtain ⟨hm, hm0, hms⟩ := rq_frac L hy hy0
    set m := y - FV.flr y with hmdef
    have hfr : (arithP rnd p).round (fpOf y) = .fin false (FV.flr (m + 1 / 2)) := rfl
    have hc0 : 0 ≤ FV.flr (m + 1 / 2) := flr_nonneg (by linarith)
    have hc1 : FV.flr (m + 1 / 2) ≤ m + 1 / 2 := flr_le _
    obtain ⟨v, hv, hv0, hvs, hvb⟩ := add_nn L hf0 hc0 (L.small_down hsy (by linarith))
    have hip : (arithP rnd p).add (ipOf y) (.fin false (FV.flr (m + 1 / 2))) = .fin false v := hv
    have hrd : (arithP rnd p).round (.fin false v) = .fin false (FV.flr (v + 1 / 2)) := rfl
    have ha0 : 0 ≤ FV.flr (v + 1 / 2) := flr_nonneg (by linarith)
    have ha1 : FV.flr (v + 1 / 2) ≤ v + 1 / 2 := flr_le _
    simp only [hfr, ne_eq, not_true_eq_false, if_false, hip, hrd]
    generalize (arithP rnd p).ne (FV.fin false (FV.flr (m + 1 / 2))) ((arithP rnd p).pow 10 0) = c
    have hb : ∃ b, (if c = true then FV.fin false (FV.flr (m + 1 / 2)) else (arithP rnd p).zero) = .fin false b ∧
        0 ≤ b ∧ b ≤ m + 1 / 2 := by
      cases c
      · exact ⟨0, by rw [zero_eq L p]; simp, le_refl _, by linarith⟩
      · exact ⟨_, by simp, hc0, hc1⟩
    obtain ⟨b, hb1, hb2, hb3⟩ := hb
    rw [hb1]
    exact ⟨0, m, FV.flr (v + 1 / 2), b, rfl, ⟨hm, hm0, hms⟩, ha0, L.small_down hvs (by linarith),
      fun h12 => by linarith, hb2, hb3⟩
  · obtain ⟨w, hw, hRq⟩ := scaleLoop_inv L p (min pr.toNat cfg.fracMax) 0 (y - FV.flr y) (rq_frac L hy hy0)
    have hw' : (scaleLoop (arithP rnd p) (min pr.toNat cfg.fracMax) 0 (fpOf y)).2 = .fin false w := hw
    rw [hw']
    have hfr : (arithP rnd p).round (.fin false w) = .fin false (FV.flr (w + 1 / 2)) := rfl
    obtain ⟨hwr, hw0, hws⟩ := hRq
    have hc0 : 0 ≤ FV.flr (w + 1 / 2) := flr_nonneg (by linarith)
    have hc1 : FV.flr (w + 1 / 2) ≤ w + 1 / 2 := flr_le _
    obtain ⟨v, hv, hv0, hvs, hvb⟩ := add_nn L hf0 (by norm_num : (0:ℚ) ≤ 1) (L.small_down hsy (by linarith))
    have hip : (arithP rnd p).add (ipOf y) (arithP rnd p).one = .fin false v := by rw [one_eq L p]; exact hv
    simp only [hfr, ne_eq, hpr, not_false_eq_true, if_true, hip]
    have hb : ∀ c : Bool, ∃ b, (if c = true then FV.fin false (FV.flr (w + 1 / 2)) else (arithP rnd p).zero) = .fin false b ∧
        0 ≤ b ∧ b ≤ w + 1 / 2 := by
      intro c; cases c
      · exact ⟨0, by rw [zero_eq L p]; simp, le_refl _, by linarith⟩
      · exact ⟨_, by simp, hc0, hc1⟩
    generalize (arithP rnd p).ne (FV.fin false (FV.flr (w + 1 / 2)))
      ((arithP rnd p).pow 10 (scaleLoop (arithP rnd p) (min pr.toNat cfg.fracMax) 0 (fpOf y)).1) = c
    obtain ⟨b, hb1, hb2, hb3⟩ := hb c
    rw [hb1]
    cases c
    · simp only [Bool.false_eq_true, if_false]
      exact ⟨_, w, v, b, rfl, ⟨hwr, hw0, hws⟩, hv0, L.small_down hvs (by linarith), fun h => by linarith, hb2, hb3⟩
    · simp only [if_true]
      exact ⟨_, w, FV.flr y, b, rfl, ⟨hwr, hw0, hws⟩, hf0, L.small_down hsy (by linarith), fun h => by linarith, hb2, hb3⟩

theorem strip_inv (cfg : Cfg) (ops : Ops) (isShort : Bool) (sc : ℕ) {w b : ℚ} (hw : Rq L w) (hb0 : 0 ≤ b)
    (hb : b ≤ w + 1 / 2) :
    ∃ (sc' : ℕ) (b' : ℚ), stripStep (arithP rnd p) cfg ops isShort sc (.fin false b) = (sc', .fin false b') ∧
      0 ≤ b' ∧ b' ≤ w + 1 := by
  unfold stripStep
  split
  · obtain ⟨b', h1, h2, h3⟩ := stripLoop_inv L p (w + 1) (L.small_down hw.2.2 (by linarith)) sc b hb0
      (by linarith) (by linarith [hw.2.1])
    exact ⟨_, b', Prod.ext rfl h1, h2, h3⟩
  · exact ⟨sc, b, rfl, hb0, by linarith⟩

theorem renorm_inv (we : Bool) {a b w : ℚ} (e : ℤ) (he : e.natAbs + 1 ≤ 2 ^ 53) (hw : Rq L w) (ha0 : 0 ≤ a)
    (has : L.small a) (ha : we = true → a ≤ 16) (hb0 : 0 ≤ b) (hb : b ≤ w + 1) :
    ∃ ip fp ep, renormStep (arithP rnd p) we (.fin false a) (.fin false b) (epv e) = (ip, fp, ep) ∧
      NN L ip ∧ NN L fp ∧ FinS L ep := by
  unfold renormStep
  have hbs : L.small b := L.small_down hw.2.2 (by linarith)
  split
  · rename_i hc
    have hwe : we = true := by cases we <;> simp_all
    obtain ⟨v, hv, hv0, hvs, _⟩ := add_nn L ha0 hb0 (L.small_down hw.2.2 (by linarith [ha hwe]))
    have hadd : (arithP rnd p).add (.fin false a) (.fin false b) = .fin false v := hv
    obtain ⟨w2, hw2, hw20, hw2s, _⟩ := div_ten L (n := false) hv0 (L.small_down hvs (by linarith))
    have hdiv : (arithP rnd p).div (.fin false v) (arithP rnd p).ten = .fin false w2 := by
      rw [ten_eq L p]; exact hw2
    have hep : (arithP rnd p).add (epv e) (arithP rnd p).one = epv (e + 1) := by
      rw [one_eq L p]; simp only [arithP_add]
      have := add_epv L e 1 (by omega)
      have e1 : epv 1 = .fin false 1 := by simp [epv]
      rw [e1] at this; exact this
    rw [hadd, hdiv, hep]
    simp only [arithP_modf, modf_fin]
    have h1 := flr_le w2
    have h2 := flr_nonneg hw20
    exact ⟨_, _, _, rfl, ⟨_, rfl, h2, L.small_down hw2s h1⟩, ⟨_, rfl, by linarith, L.small_down hw2s (by linarith)⟩,
      finS_epv L _ (by omega)⟩
  · exact ⟨_, _, _, rfl, ⟨a, rfl, ha0, has⟩, ⟨b, rfl, hb0, hbs⟩, finS_epv L _ (by omega)⟩

theorem tail_inv (cfg : Cfg) (hr : cfg.repaired = true) (ops : Ops) (isShort we : Bool) {y : ℚ} (e pr : ℤ)
    (hy : rnd y = some y) (hy0 : 0 ≤ y) (hwe : we = true → y < 12) (he : e.natAbs + 1 ≤ 2 ^ 53) :
    FinS L (tailDigits (arithP rnd p) cfg ops isShort we (epv e) (ipOf y) (fpOf y) pr).ep ∧
    NN L (tailDigits (arithP rnd p) cfg ops isShort we (epv e) (ipOf y) (fpOf y) pr).fp ∧
    NN L (tailDigits (arithP rnd p) cfg ops isShort we (epv e) (ipOf y) (fpOf y) pr).ip ∧
    (tailDigits (arithP rnd p) cfg ops isShort we (epv e) (ipOf y) (fpOf y) pr).precision = pr := by
  obtain ⟨sc, w, a, b, hc, hw, ha0, has, ha, hb0, hb⟩ := carry_inv L p cfg hr hy hy0 pr
  obtain ⟨sc', b', hs, hb0', hb'⟩ := strip_inv L p cfg ops isShort sc hw hb0 hb
  obtain ⟨ip, fp, ep, hrn, h1, h2, h3⟩ := renorm_inv L p we e he hw ha0 has (fun h => ha (hwe h)) hb0' hb'
  unfold tailDigits
  simp only [hc, hs, hrn]
  exact ⟨h3, h2, h1, trivial⟩

/-- `digitsOf` on a finite non-negative representable argument: the only conceivable failure is none -/
theorem digitsOf_total (cfg : Cfg) (hr : cfg.repaired = true) (N fuel : ℕ) (x0 : ℚ) (precision : ℤ) (ops : Ops)
    (withExp isShort : Bool) (hx : rnd x0 = some x0) (h0 : 0 ≤ x0) (hN : x0 < 10 * 8 ^ N)
    (hN' : x0 = 0 ∨ 1 ≤ x0 * 8 ^ N) (hf : N ≤ fuel) (hNb : N + 2 ≤ 2 ^ 30)
    (hp0 : 0 ≤ precision) (hp1 : precision ≤ 2147483647) :
    ∃ d, digitsOf (arithP rnd p) cfg fuel (.fin false x0) precision ops withExp isShort = .ok d ∧
      FinS L d.ep ∧ NN L d.fp ∧ NN L d.ip ∧ 0 ≤ d.precision := by
  rw [digitsOf_eq]
  generalize hP : (if ops.prec = true then if isShort = true then max precision 1 else precision else 6 : ℤ) = P
  have hPb : 0 ≤ P ∧ P ≤ 2147483647 ∧ (isShort = true → 1 ≤ P) := by
    rw [← hP]; split
    · split
      · refine ⟨by omega, by omega, fun _ => by omega⟩
      · rename_i h; exact ⟨hp0, hp1, fun h' => absurd h' h⟩
    · exact ⟨by norm_num, by norm_num, fun _ => by norm_num⟩
  obtain ⟨q, hq, y, e, hy, hy0, hq1, hq2, hq3, he, hwe, hsh⟩ :=
    phase1_total L p N fuel x0 P withExp isShort hx h0 hN hN' hf hNb (by omega)
  rw [hq]
  simp only [bind, Except.bind]
  obtain ⟨ip, fp, ep, we⟩ := q
  simp only at hq1 hq2 hq3 hwe hsh
  subst hq1 hq2 hq3
  -- phase 2
  have h2 : ∃ pr, phase2 (arithP rnd p) isShort we (epv e) P = .ok pr ∧ 0 ≤ pr := by
    unfold phase2
    cases hs : isShort
    · exact ⟨P, rfl, hPb.1⟩
    · cases hw : we
      · obtain ⟨e1, e2⟩ := hsh hs hw
        simp only [if_true, Bool.false_eq_true, if_false]
        rw [toIntM_epv L p e (by omega) (by omega)]
        exact ⟨P - (e + 1), rfl, by omega⟩
      · exact ⟨P - 1, rfl, by have := hPb.2.2 hs; omega⟩
  obtain ⟨pr, hpr, hpr0⟩ := h2
  simp only [hpr]
  simp only [arithP_modf, modf_fin]
  refine ⟨_, rfl, ?_⟩
  cases hw : we
  · simp only [Bool.false_eq_true, if_false]
    obtain ⟨t1, t2, t3, t4⟩ := tail_inv L p cfg hr ops isShort false e pr hx h0 (fun h => by simp at h) (by omega)
    exact ⟨t1, t2, t3, by rw [t4]; exact hpr0⟩
  · simp only [if_true]
    obtain ⟨t1, t2, t3, t4⟩ := tail_inv L p cfg hr ops isShort true e pr hy hy0 (fun _ => hwe hw) (by omega)
    exact ⟨t1, t2, t3, by rw [t4]; exact hpr0⟩

/-- **totality** for a lawful rounding: a finite representable argument whose magnitude lies in
`[8^-N, 10*8^N)` (or is zero) is formatted with at most `N` passes of each normalisation loop -/
theorem printF_total (N fuel : ℕ) (neg : Bool) (x0 : ℚ) (nanNeg : Bool) (width precision : ℤ) (ops : Ops)
    (withExp isShort : Bool) (hx : rnd x0 = some x0) (h0 : 0 ≤ x0) (hN : x0 < 10 * 8 ^ N)
    (hN' : x0 = 0 ∨ 1 ≤ x0 * 8 ^ N) (hf : N ≤ fuel) (hNb : N + 2 ≤ 2 ^ 30)
    (hp0 : 0 ≤ precision) (hp1 : precision ≤ 2147483647) :
    ∃ out pc, printF (arithP rnd p) cfgNow fuel (.fin neg x0) nanNeg width precision ops withExp isShort = .ok (out, pc) := by
  have hgood := good_printF (arithP rnd p) cfgNow rfl cfgNow_fits fuel (.fin neg x0) nanNeg width precision ops withExp isShort
  suffices hfine : Fine (fun _ => True)
      (printF (arithP rnd p) cfgNow fuel (.fin neg x0) nanNeg width precision ops withExp isShort) by
    obtain ⟨v, hv, _, _⟩ := fine_good hfine hgood
    exact ⟨v.1, v.2, hv⟩
  unfold printF
  have e1 : (arithP rnd p).isnan (.fin neg x0) = false := rfl
  have e2 : (arithP rnd p).isinf (.fin neg x0) = false := rfl
  have e3 : (arithP rnd p).signbit (.fin neg x0) = neg := rfl
  have e4 : (if neg = true then (arithP rnd p).neg (.fin neg x0) else .fin neg x0) = .fin false x0 := by
    cases neg <;> rfl
  simp only [e1, e2, e3, e4, cfgNow, Bool.or_false, Bool.and_false, Bool.false_eq_true, if_false, Bool.not_true, Bool.false_and]
  obtain ⟨d, hd, d1, d2, d3, d4⟩ := digitsOf_total L p { size := 352, fracMax := 340, expMax := 5, repaired := true } rfl
    N fuel x0 precision ops withExp isShort hx h0 hN hN' hf hNb hp0 hp1
  have hgd := good_digitsOf (arithP rnd p) { size := 352, fracMax := 340, expMax := 5, repaired := true } rfl fuel
    (.fin false x0) precision ops withExp isShort
  rw [hd] at hgd ⊢
  simp only [good_ok] at hgd
  simp only [bind, Except.bind]
  have hfb := fillBuf_fine L p { size := 352, fracMax := 340, expMax := 5, repaired := true } ops isShort d d1 d2 d3
  cases hb : fillBuf (arithP rnd p) { size := 352, fracMax := 340, expMax := 5, repaired := true } ops isShort d with
  | error err => rw [hb] at hfb; simpa using hfb
  | ok b =>
    simp only []
    apply layout_fine _ rfl
    split
    · exact le_refl _
    · have := hgd.2; omega

end
end Igris.C13
