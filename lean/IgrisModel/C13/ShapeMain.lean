/-
  C13 — the text of `print_f` has the ISO shape: `fillBuf` on what `digitsOf` hands over, then the
  layout, judged by the independent predicate `isoShape` (%f and %e; sharp lawful rounding).
-/
import IgrisModel.C13.ShapeDigits
import IgrisModel.C13.ShapeText
namespace Igris.C13
open Igris.C06 (Ops NUL)

theorem isDig_ne_nul {c : Char} (h : isDig c = true) : c ≠ NUL := by
  intro hc; subst hc; revert h; decide

theorem cstrlen_full (s : List Char) (h : ∀ c ∈ s, c ≠ NUL) : s.take (cstrlen s) = s := by
  unfold cstrlen
  have hall : s.all (fun c => decide (c ≠ NUL)) = true := by
    rw [List.all_eq_true]; intro c hc; simpa using h c hc
  have := (tw_append (p := fun c => decide (c ≠ NUL)) s [] hall (by simp)).1
  rw [List.append_nil] at this
  rw [this]; simp

theorem cstrlen_digits (ds : List Char) (h : ds.all isDig = true) : cstrlen ds = ds.length := by
  unfold cstrlen
  have hall : ds.all (fun c => decide (c ≠ NUL)) = true := by
    rw [List.all_eq_true]; intro c hc
    have := isDig_ne_nul (List.all_eq_true.mp h c hc)
    simpa using this
  have := (tw_append (p := fun c => decide (c ≠ NUL)) ds [] hall (by simp)).1
  rw [List.append_nil] at this
  rw [this]

section
variable {rnd : Rounding} (L : Lawful rnd) (S : Sharp L) (p : Nat → Nat → FV)
include L S

theorem pow8_342 : (2 : ℚ) ^ 1024 + 1 ≤ 8 ^ 342 := by
  have : (8 : ℚ) ^ 342 = 2 ^ 1024 * 4 := by
    rw [show (8 : ℚ) = 2 ^ 3 by norm_num, ← pow_mul]
    rw [show 3 * 342 = 1024 + 2 by norm_num, pow_add]; norm_num
  rw [this]
  have h1 : (1 : ℚ) ≤ 2 ^ 1024 := one_le_pow₀ (by norm_num)
  generalize (2 : ℚ) ^ 1024 = T at h1 ⊢
  linarith

/-- the exponent part of the buffer -/
theorem expPart_shape (ops : Ops) (e : ℤ) (he : e.natAbs ≤ 999) :
    ∃ (b : Buf) (ds : List Char),
      (do
        let (ep, b) ← expLoop (arithP rnd p) cfgNow ops.upper (max cfgNow.expMax 1) (epv e) {}
        let b ← (if cstrlen b.post = 1 then putPost cfgNow b '0' else pure b)
        let b ← putPost cfgNow b (if (arithP rnd p).signbit ep then '-' else '+')
        let b ← putPost cfgNow b (if ops.upper then 'E' else 'e')
        if b.used < cfgNow.size then pure { b with sep := true } else throw Err.fault : M Buf) = .ok b ∧
      b.body = [] ∧ b.used ≤ 8 ∧
      b.post = (if ops.upper then 'E' else 'e') :: (if decide (e < 0) then '-' else '+') :: ds ∧
      ds.all isDig = true ∧ 2 ≤ ds.length ∧ (ds.length = 2 ∨ ds.head? ≠ some '0') ∧ digVal ds = e.natAbs := by
  have hsm : L.small ((e.natAbs : ℕ) : ℚ) :=
    L.small_down (small_nat L 999 (by norm_num)) (by
      have : ((e.natAbs : ℕ) : ℚ) ≤ 999 := by exact_mod_cast he
      push_cast; linarith)
  obtain ⟨ds, b', hrun, hpost, hbody, hsep, hne, hall, hlen, hval, hlead, h9, _⟩ :=
    expLoop_shape L S p cfgNow ops.upper (decide (e < 0)) 3 5 e.natAbs {} (by norm_num) (by norm_num)
      (by norm_num; omega) he hsm (by simp [cfgNow]) (by simp [cfgNow, Buf.used])
  have hmax : max cfgNow.expMax 1 = 5 := by simp [cfgNow]
  have hepv : epv e = .fin (decide (e < 0)) ((e.natAbs : ℕ) : ℚ) := rfl
  rw [hmax, hepv, hrun]
  simp only [bind, Except.bind]
  have hpost' : b'.post = ds := by rw [hpost]; simp
  have hbody' : b'.body = [] := by rw [hbody]
  have hsep' : b'.sep = false := by rw [hsep]
  have hsb : (arithP rnd p).signbit (.fin (decide (e < 0)) 0) = decide (e < 0) := rfl
  rw [hsb, hpost', cstrlen_digits ds hall]
  obtain ⟨post, sep, body⟩ := b'
  simp only at hpost' hbody' hsep'
  subst hpost' hbody' hsep'
  have hlen1 : 1 ≤ post.length := by
    cases post with
    | nil => exact absurd rfl hne
    | cons _ _ => simp
  by_cases h1 : post.length = 1
  · simp only [h1, if_true]
    have hput : ∀ (q : List Char) (c : Char), q.length ≤ 10 →
        putPost cfgNow { post := q, sep := false, body := [] } c = .ok { post := c :: q, sep := false, body := [] } := by
      intro q c hq; unfold putPost; rw [if_pos (by simp [Buf.used, cfgNow]; omega)]
    rw [hput post '0' (by omega)]
    simp only []
    rw [hput _ _ (by simp; omega)]
    simp only []
    rw [hput _ _ (by simp; omega)]
    simp only []
    rw [if_pos (by simp [Buf.used, cfgNow]; omega)]
    refine ⟨_, '0' :: post, rfl, rfl, by simp [Buf.used]; omega, rfl, ?_, by simp; omega, Or.inl (by simp [h1]), ?_⟩
    · simp [hall]; decide
    · -- a leading zero does not change the value
      unfold digVal at hval ⊢
      simp only [List.foldl_cons]
      have : (0 * 10 + (('0' : Char).toNat - 48)) = 0 := by decide
      rw [this]; exact hval
  · simp only [h1, if_false, pure, Except.pure]
    have hput : ∀ (q : List Char) (c : Char), q.length ≤ 10 →
        putPost cfgNow { post := q, sep := false, body := [] } c = .ok { post := c :: q, sep := false, body := [] } := by
      intro q c hq; unfold putPost; rw [if_pos (by simp [Buf.used, cfgNow]; omega)]
    rw [hput _ _ (by omega)]
    simp only []
    rw [hput _ _ (by simp; omega)]
    simp only []
    rw [if_pos (by simp [Buf.used, cfgNow]; omega)]
    refine ⟨_, post, rfl, rfl, by simp [Buf.used]; omega, rfl, hall, by omega, ?_, hval⟩
    rcases hlead with h | h
    · exact absurd h h1
    · exact Or.inr h

/-- **the buffer after `fillBuf`** (%f, %e): integer digits without a superfluous zero, the point, the
generated fraction digits; for %e the exponent text -/
theorem fillBuf_shape_fe (ops : Ops) (d : Digits FV) (a b : ℚ) (e : ℤ)
    (hip : d.ip = .fin false a) (hfp : d.fp = .fin false b) (hep : d.ep = epv e)
    (ha0 : 0 ≤ a) (has : L.small a) (hb0 : 0 ≤ b) (hbs : L.small b) (he : e.natAbs ≤ 999) (hsc : d.signCount ≤ 340)
    (hE : d.withExp = true → ∃ i : ℕ, a = i ∧ i ≤ 9)
    (hF : d.withExp = false → a < 2 ^ 1024 + 1 ∧ (0 < d.signCount → a ≤ 1 ∨ (d.signCount ≤ 35 ∧ a ≤ 2 ^ 52 + 1))) :
    ∃ (bf : Buf) (intds fracds : List Char),
      fillBuf (arithP rnd p) cfgNow ops false d = .ok bf ∧
      bf.body = intds ++ (if (decide (d.precision ≠ 0) || decide (d.signCount ≠ 0) || ops.spec) then ['.'] else []) ++ fracds ∧
      intds ≠ [] ∧ intds.all isDig = true ∧ (intds.length = 1 ∨ intds.head? ≠ some '0') ∧
      (∀ j : ℕ, a = j → 1 ≤ j → intds.head? ≠ some '0') ∧ (a = 0 → intds = ['0']) ∧
      fracds.length = d.signCount ∧ fracds.all isDig = true ∧
      intLoop (arithP rnd p) { cfgNow with repaired := false } ops.upper (cfgNow.size + 1) d.ip
        { post := bf.post, sep := bf.sep,
          body := (if (decide (d.precision ≠ 0) || decide (d.signCount ≠ 0) || ops.spec) then ['.'] else []) ++ fracds } = .ok bf ∧
      (d.withExp = false → bf.post.take (cstrlen bf.post) = []) ∧
      (d.withExp = true → intds.length = 1 ∧ ∃ ds, bf.post.take (cstrlen bf.post) =
          (if ops.upper then 'E' else 'e') :: (if decide (e < 0) then '-' else '+') :: ds ∧
          ds.all isDig = true ∧ 2 ≤ ds.length ∧ (ds.length = 2 ∨ ds.head? ≠ some '0') ∧ digVal ds = e.natAbs) := by
  -- the first phase: the exponent text
  have hph1 : ∃ b1 : Buf,
      (if d.withExp then (do
        let (ep, b) ← expLoop (arithP rnd p) cfgNow ops.upper (if cfgNow.repaired then max cfgNow.expMax 1 else cfgNow.size + 1) d.ep {}
        let b ← (if cstrlen b.post = 1 then putPost cfgNow b '0' else pure b)
        let b ← putPost cfgNow b (if (arithP rnd p).signbit ep then '-' else '+')
        let b ← putPost cfgNow b (if ops.upper then 'E' else 'e')
        if b.used < cfgNow.size then pure { b with sep := true } else throw Err.fault : M Buf) else pure {}) = .ok b1 ∧
      b1.body = [] ∧ b1.used ≤ 8 ∧ (d.withExp = false → b1.post = []) ∧
      (d.withExp = true → ∃ ds, b1.post = (if ops.upper then 'E' else 'e') :: (if decide (e < 0) then '-' else '+') :: ds ∧
          ds.all isDig = true ∧ 2 ≤ ds.length ∧ (ds.length = 2 ∨ ds.head? ≠ some '0') ∧ digVal ds = e.natAbs) := by
    cases hw : d.withExp
    · exact ⟨{}, rfl, rfl, by simp [Buf.used], fun _ => rfl, fun h => absurd h (by simp)⟩
    · obtain ⟨b1, ds, hrun, h1, h2, h3, h4⟩ := expPart_shape L S p ops e he
      have hr : (if cfgNow.repaired then max cfgNow.expMax 1 else cfgNow.size + 1) = max cfgNow.expMax 1 := by simp [cfgNow]
      simp only [if_true, hr, hep]
      exact ⟨b1, hrun, h1, h2, fun h => absurd h (by simp), fun _ => ⟨ds, h3, h4⟩⟩
  obtain ⟨b1, hrun1, hb1body, hb1used, hb1F, hb1E⟩ := hph1
  -- the fraction digits
  obtain ⟨fracds, b2, hrun2, hb2body, hb2post, hb2sep, hflen, hfall, _⟩ :=
    fracLoop_shape L S p cfgNow ops.upper d.signCount b b1 hb0 hbs (by simp [cfgNow]; omega)
  have hb2used : b2.used = b1.used + d.signCount := by
    simp [Buf.used, hb2body, hb2post, hb2sep, hb1body, hflen]
  -- the point
  set dotc : Bool := (decide (d.precision ≠ 0) || decide (d.signCount ≠ 0) || ops.spec) with hdotc
  have hdot : ∃ b3 : Buf, (if dotc then putBody cfgNow b2 '.' else pure b2 : M Buf) = .ok b3 ∧
      b3.body = (if dotc then ['.'] else []) ++ fracds ∧ b3.post = b1.post ∧ b3.sep = b1.sep ∧ b3.used ≤ b2.used + 1 := by
    cases dotc
    · exact ⟨b2, rfl, by simp [hb2body, hb1body], hb2post, hb2sep, by omega⟩
    · refine ⟨{ b2 with body := '.' :: b2.body }, ?_, by simp [hb2body, hb1body], hb2post, hb2sep, by rw [used_putBody]⟩
      simp only [if_true]; unfold putBody; rw [if_pos (by simp [cfgNow]; omega)]
  obtain ⟨b3, hrun3, hb3body, hb3post, hb3sep, hb3used⟩ := hdot
  -- the integer digits
  have hint : ∃ k : ℕ, 1 ≤ k ∧ a < 8 ^ k ∧ b3.used + k ≤ 352 := by
    cases hw : d.withExp
    · obtain ⟨htop, hsc'⟩ := hF hw
      rcases Nat.eq_zero_or_pos d.signCount with h0 | hpos
      · exact ⟨342, by norm_num, lt_of_lt_of_le htop (pow8_342 L S), by omega⟩
      · rcases hsc' hpos with h1 | ⟨h35, h52⟩
        · exact ⟨1, le_refl _, by linarith, by omega⟩
        · refine ⟨18, by norm_num, ?_, by omega⟩
          have : (8 : ℚ) ^ 18 = 2 ^ 52 * 4 := by
            rw [show (8 : ℚ) = 2 ^ 3 by norm_num, ← pow_mul]; norm_num
          rw [this]
          have : (1 : ℚ) ≤ 2 ^ 52 := one_le_pow₀ (by norm_num)
          linarith
    · obtain ⟨i, hi, hi9⟩ := hE hw
      refine ⟨2, by norm_num, ?_, by omega⟩
      have : (i : ℚ) ≤ 9 := by exact_mod_cast hi9
      rw [hi]; norm_num; linarith
  obtain ⟨k, hk1, hak, hkused⟩ := hint
  obtain ⟨intds, bf, hrun4, hbfbody, hbfpost, hbfsep, hine, hiall, _, hihead, hilead, hi9, hi0⟩ :=
    intLoop_shape L S p cfgNow ops.upper k (cfgNow.size + 1) a b3 hk1 (by simp [cfgNow]; omega) ha0 has hak
      (by simp [cfgNow]; omega)
  have hung := intLoop_unguarded L S p cfgNow ops.upper k (cfgNow.size + 1) a b3 hk1 (by simp [cfgNow]; omega) ha0 has hak
      (by simp [cfgNow]; omega)
  refine ⟨bf, intds, fracds, ?_, by rw [hbfbody, hb3body]; simp, hine, hiall, hilead,
    fun j hj hj1 => hihead ⟨j, hj, hj1⟩, hi0, hflen, hfall, ?_, ?_, ?_⟩
  · unfold fillBuf
    have hs0 : ¬ cfgNow.size = 0 := by simp [cfgNow]
    simp only [hs0, if_false]
    simp only [bind, Except.bind] at hrun1 ⊢
    rw [hrun1]
    simp only [hfp, hrun2, hip]
    have hd' : ((decide (d.precision ≠ 0) && !false) || decide (d.signCount ≠ 0) || ops.spec) = dotc := by
      rw [hdotc]; simp
    simp only [ne_eq, Bool.not_false, Bool.and_true] at hd' ⊢
    rw [hd', hrun3]
    exact hrun4
  · rw [hip, hbfpost, hbfsep, ← hb3body, ← hung]
    obtain ⟨p3, s3, bd3⟩ := b3
    exact hrun4
  · intro hw
    rw [hbfpost, hb3post, hb1F hw]; rfl
  · intro hw
    obtain ⟨i, hi, hi9'⟩ := hE hw
    obtain ⟨ds, hpost, hd1, hd2, hd3, hd4⟩ := hb1E hw
    refine ⟨hi9 (by rw [hi]; exact_mod_cast hi9'), ds, ?_, hd1, hd2, hd3, hd4⟩
    rw [hbfpost, hb3post, hpost]
    apply cstrlen_full
    intro c hc
    simp only [List.mem_cons] at hc
    rcases hc with rfl | rfl | hc
    · cases ops.upper <;> decide
    · cases decide (e < 0) <;> decide
    · exact isDig_ne_nul (List.all_eq_true.mp hd1 c hc)

/-- **ISO shape of %f / %e** for a sharp lawful rounding: the text `print_f` emits for a finite argument
satisfies the independent predicate `isoShape` -/
theorem printF_shape_fe (N fuel : ℕ) (neg : Bool) (x0 : ℚ) (nanNeg : Bool) (width precision : ℤ) (ops : Ops)
    (withExp : Bool) (hx : rnd x0 = some x0) (h0 : 0 ≤ x0) (hN : x0 < 10 * 8 ^ N) (hN' : x0 = 0 ∨ 1 ≤ x0 * 8 ^ N)
    (hf : N ≤ fuel) (hNb : N + 2 ≤ 2 ^ 30) (hN999 : N + 1 ≤ 999) (hp0 : 0 ≤ precision) (hp1 : precision ≤ 2147483647) :
    ∃ out pc, printF (arithP rnd p) cfgNow fuel (.fin neg x0) nanNeg width precision ops withExp false = .ok (out, pc) ∧
      isoShape (if withExp then .e else .f) ops width precision neg out = true := by
  obtain ⟨out, pc, hrun⟩ :=
    printF_total L p N fuel neg x0 nanNeg width precision ops withExp false hx h0 hN hN' hf hNb hp0 hp1
  refine ⟨out, pc, hrun, ?_⟩
  have hfin : ((arithP rnd p).isnan (.fin neg x0) || (arithP rnd p).isinf (.fin neg x0)) = false := rfl
  obtain ⟨d, bf, hd, hb, hl⟩ := printF_finite_ok (cfg := cfgNow) rfl hfin hrun
  have e4 : (if (arithP rnd p).signbit (.fin neg x0) then (arithP rnd p).neg (.fin neg x0) else .fin neg x0) = .fin false x0 := by
    cases neg <;> rfl
  rw [e4] at hd
  obtain ⟨hzl, ho, _⟩ := layout_spec rfl hl
  obtain ⟨d', a, b, e, hd', hip, hfp, hep, hwe, hprec, ha0, has, hb0, hbs, he, hsc, hscP, hE, hF⟩ :=
    digitsOf_shape_fe L S p N fuel x0 precision ops withExp hx h0 hN hN' hf hNb hp0 hp1
  rw [hd] at hd'
  injection hd' with hdd
  subst hdd
  obtain ⟨bf', intds, fracds, hb', hbody, hine, hiall, hilead, hihead, hi0, hflen, hfall, _, hpostF, hpostE⟩ :=
    fillBuf_shape_fe L S p ops d a b e hip hfp hep ha0 has hb0 hbs (by omega) hsc
      (fun h => by obtain ⟨i, hi, hi9, _⟩ := hE (by rw [← hwe]; exact h); exact ⟨i, hi, hi9⟩)
      (fun h => hF (by rw [← hwe]; exact h))
  rw [hb] at hb'
  injection hb' with hbb
  subst hbb
  have hsb : (arithP rnd p).signbit (.fin neg x0) = neg := rfl
  rw [hsb] at ho
  simp only [Bool.false_and, Bool.false_eq_true, if_false] at ho hzl
  rw [ho]
  apply isoShape_of_layout
  -- the precision in force and the point
  have hPeq : ((effPrec ops precision : ℕ) : ℤ) = d.precision := by
    rw [hprec]; unfold effPrec; split
    · simp [Int.toNat_of_nonneg hp0]
    · rfl
  have hPnat : effPrec ops precision = d.precision.toNat := by rw [← hPeq]; simp
  have hfraclen : (fracds ++ List.replicate (d.precision - (d.signCount : ℤ)).toNat '0').length = effPrec ops precision := by
    rw [List.length_append, List.length_replicate, hflen, hPnat]; omega
  have hfracall : (fracds ++ List.replicate (d.precision - (d.signCount : ℤ)).toNat '0').all isDig = true :=
    all_dig_append_zeros fracds _ hfall
  have hdot : (decide (d.precision ≠ 0) || decide (d.signCount ≠ 0) || ops.spec) =
      (decide (0 < effPrec ops precision) || ops.spec) := by
    have h1 : decide (d.signCount ≠ 0) = true → decide (d.precision ≠ 0) = true := by
      intro h; simp at h ⊢; omega
    have h2 : decide (d.precision ≠ 0) = decide (0 < effPrec ops precision) := by
      rw [hPnat]; apply decide_eq_decide.mpr; omega
    rw [← h2]
    cases hc1 : decide (d.precision ≠ 0) <;> cases hc2 : decide (d.signCount ≠ 0) <;> simp_all
  cases hw : withExp
  · -- %f
    have hpost := hpostF (by rw [hwe]; exact hw)
    rw [hpost, hbody]
    simp only [Bool.false_eq_true, if_false]
    have e1 : intds ++ (if (decide (d.precision ≠ 0) || decide (d.signCount ≠ 0) || ops.spec) = true then ['.'] else []) ++ fracds ++
        List.replicate (d.precision - (d.signCount : ℤ)).toNat '0' ++ [] =
        intds ++ (if (decide (d.precision ≠ 0) || decide (d.signCount ≠ 0) || ops.spec) = true then ['.'] else []) ++
          (fracds ++ List.replicate (d.precision - (d.signCount : ℤ)).toNat '0') := by simp
    rw [e1]
    exact numShape_f ops.spec ops.upper _ intds _ hiall hine hilead hfracall hfraclen _ hdot
  · -- %e
    obtain ⟨hi1, ds, hpost, hd1, hd2, hd3, hd4⟩ := hpostE (by rw [hwe]; exact hw)
    obtain ⟨i, hi, hi9, hiz⟩ := hE hw
    obtain ⟨c, hc⟩ : ∃ c, intds = [c] := by
      cases intds with
      | nil => exact absurd rfl hine
      | cons c t =>
        cases t with
        | nil => exact ⟨c, rfl⟩
        | cons _ _ => simp at hi1
    subst hc
    rw [hpost, hbody]
    simp only [if_true]
    have e1 : [c] ++ (if (decide (d.precision ≠ 0) || decide (d.signCount ≠ 0) || ops.spec) = true then ['.'] else []) ++ fracds ++
        List.replicate (d.precision - (d.signCount : ℤ)).toNat '0' ++
        ((if ops.upper = true then 'E' else 'e') :: (if decide (e < 0) = true then '-' else '+') :: ds) =
        [c] ++ (if (decide (d.precision ≠ 0) || decide (d.signCount ≠ 0) || ops.spec) = true then ['.'] else []) ++
          (fracds ++ List.replicate (d.precision - (d.signCount : ℤ)).toNat '0') ++
        ((if ops.upper = true then 'E' else 'e') :: (if decide (e < 0) = true then '-' else '+') :: ds) := by simp
    rw [e1]
    refine numShape_e ops.spec ops.upper _ c _ (by simpa using hiall) hfracall hfraclen _ hdot (decide (e < 0)) ds hd1 hd2 hd3
      (fun hneg => by rw [hd4]; simp at hneg; omega) (fun hc0 => ?_)
    -- a zero leading digit: the argument is zero
    have hi00 : i = 0 := by
      by_contra hne
      have := hihead i hi (by omega)
      simp [hc0] at this
    obtain ⟨hsc0, he0⟩ := hiz hi00
    have : fracds = [] := List.eq_nil_of_length_eq_zero (by rw [hflen, hsc0])
    refine ⟨?_, by rw [hd4, he0]; rfl⟩
    rw [this]; simp

/-- **the integer-digit guard never truncates** (%f, %e): the buffer `fillBuf` returns is the one the UNGUARDED
integer-digit loop (the loop without `&& (str > &buff[0])`) produces after the fraction digits and the point: with
the constants of the repaired code every integer part is printed completely, for every precision -/
theorem printF_int_unguarded (N fuel : ℕ) (x0 : ℚ) (precision : ℤ) (ops : Ops)
    (withExp : Bool) (hx : rnd x0 = some x0) (h0 : 0 ≤ x0) (hN : x0 < 10 * 8 ^ N) (hN' : x0 = 0 ∨ 1 ≤ x0 * 8 ^ N)
    (hf : N ≤ fuel) (hNb : N + 2 ≤ 2 ^ 30) (hN999 : N + 1 ≤ 999) (hp0 : 0 ≤ precision) (hp1 : precision ≤ 2147483647) :
    ∃ (d : Digits FV) (bf : Buf) (dotfrac : List Char),
      digitsOf (arithP rnd p) cfgNow fuel (.fin false x0) precision ops withExp false = .ok d ∧
      fillBuf (arithP rnd p) cfgNow ops false d = .ok bf ∧
      intLoop (arithP rnd p) { cfgNow with repaired := false } ops.upper (cfgNow.size + 1) d.ip
        { post := bf.post, sep := bf.sep, body := dotfrac } = .ok bf := by
  obtain ⟨d, a, b, e, hd, hip, hfp, hep, hwe, hprec, ha0, has, hb0, hbs, he, hsc, hscP, hE, hF⟩ :=
    digitsOf_shape_fe L S p N fuel x0 precision ops withExp hx h0 hN hN' hf hNb hp0 hp1
  obtain ⟨bf, intds, fracds, hb, _, _, _, _, _, _, _, _, hung, _, _⟩ :=
    fillBuf_shape_fe L S p ops d a b e hip hfp hep ha0 has hb0 hbs (by omega) hsc
      (fun h => by obtain ⟨i, hi, hi9, _⟩ := hE (by rw [← hwe]; exact h); exact ⟨i, hi, hi9⟩)
      (fun h => hF (by rw [← hwe]; exact h))
  exact ⟨d, bf, _, hd, hb, hung⟩

end
end Igris.C13
