/-
  C13, round 3 — the OBSERVABLE at rounding ties (core Lean only; used by the driver).

  The property leaves the direction of an exact tie open ("within half a unit of the last
  printed digit ... so exact ties may round either way").  A byte comparison of the model's
  text (roundl: half away from zero) with the text of the code would therefore compare more
  than the property states.  `tieCanon` is the canonicalisation BOTH sides of the
  correspondence apply to their own text (the harness with GMP rationals, the driver with
  `Rat`): it only looks at the directive, the exact value x of the argument and the text.

    u  = unit of the last digit the directive demands (10^-P for %f, 10^(⌊log10 x⌋-P) for %e,
         10^(⌊log10 x⌋-Pg+1) for %g)
    V  = the value of the printed text
    the text is in the TIE CLASS iff  x / 2^46 ≤ u / 4  and  | |V - x| - u/2 | ≤ x / 2^46
         (the unit is coarse against the engine's accumulated error, and the argument lies on - or
          within 2^-46 relative of - the midpoint between V and its neighbour on x's side: an exact
          tie, or a tie of the engine's own scaled value)
    canonical form in the class: the LOWER of the two neighbours, as an exact rational
         (if V > x then V - u else V); outside the class the text is compared byte for byte.

  Both neighbours of a tie have the same canonical form; everything else is unchanged.
-/
import IgrisModel.C13.Model
namespace Igris.C13

/-- 10^e as a rational -/
def pow10 (e : Int) : Rat :=
  if e ≥ 0 then ((10 ^ e.toNat : Nat) : Rat) else 1 / ((10 ^ (-e).toNat : Nat) : Rat)

def log10Down : Nat → Rat → Int → Int
  | 0, _, e => e
  | n + 1, q, e => if pow10 e > q then log10Down n q (e - 1) else e

def log10Up : Nat → Rat → Int → Int
  | 0, _, e => e
  | n + 1, q, e => if pow10 (e + 1) ≤ q then log10Up n q (e + 1) else e

/-- ⌊log₁₀ q⌋ for q > 0: an estimate from the binary logarithm, corrected by comparison -/
def ilog10 (q : Rat) : Int :=
  let e0 : Int := (ilog2 q * 30103) / 100000
  log10Up 8 q (log10Down 8 q e0)

structure NumScan where
  n : Nat := 0          -- all mantissa digits read as one integer
  fd : Nat := 0         -- digits after the point
  dot : Bool := false
  inExp : Bool := false
  expNeg : Bool := false
  ex : Nat := 0

def NumScan.step (s : NumScan) (c : Char) : NumScan :=
  let isD := decide ('0' ≤ c) && decide (c ≤ '9')
  let d := c.toNat - 48
  if s.inExp then
    if c = '-' then { s with expNeg := true }
    else if isD then { s with ex := s.ex * 10 + d } else s
  else if isD then { s with n := s.n * 10 + d, fd := if s.dot then s.fd + 1 else s.fd }
  else if c = '.' then { s with dot := true }
  else if c = 'e' || c = 'E' then { s with inExp := true }
  else s

/-- the value of a printed number (blanks, sign and padding zeros do not matter) -/
def textValue (cs : List Char) : Rat :=
  let s := cs.foldl NumScan.step {}
  ((s.n : Nat) : Rat) * pow10 ((if s.expNeg then -(s.ex : Int) else (s.ex : Int)) - (s.fd : Int))

/-- unit of the last digit demanded by the directive for the value x > 0
(`conv` = 'f' 'e' 'g' in lower case) -/
def unitOf (conv : Char) (hasPrec : Bool) (prec : Int) (x : Rat) : Rat :=
  let P : Int := if hasPrec then prec else 6
  if conv = 'f' then pow10 (-P)
  else if conv = 'e' then pow10 (ilog10 x - P)
  else pow10 (ilog10 x - (if P = 0 then 1 else P) + 1)

def absQ (q : Rat) : Rat := if q < 0 then -q else q

/-- the arithmetic core of the canonicalisation: window `w`, unit `u`, argument `x`, printed value `v` -/
def tieLower (w u x v : Rat) : Option Rat :=
  if w ≤ u / 4 && absQ (absQ (v - x) - u / 2) ≤ w then some (if v > x then v - u else v) else none

/-- `some lower` iff the text is in the tie class of (directive, x) -/
def tieCanon (conv : Char) (hasPrec : Bool) (prec : Int) (x : Rat) (text : List Char) : Option Rat :=
  if x ≤ 0 || prec > 5000 then none else
  tieLower (x / ((2 ^ 46 : Nat) : Rat)) (unitOf conv hasPrec prec x) x (textValue text)

/-- the unit of the last digit is FINE against the engine's accumulated error (the window of `tieCanon` is not
used): only there the question "did the engine see a tie" (`tieSeen`) is asked -/
def isFine (conv : Char) (hasPrec : Bool) (prec : Int) (x : Rat) : Bool :=
  if x ≤ 0 || prec > 5000 then false else
  decide (unitOf conv hasPrec prec x / 4 < x / ((2 ^ 46 : Nat) : Rat))

/-! ### the tie as the engine itself sees it

`tieSeen` = "the scaled value handed to `roundl` has the fractional part exactly 1/2": the lines of `digitsOf`
up to and including the fraction scaling loop, then `FMOD(fp, 1.0) == 0.5`.  Where the unit of the last digit
is finer than the engine's own accumulated error the tie the engine sees is not a tie of the argument (and
cannot be recognised from x and the text); both neighbours are within the bound of the property all the
same.  The harness decides the same question by running the same scaling steps on the host FPU. -/
open Igris.C06 (Ops) in
def tieSeen {α : Type} (A : Arith α) (cfg : Cfg) (fuel : Nat) (r : α) (precision : Int) (ops : Ops)
    (withExp isShort : Bool) : Bool :=
  let precision : Int := if ops.prec then (if isShort then max precision 1 else precision) else 6
  let (fp, ip) := A.modf r
  let pre : M (α × α × α × Bool) :=
    (if withExp || isShort then do
        let (ip, fp, ep) ← normDown A fuel ip fp A.zero
        let (ip, fp, ep) ← (if A.ne fp A.zero then normUp A fuel ip fp ep else pure (ip, fp, ep))
        let withExp := if A.lt ep (A.ofInt (-4)) || A.ge ep (A.ofInt precision) then true else withExp
        pure (ip, fp, ep, withExp)
      else pure (ip, fp, A.zero, withExp))
  match pre with
  | .error _ => false
  | .ok (_, fp, ep, withExp) =>
    let fp := if withExp then fp else (A.modf r).1
    let prec' : M Int := (if isShort then (if withExp then pure (precision - 1) else do
                      let e ← toIntM A ep
                      pure (precision - (e + 1))) else pure precision)
    match prec' with
    | .error _ => false
    | .ok precision =>
      let passes : Nat := if cfg.repaired then min precision.toNat cfg.fracMax else precision.toNat
      let (_, fp) := scaleLoop A passes 0 fp
      A.eq (A.fmod fp A.one) (A.div A.one (A.ofInt 2))

end Igris.C13
