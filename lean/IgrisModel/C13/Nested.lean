/-
  C13, round 3 — re-entrancy: a printchar callback that itself formats (core Lean only; used by the driver).

  The outer conversion hands its characters to the callback one by one; the callback of the experiment
  appends the character to the outer sink and, right after character number `k` (0-based), runs a NESTED
  conversion through the same engine into a second sink.  In the model `print_f` is a function of its
  arguments (there is no static state), so the nested call is the independent call - `runNested_spec` in
  Props.lean; whether the C code has that property (a `static` digit buffer would break it) is what the
  `pfn` ops of the correspondence check.
-/
import IgrisModel.C13.Model
namespace Igris.C13

/-- state of the experiment: the outer sink, and the result of the nested conversion once it ran -/
structure NestSt (ρ : Type) where
  out : List Char := []
  inner : Option ρ := none

/-- the callback: store the character; after character number `k` run the nested conversion -/
def nestCb {ρ : Type} (k : Nat) (inner : Unit → ρ) (s : NestSt ρ) (c : Char) : NestSt ρ :=
  if s.out.length = k then { out := s.out ++ [c], inner := some (inner ()) }
  else { s with out := s.out ++ [c] }

/-- the characters `out` of the outer conversion go through the callback in order -/
def runNested {ρ : Type} (k : Nat) (inner : Unit → ρ) (out : List Char) : NestSt ρ :=
  out.foldl (nestCb k inner) {}

end Igris.C13
