/-
  C13, round 3 — lemmas: any round-to-nearest tie rule, the callback experiment, `int` width arithmetic.
-/
import IgrisModel.C13.ErrBound
import IgrisModel.C13.Nested
import IgrisModel.C13.IntW
import IgrisModel.C13.Tie
namespace Igris.C13
open Igris.C06 (Ops)

/-! ### 1. the tie rule -/

/-- off a tie, EVERY rounding to a nearest integer is `roundl` (floor (w + 1/2)) -/
theorem nearest_off_tie (w : ℚ) (k : ℤ) (hk : |(k : ℚ) - w| ≤ 1 / 2) (hnt : w - FV.flr w ≠ 1 / 2) :
    (k : ℚ) = FV.flr (w + 1 / 2) := by
  unfold FV.flr at *
  rw [ratFloor_eq] at *
  rw [abs_le] at hk
  obtain ⟨h1, h2⟩ := hk
  have g1 := Int.floor_le (w + 1 / 2)
  have g2 := Int.lt_floor_add_one (w + 1 / 2)
  have hle : k ≤ ⌊w + 1 / 2⌋ := by
    have : (k : ℚ) < ((⌊w + 1 / 2⌋ + 1 : ℤ) : ℚ) := by push_cast; linarith
    have := Int.cast_lt.mp this
    omega
  have hge : ⌊w + 1 / 2⌋ - 1 ≤ k := by
    have : ((⌊w + 1 / 2⌋ - 1 : ℤ) : ℚ) ≤ (k : ℚ) := by push_cast; linarith
    exact Int.cast_le.mp this
  rcases (by omega : k = ⌊w + 1 / 2⌋ ∨ k = ⌊w + 1 / 2⌋ - 1) with h | h
  · rw [h]
  · exfalso
    apply hnt
    have hkq : (k : ℚ) = (⌊w + 1 / 2⌋ : ℚ) - 1 := by rw [h]; push_cast; ring
    have hf : ⌊w⌋ = ⌊w + 1 / 2⌋ - 1 := by
      rw [Int.floor_eq_iff]; push_cast; constructor <;> linarith
    rw [hf]; push_cast; linarith

/-- on a tie every rounding to a nearest integer gives one of the two neighbours -/
theorem nearest_on_tie (w : ℚ) (k : ℤ) (hk : |(k : ℚ) - w| ≤ 1 / 2) (ht : w - FV.flr w = 1 / 2) :
    (k : ℚ) = FV.flr w ∨ (k : ℚ) = FV.flr w + 1 := by
  unfold FV.flr at *
  rw [ratFloor_eq] at *
  rw [abs_le] at hk
  obtain ⟨h1, h2⟩ := hk
  have a : ⌊w⌋ ≤ k := by
    have : ((⌊w⌋ : ℤ) : ℚ) ≤ (k : ℚ) := by linarith
    exact Int.cast_le.mp this
  have b : k ≤ ⌊w⌋ + 1 := by
    have : (k : ℚ) ≤ ((⌊w⌋ + 1 : ℤ) : ℚ) := by push_cast; linarith
    exact Int.cast_le.mp this
  rcases (by omega : k = ⌊w⌋ ∨ k = ⌊w⌋ + 1) with h | h
  · left; rw [h]
  · right; rw [h]; push_cast; ring

/-! ### 2. the callback experiment -/

theorem runNested_aux {ρ : Type} (k : Nat) (inner : Unit → ρ) (l : List Char) (s : NestSt ρ)
    (hs : s.inner = if k < s.out.length then some (inner ()) else none) :
    (l.foldl (nestCb k inner) s).out = s.out ++ l ∧
    (l.foldl (nestCb k inner) s).inner = if k < (s.out ++ l).length then some (inner ()) else none := by
  induction l generalizing s with
  | nil => simpa using hs
  | cons c cs ih =>
    simp only [List.foldl_cons]
    have hs' : (nestCb k inner s c).inner = if k < (nestCb k inner s c).out.length then some (inner ()) else none := by
      unfold nestCb
      by_cases h : s.out.length = k
      · simp [h]
      · simp only [h, if_false, List.length_append, List.length_singleton]
        rw [hs]
        by_cases h2 : k < s.out.length
        · simp [h2]; omega
        · simp [h2]; omega
    have ho : (nestCb k inner s c).out = s.out ++ [c] := by
      unfold nestCb; split <;> rfl
    obtain ⟨i1, i2⟩ := ih (nestCb k inner s c) hs'
    rw [ho] at i1 i2
    constructor
    · rw [i1]; simp
    · rw [i2]; simp

/-! ### 3. `int` arithmetic of the emission part -/

theorem ckInt_ok {v : Int} (h1 : -2147483648 ≤ v) (h2 : v ≤ 2147483647) : ckInt v = .ok v := by
  unfold ckInt fitsInt INT_MAX
  simp [h1, h2]

/-! ### 4. non-finite values -/

/-- the ISO text of a non-finite value: sign by the minus / plus / space rule, `inf` or `nan`, upper case for F E G -/
def nfText (isNan neg : Bool) (ops : Ops) : List Char :=
  signText neg ops ++ (if isNan then (if ops.upper then "NAN".toList else "nan".toList)
                       else (if ops.upper then "INF".toList else "inf".toList))

theorem absQ_eq (q : ℚ) : absQ q = |q| := by
  unfold absQ
  split
  · rw [abs_of_neg (by assumption)]
  · rw [abs_of_nonneg (by linarith)]

theorem ckInt_ok' {v : Int} (h : -2147483648 ≤ v ∧ v ≤ 2147483647) : ckInt v = .ok v := ckInt_ok h.1 h.2

end Igris.C13
