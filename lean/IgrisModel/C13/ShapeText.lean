/-
  C13 — the shape predicate `isoShape` accepts a text that is laid out by `specLayout` around a
  number made of digit blocks with the right counts (pure list reasoning, no arithmetic).
-/
import IgrisModel.C13.Shape
import IgrisModel.C13.Lemmas
import Mathlib.Data.List.Basic
namespace Igris.C13
open Igris.C06 (Ops NUL)

theorem isDig_not_dot {c : Char} (h : isDig c = true) : c ≠ '.' := by
  intro hc; subst hc; revert h; decide

theorem takeWhile_head_neg {p : Char → Bool} (r : List Char) (h : ∀ c, r.head? = some c → p c = false) :
    r.takeWhile p = [] ∧ r.dropWhile p = r := by
  cases r with
  | nil => simp
  | cons c t =>
    have := h c rfl
    simp [List.takeWhile, List.dropWhile, this]

theorem tw_append {p : Char → Bool} (ds r : List Char) (hd : ds.all p = true) (h : ∀ c, r.head? = some c → p c = false) :
    (ds ++ r).takeWhile p = ds ∧ (ds ++ r).dropWhile p = r := by
  have hall : ∀ a ∈ ds, p a = true := List.all_eq_true.mp hd
  obtain ⟨h1, h2⟩ := takeWhile_head_neg r h
  rw [List.takeWhile_append_of_pos hall, List.dropWhile_append_of_pos hall, h1, h2]
  simp

/-- parsing a number text that is built from its parts gives the parts back -/
theorem splitNum_dot (intd frac rest : List Char) (hi : intd.all isDig = true) (hf : frac.all isDig = true)
    (hrest : ∀ c, rest.head? = some c → isDig c = false) :
    splitNum (intd ++ '.' :: frac ++ rest) = { intd := intd, dot := true, frac := frac, rest := rest } := by
  unfold splitNum
  have e : intd ++ '.' :: frac ++ rest = intd ++ ('.' :: (frac ++ rest)) := by simp
  rw [e]
  obtain ⟨h1, h2⟩ := tw_append (p := isDig) intd ('.' :: (frac ++ rest)) hi (by
    intro c hc; simp at hc; subst hc; decide)
  obtain ⟨h3, h4⟩ := tw_append (p := isDig) frac rest hf hrest
  rw [h1, h2]
  simp only [h3, h4]

theorem splitNum_nodot (intd rest : List Char) (hi : intd.all isDig = true)
    (hrest : ∀ c, rest.head? = some c → isDig c = false ∧ c ≠ '.') :
    splitNum (intd ++ rest) = { intd := intd, dot := false, frac := [], rest := rest } := by
  unfold splitNum
  obtain ⟨h1, h2⟩ := tw_append (p := isDig) intd rest hi (fun c hc => (hrest c hc).1)
  rw [h1, h2]
  cases rest with
  | nil => rfl
  | cons c t =>
    have := (hrest c rfl).2
    split
    · rename_i r heq; injection heq with hc _; exact absurd hc this
    · rfl

theorem all_dig_append_zeros (ds : List Char) (z : Nat) (h : ds.all isDig = true) :
    (ds ++ List.replicate z '0').all isDig = true := by
  rw [List.all_append, h]
  simp only [Bool.true_and, List.all_eq_true]
  intro c hc
  rw [List.mem_replicate] at hc
  rw [hc.2]; decide

/-- %f: integer digits, point iff (P > 0 or #), exactly P fraction digits -/
theorem numShape_f (hash upper : Bool) (P : Nat) (intd frac : List Char) (hi : intd.all isDig = true) (hne : intd ≠ [])
    (hlead : intd.length = 1 ∨ intd.head? ≠ some '0') (hf : frac.all isDig = true) (hlen : frac.length = P)
    (dot : Bool) (hdot : dot = (decide (0 < P) || hash)) :
    numShape .f hash upper P (intd ++ (if dot then ['.'] else []) ++ frac) = true := by
  have hP : dot = false → frac = [] := by
    intro hd; rw [hd] at hdot
    have : P = 0 := by
      by_contra hc
      have : 0 < P := by omega
      simp [this] at hdot
    exact List.eq_nil_of_length_eq_zero (by omega)
  unfold numShape
  cases dot with
  | true =>
    have e : intd ++ (if true = true then ['.'] else []) ++ frac = intd ++ '.' :: frac ++ [] := by simp
    rw [e, splitNum_dot intd frac [] hi hf (by simp)]
    simp only [hlen, ← hdot]
    rcases hlead with h | h
    · simp [h, hne]
    · simp [h, hne]
  | false =>
    have e : intd ++ (if false = true then ['.'] else []) ++ frac = intd ++ [] := by simp [hP rfl]
    rw [e, splitNum_nodot intd [] hi (by simp)]
    have hl0 : P = 0 := by rw [← hlen, hP rfl]; rfl
    have hh : hash = false := by rw [hl0] at hdot; simpa using hdot.symm
    simp only [hl0, hh]
    rcases hlead with h | h
    · simp [h, hne]
    · simp [h, hne]

theorem digVal_zeros_aux (ds : List Char) (h : ds.all (· = '0') = true) (acc : Nat) :
    ds.foldl (fun a c => a * 10 + (c.toNat - 48)) acc = acc * 10 ^ ds.length := by
  induction ds generalizing acc with
  | nil => simp
  | cons c t ih =>
    simp only [List.all_cons, Bool.and_eq_true, decide_eq_true_eq] at h
    obtain ⟨hc, ht⟩ := h
    subst hc
    simp only [List.foldl_cons, List.length_cons]
    rw [ih ht]
    have : ('0' : Char).toNat - 48 = 0 := by decide
    rw [this, Nat.add_zero, Nat.pow_succ, Nat.mul_assoc, Nat.mul_comm 10]

theorem digVal_zeros (ds : List Char) (h : ds.all (· = '0') = true) : digVal ds = 0 := by
  unfold digVal; rw [digVal_zeros_aux ds h]; simp

/-- the exponent text `e±dd` built from its parts -/
theorem expShape_ok (upper : Bool) (neg : Bool) (ds : List Char) (hd : ds.all isDig = true) (h2 : 2 ≤ ds.length)
    (hlead : ds.length = 2 ∨ ds.head? ≠ some '0') (hz : neg = true → digVal ds ≠ 0) :
    expShape upper ((if upper then 'E' else 'e') :: (if neg then '-' else '+') :: ds) =
      some (if neg then -(digVal ds : Int) else (digVal ds : Int)) := by
  unfold expShape
  have hnz : !((if neg = true then '-' else '+') = '-' && ds.all (· = '0')) = true := by
    cases neg with
    | false => simp
    | true =>
      have hall : ds.all (· = '0') = false := by
        cases h : ds.all (· = '0') with
        | false => rfl
        | true => exact absurd (digVal_zeros ds h) (hz rfl)
      rw [hall]; simp
  have hs : ((if neg = true then '-' else '+') = '+' || (if neg = true then '-' else '+') = '-') = true := by
    cases neg <;> simp
  have hl : (decide (ds.length = 2) || ds.head? != some '0') = true := by
    rcases hlead with h | h
    · simp [h]
    · simp [h]
  simp only [hs, hd, h2, hl, decide_true, Bool.and_true]
  cases neg with
  | false => simp
  | true =>
    have hall : ds.all (· = '0') = false := by
      cases h : ds.all (· = '0') with
      | false => rfl
      | true => exact absurd (digVal_zeros ds h) (hz rfl)
    have hex : ∃ x, x ∈ ds ∧ ¬x = '0' := by
      have := List.all_eq_false.mp hall
      simpa using this
    simp
    exact hex

/-- %e: one integer digit, point iff (P > 0 or #), exactly P fraction digits, a well-formed exponent; a zero
leading digit only with an all-zero fraction and exponent 0 -/
theorem numShape_e (hash upper : Bool) (P : Nat) (c : Char) (frac : List Char) (hc : isDig c = true)
    (hf : frac.all isDig = true) (hlen : frac.length = P) (dot : Bool) (hdot : dot = (decide (0 < P) || hash))
    (neg : Bool) (ds : List Char) (hd : ds.all isDig = true) (h2 : 2 ≤ ds.length)
    (hlead : ds.length = 2 ∨ ds.head? ≠ some '0') (hz : neg = true → digVal ds ≠ 0)
    (hzero : c = '0' → frac.all (· = '0') = true ∧ digVal ds = 0) :
    numShape .e hash upper P ([c] ++ (if dot then ['.'] else []) ++ frac ++
      ((if upper then 'E' else 'e') :: (if neg then '-' else '+') :: ds)) = true := by
  have hP : dot = false → frac = [] := by
    intro hd'; rw [hd'] at hdot
    have : P = 0 := by
      by_contra hcn
      have : 0 < P := by omega
      simp [this] at hdot
    exact List.eq_nil_of_length_eq_zero (by omega)
  have hE := expShape_ok upper neg ds hd h2 hlead hz
  have hrest : ∀ x, ((if upper then 'E' else 'e') :: (if neg then '-' else '+') :: ds).head? = some x →
      isDig x = false ∧ x ≠ '.' := by
    intro x hx; simp at hx; subst hx; cases upper <;> simp <;> decide
  have hzero' : ([c] != ['0'] || (frac.all (· = '0') && decide ((if neg then -(digVal ds : Int) else (digVal ds : Int)) = 0))) = true := by
    by_cases hc0 : c = '0'
    · obtain ⟨h1, h2'⟩ := hzero hc0
      simp [h1, h2']
    · simp [hc0]
  unfold numShape
  cases dot with
  | true =>
    have e : [c] ++ (if true = true then ['.'] else []) ++ frac ++
        ((if upper then 'E' else 'e') :: (if neg then '-' else '+') :: ds) =
        [c] ++ '.' :: frac ++ ((if upper then 'E' else 'e') :: (if neg then '-' else '+') :: ds) := by simp
    rw [e, splitNum_dot [c] frac _ (by simp [hc]) hf (fun x hx => (hrest x hx).1)]
    simp only [hE, hlen, ← hdot, hzero']
    simp
  | false =>
    have e : [c] ++ (if false = true then ['.'] else []) ++ frac ++
        ((if upper then 'E' else 'e') :: (if neg then '-' else '+') :: ds) =
        [c] ++ ((if upper then 'E' else 'e') :: (if neg then '-' else '+') :: ds) := by simp [hP rfl]
    rw [e, splitNum_nodot [c] _ (by simp [hc]) hrest]
    have hl0 : P = 0 := by rw [← hlen, hP rfl]; rfl
    have hfn : frac = [] := hP rfl
    subst hfn
    have hh : hash = false := by rw [hl0] at hdot; simpa using hdot.symm
    simp only [hE, hl0, hh] at hzero' ⊢
    simp at hzero' ⊢
    exact hzero'

/-- the field layout: a text produced by `specLayout` around a well-formed number has the ISO shape -/
theorem isoShape_of_layout (conv : Conv) (ops : Ops) (width precision : Int) (neg : Bool) (body : List Char) (z : Nat)
    (expo : List Char)
    (hnum : numShape conv ops.spec ops.upper (effPrec ops precision) (body ++ List.replicate z '0' ++ expo) = true) :
    isoShape conv ops width precision neg (specLayout ops width (signText neg ops) body z expo) = true := by
  unfold isoShape
  rw [List.any_eq_true]
  set sign := signText neg ops with hsign
  set num := body ++ List.replicate z '0' ++ expo with hnumdef
  have hcore : sign.length + body.length + z + expo.length = sign.length + num.length := by
    simp [hnumdef]; omega
  refine ⟨(width - ((sign.length + body.length + z + expo.length : Nat) : Int)).toNat, ?_, ?_⟩
  · rw [List.mem_range]
    have := specLayout_length ops width sign body z expo
    omega
  · have hlen := specLayout_length ops width sign body z expo
    unfold shapeWith
    rw [← hsign]
    generalize hpad : (width - ((sign.length + body.length + z + expo.length : Nat) : Int)).toNat = pad at *
    unfold specLayout at hlen ⊢
    simp only [hpad] at hlen ⊢
    cases hl : ops.left with
    | true =>
      simp only [hl, if_true] at hlen ⊢
      have e : sign ++ body ++ List.replicate z '0' ++ expo ++ List.replicate pad ' ' =
          sign ++ (num ++ List.replicate pad ' ') := by simp [hnumdef]
      rw [e]
      have hL : (sign ++ (num ++ List.replicate pad ' ')).length = sign.length + num.length + pad := by simp; omega
      rw [hL, List.drop_left' rfl]
      have hk : sign.length + num.length + pad - pad - sign.length = num.length := by omega
      rw [hk, List.take_left' rfl, hnum]
      simp only [List.append_assoc, beq_self_eq_true, Bool.and_true, Bool.and_eq_true, Bool.or_eq_true, decide_eq_true_eq]
      rw [e, hL] at hlen
      refine ⟨⟨by omega, ?_⟩, by omega⟩
      omega
    | false =>
      cases hz : ops.zero with
      | true =>
        simp only [hl, hz, Bool.false_eq_true, if_false, if_true] at hlen ⊢
        have e : sign ++ List.replicate pad '0' ++ body ++ List.replicate z '0' ++ expo =
            (sign ++ List.replicate pad '0') ++ num := by simp [hnumdef]
        rw [e]
        have hL : ((sign ++ List.replicate pad '0') ++ num).length = sign.length + pad + num.length := by simp; omega
        rw [hL, List.drop_left' (by simp), hnum]
        simp only [List.append_assoc, beq_self_eq_true, Bool.and_true, Bool.and_eq_true, Bool.or_eq_true, decide_eq_true_eq]
        rw [e, hL] at hlen
        refine ⟨⟨by omega, ?_⟩, by omega⟩
        omega
      | false =>
        simp only [hl, hz, Bool.false_eq_true, if_false] at hlen ⊢
        have e : List.replicate pad ' ' ++ sign ++ body ++ List.replicate z '0' ++ expo =
            (List.replicate pad ' ' ++ sign) ++ num := by simp [hnumdef]
        rw [e]
        have hL : ((List.replicate pad ' ' ++ sign) ++ num).length = pad + sign.length + num.length := by simp; omega
        rw [hL, List.drop_left' (by simp), hnum]
        simp only [List.append_assoc, beq_self_eq_true, Bool.and_true, Bool.and_eq_true, Bool.or_eq_true, decide_eq_true_eq]
        rw [e, hL] at hlen
        refine ⟨⟨by omega, ?_⟩, by omega⟩
        omega

end Igris.C13
