/-
  C13, round 3 — the `int` arithmetic of the emission part of print_f (core Lean only; used by the driver's
  `pfd` op).  In C `width precision len prefix_len postfix_len zero_left pad_count pc` are `int`; the model
  `layout` computes in unbounded integers.  `layoutC` evaluates the same expressions in the order C does
  and reports `undef` (signed overflow, undefined in C) as soon as an intermediate value leaves `int`.
  Props.lean: `layoutC_eq_layout` (no overflow below INT_MAX - 1000, same result) and the witness at
  precision INT_MAX (`%.2147483647f`: `pc += zero_left` overflows after 2^31 - 1 zeros were demanded).
-/
import IgrisModel.C13.Model
namespace Igris.C13
open Igris.C06 (Ops)

def INT_MAX : Int := 2147483647
def fitsInt (v : Int) : Bool := decide (-2147483648 ≤ v) && decide (v ≤ INT_MAX)

/-- an `int` result: `undef` when it is not representable -/
def ckInt (v : Int) : M Int := if fitsInt v then .ok v else .error .undef

/-- `layout` with every `int` expression checked, in C's evaluation order -/
def layoutC (cfg : Cfg) (ops : Ops) (width : Int) (pfx : List Char) (b : Buf) (zeroLeft : Int) : M (List Char × Int) := do
  let len : Int := b.body.length
  let postfixLen : Int := cstrlen b.post
  let prefixLen : Int := pfx.length
  -- pad_count = MAX(width - prefix_len - len - zero_left - postfix_len, 0);
  let t ← ckInt (width - prefixLen)
  let t ← ckInt (t - len)
  let t ← ckInt (t - zeroLeft)
  let t ← ckInt (t - postfixLen)
  let padCount : Int := max t 0
  -- pc += pad_count (left blanks) ; pc += prefix_len ; pc += pad_count (zeros) ; pc += len ; pc += zero_left ;
  -- pc += postfix_len ; pc += pad_count (right blanks): each sum is an `int`
  let pc ← ckInt (if !(ops.zero || ops.left) then padCount else 0)
  let pc ← ckInt (pc + prefixLen)
  let pc ← ckInt (if ops.zero && !(cfg.repaired && ops.left) then pc + padCount else pc)
  let pc ← ckInt (pc + len)
  let pc ← ckInt (pc + zeroLeft)
  let pc ← ckInt (pc + postfixLen)
  let _ ← ckInt (if ops.left then pc + (if ops.zero && !(cfg.repaired && ops.left) then -1 else padCount) else pc)
  layout cfg ops width pfx b zeroLeft

/-- `printF` with the emission part in C `int` arithmetic -/
def printFC {α : Type} (A : Arith α) (cfg : Cfg) (fuel : Nat) (r : α) (nanNeg : Bool) (width precision : Int) (ops : Ops)
    (withExp isShort : Bool) : M (List Char × Int) :=
  if cfg.repaired && (A.isnan r || A.isinf r) then nonFinite A cfg r nanNeg width ops
  else if !cfg.repaired && isShort then .error .unmodelled
  else do
    let r := if !cfg.repaired && A.isnan r then A.zero else r
    let neg := A.signbit r
    let r := if neg then A.neg r else r
    let pfx : List Char := if neg then ['-'] else if ops.sign then ['+'] else if ops.space then [' '] else []
    let d ← digitsOf A cfg fuel r precision ops withExp isShort
    let b ← fillBuf A cfg ops isShort d
    let zeroLeft : Int :=
      if isShort && (!cfg.repaired || !ops.spec) then 0 else d.precision - d.signCount
    layoutC cfg ops width pfx b zeroLeft

end Igris.C13
