/-
  C13 — first-class facts about the rounding of the software binary64 (`rnd64`):
  `ilog2` is the binary exponent, the result is within half a unit of the last place
  (the (1+δ) lemma, |δ| ≤ 2^-53 in the normal range, absolute 2^-1075 below), numbers
  `k * 2^E` with k ≤ 2^53, E ≥ -1074 below 2^1024 are fixed points, results are such numbers.
  (Mathlib is imported here for `linarith`/`positivity`/`zpow` only; Model/Main are core Lean.)
-/
import IgrisModel.C13.Model
import Mathlib.Tactic.Linarith
import Mathlib.Tactic.Positivity
import Mathlib.Tactic.Ring
import Mathlib.Tactic.FieldSimp
import Mathlib.Tactic.NormNum
import Mathlib.Tactic.SplitIfs
import Mathlib.Data.Rat.Floor
import Mathlib.Algebra.Order.Floor.Ring
namespace Igris.C13

theorem ratFloor_eq (q : ℚ) : q.floor = ⌊q⌋ := rfl

theorem pow2_eq (e : ℤ) : pow2 e = (2 : ℚ) ^ e := by
  unfold pow2
  split
  · rename_i h
    obtain ⟨n, rfl⟩ := Int.eq_ofNat_of_zero_le h
    simp
  · rename_i h
    have h' : e < 0 := by omega
    obtain ⟨n, hn⟩ := Int.exists_eq_neg_ofNat (le_of_lt h')
    subst hn
    simp

theorem pow2_pos (e : ℤ) : 0 < pow2 e := by rw [pow2_eq]; exact zpow_pos (by norm_num) e

theorem pow2_add (a b : ℤ) : pow2 (a + b) = pow2 a * pow2 b := by
  simp only [pow2_eq]; exact zpow_add₀ (by norm_num) a b

theorem pow2_succ (a : ℤ) : pow2 (a + 1) = 2 * pow2 a := by
  rw [pow2_add, mul_comm]; congr 1

theorem pow2_mono {a b : ℤ} (h : a ≤ b) : pow2 a ≤ pow2 b := by
  simp only [pow2_eq]; exact zpow_le_zpow_right₀ (by norm_num) h

theorem pow2_lt {a b : ℤ} (h : a < b) : pow2 a < pow2 b := by
  simp only [pow2_eq]; exact zpow_lt_zpow_right₀ (by norm_num) h

theorem pow2_nat (n : ℕ) : pow2 (n : ℤ) = (2 : ℚ) ^ n := by rw [pow2_eq]; simp

theorem pow2_53 : pow2 53 = (2 : ℚ) ^ 53 := pow2_nat 53

/-- `ilog2 q` is the binary exponent of a positive rational -/
theorem ilog2_spec {q : ℚ} (hq : 0 < q) : pow2 (ilog2 q) ≤ q ∧ q < pow2 (ilog2 q + 1) := by
  have hnum : 0 < q.num := Rat.num_pos.mpr hq
  obtain ⟨n, hn⟩ := Int.eq_ofNat_of_zero_le (le_of_lt hnum)
  have hn0 : n ≠ 0 := by
    intro h; rw [h] at hn
    have : q.num = 0 := by exact_mod_cast hn
    omega
  have hd0 : q.den ≠ 0 := q.den_nz
  have h1 := Nat.log2_self_le hn0
  have h2 := Nat.lt_log2_self (n := n)
  have h3 := Nat.log2_self_le hd0
  have h4 := Nat.lt_log2_self (n := q.den)
  have hmul : q * (q.den : ℚ) = (n : ℚ) := by
    have := Rat.mul_den_eq_num q
    rw [this, hn, Int.cast_natCast]
  have hdp : (0 : ℚ) < q.den := by exact_mod_cast Nat.pos_of_ne_zero hd0
  -- bounds as rationals
  have b1 : (2 : ℚ) ^ n.log2 ≤ n := by exact_mod_cast h1
  have b2 : (n : ℚ) < 2 ^ (n.log2 + 1) := by exact_mod_cast h2
  have b3 : (2 : ℚ) ^ q.den.log2 ≤ q.den := by exact_mod_cast h3
  have b4 : (q.den : ℚ) < 2 ^ (q.den.log2 + 1) := by exact_mod_cast h4
  have hlow : pow2 ((n.log2 : ℤ) - (q.den.log2 : ℤ) - 1) ≤ q := by
    have e1 : pow2 ((n.log2 : ℤ) - (q.den.log2 : ℤ) - 1) * (2 : ℚ) ^ (q.den.log2 + 1) = 2 ^ n.log2 := by
      rw [← pow2_nat, ← pow2_nat, ← pow2_add]; congr 1; push_cast; ring
    have hp : 0 < pow2 ((n.log2 : ℤ) - (q.den.log2 : ℤ) - 1) := pow2_pos _
    refine le_of_mul_le_mul_right ?_ hdp
    rw [hmul]
    calc pow2 ((n.log2 : ℤ) - (q.den.log2 : ℤ) - 1) * (q.den : ℚ)
        ≤ pow2 ((n.log2 : ℤ) - (q.den.log2 : ℤ) - 1) * 2 ^ (q.den.log2 + 1) :=
          mul_le_mul_of_nonneg_left (le_of_lt b4) (le_of_lt hp)
      _ = 2 ^ n.log2 := e1
      _ ≤ n := b1
  have hhigh : q < pow2 ((n.log2 : ℤ) - (q.den.log2 : ℤ) + 1) := by
    have e1 : pow2 ((n.log2 : ℤ) - (q.den.log2 : ℤ) + 1) * (2 : ℚ) ^ q.den.log2 = 2 ^ (n.log2 + 1) := by
      rw [← pow2_nat, ← pow2_nat, ← pow2_add]; congr 1; push_cast; ring
    have hp : 0 < pow2 ((n.log2 : ℤ) - (q.den.log2 : ℤ) + 1) := pow2_pos _
    refine lt_of_mul_lt_mul_right ?_ (le_of_lt hdp)
    rw [hmul]
    calc (n : ℚ) < 2 ^ (n.log2 + 1) := b2
      _ = pow2 ((n.log2 : ℤ) - (q.den.log2 : ℤ) + 1) * 2 ^ q.den.log2 := e1.symm
      _ ≤ pow2 ((n.log2 : ℤ) - (q.den.log2 : ℤ) + 1) * (q.den : ℚ) :=
          mul_le_mul_of_nonneg_left b3 (le_of_lt hp)
  unfold ilog2
  have hnn : q.num.toNat = n := by rw [hn]; simp
  simp only [hnn]
  split
  · rename_i h
    exact ⟨h, hhigh⟩
  · rename_i h
    refine ⟨hlow, ?_⟩
    have : (n.log2 : ℤ) - (q.den.log2 : ℤ) - 1 + 1 = (n.log2 : ℤ) - (q.den.log2 : ℤ) := by ring
    rw [this]
    exact lt_of_not_ge h

theorem ilog2_unique {q : ℚ} {e : ℤ} (h1 : pow2 e ≤ q) (h2 : q < pow2 (e + 1)) : ilog2 q = e := by
  have hq : 0 < q := lt_of_lt_of_le (pow2_pos e) h1
  obtain ⟨a, b⟩ := ilog2_spec hq
  by_contra hne
  rcases lt_or_gt_of_ne hne with h | h
  · have : pow2 (ilog2 q + 1) ≤ pow2 e := pow2_mono (by omega)
    linarith
  · have : pow2 (e + 1) ≤ pow2 (ilog2 q) := pow2_mono (by omega)
    linarith

/-- the unit in the last place used by `rnd64` -/
def ulpExp (q : ℚ) : ℤ := max (ilog2 q - 52) (-1074)

/-- the integer significand chosen by `rnd64` (round half to even of q / 2^E) -/
def sig64 (q : ℚ) : ℤ :=
  let s := q / pow2 (ulpExp q)
  let f : ℤ := s.floor
  let r := s - (f : ℚ)
  if r < 1 / 2 then f else if r > 1 / 2 then f + 1 else if f % 2 = 0 then f else f + 1

theorem rnd64_eq {q : ℚ} (hq : 0 < q) :
    rnd64 q = if (sig64 q : ℚ) * pow2 (ulpExp q) ≥ pow2 1024 then none else some ((sig64 q : ℚ) * pow2 (ulpExp q)) := by
  unfold rnd64 sig64 ulpExp
  simp only [not_le.mpr hq, if_false]

theorem sig64_near (q : ℚ) : |(sig64 q : ℚ) - q / pow2 (ulpExp q)| ≤ 1 / 2 := by
  unfold sig64
  generalize q / pow2 (ulpExp q) = s
  have h1 : ((s.floor : ℤ) : ℚ) ≤ s := Rat.floor_le s
  have h2 : s < (s.floor : ℚ) + 1 := by have := Rat.lt_floor_add_one s; push_cast at this; exact this
  by_cases c1 : s - (s.floor : ℚ) < 1 / 2
  · simp only [c1, if_true]; rw [abs_le]; constructor <;> linarith
  · simp only [c1, if_false]
    by_cases c2 : s - (s.floor : ℚ) > 1 / 2
    · simp only [c2, if_true]; push_cast; rw [abs_le]; constructor <;> linarith
    · simp only [c2, if_false]
      by_cases c3 : s.floor % 2 = 0
      · simp only [c3, if_true]; rw [abs_le]; constructor <;> linarith
      · simp only [c3, if_false]; push_cast; rw [abs_le]; constructor <;> linarith

theorem sig64_nonneg {q : ℚ} (hq : 0 ≤ q) : 0 ≤ sig64 q := by
  have hs0 : 0 ≤ q / pow2 (ulpExp q) := div_nonneg hq (le_of_lt (pow2_pos _))
  have hf : (0 : ℤ) ≤ (q / pow2 (ulpExp q)).floor := Rat.le_floor_iff.mpr (by exact_mod_cast hs0)
  unfold sig64
  dsimp only
  split_ifs <;> omega

/-- **half-ulp lemma**: a finite result of `rnd64` is within half a unit of the last place -/
theorem rnd64_err {q v : ℚ} (hq : 0 < q) (h : rnd64 q = some v) :
    |v - q| ≤ pow2 (ulpExp q) / 2 := by
  rw [rnd64_eq hq] at h
  split at h
  · simp at h
  · simp at h
    subst h
    have hp := pow2_pos (ulpExp q)
    have := sig64_near q
    have e : (sig64 q : ℚ) * pow2 (ulpExp q) - q = ((sig64 q : ℚ) - q / pow2 (ulpExp q)) * pow2 (ulpExp q) := by
      field_simp
    rw [e, abs_mul, abs_of_pos hp]
    calc |(sig64 q : ℚ) - q / pow2 (ulpExp q)| * pow2 (ulpExp q) ≤ 1 / 2 * pow2 (ulpExp q) :=
          mul_le_mul_of_nonneg_right this (le_of_lt hp)
      _ = pow2 (ulpExp q) / 2 := by ring

/-- **(1+δ) lemma**: in the normal range the relative error of one rounding is at most 2^-53 -/
theorem rnd64_rel {q v : ℚ} (hq : pow2 (-1022) ≤ q) (h : rnd64 q = some v) :
    |v - q| ≤ q * pow2 (-53) := by
  have hq0 : 0 < q := lt_of_lt_of_le (pow2_pos _) hq
  have he := rnd64_err hq0 h
  obtain ⟨a, b⟩ := ilog2_spec hq0
  have hlog : -1022 ≤ ilog2 q := by
    by_contra hc
    have : pow2 (ilog2 q + 1) ≤ pow2 (-1022) := pow2_mono (by omega)
    linarith
  have hE : ulpExp q = ilog2 q - 52 := by unfold ulpExp; omega
  rw [hE] at he
  have : pow2 (ilog2 q - 52) / 2 = pow2 (ilog2 q) * pow2 (-53) := by
    have : ilog2 q - 52 = ilog2 q + (-53) + 1 := by ring
    rw [this, pow2_succ, pow2_add]; ring
  rw [this] at he
  have hp := pow2_pos (-53)
  calc |v - q| ≤ pow2 (ilog2 q) * pow2 (-53) := he
    _ ≤ q * pow2 (-53) := mul_le_mul_of_nonneg_right a (le_of_lt hp)

/-- below the normal range the error is at most half of the smallest denormal -/
theorem rnd64_abs {q v : ℚ} (hq : 0 < q) (h : rnd64 q = some v) :
    |v - q| ≤ max (q * pow2 (-53)) (pow2 (-1075)) := by
  by_cases hn : pow2 (-1022) ≤ q
  · exact le_trans (rnd64_rel hn h) (le_max_left _ _)
  · have he := rnd64_err hq h
    obtain ⟨a, b⟩ := ilog2_spec hq
    have hlog : ilog2 q < -1022 := by
      by_contra hc
      have : pow2 (-1022) ≤ pow2 (ilog2 q) := pow2_mono (by omega)
      linarith
    have hE : ulpExp q = -1074 := by unfold ulpExp; omega
    rw [hE] at he
    have : pow2 (-1074) / 2 = pow2 (-1075) := by
      have : (-1074 : ℤ) = -1075 + 1 := by ring
      rw [this, pow2_succ]; ring
    rw [this] at he
    exact le_trans he (le_max_right _ _)

theorem rnd64_nonneg {q v : ℚ} (h : rnd64 q = some v) : 0 ≤ v := by
  by_cases hq : 0 < q
  · rw [rnd64_eq hq] at h
    split at h
    · simp at h
    · simp at h
      subst h
      have hp := pow2_pos (ulpExp q)
      have hs : (0 : ℚ) ≤ sig64 q := by exact_mod_cast sig64_nonneg (le_of_lt hq)
      positivity
  · unfold rnd64 at h
    simp only [not_lt.mp hq, if_true] at h
    simp at h; subst h; exact le_refl _

/-- numbers `k * 2^E` with `k ≤ 2^53`, `E ≥ -1074`, below 2^1024, are fixed points of `rnd64` -/
theorem rnd64_fix {k : ℕ} {E : ℤ} (hk : k ≤ 2 ^ 53) (hE : -1074 ≤ E) (hlt : (k : ℚ) * pow2 E < pow2 1024) :
    rnd64 ((k : ℚ) * pow2 E) = some ((k : ℚ) * pow2 E) := by
  by_cases hk0 : k = 0
  · subst hk0; simp [rnd64]
  have hkp : (0 : ℚ) < k := by exact_mod_cast Nat.pos_of_ne_zero hk0
  have hq : 0 < (k : ℚ) * pow2 E := mul_pos hkp (pow2_pos E)
  generalize hqd' : (k : ℚ) * pow2 E = q at hlt hq ⊢
  have hqd := hqd'.symm
  obtain ⟨a, b⟩ := ilog2_spec hq
  -- ilog2 q ≤ 52 + E ... unless k = 2^53 where it is 53 + E; in both cases ulpExp q ≤ E + 1; treat via divisibility
  have hkle : (k : ℚ) ≤ 2 ^ 53 := by exact_mod_cast hk
  have hle : ilog2 q ≤ 53 + E := by
    by_contra hc
    have h1 : pow2 (53 + E + 1) ≤ pow2 (ilog2 q) := pow2_mono (by omega)
    have h2 : q ≤ pow2 (53 + E) := by
      rw [pow2_add, hqd, pow2_53]
      exact mul_le_mul_of_nonneg_right hkle (le_of_lt (pow2_pos E))
    have h3 : pow2 (53 + E) < pow2 (53 + E + 1) := pow2_lt (by omega)
    linarith
  -- write q = k' * 2^(ulpExp q) with k' integer
  have hcase : ulpExp q ≤ E ∨ (ulpExp q = E + 1 ∧ k = 2 ^ 53) := by
    by_cases h53 : ilog2 q = 53 + E
    · right
      constructor
      · unfold ulpExp; omega
      · -- q ≥ 2^(53+E) forces k ≥ 2^53
        rw [h53, pow2_add, hqd] at a
        have : pow2 53 ≤ (k : ℚ) := le_of_mul_le_mul_right a (pow2_pos E)
        rw [pow2_53] at this
        have : 2 ^ 53 ≤ k := by exact_mod_cast this
        omega
    · left; unfold ulpExp; omega
  have hint : ∃ m : ℕ, q / pow2 (ulpExp q) = (m : ℚ) := by
    rcases hcase with h | ⟨h, hk2⟩
    · obtain ⟨d, hd⟩ := Int.eq_ofNat_of_zero_le (show 0 ≤ E - ulpExp q by omega)
      refine ⟨k * 2 ^ d, ?_⟩
      have : pow2 E = pow2 (ulpExp q) * pow2 (E - ulpExp q) := by rw [← pow2_add]; congr 1; ring
      have hp := pow2_pos (ulpExp q)
      rw [div_eq_iff (ne_of_gt hp)]
      calc q = (k : ℚ) * pow2 E := hqd
        _ = (k : ℚ) * (pow2 (ulpExp q) * pow2 (E - ulpExp q)) := by rw [← this]
        _ = ((k * 2 ^ d : ℕ) : ℚ) * pow2 (ulpExp q) := by rw [hd, pow2_nat]; push_cast; ring
    · refine ⟨2 ^ 52, ?_⟩
      have hp := pow2_pos E
      rw [h, pow2_succ, div_eq_iff (by positivity)]
      calc q = (k : ℚ) * pow2 E := hqd
        _ = ((2 ^ 52 : ℕ) : ℚ) * (2 * pow2 E) := by rw [hk2]; push_cast; ring
  obtain ⟨m, hm⟩ := hint
  have hsig : sig64 q = (m : ℤ) := by
    have hf : ((m : ℚ)).floor = (m : ℤ) := by exact_mod_cast Rat.floor_intCast (m : ℤ)
    unfold sig64
    simp only [hm, hf]
    simp
  rw [rnd64_eq hq, hsig]
  have hv : ((m : ℤ) : ℚ) * pow2 (ulpExp q) = q := by
    have hp := pow2_pos (ulpExp q)
    have : (m : ℚ) = q / pow2 (ulpExp q) := hm.symm
    push_cast
    rw [this]; field_simp
  rw [hv]
  simp only [ge_iff_le, not_le.mpr hlt, if_false]

/-- every finite result of `rnd64` has the form `k * 2^E`, `k ≤ 2^53`, `E ≥ -1074`,
where `E` is the exponent of the last place of the argument -/
theorem rnd64_form {q v : ℚ} (hq : 0 < q) (h : rnd64 q = some v) :
    ∃ k : ℕ, k ≤ 2 ^ 53 ∧ v = (k : ℚ) * pow2 (ulpExp q) ∧ v < pow2 1024 := by
  have hv0 := rnd64_nonneg h
  rw [rnd64_eq hq] at h
  split at h
  · simp at h
  · rename_i hlt
    simp at h
    obtain ⟨a, b⟩ := ilog2_spec hq
    have hp := pow2_pos (ulpExp q)
    -- s < 2^53
    have hs : q / pow2 (ulpExp q) < 2 ^ 53 := by
      rw [div_lt_iff₀ hp]
      have h1 : pow2 (ilog2 q + 1) ≤ pow2 (53 + ulpExp q) := pow2_mono (by unfold ulpExp; omega)
      have h2 : pow2 (53 + ulpExp q) = 2 ^ 53 * pow2 (ulpExp q) := by rw [pow2_add, pow2_53]
      linarith
    have hn := sig64_near q
    rw [abs_le] at hn
    have hsig : (sig64 q : ℚ) < 2 ^ 53 + 1 := by linarith [hn.2]
    have hsig' : sig64 q < 2 ^ 53 + 1 := by exact_mod_cast hsig
    have hsig0 : 0 ≤ sig64 q := by
      have : (0 : ℚ) ≤ (sig64 q : ℚ) * pow2 (ulpExp q) := by rw [h]; exact hv0
      have := nonneg_of_mul_nonneg_left this hp
      exact_mod_cast this
    obtain ⟨k, hk⟩ := Int.eq_ofNat_of_zero_le hsig0
    refine ⟨k, by omega, ?_, ?_⟩
    · rw [← h, hk]; simp
    · rw [← h]; exact lt_of_not_ge hlt

end Igris.C13
