/-
  C13 — what the property says about the text, as plain list functions
  (independent of the model's control flow).
-/
import IgrisModel.C06.Model
namespace Igris.C13
open Igris.C06 (Ops)

/-- the sign rule shared with the integer conversions: `-` for a negative value, else `+`
with the + flag, else a blank with the space flag -/
def signText (neg : Bool) (ops : Ops) : List Char :=
  if neg then ['-'] else if ops.sign then ['+'] else if ops.space then [' '] else []

/-- ISO C field layout of a numeric conversion: `digits` = integer digits, point and
generated fraction digits; `zeros` = trailing zeros that complete the precision;
`expo` = exponent text.  Padding to `width`: blanks on the right with `-`, else zeros
between sign and digits with `0`, else blanks on the left. -/
def specLayout (ops : Ops) (width : Int) (sign digits : List Char) (zeros : Nat) (expo : List Char) : List Char :=
  let core : Nat := sign.length + digits.length + zeros + expo.length
  let pad : Nat := (width - (core : Int)).toNat
  if ops.left then sign ++ digits ++ List.replicate zeros '0' ++ expo ++ List.replicate pad ' '
  else if ops.zero then sign ++ List.replicate pad '0' ++ digits ++ List.replicate zeros '0' ++ expo
  else List.replicate pad ' ' ++ sign ++ digits ++ List.replicate zeros '0' ++ expo

theorem specLayout_length (ops : Ops) (width : Int) (sign digits : List Char) (zeros : Nat) (expo : List Char) :
    ((specLayout ops width sign digits zeros expo).length : Int) =
      max width ((sign.length + digits.length + zeros + expo.length : Nat) : Int) := by
  unfold specLayout
  split
  · simp; omega
  · split <;> (simp; omega)

end Igris.C13
