/-
  C13 — totality: for a lawful rounding the loops of `print_f` terminate and no conversion
  `(int)x` is undefined, so `printF` returns `.ok` for every finite argument.
-/
import IgrisModel.C13.Laws
namespace Igris.C13
open Igris.C06 (Ops NUL)

/-- the arithmetic instance built from a rounding and a `pow` -/
def arithP (rnd : Rounding) (p : Nat → Nat → FV) : Arith FV := { arithOf rnd with pow := p }

theorem b64A_eq : b64A = arithP rnd64 powHost := rfl
theorem exactA_eq : exactA = arithP some (fun b n => FV.mk some false ((b : ℚ) ^ n)) := rfl

@[simp] theorem arithP_add (rnd : Rounding) (p : Nat → Nat → FV) : (arithP rnd p).add = FV.add rnd := rfl
@[simp] theorem arithP_mul (rnd : Rounding) (p : Nat → Nat → FV) : (arithP rnd p).mul = FV.mul rnd := rfl
@[simp] theorem arithP_div (rnd : Rounding) (p : Nat → Nat → FV) : (arithP rnd p).div = FV.div rnd := rfl
@[simp] theorem arithP_neg (rnd : Rounding) (p : Nat → Nat → FV) : (arithP rnd p).neg = FV.neg := rfl
@[simp] theorem arithP_fabs (rnd : Rounding) (p : Nat → Nat → FV) : (arithP rnd p).fabs = FV.fabs := rfl
@[simp] theorem arithP_round (rnd : Rounding) (p : Nat → Nat → FV) : (arithP rnd p).round = FV.round := rfl
@[simp] theorem arithP_modf (rnd : Rounding) (p : Nat → Nat → FV) : (arithP rnd p).modf = FV.modf := rfl
@[simp] theorem arithP_fmod (rnd : Rounding) (p : Nat → Nat → FV) : (arithP rnd p).fmod = FV.fmod := rfl
@[simp] theorem arithP_ge (rnd : Rounding) (p : Nat → Nat → FV) : (arithP rnd p).ge = FV.ge := rfl
@[simp] theorem arithP_lt (rnd : Rounding) (p : Nat → Nat → FV) : (arithP rnd p).lt = FV.lt := rfl
@[simp] theorem arithP_eq (rnd : Rounding) (p : Nat → Nat → FV) : (arithP rnd p).eq = FV.eq := rfl
@[simp] theorem arithP_signbit (rnd : Rounding) (p : Nat → Nat → FV) : (arithP rnd p).signbit = FV.signbit := rfl
@[simp] theorem arithP_isnan (rnd : Rounding) (p : Nat → Nat → FV) : (arithP rnd p).isnan = FV.isNaN := rfl
@[simp] theorem arithP_isinf (rnd : Rounding) (p : Nat → Nat → FV) : (arithP rnd p).isinf = FV.isInf := rfl
@[simp] theorem arithP_toInt (rnd : Rounding) (p : Nat → Nat → FV) : (arithP rnd p).toInt = FV.toInt := rfl
@[simp] theorem arithP_ofInt (rnd : Rounding) (p : Nat → Nat → FV) : (arithP rnd p).ofInt = FV.ofInt rnd := rfl
@[simp] theorem arithP_pow (rnd : Rounding) (p : Nat → Nat → FV) : (arithP rnd p).pow = p := rfl

/-- "the only possible failure is `fault`" — the complement of `Good` -/
def Fine {β : Type} (P : β → Prop) : M β → Prop
  | .ok v => P v
  | .error e => e = .fault

@[simp] theorem fine_ok {β : Type} (P : β → Prop) (v : β) : Fine P (.ok v : M β) ↔ P v := Iff.rfl
@[simp] theorem fine_pure {β : Type} (P : β → Prop) (v : β) : Fine P (pure v : M β) ↔ P v := Iff.rfl
@[simp] theorem fine_error {β : Type} (P : β → Prop) (e : Err) : Fine P (.error e : M β) ↔ e = .fault := Iff.rfl
@[simp] theorem fine_throw {β : Type} (P : β → Prop) (e : Err) : Fine P (throw e : M β) ↔ e = .fault := Iff.rfl

theorem Fine.bind {β γ : Type} {m : M β} {f : β → M γ} {Q : β → Prop} {P : γ → Prop}
    (hm : Fine Q m) (hf : ∀ v, Q v → Fine P (f v)) : Fine P (m >>= f) := by
  cases m with
  | ok v => exact hf v hm
  | error e => exact hm

theorem Fine.mono {β : Type} {m : M β} {Q P : β → Prop} (hm : Fine Q m) (h : ∀ v, Q v → P v) : Fine P m := by
  cases m with
  | ok v => exact h v hm
  | error e => exact hm

theorem fine_good {β : Type} {m : M β} {P Q : β → Prop} (h1 : Fine P m) (h2 : Good Q m) :
    ∃ v, m = .ok v ∧ P v ∧ Q v := by
  cases m with
  | ok v => exact ⟨v, rfl, h1, h2⟩
  | error e => exact absurd h1 h2

theorem flr_nonneg {m : ℚ} (h : 0 ≤ m) : 0 ≤ FV.flr m := by
  unfold FV.flr
  have : (0 : ℤ) ≤ m.floor := Rat.le_floor_iff.mpr (by exact_mod_cast h)
  exact_mod_cast this

theorem flr_le (m : ℚ) : FV.flr m ≤ m := Rat.floor_le m

theorem lt_flr_add_one (m : ℚ) : m < FV.flr m + 1 := by
  have := Rat.lt_floor_add_one m; unfold FV.flr; push_cast at this; exact this

section
variable {rnd : Rounding} (L : Lawful rnd) (p : Nat → Nat → FV)
include L

theorem mk_nat (n : Bool) (k : ℕ) (hk : k ≤ 2 ^ 53) : FV.mk rnd n (k : ℚ) = .fin n k := by
  simp [FV.mk, L.nat_exact k hk]

theorem ofInt_nat (k : ℕ) (hk : k ≤ 2 ^ 53) : (arithP rnd p).ofInt (k : ℤ) = .fin false k := by
  show FV.ofInt rnd (k : ℤ) = _
  unfold FV.ofInt
  have : ¬ ((k : ℤ) < 0) := by omega
  simp only [this, decide_false, Int.natAbs_natCast]
  exact mk_nat L false k hk

theorem ofInt_negNat (k : ℕ) (hk0 : 0 < k) (hk : k ≤ 2 ^ 53) : (arithP rnd p).ofInt (-(k : ℤ)) = .fin true k := by
  show FV.ofInt rnd (-(k : ℤ)) = _
  unfold FV.ofInt
  have : (-(k : ℤ) < 0) := by omega
  simp only [this, decide_true, Int.natAbs_neg, Int.natAbs_natCast]
  exact mk_nat L true k hk

theorem ten_eq : (arithP rnd p).ten = .fin false 10 := by
  have := ofInt_nat L p 10 (by norm_num); simpa [Arith.ten] using this
theorem one_eq : (arithP rnd p).one = .fin false 1 := by
  have := ofInt_nat L p 1 (by norm_num); simpa [Arith.one] using this
theorem zero_eq : (arithP rnd p).zero = .fin false 0 := by
  have := ofInt_nat L p 0 (by norm_num); simpa [Arith.zero] using this

/-- finite, magnitude in range -/
def FinS (L : Lawful rnd) (v : FV) : Prop := ∃ n m, v = .fin n m ∧ 0 ≤ m ∧ L.small m

theorem small_of_rnd {q v : ℚ} (h : rnd q = some v) : L.small v :=
  L.small_down (L.rep_succ_small h) (by linarith)

/-- `x / 10` (rounded) of a finite value in range is finite and in range, sign kept -/
theorem div_ten {n : Bool} {m : ℚ} (h0 : 0 ≤ m) (hs : L.small m) :
    ∃ w, FV.div rnd (.fin n m) (.fin false 10) = .fin n w ∧ 0 ≤ w ∧ L.small w ∧ rnd (m / 10) = some w := by
  have hs' : L.small (m / 10) := L.small_down hs (by linarith)
  obtain ⟨w, hw⟩ := L.rnd_small hs'
  refine ⟨w, ?_, L.nonneg (by positivity) hw, small_of_rnd L hw, hw⟩
  simp [FV.div, FV.mk, hw]

theorem finS_step {v : FV} (h : FinS L v) :
    FinS L ((arithP rnd p).modf ((arithP rnd p).div v (arithP rnd p).ten)).2 := by
  obtain ⟨n, m, rfl, h0, hs⟩ := h
  obtain ⟨w, hw, hw0, hws, _⟩ := div_ten L (n := n) h0 hs
  rw [ten_eq L p]
  simp only [arithP_modf, arithP_div]
  rw [hw]
  exact ⟨n, FV.flr w, rfl, flr_nonneg hw0, L.small_down hws (flr_le w)⟩

/-- `(int)fmod(x, 10)` of a non-negative finite value is a decimal digit -/
theorem digit_ok {m : ℚ} (h0 : 0 ≤ m) :
    ∃ c, toIntM (arithP rnd p) ((arithP rnd p).fmod (.fin false m) (arithP rnd p).ten) = .ok c ∧ 0 ≤ c ∧ c ≤ 9 ∧
      c = (m - FV.flr (m / 10) * 10).floor := by
  rw [ten_eq L p]
  show ∃ c, toIntM (arithP rnd p) (FV.fmod (.fin false m) (.fin false 10)) = .ok c ∧ _
  have e : FV.fmod (.fin false m) (.fin false 10) = .fin false (m - FV.flr (m / 10) * 10) := by
    simp [FV.fmod]
  rw [e]
  set t := m - FV.flr (m / 10) * 10 with ht
  have h1 := flr_le (m / 10)
  have h2 := lt_flr_add_one (m / 10)
  have t0 : 0 ≤ t := by rw [ht]; linarith
  have t10 : t < 10 := by rw [ht]; linarith
  have f0 : (0 : ℤ) ≤ t.floor := Rat.le_floor_iff.mpr (by exact_mod_cast t0)
  have f9 : t.floor ≤ 9 := by
    have : ((t.floor : ℤ) : ℚ) ≤ t := Rat.floor_le t
    have : ((t.floor : ℤ) : ℚ) < 10 := by linarith
    have : t.floor < 10 := by exact_mod_cast this
    omega
  refine ⟨t.floor, ?_, f0, f9, rfl⟩
  show toIntM (arithP rnd p) (.fin false t) = _
  unfold toIntM
  show (match FV.toInt (.fin false t) with | some v => _ | none => _) = _
  have : FV.toInt (.fin false t) = some t.floor := by
    unfold FV.toInt
    simp only [Bool.false_eq_true, if_false]
    rw [if_pos (by constructor <;> omega)]
  rw [this]


/-- finite, non-negative sign, magnitude in range -/
def NN (L : Lawful rnd) (v : FV) : Prop := ∃ m, v = .fin false m ∧ 0 ≤ m ∧ L.small m

theorem NN.finS {v : FV} (h : NN L v) : FinS L v := by
  obtain ⟨m, rfl, h0, hs⟩ := h; exact ⟨false, m, rfl, h0, hs⟩

theorem nn_step {v : FV} (h : NN L v) :
    NN L ((arithP rnd p).modf ((arithP rnd p).div v (arithP rnd p).ten)).2 := by
  obtain ⟨m, rfl, h0, hs⟩ := h
  obtain ⟨w, hw, hw0, hws, _⟩ := div_ten L (n := false) h0 hs
  rw [ten_eq L p]
  simp only [arithP_modf, arithP_div]
  rw [hw]
  exact ⟨FV.flr w, rfl, flr_nonneg hw0, L.small_down hws (flr_le w)⟩

theorem nn_div {v : FV} (h : NN L v) : NN L ((arithP rnd p).div v (arithP rnd p).ten) := by
  obtain ⟨m, rfl, h0, hs⟩ := h
  obtain ⟨w, hw, hw0, hws, _⟩ := div_ten L (n := false) h0 hs
  rw [ten_eq L p]
  simp only [arithP_div]
  rw [hw]
  exact ⟨w, rfl, hw0, hws⟩

omit L in
theorem fine_putPost (cfg : Cfg) (b : Buf) (c : Char) :
    Fine (fun b' => b' = { b with post := c :: b.post }) (putPost cfg b c) := by
  unfold putPost; split <;> simp
omit L in
theorem fine_putBody (cfg : Cfg) (b : Buf) (c : Char) :
    Fine (fun b' => b' = { b with body := c :: b.body }) (putBody cfg b c) := by
  unfold putBody; split <;> simp

theorem fine_digit {m : ℚ} (h0 : 0 ≤ m) :
    Fine (fun c => 0 ≤ c ∧ c ≤ 9)
      (toIntM (arithP rnd p) ((arithP rnd p).fmod (.fin false m) (arithP rnd p).ten)) := by
  obtain ⟨c, hc, h1, h2, _⟩ := digit_ok L p h0
  rw [hc]; exact ⟨h1, h2⟩

theorem expLoop_fine (cfg : Cfg) (upper : Bool) : ∀ (n : Nat) (ep : FV) (b : Buf), FinS L ep →
    Fine (fun _ => True) (expLoop (arithP rnd p) cfg upper n ep b) := by
  intro n
  induction n with
  | zero => intro ep b _; simp [expLoop]
  | succ n ih =>
    intro ep b h
    unfold expLoop
    obtain ⟨s, m, rfl, h0, hs⟩ := h
    have hf : (arithP rnd p).fabs (.fin s m) = .fin false m := rfl
    rw [hf]
    refine (fine_digit L p h0).bind fun c _ => ?_
    refine (fine_putPost cfg b _).bind fun b' _ => ?_
    dsimp only
    split
    · exact ih _ _ (finS_step L p ⟨s, m, rfl, h0, hs⟩)
    · simp

theorem fracLoop_fine (cfg : Cfg) (upper : Bool) : ∀ (n : Nat) (fp : FV) (b : Buf), NN L fp →
    Fine (fun _ => True) (fracLoop (arithP rnd p) cfg upper n fp b) := by
  intro n
  induction n with
  | zero => intro fp b _; simp [fracLoop]
  | succ n ih =>
    intro fp b h
    unfold fracLoop
    obtain ⟨m, rfl, h0, hs⟩ := h
    refine (fine_digit L p h0).bind fun c _ => ?_
    refine (fine_putBody cfg b _).bind fun b' _ => ?_
    exact ih _ _ (nn_step L p ⟨m, rfl, h0, hs⟩)

theorem intLoop_fine (cfg : Cfg) (upper : Bool) : ∀ (n : Nat) (ip : FV) (b : Buf), NN L ip →
    Fine (fun _ => True) (intLoop (arithP rnd p) cfg upper n ip b) := by
  intro n
  induction n with
  | zero => intro ip b _; simp [intLoop]
  | succ n ih =>
    intro ip b h
    unfold intLoop
    obtain ⟨m, rfl, h0, hs⟩ := h
    refine (fine_digit L p h0).bind fun c _ => ?_
    refine (fine_putBody cfg b _).bind fun b' _ => ?_
    dsimp only
    split
    · exact ih _ _ (nn_step L p ⟨m, rfl, h0, hs⟩)
    · simp

theorem fillBuf_fine (cfg : Cfg) (ops : Ops) (isShort : Bool) (d : Digits FV)
    (hep : FinS L d.ep) (hfp : NN L d.fp) (hip : NN L d.ip) :
    Fine (fun _ => True) (fillBuf (arithP rnd p) cfg ops isShort d) := by
  unfold fillBuf
  split
  · simp
  · refine Fine.bind (Q := fun _ => True) ?_ (fun b _ => ?_)
    · split
      · refine (expLoop_fine L p cfg ops.upper _ d.ep {} hep).bind fun r _ => ?_
        refine Fine.bind (Q := fun _ => True) ?_ (fun b1 _ => ?_)
        · split
          · exact (fine_putPost cfg _ _).mono fun _ _ => trivial
          · simp
        · refine (fine_putPost cfg _ _).bind fun b2 _ => ?_
          refine (fine_putPost cfg _ _).bind fun b3 _ => ?_
          split <;> simp
      · simp
    · refine (fracLoop_fine L p cfg ops.upper _ d.fp b hfp).bind fun b1 _ => ?_
      refine Fine.bind (Q := fun _ => True) ?_ (fun b2 _ => ?_)
      · split
        · exact (fine_putBody cfg _ _).mono fun _ _ => trivial
        · simp
      · exact intLoop_fine L p cfg ops.upper _ d.ip b2 hip

end

theorem fine_emitN {n : Int} (h : 0 ≤ n) (c : Char) : Fine (fun _ => True) (emitN n c) := by
  unfold emitN; simp [h]

theorem layout_fine (cfg : Cfg) (hr : cfg.repaired = true) (ops : Ops) (width : Int) (pfx : List Char) (b : Buf)
    (zl : Int) (hzl : 0 ≤ zl) : Fine (fun _ => True) (layout cfg ops width pfx b zl) := by
  have hm : 0 ≤ max (width - ↑pfx.length - ↑b.body.length - zl - ↑(cstrlen b.post)) 0 := Int.le_max_right ..
  unfold layout
  cases hz : ops.zero <;> cases hl : ops.left <;>
    simp [hz, hl, hr, bind, Except.bind, pure, Except.pure, emitN, hm, hzl, Fine]

/-! ### comparisons, signed small integers (the decimal exponent `ep`) -/

theorem ge_fin (n : Bool) (a : ℚ) (n' : Bool) (b : ℚ) :
    FV.ge (.fin n a) (.fin n' b) = decide (FV.sval n a ≥ FV.sval n' b) := by
  simp [FV.ge, FV.key, FV.isNaN]
theorem lt_fin (n : Bool) (a : ℚ) (n' : Bool) (b : ℚ) :
    FV.lt (.fin n a) (.fin n' b) = decide (FV.sval n a < FV.sval n' b) := by
  simp [FV.lt, FV.key, FV.isNaN]
  exact decide_eq_decide.mpr Iff.rfl
theorem eq_fin (n : Bool) (a : ℚ) (n' : Bool) (b : ℚ) :
    FV.eq (.fin n a) (.fin n' b) = decide (FV.sval n a = FV.sval n' b) := by
  simp [FV.eq, FV.key, FV.isNaN]
  exact decide_eq_decide.mpr Iff.rfl

theorem natAbs_cast_neg {z : ℤ} (h : z < 0) : ((z.natAbs : ℕ) : ℚ) = -(z : ℚ) := by
  rw [Nat.cast_natAbs, abs_of_neg h]; push_cast; ring
theorem natAbs_cast_nonneg {z : ℤ} (h : 0 ≤ z) : ((z.natAbs : ℕ) : ℚ) = (z : ℚ) := by
  rw [Nat.cast_natAbs, abs_of_nonneg h]

/-- the value `z` as `print_f` holds it in `ep` -/
def epv (z : ℤ) : FV := .fin (decide (z < 0)) ((z.natAbs : ℕ) : ℚ)

theorem sval_epv (z : ℤ) : FV.sval (decide (z < 0)) ((z.natAbs : ℕ) : ℚ) = (z : ℚ) := by
  unfold FV.sval
  by_cases h : z < 0
  · simp only [h, decide_true, if_true]
    rw [natAbs_cast_neg h]; ring
  · simp only [h, decide_false, Bool.false_eq_true, if_false]
    exact natAbs_cast_nonneg (not_lt.mp h)

theorem flr_ge_iff (x : ℚ) (k : ℕ) : FV.flr x ≥ (k : ℚ) ↔ (k : ℚ) ≤ x := by
  unfold FV.flr
  constructor
  · intro h; exact le_trans h (Rat.floor_le x)
  · intro h
    have : (k : ℤ) ≤ x.floor := Rat.le_floor_iff.mpr (by exact_mod_cast h)
    exact_mod_cast this

def ipOf (x : ℚ) : FV := .fin false (FV.flr x)
def fpOf (x : ℚ) : FV := .fin false (x - FV.flr x)

theorem modf_fin (x : ℚ) : FV.modf (.fin false x) = (fpOf x, ipOf x) := rfl

section
variable {rnd : Rounding} (L : Lawful rnd) (p : Nat → Nat → FV)
include L

theorem add_epv (z c : ℤ) (h : (z + c).natAbs ≤ 2 ^ 53) : FV.add rnd (epv z) (epv c) = epv (z + c) := by
  unfold epv
  simp only [FV.add, sval_epv]
  have hs : (z : ℚ) + (c : ℚ) = ((z + c : ℤ) : ℚ) := by push_cast; rfl
  rw [hs]
  by_cases h0 : z + c = 0
  · have hnb : (decide (z < 0) && decide (c < 0)) = false := by
      by_cases h1 : z < 0 <;> by_cases h2 : c < 0 <;> simp [h1, h2]; omega
    simp [h0, hnb]
  · have h0' : ¬ (((z + c : ℤ) : ℚ) = 0) := by exact_mod_cast h0
    simp only [h0', if_false]
    by_cases h1 : z + c < 0
    · have h1' : (((z + c : ℤ) : ℚ) < 0) := by exact_mod_cast h1
      simp only [h1', if_true, h1, decide_true]
      have : -(((z + c : ℤ)) : ℚ) = (((z + c).natAbs : ℕ) : ℚ) := (natAbs_cast_neg h1).symm
      rw [this]
      exact mk_nat L true _ h
    · have h1' : ¬ (((z + c : ℤ) : ℚ) < 0) := by exact_mod_cast h1
      simp only [h1', if_false, h1, decide_false]
      have : (((z + c : ℤ)) : ℚ) = (((z + c).natAbs : ℕ) : ℚ) := (natAbs_cast_nonneg (not_lt.mp h1)).symm
      rw [this]
      exact mk_nat L false _ h

theorem ofInt_epv (z : ℤ) (h : z.natAbs ≤ 2 ^ 53) : (arithP rnd p).ofInt z = epv z := by
  simp only [arithP_ofInt]
  unfold FV.ofInt epv
  exact mk_nat L _ _ h

omit L in
theorem add_modf {x : ℚ} (hx : rnd x = some x) (h0 : 0 ≤ x) : FV.add rnd (ipOf x) (fpOf x) = .fin false x := by
  unfold ipOf fpOf
  simp only [FV.add, FV.sval, Bool.false_eq_true, if_false]
  have : FV.flr x + (x - FV.flr x) = x := by ring
  rw [this]
  rcases lt_or_eq_of_le h0 with h | h
  · simp [ne_of_gt h, not_lt.mpr h0, FV.mk, hx]
  · simp [← h]

/-- `while (ip >= base)`: at most `N` passes when the value is below `10 * 8^N` -/
theorem normDown_total : ∀ (N fuel : ℕ) (x : ℚ) (k : ℕ), N ≤ fuel → rnd x = some x → 0 ≤ x → x < 10 * 8 ^ N →
    k + N ≤ 2 ^ 53 →
    ∃ (x' : ℚ) (j : ℕ), j ≤ N ∧ rnd x' = some x' ∧ 0 ≤ x' ∧ x' < 10 ∧ (j = 0 → x' = x) ∧ (0 < j → 7 / 8 ≤ x') ∧
      normDown (arithP rnd p) fuel (ipOf x) (fpOf x) (epv k) = .ok (ipOf x', fpOf x', epv ((k + j : ℕ) : ℤ)) := by
  intro N
  induction N with
  | zero =>
    intro fuel x k _ hx h0 hlt _
    have hge : (arithP rnd p).ge (ipOf x) (arithP rnd p).ten = false := by
      rw [ten_eq L p]; simp only [arithP_ge, ipOf, ge_fin, FV.sval, Bool.false_eq_true, if_false]
      have := (flr_ge_iff x 10).not.mpr (by push_cast; linarith)
      simpa using this
    refine ⟨x, 0, le_refl _, hx, h0, by linarith, fun _ => rfl, fun h => absurd h (lt_irrefl _), ?_⟩
    cases fuel <;> simp [normDown, hge]
  | succ N ih =>
    intro fuel x k hf hx h0 hlt hk
    by_cases h10 : x < 10
    · have hge : (arithP rnd p).ge (ipOf x) (arithP rnd p).ten = false := by
        rw [ten_eq L p]; simp only [arithP_ge, ipOf, ge_fin, FV.sval, Bool.false_eq_true, if_false]
        have := (flr_ge_iff x 10).not.mpr (by push_cast; linarith)
        simpa using this
      refine ⟨x, 0, Nat.zero_le _, hx, h0, h10, fun _ => rfl, fun h => absurd h (lt_irrefl _), ?_⟩
      cases fuel <;> simp [normDown, hge]
    · have h10' : 10 ≤ x := not_lt.mp h10
      have hge : (arithP rnd p).ge (ipOf x) (arithP rnd p).ten = true := by
        rw [ten_eq L p]; simp only [arithP_ge, ipOf, ge_fin, FV.sval, Bool.false_eq_true, if_false]
        have := (flr_ge_iff x 10).mpr (by push_cast; linarith)
        simpa using this
      obtain ⟨f, rfl⟩ : ∃ f, fuel = f + 1 := ⟨fuel - 1, by omega⟩
      have hsm : L.small x := small_of_rnd L hx
      obtain ⟨w, hw, hw0, hws, hrw⟩ := div_ten L (n := false) h0 hsm
      have hww : rnd w = some w := L.idem hrw
      -- error of the division
      have hrel := L.rel (by linarith : (0:ℚ) < x / 10) hrw
      have hmax : max (x / 10 * L.u) L.d ≤ x / 80 := by
        apply max_le
        · have := L.hu; have : x / 10 * L.u ≤ x / 10 * (1 / 8) := mul_le_mul_of_nonneg_left L.hu (by linarith)
          linarith
        · have := L.hd; linarith
      rw [abs_le] at hrel
      have hwle : w ≤ x / 8 := by linarith [hrel.2]
      have hwpos : 7 / 8 ≤ w := by linarith [hrel.1]
      have hstep : (arithP rnd p).modf ((arithP rnd p).div ((arithP rnd p).add (ipOf x) (fpOf x)) (arithP rnd p).ten)
          = (fpOf w, ipOf w) := by
        rw [ten_eq L p]; simp only [arithP_modf, arithP_div, arithP_add]
        rw [add_modf hx h0, hw, modf_fin]
      have hep : (arithP rnd p).add (epv k) (arithP rnd p).one = epv ((k + 1 : ℕ) : ℤ) := by
        rw [one_eq L p]; simp only [arithP_add]
        have := add_epv L (k : ℤ) 1 (by omega)
        have e1 : epv 1 = .fin false 1 := by simp [epv]
        rw [e1] at this
        rw [this]; push_cast; rfl
      obtain ⟨x', j, hj, hx', h0', hlt', hj0, hpos', hrun⟩ := ih f w (k + 1) (by omega) hww hw0
        (by have : (8:ℚ) ^ (N + 1) = 8 * 8 ^ N := by ring
            rw [this] at hlt; linarith) (by omega)
      refine ⟨x', j + 1, by omega, hx', h0', hlt', by omega, fun _ => ?_, ?_⟩
      · rcases Nat.eq_zero_or_pos j with hj' | hj'
        · rw [hj0 hj']; exact hwpos
        · exact hpos' hj'
      simp only [normDown, hge, if_true, hstep, hep]
      rw [hrun]
      have : ((k + 1 + j : ℕ) : ℤ) = ((k + (j + 1) : ℕ) : ℤ) := by push_cast; ring
      rw [this]

omit L in
theorem flr_eq_zero_iff {x : ℚ} (h0 : 0 ≤ x) : FV.flr x = 0 ↔ x < 1 := by
  constructor
  · intro h; have := lt_flr_add_one x; rw [h] at this; linarith
  · intro h
    have h1 := flr_le x
    have h2 := flr_nonneg h0
    unfold FV.flr at *
    have : ((x.floor : ℤ) : ℚ) < 1 := by linarith
    have : x.floor < 1 := by exact_mod_cast this
    have : (0 : ℤ) ≤ x.floor := by exact_mod_cast h2
    have : x.floor = 0 := by omega
    rw [this]; simp

theorem small_nat (n : ℕ) (hn : n ≤ 2 ^ 53) : L.small ((n : ℚ) + 1) := L.rep_succ_small (L.nat_exact n hn)

/-- `while (ip == 0)`: at most `N` passes when the value is at least `8^-N` -/
theorem normUp_total : ∀ (N fuel : ℕ) (x : ℚ) (z : ℤ), N ≤ fuel → rnd x = some x → 0 < x → 1 ≤ x * 8 ^ N →
    z.natAbs + N ≤ 2 ^ 53 → x < 12 →
    ∃ (x' : ℚ) (j : ℕ), j ≤ N ∧ rnd x' = some x' ∧ 1 ≤ x' ∧ x' < 12 ∧ (j = 0 → x' = x) ∧
      normUp (arithP rnd p) fuel (ipOf x) (fpOf x) (epv z) = .ok (ipOf x', fpOf x', epv (z - (j : ℤ))) := by
  intro N
  induction N with
  | zero =>
    intro fuel x z _ hx h0 h1 _ h12
    have hx1 : 1 ≤ x := by simpa using h1
    have heq : (arithP rnd p).eq (ipOf x) (arithP rnd p).zero = false := by
      rw [zero_eq L p]; simp only [arithP_eq, ipOf, eq_fin, FV.sval, Bool.false_eq_true, if_false]
      have := (flr_eq_zero_iff (le_of_lt h0)).not.mpr (by linarith)
      simpa using this
    refine ⟨x, 0, le_refl _, hx, hx1, h12, fun _ => rfl, ?_⟩
    cases fuel <;> simp [normUp, heq]
  | succ N ih =>
    intro fuel x z hf hx h0 h1 hz h12
    by_cases hx1 : 1 ≤ x
    · have heq : (arithP rnd p).eq (ipOf x) (arithP rnd p).zero = false := by
        rw [zero_eq L p]; simp only [arithP_eq, ipOf, eq_fin, FV.sval, Bool.false_eq_true, if_false]
        have := (flr_eq_zero_iff (le_of_lt h0)).not.mpr (by linarith)
        simpa using this
      refine ⟨x, 0, Nat.zero_le _, hx, hx1, h12, fun _ => rfl, ?_⟩
      cases fuel <;> simp [normUp, heq]
    · have hlt1 : x < 1 := not_le.mp hx1
      have heq : (arithP rnd p).eq (ipOf x) (arithP rnd p).zero = true := by
        rw [zero_eq L p]; simp only [arithP_eq, ipOf, eq_fin, FV.sval, Bool.false_eq_true, if_false]
        have := (flr_eq_zero_iff (le_of_lt h0)).mpr hlt1
        simpa using this
      obtain ⟨f, rfl⟩ : ∃ f, fuel = f + 1 := ⟨fuel - 1, by omega⟩
      have hsm : L.small (x * 10) := L.small_down (small_nat L 10 (by norm_num)) (by push_cast; linarith)
      obtain ⟨w, hrw⟩ := L.rnd_small hsm
      have hww : rnd w = some w := L.idem hrw
      have hrel := L.rel (by linarith : (0:ℚ) < x * 10) hrw
      have htiny : 2 * L.d ≤ x := by
        rcases L.rep_tiny (le_of_lt h0) hx with h | h
        · linarith
        · exact h
      have hmax : max (x * 10 * L.u) L.d ≤ x * 10 / 8 := by
        apply max_le
        · have : x * 10 * L.u ≤ x * 10 * (1 / 8) := mul_le_mul_of_nonneg_left L.hu (by linarith)
          linarith
        · have := L.hd0; linarith
      rw [abs_le] at hrel
      have hwge : 8 * x ≤ w := by linarith [hrel.1]
      have hwlt : w < 12 := by linarith [hrel.2]
      have hstep : (arithP rnd p).modf ((arithP rnd p).mul ((arithP rnd p).add (ipOf x) (fpOf x)) (arithP rnd p).ten)
          = (fpOf w, ipOf w) := by
        rw [ten_eq L p]; simp only [arithP_modf, arithP_mul, arithP_add]
        rw [add_modf hx (le_of_lt h0)]
        simp [FV.mul, FV.mk, hrw, modf_fin]
      have hep : (arithP rnd p).add (epv z) ((arithP rnd p).ofInt (-1)) = epv (z - 1) := by
        rw [ofInt_epv L p (-1) (by norm_num)]; simp only [arithP_add]
        have := add_epv L z (-1) (by omega)
        rw [this]; rfl
      obtain ⟨x', j, hj, hx', h1', h12', _, hrun⟩ := ih f w (z - 1) (by omega) hww (by linarith)
        (by have : (8:ℚ) ^ (N + 1) = 8 * 8 ^ N := by ring
            rw [this] at h1
            have h8 : (0:ℚ) ≤ 8 ^ N := by positivity
            nlinarith) (by omega) hwlt
      refine ⟨x', j + 1, by omega, hx', h1', h12', by omega, ?_⟩
      simp only [normUp, heq, if_true, hstep, hep]
      rw [hrun]
      have : z - 1 - (j : ℤ) = z - ((j + 1 : ℕ) : ℤ) := by push_cast; ring
      rw [this]

end
end Igris.C13
