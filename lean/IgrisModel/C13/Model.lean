/-
  C13 — executable model of `print_f` (igris/util/printf_impl.c), the engine of
  the conversions %f %F %e %E %g %G, after the `fix:` commits of branch fix-C13,
  and of the part of `__printf` that leads to it (the directive parser is the
  one of C06, imported read-only).

  The function is transcribed statement by statement (the C text is quoted next
  to each step) over an ABSTRACT ARITHMETIC INTERFACE `Arith α`: every floating
  operation the C code performs (`modf fmod pow roundl fabs signbit isnan isinf`,
  `+ * /`, comparisons, `(int)x` with an overflow verdict) is a field.  Two
  instances are built from one implementation `FV` (sign, magnitude as an exact
  rational, ±inf, NaN — i.e. IEEE-754 semantics including the signed zero)
  parameterised by the rounding function:
    * `exactA`  — no rounding, no overflow: exact arithmetic (theorems);
    * `b64A`    — round-to-nearest-even to binary64 with gradual underflow and
                  overflow to infinity: a bit-exact software double (driver).
  `pow` is the correctly rounded power; that the host libm agrees for
  `pow(10, n)`, n = 0..345, is checked on every run by the `ar pow` ops.

  The stack buffer `buff[PRINT_F_BUFF_SZ]` is explicit: the bytes stored so far
  (it is only ever filled downwards from its last byte) with the three regions
  the code distinguishes; a store when all `size` bytes are used is `fault`.
  `Cfg.repaired = false` gives the code as it was before the repairs (65 bytes,
  no loop guards, NaN := 0, no inf guard, `-` with `0`), used by the witness
  theorems; %g is modelled only in its repaired form (the original
  `ceill(log10(ip))` needs libm's log10 and was undefined behaviour for |x|<1).
  Core Lean only.
-/
import IgrisModel.C06.Model
namespace Igris.C13
open Igris.C06 (Ops Arg NUL hd flagsLoop getWidth getPrec getLen printS)

/-! ### the arithmetic interface -/

structure Arith (α : Type) where
  ofInt : Int → α                 -- conversion of an `int` (base, precision, constants)
  add : α → α → α
  mul : α → α → α
  div : α → α → α
  neg : α → α
  fabs : α → α
  round : α → α                   -- roundl: to nearest, halves away from zero
  modf : α → α × α                -- (fractional part, integral part), both with the sign of x
  fmod : α → α → α
  pow : Nat → Nat → α             -- POW(base, n)
  ge : α → α → Bool
  lt : α → α → Bool
  eq : α → α → Bool
  signbit : α → Bool
  isnan : α → Bool
  isinf : α → Bool
  toInt : α → Option Int          -- (int)x; `none` = not representable in int (undefined in C)

namespace Arith
variable {α : Type} (A : Arith α)
def ne (x y : α) : Bool := !A.eq x y
def zero : α := A.ofInt 0
def one : α := A.ofInt 1
def ten : α := A.ofInt 10
end Arith

/-! ### IEEE-style values over exact rationals, parameterised by the rounding -/

inductive FV
  | fin (neg : Bool) (mag : Rat)   -- (-1)^neg * mag, mag ≥ 0; `fin true 0` is -0
  | inf (neg : Bool)
  | nan
  deriving DecidableEq, Repr, Inhabited

/-- a rounding: magnitude ↦ representable magnitude, `none` = overflow -/
abbrev Rounding := Rat → Option Rat

namespace FV

def mk (rnd : Rounding) (neg : Bool) (q : Rat) : FV :=
  match rnd q with
  | some m => .fin neg m
  | none => .inf neg

def sval (neg : Bool) (m : Rat) : Rat := if neg then -m else m

def ofInt (rnd : Rounding) (i : Int) : FV := mk rnd (decide (i < 0)) ((i.natAbs : Int) : Rat)

def add (rnd : Rounding) : FV → FV → FV
  | .nan, _ => .nan
  | _, .nan => .nan
  | .inf a, .inf b => if a = b then .inf a else .nan
  | .inf a, .fin _ _ => .inf a
  | .fin _ _, .inf b => .inf b
  | .fin na a, .fin nb b =>
    let s := sval na a + sval nb b
    if s = 0 then .fin (na && nb) 0
    else if s < 0 then mk rnd true (-s) else mk rnd false s

def mul (rnd : Rounding) : FV → FV → FV
  | .nan, _ => .nan
  | _, .nan => .nan
  | .inf a, .inf b => .inf (a != b)
  | .inf a, .fin nb b => if b = 0 then .nan else .inf (a != nb)
  | .fin na a, .inf b => if a = 0 then .nan else .inf (na != b)
  | .fin na a, .fin nb b => mk rnd (na != nb) (a * b)

def div (rnd : Rounding) : FV → FV → FV
  | .nan, _ => .nan
  | _, .nan => .nan
  | .inf _, .inf _ => .nan
  | .inf a, .fin nb _ => .inf (a != nb)
  | .fin na _, .inf b => .fin (na != b) 0
  | .fin na a, .fin nb b =>
    if b = 0 then (if a = 0 then .nan else .inf (na != nb))
    else mk rnd (na != nb) (a / b)

def neg : FV → FV
  | .fin n m => .fin (!n) m
  | .inf n => .inf (!n)
  | .nan => .nan

def fabs : FV → FV
  | .fin _ m => .fin false m
  | .inf _ => .inf false
  | .nan => .nan

/-- floor of a non-negative magnitude, as a rational -/
def flr (m : Rat) : Rat := (m.floor : Rat)

def round : FV → FV
  | .fin n m => .fin n (flr (m + 1 / 2))
  | x => x

def modf : FV → FV × FV
  | .fin n m => (.fin n (m - flr m), .fin n (flr m))
  | .inf n => (.fin n 0, .inf n)
  | .nan => (.nan, .nan)

def fmod : FV → FV → FV
  | .nan, _ => .nan
  | _, .nan => .nan
  | .inf _, _ => .nan
  | .fin n m, .inf _ => .fin n m
  | .fin n m, .fin _ y => if y = 0 then .nan else .fin n (m - flr (m / y) * y)

/-- comparison key: infinities beyond every rational -/
def key : FV → Int × Rat
  | .fin n m => (0, sval n m)
  | .inf n => (if n then -1 else 1, 0)
  | .nan => (0, 0)

def isNaN : FV → Bool
  | .nan => true
  | _ => false

def ge (x y : FV) : Bool :=
  !x.isNaN && !y.isNaN &&
    (decide (x.key.1 > y.key.1) || (decide (x.key.1 = y.key.1) && decide (x.key.2 ≥ y.key.2)))

def lt (x y : FV) : Bool :=
  !x.isNaN && !y.isNaN &&
    (decide (x.key.1 < y.key.1) || (decide (x.key.1 = y.key.1) && decide (x.key.2 < y.key.2)))

def eq (x y : FV) : Bool :=
  !x.isNaN && !y.isNaN && decide (x.key.1 = y.key.1) && decide (x.key.2 = y.key.2)

def signbit : FV → Bool
  | .fin n _ => n
  | .inf n => n
  | .nan => false      -- the sign of a NaN is carried separately by the driver (see `printfF`)

def isInf : FV → Bool
  | .inf _ => true
  | _ => false

def toInt : FV → Option Int
  | .fin n m =>
    let t : Int := m.floor
    let v := if n then -t else t
    if -2147483648 ≤ v ∧ v ≤ 2147483647 then some v else none
  | _ => none

end FV

def arithOf (rnd : Rounding) : Arith FV where
  ofInt := FV.ofInt rnd
  add := FV.add rnd
  mul := FV.mul rnd
  div := FV.div rnd
  neg := FV.neg
  fabs := FV.fabs
  round := FV.round
  modf := FV.modf
  fmod := FV.fmod
  pow := fun b n => FV.mk rnd false ((b : Rat) ^ n)
  ge := FV.ge
  lt := FV.lt
  eq := FV.eq
  signbit := FV.signbit
  isnan := FV.isNaN
  isinf := FV.isInf
  toInt := FV.toInt

/-- exact arithmetic: nothing is rounded, nothing overflows -/
def exactA : Arith FV := arithOf some

/-! ### binary64 rounding -/

/-- 2^e as a rational -/
def pow2 (e : Int) : Rat :=
  if e ≥ 0 then ((2 ^ e.toNat : Nat) : Rat) else 1 / ((2 ^ (-e).toNat : Nat) : Rat)

/-- ⌊log₂ q⌋ for q > 0 -/
def ilog2 (q : Rat) : Int :=
  let e : Int := (q.num.toNat.log2 : Int) - (q.den.log2 : Int)
  if pow2 e ≤ q then e else e - 1

/-- round a non-negative rational to the nearest binary64 magnitude, ties to even;
`none` = the result is not below 2^1024 (overflow to infinity) -/
def rnd64 (q : Rat) : Option Rat :=
  if q ≤ 0 then some 0 else
  let e := ilog2 q
  let E := max (e - 52) (-1074)          -- exponent of the last place
  let s := q / pow2 E
  let f : Int := s.floor
  let r := s - (f : Rat)
  let m : Int := if r < 1 / 2 then f else if r > 1 / 2 then f + 1 else if f % 2 = 0 then f else f + 1
  let v := (m : Rat) * pow2 E
  if v ≥ pow2 1024 then none else some v

/-- `pow(10, n)` of the host libm (glibc, x86-64): the correctly rounded power except at
n = 23 and n = 210, where glibc returns the other neighbour (10^23 and 10^210 lie within
2^-11 ulp of the midpoint of two doubles; glibc documents < 1 ulp, not correct rounding).
The whole table n = 0..345 — every exponent `print_f` can ask for, since
sign_count ≤ PRINT_F_FRAC_MAX — is compared with the host on every run (`ar pow` ops). -/
def powHost (b n : Nat) : FV :=
  if b = 10 ∧ n = 23 then .fin false (((0x152d02c7e14af7 : Nat) : Rat) * pow2 24)
  else if b = 10 ∧ n = 210 then .fin false (((0x18557f31326bbc : Nat) : Rat) * pow2 645)
  else FV.mk rnd64 false ((b : Rat) ^ n)

/-- bit-exact software binary64 (with the host's `pow`) -/
def b64A : Arith FV := { arithOf rnd64 with pow := powHost }

/-- decode IEEE-754 binary64 bits (the sign of a NaN is dropped) -/
def ofBits (b : Nat) : FV :=
  let neg := decide ((b >>> 63) % 2 = 1)
  let e : Nat := (b >>> 52) % 2048
  let f : Nat := b % 2 ^ 52
  if e = 2047 then (if f = 0 then .inf neg else .nan)
  else if e = 0 then .fin neg ((f : Rat) * pow2 (-1074))
  else .fin neg ((((2 : Nat) ^ 52 + f : Nat) : Rat) * pow2 ((e : Int) - 1075))

/-- encode a representable value; `none` for NaN -/
def toBits : FV → Option Nat
  | .nan => none
  | .inf n => some ((if n then 2 ^ 63 else 0) + 2047 * 2 ^ 52)
  | .fin n m =>
    let s := if n then 2 ^ 63 else 0
    if m ≤ 0 then some s else
    let e := ilog2 m
    if e < -1022 then some (s + (m * pow2 1074).floor.toNat)
    else some (s + ((e + 1023).toNat) * 2 ^ 52 + ((m * pow2 (52 - e)).floor.toNat - 2 ^ 52))

/-- decode an x87 80-bit extended value: `se` = sign and 15-bit exponent, `m` = the 64-bit
significand with its explicit integer bit (value m·2^(e-16383-63); e = 0: m·2^-16445) -/
def ofBits80 (se m : Nat) : FV :=
  let neg := decide ((se / 32768) % 2 = 1)
  let e : Nat := se % 32768
  if e = 32767 then (if m % 2 ^ 63 = 0 then .inf neg else .nan)
  else if e = 0 then .fin neg ((m : Rat) * pow2 (-16445))
  else .fin neg ((m : Rat) * pow2 ((e : Int) - 16446))

/-- `(double)r` of a long double: one rounding to nearest even (overflow to infinity, gradual
underflow); `print_f` narrows its `long double` parameter to `DOUBLE` before anything else -/
def cvt64 : FV → FV
  | .fin n m => FV.mk rnd64 n m
  | x => x

/-! ### print_f -/

structure Cfg where
  size : Nat       -- PRINT_F_BUFF_SZ
  fracMax : Nat    -- PRINT_F_FRAC_MAX
  expMax : Nat     -- PRINT_F_EXP_MAX
  repaired : Bool  -- false: the code before the fix: commits
  deriving DecidableEq, Repr

/-- the constants of the repaired code -/
def cfgNow : Cfg := { size := 352, fracMax := 340, expMax := 5, repaired := true }
/-- the constants of the original code -/
def cfgOrig : Cfg := { size := 65, fracMax := 0, expMax := 0, repaired := false }

inductive Res
  | done (out : List Char) (pc : Int)   -- characters handed to the callback, returned value
  | fault          -- a byte was stored in front of buff[0]
  | undef          -- (int)x of a value outside int
  | diverged       -- a loop did not end (fuel of the normalisation loops; a negative repeat count)
  | unmodelled     -- not a floating directive / original %g
  deriving DecidableEq, Repr

inductive Err | fault | undef | diverged | unmodelled
  deriving DecidableEq, Repr

abbrev M := Except Err

/-- `buff`, as far as it is filled: it is only ever written downwards from its last byte -/
structure Buf where
  post : List Char := []   -- from `postfix` up to the terminator in buff[size-1]
  sep : Bool := false      -- the terminator stored at `postfix - 1` (`*end = '\0'` of the exponent branch)
  body : List Char := []   -- from `str` up to `end`
  deriving DecidableEq, Repr

/-- bytes in use, counting the terminator in buff[size-1] -/
def Buf.used (b : Buf) : Nat := 1 + b.post.length + (if b.sep then 1 else 0) + b.body.length

/-- `*--postfix = c` -/
def putPost (cfg : Cfg) (b : Buf) (c : Char) : M Buf :=
  if b.used < cfg.size then .ok { b with post := c :: b.post } else .error .fault

/-- `*--str = c` -/
def putBody (cfg : Cfg) (b : Buf) (c : Char) : M Buf :=
  if b.used < cfg.size then .ok { b with body := c :: b.body } else .error .fault

/-- `if (ch >= 10) ch += letter_base - 10 - '0'; … = ch + '0'` stored into a `char` -/
def digitChar (upper : Bool) (ch : Int) : Char :=
  let ch := if ch ≥ 10 then ch + (if upper then 65 else 97) - 10 - 48 else ch
  Char.ofNat ((ch + 48) % 256).toNat

def toIntM {α : Type} (A : Arith α) (x : α) : M Int :=
  match A.toInt x with
  | some v => .ok v
  | none => .error .undef

/-- `while (ip >= base) fp = MODF((ip + fp) / base, &ip), ep += 1.0L;` -/
def normDown {α : Type} (A : Arith α) : Nat → α → α → α → M (α × α × α)
  | 0, ip, fp, ep => if A.ge ip A.ten then .error .diverged else .ok (ip, fp, ep)
  | n + 1, ip, fp, ep =>
    if A.ge ip A.ten then
      let (fp', ip') := A.modf (A.div (A.add ip fp) A.ten)
      normDown A n ip' fp' (A.add ep A.one)
    else .ok (ip, fp, ep)

/-- `while (ip == 0.0L) fp = MODF((ip + fp) * base, &ip), ep -= 1.0L;` -/
def normUp {α : Type} (A : Arith α) : Nat → α → α → α → M (α × α × α)
  | 0, ip, fp, ep => if A.eq ip A.zero then .error .diverged else .ok (ip, fp, ep)
  | n + 1, ip, fp, ep =>
    if A.eq ip A.zero then
      let (fp', ip') := A.modf (A.mul (A.add ip fp) A.ten)
      normUp A n ip' fp' (A.add ep (A.ofInt (-1)))
    else .ok (ip, fp, ep)

/-- `for (; (sign_count < precision) [&& (sign_count < PRINT_F_FRAC_MAX)] && (FMOD(fp, 1.0L) != 0.0L); ++sign_count) fp *= base;`
the first argument is the number of passes the integer conditions still allow -/
def scaleLoop {α : Type} (A : Arith α) : Nat → Nat → α → Nat × α
  | 0, sc, fp => (sc, fp)
  | n + 1, sc, fp =>
    if A.ne (A.fmod fp A.one) A.zero then scaleLoop A n (sc + 1) (A.mul fp A.ten) else (sc, fp)

/-- `for (; sign_count && (FMOD(fp, base) == 0.0L); --sign_count) fp /= base;` -/
def stripLoop {α : Type} (A : Arith α) : Nat → α → Nat × α
  | 0, fp => (0, fp)
  | sc + 1, fp =>
    if A.eq (A.fmod fp A.ten) A.zero then stripLoop A sc (A.div fp A.ten) else (sc + 1, fp)

/-- `do { ch = (int)FMOD(FABS(ep), base); …; *--postfix = ch + '0'; MODF(ep / base, &ep); }
    while ((ep != 0.0L) [&& (end - postfix < PRINT_F_EXP_MAX)]);` — `n` bounds the passes
(every pass stores one byte, so `size` passes always suffice) -/
def expLoop {α : Type} (A : Arith α) (cfg : Cfg) (upper : Bool) : Nat → α → Buf → M (α × Buf)
  | 0, _, _ => .error .fault
  | n + 1, ep, b => do
    let ch ← toIntM A (A.fmod (A.fabs ep) A.ten)
    let b ← putPost cfg b (digitChar upper ch)
    let ep := (A.modf (A.div ep A.ten)).2
    if A.ne ep A.zero && (!cfg.repaired || decide (b.post.length < cfg.expMax)) then expLoop A cfg upper n ep b
    else .ok (ep, b)

/-- `for (; i < sign_count; ++i) { ch = (int)FMOD(fp, base); …; *--str = ch + '0'; MODF(fp / base, &fp); }` -/
def fracLoop {α : Type} (A : Arith α) (cfg : Cfg) (upper : Bool) : Nat → α → Buf → M Buf
  | 0, _, b => .ok b
  | n + 1, fp, b => do
    let ch ← toIntM A (A.fmod fp A.ten)
    let b ← putBody cfg b (digitChar upper ch)
    fracLoop A cfg upper n (A.modf (A.div fp A.ten)).2 b

/-- `do { ch = (int)FMOD(ip, base); …; *--str = ch + '0'; MODF(ip / base, &ip); }
    while ((ip != 0.0L) [&& (str > &buff[0])]);` -/
def intLoop {α : Type} (A : Arith α) (cfg : Cfg) (upper : Bool) : Nat → α → Buf → M Buf
  | 0, _, _ => .error .fault
  | n + 1, ip, b => do
    let ch ← toIntM A (A.fmod ip A.ten)
    let b ← putBody cfg b (digitChar upper ch)
    let ip := (A.modf (A.div ip A.ten)).2
    if A.ne ip A.zero && (!cfg.repaired || decide (b.used < cfg.size)) then intLoop A cfg upper n ip b
    else .ok b

/-- `strlen` of a region that is followed by a terminator -/
def cstrlen (s : List Char) : Nat := (s.takeWhile (· ≠ NUL)).length

/-- `pc += n; while (n--) handler(c);` — a negative count never reaches zero -/
def emitN (n : Int) (c : Char) : M (List Char) :=
  if n ≥ 0 then .ok (List.replicate n.toNat c) else .error .diverged

/-- the five emission blocks at the end of `print_f` -/
def layout (cfg : Cfg) (ops : Ops) (width : Int) (pfx : List Char) (b : Buf) (zeroLeft : Int) : M (List Char × Int) := do
  -- len = (int)(end - str); postfix_len = (int)strlen(postfix);
  let len : Int := b.body.length
  let postfixLen : Int := cstrlen b.post
  let prefixLen : Int := pfx.length
  -- pad_count = MAX(width - prefix_len - len - zero_left - postfix_len, 0);
  let padCount : Int := max (width - prefixLen - len - zeroLeft - postfixLen) 0
  -- if (!(ops & (ZERO_PAD | LEFT_ALIGN))) { pc += pad_count; while (pad_count--) handler(' '); }
  let (out, pc, padCount) ←
    (if !(ops.zero || ops.left) then do
        let s ← emitN padCount ' '
        pure (s, (0 : Int) + padCount, (-1 : Int))
      else pure ([], (0 : Int), padCount) : M (List Char × Int × Int))
  -- pc += prefix_len; while (prefix_len--) handler(*prefix++);
  let pc := pc + prefixLen
  let out := out ++ pfx
  -- if ((ops & ZERO_PAD) [&& !(ops & LEFT_ALIGN)]) { pc += pad_count; while (pad_count--) handler('0'); }
  let (out, pc, padCount) ←
    (if ops.zero && !(cfg.repaired && ops.left) then do
        let s ← emitN padCount '0'
        pure (out ++ s, pc + padCount, (-1 : Int))
      else pure (out, pc, padCount) : M (List Char × Int × Int))
  -- pc += len; while (len--) handler(*str++);
  let pc := pc + len
  let out := out ++ b.body
  -- pc += zero_left; while (zero_left--) handler('0');
  let z ← emitN zeroLeft '0'
  let pc := pc + zeroLeft
  let out := out ++ z
  -- pc += postfix_len; while (postfix_len--) handler(*postfix++);
  let pc := pc + postfixLen
  let out := out ++ b.post.take (cstrlen b.post)
  -- if (ops & LEFT_ALIGN) { pc += pad_count; while (pad_count--) handler(' '); }
  if ops.left then do
    let s ← emitN padCount ' '
    pure (out ++ s, pc + padCount)
  else pure (out, pc)

/-- the text of the repaired code for infinities and NaN; `nanNeg` is the sign bit of a NaN
(which `FV` does not carry) -/
def nonFinite {α : Type} (A : Arith α) (cfg : Cfg) (r : α) (nanNeg : Bool) (width : Int) (ops : Ops) : M (List Char × Int) :=
  -- if (signbit(r)) buff[i++] = '-'; else if (ops & WITH_SIGN) buff[i++] = '+'; else if (ops & EXTRA_SPACE) buff[i++] = ' ';
  let sgn : List Char :=
    if (if A.isnan r then nanNeg else A.signbit r) then ['-'] else if ops.sign then ['+'] else if ops.space then [' '] else []
  -- strcpy(&buff[i], isnan(r) ? upper ? "NAN" : "nan" : upper ? "INF" : "inf");
  let txt : List Char :=
    if A.isnan r then (if ops.upper then ['N', 'A', 'N'] else ['n', 'a', 'n'])
    else (if ops.upper then ['I', 'N', 'F'] else ['i', 'n', 'f'])
  if sgn.length + 4 > cfg.size then .error .fault else
  -- return print_s(handler, data, buff, width, 0, ops & OPS_FLAG_LEFT_ALIGN);
  match printS (sgn ++ txt ++ [NUL]) width 0 { left := ops.left } with
  | some r => .ok r
  | none => .error .fault

/-- what `print_f` computes before it touches the buffer -/
structure Digits (α : Type) where
  ip : α
  fp : α
  ep : α
  signCount : Nat
  precision : Int
  withExp : Bool

/-- lines "precision = …" to "if (with_exp && (ip >= base)) …" of print_f (base 10) -/
def digitsOf {α : Type} (A : Arith α) (cfg : Cfg) (fuel : Nat) (r : α) (precision : Int) (ops : Ops)
    (withExp isShort : Bool) : M (Digits α) := do
  -- precision = ops & PREC_IS_GIVEN ? is_shortened ? MAX(precision, 1) : precision : PRINT_F_PREC_DEFAULT;
  let precision : Int := if ops.prec then (if isShort then max precision 1 else precision) else 6
  -- fp = MODF(r, &ip);
  let (fp, ip) := A.modf r
  -- if (with_exp || is_shortened) { ep = 0.0L; while …; if (fp != 0.0L) while …; if ((ep < -4) || (ep >= precision)) with_exp = 1; }
  let (ip, fp, ep, withExp) ←
    (if withExp || isShort then do
        let (ip, fp, ep) ← normDown A fuel ip fp A.zero
        let (ip, fp, ep) ← (if A.ne fp A.zero then normUp A fuel ip fp ep else pure (ip, fp, ep))
        let withExp := if A.lt ep (A.ofInt (-4)) || A.ge ep (A.ofInt precision) then true else withExp
        pure (ip, fp, ep, withExp)
      else pure (ip, fp, A.zero, withExp) : M (α × α × α × Bool))
  -- fp = with_exp ? fp : MODF(r, &ip);
  let (fp, ip) := if withExp then (fp, ip) else A.modf r
  -- precision -= is_shortened ? with_exp ? 1 : (int)ep + 1 : 0;
  let precision ← (if isShort then (if withExp then pure (precision - 1) else do
                      let e ← toIntM A ep
                      pure (precision - (e + 1))) else pure precision : M Int)
  -- for (; (sign_count < precision) && (sign_count < PRINT_F_FRAC_MAX) && (FMOD(fp, 1.0L) != 0.0L); ++sign_count) fp *= base;
  let passes : Nat := if cfg.repaired then min precision.toNat cfg.fracMax else precision.toNat
  let (signCount, fp) := scaleLoop A passes 0 fp
  -- fp = roundl(fp);
  let fp := A.round fp
  -- ip = precision ? fp != POW(base, sign_count) ? ip : ip + 1.0L : roundl(ip + fp);
  let pw := A.pow 10 signCount
  let ip := if precision ≠ 0 then (if A.ne fp pw then ip else A.add ip A.one) else A.round (A.add ip fp)
  -- fp = fp != POW(base, sign_count) ? fp : 0.0L;
  let fp := if A.ne fp pw then fp else A.zero
  -- if (is_shortened && !(ops & WITH_SPEC)) for (; sign_count && (FMOD(fp, base) == 0.0L); --sign_count) fp /= base;
  let (signCount, fp) := if cfg.repaired && isShort && !ops.spec then stripLoop A signCount fp else (signCount, fp)
  -- if (with_exp && (ip >= base)) fp = MODF((ip + fp) / base, &ip), ep += 1.0L;
  let (ip, fp, ep) :=
    if withExp && A.ge ip A.ten then
      let (fp', ip') := A.modf (A.div (A.add ip fp) A.ten)
      (ip', fp', A.add ep A.one)
    else (ip, fp, ep)
  pure { ip, fp, ep, signCount, precision, withExp }

/-- the buffer-filling part: exponent, fraction digits, point, integer digits -/
def fillBuf {α : Type} (A : Arith α) (cfg : Cfg) (ops : Ops) (isShort : Bool) (d : Digits α) : M Buf :=
  -- postfix = end = str = &buff[0] + sizeof buff - 1; *end = '\0';
  if cfg.size = 0 then .error .fault else do
  let b : Buf := {}
  let b ←
    (if d.withExp then do
        let (ep, b) ← expLoop A cfg ops.upper (if cfg.repaired then max cfg.expMax 1 else cfg.size + 1) d.ep b
        -- if ((strlen(postfix) == 1) && (base != 16)) *--postfix = '0';
        let b ← (if cstrlen b.post = 1 then putPost cfg b '0' else pure b)
        -- *--postfix = signbit(ep) ? '-' : '+';
        let b ← putPost cfg b (if A.signbit ep then '-' else '+')
        -- *--postfix = … ops & UPPER_CASE ? 'E' : 'e';
        let b ← putPost cfg b (if ops.upper then 'E' else 'e')
        -- str = end = postfix - 1; *end = '\0';
        if b.used < cfg.size then pure { b with sep := true } else throw Err.fault
      else pure b : M Buf)
  let b ← fracLoop A cfg ops.upper d.signCount d.fp b
  -- if ((precision && !is_shortened) || sign_count || (ops & WITH_SPEC)) *--str = '.';
  let b ← (if (d.precision ≠ 0 && !isShort) || d.signCount ≠ 0 || ops.spec then putBody cfg b '.' else pure b)
  intLoop A cfg ops.upper (cfg.size + 1) d.ip b

/-- `print_f(handler, data, r, width, precision, ops, 10, with_exp, is_shortened)` -/
def printF {α : Type} (A : Arith α) (cfg : Cfg) (fuel : Nat) (r : α) (nanNeg : Bool) (width precision : Int) (ops : Ops)
    (withExp isShort : Bool) : M (List Char × Int) :=
  if cfg.repaired && (A.isnan r || A.isinf r) then nonFinite A cfg r nanNeg width ops
  else if !cfg.repaired && isShort then .error .unmodelled
  else do
    -- (original) if (isnan(r)) r = 0.0;
    let r := if !cfg.repaired && A.isnan r then A.zero else r
    -- prefix = signbit(r) ? (r = -r, "-") : ops & WITH_SIGN ? "+" : ops & EXTRA_SPACE ? " " : "";
    let neg := A.signbit r
    let r := if neg then A.neg r else r
    let pfx : List Char := if neg then ['-'] else if ops.sign then ['+'] else if ops.space then [' '] else []
    let d ← digitsOf A cfg fuel r precision ops withExp isShort
    let b ← fillBuf A cfg ops isShort d
    -- zero_left = is_shortened && !(ops & WITH_SPEC) ? 0 : precision - sign_count;
    let zeroLeft : Int :=
      if isShort && (!cfg.repaired || !ops.spec) then 0 else d.precision - d.signCount
    layout cfg ops width pfx b zeroLeft

/-- outcome of one `print_f` call as a `Res` -/
def resOf : M (List Char × Int) → Res
  | .ok (out, pc) => .done out pc
  | .error .fault => .fault
  | .error .undef => .undef
  | .error .diverged => .diverged
  | .error .unmodelled => .unmodelled

/-! ### the way from `__printf` to `print_f` -/

def isFloatConv (c : Char) : Bool := c = 'f' || c = 'F' || c = 'e' || c = 'E' || c = 'g' || c = 'G'

/-- one `%` directive of the format: the C06 parser, then `case 'f': … case 'G':` -/
def directive {α : Type} (A : Arith α) (cfg : Cfg) (fuel : Nat) (begin : List Char) (stars : List Arg) (x : α) (nanNeg : Bool)
    (allowL : Bool := false) : M (List Char × Int × List Char × List Arg) :=
  let (s, ops) := flagsLoop begin.tail {}
  match getWidth s stars ops with
  | none => .error .unmodelled
  | some (width, s, stars, ops) =>
    match getPrec s stars ops with
    | none => .error .unmodelled
    | some (precision, s, stars, ops) =>
      let (s, ops) := getLen s ops
      -- char c = *format; ops |= isupper(c) ? OPS_SPEC_UPPER_CASE : 0;
      let c := hd s
      let ops := if c.isUpper then { ops with upper := true } else ops
      -- `allowL`: the argument `x` is the long double of an `L` directive, already narrowed by
      -- print_f's first statement `r = (DOUBLE)r` (see `cvt64`); without it an `L` is not modelled
      if isFloatConv c && (allowL || ops.len ≠ .bigL) then
        -- tmp.ld = ops & OPS_LEN_LONGFP ? va_arg(args, long double) : va_arg(args, double);
        -- print_f(…, tmp.ld, width, precision, ops, 10, tolower(c) == 'e', tolower(c) == 'g')
        match printF A cfg fuel x nanNeg width precision ops (c = 'e' || c = 'E') (c = 'g' || c = 'G') with
        | .ok (out, pc) => .ok (out, pc, s.tail, stars)
        | .error e => .error e
      else .error .unmodelled

/-- `for (begin = format; *format; begin = ++format)` for formats made of literal text and
floating directives, all of which print the same argument `x` (the ops carry one) -/
def fmtLoop {α : Type} (A : Arith α) (cfg : Cfg) (fuel : Nat) (x : α) (nanNeg : Bool) (allowL : Bool := false) :
    Nat → List Char → List Arg → List Char → Int → Res
  | _, [], _, out, pc => .done out pc
  | 0, _ :: _, _, _, _ => .diverged
  | n + 1, c :: cs, stars, out, pc =>
    if c = NUL then .done out pc
    else if c ≠ '%' then fmtLoop A cfg fuel x nanNeg allowL n cs stars (out ++ [c]) (pc + 1)
    else
      match directive A cfg fuel (c :: cs) stars x nanNeg allowL with
      | .ok (emit, dpc, rest, stars) => fmtLoop A cfg fuel x nanNeg allowL n rest stars (out ++ emit) (pc + dpc)
      | .error .fault => .fault
      | .error .undef => .undef
      | .error .diverged => .diverged
      | .error .unmodelled => .unmodelled

/-- fuel of the two normalisation loops used by the driver: a binary64 needs at most 308
divisions / 324 multiplications by ten -/
def FUEL : Nat := 1200

def printfF {α : Type} (A : Arith α) (cfg : Cfg) (fmt : List Char) (stars : List Arg) (x : α) (nanNeg : Bool)
    (allowL : Bool := false) : Res :=
  fmtLoop A cfg FUEL x nanNeg allowL (fmt.length + 1) fmt stars [] 0

end Igris.C13
